(** ReaderGSegs: texts made of flat items and multiplied branches, the multiplied branch at ANY depth
    and behind sibling branches of its anchor.

    A multiplied branch ("unit") is written "(" body ")" [sym] "|" count [sym]; its anchor is the node
    in front of it (an ordinary item, possibly followed by sibling branches).  The reader reads such a
    text as the grammar's machine reads the tokens with the copies written out, PROVIDED the recipe
    table is in order where the unit stands ([gtrack]): since the outermost open branch was opened,
    no branch was closed other than sibling branches of the unit's own anchor directly in front of
    it (the remaining defect class stale_recipe is exactly the complement), and the unit contains
    neither ring markers nor nested branches (ring_in_unit, nested_in_unit). *)
From Coq Require Import String.
From Coq Require Import List Ascii ZArith Bool Lia.
From CGV Require Import Base.PyBase Base.PyVal Base.NxGraph Base.PyGen Gen.ReaderGen Dialect.DialectImpl
     Reader.ReaderImpl Reader.Grammar Reader.ReaderLemmas Reader.Lin Reader.GraphLemmas Reader.ReaderSim Reader.ReaderMult
     Reader.ReaderUnit Reader.ReaderLast Reader.ReaderX Reader.ReaderUnitGen Reader.ReaderTrack.
Import ListNotations.
Open Scope Z_scope.

(** ** keys of the recipe table *)
Lemma oz_eqb_eq a b : oz_eqb a b = true -> a = b.
Proof. destruct a, b; cbn; try discriminate; [|reflexivity]. intros H. apply Z.eqb_eq in H. now subst. Qed.
Lemma rec_get_notin k d : ~ In k (map fst d) -> rec_get k d = None.
Proof.
  induction d as [|[k' v] r IH]; cbn [map fst rec_get In]; intros H; [reflexivity|].
  destruct (oz_eqb k k') eqn:E; [apply oz_eqb_eq in E; subst; tauto|]. apply IH. tauto.
Qed.
Lemma rec_set_keys_in k v d : In k (map fst d) -> map fst (rec_set k v d) = map fst d.
Proof.
  induction d as [|[k' v'] r IH]; cbn [map fst rec_set In]; intros H; [contradiction|].
  destruct (oz_eqb k k') eqn:E; [reflexivity|]. cbn [map fst]. f_equal. apply IH.
  destruct H as [H|H]; [subst; now rewrite oz_eqb_refl in E|exact H].
Qed.
Lemma rec_set_keys_notin k v d : ~ In k (map fst d) -> map fst (rec_set k v d) = map fst d ++ [k].
Proof. intros H. rewrite (rec_set_absent _ _ _ (rec_get_notin _ _ H)), map_app. reflexivity. Qed.
Lemma rec_append_keys_in k e d : In k (map fst d) -> map fst (rec_append k e d) = map fst d.
Proof. intros H. unfold rec_append. now apply rec_set_keys_in. Qed.
Lemma map_fst_snoc {A B} (l : list (A * B)) : forall ks k, map fst l = ks ++ [k] ->
  exists l0 v, l = l0 ++ [(k, v)] /\ map fst l0 = ks.
Proof.
  induction l as [|[k0 v0] r IH]; intros ks k H; [destruct ks; discriminate|].
  destruct ks as [|k1 ks]; cbn [map fst app] in H.
  - injection H as -> Hr. destruct r; [|discriminate]. exists [], v0. split; reflexivity.
  - injection H as -> Hr. destruct (IH ks k Hr) as (l0 & v & -> & E). exists ((k1, v0) :: l0), v. split; [reflexivity|]. cbn. now rewrite E.
Qed.

(** ** the keys of the recipe table are pairwise different (all that a multiplied branch needs since the
    expansion slice starts at the closing anchor's own entry: fix ee9caf1) *)
Definition ninv (st : rstate) : Prop := NoDup (map fst (s_recipes st)).
Lemma ozdec (a b : option Z) : {a = b} + {a <> b}.
Proof. decide equality. apply Z.eq_dec. Qed.
Lemma nodup_snoc {A} (l : list A) k : NoDup l -> ~ In k l -> NoDup (l ++ [k]).
Proof.
  induction 1 as [|x l Hx Hl IH]; cbn [app]; intros Hk.
  - constructor; [intros []|constructor].
  - constructor.
    + intros C. apply in_app_or in C as [C|[C|[]]]; [now apply Hx|subst; apply Hk; now left].
    + apply IH. intros C. apply Hk. now right.
Qed.
Lemma rec_del_keys_incl k d y : In y (map fst (rec_del k d)) -> In y (map fst d).
Proof.
  induction d as [|[k' v] r IH]; cbn [rec_del map fst]; intros H; [exact H|].
  destruct (oz_eqb k k'); [now right|]. cbn [map fst] in H. destruct H as [H|H]; [now left|right; now apply IH].
Qed.
Lemma rec_del_nodup k d : NoDup (map fst d) -> NoDup (map fst (rec_del k d)) /\ ~ In k (map fst (rec_del k d)).
Proof.
  induction d as [|[k' v] r IH]; cbn [rec_del map fst]; intros H.
  - split; [constructor|intros []].
  - inversion H as [|? ? Hn Hr]; subst. destruct (oz_eqb k k') eqn:E.
    + apply oz_eqb_eq in E. subst. split; [exact Hr|exact Hn].
    + destruct (IH Hr) as [I1 I2]. cbn [map fst]. split.
      * constructor; [intros C; apply Hn; eapply rec_del_keys_incl; exact C|exact I1].
      * intros [C|C]; [subst; rewrite oz_eqb_refl in E; discriminate|now apply I2].
Qed.
Lemma rec_set_nodup k v d : NoDup (map fst d) -> NoDup (map fst (rec_set k v d)).
Proof.
  intros H. destruct (in_dec ozdec k (map fst d)) as [Hi|Hi].
  - now rewrite rec_set_keys_in.
  - rewrite rec_set_keys_notin by assumption. now apply nodup_snoc.
Qed.
Lemma rec_append_nodup k e d : NoDup (map fst d) -> NoDup (map fst (rec_append k e d)).
Proof. intros H. unfold rec_append. now apply rec_set_nodup. Qed.
Lemma opened_ninv st pc br ba rc : opened st pc = Ok (br, ba, rc) -> ninv st -> NoDup (map fst rc).
Proof.
  unfold opened, ninv. intros H Hn. destruct (Ascii.eqb pc "("%char).
  - destruct (match s_prev_node st with Some p => node_attrs (s_g st) p | None => Err EKey end) as [a|]; cbn [bind] in H; [|discriminate].
    injection H as _ _ <-. apply rec_set_nodup. now apply rec_del_nodup.
  - injection H as _ _ <-. exact Hn.
Qed.
(** ** the recipe table after one node of a flat item (closing or not) *)
Lemma node_step_lin_recipes fo i k st pc st1 : lin_ok fo i = true -> cont k ->
  node_step fo st pc (l_name i) (lin_tail_str i ++ k) = Ok st1 ->
  exists br ba rc e, opened st pc = Ok (br, ba, rc) /\
    let rc' := (if br then match rev ba with k0 :: _ => rec_append k0 e rc | [] => rc end else rc) in
    match l_close i with
    | None => s_branch_anchor st1 = ba /\ s_recipes st1 = rc'
    | Some _ => exists top stk, rev ba = top :: stk /\ s_branch_anchor st1 = rev stk /\ s_prev_node st1 = top
                                /\ s_recipes st1 = match rev stk with [] => [] | _ => rc' end
    end.
Proof.
  intros Hok Hk H. rewrite node_step_eq in H.
  destruct (opened st pc) as [[[br ba] rc]|]; cbn [bind] in H; [|discriminate].
  destruct (ring_scan (s_current st) _ 0 (clean_st (s_cycle st) [])) as [[rs rdx]|]; cbn [bind] in H; [|discriminate].
  destruct (bond_expr _ rdx) as [bo|]; cbn [bind] in H; [|discriminate].
  destruct (nmon_expr _ bo) as [[n bo2]|] eqn:En; cbn [bind] in H; [|discriminate].
  destruct (parse_graph_base_node fo (l_name i)) as [a|]; cbn [bind] in H; [|discriminate].
  exists br, ba, rc, (n, a, s_pbo st). split; [reflexivity|]. cbv zeta.
  assert (Hrec : exists rc', (if br then match rev ba with [] => Err EIndex | k0 :: _ => Ok (rec_append k0 (n, a, s_pbo st) rc) end else Ok rc) = Ok rc'
                 /\ rc' = (if br then match rev ba with k0 :: _ => rec_append k0 (n, a, s_pbo st) rc | [] => rc end else rc)).
  { destruct br; [|eexists; split; reflexivity]. destruct (rev ba); [cbn [bind] in H; discriminate|]. eexists; split; reflexivity. }
  destruct Hrec as (rc' & Erc & <-). rewrite Erc in H. cbn [bind] in H.
  destruct (add_nodes _ _ _ _ _ _ _ _) as [[[[g cu] pn] pb]|]; cbn [bind] in H; [|discriminate].
  destruct (l_close i) as [a'|] eqn:Ecl.
  - destruct (rev ba) as [|top stk] eqn:Erev.
    + rewrite lin_tail_split, Ecl in H. cbn [close_str app] in H.
      rewrite (close_all_first _ _ _ (lin_prefix_inner fo i Hok)) in H.
      unfold close_branch in H. cbn [s_branch_anchor] in H. rewrite Erev in H. discriminate.
    + assert (Eba : ba = rev (top :: stk)) by (rewrite <- Erev; now rewrite rev_involutive).
      rewrite (close_all_lin_some fo i a' k _ top stk Hok Ecl Hk) in H by exact Eba. injection H as <-.
      exists top, stk. repeat split.
  - rewrite (close_all_lin_none fo i k _ Hok Ecl Hk) in H. injection H as <-. split; reflexivity.
Qed.

(** ** the state of the recipe table relative to the open branches *)
Definition minv (md : mode) (st : rstate) : Prop :=
  match md with
  | Clean => map fst (s_recipes st) = s_branch_anchor st
  | Sib => map fst (s_recipes st) = s_branch_anchor st ++ [s_prev_node st]
  | Dirty => True
  end.
Definition mode_close (md : mode) (depth0 : bool) : mode :=
  if depth0 then Clean else match md with Clean => Sib | _ => Dirty end.
Definition mode_item (md : mode) (i : lin) (depth0 : bool) : mode :=
  match l_close i with None => mode_open md (l_open i) | Some _ => mode_close (mode_open md (l_open i)) depth0 end.

Lemma minv_item fo i k st x pc st1 s md : lin_ok fo i = true -> cont k ->
  Rel st x -> TI fo x s -> t_flag s = false -> minv md st -> Ascii.eqb pc "("%char = l_open i ->
  node_step fo st pc (l_name i) (lin_tail_str i ++ k) = Ok st1 ->
  minv (mode_item md i (is_nil (s_branch_anchor st1))) st1.
Proof.
  intros Hok Hk (Rg & Rc & Rp & Rcy & Rba & Rbr & Rpb) HT Hfl Hm Hpc Est.
  destruct (node_step_lin_recipes fo i k st pc st1 Hok Hk Est) as (br & ba & rc & e & Eop & Hrest). cbv zeta in Hrest.
  set (rc' := if br then match rev ba with k0 :: _ => rec_append k0 e rc | [] => rc end else rc) in *.
  (* the table behind the node itself *)
  assert (Hmid : match mode_open md (l_open i) with Clean => map fst rc' = ba | _ => True end).
  { unfold opened in Eop. rewrite Hpc in Eop. destruct (l_open i); cbn [mode_open].
    - destruct (s_prev_node st) as [p|] eqn:Esp; [|discriminate].
      destruct (node_attrs (s_g st) p) as [a|]; cbn [bind] in Eop; [|discriminate]. injection Eop as <- <- <-.
      assert (Hnotin : ~ In (Some p) (s_branch_anchor st)).
      { rewrite Rba, <- in_rev. apply (TI_prev_fresh fo x s p HT Hfl). now rewrite <- Rp. }
      unfold rc'. rewrite rev_app_distr. cbn [rev app].
      destruct md; cbn [minv] in Hm; [| |exact I]; try rewrite Esp in Hm.
      + assert (E1 : map fst (rec_set (Some p) [(1, a, Some 1)] (rec_del (Some p) (s_recipes st))) = s_branch_anchor st ++ [Some p])
          by (rewrite rec_del_absent by (apply rec_get_notin; rewrite Hm; exact Hnotin);
              rewrite rec_set_keys_notin; rewrite Hm; [reflexivity|exact Hnotin]).
        rewrite rec_append_keys_in; [exact E1|]. rewrite E1. apply in_or_app. right. now left.
      + assert (E1 : map fst (rec_set (Some p) [(1, a, Some 1)] (rec_del (Some p) (s_recipes st))) = s_branch_anchor st ++ [Some p])
          by (destruct (map_fst_snoc _ _ _ Hm) as (l0 & v0 & El0 & Ek0); rewrite El0;
              rewrite rec_del_app by (apply rec_get_notin; rewrite Ek0; exact Hnotin);
              rewrite rec_set_keys_notin; rewrite Ek0; [reflexivity|exact Hnotin]).
        rewrite rec_append_keys_in; [exact E1|]. rewrite E1. apply in_or_app. right. now left.
    - injection Eop as <- <- <-. destruct md; cbn [minv] in Hm; try exact I.
      unfold rc'. destruct (s_branching st); [|exact Hm].
      destruct (rev (s_branch_anchor st)) as [|k0 r0] eqn:Er; [exact Hm|].
      rewrite rec_append_keys_in; [exact Hm|]. rewrite Hm. apply in_rev. rewrite Er. now left. }
  assert (Hns : mode_open md (l_open i) <> Sib) by (destruct md, (l_open i); discriminate).
  unfold mode_item. destruct (l_close i) as [a'|].
  - destruct Hrest as (top & stk & Erev & Eba1 & Ep1 & Erc1). rewrite Eba1.
    destruct (rev stk) as [|z t] eqn:Ers; cbn [is_nil mode_close].
    + cbn [minv]. rewrite Erc1, Eba1. reflexivity.
    + destruct (mode_open md (l_open i)); cbn [minv]; try exact I.
      rewrite Erc1, Eba1, Ep1, Hmid. rewrite <- Ers.
      rewrite <- (rev_involutive ba), Erev. reflexivity.
  - destruct Hrest as (Eba1 & Erc1). destruct (mode_open md (l_open i)); cbn [minv]; try exact I; [|now elim Hns].
    now rewrite Erc1, Eba1.
Qed.

Lemma ninv_item fo i k st pc st1 : lin_ok fo i = true -> cont k -> ninv st ->
  node_step fo st pc (l_name i) (lin_tail_str i ++ k) = Ok st1 -> ninv st1.
Proof.
  intros Hok Hk Hn Est.
  destruct (node_step_lin_recipes fo i k st pc st1 Hok Hk Est) as (br & ba & rc & e & Eop & Hrest). cbv zeta in Hrest.
  pose proof (opened_ninv st pc br ba rc Eop Hn) as Hrc.
  assert (Hrc' : NoDup (map fst (if br then match rev ba with k0 :: _ => rec_append k0 e rc | [] => rc end else rc))).
  { destruct br; [|exact Hrc]. destruct (rev ba); [exact Hrc|now apply rec_append_nodup]. }
  unfold ninv. destruct (l_close i).
  - destruct Hrest as (top & stk & _ & _ & _ & ->). destruct (rev stk); [constructor|exact Hrc'].
  - destruct Hrest as (_ & ->). exact Hrc'.
Qed.

(** ** the static reading of a flat item and of a unit, in closed form *)
Lemma trun_rings rs ts s : trun (map ring_tok rs ++ ts) s = trun ts s.
Proof. induction rs as [|r t IH]; [reflexivity|]. cbn [map app trun ring_tok tstep]. exact IH. Qed.
Lemma trun_osym o ts s : trun (osym_tok o ++ ts) s
  = trun ts (tmk (t_cur s) (match o with Some sy => sym_ord sy | None => t_pend s end) (t_names s) (t_flag s)).
Proof. destruct o; [reflexivity|]. cbn [osym_tok app]. now destruct s. Qed.
Lemma trun_lin fo i s : lin_ok fo i = true -> trun (lin_toks i) s = item_track i s.
Proof.
  intros Hok. destruct (lin_ok_parts fo i Hok) as (_ & _ & Hm & Hc).
  assert (Hn1 : (1 <= mult_val (l_mult i))%nat) by (unfold mult_val; destruct (l_mult i); [tauto|lia]).
  unfold lin_toks, item_track.
  assert (Hnode : forall s0, trun (TNode (l_name i) (mult_val (l_mult i)) :: map ring_tok (l_rings i) ++ osym_tok (l_bond i)
                                    ++ match l_close i with Some a => TClose :: osym_tok a | None => [] end) s0
                  = match l_close i with
                    | None => Some (tmk (Some (l_name i)) (oord (l_bond i)) (t_names s0) false)
                    | Some a => match t_names s0 with c :: r => Some (tmk (Some c) (oord a) r false) | [] => None end
                    end).
  { intros s0. cbn [trun tstep]. destruct (mult_val (l_mult i)) as [|n]; [lia|].
    rewrite trun_rings, trun_osym. cbn [tmk t_cur t_pend t_names t_flag].
    destruct (l_close i) as [a|].
    - rewrite Hc. cbn [trun tstep tmk t_names]. destruct (t_names s0) as [|c r]; [reflexivity|].
      rewrite <- (app_nil_r (osym_tok a)), trun_osym. cbn [trun tmk t_cur t_pend t_names t_flag]. now destruct a.
    - cbn [trun]. unfold tmk. now destruct (l_bond i). }
  destruct (l_open i); cbn [app].
  - assert (Eo : forall r, trun (TOpen :: r) s = match tstep s TOpen with Some s1 => trun r s1 | None => None end) by reflexivity.
    rewrite Eo. cbn [tstep]. destruct (t_flag s); [reflexivity|]. destruct (t_cur s) as [c|]; [|reflexivity]. now rewrite Hnode.
  - now rewrite Hnode.
Qed.

Lemma trun_body fo : forall body inc s, body <> [] -> body_ok fo inc body = true ->
  exists c p, trun (body_toks body) s = Some (tmk c p (t_names s) false).
Proof.
  induction body as [|b r IH]; intros inc s Hne Hok; [contradiction|].
  cbn [body_ok] in Hok. apply andb_prop in Hok as [Hok Hr]. apply andb_prop in Hok as [_ Hsn].
  pose proof (sn_okb_ok _ _ Hsn) as Hs.
  assert (Hn1 : (1 <= mult_val (bn_mult b))%nat) by (unfold mult_val; destruct (bn_mult b); [now destruct Hs|lia]).
  cbn [body_toks flat_map]. fold (body_toks r). unfold bnode_toks. cbn [app trun tstep].
  destruct (mult_val (bn_mult b)) as [|n]; [lia|]. rewrite trun_osym. cbn [tmk t_cur t_pend t_names t_flag].
  destruct r as [|b' r'].
  - cbn [body_toks flat_map trun]. eexists _, _. reflexivity.
  - destruct (IH (oord (bn_bond b)) (tmk (Some (bn_name b)) (match bn_bond b with Some sy => sym_ord sy | None => 1 end) (t_names s) false)
                 ltac:(discriminate) Hr) as (c & p & E).
    exists c, p. exact E.
Qed.
Lemma trun_copy fo u p ns : u_body u <> [] -> body_ok fo (oord (u_bond u)) (u_body u) = true ->
  trun (copy_toks u) (tmk (Some (u_name u)) p ns false) = Some (tmk (Some (u_name u)) 1 ns false).
Proof.
  intros Hne Hok. unfold copy_toks. rewrite trun_osym. cbn [tmk t_cur t_pend t_names t_flag trun tstep].
  rewrite trun_osym. cbn [tmk t_cur t_pend t_names t_flag trun tstep]. rewrite trun_app.
  destruct (trun_body fo (u_body u) _ (tmk (Some (u_name u)) (match u_bond u with Some sy => sym_ord sy | None => 1 end) (u_name u :: ns) true)
              Hne Hok) as (c & q & E).
  unfold tmk in E |- *. cbn [t_names] in E. rewrite E. reflexivity.
Qed.
Lemma trun_copies fo u ns : u_body u <> [] -> body_ok fo (oord (u_bond u)) (u_body u) = true ->
  forall n p ts, trun (concat (repeat (copy_toks u) n) ++ ts) (tmk (Some (u_name u)) p ns false)
  = trun ts (tmk (Some (u_name u)) (match n with O => p | _ => 1 end) ns false).
Proof.
  intros Hne Hok. induction n as [|n IH]; intros p ts; [reflexivity|].
  cbn [repeat concat]. rewrite <- app_assoc, trun_app, (trun_copy fo u p ns Hne Hok), IH. now destruct n.
Qed.
Definition gunit_toks (u : unit_t) : list tok := TOpen :: body_toks (u_body u) ++ rest_toks u.
Lemma trun_gunit fo u s : u_body u <> [] -> body_ok fo (oord (u_bond u)) (u_body u) = true ->
  t_cur s = Some (u_name u) -> t_flag s = false ->
  trun (gunit_toks u) s = Some (tmk (Some (u_name u)) (oord (u_after u)) (t_names s) false).
Proof.
  intros Hne Hok Ec Ef. unfold gunit_toks, rest_toks. cbn [trun tstep]. rewrite Ef, Ec. rewrite trun_app.
  destruct (trun_body fo (u_body u) _ {| t_cur := Some (u_name u); t_pend := t_pend s; t_names := u_name u :: t_names s; t_flag := true |}
              Hne Hok) as (c & q & E).
  rewrite E. cbn [trun tstep tmk t_names].
  change {| t_cur := Some (u_name u); t_pend := 1; t_names := t_names s; t_flag := false |} with (tmk (Some (u_name u)) 1 (t_names s) false).
  rewrite (trun_copies fo u (t_names s) Hne Hok).
  rewrite <- (app_nil_r (osym_tok (u_after u))), trun_osym. cbn [trun tmk t_cur t_pend t_names t_flag].
  unfold tmk, oord. destruct (u_after u); [reflexivity|]. now destruct (digits_nat (u_count u) - 1)%nat.
Qed.

(** ** a multiplied branch behind its anchor *)
Definition gunit_str (u : unit_t) : pystr := "("%char :: flat_map bnode_str (u_body u) ++ closing_str u.
Lemma gunit_ok_parts fo u : gunit_ok fo u = true ->
  name_ok fo (u_name u) = true /\ u_body u <> [] /\ body_ok fo (oord (u_bond u)) (u_body u) = true
  /\ last_bond_none (u_body u) /\ digits_ok (u_count u) = true /\ (1 <= digits_nat (u_count u))%nat.
Proof.
  unfold gunit_ok. intros Hok.
  apply andb_prop in Hok as [Hok HN]. apply andb_prop in Hok as [Hok Hd]. apply andb_prop in Hok as [Hok Hlb].
  apply andb_prop in Hok as [Hok Hbo]. apply andb_prop in Hok as [Hna Hne].
  apply Nat.leb_le in HN. repeat split; try assumption.
  - destruct (u_body u); [discriminate|discriminate].
  - unfold last_bond_none. destruct (rev (u_body u)) as [|z t]; [exact I|]. now destruct (bn_bond z).
Qed.

Lemma gunit_sim fo u K : gunit_ok fo u = true -> cont K ->
  forall st x pre pc f ak a0 rc,
  Rel st x -> m_prev x = Some ak -> node_attrs (m_g x) ak = Ok a0 -> parse_graph_base_node fo (u_name u) = Ok a0 ->
  m_pend x = oord (u_bond u) ->
  rec_set (Some ak) [(1, a0, Some 1)] (rec_del (Some ak) (s_recipes st)) = rc ++ [(Some ak, [(1, a0, Some 1)])] ->
  rec_get (Some ak) rc = None -> Forall skipch pre ->
  match m_run fo (gunit_toks u) x with
  | Ok x1 => exists st1 pre1,
      main_loop (length (u_body u) + f) fo pc (pre ++ gunit_str u ++ K) st = main_loop f fo "]"%char (pre1 ++ K) st1
      /\ Forall skipch pre1 /\ Rel st1 x1 /\ (m_stack x = [] -> s_recipes st1 = []) /\ m_stack x1 = m_stack x
      /\ (s_recipes st1 = [] \/ exists e, s_recipes st1 = rc ++ [(Some ak, e)])
  | Err e => main_loop (length (u_body u) + f) fo pc (pre ++ gunit_str u ++ K) st = Err e
  end.
Proof.
  intros Hok HK st x pre pc f ak a0 rc HR Ep Hat Ea0 Hpd Hset Habs Hpre.
  destruct (gunit_ok_parts fo u Hok) as (Hna & Hbne & Hbo & Hlb & Hd & HN).
  pose proof (unit_body_gen fo u ak a0 (m_stack x) rc [] K Ea0 Hna Hbo Hd (or_intror HK) eq_refl (fun C => False_ind _ (C eq_refl)) (Nat.le_0_l _)
                Habs (u_body u) true st x (pre ++ ["("%char]) pc f [] Hbne HR) as Hbody.
  cbn [closes_toks closes_str flat_map app length skipn] in Hbody. rewrite app_nil_r in Hbody.
  assert (Hf1 : m_stack x = m_stack x /\ m_prev x = Some ak
                /\ rec_set (Some ak) [(1, a0, Some 1)] (rec_del (Some ak) (s_recipes st)) = rc ++ [(Some ak, [(1, a0, Some 1)])]
                /\ node_attrs (m_g x) ak = Ok a0 /\ (@nil recipe_entry) = []) by (repeat split; assumption).
  specialize (Hbody Hf1). clear Hf1.
  assert (Hp1 : Ascii.eqb (last (pre ++ ["("%char]) pc) "("%char = true) by (now rewrite last_last).
  assert (Hnob : Forall nob (pre ++ ["("%char])).
  { apply Forall_app; split; [now apply skipch_nob|repeat constructor; discriminate]. }
  rewrite Hpd in Hbody. specialize (Hbody Hp1 Hnob Hbo Hlb ltac:(intros es_rest H; exact H)).
  cbn [app] in Hbody. fold (gunit_toks u) in Hbody.
  assert (Etl : pre ++ gunit_str u ++ K = (pre ++ ["("%char]) ++ flat_map bnode_str (u_body u) ++ closing_str u ++ K).
  { unfold gunit_str. rewrite <- !app_assoc. cbn [app]. now rewrite <- app_assoc. }
  rewrite Etl. destruct (m_run fo (gunit_toks u) x) as [x1|e]; [|exact Hbody].
  destruct Hbody as (st1 & pre1 & E & Hp & HR1 & Hrc & Hs & Htab). exists st1, pre1.
  split; [exact E|]. split; [exact Hp|]. split; [exact HR1|]. split; [|split; [exact Hs|exact Htab]]. intros E0. apply Hrc. now rewrite Hs.
Qed.

(** ** texts made of flat items and multiplied branches *)
Inductive gseg := GPlain (i : lin) | GUnit (u : unit_t).
Definition gseg_str (s : gseg) : pystr := match s with GPlain i => lin_str i | GUnit u => gunit_str u end.
Definition gseg_toks (s : gseg) : list tok := match s with GPlain i => lin_toks i | GUnit u => gunit_toks u end.
Definition gsegs_str (l : list gseg) : pystr := flat_map gseg_str l.
Definition gsegs_toks (l : list gseg) : list tok := flat_map gseg_toks l.
Definition gseg_nodes (s : gseg) : nat := match s with GPlain _ => 1%nat | GUnit u => length (u_body u) end.
Fixpoint gsegs_nodes (l : list gseg) : nat := match l with [] => O | s :: t => (gseg_nodes s + gsegs_nodes t)%nat end.
Definition gseg_ok (fo : float_oracle) (s : gseg) : bool := match s with GPlain i => lin_ok fo i | GUnit u => gunit_ok fo u end.

(** where a unit may stand: [md] is the state of the recipe table, [s] the names of the node to
    attach to and of the open anchors and the pending bond order.  A unit names its anchor and the
    order of the bond that reaches its first node ([u_name], [u_bond]); both must be what stands in
    front of it. *)
Fixpoint gtrack (md : mode) (s : tstate) (l : list gseg) : bool :=
  match l with
  | [] => true
  | GPlain i :: t =>
      match item_track i s with
      | None => false
      | Some s1 => gtrack (mode_item md i (is_nil (t_names s1))) s1 t
      end
  | GUnit u :: t =>
      negb (t_flag s) && (match md with Dirty => true | _ => true end)   (* any state of the recipe table (since fix ee9caf1) *)
      && (match t_cur s with Some c => str_eqb c (u_name u) | None => false end)
      && Z.eqb (t_pend s) (oord (u_bond u))
      && gtrack (if is_nil (t_names s) then Clean else Dirty) (tmk (Some (u_name u)) (oord (u_after u)) (t_names s) false) t
  end.
Definition gsegs_ok (fo : float_oracle) (l : list gseg) : bool := forallb (gseg_ok fo) l && gtrack Clean t_init l.

Lemma cont_gsegs fo l : forallb (gseg_ok fo) l = true -> cont (gsegs_str l ++ ["}"%char]).
Proof.
  destruct l as [|[i|u] t]; [constructor| |]; cbn [gsegs_str flat_map gseg_str forallb gseg_ok]; intros H.
  - unfold lin_str. destruct (l_open i); cbn [app]; rewrite <- ?app_assoc; cbn [app]; constructor.
  - apply andb_prop in H as [H _]. destruct (gunit_ok_parts fo u H) as (_ & Hne & _).
    unfold gunit_str. destruct (u_body u) as [|b r]; [contradiction|]. cbn [flat_map]. unfold bnode_str at 1. cbn [app]. constructor.
Qed.
Lemma is_nil_rev {A} (l : list A) : is_nil (rev l) = is_nil l.
Proof. destruct l as [|a r]; [reflexivity|]. cbn [rev]. now destruct (rev r). Qed.
Lemma Forall2_is_nil {A B} (R : A -> B -> Prop) l1 l2 : Forall2 R l1 l2 -> is_nil l1 = is_nil l2.
Proof. intros H. now destruct H. Qed.

Theorem sim_gsegs fo : forall l md s st x pre pc f,
  forallb (gseg_ok fo) l = true -> gtrack md s l = true ->
  Rel st x -> TI fo x s -> t_flag s = false -> minv md st -> ninv st ->
  Forall skipch pre -> pc <> "("%char ->
  match m_run fo (gsegs_toks l) x with
  | Ok x1 => exists st1, main_loop (gsegs_nodes l + Datatypes.S f) fo pc (pre ++ gsegs_str l ++ ["}"%char]) st = Ok st1 /\ Rel st1 x1
  | Err e => main_loop (gsegs_nodes l + Datatypes.S f) fo pc (pre ++ gsegs_str l ++ ["}"%char]) st = Err e
  end.
Proof.
  induction l as [|[i|u] t IH]; intros md s st x pre pc f Hok Htr HR HT Hfl Hm Hnv Hpre Hpc.
  - cbn [gsegs_toks flat_map m_run gsegs_str app gsegs_nodes plus main_loop]. exists st. split; [|assumption].
    rewrite next_node_skip by (now apply skipch_nob). now rewrite next_node_single.
  - (* a flat item *)
    cbn [forallb gseg_ok] in Hok. apply andb_prop in Hok as [Hoki Hokt].
    cbn [gtrack] in Htr. destruct (item_track i s) as [s1|] eqn:Eit; [|discriminate].
    cbn [gsegs_toks flat_map gseg_toks]. fold (gsegs_toks t). rewrite (m_item fo i (gsegs_toks t) x Hoki).
    cbn [gsegs_str flat_map gseg_str gsegs_nodes gseg_nodes plus]. fold (gsegs_str t).
    set (k := gsegs_str t ++ ["}"%char]).
    assert (Hk : cont k) by (now apply (cont_gsegs fo)).
    destruct (lin_ok_parts fo i Hoki) as (Hn & _).
    set (opn := if l_open i then ["("%char] else []).
    assert (Etext : pre ++ (lin_str i ++ gsegs_str t) ++ ["}"%char]
                  = (pre ++ opn) ++ "["%char :: "#"%char :: l_name i ++ "]"%char :: (lin_tail_str i ++ k)).
    { unfold lin_str, k, opn. rewrite <- !app_assoc. cbn [app]. rewrite <- !app_assoc. reflexivity. }
    rewrite Etext. cbn [main_loop].
    assert (Hopn : Forall nob (pre ++ opn)).
    { apply Forall_app; split; [now apply skipch_nob|]. unfold opn. destruct (l_open i); repeat constructor. discriminate. }
    rewrite next_node_skip by assumption. rewrite next_node_here by (now apply (name_chars fo)).
    assert (Hpc' : Ascii.eqb (last (pre ++ opn) pc) "("%char = l_open i).
    { unfold opn. destruct (l_open i).
      - rewrite last_last. reflexivity.
      - rewrite app_nil_r. apply Ascii.eqb_neq. now apply last_skipch. }
    pose proof (ti_wf fo x s HT) as Hw.
    assert (Hop2 : l_open i = true -> exists p, m_prev x = Some p /\ has_node (m_g x) p = true).
    { intros Ho. unfold item_track in Eit. rewrite Ho, Hfl in Eit. pose proof (ti_cur fo x s HT) as Hc.
      destruct (t_cur s) as [c|]; [|discriminate]. destruct Hc as (p & a & Ep & _ & Hat). exists p. split; [exact Ep|].
      now apply (node_attrs_has _ _ a). }
    assert (Hst : l_close i <> None -> (if l_open i then m_prev x :: m_stack x else m_stack x) <> []).
    { intros Hc. unfold item_track in Eit. destruct (l_open i); [discriminate|].
      destruct (l_close i); [|contradiction]. pose proof (ti_stack fo x s HT) as Hs2.
      destruct (t_names s); [discriminate|]. inversion Hs2. discriminate. }
    pose proof (node_step_lin fo i k st x _ Hoki Hk HR Hpc' Hop2 Hst) as Hstep.
    destruct (item_effect fo i x) as [x1|e] eqn:Eeff; cbn [bind]; [|now rewrite Hstep].
    destruct Hstep as (st1 & Est & HR1 & _). rewrite Est. cbn [bind].
    assert (Erun : m_run fo (lin_toks i) x = Ok x1).
    { rewrite <- (app_nil_r (lin_toks i)), (m_item fo i [] x Hoki), Eeff. reflexivity. }
    pose proof (m_run_TI fo _ x x1 s s1 Erun ltac:(now rewrite (trun_lin fo)) HT) as HT1.
    assert (Hfl1 : t_flag s1 = false).
    { unfold item_track in Eit. destruct (if l_open i then _ else _) as [ns|]; [|discriminate].
      destruct (l_close i); [destruct ns; [discriminate|]|]; injection Eit as <-; reflexivity. }
    pose proof (minv_item fo i k st x _ st1 s md Hoki Hk HR HT Hfl Hm Hpc' Est) as Hm1.
    assert (Enil : is_nil (s_branch_anchor st1) = is_nil (t_names s1)).
    { destruct HR1 as (_ & _ & _ & _ & Rba1 & _). rewrite Rba1, is_nil_rev. apply (Forall2_is_nil _ _ _ (ti_stack fo x1 s1 HT1)). }
    rewrite Enil in Hm1.
    unfold k. apply (IH _ s1 st1 x1 (lin_tail_str i) "]"%char f Hokt Htr HR1 HT1 Hfl1 Hm1 (ninv_item fo i k st _ st1 Hoki Hk Hnv Est)).
    + now apply (lin_tail_skipch fo).
    + discriminate.
  - (* a multiplied branch *)
    cbn [forallb gseg_ok] in Hok. apply andb_prop in Hok as [Hoku Hokt].
    cbn [gtrack] in Htr. apply andb_prop in Htr as [Htr Htrt]. apply andb_prop in Htr as [Htr Hpd].
    apply andb_prop in Htr as [Htr Hcur]. apply andb_prop in Htr as [_ Hmd]. apply Z.eqb_eq in Hpd.
    destruct (t_cur s) as [c|] eqn:Ecur; [|discriminate]. apply str_eqb_eq in Hcur. subst c.
    destruct (gunit_ok_parts fo u Hoku) as (Hna & Hbne & Hbo & Hlb & Hd & HN).
    pose proof (ti_cur fo x s HT) as Hc. rewrite Ecur in Hc. destruct Hc as (ak & a0 & Ep & Ea0 & Hat).
    cbn [gsegs_toks flat_map gseg_toks]. fold (gsegs_toks t). rewrite m_run_app.
    cbn [gsegs_str flat_map gseg_str gsegs_nodes gseg_nodes]. fold (gsegs_str t).
    set (K := gsegs_str t ++ ["}"%char]).
    assert (HK : cont K) by (now apply (cont_gsegs fo)).
    pose proof HR as (Rg & Rc & Rp & Rcy & Rba & Rbr & Rpb).
    assert (Hnotin : ~ In (Some ak) (s_branch_anchor st)).
    { rewrite Rba, <- in_rev. now apply (TI_prev_fresh fo x s ak HT Hfl). }
    destruct (rec_del_nodup (Some ak) (s_recipes st) Hnv) as [Hndrc Hninrc].
    set (rc := rec_del (Some ak) (s_recipes st)) in *.
    assert (Habs : rec_get (Some ak) rc = None) by (now apply rec_get_notin).
    assert (Hset : rec_set (Some ak) [(1, a0, Some 1)] rc = rc ++ [(Some ak, [(1, a0, Some 1)])]) by (now apply rec_set_absent).
    pose proof (gunit_sim fo u K Hoku HK st x pre pc (gsegs_nodes t + Datatypes.S f) ak a0 rc HR Ep Hat Ea0
                  (eq_trans (ti_pend fo x s HT) Hpd) Hset Habs Hpre) as Hu.
    replace (length (u_body u) + gsegs_nodes t + Datatypes.S f)%nat with (length (u_body u) + (gsegs_nodes t + Datatypes.S f))%nat by lia.
    rewrite <- app_assoc. fold K.
    destruct (m_run fo (gunit_toks u) x) as [x1|e] eqn:Erun; cbn [bind]; [|exact Hu].
    destruct Hu as (st1 & pre1 & -> & Hpre1 & HR1 & Hrc1 & Hstk1 & Htab1).
    assert (Hnv1 : ninv st1).
    { unfold ninv. destruct Htab1 as [->|(e1 & ->)]; [constructor|]. rewrite map_app. cbn [map fst]. now apply nodup_snoc. }
    pose proof (m_run_TI fo _ x x1 s _ Erun (trun_gunit fo u s Hbne Hbo Ecur Hfl) HT) as HT1.
    unfold K. apply (IH _ _ st1 x1 pre1 "]"%char f Hokt Htrt HR1 HT1 eq_refl); [|exact Hnv1|assumption|discriminate].
    destruct (t_names s) as [|n0 r0] eqn:En; cbn [is_nil minv]; [|exact I].
    pose proof (ti_stack fo x s HT) as Hs2. rewrite En in Hs2. inversion Hs2 as [E0|]; subst.
    destruct HR1 as (_ & _ & _ & _ & Rba1 & _). rewrite Rba1, Hstk1, <- E0. rewrite Hrc1 by (now rewrite <- E0). reflexivity.
Qed.

Lemma gseg_str_length s : (gseg_nodes s <= length (gseg_str s))%nat.
Proof.
  destruct s as [i|u]; cbn [gseg_nodes gseg_str].
  - unfold lin_str. rewrite app_length. cbn [length]. lia.
  - unfold gunit_str. repeat (rewrite app_length || cbn [length]).
    assert (H : (length (u_body u) <= length (flat_map bnode_str (u_body u)))%nat).
    { induction (u_body u) as [|b r IHr]; [cbn; lia|]. cbn [flat_map length]. rewrite app_length. unfold bnode_str at 1. cbn [length]. lia. }
    lia.
Qed.
Lemma gsegs_str_length l : (gsegs_nodes l <= length (gsegs_str l))%nat.
Proof.
  induction l as [|s t IH]; [cbn; lia|]. cbn [gsegs_nodes gsegs_str flat_map]. rewrite app_length. fold (gsegs_str t).
  pose proof (gseg_str_length s). lia.
Qed.

(** ** the theorem: shorthand text with multiplied branches at any depth = longhand tokens *)
Definition denote_gsegs (fo : float_oracle) (l : list gseg) : res graph := m_finish (m_run fo (gsegs_toks l) m_init).
Theorem reader_sim_gsegs fo l : gsegs_ok fo l = true ->
  read_cgsmiles fo ("{"%char :: gsegs_str l ++ ["}"%char]) = denote_gsegs fo l.
Proof.
  unfold gsegs_ok. intros H. apply andb_prop in H as [Hok Htr].
  unfold read_cgsmiles, denote_gsegs, m_finish.
  assert (Elast : last ("{"%char :: gsegs_str l ++ ["}"%char]) " "%char = "}"%char).
  { change ("{"%char :: gsegs_str l ++ ["}"%char]) with (("{"%char :: gsegs_str l) ++ ["}"%char]). apply last_last. }
  rewrite Elast.
  assert (HR : Rel init_state m_init) by (unfold Rel; cbn; repeat split; discriminate).
  pose proof (gsegs_str_length l) as Hlen.
  set (f := (length (gsegs_str l) + 2 - gsegs_nodes l)%nat).
  assert (Ef : Datatypes.S (length ("{"%char :: gsegs_str l ++ ["}"%char])) = (gsegs_nodes l + Datatypes.S f)%nat).
  { cbn [length]. rewrite app_length. cbn [length]. unfold f. lia. }
  rewrite Ef.
  pose proof (sim_gsegs fo l Clean t_init init_state m_init ["{"%char] "}"%char f Hok Htr HR (TI_init fo) eq_refl eq_refl (NoDup_nil _)
                ltac:(repeat constructor; discriminate) ltac:(discriminate)) as Hsim.
  cbn [app] in Hsim.
  destruct (m_run fo (gsegs_toks l) m_init) as [x1|e].
  - destruct Hsim as (st1 & -> & (Rg & _ & _ & Rcy & _)). cbn [bind]. rewrite Rcy, Rg. reflexivity.
  - rewrite Hsim. reflexivity.
Qed.
Print Assumptions reader_sim_gsegs.
