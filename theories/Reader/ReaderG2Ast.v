(** ReaderG2Ast: C05 for branch multipliers on ASTs.  [g_chain] maps an AST WITH branch multipliers to
    the flat form of Reader/ReaderG2.v (items with closings, multiplied branches with closings); it
    prints as the AST prints and its tokens are the tokens of the AST with the branch multipliers
    written out ([Grammar.expand_branches]).  Hence, under the decidable side condition [units_ok],
    reading the shorthand = the denotation of the longhand: [reader_sim_units]. *)
From Coq Require Import String.
From Coq Require Import List Ascii ZArith Bool Lia.
From CGV Require Import Base.PyBase Base.PyVal Base.NxGraph Dialect.DialectImpl
     Reader.ReaderImpl Reader.Grammar Reader.ReaderLemmas Reader.Lin Reader.ReaderSim Reader.ReaderMult Reader.ReaderAst
     Reader.ReaderWf Reader.ReaderUnit Reader.ReaderUnitLong Reader.ReaderLast Reader.ReaderX Reader.ReaderXAst Reader.ReaderTrack Reader.ReaderGSegs Reader.ReaderG2.
Import ListNotations.

(** ** the flat form of an AST with branch multipliers *)
(** the branches of one anchor, [pending] = symbol in front of the next "(" *)
Fixpoint g_branches (n : pystr) (brs : list branch) (pending : option sym) : list g2seg :=
  match brs with
  | [] => []
  | Branch c bm a :: tl =>
      match bm with
      | None => g2wrap a (g_chain c) ++ g_branches n tl a
      | Some (ms, ds) => G2Unit (mk_unit n pending c ms ds a) [] :: g_branches n tl a
      end
  end.
Lemma g_item_eq n r m b brs : g_item (Item n r m b brs) = G2Plain (node_x n r m b) :: g_branches n brs b.
Proof.
  cbn [g_item]. f_equal. generalize b. induction brs as [|[c bm a] tl IH]; intros p; [reflexivity|].
  cbn [g_branches]. rewrite <- IH. reflexivity.
Qed.

(** the shape the flat form can express: every branch chain is non-empty; a branch that carries a multiplier
    is a simple chain (no ring marker, no nested branch); the anchor of a branch multiplied by n >= 2
    carries no ring marker when that branch is its first one *)
Fixpoint shape_branches (r : list (option sym * marker)) (brs : list branch) (first : bool) : bool :=
  match brs with
  | [] => true
  | Branch c bm a :: tl =>
      negb (is_nil c)
      && match bm with
         | None => forallb shape_item c
         | Some (_, ds) => simple_chain c && ((digits_nat ds <=? 1)%nat || negb first || is_nil r)
         end
      && shape_branches r tl false
  end.
Lemma shape_item_eq n r m b brs : shape_item (Item n r m b brs) = shape_branches r brs true.
Proof.
  cbn [shape_item].
  assert (H : forall f, (fix go (brs : list branch) (first : bool) : bool :=
         match brs with
         | [] => true
         | Branch c bm a :: tl =>
             negb (is_nil c)
             && match bm with
                | None => forallb shape_item c
                | Some (_, ds) => simple_chain c && ((digits_nat ds <=? 1)%nat || negb first || is_nil r)
                end
             && go tl false
         end) brs f = shape_branches r brs f).
  { induction brs as [|[c bm a] tl IH]; intros f; [reflexivity|]. cbn [shape_branches]. rewrite <- IH. reflexivity. }
  apply H.
Qed.

(** ** text and tokens of the flat form *)
Lemma g2segs_str_app a b : g2segs_str (a ++ b) = g2segs_str a ++ g2segs_str b.
Proof. unfold g2segs_str. apply flat_map_app. Qed.
Lemma g2segs_toks_app a b : g2segs_toks (a ++ b) = g2segs_toks a ++ g2segs_toks b.
Proof. unfold g2segs_toks. apply flat_map_app. Qed.
Definition g2head_closed (l : list g2seg) : Prop := match l with G2Plain x :: _ => x_open x = false | _ => False end.
Lemma g2add_close_str a z : g2seg_str (g2add_close a z) = g2seg_str z ++ ")"%char :: osym_str a.
Proof.
  destruct z as [x|u cs]; cbn [g2add_close g2seg_str]; [apply xadd_close_str|].
  rewrite closes_str_app. cbn [closes_str flat_map]. rewrite app_nil_r. now rewrite app_assoc.
Qed.
Lemma g2add_close_toks a z : g2seg_toks (g2add_close a z) = g2seg_toks z ++ TClose :: osym_tok a.
Proof.
  destruct z as [x|u cs]; cbn [g2add_close g2seg_toks]; [apply xadd_close_toks|].
  rewrite closes_toks_app. cbn [closes_toks flat_map]. rewrite app_nil_r. now rewrite app_assoc.
Qed.
Lemma g2wrap_shape a x t : exists pre z, g2set_open x :: t = pre ++ [z] /\ g2wrap a (x :: t) = pre ++ [g2add_close a z].
Proof.
  unfold g2wrap. destruct (rev (g2set_open x :: t)) as [|z r] eqn:Er.
  - apply (f_equal (@length _)) in Er. rewrite rev_length in Er. discriminate.
  - exists (rev r), z. split; [|reflexivity]. rewrite <- (rev_involutive (g2set_open x :: t)), Er. reflexivity.
Qed.
Lemma g2wrap_spec a l : g2head_closed l ->
  g2segs_str (g2wrap a l) = "("%char :: g2segs_str l ++ ")"%char :: osym_str a
  /\ g2segs_toks (g2wrap a l) = TOpen :: g2segs_toks l ++ TClose :: osym_tok a.
Proof.
  intros Hh. destruct l as [|[x|u cs] t]; [contradiction| |contradiction]. cbn in Hh.
  destruct (g2wrap_shape a (G2Plain x) t) as (pre & z & E & ->).
  rewrite g2segs_str_app, g2segs_toks_app. cbn [g2segs_str g2segs_toks flat_map]. rewrite !app_nil_r.
  rewrite g2add_close_str, g2add_close_toks.
  assert (E3 : g2segs_str pre ++ g2seg_str z = "("%char :: g2segs_str (G2Plain x :: t)).
  { change ("("%char :: g2segs_str (G2Plain x :: t)) with (("("%char :: xlin_str x) ++ g2segs_str t).
    rewrite <- (xset_open_str x Hh). change (xlin_str (xset_open x) ++ g2segs_str t) with (g2segs_str (g2set_open (G2Plain x) :: t)).
    rewrite E, g2segs_str_app. cbn [g2segs_str flat_map]. now rewrite app_nil_r. }
  assert (E4 : g2segs_toks pre ++ g2seg_toks z = TOpen :: g2segs_toks (G2Plain x :: t)).
  { change (TOpen :: g2segs_toks (G2Plain x :: t)) with ((TOpen :: xlin_toks x) ++ g2segs_toks t).
    rewrite <- (xset_open_toks x Hh). change (xlin_toks (xset_open x) ++ g2segs_toks t) with (g2segs_toks (g2set_open (G2Plain x) :: t)).
    rewrite E, g2segs_toks_app. cbn [g2segs_toks flat_map]. now rewrite app_nil_r. }
  split.
  - rewrite app_assoc, E3. reflexivity.
  - rewrite app_assoc, E4. reflexivity.
Qed.

(** simple chains: text, tokens, expansion *)
Lemma simple_chain_spec c : simple_chain c = true ->
  flat_map print_item c = flat_map bnode_str (map bnode_of c)
  /\ flat_map toks_item c = body_toks (map bnode_of c) /\ flat_map xb_item c = c.
Proof.
  induction c as [|[n r m b brs] c IH]; intros H; [repeat split|].
  cbn [simple_chain forallb i_rings i_branches] in H. apply andb_prop in H as [H Hc]. apply andb_prop in H as [Hr Hb].
  destruct r; [|discriminate]. destruct brs; [|discriminate]. destruct (IH Hc) as (P1 & P2 & P3).
  cbn [flat_map map body_toks]. fold (body_toks (map bnode_of c)). rewrite P1, P2, P3. repeat split.
  - unfold bnode_str, stail. cbn [print_item bnode_of i_name i_mult i_bond bn_name bn_mult bn_bond rings_str flat_map app].
    rewrite app_nil_r. repeat (rewrite <- app_assoc; cbn [app]). reflexivity.
  - unfold bnode_toks. cbn [toks_item bnode_of i_name i_mult i_bond bn_name bn_mult bn_bond map flat_map app]. rewrite app_nil_r. reflexivity.
Qed.

(** the agreement of one item: text, tokens of the expansion, and the head of the flat form *)
Definition item_g (it : item) : Prop := shape_item it = true ->
  print_item it = g2segs_str (g_item it) /\ flat_map toks_item (xb_item it) = g2segs_toks (g_item it).

Lemma chain_g c : Forall item_g c -> forallb shape_item c = true ->
  flat_map print_item c = g2segs_str (g_chain c) /\ flat_map toks_item (flat_map xb_item c) = g2segs_toks (g_chain c).
Proof.
  induction 1 as [|x c Hx _ IH]; intros Hs; [split; reflexivity|].
  cbn [forallb] in Hs. apply andb_prop in Hs as [Hs1 Hs2]. destruct (Hx Hs1) as (P1 & P2). destruct (IH Hs2) as (Q1 & Q2).
  unfold g_chain. cbn [flat_map]. fold (g_chain c). rewrite g2segs_str_app, g2segs_toks_app, flat_map_app, P1, P2, Q1, Q2. split; reflexivity.
Qed.
Lemma g_chain_head c : c <> [] -> g2head_closed (g_chain c).
Proof. destruct c as [|[n r m b brs] t]; [intros C; now elim C|]. intros _. unfold g_chain. cbn [flat_map]. rewrite g_item_eq. reflexivity. Qed.

Lemma copy_core_toks u : copy_toks u = osym_tok (u_ms u) ++ copy_core u None.
Proof. reflexivity. Qed.

(** the accumulating loop of [xb_item] against the branches of the flat form *)
Lemma xb_go_g n r : forall brs cr cm cb cbrs pending first,
  Forall (fun br => Forall item_g (b_chain br)) brs -> shape_branches r brs first = true ->
  flat_map toks_item (xb_go n r brs cr cm cb cbrs pending first)
  = TNode n (mult_val cm) :: map (fun om => TRing (fst om) (marker_val (snd om))) cr ++ osym_tok cb
    ++ flat_map toks_branch cbrs ++ g2segs_toks (g_branches n brs pending).
Proof.
  induction brs as [|[c bm a] tl IH]; intros cr cm cb cbrs pending first Hall Hs.
  - cbn [xb_go flat_map toks_item g_branches g2segs_toks]. now rewrite !app_nil_r.
  - inversion Hall as [|? ? Hc Htl]; subst. cbn [b_chain] in Hc.
    cbn [shape_branches] in Hs. apply andb_prop in Hs as [Hs Hst]. apply andb_prop in Hs as [Hne Hsb].
    assert (Hcne : c <> []) by (destruct c; [discriminate|discriminate]).
    destruct bm as [[ms ds]|].
    + (* a multiplied branch: a simple chain *)
      apply andb_prop in Hsb as [Hsimple Hring].
      destruct (simple_chain_spec c Hsimple) as (_ & T2 & T3).
      cbn [xb_go g_branches]. rewrite T3.
      set (u := mk_unit n pending c ms ds a).
      assert (Ebody : flat_map toks_item c = body_toks (u_body u)) by exact T2.
      destruct (digits_nat ds <=? 1)%nat eqn:Ek.
      * rewrite (IH _ _ _ _ _ _ Htl Hst). rewrite flat_map_app. cbn [flat_map toks_branch]. rewrite app_nil_r.
        change (g2segs_toks (G2Unit u [] :: g_branches n tl a)) with ((gunit_toks u ++ closes_toks []) ++ g2segs_toks (g_branches n tl a)).
        unfold gunit_toks, rest_toks. cbn [closes_toks flat_map]. rewrite app_nil_r.
        change (u_count u) with ds. change (u_after u) with a.
        apply Nat.leb_le in Ek. replace (digits_nat ds - 1)%nat with O by lia. cbn [repeat concat app].
        rewrite Ebody. repeat (rewrite <- app_assoc; cbn [app]). reflexivity.
      * apply Nat.leb_gt in Ek.
        assert (Err : (if first then r else []) = []).
        { cbn [orb] in Hring. destruct first; [|reflexivity]. cbn in Hring. now destruct r. }
        rewrite Err.
        cbn [flat_map]. rewrite flat_map_app. rewrite (IH _ _ _ _ _ _ Htl Hst).
        change (g2segs_toks (G2Unit u [] :: g_branches n tl a)) with ((gunit_toks u ++ closes_toks []) ++ g2segs_toks (g_branches n tl a)).
        unfold gunit_toks, rest_toks. cbn [closes_toks flat_map]. rewrite app_nil_r.
        change (u_count u) with ds. change (u_after u) with a.
        destruct (digits_nat ds) as [|[|kk]] eqn:EN; [lia|lia|].
        replace (Datatypes.S (Datatypes.S kk) - 2)%nat with kk by lia. replace (Datatypes.S (Datatypes.S kk) - 1)%nat with (Datatypes.S kk) by lia.
        cbn [toks_item mult_val map app]. rewrite flat_map_app. cbn [flat_map toks_branch]. rewrite !app_nil_r.
        (* the copies *)
        set (core := copy_core u None).
        assert (Ecopy : toks_item (Item n [] None pending [Branch c None ms]) = core ++ osym_tok ms).
        { unfold core, copy_core. cbn [toks_item mult_val map app flat_map toks_branch u mk_unit u_name u_bond u_body].
          rewrite app_nil_r, Ebody. unfold u, mk_unit. cbn [u_body]. repeat (rewrite <- app_assoc; cbn [app]). reflexivity. }
        assert (Erep : forall q, flat_map toks_item (repeat (Item n [] None pending [Branch c None ms]) q) = concat (repeat (core ++ osym_tok ms) q)).
        { induction q as [|q IHq]; [reflexivity|]. cbn [repeat flat_map concat]. rewrite Ecopy. f_equal. apply IHq. }
        rewrite Erep.
        set (G := g2segs_toks (g_branches n tl a)).
        set (B := body_toks (u_body u)) in *.
        assert (Ecore : core ++ osym_tok a ++ G = TNode n 1 :: osym_tok pending ++ TOpen :: B ++ TClose :: osym_tok a ++ G).
        { unfold core, copy_core, B. cbn [mult_val u mk_unit u_name u_bond app]. repeat (rewrite <- app_assoc; cbn [app]). reflexivity. }
        assert (Hkey : osym_tok ms ++ concat (repeat (core ++ osym_tok ms) kk) ++ TNode n 1 :: osym_tok pending ++ TOpen :: B ++ TClose :: osym_tok a ++ G
                     = concat (repeat (copy_toks u) (Datatypes.S kk)) ++ osym_tok a ++ G).
        { rewrite <- Ecore. rewrite copy_core_toks. fold core. change (u_ms u) with ms.
          rewrite (app_assoc (concat (repeat (osym_tok ms ++ core) (Datatypes.S kk)))).
          rewrite <- (interleave (osym_tok ms) core (osym_tok a) kk). now rewrite <- !app_assoc. }
        rewrite Ebody. cbn [mult_val]. change (map (fun om : option sym * marker => TRing (fst om) (marker_val (snd om))) []) with (@nil tok).
        repeat (rewrite <- app_assoc; cbn [app]). rewrite Hkey. reflexivity.
    + (* a plain branch *)
      cbn [xb_go g_branches]. rewrite (IH _ _ _ _ _ _ Htl Hst). rewrite flat_map_app. cbn [flat_map toks_branch]. rewrite app_nil_r.
      destruct (chain_g c Hc Hsb) as (_ & Q2).
      destruct (g2wrap_spec a (g_chain c) (g_chain_head c Hcne)) as (_ & W2).
      rewrite g2segs_toks_app, W2, Q2. repeat (rewrite <- app_assoc; cbn [app]). reflexivity.
Qed.
Lemma branches_str_g n : forall brs pending r first,
  Forall (fun br => Forall item_g (b_chain br)) brs -> shape_branches r brs first = true ->
  flat_map print_branch brs = g2segs_str (g_branches n brs pending).
Proof.
  induction brs as [|[c bm a] tl IH]; intros pending r first Hall Hs; [reflexivity|].
  inversion Hall as [|? ? Hc Htl]; subst. cbn [b_chain] in Hc.
  cbn [shape_branches] in Hs. apply andb_prop in Hs as [Hs Hst]. apply andb_prop in Hs as [Hne Hsb].
  assert (Hcne : c <> []) by (destruct c; [discriminate|discriminate]).
  cbn [flat_map g_branches]. rewrite (IH a r false Htl Hst). destruct bm as [[ms ds]|].
  - apply andb_prop in Hsb as [Hsimple _]. destruct (simple_chain_spec c Hsimple) as (T1 & _ & _).
    change (g2segs_str (G2Unit (mk_unit n pending c ms ds a) [] :: g_branches n tl a))
      with ((gunit_str (mk_unit n pending c ms ds a) ++ closes_str []) ++ g2segs_str (g_branches n tl a)).
    cbn [closes_str flat_map]. rewrite app_nil_r. f_equal.
    unfold gunit_str, closing_str, mk_unit. cbn [print_branch bmult_str u_body u_ms u_count u_after]. rewrite T1.
    repeat (rewrite <- app_assoc; cbn [app]). reflexivity.
  - destruct (chain_g c Hc Hsb) as (Q1 & _).
    destruct (g2wrap_spec a (g_chain c) (g_chain_head c Hcne)) as (W1 & _).
    rewrite g2segs_str_app, W1, <- Q1. cbn [print_branch bmult_str app]. repeat (rewrite <- app_assoc; cbn [app]). reflexivity.
Qed.

Lemma ast_g : forall it, item_g it.
Proof.
  apply (item_ind2 item_g (fun br => Forall item_g (b_chain br))).
  - intros n r m b brs Hbrs Hs. rewrite shape_item_eq in Hs. rewrite g_item_eq. split.
    + cbn [print_item]. change (g2segs_str (G2Plain (node_x n r m b) :: g_branches n brs b))
        with (xlin_str (node_x n r m b) ++ g2segs_str (g_branches n brs b)).
      rewrite <- (branches_str_g n brs b r true Hbrs Hs).
      unfold xlin_str, lin_str, lin_tail_str. cbn [node_x xbase x_open x_name x_mult x_rings x_bond x_closes l_open l_name l_mult l_rings l_bond l_close close_str closes_str flat_map app].
      repeat (rewrite <- app_assoc; cbn [app]). rewrite ?app_nil_r. reflexivity.
    + rewrite xb_item_eq, (xb_go_g n r brs r m b [] b true Hbrs Hs).
      change (g2segs_toks (G2Plain (node_x n r m b) :: g_branches n brs b))
        with (xlin_toks (node_x n r m b) ++ g2segs_toks (g_branches n brs b)).
      unfold xlin_toks, lin_toks. cbn [node_x xbase x_open x_name x_mult x_rings x_bond x_closes l_open l_name l_mult l_rings l_bond l_close closes_toks flat_map app].
      unfold ring_tok. repeat (rewrite <- app_assoc; cbn [app]). rewrite ?app_nil_r. reflexivity.
  - intros c bm a Hc. exact Hc.
Qed.

Theorem g_chain_spec a : forallb shape_item a = true ->
  print_chain a = g2segs_str (g_chain a) /\ toks (expand_branches a) = g2segs_toks (g_chain a).
Proof.
  intros Hs. assert (Hall : Forall item_g a) by (apply Forall_forall; intros; apply ast_g).
  exact (chain_g a Hall Hs).
Qed.

(** ** C05 on ASTs: reading the shorthand = the denotation of the longhand *)
Theorem reader_sim_units_gen fo braces a : units_ok fo a = true -> read_cgsmiles fo (print braces a) = denote fo a.
Proof.
  unfold units_ok. intros H. apply andb_prop in H as [H Hok]. apply andb_prop in H as [Hne Hs].
  destruct (g_chain_spec a Hs) as (P1 & P2).
  assert (Hg : g_chain a <> []).
  { destruct a as [|[n r m b brs] t]; [discriminate|]. unfold g_chain. cbn [flat_map]. rewrite g_item_eq. discriminate. }
  unfold print, denote. rewrite P1, P2. destruct braces.
  - now apply reader_sim_g2.
  - now apply reader_sim_g2_nobrace.
Qed.
Theorem reader_sim_units fo a : units_ok fo a = true -> read_cgsmiles fo (print true a) = denote fo a.
Proof. exact (reader_sim_units_gen fo true a). Qed.
Print Assumptions reader_sim_units_gen.
(** the property's own sentence: reading the shorthand = reading the longhand (the branch multipliers written
    out), whenever the longhand is itself a string of the grammar (decidable; it carries no branch multiplier,
    so C04 applies to it) *)
Corollary reader_units_longhand fo braces a : units_ok fo a = true ->
  wf fo (expand_branches a) = true -> has_branch_mult (expand_branches a) = false ->
  read_cgsmiles fo (print braces a) = read_cgsmiles fo (print braces (expand_branches a)).
Proof.
  intros Hu Hwf Hb. rewrite (reader_sim_units_gen fo braces a Hu), (reader_sim_grammar fo braces _ Hwf Hb).
  assert (Hrg : rg_chain true false fo (expand_branches a) = true) by (apply rg_of_wf_gen; [assumption|intros _; assumption|discriminate]).
  assert (Hne : expand_branches a <> []) by (unfold wf in Hwf; destruct (expand_branches a); [discriminate|discriminate]).
  destruct (linearize_x_spec fo _ Hrg Hne) as (_ & _ & P3 & _).
  unfold denote. now rewrite P3.
Qed.
Print Assumptions reader_units_longhand.

(** ** node multipliers written out as well: [Grammar.expand] *)
Fixpoint mpos_item (it : item) : bool :=
  match it with
  | Item _ _ m _ brs =>
      (match m with Some ds => (1 <=? digits_nat ds)%nat | None => true end) && forallb mpos_branch brs
  end
with mpos_branch (br : branch) : bool := match br with Branch c _ _ => forallb mpos_item c end.
Lemma repeat_snoc {A} (t : A) : forall k, repeat t (Datatypes.S k) = repeat t k ++ [t].
Proof. induction k as [|k IH]; [reflexivity|]. cbn [repeat app] in *. now rewrite <- IH. Qed.
Lemma m_run_prefix fo p a b : (forall x, m_run fo a x = m_run fo b x) -> forall x, m_run fo (p ++ a) x = m_run fo (p ++ b) x.
Proof. intros H x. rewrite !m_run_app. destruct (m_run fo p x); cbn [bind]; [apply H|reflexivity]. Qed.
Definition item_xn (fo : float_oracle) (it : item) : Prop := mpos_item it = true ->
  forall ts x, m_run fo (flat_map toks_item (xn_item it) ++ ts) x = m_run fo (toks_item it ++ ts) x.
Definition branch_xn (fo : float_oracle) (br : branch) : Prop := mpos_branch br = true ->
  forall ts x, m_run fo (toks_branch (xn_branch br) ++ ts) x = m_run fo (toks_branch br ++ ts) x.
Lemma chain_xn fo c : Forall (item_xn fo) c -> forallb mpos_item c = true ->
  forall ts x, m_run fo (flat_map toks_item (flat_map xn_item c) ++ ts) x = m_run fo (flat_map toks_item c ++ ts) x.
Proof.
  induction 1 as [|it c Hit _ IH]; intros Hp ts x; [reflexivity|].
  cbn [forallb] in Hp. apply andb_prop in Hp as [Hp1 Hp2]. cbn [flat_map]. rewrite flat_map_app, <- !app_assoc.
  rewrite (Hit Hp1). apply m_run_prefix. intros y. now apply IH.
Qed.
Lemma branches_xn fo brs : Forall (branch_xn fo) brs -> forallb mpos_branch brs = true ->
  forall ts x, m_run fo (flat_map toks_branch (map xn_branch brs) ++ ts) x = m_run fo (flat_map toks_branch brs ++ ts) x.
Proof.
  induction 1 as [|br tl Hbr _ IH]; intros Hp ts x; [reflexivity|].
  cbn [forallb] in Hp. apply andb_prop in Hp as [Hp1 Hp2]. cbn [map flat_map]. rewrite <- !app_assoc.
  rewrite (Hbr Hp1). apply m_run_prefix. intros y. now apply IH.
Qed.
Lemma ast_xn fo : forall it, item_xn fo it.
Proof.
  apply (item_ind2 (item_xn fo) (branch_xn fo)).
  - intros n r m b brs Hbrs Hp ts x. cbn [mpos_item] in Hp. apply andb_prop in Hp as [Hm Hb].
    assert (Hk : (1 <= mult_val m)%nat) by (unfold mult_val; destruct m; [now apply Nat.leb_le|lia]).
    cbn [xn_item toks_item]. rewrite flat_map_app. cbn [flat_map toks_item mult_val]. rewrite app_nil_r.
    assert (Erep : forall k, flat_map toks_item (repeat (Item n [] None None []) k) = repeat (TNode n 1) k).
    { induction k as [|k IHk]; [reflexivity|]. cbn [repeat flat_map toks_item mult_val map app]. now rewrite IHk. }
    rewrite Erep.
    change ((TNode n (mult_val m) :: map (fun om => TRing (fst om) (marker_val (snd om))) r ++ osym_tok b ++ flat_map toks_branch brs) ++ ts)
      with (TNode n (mult_val m) :: (map (fun om => TRing (fst om) (marker_val (snd om))) r ++ osym_tok b ++ flat_map toks_branch brs) ++ ts).
    rewrite m_node_split by assumption.
    destruct (mult_val m) as [|k]; [lia|]. rewrite repeat_snoc. replace (Datatypes.S k - 1)%nat with k by lia.
    rewrite <- !app_assoc. apply m_run_prefix. intros y. cbn [app].
    change (TNode n 1 :: ?l) with ([TNode n 1] ++ l). rewrite <- !app_assoc.
    apply (m_run_prefix fo [TNode n 1]). intros z. apply m_run_prefix. intros w. apply m_run_prefix. intros v.
    now apply branches_xn.
  - intros c bm a Hc Hp ts x. cbn [mpos_branch] in Hp. cbn [xn_branch toks_branch].
    change ((TOpen :: ?l) ++ ts) with ([TOpen] ++ l ++ ts). 
    cbn [app]. rewrite <- !app_assoc. cbn [m_run]. destruct (m_step fo x TOpen) as [y|]; cbn [bind]; [|reflexivity].
    now apply chain_xn.
Qed.
Lemma expand_nodes_toks fo c : forallb mpos_item c = true ->
  forall x, m_run fo (toks (expand_nodes c)) x = m_run fo (toks c) x.
Proof.
  intros Hp x. assert (Hall : Forall (item_xn fo) c) by (apply Forall_forall; intros; apply ast_xn).
  pose proof (chain_xn fo c Hall Hp [] x) as H. now rewrite !app_nil_r in H.
Qed.

(** reading the shorthand = reading the string with EVERY multiplier written out *)
Theorem reader_units_expand fo braces a : units_ok fo a = true ->
  forallb mpos_item (expand_branches a) = true ->
  wf fo (expand a) = true -> has_branch_mult (expand a) = false ->
  read_cgsmiles fo (print braces a) = read_cgsmiles fo (print braces (expand a)).
Proof.
  intros Hu Hp Hwf Hb. rewrite (reader_sim_units_gen fo braces a Hu), (reader_sim_grammar fo braces _ Hwf Hb).
  assert (Hrg : rg_chain true false fo (expand a) = true) by (apply rg_of_wf_gen; [assumption|intros _; assumption|discriminate]).
  assert (Hne : expand a <> []) by (unfold wf in Hwf; destruct (expand a); [discriminate|discriminate]).
  destruct (linearize_x_spec fo _ Hrg Hne) as (_ & _ & P3 & _).
  unfold denote. rewrite P3. unfold expand. now rewrite (expand_nodes_toks fo _ Hp).
Qed.
Print Assumptions reader_units_expand.
