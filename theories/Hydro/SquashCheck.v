(** SquashCheck: property C10 as an executable predicate on what the IMPLEMENTATION returned
    ([prop_fail], 0 = holds), the correspondence of the Squash model with the recorded call of
    squash_atoms ([corr_ok]) and the decidable defect classes.  Imports only models.

    A case is a molecule cut into fragments, described twice: with DISJOINT fragments (every cut a
    labelled `$` pair) and with OVERLAPPING fragments (some cuts replaced by sharing one end atom
    through `!` pairs).  The generator knows which original atom every fragment atom is a copy of
    ([phi]: (fragment name, index in the fragment) -> original atom), so "the same molecule" is
    checked through this explicit correspondence rather than by a search for an isomorphism. *)
From Coq Require Import String.
From Coq Require Import List Ascii ZArith Bool.
From CGV Require Import Base.PyBase Base.PyVal Base.NxGraph Gen.HydroGen Hydro.Hydrogens Hydro.Squash Hydro.SquashDefs Hydro.HydroCheck.
Import ListNotations.
Open Scope Z_scope.

Definition phi_t := list ((pystr * Z) * Z).
Definition phi_get (phi : phi_t) (name : pystr) (i : Z) : option Z :=
  match find (fun p => str_eqb (fst (fst p)) name && Z.eqb (snd (fst p)) i) phi with
  | Some p => Some (snd p) | None => None end.

(** original atoms named by a node's `mapping` attribute [(fragname, idx), …] *)
Definition origins (phi : phi_t) (a : attrs) : option (list Z) :=
  match aget (S "mapping") a with
  | Some (VList l) =>
      fold_right (fun x acc =>
                    match acc, x with
                    | Some r, VTup [VStr nm; VInt i] =>
                        match phi_get phi nm i with Some o => Some (o :: r) | None => None end
                    | _, _ => None
                    end) (Some []) l
  | _ => None
  end.
Definition all_same (l : list Z) : option Z :=
  match l with
  | [] => None
  | x :: r => if forallb (Z.eqb x) r then Some x else None
  end.

(** heavy atoms of an observed molecule as (node key, original atom); None = some atom is a merge of
    copies of different original atoms, or carries no usable mapping *)
Definition heavy_nodes (o : obs_graph) : list (Z * attrs) := filter (fun p => negb (is_H (snd p))) (fst o).
Definition node_origin (phi : phi_t) (o : obs_graph) : option (list (Z * Z)) :=
  fold_right (fun p acc =>
                match acc, origins phi (snd p) with
                | Some r, Some l => match all_same l with Some x => Some ((fst p, x) :: r) | None => None end
                | _, _ => None
                end) (Some []) (heavy_nodes o).
Definition org_of (m : list (Z * Z)) (k : Z) : option Z :=
  match find (fun p => Z.eqb (fst p) k) m with Some p => Some (snd p) | None => None end.
Fixpoint nodupb (l : list Z) : bool :=
  match l with [] => true | x :: r => negb (existsb (Z.eqb x) r) && nodupb r end.

(** bonds between heavy atoms in terms of original atoms: (min, max, order in half units) *)
Definition heavy_bonds (m : list (Z * Z)) (o : obs_graph) : list (Z * Z * Z) :=
  flat_map (fun e => let '(u, v, d) := e in
                     match org_of m u, org_of m v with
                     | Some a, Some b => [(Z.min a b, Z.max a b, half_or0 d)]
                     | _, _ => []
                     end) (snd o).
Definition bond_eqb (x y : Z * Z * Z) : bool :=
  let '(a, b, c) := x in let '(a', b', c') := y in Z.eqb a a' && Z.eqb b b' && Z.eqb c c'.
Definition bonds_same (x y : list (Z * Z * Z)) : bool :=
  Nat.eqb (length x) (length y) && forallb (fun e => existsb (bond_eqb e) y) x
  && forallb (fun e => existsb (bond_eqb e) x) y.

(** per original atom: element, charge, number of attached hydrogens *)
Definition h_count (o : obs_graph) (k : Z) : Z :=
  Z.of_nat (length (filter (fun p => o_isH o (fst p)) (oadj o k))).
Definition atom_sig (m : list (Z * Z)) (o : obs_graph) : list (Z * (pyval * pyval * Z)) :=
  flat_map (fun p => match org_of m (fst p) with
                     | Some a => [(a, (getd (S "element") (snd p) VNone, getd (S "charge") (snd p) VNone, h_count o (fst p)))]
                     | None => []
                     end) (heavy_nodes o).
Definition sig_eqb (x y : Z * (pyval * pyval * Z)) : bool :=
  Z.eqb (fst x) (fst y) && pyval_eqb (fst (fst (snd x))) (fst (fst (snd y)))
  && pyval_eqb (snd (fst (snd x))) (snd (fst (snd y))) && Z.eqb (snd (snd x)) (snd (snd y)).
Definition sigs_same (x y : list (Z * (pyval * pyval * Z))) : bool :=
  Nat.eqb (length x) (length y) && forallb (fun e => existsb (sig_eqb e) y) x.

(** membership: the fragid list of every heavy atom = the coarse nodes whose fragments contain a
    copy of its original atom (as sets, each once) *)
Definition zset_eqb (x y : list Z) : bool :=
  Nat.eqb (length x) (length y) && nodupb x && forallb (fun a => existsb (Z.eqb a) y) x.
Definition fragid_list (a : attrs) : option (list Z) :=
  match aget (S "fragid") a with
  | Some (VList l) => fold_right (fun x acc => match acc, x with Some r, VInt z => Some (z :: r) | _, _ => None end) (Some []) l
  | _ => None
  end.
Definition member_ok (m : list (Z * Z)) (owners : list (Z * list Z)) (o : obs_graph) : bool :=
  forallb (fun p => match org_of m (fst p), fragid_list (snd p) with
                    | Some a, Some fl =>
                        match find (fun q => Z.eqb (fst q) a) owners with
                        | Some q => zset_eqb fl (snd q)
                        | None => false
                        end
                    | _, _ => false
                    end) (heavy_nodes o).

(** the `!` pairs of the graph handed to squash_atoms, as pairs of atoms *)
Definition bang_pairs (g : graph) : list (Z * Z) :=
  flat_map (fun e => let '(a, b, bond) := e in
                     match starts_squash bond with Ok true => [(a, b)] | _ => [] end)
           (edge_attr_items g squash_edge_attr).

(** union-find-free cycle test over few pairs: process pairs in order, keeping classes as lists *)
Definition cls_of (cl : list (list Z)) (x : Z) : list Z :=
  match find (fun c => existsb (Z.eqb x) c) cl with Some c => c | None => [x] end.
Definition cls_merge (cl : list (list Z)) (a b : Z) : list (list Z) :=
  let ca := cls_of cl a in let cb := cls_of cl b in
  (ca ++ cb) :: filter (fun c => negb (existsb (Z.eqb a) c) && negb (existsb (Z.eqb b) c)) cl.
Fixpoint pairs_forest (cl : list (list Z)) (ps : list (Z * Z)) : bool :=
  match ps with
  | [] => true
  | (a, b) :: r => if existsb (Z.eqb b) (cls_of cl a) then false else pairs_forest (cls_merge cl a b) r
  end.
(** FORMER defect class "redundant-squash-cycle" (repaired by /repo 03eb080; kept to describe inputs): the
    `!` pairs contain a cycle over atoms, i.e. some pair joins two atoms that the earlier pairs already identify *)
Definition redundant_squash_cycle (g : graph) : bool := negb (pairs_forest [] (bang_pairs g)).

(** ------------------------------------------------------------ cases *)
Record case := {
  c_skip : bool;                       (* the disjoint description itself does not resolve: not a case *)
  c_sq0 : graph;                       (* molecule when squash_atoms is entered (shared description) *)
  c_sq1 : option obs_graph;            (* … when it returned; None = it raised *)
  c_shared : option obs_graph;         (* final molecule of the shared description; None = raised *)
  c_disjoint : obs_graph;              (* final molecule of the disjoint description *)
  c_phi_s : phi_t; c_phi_d : phi_t;
  c_owners : list (Z * list Z);        (* original atom -> coarse nodes (shared description) containing it *)
  c_frag_heavy : Z;                    (* heavy atoms of all fragments of the shared description together *)
  c_npairs : Z;                        (* shared pairs that were written *)
  (* layered inputs (several resolve() calls of ONE resolver, `!` at levels that are not the last): *)
  c_layered : bool;                    (* the membership clause is judged per level instead *)
  c_levels : list (obs_graph * Z);     (* graph returned at every level, with the number of `!` pairs written at that level *)
  c_more_sq : list (graph * option obs_graph) }.   (* the calls of squash_atoms before the last one *)



(** FORMER defect class "stale-hcount-aromatic" (repaired by /repo e7bad38; the predicate is kept: the Example
    C10_fixed_stale_hcount_aromatic shows it is false on the old witness): after squash_atoms a merged aromatic atom still carries the
    hydrogen count of the kept copy, computed inside that copy's own fragment, so that its bonds plus
    hcount exceed the valence; pysmiles' aromaticity correction (which reads hcount) then drops the
    atom from the ring it kekulises *)
Definition merged (a : attrs) : bool := ahas (S "contraction") a.
Definition stale_node (o : obs_graph) (k : Z) (a : attrs) : bool :=
  merged a && truthy (getd (S "aromatic") a (VBool false)) &&
  match hcount_half a, valence_of a with
  | Ok h, Ok val =>
      let b := sum_half (oadj o k) in
      match pick_valence val b with
      | Some v => (0 <? h) && (2 * v <? b + h)
      | None => false
      end
  | _, _ => false
  end.
Definition stale_hcount_aromatic (o : obs_graph) : bool :=
  existsb (fun p => stale_node o (fst p) (snd p)) (fst o).

(** the hypotheses of the totality / count theorems hold of the recorded input of squash_atoms *)
Definition hyps_ok (g : graph) : bool := wf_graphb g && bondings_okb g && typed_gb g && hnum_gb g.

Definition squash_call_ok (g : graph) (r : option obs_graph) : bool :=
  hyps_ok g &&
  match squash_atoms g, r with
  | Ok g', Some o => obs_eqb (observe g') o
  | Err _, None => true
  | _, _ => false
  end.

Definition corr_ok (c : case) : bool :=
  if c_skip c then true else
  forallb (fun p => squash_call_ok (fst p) (snd p)) (c_more_sq c) &&
  hyps_ok (c_sq0 c) &&
  match squash_atoms (c_sq0 c), c_sq1 c with
  | Ok g, Some o => obs_eqb (observe g) o
  | Err _, None => true
  | _, _ => false
  end.

(** no defect class is open any more (codes 11 / 13 repaired by /repo 03eb080, 12 by e7bad38): every failing
    input keeps its plain code *)
Definition classify (c : case) (code : nat) : nat := code.

Definition base_fail (c : case) : nat :=
  match c_shared c with
  | None => 1%nat
  | Some sh =>
      match node_origin (c_phi_s c) sh, node_origin (c_phi_d c) (c_disjoint c) with
      | _, None => 0%nat                                    (* disjoint result unusable: not judged *)
      | None, _ => 2%nat
      | Some ms, Some md =>
          if negb (nodupb (map snd md)) then 0%nat
          else if negb (nodupb (map snd ms)) then 3%nat
          else if negb (Z.eqb (Z.of_nat (length ms)) (c_frag_heavy c - c_npairs c)) then 4%nat
          else if negb (bonds_same (heavy_bonds ms sh) (heavy_bonds md (c_disjoint c))) then 5%nat
          else if negb (sigs_same (atom_sig ms sh) (atom_sig md (c_disjoint c))) then 6%nat
          else if negb (c_layered c) && negb (member_ok ms (c_owners c) sh) then 7%nat
          else if negb (Nat.eqb (length (fst sh)) (length (fst (c_disjoint c)))) then 6%nat
          else 0%nat
      end
  end.
(** per level: the nodes that belong to more than one coarser node are exactly the merged pairs of that level *)
Definition multi_member (o : obs_graph) : Z :=
  Z.of_nat (length (filter (fun p => match fragid_list (snd p) with Some (_ :: _ :: _) => true | _ => false end) (fst o))).
Definition levels_ok (c : case) : bool := forallb (fun p => Z.eqb (multi_member (fst p)) (snd p)) (c_levels c).

Definition prop_fail (c : case) : nat :=
  if c_skip c then 0%nat
  else match c_shared c with
       | Some _ => if levels_ok c then classify c (base_fail c) else 8%nat
       | None => classify c (base_fail c)
       end.
