(** AromaticClosed: a CLOSED FORM of the modelled aromaticity step.  Whenever car_model returns, its result is
    [car_closed g ms xs es]: one pass over the input graph in which
      * every node gets `aromatic` := (it lies on a ring of L),
      * every adjacency entry gets `order` := 1.5 if it is a bond of a ring of L, else 2 if it is a bond of the
        matching M that is not wildcard-wildcard, else 1 if it was 1.5, else it is left alone,
    where ms / xs / es are the kept bonds of M, the atoms and the bonds of the rings of L.  The closed form reads the
    three lists only through MEMBERSHIP, so the result does not depend on the order in which networkx enumerates the
    matching or the rings, nor on the orientation or the starting atom of a ring ([car_model_set_only]). *)
From Coq Require Import String.
From Coq Require Import List Ascii ZArith Bool Lia Permutation.
From CGV Require Import Base.PyBase Base.PyVal Base.NxGraph Gen.HydroGen Gen.AromGen
     Hydro.Hydrogens Hydro.HydroDefs Hydro.Aromatic Hydro.AromaticProofs.
Import ListNotations.
Open Scope Z_scope.

Lemma aset_aset_same k v1 v2 a : aset k v2 (aset k v1 a) = aset k v2 a.
Proof.
  induction a as [|[k' v'] r IH]; cbn.
  - now rewrite str_eqb_refl.
  - destruct (str_eqb k k') eqn:E; cbn; rewrite E; [reflexivity|now rewrite IH].
Qed.

Lemma rewrite_fuse f1 e1 f2 e2 g :
  rewrite f2 e2 (rewrite f1 e1 g) = rewrite (fun k a => f2 k (f1 k a)) (fun k w d => e2 k w (e1 k w d)) g.
Proof.
  unfold rewrite. rewrite map_map. apply map_ext. intros n. cbn [nk na nadj]. f_equal.
  rewrite map_map. apply map_ext. intros wa. reflexivity.
Qed.
Lemma rewrite_ext f e f' e' g : (forall k a, f k a = f' k a) -> (forall k w d, e k w d = e' k w d) ->
  rewrite f e g = rewrite f' e' g.
Proof.
  intros Hf He. unfold rewrite. apply map_ext. intros n. rewrite Hf. f_equal. apply map_ext. intros wa. now rewrite He.
Qed.

(** the writes, as lists *)
Definition apply_nodes (xs : list Z) (k : Z) (a : attrs) : attrs :=
  fold_left (fun a x => if Z.eqb k x then aset k_arom (VBool true) a else a) xs a.
Definition apply_edges (v : pyval) (es : list (Z * Z)) (k w : Z) (d : attrs) : attrs :=
  fold_left (fun d e => if hits (fst e) (snd e) k w then aset k_order v d else d) es d.
Definition dem (d : attrs) : attrs := if is_15 d then aset k_order (VInt 1) d else d.
Definition shape (ms : list (Z * Z)) (xs : list Z) (es : list (Z * Z)) (g : graph) : graph :=
  rewrite (fun k a => apply_nodes xs k (aset k_arom (VBool false) a))
          (fun k w d => apply_edges v15 es k w (apply_edges (VInt 2) ms k w (dem d))) g.

Lemma shape_start g : demote (reset_arom g) = shape [] [] [] g.
Proof. unfold demote, reset_arom, shape. rewrite rewrite_fuse. apply rewrite_ext; intros; reflexivity. Qed.

Lemma shape_set_order2 ms g u v : set_order (shape ms [] [] g) u v (VInt 2) = shape (ms ++ [(u, v)]) [] [] g.
Proof.
  unfold set_order, shape. rewrite rewrite_fuse. apply rewrite_ext; intros; [reflexivity|].
  unfold apply_edges. rewrite fold_left_app. reflexivity.
Qed.
Lemma shape_set_arom ms xs es g x : set_arom (shape ms xs es g) x = shape ms (xs ++ [x]) es g.
Proof.
  unfold set_arom, shape. rewrite rewrite_fuse. apply rewrite_ext; intros; [|reflexivity].
  unfold apply_nodes, keep_e. rewrite fold_left_app. reflexivity.
Qed.
Lemma shape_set_order15 ms xs es g u v : set_order (shape ms xs es g) u v v15 = shape ms xs (es ++ [(u, v)]) g.
Proof.
  unfold set_order, shape. rewrite rewrite_fuse. apply rewrite_ext; intros; [reflexivity|].
  unfold apply_edges. rewrite fold_left_app. reflexivity.
Qed.

(** the kept bonds of the matching *)
Definition kept (g0 : graph) (M : list (Z * Z)) : list (Z * Z) :=
  filter (fun e => negb (star_node g0 (fst e) && star_node g0 (snd e))) M.
Lemma kek_fold_shape g0 g M : forall ms,
  fold_left (fun acc e => if star_node g0 (fst e) && star_node g0 (snd e) then acc
                          else set_order acc (fst e) (snd e) (VInt 2)) M (shape ms [] [] g)
  = shape (ms ++ kept g0 M) [] [] g.
Proof.
  induction M as [|e M IH]; intros ms; cbn [fold_left kept filter]; [now rewrite app_nil_r|].
  destruct (star_node g0 (fst e) && star_node g0 (snd e)); cbn [negb].
  - apply IH.
  - rewrite shape_set_order2, IH, <- app_assoc. rewrite <- surjective_pairing. reflexivity.
Qed.

Lemma set_arom_fold_shape ms es g c : forall xs, fold_left set_arom c (shape ms xs es g) = shape ms (xs ++ c) es g.
Proof.
  induction c as [|x c IH]; intros xs; cbn [fold_left]; [now rewrite app_nil_r|].
  rewrite shape_set_arom, IH, <- app_assoc. reflexivity.
Qed.
Lemma mark_edges_shape ms xs g l : forall es b, fold_res mark_edge l (shape ms xs es g) = Ok b ->
  b = shape ms xs (es ++ l) g.
Proof.
  induction l as [|[u v] l IH]; intros es b E; cbn in E; [inversion E; now rewrite app_nil_r|].
  match type of E with context [if ?c then _ else _] => destruct c end; cbn in E; [|discriminate].
  rewrite shape_set_order15 in E. apply IH in E. rewrite E, <- app_assoc. reflexivity.
Qed.
Definition ring_nodes (L : list (list Z * bool)) : list Z := flat_map fst L.
Definition ring_bonds (L : list (list Z * bool)) : list (Z * Z) := flat_map (fun ce => ring_edges (fst ce)) L.
Lemma mark_rings_shape ms g g0 L : forall xs es b,
  fold_res (mark_ring g0) L (shape ms xs es g) = Ok b -> b = shape ms (xs ++ ring_nodes L) (es ++ ring_bonds L) g.
Proof.
  induction L as [|ce L IH]; intros xs es b E; cbn in E; [inversion E; now rewrite !app_nil_r|].
  destruct (mark_ring g0 (shape ms xs es g) ce) as [a|] eqn:E1; cbn in E; [|discriminate].
  destruct ce as [c est]. unfold mark_ring in E1. destruct (negb (ring_okb g0 c est)); [discriminate|].
  rewrite set_arom_fold_shape in E1. apply mark_edges_shape in E1. subst a. apply IH in E.
  rewrite E. unfold ring_nodes, ring_bonds. cbn [flat_map fst]. now rewrite <- !app_assoc.
Qed.

Theorem car_model_shape strict g M L g1 : car_model strict g M L = Ok g1 ->
  g1 = shape (kept (demote (reset_arom g)) M) (ring_nodes L) (ring_bonds L) g.
Proof.
  intros E. apply car_model_inv in E as (ds & _ & _ & E). unfold kekulize in E.
  rewrite shape_start in E. rewrite (kek_fold_shape _ g M []) in E. cbn [app] in E.
  rewrite <- shape_start in E at 1. rewrite <- shape_start in E at 1.
  apply mark_rings_shape in E. exact E.
Qed.

(** ------------------------------------------------------------------ the closed form *)
Definition on_list (es : list (Z * Z)) (k w : Z) : bool := existsb (fun e => hits (fst e) (snd e) k w) es.
Definition closed_e (ms es : list (Z * Z)) (k w : Z) (d : attrs) : attrs :=
  if on_list es k w then aset k_order v15 d
  else if on_list ms k w then aset k_order (VInt 2) d
  else if is_15 d then aset k_order (VInt 1) d else d.
Definition car_closed (ms : list (Z * Z)) (xs : list Z) (es : list (Z * Z)) (g : graph) : graph :=
  rewrite (fun k a => aset k_arom (VBool (memz k xs)) a) (closed_e ms es) g.

Lemma apply_nodes_closed xs k : forall b a,
  apply_nodes xs k (aset k_arom (VBool b) a) = aset k_arom (VBool (b || memz k xs)) a.
Proof.
  unfold apply_nodes, memz. induction xs as [|x xs IH]; intros b a; cbn [fold_left existsb]; [now rewrite orb_false_r|].
  destruct (Z.eqb k x).
  - rewrite aset_aset_same, IH. now rewrite orb_true_r.
  - rewrite IH. reflexivity.
Qed.
Lemma apply_edges_closed v es k w : forall d,
  apply_edges v es k w d = if on_list es k w then aset k_order v d else d.
Proof.
  unfold apply_edges, on_list. induction es as [|e es IH]; intros d; cbn [fold_left existsb]; [reflexivity|].
  rewrite IH. destruct (hits (fst e) (snd e) k w); cbn [orb]; [|reflexivity].
  destruct (existsb _ es); [apply aset_aset_same|reflexivity].
Qed.

Theorem shape_closed ms xs es g : shape ms xs es g = car_closed ms xs es g.
Proof.
  unfold shape, car_closed. apply rewrite_ext.
  - intros k a. now rewrite apply_nodes_closed.
  - intros k w d. rewrite !apply_edges_closed. unfold closed_e, dem.
    destruct (on_list es k w); destruct (on_list ms k w); destruct (is_15 d);
      rewrite ?aset_aset_same; reflexivity.
Qed.

Theorem car_model_closed strict g M L g1 : car_model strict g M L = Ok g1 ->
  g1 = car_closed (kept (demote (reset_arom g)) M) (ring_nodes L) (ring_bonds L) g.
Proof. intros E. rewrite <- shape_closed. eapply car_model_shape; eauto. Qed.

(** the three lists are read through membership only *)
Theorem car_closed_set_only ms xs es ms' xs' es' g :
  (forall k, memz k xs = memz k xs') ->
  (forall k w, on_list es k w = on_list es' k w) -> (forall k w, on_list ms k w = on_list ms' k w) ->
  car_closed ms xs es g = car_closed ms' xs' es' g.
Proof.
  intros Hx He Hm. unfold car_closed. apply rewrite_ext.
  - intros k a. now rewrite Hx.
  - intros k w d. unfold closed_e. now rewrite He, Hm.
Qed.

(** in particular: the order in which networkx lists the matching and the rings is irrelevant *)
Lemma existsb_perm {A} (f : A -> bool) l l' : Permutation l l' -> existsb f l = existsb f l'.
Proof.
  induction 1 as [|x l l' _ IH|x y l|l l' l'' _ IH1 _ IH2]; cbn.
  - reflexivity.
  - now rewrite IH.
  - destruct (f x), (f y); reflexivity.
  - congruence.
Qed.
Lemma flat_map_perm {A B} (f : A -> list B) l l' :
  Permutation l l' -> Permutation (flat_map f l) (flat_map f l').
Proof.
  induction 1 as [|x l l' _ IH|x y l|l l' l'' _ IH1 _ IH2]; cbn.
  - constructor.
  - now apply Permutation_app_head.
  - rewrite !app_assoc. apply Permutation_app_tail, Permutation_app_comm.
  - eapply perm_trans; eauto.
Qed.
Lemma filter_perm {A} (f : A -> bool) l l' :
  Permutation l l' -> Permutation (filter f l) (filter f l').
Proof.
  induction 1 as [|x l l' _ IH|x y l|l l' l'' _ IH1 _ IH2]; cbn.
  - constructor.
  - destruct (f x); [now constructor|assumption].
  - destruct (f x), (f y); try (now apply Permutation_refl). constructor.
  - eapply perm_trans; eauto.
Qed.

Theorem car_model_order_irrelevant strict strict' g M L M' L' g1 g1' :
  Permutation M M' -> Permutation L L' ->
  car_model strict g M L = Ok g1 -> car_model strict' g M' L' = Ok g1' -> g1 = g1'.
Proof.
  intros PM PL E E'. rewrite (car_model_closed _ _ _ _ _ E), (car_model_closed _ _ _ _ _ E').
  apply car_closed_set_only.
  - intros k. apply existsb_perm. unfold ring_nodes. now apply flat_map_perm.
  - intros k w. apply existsb_perm. unfold ring_bonds. now apply flat_map_perm.
  - intros k w. apply existsb_perm. unfold kept. now apply filter_perm.
Qed.

(** non-vacuity: three listings of the same matching and ring of benzene give the same state, the closed form *)
Example car_model_closed_nonvacuous :
  exists g1, car_model true benzene [(0, 1); (2, 3); (4, 5)] [([0; 1; 2; 3; 4; 5], false)] = Ok g1 /\
             car_model true benzene [(4, 5); (0, 1); (2, 3)] [([0; 1; 2; 3; 4; 5], false)] = Ok g1 /\
             (* the same ring walked from another atom in the other direction *)
             car_model true benzene [(3, 2); (5, 4); (1, 0)] [([3; 2; 1; 0; 5; 4], false)] = Ok g1 /\
             g1 = car_closed [(0, 1); (2, 3); (4, 5)] [0; 1; 2; 3; 4; 5] (ring_edges [0; 1; 2; 3; 4; 5]) benzene.
Proof.
  eexists. split; [vm_compute; reflexivity|]. split; [vm_compute; reflexivity|].
  split; vm_compute; reflexivity.
Qed.
