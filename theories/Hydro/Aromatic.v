(** Aromatic: executable model (Impl layer, NO proofs) of the installed pysmiles 2.1
      smiles_helper.correct_aromatic_rings(mol, strict)   and of   dekekulize(mol)
    as rebuild_h_atoms calls them.  What is MODELLED (every write to the molecule and every decision):
      * arom_atoms / stars are read, `aromatic` is reset to False on every node, every 1.5 order becomes 1;
      * _prune_nodes: the wildcard atoms and the formerly aromatic atoms with bonds_missing > 0 (the model of
        Hydrogens.bonds_missing, over the generated valence table) span the subgraph that is matched, without
        its order-0 edges;
      * the SyntaxError decision (a non-empty matching that leaves a non-wildcard atom of that subgraph out);
      * kekulisation: order 2 on every matched edge that is not wildcard-wildcard;
      * dekekulize: every ring it marks gets `aromatic = True` on its atoms and order 1.5 on its edges; the test
        _ring_is_aromatic (the order-2 bonds inside the ring match its atoms perfectly, read on the kekulised
        state) is re-evaluated by the model for every enumerated ring.
    What stays a TRANSCRIPT of networkx' enumeration, recorded per run, each under a decidable contract that
    the model itself enforces (a violated contract is EAssert, i.e. a correspondence mismatch):
      * [M]  the answer of nx.max_weight_matching on that subgraph (Edmonds' blossom algorithm, not modelled):
             it must be a matching of the modelled subgraph that no edge of the subgraph can extend and - when no
             wildcard is involved - for which a bounded exhaustive search finds no augmenting path (maximum size);
      * [L]  the rings dekekulize marked, in the order it met them (nx.biconnected_components / simple_cycles /
             cycle_basis and its early exit are not modelled): each must be a duplicate-free closed walk over
             existing non-zero bonds between atoms of pysmiles' AROMATIC_ATOMS, and - unless it comes from the
             estimation branch for ring systems above the threshold - must pass _ring_is_aromatic.
    Every graph rewriting step is an instance of [rewrite]: node attributes change only under `aromatic`, edge
    attributes only under `order`, nothing is added or removed. *)
From Coq Require Import String.
From Coq Require Import List Ascii ZArith Bool Lia.
From CGV Require Import Base.PyBase Base.PyVal Base.NxGraph Gen.HydroGen Gen.AromGen Hydro.Hydrogens Hydro.HydroDefs.
Import ListNotations.
Open Scope Z_scope.

Definition k_arom : pystr := S "aromatic".
Definition k_order : pystr := S "order".

(** ---------------------------------------------------------------- the one rewriting combinator *)
Definition rewrite (fa : Z -> attrs -> attrs) (fe : Z -> Z -> attrs -> attrs) (g : graph) : graph :=
  map (fun n => {| nk := nk n; na := fa (nk n) (na n);
                   nadj := map (fun wa => (fst wa, fe (nk n) (fst wa) (snd wa))) (nadj n) |}) g.
Definition keep_a (_ : Z) (a : attrs) : attrs := a.
Definition keep_e (_ _ : Z) (d : attrs) : attrs := d.

(** nx.set_node_attributes(mol, False, 'aromatic') *)
Definition reset_arom (g : graph) : graph := rewrite (fun _ a => aset k_arom (VBool false) a) keep_e g.
(** `mol.edges[edge].get('order') == 1.5` *)
Definition is_15 (d : attrs) : bool :=
  match aget k_order d with
  | Some (VFlt r) => match half_of_flt r with Ok 3 => true | _ => false end
  | _ => false
  end.
Definition demote (g : graph) : graph :=
  rewrite keep_a (fun _ _ d => if is_15 d then aset k_order (VInt 1) d else d) g.
(** mol.edges[u, v]['order'] = x  (the dict is shared by both adjacency entries) *)
Definition hits (u v k w : Z) : bool := (Z.eqb k u && Z.eqb w v) || (Z.eqb k v && Z.eqb w u).
Definition set_order (g : graph) (u v : Z) (x : pyval) : graph :=
  rewrite keep_a (fun k w d => if hits u v k w then aset k_order x d else d) g.
(** mol.nodes[k]['aromatic'] = True *)
Definition set_arom (g : graph) (k : Z) : graph :=
  rewrite (fun j a => if Z.eqb j k then aset k_arom (VBool true) a else a) keep_e g.

(** ---------------------------------------------------------------- reading the molecule *)
Definition elem_val (a : attrs) : pyval := getd (S "element") a (VStr (S "*")).
Definition is_star (a : attrs) : bool := match elem_val a with VStr e => str_eqb e (S "*") | _ => false end.
(** `for node, aromatic in mol.nodes(data='aromatic') if aromatic` *)
Definition flagged (a : attrs) : bool := truthy (getd k_arom a VNone).
Definition memz (k : Z) (l : list Z) : bool := existsb (Z.eqb k) l.
Fixpoint nodupz (l : list Z) : bool := match l with [] => true | x :: r => negb (memz x r) && nodupz r end.
(** `order == 0` / `order == 2` (None when the attribute is missing) *)
Definition order_is (h : Z) (d : attrs) : bool :=
  match aget k_order d with Some v => match half_of_num v with Ok z => Z.eqb z h | Err _ => false end | None => false end.
Definition arom_flag (g : graph) (k : Z) : bool := arom_of g k.
Definition star_node (g : graph) (k : Z) : bool :=
  match gfind k g with Some n => is_star (na n) | None => false end.

(** _prune_nodes(arom_atoms | stars, mol) *)
Fixpoint prune (g : graph) (cand : list Z) : res (list Z) :=
  match cand with
  | [] => Ok []
  | k :: r =>
      a <- node_attrs g k ;;
      keep <- (if is_star a then Ok true else m <- bonds_missing g k ;; Ok (0 <? m)) ;;
      rest <- prune g r ;;
      Ok (if keep then k :: rest else rest)
  end.

(** an edge of sub_ds_graph: both ends kept by the pruning, present in mol, order not 0 *)
Definition sub_edge (g : graph) (ds : list Z) (u v : Z) : bool :=
  memz u ds && memz v ds && match edge_attrs g u v with Ok d => negb (order_is 0 d) | Err _ => false end.
Definition matched_nodes (M : list (Z * Z)) : list Z := flat_map (fun e => [fst e; snd e]) M.
(** the partner of a matched node *)
Fixpoint mate (M : list (Z * Z)) (x : Z) : option Z :=
  match M with
  | [] => None
  | (u, v) :: r => if Z.eqb u x then Some v else if Z.eqb v x then Some u else mate r x
  end.
(** search for an M-augmenting path: a simple path that starts at the unmatched node [u], alternates between bonds
    outside and inside M and ends at another unmatched node (Berge: M is a maximum matching iff there is none).
    Exhaustive over simple alternating paths, bounded by a work budget: (Some true, _) = found, (Some false, _) =
    none exists from here, (None, _) = budget exhausted (no verdict). *)
Fixpoint aug (g : graph) (ds : list Z) (M : list (Z * Z)) (depth budget : nat) (path : list Z) (u : Z)
  : option bool * nat :=
  match depth with
  | O => (None, budget)
  | Datatypes.S dp =>
      (fix go (nb : list Z) (budget : nat) : option bool * nat :=
         match nb with
         | [] => (Some false, budget)
         | v :: r =>
             match budget with
             | O => (None, O)
             | Datatypes.S b =>
                 if memz v path || Z.eqb u v || negb (sub_edge g ds u v) then go r b else
                 match mate M v with
                 | None => (Some true, b)
                 | Some w =>
                     if Z.eqb w u || memz w path then go r b else
                     match aug g ds M dp b (w :: v :: path) w with
                     | (Some true, b') => (Some true, b')
                     | (Some false, b') => go r b'
                     | (None, b') => match go r b' with (Some true, b2) => (Some true, b2) | (_, b2) => (None, b2) end
                     end
                 end
             end
         end) (neighbors g u) budget
  end.
Definition aug_budget : nat := 3000.
(** no augmenting path was FOUND from any unmatched node (an exhausted budget gives no verdict and passes) *)
Definition no_augmenting (g : graph) (ds : list Z) (M : list (Z * Z)) : bool :=
  forallb (fun u => memz u (matched_nodes M) ||
                    match fst (aug g ds M (length ds) aug_budget [u] u) with Some true => false | _ => true end) ds.
(** contract of the transcript M: a matching of sub_ds_graph that no edge of it extends; and, when no wildcard is
    involved (then every weight is 1 and maximum weight means maximum size), that no augmenting path extends either *)
Definition matching_okb (g : graph) (ds : list Z) (M : list (Z * Z)) : bool :=
  forallb (fun e => negb (Z.eqb (fst e) (snd e)) && sub_edge g ds (fst e) (snd e)) M
  && nodupz (matched_nodes M)
  && forallb (fun u => memz u (matched_nodes M) ||
                       forallb (fun v => Z.eqb u v || memz v (matched_nodes M) || negb (sub_edge g ds u v)) (neighbors g u)) ds
  && (existsb (star_node g) ds || no_augmenting g ds M).

(** ---------------------------------------------------------------- dekekulize, one marked ring *)
Definition ring_edges (c : list Z) : list (Z * Z) :=
  match c with [] => [] | x :: r => combine c (r ++ [x]) end.
Definition correct_element (a : attrs) : bool :=
  match elem_val a with VStr e => existsb (str_eqb e) aromatic_atoms | _ => false end.
(** _ring_is_aromatic(submol, c): every atom of the ring lies on exactly one order-2 bond whose other end is in the ring *)
Definition doubles_in (g : graph) (c : list Z) (x : Z) : nat :=
  match gfind x g with
  | Some n => length (filter (fun wa => memz (fst wa) c && order_is 4 (snd wa)) (nadj n))
  | None => 0%nat
  end.
Definition ring_alternates (g : graph) (c : list Z) : bool := forallb (fun x => Nat.eqb (doubles_in g c x) 1%nat) c.
(** contract of one entry of the transcript L, read on the kekulised molecule [g0] (dekekulize's `submol`) *)
Definition ring_okb (g0 : graph) (c : list Z) (estimated : bool) : bool :=
  nodupz c
  && forallb (fun x => match gfind x g0 with Some n => correct_element (na n) | None => false end) c
  && forallb (fun e => match edge_attrs g0 (fst e) (snd e) with Ok d => negb (order_is 0 d) | Err _ => false end) (ring_edges c)
  && (estimated || ring_alternates g0 c).

Definition v15 : pyval := VFlt (S "1.5").
(** `mol.edges[edge]['order'] = 1.5`; KeyError when the bond does not exist.  Both ends were flagged in the loop
    just before (the test cannot fail on a networkx graph, whose adjacency is closed). *)
Definition mark_edge (g : graph) (e : Z * Z) : res graph :=
  let '(u, v) := e in
  if has_edge g u v && has_edge g v u && arom_flag g u && arom_flag g v then Ok (set_order g u v v15) else Err EKey.
Definition mark_ring (g0 : graph) (g : graph) (ce : list Z * bool) : res graph :=
  let '(c, est) := ce in
  if negb (ring_okb g0 c est) then Err EAssert else
  fold_res mark_edge (ring_edges c) (fold_left set_arom c g).

(** ---------------------------------------------------------------- correct_aromatic_rings(mol, strict) *)
Definition kekulize (g : graph) (M : list (Z * Z)) : graph :=
  fold_left (fun acc e => if star_node g (fst e) && star_node g (snd e) then acc
                          else set_order acc (fst e) (snd e) (VInt 2)) M g.

Definition car_model (strict : bool) (g : graph) (M : list (Z * Z)) (L : list (list Z * bool)) : res graph :=
  let cand := map nk (filter (fun n => flagged (na n) || is_star (na n)) g) in
  let g2 := demote (reset_arom g) in
  ds <- prune g2 cand ;;
  if negb (matching_okb g2 ds M) then Err EAssert else
  let unmatched := filter (fun k => negb (memz k (matched_nodes M)) && negb (star_node g2 k)) ds in
  if strict && match M with [] => false | _ => true end && match unmatched with [] => false | _ => true end
  then Err (ESyntax (S "kekulize")) else
  let g3 := kekulize g2 M in
  fold_res (mark_ring g3) L g3.

(** rebuild_h_atoms with the aromaticity step COMPUTED from the two enumeration transcripts *)
Definition rebuild_h_atoms_m (keep_bonding : bool) (copy_attrs : list pystr) (g : graph)
           (M : list (Z * Z)) (L : list (list Z * bool)) : res graph :=
  g1 <- car_model rebuild_strict g M L ;; rebuild_after_car keep_bonding copy_attrs g1.
