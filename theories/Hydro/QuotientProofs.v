(** QuotientProofs: squash_atoms computes the quotient of the bonded graph by the merge classes of its `!`
    pairs (any number of pairs, classes of any size), and the metamorphic clause for many shared atoms. *)
From Coq Require Import String.
From Coq Require Import List Ascii ZArith Bool Lia.
From CGV Require Import Base.PyBase Base.PyVal Base.NxGraph Gen.HydroGen Hydro.Hydrogens Hydro.Squash
     Hydro.GraphLemmas Hydro.SquashDefs Hydro.SquashProofs.
From CGV Require Import Hydro.QuotientDefs.
Import ListNotations.
Open Scope Z_scope.

(** ------------------------------------------------------------ one contraction on a quotient *)
Definition rho_step (r : Z -> Z) (keep rm : Z) : Z -> Z := fun z => if Z.eqb (r z) rm then keep else r z.

Lemma existsb_const {A} (c : bool) (f : A -> bool) l : existsb (fun e => c && f e) l = c && existsb f l.
Proof. induction l as [|e l IH]; cbn; [now rewrite andb_false_r|]. rewrite IH. destruct c; reflexivity. Qed.

Lemma rho_step_eqb r keep rm p y : y <> rm ->
  Z.eqb (rho_step r keep rm p) y = Z.eqb (r p) y || (Z.eqb y keep && Z.eqb (r p) rm).
Proof.
  intros Ny. unfold rho_step. destruct (Z.eqb_spec (r p) rm) as [E|N].
  - rewrite E. replace (Z.eqb rm y) with false by (symmetry; apply Z.eqb_neq; congruence).
    rewrite andb_true_r, Z.eqb_sym. reflexivity.
  - rewrite andb_false_r, orb_false_r. reflexivity.
Qed.

Definition Qx (r : Z -> Z) (E : list (Z * Z)) (a b : Z) : bool :=
  existsb (fun e => Z.eqb (r (fst e)) a && Z.eqb (r (snd e)) b) E.

Lemma Qx_step r E keep rm y x : y <> rm -> x <> rm ->
  Qx (rho_step r keep rm) E y x =
  Qx r E y x || (Z.eqb y keep && Qx r E rm x) || (Z.eqb x keep && Qx r E y rm)
  || (Z.eqb y keep && Z.eqb x keep && Qx r E rm rm).
Proof.
  intros Ny Nx. unfold Qx.
  rewrite (existsb_ext _ (fun e =>
     (Z.eqb (r (fst e)) y && Z.eqb (r (snd e)) x)
     || (Z.eqb y keep && (Z.eqb (r (fst e)) rm && Z.eqb (r (snd e)) x))
     || (Z.eqb x keep && (Z.eqb (r (fst e)) y && Z.eqb (r (snd e)) rm))
     || (Z.eqb y keep && Z.eqb x keep && (Z.eqb (r (fst e)) rm && Z.eqb (r (snd e)) rm)))).
  - rewrite !existsb_orb, !existsb_const. reflexivity.
  - intros e. rewrite !rho_step_eqb by assumption.
    destruct (Z.eqb (r (fst e)) y), (Z.eqb (r (snd e)) x), (Z.eqb y keep), (Z.eqb x keep),
             (Z.eqb (r (fst e)) rm), (Z.eqb (r (snd e)) rm); reflexivity.
Qed.
Lemma Qx_step_dead r E keep rm y x : keep <> rm -> (y = rm \/ x = rm) -> Qx (rho_step r keep rm) E y x = false.
Proof.
  intros Hne H. unfold Qx. rewrite (existsb_ext _ (fun _ => false)); [apply existsb_false|].
  intros e. unfold rho_step. destruct H as [-> | ->].
  - destruct (Z.eqb (r (fst e)) rm) eqn:E1.
    + replace (Z.eqb keep rm) with false by (symmetry; now apply Z.eqb_neq). reflexivity.
    + rewrite E1. reflexivity.
  - destruct (Z.eqb (r (snd e)) rm) eqn:E1.
    + replace (Z.eqb keep rm) with false by (symmetry; now apply Z.eqb_neq). now rewrite andb_false_r.
    + rewrite E1. now rewrite andb_false_r.
Qed.

(** contracting rm into keep in a graph whose adjacency is the quotient by [r] gives the quotient by [r]
    followed by rm |-> keep *)
Lemma qedge_contract g r E keep rm : keep <> rm ->
  (forall y x, has_edge g y x = qedge r E y x) ->
  forall y x, contracted_edge g keep rm y x = qedge (rho_step r keep rm) E y x.
Proof.
  intros Hne H y x. unfold contracted_edge. rewrite !H.
  assert (QE : forall r' a b, qedge r' E a b = negb (Z.eqb a b) && Qx r' E a b) by reflexivity. rewrite !QE.
  destruct (Z.eqb_spec y rm) as [Ey|Ny].
  - cbn [orb]. rewrite Qx_step_dead by auto. now rewrite andb_false_r.
  - destruct (Z.eqb_spec x rm) as [Ex|Nx].
    + cbn [orb]. rewrite Qx_step_dead by auto. now rewrite andb_false_r.
    + cbn [orb]. rewrite (Qx_step r E keep rm y x Ny Nx). rewrite !Z.eqb_refl. cbn [negb andb].
      replace (Z.eqb rm x) with false by (symmetry; apply Z.eqb_neq; congruence).
      replace (Z.eqb y rm) with false by (symmetry; now apply Z.eqb_neq).
      cbn [negb andb].
      destruct (Z.eqb_spec y keep) as [-> |Nyk]; destruct (Z.eqb_spec x keep) as [-> |Nxk]; cbn [andb orb negb].
      * rewrite Z.eqb_refl. reflexivity.
      * replace (Z.eqb keep x) with false by (symmetry; apply Z.eqb_neq; congruence). cbn [negb andb].
        rewrite !orb_false_r. reflexivity.
      * replace (Z.eqb y keep) with false by (symmetry; now apply Z.eqb_neq). cbn [negb andb].
        rewrite !orb_false_r. reflexivity.
      * rewrite !orb_false_r. reflexivity.
Qed.

(** ------------------------------------------------------------ the loop *)
Lemma sq_pass_snoc sq rm keep z : sq_pass (sq ++ [(rm, keep)]) z = rho_step (sq_pass sq) keep rm z.
Proof. unfold sq_pass, rho_step. rewrite fold_left_app. reflexivity. Qed.

Lemma squash_merge_edges gi keep rm g2 : wf_graph gi -> keep <> rm ->
  has_node gi keep = true -> has_node gi rm = true ->
  (g1 <- contracted squash_self_loops gi keep rm ;; g2 <- Hydrogens.fold_res (concat_attr keep rm) squash_concat_attrs g1 ;;
   hcount_min keep rm g2) = Ok g2 ->
  wf_graph g2 /\ node_keys g2 = filter (fun k => negb (Z.eqb k rm)) (node_keys gi) /\
  (forall y x, has_edge g2 y x = contracted_edge gi keep rm y x).
Proof.
  intros W Hne Hk Hr H.
  assert (exists au, nattrs gi keep = Some au) as [au Hu]
    by (apply has_node_gfind in Hk as [n Hn]; unfold nattrs; rewrite Hn; cbn; eauto).
  assert (exists av, nattrs gi rm = Some av) as [av Hv]
    by (apply has_node_gfind in Hr as [n Hn]; unfold nattrs; rewrite Hn; cbn; eauto).
  destruct (contracted_spec gi keep rm au av W Hne Hu Hv) as (h & Hc & K & E & _).
  change squash_self_loops with false in H. rewrite Hc in H. cbn [bind] in H.
  destruct (Hydrogens.fold_res (concat_attr keep rm) squash_concat_attrs h) as [gc|] eqn:Cf; cbn [bind] in H; [|discriminate].
  destruct (concat_fold_shape _ _ _ _ _ Cf) as [K2 E2].
  destruct (hcount_min_keeps _ _ _ _ H) as (K3 & E3 & _).
  pose proof (wf_contracted gi keep rm h W Hne Hk Hr K E) as Wh.
  assert (Wc : wf_graph gc) by exact (wf_transfer h gc K2 E2 Wh).
  split; [exact (wf_transfer gc g2 K3 E3 Wc)|]. split; [congruence|]. intros y x. rewrite E3, E2. apply E.
Qed.

Lemma squash_fold_quot alive E l : forall gi sq g' sq',
  wf_graph gi -> fwd sq ->
  (forall k, has_node gi k = zmem k alive && negb (zmem k (sq_keys sq))) ->
  (forall kv, In kv sq -> zmem (snd kv) alive = true) ->
  (forall e, In e l -> zmem (fst (fst e)) alive = true /\ zmem (snd (fst e)) alive = true) ->
  (forall y x, has_edge gi y x = qedge (sq_pass sq) E y x) ->
  Hydrogens.fold_res squash_step l (gi, sq) = Ok (g', sq') ->
  sq' = sq ++ plan_sq (squash_plan sq (bangs l)) /\ fwd sq' /\ wf_graph g' /\
  (forall k, has_node g' k = zmem k alive && negb (zmem k (sq_keys sq'))) /\
  (forall y x, has_edge g' y x = qedge (sq_pass sq') E y x) /\
  node_keys g' = filter (fun k => negb (zmem k (sq_keys (plan_sq (squash_plan sq (bangs l)))))) (node_keys gi) /\
  (forall kv, In kv sq' -> zmem (snd kv) alive = true).
Proof.
  induction l as [|[[a b] bond] l IH]; intros gi sq g' sq' W F Hal Hv Hl He H.
  - cbn in H. inversion H; subst. cbn [bangs filter map squash_plan plan_sq]. rewrite app_nil_r.
    split; [reflexivity|]. split; [assumption|]. split; [assumption|]. split; [assumption|]. split; [assumption|].
    split; [|assumption].
    clear. induction (node_keys g') as [|k r IHr]; cbn; [reflexivity|f_equal; exact IHr].
  - cbn [Hydrogens.fold_res] in H.
    assert (Eb : bangs ((a, b, bond) :: l) =
                 match starts_squash bond with Ok true => (a, b) :: bangs l | _ => bangs l end).
    { unfold bangs. cbn [filter]. unfold item_is_bang at 1. cbn [snd].
      destruct (starts_squash bond) as [[|]|]; reflexivity. }
    rewrite Eb. clear Eb.
    assert (Hl' : forall e, In e l -> zmem (fst (fst e)) alive = true /\ zmem (snd (fst e)) alive = true)
      by (intros e He'; apply Hl; now right).
    destruct (Hl (a, b, bond) (or_introl eq_refl)) as [Aa Ab]. cbn [fst snd] in Aa, Ab.
    unfold squash_step at 1 in H.
    destruct (starts_squash bond) as [[|]|] eqn:Hb; cbn [bind negb] in H.
    + rewrite !(sq_root_pass sq F) in H by (unfold sq_fuel; lia). cbn [bind] in H.
      cbn [squash_plan].
      set (keep := sq_pass sq a) in *. set (rm := sq_pass sq b) in *.
      assert (Ak : zmem keep alive = true) by (apply (pass_pred (fun z => zmem z alive = true)); assumption).
      assert (Ar : zmem rm alive = true) by (apply (pass_pred (fun z => zmem z alive = true)); assumption).
      assert (Nk : zmem keep (sq_keys sq) = false)
        by (apply not_true_iff_false; rewrite zmem_In; apply pass_not_key; assumption).
      assert (Nr : zmem rm (sq_keys sq) = false)
        by (apply not_true_iff_false; rewrite zmem_In; apply pass_not_key; assumption).
      destruct (Z.eqb_spec keep rm) as [Eq|Hne].
      * exact (IH gi sq g' sq' W F Hal Hv Hl' He H).
      * destruct (g1 <- contracted squash_self_loops gi keep rm ;;
                  g2 <- Hydrogens.fold_res (concat_attr keep rm) squash_concat_attrs g1 ;; hcount_min keep rm g2) as [g2|] eqn:St.
        2:{ destruct (contracted squash_self_loops gi keep rm) as [g1|]; cbn [bind] in St, H; [|discriminate].
            destruct (Hydrogens.fold_res (concat_attr keep rm) squash_concat_attrs g1) as [gc|]; cbn [bind] in St, H; [|discriminate].
            rewrite St in H. discriminate. }
        assert (H2 : Hydrogens.fold_res squash_step l (g2, sq_set rm keep sq) = Ok (g', sq')).
        { destruct (contracted squash_self_loops gi keep rm) as [g1|]; cbn [bind] in St, H; [|discriminate].
          destruct (Hydrogens.fold_res (concat_attr keep rm) squash_concat_attrs g1) as [gc|]; cbn [bind] in St, H; [|discriminate].
          rewrite St in H. exact H. }
        assert (Hk : has_node gi keep = true) by (rewrite Hal, Ak, Nk; reflexivity).
        assert (Hr : has_node gi rm = true) by (rewrite Hal, Ar, Nr; reflexivity).
        destruct (squash_merge_edges gi keep rm g2 W Hne Hk Hr St) as (W2 & K2 & E2).
        assert (Fr : ~ In rm (sq_keys sq)) by (rewrite <- zmem_In, Nr; discriminate).
        assert (Fk : ~ In keep (sq_keys sq)) by (rewrite <- zmem_In, Nk; discriminate).
        rewrite (sq_set_fresh rm keep sq Fr) in H2.
        destruct (IH g2 (sq ++ [(rm, keep)]) g' sq' W2) as (Es & Fs & Wg & Hn & Hq & Kq & Vq); try assumption.
        -- apply fwd_snoc; auto.
        -- intros k. apply Bool.eq_iff_eq_true.
           rewrite has_node_keys, K2, filter_In, <- has_node_keys, Hal. unfold sq_keys. rewrite map_app. cbn [map fst].
           unfold zmem. rewrite existsb_app. cbn [existsb]. fold (zmem k (map fst sq)). fold (sq_keys sq).
           rewrite orb_false_r, negb_orb, !andb_true_iff, !negb_true_iff. tauto.
        -- intros kv Hin. apply in_app_or in Hin as [Hin|[<-|[]]]; [auto|exact Ak].
        -- intros y x. rewrite E2. rewrite (qedge_contract gi (sq_pass sq) E keep rm Hne He).
           unfold qedge. f_equal. apply existsb_ext. intros e. rewrite !sq_pass_snoc. reflexivity.
        -- split; [rewrite Es; cbn [plan_sq map fst snd]; rewrite <- app_assoc; reflexivity|].
           split; [assumption|]. split; [assumption|]. split; [assumption|]. split; [assumption|]. split; [|assumption].
           rewrite Kq, K2. cbn [plan_sq map fst snd sq_keys]. clear.
           induction (node_keys gi) as [|k r IHr]; cbn [filter]; [reflexivity|].
           unfold zmem at 2. cbn [existsb]. destruct (Z.eqb k rm); cbn [negb orb filter]; [exact IHr|].
           fold (zmem k (map fst (map (fun kr : Z * Z => (snd kr, fst kr)) (squash_plan (sq ++ [(rm, keep)]) (bangs l))))).
           destruct (negb (zmem k _)); [f_equal|]; exact IHr.
    + exact (IH gi sq g' sq' W F Hal Hv Hl' He H).
    + discriminate.
Qed.

(** ------------------------------------------------------------ squash_atoms is the quotient *)
Lemma dir_edges_all_adj g : dir_edges g = map (fun e : Z * Z * attrs => (fst (fst e), snd (fst e))) (all_adj g).
Proof.
  unfold dir_edges, all_adj. induction g as [|n g IH]; [reflexivity|]. cbn [flat_map]. rewrite map_app, IH. f_equal.
  rewrite map_map. reflexivity.
Qed.
Lemma has_edge_dir g y x : wf_graph g ->
  has_edge g y x = qedge (fun z => z) (dir_edges g) y x.
Proof.
  intros W. unfold qedge. rewrite dir_edges_all_adj, existsb_map. cbn [fst snd].
  rewrite (existsb_ext _ (fun e => Z.eqb y (fst (fst e)) && Z.eqb x (snd (fst e))))
    by (intros e; rewrite (Z.eqb_sym y), (Z.eqb_sym x); reflexivity).
  rewrite (all_adj_dir g y x (wf_nodup _ W)).
  destruct (Z.eqb_spec y x) as [-> |N]; [rewrite (wf_loopfree _ W); reflexivity|reflexivity].
Qed.
Lemma pass_nonkey sq k : ~ In k (sq_keys sq) -> sq_pass sq k = k.
Proof.
  induction sq as [|[k0 v0] r IH]; intros H; [reflexivity|]. rewrite pass_cons.
  destruct (Z.eqb_spec k k0) as [E|N]; [exfalso; apply H; left; auto|]. apply IH. intro X. apply H. now right.
Qed.
Lemma survivor_iff sq k : fwd sq -> negb (zmem k (sq_keys sq)) = Z.eqb (sq_pass sq k) k.
Proof.
  intros F. destruct (zmem k (sq_keys sq)) eqn:E; cbn [negb].
  - symmetry. apply Z.eqb_neq. intro X. apply zmem_In in E. apply (pass_not_key sq F k). rewrite X. exact E.
  - symmetry. apply Z.eqb_eq. apply pass_nonkey. rewrite <- zmem_In, E. discriminate.
Qed.

(** [squash_quotient]: for EVERY well-formed graph on which squash_atoms returns — any number of `!` pairs,
    merge classes of any size, redundant pairs, any order — the result is the QUOTIENT by the classes:
    - exactly the class representatives survive ([rho g k = k]), in their old order;
    - two representatives are adjacent iff some member of one class is bonded to some member of the other
      (bonds inside a class, i.e. the provisional `!` bonds, disappear; nothing else is lost or added);
    - it is again a well-formed simple graph. *)
Theorem squash_quotient g g' : wf_graph g -> squash_atoms g = Ok g' ->
  wf_graph g' /\
  node_keys g' = filter (fun k => Z.eqb (rho g k) k) (node_keys g) /\
  (forall y x, has_edge g' y x = qedge (rho g) (dir_edges g) y x) /\
  (forall k, In k (node_keys g) -> In (rho g k) (node_keys g')).
Proof.
  intros W H. unfold squash_atoms in H.
  destruct (Hydrogens.fold_res squash_step (edge_attr_items g squash_edge_attr) (g, [])) as [[g2 sq2]|] eqn:Fd; cbn [bind fst] in H; [|discriminate].
  inversion H; subst g2. clear H.
  assert (Hal : forall k, has_node g k = zmem k (node_keys g) && negb (zmem k (sq_keys []))).
  { intros k. cbn. rewrite andb_true_r. apply Bool.eq_iff_eq_true. rewrite has_node_keys, zmem_In. tauto. }
  destruct (squash_fold_quot (node_keys g) (dir_edges g) (edge_attr_items g squash_edge_attr) g [] g' sq2 W I Hal)
    as (Es & Fs & Wg & Hn & Hq & Kq & Vq); [intros kv []| | |exact Fd|].
  - intros e He. destruct (items_are_edges g _ e W He) as [A B]. rewrite !zmem_In, <- !has_node_keys. auto.
  - intros y x. apply has_edge_dir. exact W.
  - cbn [app] in Es. fold (bangs (edge_attr_items g squash_edge_attr)) in Es.
    assert (Er : forall z, rho g z = sq_pass sq2 z) by (intros z; unfold rho, bang_items; rewrite Es; reflexivity).
    split; [exact Wg|]. split.
    + rewrite Kq. unfold bang_items in *. rewrite <- Es.
      clear - Fs Er. induction (node_keys g) as [|k r IHr]; cbn [filter]; [reflexivity|].
      rewrite (survivor_iff sq2 k Fs), <- Er. destruct (Z.eqb (rho g k) k); [f_equal|]; exact IHr.
    + split.
      * intros y x. rewrite Hq. unfold qedge. f_equal. apply existsb_ext. intros e. rewrite !Er. reflexivity.
      * intros k Hk. apply has_node_keys. rewrite Hn, Er. apply andb_true_iff. split.
        -- apply (pass_pred (fun z => zmem z (node_keys g) = true)); [exact Vq|apply zmem_In; exact Hk].
        -- apply negb_true_iff. apply not_true_iff_false. rewrite zmem_In. apply pass_not_key. exact Fs.
Qed.

(** ------------------------------------------------------------ the classes are the components of the `!` pairs *)
Lemma pass_app s1 s2 z : sq_pass (s1 ++ s2) z = sq_pass s2 (sq_pass s1 z).
Proof. unfold sq_pass. apply fold_left_app. Qed.

Lemma plan_complete ps : forall sq a b, In (a, b) ps ->
  sq_pass (sq ++ plan_sq (squash_plan sq ps)) a = sq_pass (sq ++ plan_sq (squash_plan sq ps)) b.
Proof.
  induction ps as [|[a0 b0] ps IH]; intros sq a b Hin; [contradiction|]. cbn [squash_plan].
  destruct (Z.eqb_spec (sq_pass sq a0) (sq_pass sq b0)) as [E|N].
  - destruct Hin as [Hin|Hin]; [inversion Hin; subst; rewrite !pass_app; now rewrite E|apply IH; assumption].
  - cbn [plan_sq map fst snd].
    replace (sq ++ (sq_pass sq b0, sq_pass sq a0) :: map (fun kr : Z * Z => (snd kr, fst kr)) (squash_plan (sq ++ [(sq_pass sq b0, sq_pass sq a0)]) ps))
      with ((sq ++ [(sq_pass sq b0, sq_pass sq a0)]) ++ plan_sq (squash_plan (sq ++ [(sq_pass sq b0, sq_pass sq a0)]) ps))
      by (rewrite <- app_assoc; reflexivity).
    destruct Hin as [Hin|Hin]; [|apply IH; assumption]. inversion Hin; subst a0 b0.
    rewrite !(pass_app (sq ++ _)). f_equal. rewrite !sq_pass_snoc. unfold rho_step.
    rewrite Z.eqb_refl. destruct (Z.eqb_spec (sq_pass sq a) (sq_pass sq b)); [contradiction|reflexivity].
Qed.
Lemma plan_sound P ps : forall sq, (forall z, bconn P z (sq_pass sq z)) -> (forall e, In e ps -> In e P) ->
  forall z, bconn P z (sq_pass (sq ++ plan_sq (squash_plan sq ps)) z).
Proof.
  induction ps as [|[a0 b0] ps IH]; intros sq Hs Hp z; [cbn; rewrite app_nil_r; apply Hs|]. cbn [squash_plan].
  assert (Hp' : forall e, In e ps -> In e P) by (intros e He; apply Hp; now right).
  destruct (Z.eqb_spec (sq_pass sq a0) (sq_pass sq b0)) as [E|N]; [apply IH; assumption|].
  cbn [plan_sq map fst snd].
  replace (sq ++ (sq_pass sq b0, sq_pass sq a0) :: map (fun kr : Z * Z => (snd kr, fst kr)) (squash_plan (sq ++ [(sq_pass sq b0, sq_pass sq a0)]) ps))
    with ((sq ++ [(sq_pass sq b0, sq_pass sq a0)]) ++ plan_sq (squash_plan (sq ++ [(sq_pass sq b0, sq_pass sq a0)]) ps))
    by (rewrite <- app_assoc; reflexivity).
  apply IH; [|assumption]. intros w. rewrite sq_pass_snoc. unfold rho_step.
  destruct (Z.eqb_spec (sq_pass sq w) (sq_pass sq b0)) as [Ew|Nw]; [|apply Hs].
  (* w ~ root(w) = root(b0) ~ b0 ~ a0 ~ root(a0) *)
  apply (bc_trans P w (sq_pass sq w)); [apply Hs|]. rewrite Ew.
  apply (bc_trans P _ b0); [apply bc_sym; apply Hs|].
  apply (bc_trans P _ a0); [apply bc_sym; apply bc_pair; apply Hp; now left|apply Hs].
Qed.

(** [rho_classes]: two atoms end in the same surviving atom iff they are connected through `!` pairs — the
    equivalence GENERATED by the pairs, whatever their order, multiplicity or redundancy; ordinary bonds
    between shared atoms play no role *)
Theorem rho_classes g p q : rho g p = rho g q <-> bconn (bang_items g) p q.
Proof.
  unfold rho. set (ps := bang_items g).
  assert (S : forall z, bconn ps z (sq_pass (plan_sq (squash_plan [] ps)) z)).
  { intros z. apply (plan_sound ps ps []); [intros w; apply bc_refl|auto]. }
  split.
  - intros E. apply (bc_trans ps p (sq_pass (plan_sq (squash_plan [] ps)) p)); [apply S|]. rewrite E. apply bc_sym. apply S.
  - induction 1 as [x|a b Hin|x y _ IH|x y z _ IH1 _ IH2]; [reflexivity| |now symmetry|congruence].
    exact (plan_complete ps [] a b Hin).
Qed.

(** ------------------------------------------------------------ the metamorphic clause for MANY shared atoms *)
Lemma existsb_ext_in {A} (f g : A -> bool) l : (forall a, In a l -> f a = g a) -> existsb f l = existsb g l.
Proof.
  induction l as [|a l IH]; intros H; [reflexivity|]. cbn. rewrite (H a (or_introl eq_refl)), IH; [reflexivity|].
  intros b Hb. apply H. now right.
Qed.
Lemma dir_edges_nodes g p q : wf_graph g -> In (p, q) (dir_edges g) -> In p (node_keys g) /\ In q (node_keys g).
Proof.
  intros W H. unfold dir_edges in H. apply in_flat_map in H as (n & Hn & He). apply in_map_iff in He as ([w a] & E & Ha).
  cbn [fst] in E. inversion E; subst p q. pose proof (gfind_of_In g n (wf_nodup _ W) Hn) as G.
  assert (X : has_edge g (nk n) w = true) by (unfold has_edge; rewrite G; destruct (In_adj_get _ _ _ Ha) as [b ->]; reflexivity).
  split; [apply has_node_keys; apply has_node_gfind; eauto|apply has_node_keys; exact (wf_closed _ W _ _ X)].
Qed.

(** [share_vs_cut_many]: [gs] is the bonded graph of an OVERLAPPING description, [gd] that of the disjoint one,
    [pi] says which atom of gd every atom of gs is a copy of.  Hypotheses: (1) two atoms of gs are copies of the
    same atom exactly when they are connected through `!` pairs (any shape: several shared atoms per fragment,
    one atom shared by three or more fragments as a star, a chain or with redundant pairs, shared atoms that
    also carry `$` bonds); (2) gd is gs with the copies identified: its bonds are the images of the bonds
    between different atoms, its atoms the images of the atoms.  Then squash_atoms gs IS gd through pi: pi is a
    bijection from the surviving atoms onto the atoms of gd and preserves adjacency. *)
Theorem share_vs_cut_many gd gs (pi : Z -> Z) g' : wf_graph gs -> squash_atoms gs = Ok g' ->
  (forall p q, In p (node_keys gs) -> In q (node_keys gs) -> (bconn (bang_items gs) p q <-> pi p = pi q)) ->
  (forall a b, has_edge gd a b = qedge pi (dir_edges gs) a b) ->
  (forall a, has_node gd a = true <-> exists p, In p (node_keys gs) /\ pi p = a) ->
  (forall y, In y (node_keys g') -> has_node gd (pi y) = true) /\
  (forall a, has_node gd a = true -> exists y, In y (node_keys g') /\ pi y = a) /\
  (forall y x, In y (node_keys g') -> In x (node_keys g') -> pi y = pi x -> y = x) /\
  (forall y x, In y (node_keys g') -> In x (node_keys g') -> has_edge g' y x = has_edge gd (pi y) (pi x)).
Proof.
  intros W H H1 H2 H3. destruct (squash_quotient gs g' W H) as (Wg & K & E & R).
  assert (Surv : forall y, In y (node_keys g') <-> In y (node_keys gs) /\ rho gs y = y).
  { intros y. rewrite K, filter_In, Z.eqb_eq. tauto. }
  assert (Same : forall p y, In p (node_keys gs) -> In y (node_keys g') -> (rho gs p = y <-> pi p = pi y)).
  { intros p y Hp Hy. apply Surv in Hy as [Hy Ry]. rewrite <- (H1 p y Hp Hy), <- rho_classes, Ry. tauto. }
  split; [|split; [|split]].
  - intros y Hy. apply H3. exists y. split; [apply Surv in Hy; tauto|reflexivity].
  - intros a Ha. apply H3 in Ha as (p & Hp & <-). exists (rho gs p). split; [apply R; exact Hp|].
    symmetry. apply (Same p (rho gs p) Hp (R p Hp)). reflexivity.
  - intros y x Hy Hx Ep. pose proof Hx as Hx'. apply Surv in Hx' as [Hxs Rx]. pose proof Hy as Hy'. apply Surv in Hy' as [Hys Ry].
    rewrite <- Ry. apply (Same y x Hys Hx). exact Ep.
  - intros y x Hy Hx. rewrite E, H2. unfold qedge. f_equal.
    + destruct (Z.eqb_spec y x) as [-> |N]; [now rewrite Z.eqb_refl|].
      replace (Z.eqb (pi y) (pi x)) with false; [reflexivity|].
      symmetry. apply Z.eqb_neq. intro Ep. apply N.
      pose proof Hx as Hx'. apply Surv in Hx' as [Hxs Rx]. pose proof Hy as Hy'. apply Surv in Hy' as [Hys Ry].
      rewrite <- Ry. apply (Same y x Hys Hx). exact Ep.
    + apply existsb_ext_in. intros [p q] Hin. cbn [fst snd]. destruct (dir_edges_nodes gs p q W Hin) as [Hp Hq].
      apply Bool.eq_iff_eq_true. rewrite !andb_true_iff, !Z.eqb_eq.
      rewrite (Same p y Hp Hy), (Same q x Hq Hx). tauto.
Qed.

(** ------------------------------------------------------------ counting by classes *)
Definition class_of (g : graph) (s : Z) : list Z := filter (fun k => Z.eqb (rho g k) s) (node_keys g).
Fixpoint sum_nat (l : list nat) : nat := match l with [] => 0%nat | x :: r => (x + sum_nat r)%nat end.

Lemma indicator_sum (reps : list Z) v : NoDup reps -> In v reps ->
  sum_nat (map (fun s => if Z.eqb v s then 1%nat else 0%nat) reps) = 1%nat.
Proof.
  induction reps as [|s r IH]; intros Hnd Hin; [contradiction|]. inversion Hnd as [|? ? Hs Hr]; subst. cbn.
  destruct (Z.eqb_spec v s) as [-> |N].
  - replace (sum_nat _) with 0%nat; [reflexivity|]. symmetry. clear - Hs.
    induction r as [|t r IHr]; [reflexivity|]. cbn. destruct (Z.eqb_spec s t) as [-> |N]; [exfalso; apply Hs; now left|].
    apply IHr. intro X. apply Hs. now right.
  - destruct Hin as [E|Hin]; [congruence|]. exact (IH Hr Hin).
Qed.
Lemma partition_count (f : Z -> Z) (reps l : list Z) : NoDup reps -> (forall k, In k l -> In (f k) reps) ->
  sum_nat (map (fun s => length (filter (fun k => Z.eqb (f k) s) l)) reps) = length l.
Proof.
  intros Hnd. induction l as [|k l IH]; intros H.
  - clear. induction reps as [|s r IHr]; cbn; [reflexivity|exact IHr].
  - assert (Split : forall rs, sum_nat (map (fun s => length (filter (fun k0 => Z.eqb (f k0) s) (k :: l))) rs)
                      = (sum_nat (map (fun s => if Z.eqb (f k) s then 1%nat else 0%nat) rs)
                         + sum_nat (map (fun s => length (filter (fun k0 => Z.eqb (f k0) s) l)) rs))%nat).
    { induction rs as [|s r IHr]; [reflexivity|]. cbn [map sum_nat]. rewrite IHr. cbn [filter].
      destruct (Z.eqb (f k) s); cbn [length]; lia. }
    rewrite Split, (indicator_sum reps (f k) Hnd (H k (or_introl eq_refl))), IH by (intros k' Hk'; apply H; now right).
    reflexivity.
Qed.

(** [squash_count_classes]: n_fine = n_total - sum over the classes of (|class| - 1): every atom belongs to the
    class of exactly one surviving atom, every class contains its survivor *)
Theorem squash_count_classes g g' : wf_graph g -> squash_atoms g = Ok g' ->
  sum_nat (map (fun s => length (class_of g s)) (node_keys g')) = length g /\
  (forall s, In s (node_keys g') -> In s (class_of g s)) /\
  (length g' + sum_nat (map (fun s => (length (class_of g s) - 1)%nat) (node_keys g')) = length g)%nat.
Proof.
  intros W H. destruct (squash_quotient g g' W H) as (Wg & K & E & R).
  assert (P : sum_nat (map (fun s => length (class_of g s)) (node_keys g')) = length g).
  { unfold class_of. rewrite (partition_count (rho g) (node_keys g') (node_keys g) (wf_nodup _ Wg) R).
    unfold node_keys. apply map_length. }
  assert (S : forall s, In s (node_keys g') -> In s (class_of g s)).
  { intros s Hs. rewrite K in Hs. apply filter_In in Hs as [Hs Rs]. unfold class_of. apply filter_In. auto. }
  split; [exact P|]. split; [exact S|].
  rewrite <- P. replace (length g') with (length (node_keys g')) by (unfold node_keys; apply map_length).
  clear - S. induction (node_keys g') as [|s r IH]; [reflexivity|]. cbn [length map sum_nat].
  assert (L : (1 <= length (class_of g s))%nat).
  { specialize (S s (or_introl eq_refl)). destruct (class_of g s); [contradiction|cbn; lia]. }
  specialize (IH (fun t Ht => S t (or_intror Ht))). lia.
Qed.

(** ------------------------------------------------------------ a decidable form of the hypotheses of share_vs_cut_many *)
Definition shares_manyb (gd gs : graph) (pi : Z -> Z) : bool :=
  let ks := node_keys gs in
  let kd := node_keys gd in
  forallb (fun p => forallb (fun q => Bool.eqb (Z.eqb (rho gs p) (rho gs q)) (Z.eqb (pi p) (pi q))) ks) ks
  && forallb (fun a => forallb (fun b => Bool.eqb (has_edge gd a b) (qedge pi (dir_edges gs) a b)) kd) kd
  && forallb (fun p => has_node gd (pi p)) ks
  && forallb (fun a => existsb (fun p => Z.eqb (pi p) a) ks) kd.

Lemma shares_manyb_sound gd gs pi : wf_graph gd -> wf_graph gs -> shares_manyb gd gs pi = true ->
  (forall p q, In p (node_keys gs) -> In q (node_keys gs) -> (bconn (bang_items gs) p q <-> pi p = pi q)) /\
  (forall a b, has_edge gd a b = qedge pi (dir_edges gs) a b) /\
  (forall a, has_node gd a = true <-> exists p, In p (node_keys gs) /\ pi p = a).
Proof.
  intros Wd Ws H. unfold shares_manyb in H.
  apply andb_true_iff in H as [H C4]. apply andb_true_iff in H as [H C3]. apply andb_true_iff in H as [C1 C2].
  rewrite forallb_forall in C1, C2, C3, C4.
  assert (H3 : forall a, has_node gd a = true <-> exists p, In p (node_keys gs) /\ pi p = a).
  { intros a. split.
    - intros Ha. apply has_node_keys in Ha. specialize (C4 a Ha). apply existsb_exists in C4 as (p & Hp & E).
      apply Z.eqb_eq in E. eauto.
    - intros (p & Hp & <-). exact (C3 p Hp). }
  split; [|split; [|exact H3]].
  - intros p q Hp Hq. rewrite <- rho_classes. specialize (C1 p Hp). rewrite forallb_forall in C1. specialize (C1 q Hq).
    apply Bool.eqb_prop in C1. rewrite <- !Z.eqb_eq. rewrite C1. tauto.
  - intros a b.
    destruct (has_node gd a) eqn:Na; [destruct (has_node gd b) eqn:Nb|].
    + apply has_node_keys in Na, Nb. specialize (C2 a Na). rewrite forallb_forall in C2. specialize (C2 b Nb).
      apply Bool.eqb_prop in C2. exact C2.
    + (* b is not an atom of gd *)
      assert (L : has_edge gd a b = false).
      { destruct (has_edge gd a b) eqn:X; [|reflexivity]. apply (wf_closed _ Wd) in X. congruence. }
      rewrite L. symmetry. apply not_true_iff_false. unfold qedge. intro X. apply andb_true_iff in X as [_ X].
      apply existsb_exists in X as ([p q] & Hin & X). cbn [fst snd] in X. apply andb_true_iff in X as [_ X]. apply Z.eqb_eq in X.
      destruct (dir_edges_nodes gs p q Ws Hin) as [_ Hq]. pose proof (C3 q Hq) as Y. rewrite X in Y. congruence.
    + assert (L : has_edge gd a b = false).
      { destruct (has_edge gd a b) eqn:X; [|reflexivity]. apply has_edge_has_node in X. congruence. }
      rewrite L. symmetry. apply not_true_iff_false. unfold qedge. intro X. apply andb_true_iff in X as [_ X].
      apply existsb_exists in X as ([p q] & Hin & X). cbn [fst snd] in X. apply andb_true_iff in X as [X _]. apply Z.eqb_eq in X.
      destruct (dir_edges_nodes gs p q Ws Hin) as [Hp _]. pose proof (C3 p Hp) as Y. rewrite X in Y. congruence.
Qed.

(** the theorem with its hypotheses in decidable form *)
Corollary share_vs_cut_manyb gd gs pi g' : wf_graph gd -> wf_graph gs -> shares_manyb gd gs pi = true ->
  squash_atoms gs = Ok g' ->
  (forall y, In y (node_keys g') -> has_node gd (pi y) = true) /\
  (forall a, has_node gd a = true -> exists y, In y (node_keys g') /\ pi y = a) /\
  (forall y x, In y (node_keys g') -> In x (node_keys g') -> pi y = pi x -> y = x) /\
  (forall y x, In y (node_keys g') -> In x (node_keys g') -> has_edge g' y x = has_edge gd (pi y) (pi x)).
Proof.
  intros Wd Ws Hb H. destruct (shares_manyb_sound gd gs pi Wd Ws Hb) as (H1 & H2 & H3).
  exact (share_vs_cut_many gd gs pi g' Ws H H1 H2 H3).
Qed.

(** ------------------------------------------------------------ the shapes named in the property *)
Definition pimap (l : list (Z * Z)) : Z -> Z := fun z => match find (fun p => Z.eqb (fst p) z) l with Some p => snd p | None => z end.

(** (a) several shared atoms per fragment = a chain of shared atoms, two DIFFERENT shared atoms directly bonded
    (both atoms of the middle fragment are shared): O0-C1 | C1-C2 | C2-O3 *)
Definition gd_chain2 : graph :=
  [atom_ 0 (S "O") false (VInt 1) 0 [(1, single_)];
   atom_ 1 (S "C") false (VInt 2) 0 [(0, single_); (2, single_)];
   atom_ 2 (S "C") false (VInt 2) 1 [(1, single_); (3, single_)];
   atom_ 3 (S "O") false (VInt 1) 2 [(2, single_)]].
Definition gs_chain2 : graph :=
  [atom_ 0 (S "O") false (VInt 1) 0 [(1, single_)];
   atom_ 1 (S "C") false (VInt 2) 0 [(0, single_); (2, bang_ (VInt 1))];
   atom_ 2 (S "C") false (VInt 2) 1 [(1, bang_ (VInt 1)); (3, single_)];
   atom_ 3 (S "C") false (VInt 2) 1 [(2, single_); (4, bang_ (VInt 1))];
   atom_ 4 (S "C") false (VInt 2) 2 [(3, bang_ (VInt 1)); (5, single_)];
   atom_ 5 (S "O") false (VInt 1) 2 [(4, single_)]].
Definition pi_chain2 := pimap [(0, 0); (1, 1); (2, 1); (3, 2); (4, 2); (5, 3)].
Example shape_several_per_fragment_bonded_shared_atoms :
  wf_graph gd_chain2 /\ wf_graph gs_chain2 /\ shares_manyb gd_chain2 gs_chain2 pi_chain2 = true /\
  exists g', squash_atoms gs_chain2 = Ok g' /\ node_keys g' = [0; 1; 3; 5] /\ neighbors g' 1 = [0; 3] /\ neighbors g' 3 = [1; 5] /\
             squash_plan [] (bang_items gs_chain2) = [(1, 2); (3, 4)].
Proof.
  split; [apply wf_graphb_sound; vm_compute; reflexivity|]. split; [apply wf_graphb_sound; vm_compute; reflexivity|].
  split; [vm_compute; reflexivity|]. eexists. split; [vm_compute; reflexivity|]. repeat split.
Qed.

(** (b) one atom shared by three fragments, as a star: A: C0-X | B: X | C: X-N4 *)
Definition gd_three : graph :=
  [atom_ 0 (S "C") false (VInt 3) 0 [(1, single_)];
   atom_ 1 (S "C") false (VInt 2) 1 [(0, single_); (2, single_)];
   atom_ 2 (S "N") false (VInt 2) 2 [(1, single_)]].
Definition gs_star : graph :=
  [atom_ 0 (S "C") false (VInt 3) 0 [(1, single_)];
   atom_ 1 (S "C") false (VInt 2) 0 [(0, single_); (2, bang_ (VInt 1))];
   atom_ 2 (S "C") false (VInt 2) 1 [(1, bang_ (VInt 1)); (3, bang_ (VInt 1))];
   atom_ 3 (S "C") false (VInt 2) 2 [(2, bang_ (VInt 1)); (4, single_)];
   atom_ 4 (S "N") false (VInt 2) 2 [(3, single_)]].
Definition pi_three := pimap [(0, 0); (1, 1); (2, 1); (3, 1); (4, 2)].
Example shape_atom_in_three_fragments_star :
  wf_graph gd_three /\ wf_graph gs_star /\ shares_manyb gd_three gs_star pi_three = true /\
  exists g', squash_atoms gs_star = Ok g' /\ node_keys g' = [0; 1; 4] /\ neighbors g' 1 = [0; 4] /\
             node_get g' 1 (S "fragid") = Some (VList [VInt 0; VInt 1; VInt 2]) /\ class_of gs_star 1 = [1; 2; 3].
Proof.
  split; [apply wf_graphb_sound; vm_compute; reflexivity|]. split; [apply wf_graphb_sound; vm_compute; reflexivity|].
  split; [vm_compute; reflexivity|]. eexists. split; [vm_compute; reflexivity|]. repeat split.
Qed.

(** (c) the same atom, every two of the three copies joined by a `!` pair (redundant third pair) *)
Definition gs_tri : graph :=
  [atom_ 0 (S "C") false (VInt 3) 0 [(1, single_)];
   atom_ 1 (S "C") false (VInt 2) 0 [(0, single_); (2, bang_ (VInt 1)); (3, bang_ (VInt 1))];
   atom_ 2 (S "C") false (VInt 2) 1 [(1, bang_ (VInt 1)); (3, bang_ (VInt 1))];
   atom_ 3 (S "C") false (VInt 2) 2 [(1, bang_ (VInt 1)); (2, bang_ (VInt 1)); (4, single_)];
   atom_ 4 (S "N") false (VInt 2) 2 [(3, single_)]].
Example shape_atom_in_three_fragments_redundant :
  wf_graph gd_three /\ wf_graph gs_tri /\ shares_manyb gd_three gs_tri pi_three = true /\
  length (bang_items gs_tri) = 3%nat /\ length (squash_plan [] (bang_items gs_tri)) = 2%nat /\
  exists g', squash_atoms gs_tri = Ok g' /\ node_keys g' = [0; 1; 4] /\ neighbors g' 1 = [0; 4].
Proof.
  split; [apply wf_graphb_sound; vm_compute; reflexivity|]. split; [apply wf_graphb_sound; vm_compute; reflexivity|].
  split; [vm_compute; reflexivity|]. split; [reflexivity|]. split; [vm_compute; reflexivity|].
  eexists. split; [vm_compute; reflexivity|]. repeat split.
Qed.

(** (d) a shared atom that also carries an ordinary `$` bond: A: C0-X | B: X ... $ ... N3 (fragment C) *)
Definition gd_dollar : graph :=
  [atom_ 0 (S "C") false (VInt 3) 0 [(1, single_)];
   atom_ 1 (S "C") false (VInt 2) 1 [(0, single_); (2, dollar_)];
   atom_ 2 (S "N") false (VInt 2) 2 [(1, dollar_)]].
Definition gs_dollar : graph :=
  [atom_ 0 (S "C") false (VInt 3) 0 [(1, single_)];
   atom_ 1 (S "C") false (VInt 2) 0 [(0, single_); (2, bang_ (VInt 1))];
   atom_ 2 (S "C") false (VInt 2) 1 [(1, bang_ (VInt 1)); (3, dollar_)];
   atom_ 3 (S "N") false (VInt 2) 2 [(2, dollar_)]].
Definition pi_dollar := pimap [(0, 0); (1, 1); (2, 1); (3, 2)].
Example shape_shared_atom_with_dollar_bond :
  wf_graph gd_dollar /\ wf_graph gs_dollar /\ shares_manyb gd_dollar gs_dollar pi_dollar = true /\
  exists g', squash_atoms gs_dollar = Ok g' /\ node_keys g' = [0; 1; 3] /\ neighbors g' 1 = [0; 3] /\
             edge_get g' 1 3 (S "bonding") = Some (VTup [VStr (S "$a1"); VStr (S "$a1")]).
Proof.
  split; [apply wf_graphb_sound; vm_compute; reflexivity|]. split; [apply wf_graphb_sound; vm_compute; reflexivity|].
  split; [vm_compute; reflexivity|]. eexists. split; [vm_compute; reflexivity|]. repeat split.
Qed.

(** ------------------------------------------------------------ the case of pairwise disjoint pairs *)
Definition disjoint_pairs (ps : list (Z * Z)) : Prop := NoDup (map fst ps ++ map snd ps).

Lemma NoDup_app_elim (l m : list Z) : NoDup (l ++ m) -> NoDup l /\ NoDup m /\ forall x, In x l -> In x m -> False.
Proof.
  induction l as [|a l IH]; cbn; intros H; [repeat split; [constructor|assumption|intros x []]|].
  inversion H as [|? ? Ha Hr]; subst. destruct (IH Hr) as (A & B & C). repeat split.
  - constructor; [intro X; apply Ha; apply in_or_app; now left|assumption].
  - assumption.
  - intros x [-> |Hx] Hm; [apply Ha; apply in_or_app; now right|eauto].
Qed.
Lemma nodup_map_unique {B} (f : Z * Z -> B) (g : Z * Z -> Z) ps x y :
  NoDup (map g ps) -> In x ps -> In y ps -> g x = g y -> x = y.
Proof.
  induction ps as [|p ps IH]; intros Hnd Hx Hy E; [contradiction|]. cbn in Hnd. inversion Hnd as [|? ? Hp Hr]; subst.
  destruct Hx as [-> |Hx]; destruct Hy as [-> |Hy]; try reflexivity.
  - exfalso. apply Hp. rewrite E. now apply in_map.
  - exfalso. apply Hp. rewrite <- E. now apply in_map.
  - auto.
Qed.

Definition paired (ps : list (Z * Z)) (p q : Z) : Prop := p = q \/ In (p, q) ps \/ In (q, p) ps.
Lemma bconn_disjoint ps p q : disjoint_pairs ps -> bconn ps p q -> paired ps p q.
Proof.
  intros D. destruct (NoDup_app_elim _ _ D) as (Nf & Ns & X).
  assert (Uf : forall a b c, In (a, b) ps -> In (a, c) ps -> b = c).
  { intros a b c H1 H2. pose proof (nodup_map_unique (fun e => e) fst ps (a, b) (a, c) Nf H1 H2 eq_refl) as E. now inversion E. }
  assert (Us : forall a b c, In (a, b) ps -> In (c, b) ps -> a = c).
  { intros a b c H1 H2. pose proof (nodup_map_unique (fun e => e) snd ps (a, b) (c, b) Ns H1 H2 eq_refl) as E. now inversion E. }
  assert (No : forall a b c, In (a, b) ps -> In (b, c) ps -> False).
  { intros a b c H1 H2. apply (X b); [apply (in_map fst _ _ H2)|apply (in_map snd _ _ H1)]. }
  induction 1 as [x|a b Hin|x y _ IH|x y z _ IH1 _ IH2].
  - now left.
  - right. now left.
  - destruct IH as [-> |[H|H]]; [now left|right; now right|right; now left].
  - destruct IH1 as [-> |[H1|H1]]; [exact IH2|..]; destruct IH2 as [<- |[H2|H2]].
    + right; now left.
    + exfalso. exact (No x y z H1 H2).
    + left. exact (Us x y z H1 H2).
    + right; now right.
    + left. exact (Uf y x z H1 H2).
    + exfalso. exact (No z y x H2 H1).
Qed.
Lemma paired_bconn ps p q : paired ps p q -> bconn ps p q.
Proof. intros [-> |[H|H]]; [apply bc_refl|now apply bc_pair|apply bc_sym; now apply bc_pair]. Qed.

(** [share_vs_cut_pairs]: when no atom occurs in two `!` pairs (every shared atom has exactly two copies) the
    first hypothesis of [share_vs_cut_many] reads: two atoms are copies of the same atom iff they are the two
    ends of a pair *)
Theorem share_vs_cut_pairs gd gs (pi : Z -> Z) g' : wf_graph gs -> squash_atoms gs = Ok g' ->
  disjoint_pairs (bang_items gs) ->
  (forall p q, In p (node_keys gs) -> In q (node_keys gs) -> (paired (bang_items gs) p q <-> pi p = pi q)) ->
  (forall a b, has_edge gd a b = qedge pi (dir_edges gs) a b) ->
  (forall a, has_node gd a = true <-> exists p, In p (node_keys gs) /\ pi p = a) ->
  (forall y, In y (node_keys g') -> has_node gd (pi y) = true) /\
  (forall a, has_node gd a = true -> exists y, In y (node_keys g') /\ pi y = a) /\
  (forall y x, In y (node_keys g') -> In x (node_keys g') -> pi y = pi x -> y = x) /\
  (forall y x, In y (node_keys g') -> In x (node_keys g') -> has_edge g' y x = has_edge gd (pi y) (pi x)) /\
  (length g' + length (bang_items gs) = length gs)%nat.
Proof.
  intros W H D H1 H2 H3.
  assert (H1' : forall p q, In p (node_keys gs) -> In q (node_keys gs) -> (bconn (bang_items gs) p q <-> pi p = pi q)).
  { intros p q Hp Hq. rewrite <- (H1 p q Hp Hq). split; [apply bconn_disjoint; exact D|apply paired_bconn]. }
  destruct (share_vs_cut_many gd gs pi g' W H H1' H2 H3) as (A & B & C & E).
  repeat split; try assumption.
  (* no pair is redundant: the two ends of a pair are never already one atom *)
  apply (squash_count_per_pair gs g' W H).
  assert (G : forall ps sq, disjoint_pairs ps ->
              (forall x, In x (map fst ps ++ map snd ps) -> ~ In x (sq_keys sq)) ->
              length (squash_plan sq ps) = length ps).
  { induction ps as [|[a b] ps IHp]; intros sq Dp Hs; [reflexivity|]. cbn [squash_plan].
    unfold disjoint_pairs in Dp. cbn [map fst snd app] in Dp, Hs.
    inversion Dp as [|? ? Hna Dr]; subst.
    pose proof (NoDup_remove_1 _ _ _ Dr) as Dps. pose proof (NoDup_remove_2 _ _ _ Dr) as Nb.
    assert (Ka : ~ In a (sq_keys sq)) by (apply Hs; now left).
    assert (Kb : ~ In b (sq_keys sq)) by (apply Hs; right; apply in_or_app; right; now left).
    rewrite (pass_nonkey sq a Ka), (pass_nonkey sq b Kb).
    assert (Nab : a <> b) by (intro X; subst; apply Hna; apply in_or_app; right; now left).
    destruct (Z.eqb_spec a b) as [?|_]; [contradiction|]. cbn [length]. f_equal. apply IHp; [exact Dps|].
    intros x Hx. unfold sq_keys. rewrite map_app. cbn [map fst]. intro Y. apply in_app_or in Y as [Y|[Y|[]]].
    - revert Y. apply Hs. right. apply in_app_or in Hx as [Hx|Hx]; apply in_or_app; [now left|right; now right].
    - subst x. exact (Nb Hx). }
  apply G; [exact D|]. intros x _ [].
Qed.

(** ------------------------------------------------------------ membership lists in merge order *)
Definition lists_of (g : graph) (Fl Ml : Z -> list pyval) : Prop :=
  forall k a, nattrs g k = Some a ->
    aget (S "fragid") a = Some (VList (Fl k)) /\ aget (S "mapping") a = Some (VList (Ml k)).

Lemma squash_fold_lists alive l : forall gi sq Fl Ml g' sq',
  wf_graph gi -> fwd sq -> lists_of gi Fl Ml -> hnum_g gi ->
  (forall k, has_node gi k = zmem k alive && negb (zmem k (sq_keys sq))) ->
  (forall kv, In kv sq -> zmem (snd kv) alive = true) ->
  (forall e, In e l -> zmem (fst (fst e)) alive = true /\ zmem (snd (fst e)) alive = true) ->
  Hydrogens.fold_res squash_step l (gi, sq) = Ok (g', sq') ->
  lists_of g' (merged_lists Fl (squash_plan sq (bangs l))) (merged_lists Ml (squash_plan sq (bangs l))).
Proof.
  induction l as [|[[a b] bond] l IH]; intros gi sq Fl Ml g' sq' W F T HN Hal Hv Hl H.
  - cbn in H. inversion H; subst. exact T.
  - assert (Hl' : forall e, In e l -> zmem (fst (fst e)) alive = true /\ zmem (snd (fst e)) alive = true)
      by (intros e He; apply Hl; now right).
    destruct (Hl (a, b, bond) (or_introl eq_refl)) as [Aa Ab]. cbn [fst snd] in Aa, Ab.
    cbn [Hydrogens.fold_res] in H.
    assert (Eb : bangs ((a, b, bond) :: l) =
                 match starts_squash bond with Ok true => (a, b) :: bangs l | _ => bangs l end).
    { unfold bangs. cbn [filter]. unfold item_is_bang at 1. cbn [snd]. destruct (starts_squash bond) as [[|]|]; reflexivity. }
    rewrite Eb. clear Eb.
    destruct (starts_squash bond) as [[|]|] eqn:Es.
    + cbn [squash_plan]. set (keep := sq_pass sq a) in *. set (rm := sq_pass sq b) in *.
      assert (Rk : sq_root (sq_fuel sq) sq a = Ok keep) by (apply sq_root_pass; [assumption|unfold sq_fuel; lia]).
      assert (Rr : sq_root (sq_fuel sq) sq b = Ok rm) by (apply sq_root_pass; [assumption|unfold sq_fuel; lia]).
      assert (Ak : zmem keep alive = true) by (apply (pass_pred (fun z => zmem z alive = true)); assumption).
      assert (Ar : zmem rm alive = true) by (apply (pass_pred (fun z => zmem z alive = true)); assumption).
      assert (Nk : zmem keep (sq_keys sq) = false)
        by (apply not_true_iff_false; rewrite zmem_In; apply pass_not_key; assumption).
      assert (Nr : zmem rm (sq_keys sq) = false)
        by (apply not_true_iff_false; rewrite zmem_In; apply pass_not_key; assumption).
      destruct (Z.eqb_spec keep rm) as [E|Hne].
      * assert (St : squash_step (gi, sq) (a, b, bond) = Ok (gi, sq)).
        { unfold squash_step. rewrite Es. cbn [bind negb]. rewrite Rk, Rr. cbn [bind]. rewrite E, Z.eqb_refl. reflexivity. }
        rewrite St in H. cbn [bind] in H. exact (IH gi sq Fl Ml g' sq' W F T HN Hal Hv Hl' H).
      * assert (Hk : has_node gi keep = true) by (rewrite Hal, Ak, Nk; reflexivity).
        assert (Hr : has_node gi rm = true) by (rewrite Hal, Ar, Nr; reflexivity).
        assert (exists au, nattrs gi keep = Some au) as [au Hu]
          by (apply has_node_gfind in Hk as [n Hn]; unfold nattrs; rewrite Hn; cbn; eauto).
        assert (exists av, nattrs gi rm = Some av) as [av Hv']
          by (apply has_node_gfind in Hr as [n Hn]; unfold nattrs; rewrite Hn; cbn; eauto).
        destruct (T keep au Hu) as [Fu Mu]. destruct (T rm av Hv') as [Fv Mv].
        destruct (squash_membership gi keep rm au av _ _ _ _ W Hne Hu Hv' Fu Fv Mu Mv (HN keep au Hu) (HN rm av Hv') sq a b bond Es Rk Rr)
          as (g2 & St & K2 & E2 & (A & NA & FA & MA & _ & _ & HA) & O2).
        rewrite St in H. cbn [bind] in H.
        assert (W2 : wf_graph g2) by (exact (wf_contracted gi keep rm g2 W Hne Hk Hr K2 E2)).
        assert (Fr : ~ In rm (sq_keys sq)) by (rewrite <- zmem_In, Nr; discriminate).
        assert (Fk : ~ In keep (sq_keys sq)) by (rewrite <- zmem_In, Nk; discriminate).
        rewrite (sq_set_fresh rm keep sq Fr) in H.
        assert (Gone : forall ai, nattrs g2 rm = Some ai -> False).
        { intros ai Gi. assert (X : has_node g2 rm = true).
          { unfold nattrs in Gi. apply has_node_gfind. destruct (gfind rm g2); [eauto|discriminate]. }
          apply has_node_keys in X. rewrite K2 in X. apply filter_In in X as [_ X]. rewrite Z.eqb_refl in X. discriminate. }
        apply (IH g2 (sq ++ [(rm, keep)]) _ _ g' sq' W2); try assumption.
        -- apply fwd_snoc; auto.
        -- intros i ai Gi. destruct (Z.eqb_spec i keep) as [-> |Ni].
           ++ rewrite NA in Gi. inversion Gi; subst ai. auto.
           ++ destruct (Z.eq_dec i rm) as [-> |Nr']; [exfalso; eauto|]. rewrite O2 in Gi by assumption. exact (T i ai Gi).
        -- intros i ai Gi. destruct (Z.eq_dec i keep) as [-> |Ni].
           ++ rewrite NA in Gi. inversion Gi; subst ai. exact HA.
           ++ destruct (Z.eq_dec i rm) as [-> |Nr']; [exfalso; eauto|]. rewrite O2 in Gi by assumption. exact (HN i ai Gi).
        -- intros k. apply Bool.eq_iff_eq_true.
           rewrite has_node_keys, K2, filter_In, <- has_node_keys, Hal. unfold sq_keys. rewrite map_app. cbn [map fst].
           unfold zmem. rewrite existsb_app. cbn [existsb]. fold (zmem k (map fst sq)). fold (sq_keys sq).
           rewrite orb_false_r, negb_orb, !andb_true_iff, !negb_true_iff. tauto.
        -- intros kv Hin. apply in_app_or in Hin as [Hin|[<-|[]]]; [auto|exact Ak].
    + assert (St : squash_step (gi, sq) (a, b, bond) = Ok (gi, sq)) by (unfold squash_step; rewrite Es; reflexivity).
      rewrite St in H. cbn [bind] in H. exact (IH gi sq Fl Ml g' sq' W F T HN Hal Hv Hl' H).
    + unfold squash_step in H. rewrite Es in H. cbn [bind] in H. discriminate.
Qed.

(** [squash_memberships]: the surviving atom of every class records the coarse nodes (fragid) and template
    atoms (mapping) of ALL members of the class: its own list followed by the lists of the atoms merged into
    it, in merge order ([merged_lists] over the plan); atoms that are not merged keep their lists *)
Theorem squash_memberships g g' Fl Ml : wf_graph g -> lists_of g Fl Ml -> hnum_g g -> squash_atoms g = Ok g' ->
  lists_of g' (merged_lists Fl (squash_plan [] (bang_items g))) (merged_lists Ml (squash_plan [] (bang_items g))).
Proof.
  intros W T HN H. unfold squash_atoms in H.
  destruct (Hydrogens.fold_res squash_step (edge_attr_items g squash_edge_attr) (g, [])) as [[g2 sq2]|] eqn:Fd; cbn [bind fst] in H; [|discriminate].
  inversion H; subst g2. clear H.
  assert (Hal : forall k, has_node g k = zmem k (node_keys g) && negb (zmem k (sq_keys []))).
  { intros k. cbn. rewrite andb_true_r. apply Bool.eq_iff_eq_true. rewrite has_node_keys, zmem_In. tauto. }
  apply (squash_fold_lists (node_keys g) (edge_attr_items g squash_edge_attr) g [] Fl Ml g' sq2 W I T HN Hal); [intros kv []| |exact Fd].
  intros e He. destruct (items_are_edges g _ e W He) as [A B]. rewrite !zmem_In, <- !has_node_keys. auto.
Qed.
