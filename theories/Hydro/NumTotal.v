(** NumTotal: the hydrogen counts of the graph the resolver hands to squash_atoms are NUMBERS, when those of the
    templates are: kept by resolve_disconnected (copy + stamps touch other keys), by add_edge, and by the all-atom
    bookkeeping (dec_hcount returns an int or a float literal "<digits>.0" / "<digits>.5").  With SquashTotalAny this
    makes squash_atoms total on resolver-produced graphs from hypotheses on the INPUTS only. *)
From Coq Require Import String.
From Coq Require Import List Ascii ZArith Bool Lia.
From CGV Require Import Base.PyBase Base.PyVal Base.NxGraph Gen.HydroGen Hydro.Hydrogens Hydro.Squash
     Hydro.GraphLemmas Hydro.SquashDefs Hydro.SquashProofs Hydro.SquashTotal.
From CGV Require Import Resolve.Bonding Resolve.GraphOps Resolve.MapProofs Resolve.VirtualProofs Resolve.CopyProofs.
From CGV Require Import Compose.HalfVal.
From CGV Require Import Hydro.SquashTotalAny.
Import ListNotations.
Open Scope Z_scope.

Definition num_inv (mol : graph) : Prop := forall k a, node_attrs mol k = Ok a -> hnum a.
Definition hnum_dict (fd : fragdict) : Prop := forall name g, fd_get name fd = Some g -> forall n, In n g -> hnum (na n).

Lemma num_inv_hnum_g mol : num_inv mol -> hnum_g mol.
Proof.
  intros H i a G. apply (H i). unfold nattrs in G. unfold node_attrs. destruct (gfind i mol); [|discriminate].
  cbn in G. inversion G. reflexivity.
Qed.

Lemma hcount_ne_ez : S "hcount" <> S "ez_isomer_atoms". Proof. intro X; vm_compute in X; discriminate. Qed.
Lemma merge_node_hcount o f a a' : merge_node o f a = Ok a' -> aget (S "hcount") a' = aget (S "hcount") a.
Proof.
  unfold merge_node. destruct (match aget (S "fragid") a with Some v => as_int v | None => Ok 0 end) as [z|]; cbn [bind]; [|discriminate].
  unfold shift_ez. set (a1 := aset (S "fragid") (VList [VInt (z + f)]) a).
  assert (E1 : aget (S "hcount") a1 = aget (S "hcount") a) by (unfold a1; apply aget_aset_other; exact hcount_ne_fragid).
  destruct (aget (S "ez_isomer_atoms") a1) as [v|]; [|intros H; inversion H; subst; exact E1].
  destruct (as_list v) as [l|]; cbn [bind]; [|discriminate]. destruct l as [|x [|y l]]; try discriminate.
  destruct (as_int x); cbn [bind]; [|discriminate]. destruct (as_int y); cbn [bind]; [|discriminate].
  intros H. inversion H; subst. rewrite aget_aset_other by exact hcount_ne_ez. exact E1.
Qed.
Lemma hnum_stamped ck name t a0 a' o f : merge_node o f a0 = Ok a' -> hnum a0 -> hnum (stamped ck name t a').
Proof.
  intros M H. unfold hnum in *. change squash_min_attr with (S "hcount") in *.
  rewrite stamped_other by (exact hcount_ne_fragid || exact hcount_ne_mapping). rewrite (merge_node_hcount _ _ _ _ M). exact H.
Qed.

Lemma disc_step_num fd mol fgs mn mol2 fgs2 : wf_dict fd -> hnum_dict fd -> typed_inv mol -> num_inv mol ->
  disc_step fd (mol, fgs) mn = Ok (mol2, fgs2) -> num_inv mol2.
Proof.
  intros Hw Hd Hi Hnm H.
  destruct (aget (S "fragname") (na mn)) as [fv|] eqn:Hf; [|unfold disc_step in H; rewrite Hf in H; discriminate].
  destruct (lookup_fragment fd fv) as [[name frag]|] eqn:Hl.
  - destruct (lookup_fragment_get _ _ _ _ Hl) as [_ Hg]. pose proof (Hw _ _ Hg) as Hwf.
    destruct (disc_step_real _ _ _ _ _ _ _ _ _ Hf Hl H) as [mol1 [corr [Hm Em]]].
    destruct (merge_graphs_keys _ _ _ _ Hm Hwf) as [Hk Hold].
    destruct (frag_copy _ _ _ _ Hm Hwf) as [off [fo [Ho [Ec Hc]]]].
    destruct Hi as [Hn Ha]. destruct Hwf as [Hnt _].
    assert (forall x, In x (node_keys mol) -> ~ In x (map snd corr)) as Hdisj.
    { intros x Hx Hv. subst corr. apply in_map_iff in Hv as [[t y] [Ey Hy]]. cbn in Ey. subst y.
      apply correspondence_fresh in Hy. pose proof (merge_offsets_max _ _ _ Ho _ Hx). lia. }
    assert (NoDup (map (fun n => map_get corr (nk n)) frag)) as Hnd
      by (subst corr; rewrite corr_values by exact Hnt; apply correspondence_injective).
    intros k a E.
    assert (In k (node_keys mol2)) as Hin by (apply gfind_has; eapply node_attrs_has; exact E).
    subst mol2. rewrite stamp_keys, Hk, in_app_iff in Hin. destruct Hin as [Hin|Hin].
    + rewrite stamp_other in E.
      * rewrite (Hold k Hin) in E. exact (Hnm k a E).
      * intros X. apply (Hdisj k Hin). subst corr. rewrite <- corr_values by exact Hnt. exact X.
    + assert (In k (map (fun n => map_get corr (nk n)) frag)) as Hin' by (subst corr; rewrite corr_values by exact Hnt; exact Hin).
      apply in_map_iff in Hin' as [n [En Hn']]. subst k. destruct (Hc n Hn') as [a' [E1 E2]].
      rewrite (stamp_same (map_get corr) (nk mn) name frag mol1 Hnd n a' Hn' E2) in E. inversion E; subst a.
      exact (hnum_stamped _ _ _ _ _ _ _ E1 (Hd _ _ Hg n Hn')).
  - unfold disc_step in H. rewrite Hf in H. unfold of_option, bind at 1 in H. rewrite Hl in H.
    destruct (virtual_ok mn); [|discriminate]. unfold bind in H. inversion H; subst. exact Hnm.
Qed.

Theorem resolve_disconnected_num fd meta mol fgs : wf_dict fd -> hnum_dict fd ->
  resolve_disconnected fd meta = Ok (mol, fgs) -> num_inv mol.
Proof.
  intros Hw Hd. unfold resolve_disconnected.
  assert (G : forall l mol0 fgs0 mol fgs, typed_inv mol0 -> num_inv mol0 ->
              GraphOps.fold_res (disc_step fd) l (mol0, fgs0) = Ok (mol, fgs) -> num_inv mol).
  { induction l as [|mn r IH]; intros mol0 fgs0 mol' fgs' Hi Hn H.
    - cbn in H. inversion H; subst. exact Hn.
    - change (GraphOps.fold_res (disc_step fd) (mn :: r) (mol0, fgs0))
        with (b' <- disc_step fd (mol0, fgs0) mn ;; GraphOps.fold_res (disc_step fd) r b') in H.
      destruct (disc_step fd (mol0, fgs0) mn) as [[m1 f1]|] eqn:E; [|discriminate]. unfold bind in H.
      eapply IH; [| |exact H]; [eapply disc_step_typed; eauto|eapply disc_step_num; eauto]. }
  apply G; [split; [constructor|]; intros k a E; discriminate|intros k a E; discriminate].
Qed.

(** ---- numbers: the two float parsers agree, dec_hcount returns a number *)
Lemma half_of_flt_parse r : half_of_flt r = match parse_half r with Some h => Ok h | None => Err EType end.
Proof.
  unfold half_of_flt, parse_half. destruct (py_split r ".") as [|a [|b [|c l]]]; try reflexivity.
  destruct (py_isdigit a); [|reflexivity]. destruct (str_eqb b (S "0")); [reflexivity|]. destruct (str_eqb b (S "5")); reflexivity.
Qed.
Lemma hval_num v : hval v -> exists h, half_of_num v = Ok h.
Proof.
  intros (h & f & E). destruct v; cbn in E; try discriminate; cbn [half_of_num]; eauto.
  rewrite half_of_flt_parse. destruct (parse_half r); [eauto|discriminate].
Qed.
Lemma dec_hcount_num ar hc x : dec_hcount ar hc = Ok x -> exists h, half_of_num x = Ok h.
Proof.
  intros H. assert (Hv : hval hc).
  { unfold dec_hcount in H. destruct (half_of hc) as [[h f]|] eqn:E; [|discriminate]. exists h, f. exact E. }
  destruct (dec_hcount_total ar hc Hv) as (v' & E' & Hv'). rewrite H in E'. inversion E'; subst. now apply hval_num.
Qed.

Lemma node_attrs_set_inv g k x v k' a : node_attrs (set_node_attr g k x v) k' = Ok a ->
  (k' = k /\ exists a0, node_attrs g k = Ok a0 /\ a = aset x v a0) \/ (k' <> k /\ node_attrs g k' = Ok a).
Proof.
  unfold node_attrs. rewrite gfind_set_node_attr. destruct (Z.eqb_spec k' k) as [->|N].
  - destruct (gfind k g) as [n|]; cbn; [|discriminate]. intros H. inversion H; subst. left. eauto.
  - intros H. right. split; [exact N|exact H].
Qed.
Lemma num_set_hcount g k x : (exists h, half_of_num x = Ok h) -> num_inv g -> num_inv (set_node_attr g k (S "hcount") x).
Proof.
  intros Hx Hn k' a E. apply node_attrs_set_inv in E as [[-> (a0 & E0 & ->)]|[_ E]]; [|exact (Hn _ _ E)].
  unfold hnum. change squash_min_attr with (S "hcount"). rewrite aget_aset_same. exact Hx.
Qed.
Lemma num_add_edge_present g u v d : has_node g u = true -> has_node g v = true -> num_inv g -> num_inv (add_edge g u v d).
Proof.
  intros Hu Hv Hn k a E. apply (Hn k). pose proof (nattrs_add_edge g u v d k Hu Hv) as X. unfold nattrs in X. unfold node_attrs in *.
  destruct (gfind k (add_edge g u v d)) as [n|]; [|discriminate]. destruct (gfind k g) as [m|]; [|discriminate].
  cbn in X. inversion E; subst. inversion X. reflexivity.
Qed.
Lemma hstep_num m n m' : num_inv m -> hstep m n = Ok m' -> num_inv m'.
Proof.
  intros Hn H. unfold hstep in H. destruct (node_get m n (S "element")) as [el|]; cbn [of_option bind] in H; [|discriminate].
  destruct (pyval_eqb el (VStr (S "H"))); [inversion H; subst; exact Hn|].
  destruct (node_get m n (S "hcount")) as [hc|]; cbn [of_option bind] in H; [|discriminate].
  destruct (dec_hcount _ hc) as [x|] eqn:Ed; cbn [bind] in H; [|discriminate]. inversion H; subst.
  apply num_set_hcount; [exact (dec_hcount_num _ _ _ Ed)|exact Hn].
Qed.
Lemma apply_bond_num mol b mol' : num_inv mol -> apply_bond true mol b = Ok mol' -> num_inv mol'.
Proof.
  intros T H. unfold apply_bond in H. cbn [GraphOps.fold_res] in H. fold (hstep (add_edge mol (b_u b) (b_v b) (bond_attrs b)) (b_u b)) in H.
  set (mol1 := add_edge mol (b_u b) (b_v b) (bond_attrs b)) in *.
  destruct (hstep mol1 (b_u b)) as [m2|] eqn:S1; cbn [bind] in H; [|discriminate].
  change (el <- of_option (node_get m2 (b_v b) (S "element")) EKey ;; _) with (hstep m2 (b_v b)) in H.
  destruct (hstep m2 (b_v b)) as [m3|] eqn:S2; cbn [bind] in H; [|discriminate]. inversion H; subst m3. clear H.
  destruct (hstep_cases _ _ _ S1) as [Eu C1]. destruct (hstep_cases _ _ _ S2) as [Ev C2].
  assert (Ev1 : node_get mol1 (b_v b) (S "element") <> None).
  { destruct C1 as [->|[x ->]]; [assumption|]. rewrite node_get_set_other in Ev by exact element_ne_hcount. exact Ev. }
  assert (Hu : has_node mol (b_u b) = true).
  { destruct (has_node mol (b_u b)) eqn:X; [reflexivity|]. exfalso. apply Eu. apply add_edge_created; auto. }
  assert (Hv : has_node mol (b_v b) = true).
  { destruct (has_node mol (b_v b)) eqn:X; [reflexivity|]. exfalso. apply Ev1. apply add_edge_created; auto. }
  assert (T1 : num_inv mol1) by (apply num_add_edge_present; assumption).
  exact (hstep_num _ _ _ (hstep_num _ _ _ T1 S1) S2).
Qed.
Lemma fold_add_edge_num bonds : forall mol mol', num_inv mol ->
  GraphOps.fold_res (apply_bond false) bonds mol = Ok mol' -> length mol' = length mol -> num_inv mol'.
Proof.
  induction bonds as [|b r IH]; intros mol mol' T H L; cbn [GraphOps.fold_res] in H; [inversion H; subst; exact T|].
  unfold apply_bond at 1 in H. cbn [bind] in H. pose proof (fold_add_edge_mono _ _ _ H) as M.
  destruct (length_add_edge mol (b_u b) (b_v b) (bond_attrs b)) as [G E].
  assert (E1 : length (add_edge mol (b_u b) (b_v b) (bond_attrs b)) = length mol) by lia.
  destruct (E E1) as [Hu Hv]. apply (IH _ _ (num_add_edge_present _ _ _ _ Hu Hv T) H). lia.
Qed.
Theorem bonding_step_num_any legacy aa meta mol fgs mol' fgs' : num_inv mol ->
  bonding_step legacy aa meta mol fgs = Ok (mol', fgs') -> length mol' = length mol -> num_inv mol'.
Proof.
  intros T H L. unfold bonding_step in H. destruct (bonds_of legacy meta mol fgs) as [[s1 bonds]|]; cbn [bind] in H; [|discriminate].
  destruct (GraphOps.fold_res (apply_bond aa) bonds mol) as [m|] eqn:E; cbn [bind] in H; [|discriminate]. inversion H; subst. clear H.
  destruct aa; [|exact (fold_add_edge_num bonds mol mol' T E L)].
  clear L. revert mol T E. induction bonds as [|b r IH]; intros mol T E; cbn [GraphOps.fold_res] in E; [inversion E; subst; exact T|].
  destruct (apply_bond true mol b) as [m1|] eqn:A; cbn [bind] in E; [|discriminate].
  eapply IH; [|exact E]. eapply apply_bond_num; eauto.
Qed.

(** [squash_total_inputs]: squash_atoms returns on the graph the resolver hands to it, from hypotheses on the
    dictionary (well-formed templates with numeric hydrogen counts), that bond creation added no node, and the
    decidable shape of the result (well-formed simple graph, descriptor-pair `bonding` edge attributes) *)
Theorem squash_total_inputs fd legacy aa meta m1 fg1 m2 fg2 : wf_dict fd -> hnum_dict fd ->
  resolve_disconnected fd meta = Ok (m1, fg1) -> bonding_step legacy aa meta m1 fg1 = Ok (m2, fg2) ->
  length m2 = length m1 -> wf_graph m2 -> bondings_ok (edge_attr_items m2 squash_edge_attr) ->
  exists g', squash_atoms m2 = Ok g' /\ typed_g g' /\ wf_graph g' /\
             (length g' + length (squash_plan [] (bang_items m2)) = length m2)%nat.
Proof.
  intros Hw Hd H1 H2 L W B. apply (squash_total_resolver_any fd legacy aa meta m1 fg1 m2 fg2); try assumption.
  apply num_inv_hnum_g. eapply bonding_step_num_any; [|exact H2|exact L]. eapply resolve_disconnected_num; eauto.
Qed.
