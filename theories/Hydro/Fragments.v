(** Fragments: executable model (Impl layer, NO proofs) of
      pysmiles.remove_explicit_hydrogens (2.1; the E/Z bookkeeping branch is outside the model),
      the post-processing of cgsmiles.pysmiles_utils.read_fragment_smiles (everything after the call of
      pysmiles.read_smiles, whose result enters as a transcript), and compute_mass.
    Validated against the library / the implementation by the helper stream of ./check C09. *)
From Coq Require Import String.
From Coq Require Import List Ascii ZArith Bool.
From Coq Require Import Floats.PrimFloat.
From CGV Require Import Base.PyBase Base.PyVal Base.NxGraph Gen.HydroGen Hydro.Hydrogens.
Import ListNotations.
Open Scope Z_scope.

(** ------------------------------------------------------------ remove_explicit_hydrogens *)
Definition is_zero (v : pyval) : bool :=
  match v with
  | VInt z => Z.eqb z 0
  | VBool b => negb b
  | VFlt r => str_eqb r (S "0.0") || str_eqb r (S "-0.0")
  | _ => false
  end.
Definition order_is_one (d : attrs) : bool :=
  match aget (S "order") d with
  | None => true
  | Some (VInt z) => Z.eqb z 1
  | Some (VBool b) => b
  | Some (VFlt r) => str_eqb r (S "1.0")
  | Some _ => false
  end.
Definition elem_is (e : pystr) (a : attrs) : bool :=
  match getd (S "element") a (VStr []) with VStr s => str_eqb s e | _ => false end.
(** a "simple" hydrogen: identical to [H] with exactly one bond *)
Definition simple_h (n : nrec) : bool :=
  is_zero (getd (S "charge") (na n) (VInt 0)) && elem_is (S "H") (na n)
  && negb (ahas (S "isotope") (na n)) && is_zero (getd (S "class") (na n) (VInt 0))
  && Nat.eqb (length (nadj n)) 1.

Definition rm_state := (graph * list Z)%type.
Definition remove_h_step (st : rm_state) (k : Z) : res rm_state :=
  let '(g, rm) := st in
  match gfind k g with
  | None => Err EKey
  | Some n =>
      if negb (simple_h n) then Ok st else
      match nadj n with
      | [(nb, d)] =>
          nbn <- of_option (gfind nb g) EKey ;;
          if elem_is (S "H") (na nbn) || negb (order_is_one d) then Ok st else
          if truthy (getd (S "ez_isomer") (na n) VNone) then Err EOutOfFuel   (* not modelled *)
          else
            hc <- as_int (getd (S "hcount") (na nbn) (VInt 0)) ;;
            let g1 := set_node_attr g nb (S "hcount") (VInt (hc + 1)) in
            match aget (S "rs_isomer") (na nbn) with
            | None => Ok (g1, rm ++ [k])
            | Some v =>
                l <- as_list v ;;
                Ok (set_node_attr g1 nb (S "rs_isomer")
                      (VTup (map (fun x => if pyval_eqb x (VInt k) then VInt nb else x) l)), rm ++ [k])
            end
      | _ => Ok st
      end
  end.
Definition remove_explicit_hydrogens (g : graph) : res graph :=
  '(g1, rm) <- fold_res remove_h_step (node_keys g) (g, []) ;;
  let g2 := fold_left remove_node rm g1 in
  Ok (map (fun n => if ahas (S "hcount") (na n) then n
                    else {| nk := nk n; na := aset (S "hcount") (VInt 0) (na n); nadj := nadj n |}) g2).

(** ------------------------------------------------------------ read_fragment_smiles, after read_smiles *)
(** nx.set_node_attributes(G, {node: {k: v}}): update the dict of the nodes that exist *)
Definition set_attr_dicts (g : graph) (d : list (Z * attrs)) : graph :=
  fold_left (fun acc kv => gupdate (fst kv) (fun n => {| nk := nk n; na := aupdate (na n) (snd kv); nadj := nadj n |}) acc) d g.

Definition atomname_of (n : nrec) : res pyval :=
  match aget (S "element") (na n) with
  | Some (VStr e) => Ok (VStr (e ++ str_of_Z (nk n)))
  | Some _ => Err EType
  | None => Err EKey
  end.

Definition read_fragment_post (g0 : graph) (fragname : pystr) (bonding : list (Z * pyval))
           (ez : list (Z * pyval)) (attributes : list (Z * attrs)) : res graph :=
  let g1 := set_all_nodes g0 (S "fragname") (VStr fragname) in
  let g2 := set_all_nodes g1 (S "fragid") (VInt 0) in
  let g3 := set_all_nodes g2 (S "weight") (VInt 1) in
  let g4 := set_nodes_from g3 (S "bonding") bonding in
  let g5 := set_attr_dicts g4 attributes in
  names <- map_res (fun n => v <- atomname_of n ;; Ok (nk n, v)) g5 ;;
  let g6 := set_nodes_from g5 (S "atomname") names in
  if Nat.eqb (length g6) 1 then
    n0 <- of_option (gfind 0 g6) EKey ;;
    e <- of_option (aget (S "element") (na n0)) EKey ;;
    if pyval_eqb e (VStr (S "H")) then Ok (set_node_attr g6 0 (S "single_h_frag") (VBool true))
    else Ok (set_node_attr g6 0 (S "hcount") (VInt 0))
  else
    let hatoms := flat_map (fun n => if pyval_eqb (getd (S "element") (na n) VNone) (VStr (S "H")) then [nk n] else []) g6 in
    let keep := filter (fun k => existsb (fun kv => Z.eqb (fst kv) k) attributes) hatoms in
    let g7 := set_nodes_from g6 (S "element") (map (fun k => (k, VStr (S "z"))) keep) in
    g8 <- remove_explicit_hydrogens g7 ;;
    let g9 := set_nodes_from g8 (S "element") (map (fun k => (k, VStr (S "H"))) keep) in
    cls <- map_res (fun kv => match snd kv with
                              | VStr s => c <- py_last s ;; Ok (fst kv, VStr [c])       (* val[-1] of a token *)
                              | v => l <- as_list v ;;
                                     match rev l with x :: _ => Ok (fst kv, x) | [] => Err EIndex end
                              end) ez ;;
    Ok (set_nodes_from g9 (S "ez_isomer_class") cls).

(** ------------------------------------------------------------ compute_mass *)
(** `mass = 0; for node: mass += PTE[element]['AtomicMass']` over the completed copy; the masses are the
    GENERATED float literals; the sum is evaluated with IEEE doubles (PrimFloat) in node order *)
Definition mass_of (e : pystr) : res float :=
  match find (fun p => str_eqb (fst p) e) atomic_mass_floats with
  | Some p => Ok (snd p)
  | None => Err EKey
  end.
Definition compute_mass (g : graph) (car : option graph) : res float :=
  g' <- rebuild_h_atoms_default (gcopy g) car ;;
  fold_res (fun (acc : float) n =>
              match aget (S "element") (na n) with
              | Some (VStr e) => m <- mass_of e ;; Ok (PrimFloat.add acc m)
              | _ => Err EKey
              end) g' PrimFloat.zero.
