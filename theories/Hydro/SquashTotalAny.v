(** SquashTotalAny: totality of squash_atoms on the graph the resolver hands to it at ANY level.  At the coarse
    level (all_atom = False) the bond-creation step does not read the bonded atoms, so networkx' add_edge would
    silently create a missing end; the typedness of the attributes is kept when it created none, i.e. when the
    bonded graph has as many nodes as the disconnected one. *)
From Coq Require Import String.
From Coq Require Import List Ascii ZArith Bool Lia.
From CGV Require Import Base.PyBase Base.PyVal Base.NxGraph Gen.HydroGen Hydro.Hydrogens Hydro.Squash
     Hydro.GraphLemmas Hydro.SquashDefs Hydro.SquashProofs Hydro.SquashTotal.
From CGV Require Import Resolve.Bonding Resolve.GraphOps Resolve.CopyProofs.
Import ListNotations.
Open Scope Z_scope.

Lemma length_gupdate k f g : length (gupdate k f g) = length g.
Proof. induction g as [|n g IH]; [reflexivity|]. cbn [gupdate]. destruct (Z.eqb (nk n) k); cbn [length]; [reflexivity|now rewrite IH]. Qed.
Lemma has_node_app_new g x : has_node (g ++ [{| nk := x; na := []; nadj := [] |}]) x = true.
Proof.
  unfold has_node. rewrite gfind_app_list. destruct (gfind x g); [reflexivity|]. cbn. now rewrite Z.eqb_refl.
Qed.
Lemma length_add_edge g u v d :
  (length g <= length (add_edge g u v d))%nat /\
  (length (add_edge g u v d) = length g -> has_node g u = true /\ has_node g v = true).
Proof.
  unfold add_edge. rewrite !length_gupdate.
  destruct (has_node g u) eqn:Hu.
  - destruct (has_node g v) eqn:Hv; [split; [lia|auto]|]. rewrite app_length. cbn [length]. split; [lia|lia].
  - set (g1 := g ++ [{| nk := u; na := []; nadj := [] |}]).
    assert (L1 : length g1 = Datatypes.S (length g)) by (unfold g1; rewrite app_length; cbn [length]; lia).
    destruct (has_node g1 v); [rewrite L1; split; lia|]. rewrite app_length, L1. cbn [length]. split; lia.
Qed.

Lemma fold_add_edge_mono bonds : forall mol mol',
  GraphOps.fold_res (apply_bond false) bonds mol = Ok mol' -> (length mol <= length mol')%nat.
Proof.
  induction bonds as [|b r IH]; intros mol mol' H; cbn [GraphOps.fold_res] in H; [inversion H; lia|].
  unfold apply_bond at 1 in H. cbn [bind] in H. apply IH in H.
  pose proof (proj1 (length_add_edge mol (b_u b) (b_v b) (bond_attrs b))). lia.
Qed.
Lemma fold_add_edge_typed bonds : forall mol mol', typed_inv mol ->
  GraphOps.fold_res (apply_bond false) bonds mol = Ok mol' -> length mol' = length mol -> typed_inv mol'.
Proof.
  induction bonds as [|b r IH]; intros mol mol' T H L; cbn [GraphOps.fold_res] in H; [inversion H; subst; exact T|].
  unfold apply_bond at 1 in H. cbn [bind] in H. pose proof (fold_add_edge_mono _ _ _ H) as M.
  destruct (length_add_edge mol (b_u b) (b_v b) (bond_attrs b)) as [G E].
  assert (E1 : length (add_edge mol (b_u b) (b_v b) (bond_attrs b)) = length mol) by lia.
  destruct (E E1) as [Hu Hv]. apply (IH _ _ (typed_add_edge_present _ _ _ _ Hu Hv T) H). lia.
Qed.

(** the bond-creation step keeps the typedness at any level, provided it created no node *)
Theorem bonding_step_typed_any legacy aa meta mol fgs mol' fgs' : typed_inv mol ->
  bonding_step legacy aa meta mol fgs = Ok (mol', fgs') -> length mol' = length mol -> typed_inv mol'.
Proof.
  intros T H L. destruct aa; [exact (bonding_step_typed legacy meta mol fgs mol' fgs' T H)|].
  unfold bonding_step in H. destruct (bonds_of legacy meta mol fgs) as [[s1 bonds]|]; cbn [bind] in H; [|discriminate].
  destruct (GraphOps.fold_res (apply_bond false) bonds mol) as [m|] eqn:E; cbn [bind] in H; [|discriminate].
  inversion H; subst. exact (fold_add_edge_typed bonds mol mol' T E L).
Qed.

(** [squash_total_resolver_any]: as SquashTotal.squash_total_resolver, at the coarse level too *)
Theorem squash_total_resolver_any fd legacy aa meta m1 fg1 m2 fg2 : wf_dict fd ->
  resolve_disconnected fd meta = Ok (m1, fg1) -> bonding_step legacy aa meta m1 fg1 = Ok (m2, fg2) ->
  length m2 = length m1 ->
  wf_graph m2 -> hnum_g m2 -> bondings_ok (edge_attr_items m2 squash_edge_attr) ->
  exists g', squash_atoms m2 = Ok g' /\ typed_g g' /\ wf_graph g' /\
             (length g' + length (squash_plan [] (bang_items m2)) = length m2)%nat.
Proof.
  intros Hw H1 H2 L W HN B. apply squash_total; [assumption| |assumption|assumption].
  apply typed_inv_typed_g. eapply bonding_step_typed_any; [|exact H2|exact L]. eapply resolve_disconnected_typed; eauto.
Qed.
