(** QuotientAttrs: what squash_atoms leaves of the OTHER attributes: every surviving atom keeps, for every key
    besides fragid / mapping / contraction / hcount, the value it had before the loop. *)
From Coq Require Import String.
From Coq Require Import List Ascii ZArith Bool Lia.
From CGV Require Import Base.PyBase Base.PyVal Base.NxGraph Gen.HydroGen Hydro.Hydrogens Hydro.Squash
     Hydro.GraphLemmas Hydro.SquashDefs Hydro.SquashProofs.
From CGV Require Import Hydro.QuotientDefs Hydro.QuotientProofs.
Import ListNotations.
Open Scope Z_scope.

Definition keeps (g g0 : graph) : Prop :=
  forall k a, nattrs g k = Some a -> exists a0, nattrs g0 k = Some a0 /\
    forall key, key <> S "fragid" -> key <> S "mapping" -> key <> S "contraction" -> key <> squash_min_attr ->
                aget key a = aget key a0.
Lemma keeps_refl g : keeps g g.
Proof. intros k a H. exists a. split; [exact H|reflexivity]. Qed.

Lemma squash_fold_keep g0 alive l : forall gi sq Fl Ml g' sq',
  wf_graph gi -> fwd sq -> lists_of gi Fl Ml -> hnum_g gi -> keeps gi g0 ->
  (forall k, has_node gi k = zmem k alive && negb (zmem k (sq_keys sq))) ->
  (forall kv, In kv sq -> zmem (snd kv) alive = true) ->
  (forall e, In e l -> zmem (fst (fst e)) alive = true /\ zmem (snd (fst e)) alive = true) ->
  Hydrogens.fold_res squash_step l (gi, sq) = Ok (g', sq') ->
  keeps g' g0.
Proof.
  induction l as [|[[a b] bond] l IH]; intros gi sq Fl Ml g' sq' W F T HN Kp Hal Hv Hl H.
  - cbn in H. inversion H; subst. exact Kp.
  - assert (Hl' : forall e, In e l -> zmem (fst (fst e)) alive = true /\ zmem (snd (fst e)) alive = true)
      by (intros e He; apply Hl; now right).
    destruct (Hl (a, b, bond) (or_introl eq_refl)) as [Aa Ab]. cbn [fst snd] in Aa, Ab.
    cbn [Hydrogens.fold_res] in H.
    destruct (starts_squash bond) as [[|]|] eqn:Es.
    + set (keep := sq_pass sq a) in *. set (rm := sq_pass sq b) in *.
      assert (Rk : sq_root (sq_fuel sq) sq a = Ok keep) by (apply sq_root_pass; [assumption|unfold sq_fuel; lia]).
      assert (Rr : sq_root (sq_fuel sq) sq b = Ok rm) by (apply sq_root_pass; [assumption|unfold sq_fuel; lia]).
      assert (Ak : zmem keep alive = true) by (apply (pass_pred (fun z => zmem z alive = true)); assumption).
      assert (Ar : zmem rm alive = true) by (apply (pass_pred (fun z => zmem z alive = true)); assumption).
      assert (Nk : zmem keep (sq_keys sq) = false)
        by (apply not_true_iff_false; rewrite zmem_In; apply pass_not_key; assumption).
      assert (Nr : zmem rm (sq_keys sq) = false)
        by (apply not_true_iff_false; rewrite zmem_In; apply pass_not_key; assumption).
      destruct (Z.eqb_spec keep rm) as [E|Hne].
      * assert (St : squash_step (gi, sq) (a, b, bond) = Ok (gi, sq)).
        { unfold squash_step. rewrite Es. cbn [bind negb]. rewrite Rk, Rr. cbn [bind]. rewrite E, Z.eqb_refl. reflexivity. }
        rewrite St in H. cbn [bind] in H. exact (IH gi sq Fl Ml g' sq' W F T HN Kp Hal Hv Hl' H).
      * assert (Hk : has_node gi keep = true) by (rewrite Hal, Ak, Nk; reflexivity).
        assert (Hr : has_node gi rm = true) by (rewrite Hal, Ar, Nr; reflexivity).
        assert (exists au, nattrs gi keep = Some au) as [au Hu]
          by (apply has_node_gfind in Hk as [n Hn]; unfold nattrs; rewrite Hn; cbn; eauto).
        assert (exists av, nattrs gi rm = Some av) as [av Hv']
          by (apply has_node_gfind in Hr as [n Hn]; unfold nattrs; rewrite Hn; cbn; eauto).
        destruct (T keep au Hu) as [Fu Mu]. destruct (T rm av Hv') as [Fv Mv].
        destruct (squash_membership gi keep rm au av _ _ _ _ W Hne Hu Hv' Fu Fv Mu Mv (HN keep au Hu) (HN rm av Hv') sq a b bond Es Rk Rr)
          as (g2 & St & K2 & E2 & (A & NA & FA & MA & OA & _ & HA) & O2).
        rewrite St in H. cbn [bind] in H.
        assert (W2 : wf_graph g2) by (exact (wf_contracted gi keep rm g2 W Hne Hk Hr K2 E2)).
        assert (Fr : ~ In rm (sq_keys sq)) by (rewrite <- zmem_In, Nr; discriminate).
        assert (Fk : ~ In keep (sq_keys sq)) by (rewrite <- zmem_In, Nk; discriminate).
        rewrite (sq_set_fresh rm keep sq Fr) in H.
        assert (Gone : forall ai, nattrs g2 rm = Some ai -> False).
        { intros ai Gi. assert (X : has_node g2 rm = true).
          { unfold nattrs in Gi. apply has_node_gfind. destruct (gfind rm g2); [eauto|discriminate]. }
          apply has_node_keys in X. rewrite K2 in X. apply filter_In in X as [_ X]. rewrite Z.eqb_refl in X. discriminate. }
        apply (IH g2 (sq ++ [(rm, keep)]) (fun k => if Z.eqb k keep then Fl keep ++ Fl rm else Fl k) (fun k => if Z.eqb k keep then Ml keep ++ Ml rm else Ml k) g' sq' W2); try assumption.
        -- apply fwd_snoc; auto.
        -- intros i ai Gi. destruct (Z.eqb_spec i keep) as [-> |Ni].
           ++ rewrite NA in Gi. inversion Gi; subst ai. auto.
           ++ destruct (Z.eq_dec i rm) as [-> |Nr']; [exfalso; eauto|]. rewrite O2 in Gi by assumption. exact (T i ai Gi).
        -- intros i ai Gi. destruct (Z.eq_dec i keep) as [-> |Ni].
           ++ rewrite NA in Gi. inversion Gi; subst ai. exact HA.
           ++ destruct (Z.eq_dec i rm) as [-> |Nr']; [exfalso; eauto|]. rewrite O2 in Gi by assumption. exact (HN i ai Gi).
        -- intros i ai Gi. destruct (Z.eq_dec i keep) as [-> |Ni].
           ++ rewrite NA in Gi. inversion Gi; subst ai. destruct (Kp keep au Hu) as (a0 & G0 & K0). exists a0. split; [exact G0|].
              intros key N1 N2 N3 N4. rewrite (OA key N1 N2 N3 N4). apply K0; assumption.
           ++ destruct (Z.eq_dec i rm) as [-> |Nr']; [exfalso; eauto|]. rewrite O2 in Gi by assumption. exact (Kp i ai Gi).
        -- intros k. apply Bool.eq_iff_eq_true.
           rewrite has_node_keys, K2, filter_In, <- has_node_keys, Hal. unfold sq_keys. rewrite map_app. cbn [map fst].
           unfold zmem. rewrite existsb_app. cbn [existsb]. fold (zmem k (map fst sq)). fold (sq_keys sq).
           rewrite orb_false_r, negb_orb, !andb_true_iff, !negb_true_iff. tauto.
        -- intros kv Hin. apply in_app_or in Hin as [Hin|[<-|[]]]; [auto|exact Ak].
    + assert (St : squash_step (gi, sq) (a, b, bond) = Ok (gi, sq)) by (unfold squash_step; rewrite Es; reflexivity).
      rewrite St in H. cbn [bind] in H. exact (IH gi sq Fl Ml g' sq' W F T HN Kp Hal Hv Hl' H).
    + unfold squash_step in H. rewrite Es in H. cbn [bind] in H. discriminate.
Qed.

(** [squash_keeps_attrs]: a surviving atom has, under every other key, the value it had in the bonded graph *)
Theorem squash_keeps_attrs g g' Fl Ml : wf_graph g -> lists_of g Fl Ml -> hnum_g g -> squash_atoms g = Ok g' -> keeps g' g.
Proof.
  intros W T HN H. unfold squash_atoms in H.
  destruct (Hydrogens.fold_res squash_step (edge_attr_items g squash_edge_attr) (g, [])) as [[g2 sq2]|] eqn:Fd; cbn [bind fst] in H; [|discriminate].
  inversion H; subst g2. clear H.
  assert (Hal : forall k, has_node g k = zmem k (node_keys g) && negb (zmem k (sq_keys []))).
  { intros k. cbn. rewrite andb_true_r. apply Bool.eq_iff_eq_true. rewrite has_node_keys, zmem_In. tauto. }
  apply (squash_fold_keep g (node_keys g) (edge_attr_items g squash_edge_attr) g [] Fl Ml g' sq2 W I T HN (keeps_refl g) Hal); [intros kv []| |exact Fd].
  intros e He. destruct (items_are_edges g _ e W He) as [A B]. rewrite !zmem_In, <- !has_node_keys. auto.
Qed.
