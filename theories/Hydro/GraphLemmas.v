(** GraphLemmas: facts about Base/NxGraph operations used by the C09/C10 proofs. *)
From Coq Require Import String.
From Coq Require Import List Ascii ZArith Bool Lia.
From CGV Require Import Base.PyBase Base.PyVal Base.NxGraph.
Import ListNotations.
Open Scope Z_scope.

Lemma gfind_gupdate k j f g : (forall n, nk (f n) = nk n) ->
  gfind k (gupdate j f g) = if Z.eqb k j then option_map f (gfind k g) else gfind k g.
Proof.
  intros Hf. induction g as [|n r IH]; cbn; [destruct (Z.eqb k j); reflexivity|].
  destruct (Z.eqb (nk n) j) eqn:Enj; cbn.
  - rewrite Hf. destruct (Z.eqb (nk n) k) eqn:Enk.
    + apply Z.eqb_eq in Enj, Enk. subst. rewrite Z.eqb_refl. reflexivity.
    + destruct (Z.eqb k j) eqn:Ekj; [|reflexivity].
      apply Z.eqb_eq in Enj, Ekj. subst. rewrite Z.eqb_refl in Enk. discriminate.
  - destruct (Z.eqb (nk n) k) eqn:Enk.
    + apply Z.eqb_eq in Enk. subst. rewrite Enj. reflexivity.
    + exact IH.
Qed.

Lemma node_keys_gupdate j f g : (forall n, nk (f n) = nk n) -> node_keys (gupdate j f g) = node_keys g.
Proof.
  intros Hf. induction g as [|n r IH]; cbn; [reflexivity|].
  destruct (Z.eqb (nk n) j); cbn; [rewrite Hf; reflexivity|]. unfold node_keys in IH. rewrite IH. reflexivity.
Qed.

Lemma gfind_set_node_attr g j a v k :
  gfind k (set_node_attr g j a v) =
  if Z.eqb k j then option_map (fun n => {| nk := nk n; na := aset a v (na n); nadj := nadj n |}) (gfind k g)
  else gfind k g.
Proof. unfold set_node_attr. apply gfind_gupdate. reflexivity. Qed.

Lemma gfind_key k g n : gfind k g = Some n -> nk n = k.
Proof.
  induction g as [|m r IH]; cbn; [discriminate|].
  destruct (Z.eqb (nk m) k) eqn:E; [|exact IH]. intros H. inversion H; subst. now apply Z.eqb_eq.
Qed.
Lemma gfind_In k g n : gfind k g = Some n -> In n g.
Proof.
  induction g as [|m r IH]; cbn; [discriminate|].
  destruct (Z.eqb (nk m) k); [intros H; inversion H; now left|intros H; right; auto].
Qed.
Lemma gfind_none_keys k g : gfind k g = None <-> ~ In k (node_keys g).
Proof.
  induction g as [|m r IH]; cbn; [tauto|].
  destruct (Z.eqb (nk m) k) eqn:E.
  - apply Z.eqb_eq in E. split; [discriminate|]. intros H. exfalso. apply H. now left.
  - apply Z.eqb_neq in E. rewrite IH. unfold node_keys. tauto.
Qed.
Lemma gfind_some_keys k g : In k (node_keys g) -> exists n, gfind k g = Some n.
Proof.
  intros H. destruct (gfind k g) eqn:E; [eauto|]. apply gfind_none_keys in E. contradiction.
Qed.
