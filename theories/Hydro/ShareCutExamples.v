(** ShareCutExamples: non-vacuity of ShareCut.share_vs_cut_resolver. *)
From Coq Require Import String.
From Coq Require Import List Ascii ZArith Bool Lia.
From CGV Require Import Base.PyBase Base.PyVal Base.NxGraph Resolve.Bonding Resolve.GraphOps.
From CGV Require Import Hydro.Squash Hydro.SquashDefs Hydro.QuotientDefs Hydro.BangBonds Hydro.BangGraph.
From CGV Require Import Compose.CutModel Compose.CutPos Compose.CutSpecCheck Compose.CutSkeleton.
From CGV Require Import Hydro.ShareCut Hydro.ShareCutTotal Hydro.ShareCutFull.
Import ListNotations.
Open Scope Z_scope.

Definition atom (e : string) (h : Z) : attrs :=
  [(S "element", VStr (S e)); (S "charge", VInt 0); (S "aromatic", VBool false); (S "hcount", VInt h)].
Definition bd (u v : Z) (lab : string) : cbond := {| cb_u := u; cb_v := v; cb_ord := VInt 1; cb_lab := S lab; cb_dollar := true |}.
(** the molecule: 1-2, 2-3, 2-4, 4-5; its own cut: A=[1,2], B=[3], E=[4], F=[5] *)
Definition exD : cut := {|
  c_atoms := [(1, atom "C" 3); (2, atom "C" 1); (3, atom "O" 1); (4, atom "N" 1); (5, atom "C" 3)];
  c_bonds := [bd 1 2 ""; bd 2 3 "a"; bd 2 4 "b"; bd 4 5 "c"];
  c_parts := [(S "A", [1; 2]); (S "B", [3]); (S "E", [4]); (S "F", [5])]; c_dord := [] |}.
(** atom 2 shared by the three fragments (copies 2, 20, 21 chained by the pairs s and t); 4-5 stays an ordinary cut `$c` *)
Definition exC : cut := {|
  c_atoms := [(1, atom "C" 3); (2, atom "C" 1); (20, atom "C" 1); (3, atom "O" 1); (21, atom "C" 1); (4, atom "N" 1); (5, atom "C" 3)];
  c_bonds := [bd 1 2 ""; bd 2 20 "s"; bd 20 3 ""; bd 20 21 "t"; bd 21 4 ""; bd 4 5 "c"];
  c_parts := [(S "A", [1; 2]); (S "B", [20; 3]); (S "E", [21; 4]); (S "F", [5])]; c_dord := [] |}.
Definition exL : list pystr := [S "s"; S "t"].
Definition ex_orig (x : Z) : Z := if Z.eqb x 20 then 2 else if Z.eqb x 21 then 2 else x.

Example exCD_hypotheses :
  wf_cutb exC = true /\ templates_okb exC (fragdict_of exC) = true /\ is_baseb exC (base_of exC) = true /\
  wf_cutb exD = true /\ templates_okb exD (fragdict_of exD) = true /\ is_baseb exD (base_of exD) = true /\
  expandsb exC exD exL ex_orig = true.
Proof. vm_compute. auto 10. Qed.
(** the tables the `!` run reads: the descriptors of the pairs s and t are written `!` *)
Example exC_bang_tables :
  ren_state (bangify exL) (tables exC)
  = [(0, [(1, [S "!s1"])]); (1, [(2, [S "!s1"; S "!t1"])]); (2, [(4, [S "!t1"]); (5, [S "$c1"])]); (3, [(6, [S "$c1"])])].
Proof. vm_compute. reflexivity. Qed.

Lemma ex_payloads (C : cut) : forallb (fun x =>
    match aget (S "element") (payload C x), aget (S "hcount") (payload C x) with Some _, Some (VInt _) => true | _, _ => false end) (flat C) = true ->
  forall x, In x (flat C) ->
    (exists e, aget (S "element") (payload C x) = Some e) /\ exists h, aget (S "hcount") (payload C x) = Some (VInt h).
Proof.
  intros H x Hx. rewrite forallb_forall in H. specialize (H x Hx).
  destruct (aget (S "element") (payload C x)) as [e|]; [|discriminate]. destruct (aget (S "hcount") (payload C x)) as [[]|]; try discriminate.
  split; eexists; reflexivity.
Qed.

Example share_vs_cut_resolver_nonvacuous : forall aa : bool,
  exists gs fgs gd fgd g',
    (st <- resolve_disconnected (fdmap (bangify exL) (fragdict_of exC)) (base_of exC) ;;
     bonding_step true aa (base_of exC) (fst st) (snd st)) = Ok (gs, fgs) /\
    (st <- resolve_disconnected (fragdict_of exD) (base_of exD) ;; bonding_step true aa (base_of exD) (fst st) (snd st)) = Ok (gd, fgd) /\
    squash_atoms gs = Ok g' /\
    node_keys gs = [0; 1; 2; 3; 4; 5; 6] /\ bang_items gs = [(1, 2); (2, 4)] /\
    (* the copies 2 and 4 of atom 2 are gone; the ordinary cut bond 5-6 stays *)
    node_keys g' = [0; 1; 3; 5; 6] /\ map (pi_cut exC exD ex_orig) (node_keys g') = node_keys gd /\
    has_edge g' 1 3 = true /\ has_edge g' 1 5 = true /\ has_edge g' 5 6 = true /\ has_edge g' 3 5 = false /\
    (forall y x, In y (node_keys g') -> In x (node_keys g') ->
       has_edge g' y x = has_edge gd (pi_cut exC exD ex_orig y) (pi_cut exC exD ex_orig x)).
Proof.
  intros aa. destruct exCD_hypotheses as (H1 & H2 & H3 & H4 & H5 & H6 & H7).
  destruct (share_vs_cut_resolver exC exD exL aa ex_orig (fragdict_of exC) (base_of exC) (fragdict_of exD) (base_of exD)
              (wf_cutb_sound _ H1) (templates_okb_sound _ _ H2) (is_baseb_sound _ _ H3)
              (wf_cutb_sound _ H4) (templates_okb_sound _ _ H5) (is_baseb_sound _ _ H6))
    as (gs & fgs & gd & fgd & R1 & R2 & W & Hq).
  { intros _. apply ex_payloads. vm_compute. reflexivity. }
  { intros _. apply ex_payloads. vm_compute. reflexivity. }
  { apply expandsb_sound. exact H7. }
  destruct aa.
  - pose proof R1 as R1'. pose proof R2 as R2'. vm_compute in R1', R2'. injection R1' as <- _. injection R2' as <- _.
    match type of W with wf_graph ?g =>
      let v := eval vm_compute in (squash_atoms g) in
      match v with Ok ?g' => assert (Q : squash_atoms g = Ok g') by (vm_compute; reflexivity) end end.
    eexists _, fgs, _, fgd, _. split; [exact R1|]. split; [exact R2|]. split; [exact Q|].
    do 8 (split; [vm_compute; reflexivity|]). exact (proj2 (proj2 (proj2 (Hq _ Q)))).
  - pose proof R1 as R1'. pose proof R2 as R2'. vm_compute in R1', R2'. injection R1' as <- _. injection R2' as <- _.
    match type of W with wf_graph ?g =>
      let v := eval vm_compute in (squash_atoms g) in
      match v with Ok ?g' => assert (Q : squash_atoms g = Ok g') by (vm_compute; reflexivity) end end.
    eexists _, fgs, _, fgd, _. split; [exact R1|]. split; [exact R2|]. split; [exact Q|].
    do 8 (split; [vm_compute; reflexivity|]). exact (proj2 (proj2 (proj2 (Hq _ Q)))).
Qed.

(** the extra hypotheses of ShareCutTotal.share_vs_cut_resolver_total hold on the same example, at both levels *)
Example share_vs_cut_resolver_total_hypotheses :
  wf_dictb (fragdict_of exC) = true /\
  forall aa : bool,
    match (st <- resolve_disconnected (fdmap (bangify exL) (fragdict_of exC)) (base_of exC) ;;
           bonding_step true aa (base_of exC) (fst st) (snd st)) with
    | Ok (gs, _) => hnum_gb gs = true
    | Err _ => False
    end.
Proof. split; [vm_compute; reflexivity|]. intros []; vm_compute; reflexivity. Qed.
Example ex_same_payload : same_payload exC exD ex_orig.
Proof.
  intros x key v Hx _. cbn in Hx. repeat destruct Hx as [<-|Hx]; try contradiction; vm_compute; exact (fun H => H).
Qed.

(** every hypothesis of ShareCutFull.share_vs_cut_resolver_full holds on the example (with exCD_hypotheses,
    share_vs_cut_resolver_total_hypotheses and ex_same_payload), so its conclusion holds for it at both levels *)
Example ex_hnum_dict : hnum_dictb (fragdict_of exC) = true.
Proof. vm_compute. reflexivity. Qed.
Example share_vs_cut_resolver_full_instance : forall aa : bool,
  exists gs fgs gd fgd g',
    (st <- resolve_disconnected (fdmap (bangify exL) (fragdict_of exC)) (base_of exC) ;;
     bonding_step true aa (base_of exC) (fst st) (snd st)) = Ok (gs, fgs) /\
    (st <- resolve_disconnected (fragdict_of exD) (base_of exD) ;; bonding_step true aa (base_of exD) (fst st) (snd st)) = Ok (gd, fgd) /\
    squash_atoms gs = Ok g' /\ length gs = 7%nat /\ length g' = 5%nat /\
    (forall y x, In y (node_keys g') -> In x (node_keys g') ->
       has_edge g' y x = has_edge gd (pi_cut exC exD ex_orig y) (pi_cut exC exD ex_orig x)).
Proof.
  intros aa. destruct exCD_hypotheses as (H1 & H2 & H3 & H4 & H5 & H6 & H7).
  destruct (share_vs_cut_resolver_full exC exD exL aa ex_orig (fragdict_of exC) (base_of exC) (fragdict_of exD) (base_of exD)
              (wf_cutb_sound _ H1) (templates_okb_sound _ _ H2) (is_baseb_sound _ _ H3)
              (wf_dictb_sound _ (proj1 share_vs_cut_resolver_total_hypotheses)) (hnum_dictb_sound _ ex_hnum_dict)
              (wf_cutb_sound _ H4) (templates_okb_sound _ _ H5) (is_baseb_sound _ _ H6))
    as (gs & fgs & gd & fgd & g' & R1 & R2 & Q & L1 & L2 & _ & _ & _ & A4 & _).
  { intros _. apply ex_payloads. vm_compute. reflexivity. }
  { intros _. apply ex_payloads. vm_compute. reflexivity. }
  { apply expandsb_sound. exact H7. }
  { exact ex_same_payload. }
  exists gs, fgs, gd, fgd, g'. repeat (split; [assumption|]). exact A4.
Qed.
