(** ShareCut: the relation [pi] of QuotientProofs.share_vs_cut_many DERIVED from the resolver.
    [C] is a cut of the molecule with the shared atoms duplicated (one copy per fragment), the two copies of a
    shared atom joined by a cut bond `$lab` with lab in [L]; [D] is a cut of the molecule itself; [orig] sends
    every atom of C to the atom of D it is a copy of ([expands]).  The fragments of C with `$lab` (lab in L)
    written `!lab` resolve (BangGraph) to [gmap (bangify L) gs'] where gs' is the bonded graph of C, which
    Compose's cut theorem describes ([skeleton C]); the fragments of D resolve to a graph described by
    [skeleton D].  From the two skeletons and [expands]: squash_atoms of the first IS the second, through
    pi = phi D o orig o (phi C)^-1. *)
From Coq Require Import String.
From Coq Require Import List Ascii ZArith Bool Lia.
From CGV Require Import Base.PyBase Base.PyVal Base.NxGraph Gen.HydroGen Resolve.Bonding Resolve.BondingDefs Resolve.GraphOps.
From CGV Require Resolve.SortGraphProofs.
From CGV Require Import Hydro.GraphLemmas Hydro.Squash Hydro.SquashDefs Hydro.SquashProofs Hydro.QuotientDefs Hydro.QuotientProofs
     Hydro.BangBonds Hydro.BangGraph.
From CGV Require Import Compose.GraphAdj Compose.CutModel Compose.CutPos Compose.CutDisc Compose.CutTables Compose.CutSkeleton Compose.CutWf.
Import ListNotations.
Open Scope Z_scope.

(** ---- the graph with rewritten descriptor texts: same nodes, same adjacency *)
Section Gmap.
  Variable r : pystr -> pystr.
  Lemma dir_edges_gmap g : dir_edges (gmap r g) = dir_edges g.
  Proof.
    unfold dir_edges, gmap. induction g as [|n g IH]; [reflexivity|]. cbn [map flat_map nmap nk nadj]. rewrite IH. f_equal.
    rewrite map_map. reflexivity.
  Qed.
  Lemma wf_graph_gmap g : wf_graph g -> wf_graph (gmap r g).
  Proof.
    intros [A B C' D]. constructor.
    - now rewrite node_keys_gmap.
    - intros y x. rewrite has_edge_gmap, has_node_gmap. apply B.
    - intros y x. rewrite !has_edge_gmap. apply C'.
    - intros y. rewrite has_edge_gmap. apply D.
  Qed.
  Lemma bang_items_gmap g p q : In (p, q) (bang_items (gmap r g)) <->
    exists d bv, In (p, q, d) (edges_data g) /\ aget (S "bonding") d = Some bv /\ starts_squash (vren r bv) = Ok true.
  Proof.
    unfold bang_items, edge_attr_items. change squash_edge_attr with (S "bonding"). rewrite edges_data_gmap. split.
    - intros H. apply in_map_iff in H as ([[u v] bv'] & E & H). cbn [fst snd] in E. inversion E; subst u v.
      apply filter_In in H as [H Hb]. apply in_flat_map in H as ([[u v] d'] & Hin & Hx). cbn [fst snd] in Hx.
      apply in_map_iff in Hin as ([[u0 v0] d] & E0 & Hin). cbn [fst snd] in E0. inversion E0; subst u0 v0 d'.
      rewrite aget_Fa in Hx. destruct (aget (S "bonding") d) as [bv|] eqn:Ea; cbn [option_map] in Hx; [|contradiction].
      destruct Hx as [Hx|[]]. inversion Hx; subst u v bv'. exists d, bv. split; [exact Hin|]. split; [exact Ea|].
      unfold item_is_bang in Hb. cbn [snd] in Hb. change (fk r _ bv) with (fk r (S "bonding") bv) in Hb. rewrite fk_bonding in Hb.
      destruct (starts_squash (vren r bv)) as [[|]|]; try discriminate. reflexivity.
    - intros (d & bv & Hin & Ea & Hs). apply in_map_iff. exists (p, q, vren r bv). split; [reflexivity|].
      apply filter_In. split.
      + apply in_flat_map. exists (p, q, Fa r d). split; [apply in_map_iff; exists (p, q, d); split; [reflexivity|exact Hin]|].
        cbn [fst snd]. rewrite aget_Fa, Ea. cbn [option_map]. rewrite fk_bonding. now left.
      + unfold item_is_bang. cbn [snd]. now rewrite Hs.
  Qed.
End Gmap.

Lemma In_dir_edges g p q : NoDup (node_keys g) -> (In (p, q) (dir_edges g) <-> has_edge g p q = true).
Proof.
  intros Hn. unfold dir_edges. split.
  - intros H. apply in_flat_map in H as (n & Hin & Hx). apply in_map_iff in Hx as ([w a] & E & Ha). cbn [fst] in E. inversion E; subst p q.
    unfold has_edge. rewrite (gfind_of_In g n Hn Hin). destruct (In_adj_get _ _ _ Ha) as [b ->]. reflexivity.
  - intros H. unfold has_edge in H. destruct (gfind p g) as [n|] eqn:G; [|discriminate].
    destruct (adj_get q (nadj n)) as [d|] eqn:A; [|discriminate]. apply in_flat_map. exists n. split; [eapply gfind_In; eauto|].
    apply in_map_iff. exists (q, d). split; [cbn [fst]; now rewrite (gfind_key _ _ _ G)|now apply adj_get_In].
Qed.
Lemma edge_attrs_has_edge g u v d : edge_attrs g u v = Ok d -> has_edge g u v = true.
Proof.
  unfold edge_attrs, has_edge. destruct (gfind u g) as [n|]; [|discriminate]. destruct (adj_get v (nadj n)); [reflexivity|discriminate].
Qed.
Lemma nth_index_in l x : In x l -> nth (index_in x l) l 0 = x.
Proof.
  induction l as [|y l IH]; [contradiction|]. intros H. cbn [index_in]. destruct (Z.eqb_spec x y) as [->|N]; [reflexivity|].
  cbn [nth]. apply IH. destruct H as [H|H]; [congruence|exact H].
Qed.
Lemma tail_in_lab lab c L : tail_in (lab ++ [c]) L = str_in lab L.
Proof. unfold tail_in. rewrite rev_app_distr. cbn [rev app]. now rewrite rev_involutive. Qed.

Section ShareCut.
  Variables C D : cut.
  Hypothesis WC : wf_cut C.
  Hypothesis WD : wf_cut D.
  Variable L : list pystr.
  Variable aa : bool.
  Variables gs' gd : graph.
  Hypothesis SkC : skeleton C aa gs'.
  Hypothesis SkD : skeleton D aa gd.
  Hypothesis Adj : adj_nodup gs'.
  Variable orig : Z -> Z.

  (** the cut bonds of C that stand for a shared atom, and the pairs of copies they join *)
  Definition sharedb (b : cbond) : bool := is_cut C b && cb_dollar b && str_in (cb_lab b) L.
  Definition share_pairs : list (Z * Z) := map (fun b => (cb_u b, cb_v b)) (filter sharedb (c_bonds C)).
  (** [expands]: D is C with the copies identified *)
  Record expands : Prop := {
    ex_into : forall x, In x (flat C) -> In (orig x) (flat D);
    ex_onto : forall a, In a (flat D) -> exists x, In x (flat C) /\ orig x = a;
    ex_same : forall x y, In x (flat C) -> In y (flat C) -> (orig x = orig y <-> bconn share_pairs x y);
    ex_bonds : forall a b, In a (flat D) -> In b (flat D) ->
       bonded D a b = negb (Z.eqb a b) &&
         existsb (fun e => eqpair a b (orig (cb_u e)) (orig (cb_v e))) (c_bonds C) }.
  Hypothesis X : expands.

  Let gs := gmap (bangify L) gs'.
  Definition atom_of (k : Z) : Z := nth (Z.to_nat k) (flat C) 0.
  Definition pi_cut (k : Z) : Z := phi D (orig (atom_of k)).

  Let WfC : wf_graph gs' := cut_skeleton_wf C WC aa gs' SkC.
  Lemma atom_of_phi x : In x (flat C) -> atom_of (phi C x) = x.
  Proof. intros H. unfold atom_of, phi. rewrite Nat2Z.id. now apply nth_index_in. Qed.
  Lemma pi_cut_phi x : In x (flat C) -> pi_cut (phi C x) = phi D (orig x).
  Proof. intros H. unfold pi_cut. now rewrite atom_of_phi. Qed.
  Lemma node_is_phi k : In k (node_keys gs) -> exists x, In x (flat C) /\ phi C x = k.
  Proof.
    intros H. unfold gs in H. rewrite node_keys_gmap in H. apply (sk_onto C WC aa gs' SkC). now apply has_node_keys.
  Qed.

  Lemma bang_dtext s b : prefixb (S "!") (bangify L (dtext s b)) = cb_dollar b && str_in (cb_lab b) L.
  Proof.
    unfold dtext, bangify, kind_char, dtail. rewrite tail_in_lab.
    destruct (cb_dollar b); [|destruct s; reflexivity]. cbn [andb]. change (Ascii.eqb "$" "$") with true. cbn [andb].
    destruct (str_in (cb_lab b) L); reflexivity.
  Qed.
  Lemma starts_pair s b :
    starts_squash (vren (bangify L) (VTup [VStr (dtext s b); VStr (dtext (negb s) b)])) = Ok (cb_dollar b && str_in (cb_lab b) L).
  Proof. unfold starts_squash. cbn [vren map sren as_list bind as_str]. change squash_prefix with (S "!"). now rewrite bang_dtext. Qed.

  (** an item of the squash loop that starts with `!` is a shared pair *)
  Lemma bang_item_shared p q : In (p, q) (bang_items gs) ->
    exists x y b, In x (flat C) /\ In y (flat C) /\ p = phi C x /\ q = phi C y /\ In b (c_bonds C) /\ joins b x y = true /\ sharedb b = true.
  Proof.
    intros H. apply bang_items_gmap in H as (d & bv & Hin & Ea & Hs).
    pose proof (edges_data_attrs gs' p q d (wf_nodup _ WfC) Adj Hin) as Hd.
    pose proof (edge_attrs_has_edge _ _ _ _ Hd) as He. destruct (sk_closed _ _ _ SkC p q He) as [Np Nq].
    destruct (sk_onto C WC aa gs' SkC p Np) as (x & Fx & <-). destruct (sk_onto C WC aa gs' SkC q Nq) as (y & Fy & <-).
    destruct (sk_edges _ _ _ SkC x y Fx Fy) as (_ & _ & _ & B4).
    assert (Eg : edge_get gs' (phi C x) (phi C y) (S "bonding") = Some bv) by (unfold edge_get; rewrite Hd; exact Ea).
    destruct (B4 bv Eg) as (b & s & Fb & Ic & ->). rewrite starts_pair in Hs.
    apply (find_bond_spec C WC) in Fb as [Hb J]. exists x, y, b. repeat (split; [assumption || reflexivity|]).
    unfold sharedb. rewrite Ic. cbn [andb]. congruence.
  Qed.
  (** and every shared pair is such an item, in the direction G.edges lists it *)
  Lemma shared_item_dir x y b d : In x (flat C) -> In y (flat C) -> In b (c_bonds C) -> joins b x y = true -> sharedb b = true ->
    In (phi C x, phi C y, d) (edges_data gs') -> In (phi C x, phi C y) (bang_items gs).
  Proof.
    intros Fx Fy Hb J Hs Hin. unfold sharedb in Hs. apply andb_true_iff in Hs as [Hs Hl]. apply andb_true_iff in Hs as [Ic Hdol].
    assert (Fb : find_bond C x y = Some b) by (apply (find_bond_spec C WC); auto).
    destruct (sk_edges _ _ _ SkC x y Fx Fy) as (_ & _ & B3 & B4).
    pose proof (edges_data_attrs gs' _ _ d (wf_nodup _ WfC) Adj Hin) as Hd.
    destruct (edge_get gs' (phi C x) (phi C y) (S "bonding")) as [bv|] eqn:Eg; [|exfalso; exact (B3 b Fb Ic eq_refl)].
    destruct (B4 bv eq_refl) as (b' & s & Fb' & _ & ->). rewrite Fb in Fb'. inversion Fb'; subst b'.
    apply bang_items_gmap. exists d, (VTup [VStr (dtext s b); VStr (dtext (negb s) b)]). split; [exact Hin|]. split.
    - unfold edge_get in Eg. rewrite Hd in Eg. exact Eg.
    - rewrite starts_pair, Hdol, Hl. reflexivity.
  Qed.
  Lemma shared_item b : In b (c_bonds C) -> sharedb b = true ->
    In (phi C (cb_u b), phi C (cb_v b)) (bang_items gs) \/ In (phi C (cb_v b), phi C (cb_u b)) (bang_items gs).
  Proof.
    intros Hb Hs. destruct (wc_ends C WC b Hb) as (Fu & Fv & _).
    assert (J : joins b (cb_u b) (cb_v b) = true) by (apply joins_true; left; split; reflexivity).
    assert (Bd : bonded C (cb_u b) (cb_v b) = true).
    { unfold bonded. replace (find_bond C (cb_u b) (cb_v b)) with (Some b); [reflexivity|]. symmetry. apply (find_bond_spec C WC); auto. }
    destruct (sk_edges _ _ _ SkC _ _ Fu Fv) as (He & _). rewrite Bd in He.
    rewrite <- (SortGraphProofs.edges_data_spec gs' WfC) in He. apply existsb_exists in He as ([[p q] d] & Hin & E).
    cbn [fst snd] in E. unfold eqpair in E. apply orb_true_iff in E as [E|E]; apply andb_true_iff in E as [E1 E2];
      apply Z.eqb_eq in E1, E2; subst p q.
    - left. exact (shared_item_dir _ _ b d Fu Fv Hb J Hs Hin).
    - right. rewrite joins_sym in J. exact (shared_item_dir _ _ b d Fv Fu Hb J Hs Hin).
  Qed.

  (** H1: connected through `!` pairs = copies of the same atom *)
  Lemma bconn_to_atoms p q : bconn (bang_items gs) p q -> bconn share_pairs (atom_of p) (atom_of q).
  Proof.
    induction 1 as [x|a b Hin|x y _ IH|x y z _ IH1 _ IH2]; [apply bc_refl| |now apply bc_sym|eapply bc_trans; eauto].
    destruct (bang_item_shared a b Hin) as (x & y & e & Fx & Fy & -> & -> & He & J & Hs). rewrite !atom_of_phi by assumption.
    assert (In (cb_u e, cb_v e) share_pairs) as Hp.
    { unfold share_pairs. apply in_map_iff. exists e. split; [reflexivity|]. apply filter_In. split; assumption. }
    apply joins_true in J as [[<- <-]|[<- <-]]; [apply bc_pair|apply bc_sym, bc_pair]; exact Hp.
  Qed.
  Lemma bconn_to_keys x y : bconn share_pairs x y -> bconn (bang_items gs) (phi C x) (phi C y).
  Proof.
    induction 1 as [x|a b Hin|x y _ IH|x y z _ IH1 _ IH2]; [apply bc_refl| |now apply bc_sym|eapply bc_trans; eauto].
    unfold share_pairs in Hin. apply in_map_iff in Hin as (e & E & He). inversion E; subst a b. apply filter_In in He as [He Hs].
    destruct (shared_item e He Hs) as [H|H]; [apply bc_pair|apply bc_sym, bc_pair]; exact H.
  Qed.
  Lemma pi_classes p q : In p (node_keys gs) -> In q (node_keys gs) -> (bconn (bang_items gs) p q <-> pi_cut p = pi_cut q).
  Proof.
    intros Hp Hq. destruct (node_is_phi p Hp) as (x & Fx & <-). destruct (node_is_phi q Hq) as (y & Fy & <-).
    rewrite !pi_cut_phi by assumption. split.
    - intros H. apply bconn_to_atoms in H. rewrite !atom_of_phi in H by assumption. apply (ex_same X x y Fx Fy) in H. now rewrite H.
    - intros H. apply bconn_to_keys. apply (ex_same X x y Fx Fy). apply (phi_inj D); auto; apply (ex_into X); assumption.
  Qed.

  (** H2: the bonds of gd are the images of the bonds between different atoms *)
  Lemma pi_edges a b : has_edge gd a b = qedge pi_cut (dir_edges gs) a b.
  Proof.
    unfold gs. rewrite dir_edges_gmap. unfold qedge. apply eq_true_iff_eq. rewrite andb_true_iff, negb_true_iff, Z.eqb_neq, existsb_exists. split.
    - intros He. destruct (sk_closed _ _ _ SkD a b He) as [Na Nb].
      destruct (sk_onto D WD aa gd SkD a Na) as (a0 & Fa0 & <-). destruct (sk_onto D WD aa gd SkD b Nb) as (b0 & Fb0 & <-).
      destruct (sk_edges _ _ _ SkD a0 b0 Fa0 Fb0) as (E & _). rewrite E, (ex_bonds X a0 b0 Fa0 Fb0) in He.
      apply andb_true_iff in He as [Hne He]. apply negb_true_iff, Z.eqb_neq in Hne. apply existsb_exists in He as (e & Hin & Ee).
      split; [intros Eq; apply Hne; apply (phi_inj D); auto|].
      destruct (wc_ends C WC e Hin) as (Fu & Fv & _).
      assert (Bd : bonded C (cb_u e) (cb_v e) = true).
      { unfold bonded. replace (find_bond C (cb_u e) (cb_v e)) with (Some e); [reflexivity|]. symmetry. apply (find_bond_spec C WC).
        split; [exact Hin|apply joins_true; left; split; reflexivity]. }
      destruct (sk_edges _ _ _ SkC _ _ Fu Fv) as (E1 & _). destruct (sk_edges _ _ _ SkC _ _ Fv Fu) as (E2 & _).
      rewrite Bd in E1. rewrite (bonded_sym C), Bd in E2.
      unfold eqpair in Ee. apply orb_true_iff in Ee as [Ee|Ee]; apply andb_true_iff in Ee as [Ea Eb]; apply Z.eqb_eq in Ea, Eb.
      + exists (phi C (cb_u e), phi C (cb_v e)). split; [apply (In_dir_edges gs' _ _ (wf_nodup _ WfC)); exact E1|]. cbn [fst snd].
        rewrite !pi_cut_phi by assumption. rewrite <- Ea, <- Eb, !Z.eqb_refl. reflexivity.
      + exists (phi C (cb_v e), phi C (cb_u e)). split; [apply (In_dir_edges gs' _ _ (wf_nodup _ WfC)); exact E2|]. cbn [fst snd].
        rewrite !pi_cut_phi by assumption. rewrite <- Ea, <- Eb, !Z.eqb_refl. reflexivity.
    - intros (Hne & [p q] & Hin & Ee). cbn [fst snd] in Ee. apply andb_true_iff in Ee as [Ea Eb]. apply Z.eqb_eq in Ea, Eb.
      apply (In_dir_edges gs' _ _ (wf_nodup _ WfC)) in Hin. destruct (sk_closed _ _ _ SkC p q Hin) as [Np Nq].
      destruct (sk_onto C WC aa gs' SkC p Np) as (x & Fx & <-). destruct (sk_onto C WC aa gs' SkC q Nq) as (y & Fy & <-).
      rewrite pi_cut_phi in Ea, Eb by assumption. subst a b.
      destruct (sk_edges _ _ _ SkC x y Fx Fy) as (E & _). rewrite E in Hin. unfold bonded in Hin.
      destruct (find_bond C x y) as [e|] eqn:Fe; [|discriminate]. apply (find_bond_spec C WC) in Fe as [He J].
      destruct (sk_edges _ _ _ SkD (orig x) (orig y) (ex_into X x Fx) (ex_into X y Fy)) as (E' & _). rewrite E'.
      rewrite (ex_bonds X _ _ (ex_into X x Fx) (ex_into X y Fy)). apply andb_true_iff. split.
      + apply negb_true_iff, Z.eqb_neq. intros Eq. apply Hne. now rewrite Eq.
      + apply existsb_exists. exists e. split; [exact He|]. unfold eqpair.
        apply joins_true in J as [[-> ->]|[-> ->]]; rewrite !Z.eqb_refl; cbn; auto using orb_true_r.
  Qed.
  (** H3: the atoms of gd are the images of the atoms *)
  Lemma pi_nodes a : has_node gd a = true <-> exists p, In p (node_keys gs) /\ pi_cut p = a.
  Proof.
    unfold gs. rewrite node_keys_gmap. split.
    - intros Na. destruct (sk_onto D WD aa gd SkD a Na) as (a0 & Fa0 & <-). destruct (ex_onto X a0 Fa0) as (x & Fx & <-).
      exists (phi C x). split; [apply has_node_keys; exact (sk_node C aa gs' SkC x Fx)|now apply pi_cut_phi].
    - intros (p & Hp & <-). apply has_node_keys in Hp. destruct (sk_onto C WC aa gs' SkC p Hp) as (x & Fx & <-).
      rewrite pi_cut_phi by assumption. apply (sk_node D aa gd SkD). now apply (ex_into X).
  Qed.

  (** [share_vs_cut_skeletons]: squash_atoms of the `!` graph IS the graph of the molecule's own cut, through pi_cut *)
  Theorem share_vs_cut_skeletons g' : squash_atoms gs = Ok g' ->
    (forall y, In y (node_keys g') -> has_node gd (pi_cut y) = true) /\
    (forall a, has_node gd a = true -> exists y, In y (node_keys g') /\ pi_cut y = a) /\
    (forall y x, In y (node_keys g') -> In x (node_keys g') -> pi_cut y = pi_cut x -> y = x) /\
    (forall y x, In y (node_keys g') -> In x (node_keys g') -> has_edge g' y x = has_edge gd (pi_cut y) (pi_cut x)).
  Proof.
    intros H. exact (share_vs_cut_many gd gs pi_cut g' (wf_graph_gmap _ _ WfC) H pi_classes pi_edges pi_nodes).
  Qed.
End ShareCut.

(** the descriptors a cut writes are never `!`-written *)
Lemma tables_bang_free C L : wf_cut C -> Ps (bang_free L) (tables C).
Proof.
  intros W a t H u ds Hin d Hd. destruct (tables_from_tbls _ _ _ _ _ _ H) as (k & xs & ->).
  apply (tbl_from_rows C) in Hin as (i & x & _ & _ & -> & _). apply (descs_in C W) in Hd as (b & s & _ & _ & ->).
  split; [discriminate|]. intros t E. unfold dtext, kind_char in E. destruct (cb_dollar b); [|destruct s]; discriminate.
Qed.

(** [share_vs_cut_resolver]: from the fragments.  [fdC]/[BC]: templates and base graph of the cut C (shared atoms
    duplicated, their copies joined by `$lab`, lab in L); the run is on [fdmap (bangify L) fdC], i.e. the same
    templates with those descriptors written `!lab`.  [fdD]/[BD]: templates and base graph of the cut D of the
    molecule itself.  Both runs succeed, and squash_atoms of the first result is the second result through pi_cut. *)
Theorem share_vs_cut_resolver C D L aa orig fdC BC fdD BD :
  wf_cut C -> templates_ok C fdC -> is_base C BC ->
  wf_cut D -> templates_ok D fdD -> is_base D BD ->
  (aa = true -> forall x, In x (flat C) ->
     (exists e, aget (S "element") (payload C x) = Some e) /\ exists h, aget (S "hcount") (payload C x) = Some (VInt h)) ->
  (aa = true -> forall x, In x (flat D) ->
     (exists e, aget (S "element") (payload D x) = Some e) /\ exists h, aget (S "hcount") (payload D x) = Some (VInt h)) ->
  expands C D L orig ->
  exists gs fgs gd fgd,
    (st <- resolve_disconnected (fdmap (bangify L) fdC) BC ;; bonding_step true aa BC (fst st) (snd st)) = Ok (gs, fgs) /\
    (st <- resolve_disconnected fdD BD ;; bonding_step true aa BD (fst st) (snd st)) = Ok (gd, fgd) /\
    wf_graph gs /\
    forall g', squash_atoms gs = Ok g' ->
      (forall y, In y (node_keys g') -> has_node gd (pi_cut C D orig y) = true) /\
      (forall a, has_node gd a = true -> exists y, In y (node_keys g') /\ pi_cut C D orig y = a) /\
      (forall y x, In y (node_keys g') -> In x (node_keys g') -> pi_cut C D orig y = pi_cut C D orig x -> y = x) /\
      (forall y x, In y (node_keys g') -> In x (node_keys g') ->
         has_edge g' y x = has_edge gd (pi_cut C D orig y) (pi_cut C D orig x)).
Proof.
  intros WC TC IC WD TD ID HaC HaD X.
  destruct (cut_bonding_skeleton C WC fdC TC BC IC aa HaC) as (m1 & fg1 & gs' & fg2 & E1 & E2 & SkC).
  destruct (cut_bonding_skeleton D WD fdD TD BD ID aa HaD) as (n1 & fh1 & gd & fgd & F1 & F2 & SkD).
  destruct (disconnected_total C WC fdC TC BC IC) as (m1' & fg1' & E1' & I). rewrite E1 in E1'. inversion E1'; subst m1' fg1'.
  assert (Htab : tables_of fg1 = Ok (tables C)) by (rewrite (i_tables _ _ _ _ I), firstn_all; reflexivity).
  assert (Adj : adj_nodup gs') by (eapply adj_nodup_bonding; [eapply adj_nodup_disconnected; exact E1|exact E2]).
  exists (gmap (bangify L) gs'), (fgmap (bangify L) fg2), gd, fgd. split; [|split; [|split]].
  - rewrite (resolve_bang_like_dollar L aa fdC BC m1 fg1 E1), E2; [reflexivity|].
    intros s0 Hs. rewrite Htab in Hs. inversion Hs; subst s0. now apply tables_bang_free.
  - rewrite F1. cbn [bind fst snd]. exact F2.
  - apply wf_graph_gmap. exact (cut_skeleton_wf C WC aa gs' SkC).
  - intros g' Hsq. exact (share_vs_cut_skeletons C D WC WD L aa gs' gd SkC SkD Adj orig X g' Hsq).
Qed.

(** ---- a decidable form of [expands], for examples and tests *)
Definition classes_of (ps : list (Z * Z)) : Z -> Z := sq_pass (plan_sq (squash_plan [] ps)).
Lemma classes_of_spec ps p q : classes_of ps p = classes_of ps q <-> bconn ps p q.
Proof.
  unfold classes_of.
  assert (Sd : forall z, bconn ps z (sq_pass (plan_sq (squash_plan [] ps)) z)).
  { intros z. apply (plan_sound ps ps []); [intros w; apply bc_refl|auto]. }
  split.
  - intros E. apply (bc_trans ps p (sq_pass (plan_sq (squash_plan [] ps)) p)); [apply Sd|]. rewrite E. apply bc_sym. apply Sd.
  - induction 1 as [x|a b Hin|x y _ IH|x y z _ IH1 _ IH2]; [reflexivity| |now symmetry|congruence].
    exact (plan_complete ps [] a b Hin).
Qed.
Definition expandsb (C D : cut) (L : list pystr) (orig : Z -> Z) : bool :=
  forallb (fun x => zmem (orig x) (flat D)) (flat C)
  && forallb (fun a => existsb (fun x => Z.eqb (orig x) a) (flat C)) (flat D)
  && forallb (fun x => forallb (fun y => Bool.eqb (Z.eqb (orig x) (orig y))
                                           (Z.eqb (classes_of (share_pairs C L) x) (classes_of (share_pairs C L) y))) (flat C)) (flat C)
  && forallb (fun a => forallb (fun b => Bool.eqb (bonded D a b)
        (negb (Z.eqb a b) && existsb (fun e => eqpair a b (orig (cb_u e)) (orig (cb_v e))) (c_bonds C))) (flat D)) (flat D).
Lemma expandsb_sound C D L orig : expandsb C D L orig = true -> expands C D L orig.
Proof.
  unfold expandsb. intros H. apply andb_true_iff in H as [H H4]. apply andb_true_iff in H as [H H3]. apply andb_true_iff in H as [H1 H2].
  rewrite forallb_forall in H1, H2, H3, H4. constructor.
  - intros x Hx. apply zmem_In. now apply H1.
  - intros a Ha. specialize (H2 a Ha). apply existsb_exists in H2 as (x & Hx & E). apply Z.eqb_eq in E. eauto.
  - intros x y Hx Hy. specialize (H3 x Hx). rewrite forallb_forall in H3. specialize (H3 y Hy). apply eqb_prop in H3.
    rewrite <- classes_of_spec, <- !Z.eqb_eq. now rewrite H3.
  - intros a b Ha Hb. specialize (H4 a Ha). rewrite forallb_forall in H4. specialize (H4 b Hb). now apply eqb_prop in H4.
Qed.
