(** SquashProofs: theorems about the Squash model (C10). *)
From Coq Require Import String.
From Coq Require Import List Ascii ZArith Bool Lia.
From CGV Require Import Base.PyBase Base.PyVal Base.NxGraph Gen.HydroGen Hydro.Hydrogens Hydro.Squash.
Import ListNotations.
Open Scope Z_scope.

(** the constants regenerated from resolve.py are the ones the theorems are about *)
Lemma squash_constants : squash_self_loops = false /\ squash_concat_attrs = [S "fragid"; S "mapping"].
Proof. split; reflexivity. Qed.
