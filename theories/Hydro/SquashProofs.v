(** SquashProofs: theorems about the Squash model (C10). *)
From Coq Require Import String.
From Coq Require Import List Ascii ZArith Bool Lia.
From CGV Require Import Base.PyBase Base.PyVal Base.NxGraph Gen.HydroGen Hydro.Hydrogens Hydro.Squash
     Hydro.GraphLemmas Hydro.SquashDefs.
Import ListNotations.
Open Scope Z_scope.

(** the constants regenerated from resolve.py are the ones the theorems are about *)
Lemma squash_constants : squash_self_loops = false /\ squash_concat_attrs = [S "fragid"; S "mapping"].
Proof. split; reflexivity. Qed.

(** ------------------------------------------------------------ adjacency lists *)
Lemma adj_get_adj_set x v d l : adj_get x (adj_set v d l) = if Z.eqb x v then Some d else adj_get x l.
Proof.
  induction l as [|[w b] l IH]; cbn.
  - rewrite (Z.eqb_sym v x). reflexivity.
  - destruct (Z.eqb w v) eqn:Ewv; cbn.
    + apply Z.eqb_eq in Ewv. subst w. rewrite (Z.eqb_sym v x). destruct (Z.eqb x v); reflexivity.
    + destruct (Z.eqb w x) eqn:Ewx.
      * apply Z.eqb_eq in Ewx. subst w. rewrite Ewv. reflexivity.
      * exact IH.
Qed.
Lemma adj_get_adj_del x v l : adj_get x (adj_del v l) = if Z.eqb x v then None else adj_get x l.
Proof.
  unfold adj_del. induction l as [|[w b] l IH]; cbn [filter adj_get fst].
  - destruct (Z.eqb x v); reflexivity.
  - destruct (Z.eqb w v) eqn:Ewv; cbn [negb].
    + rewrite IH. apply Z.eqb_eq in Ewv. subst w. rewrite (Z.eqb_sym v x). destruct (Z.eqb x v); reflexivity.
    + cbn [adj_get]. destruct (Z.eqb w x) eqn:Ewx.
      * apply Z.eqb_eq in Ewx. subst w. rewrite Ewv. reflexivity.
      * exact IH.
Qed.

Lemma has_node_gfind g k : has_node g k = true <-> exists n, gfind k g = Some n.
Proof. unfold has_node. destruct (gfind k g); split; eauto; try discriminate. intros [n H]. discriminate. Qed.
Lemma has_node_keys g k : has_node g k = true <-> In k (node_keys g).
Proof.
  rewrite has_node_gfind. split.
  - intros [n H]. destruct (in_dec Z.eq_dec k (node_keys g)) as [i|ni]; [assumption|].
    apply gfind_none_keys in ni. congruence.
  - apply gfind_some_keys.
Qed.
Lemma has_edge_has_node g y x : has_edge g y x = true -> has_node g y = true.
Proof. unfold has_edge, has_node. destruct (gfind y g); [reflexivity|discriminate]. Qed.

(** ------------------------------------------------------------ add_edge between existing nodes *)
Definition eqpair (y x a b : Z) : bool := (Z.eqb y a && Z.eqb x b) || (Z.eqb y b && Z.eqb x a).

Lemma add_edge_present g a b d : has_node g a = true -> has_node g b = true ->
  exists d', add_edge g a b d =
    gupdate b (fun n => {| nk := nk n; na := na n; nadj := adj_set a d' (nadj n) |})
      (gupdate a (fun n => {| nk := nk n; na := na n; nadj := adj_set b d' (nadj n) |}) g).
Proof. intros Ha Hb. unfold add_edge. rewrite Ha, Hb. eexists. reflexivity. Qed.

Lemma has_edge_add_edge g a b d y x : has_node g a = true -> has_node g b = true ->
  has_edge (add_edge g a b d) y x = has_edge g y x || eqpair y x a b.
Proof.
  intros Ha Hb. destruct (add_edge_present g a b d Ha Hb) as [d' ->].
  unfold has_edge, eqpair. rewrite !gfind_gupdate by reflexivity.
  apply has_node_gfind in Ha as [na_ Ha]. apply has_node_gfind in Hb as [nb_ Hb].
  destruct (gfind y g) as [n|] eqn:Ey.
  - destruct (Z.eqb y b), (Z.eqb y a); cbn [option_map nadj andb orb]; rewrite ?adj_get_adj_set;
      destruct (Z.eqb x a), (Z.eqb x b), (adj_get x (nadj n)); reflexivity.
  - destruct (Z.eqb_spec y a) as [->|Na]; [congruence|].
    destruct (Z.eqb_spec y b) as [->|Nb]; [congruence|]. reflexivity.
Qed.

Lemma keys_add_edge g a b d : has_node g a = true -> has_node g b = true ->
  node_keys (add_edge g a b d) = node_keys g.
Proof.
  intros Ha Hb. destruct (add_edge_present g a b d Ha Hb) as [d' ->].
  rewrite !node_keys_gupdate by reflexivity. reflexivity.
Qed.
Lemma nattrs_add_edge g a b d y : has_node g a = true -> has_node g b = true ->
  nattrs (add_edge g a b d) y = nattrs g y.
Proof.
  intros Ha Hb. destruct (add_edge_present g a b d Ha Hb) as [d' ->].
  unfold nattrs. rewrite !gfind_gupdate by reflexivity.
  destruct (Z.eqb y b), (Z.eqb y a), (gfind y g); reflexivity.
Qed.
Lemma has_node_same_keys g h k : node_keys g = node_keys h -> has_node g k = has_node h k.
Proof.
  intros E. destruct (has_node g k) eqn:A; destruct (has_node h k) eqn:B; try reflexivity.
  - apply has_node_keys in A. rewrite E in A. apply has_node_keys in A. congruence.
  - apply has_node_keys in B. rewrite <- E in B. apply has_node_keys in B. congruence.
Qed.

(** a fold of add_edge over triples whose end points exist *)
Definition add_edges (l : list (Z * Z * attrs)) (g : graph) : graph :=
  fold_left (fun acc e => add_edge acc (fst (fst e)) (snd (fst e)) (snd e)) l g.
Lemma add_edges_spec l : forall g,
  (forall e, In e l -> has_node g (fst (fst e)) = true /\ has_node g (snd (fst e)) = true) ->
  node_keys (add_edges l g) = node_keys g /\
  (forall y, nattrs (add_edges l g) y = nattrs g y) /\
  (forall y x, has_edge (add_edges l g) y x
               = has_edge g y x || existsb (fun e => eqpair y x (fst (fst e)) (snd (fst e))) l).
Proof.
  induction l as [|[[a b] d] l IH]; intros g H.
  - cbn. repeat split; intros; rewrite ?orb_false_r; reflexivity.
  - destruct (H (a, b, d) (or_introl eq_refl)) as [Ha Hb]. cbn [fst snd] in Ha, Hb.
    unfold add_edges. cbn [fold_left fst snd]. fold (add_edges l (add_edge g a b d)).
    pose proof (keys_add_edge g a b d Ha Hb) as K.
    destruct (IH (add_edge g a b d)) as (K2 & N2 & E2).
    { intros e He. destruct (H e (or_intror He)) as [X Y].
      split; [rewrite (has_node_same_keys _ g _ K); exact X|rewrite (has_node_same_keys _ g _ K); exact Y]. }
    repeat split.
    + congruence.
    + intros y. rewrite N2. apply nattrs_add_edge; assumption.
    + intros y x. rewrite E2, has_edge_add_edge by assumption. cbn [existsb fst snd].
      rewrite orb_assoc. reflexivity.
Qed.

(** ------------------------------------------------------------ remove_node *)
Lemma gfind_filter_ne g v y : Z.eqb y v = false ->
  gfind y (filter (fun n => negb (Z.eqb (nk n) v)) g) = gfind y g.
Proof.
  intros N. induction g as [|n r IH]; cbn; [reflexivity|].
  destruct (Z.eqb (nk n) v) eqn:E; cbn.
  - destruct (Z.eqb (nk n) y) eqn:Ey; [|exact IH].
    apply Z.eqb_eq in E, Ey. subst. rewrite Z.eqb_refl in N. discriminate.
  - destruct (Z.eqb (nk n) y); [reflexivity|exact IH].
Qed.
Lemma gfind_filter_eq g v : gfind v (filter (fun n => negb (Z.eqb (nk n) v)) g) = None.
Proof.
  induction g as [|n r IH]; cbn; [reflexivity|].
  destruct (Z.eqb (nk n) v) eqn:E; cbn; [exact IH|rewrite E; exact IH].
Qed.
Lemma gfind_map g f y : (forall n, nk (f n) = nk n) -> gfind y (map f g) = option_map f (gfind y g).
Proof.
  intros H. induction g as [|n r IH]; cbn; [reflexivity|]. rewrite H.
  destruct (Z.eqb (nk n) y); [reflexivity|exact IH].
Qed.
Lemma gfind_remove_node g v y :
  gfind y (remove_node g v) =
  if Z.eqb y v then None
  else option_map (fun n => {| nk := nk n; na := na n; nadj := adj_del v (nadj n) |}) (gfind y g).
Proof.
  unfold remove_node. rewrite gfind_map by reflexivity.
  destruct (Z.eqb y v) eqn:E.
  - apply Z.eqb_eq in E. subst. rewrite gfind_filter_eq. reflexivity.
  - rewrite gfind_filter_ne by exact E. reflexivity.
Qed.
Lemma has_edge_remove_node g v y x :
  has_edge (remove_node g v) y x = negb (Z.eqb y v) && negb (Z.eqb x v) && has_edge g y x.
Proof.
  unfold has_edge. rewrite gfind_remove_node. destruct (Z.eqb y v); [reflexivity|].
  destruct (gfind y g) as [n|]; cbn [option_map nadj negb andb]; [|now rewrite andb_false_r].
  rewrite adj_get_adj_del. destruct (Z.eqb x v); reflexivity.
Qed.
Lemma keys_remove_node g v : node_keys (remove_node g v) = filter (fun k => negb (Z.eqb k v)) (node_keys g).
Proof.
  unfold remove_node, node_keys. rewrite map_map. cbn [nk].
  induction g as [|n r IH]; cbn; [reflexivity|]. destruct (Z.eqb (nk n) v); cbn; [exact IH|now rewrite IH].
Qed.
Lemma nattrs_remove_node g v y : nattrs (remove_node g v) y = if Z.eqb y v then None else nattrs g y.
Proof. unfold nattrs. rewrite gfind_remove_node. destruct (Z.eqb y v); [reflexivity|]. destruct (gfind y g); reflexivity. Qed.

(** ------------------------------------------------------------ G.copy() *)
Definition strip (n : nrec) : nrec := {| nk := nk n; na := na n; nadj := [] |}.
Definition all_adj (g : graph) : list (Z * Z * attrs) :=
  flat_map (fun n => map (fun wa => (nk n, fst wa, snd wa)) (nadj n)) g.

Lemma copy_phase1 l : forall acc, NoDup (node_keys acc ++ node_keys l) ->
  fold_left (fun acc n => add_node acc (nk n) (na n)) l acc = acc ++ map strip l.
Proof.
  induction l as [|n r IH]; intros acc H; cbn; [now rewrite app_nil_r|].
  assert (Hn : has_node acc (nk n) = false).
  { destruct (has_node acc (nk n)) eqn:E; [|reflexivity]. apply has_node_keys in E.
    apply NoDup_remove_2 in H. exfalso. apply H. apply in_or_app. now left. }
  unfold add_node at 2. rewrite Hn. rewrite IH.
  - rewrite <- app_assoc. reflexivity.
  - unfold node_keys in *. rewrite map_app, <- app_assoc. exact H.
Qed.
Lemma fold_left_flat_map {A B C} (f : A -> C -> A) (F : B -> list C) l : forall a,
  fold_left f (flat_map F l) a = fold_left (fun a x => fold_left f (F x) a) l a.
Proof. induction l as [|x l IH]; intros a; cbn; [reflexivity|]. rewrite fold_left_app. apply IH. Qed.
Lemma fold_left_map {A B C} (f : A -> C -> A) (h : B -> C) l : forall a,
  fold_left f (map h l) a = fold_left (fun a x => f a (h x)) l a.
Proof. induction l as [|x l IH]; intros a; cbn; [reflexivity|apply IH]. Qed.
Lemma fold_left_ext {A B} (f g : A -> B -> A) l : (forall a x, f a x = g a x) -> forall a, fold_left f l a = fold_left g l a.
Proof. intros H. induction l as [|x l IH]; intros a; cbn; [reflexivity|]. rewrite H. apply IH. Qed.

Lemma gcopy_eq g : NoDup (node_keys g) -> gcopy g = add_edges (all_adj g) (map strip g).
Proof.
  intros H. unfold gcopy. rewrite (copy_phase1 g gempty) by exact H. cbn [app gempty].
  unfold add_edges, all_adj. rewrite fold_left_flat_map. apply fold_left_ext.
  intros a n. rewrite fold_left_map. reflexivity.
Qed.

Lemma keys_strip g : node_keys (map strip g) = node_keys g.
Proof. unfold node_keys. rewrite map_map. reflexivity. Qed.
Lemma has_edge_strip g y x : has_edge (map strip g) y x = false.
Proof. unfold has_edge. rewrite gfind_map by reflexivity. destruct (gfind y g); reflexivity. Qed.
Lemma nattrs_strip g y : nattrs (map strip g) y = nattrs g y.
Proof. unfold nattrs. rewrite gfind_map by reflexivity. destruct (gfind y g); reflexivity. Qed.

Lemma adj_get_existsb x l : (match adj_get x l with Some _ => true | None => false end) = existsb (fun wa => Z.eqb x (fst wa)) l.
Proof.
  induction l as [|[w a] l IH]; cbn; [reflexivity|]. rewrite (Z.eqb_sym x w).
  destruct (Z.eqb w x); [reflexivity|exact IH].
Qed.
Lemma existsb_orb {A} (f g : A -> bool) l : existsb (fun e => f e || g e) l = existsb f l || existsb g l.
Proof.
  induction l as [|e l IH]; cbn; [reflexivity|]. rewrite IH.
  destruct (f e), (g e), (existsb f l), (existsb g l); reflexivity.
Qed.
Lemma existsb_flat_map {A B} (f : B -> bool) (F : A -> list B) l :
  existsb f (flat_map F l) = existsb (fun a => existsb f (F a)) l.
Proof. induction l as [|a l IH]; cbn; [reflexivity|]. rewrite existsb_app, IH. reflexivity. Qed.
Lemma existsb_map {A B} (f : B -> bool) (h : A -> B) l : existsb f (map h l) = existsb (fun a => f (h a)) l.
Proof. induction l as [|a l IH]; cbn; [reflexivity|now rewrite IH]. Qed.

Lemma existsb_ext {A} (f g : A -> bool) l : (forall a, f a = g a) -> existsb f l = existsb g l.
Proof. intros H. induction l as [|a l IH]; cbn; [reflexivity|now rewrite H, IH]. Qed.
Lemma existsb_false {A} (l : list A) : existsb (fun _ => false) l = false.
Proof. induction l; cbn; congruence. Qed.

Lemma all_adj_dir g y x : NoDup (node_keys g) ->
  existsb (fun e => Z.eqb y (fst (fst e)) && Z.eqb x (snd (fst e))) (all_adj g) = has_edge g y x.
Proof.
  intros H. unfold all_adj. rewrite existsb_flat_map. unfold has_edge.
  induction g as [|n r IH]; cbn [existsb gfind]; [reflexivity|].
  rewrite existsb_map. cbn [fst snd]. inversion H as [|? ? Hn Hr]; subst.
  rewrite (Z.eqb_sym (nk n) y). destruct (Z.eqb y (nk n)) eqn:E.
  - apply Z.eqb_eq in E. subst y.
    replace (existsb (fun a => existsb _ (map _ (nadj a))) r) with false.
    + rewrite orb_false_r. rewrite (existsb_ext _ (fun wa => Z.eqb x (fst wa))) by reflexivity.
      rewrite <- adj_get_existsb. reflexivity.
    + symmetry. apply not_true_is_false. intro T. apply existsb_exists in T as (m & Hm & Tm).
      rewrite existsb_map in Tm. apply existsb_exists in Tm as (wa & _ & Twa). cbn [fst snd] in Twa.
      apply andb_true_iff in Twa as [Twa _]. apply Z.eqb_eq in Twa. apply Hn. rewrite Twa.
      unfold node_keys. apply in_map. exact Hm.
  - rewrite (existsb_ext _ (fun _ => false)) by reflexivity. rewrite existsb_false.
    cbn [orb]. apply IH. exact Hr.
Qed.

Lemma gcopy_spec g : NoDup (node_keys g) -> (forall y x, has_edge g y x = true -> has_node g x = true) ->
  node_keys (gcopy g) = node_keys g /\ (forall y, nattrs (gcopy g) y = nattrs g y) /\
  (forall y x, has_edge (gcopy g) y x = has_edge g y x || has_edge g x y).
Proof.
  intros Hnd Hcl. rewrite gcopy_eq by exact Hnd.
  destruct (add_edges_spec (all_adj g) (map strip g)) as (K & N & E).
  { intros e He. unfold all_adj in He. apply in_flat_map in He as (n & Hn & He).
    apply in_map_iff in He as (wa & <- & Hwa). cbn [fst snd].
    assert (Hk : gfind (nk n) g = Some n).
    { clear - Hnd Hn. induction g as [|m r IH]; [contradiction|]. cbn. inversion Hnd; subst.
      destruct Hn as [->|Hn]; [now rewrite Z.eqb_refl|].
      destruct (Z.eqb (nk m) (nk n)) eqn:E; [|auto].
      apply Z.eqb_eq in E. exfalso. apply H1. rewrite E. unfold node_keys. now apply in_map. }
    split.
    - rewrite (has_node_same_keys _ g) by apply keys_strip. apply has_node_gfind. eauto.
    - rewrite (has_node_same_keys _ g) by apply keys_strip. apply (Hcl (nk n)).
      unfold has_edge. rewrite Hk. pose proof (adj_get_existsb (fst wa) (nadj n)) as X.
      destruct (adj_get (fst wa) (nadj n)); [reflexivity|]. symmetry in X.
      apply not_true_iff_false in X. exfalso. apply X. apply existsb_exists. exists wa. split; [assumption|apply Z.eqb_refl]. }
  split; [rewrite K; apply keys_strip|]. split.
  - intros y. rewrite N. apply nattrs_strip.
  - intros y x. rewrite E, has_edge_strip. cbn [orb]. unfold eqpair. rewrite existsb_orb.
    rewrite (all_adj_dir g y x Hnd).
    replace (existsb (fun e => Z.eqb y (snd (fst e)) && Z.eqb x (fst (fst e))) (all_adj g)) with (has_edge g x y);
      [reflexivity|].
    rewrite <- (all_adj_dir g x y Hnd). apply existsb_ext. intros e. apply andb_comm.
Qed.

(** ------------------------------------------------------------ the remapping loop of contracted_nodes *)
Lemma remap_step u v acc px d : u <> v -> px <> v ->
  remap_edge false u v acc (v, px, d) = acc /\ px = u \/
  (px <> u /\ exists d', remap_edge false u v acc (v, px, d) = add_edge acc u px d').
Proof.
  intros Huv Hpx. unfold remap_edge, same_pair, zin. rewrite Z.eqb_refl.
  assert (E1 : Z.eqb px v = false) by now apply Z.eqb_neq.
  assert (E2 : Z.eqb u v = false) by now apply Z.eqb_neq.
  assert (E3 : Z.eqb v u = false) by (apply Z.eqb_neq; congruence).
  rewrite E1, E2, E3, ?Z.eqb_refl. cbn [orb andb negb].
  destruct (Z.eqb_spec px u) as [->|N].
  - left. rewrite Z.eqb_refl. cbn. auto.
  - right. split; [assumption|]. replace (Z.eqb u px) with false by (symmetry; apply Z.eqb_neq; congruence).
    rewrite !orb_false_r. cbn [andb].
    destruct (negb (has_edge acc u px)); eexists; reflexivity.
Qed.

Lemma remap_fold u v : u <> v -> forall l acc, has_node acc u = true ->
  (forall wa, In wa l -> fst wa <> v /\ has_node acc (fst wa) = true) ->
  let r := fold_left (remap_edge false u v) (map (fun wa => (v, fst wa, snd wa)) l) acc in
  node_keys r = node_keys acc /\ (forall y, nattrs r y = nattrs acc y) /\
  (forall y x, has_edge r y x
               = has_edge acc y x || existsb (fun wa => negb (Z.eqb (fst wa) u) && eqpair y x u (fst wa)) l).
Proof.
  intros Huv. induction l as [|[px d] l IH]; intros acc Hu Hl; cbn zeta.
  - cbn. repeat split; intros; rewrite ?orb_false_r; reflexivity.
  - cbn [map fold_left fst snd]. destruct (Hl (px, d) (or_introl eq_refl)) as [Hpx Hn]. cbn [fst] in Hpx, Hn.
    destruct (remap_step u v acc px d Huv Hpx) as [[-> ->]|[Npx [d' ->]]].
    + destruct (IH acc Hu (fun wa H => Hl wa (or_intror H))) as (K & N & E).
      repeat split; [exact K|exact N|]. intros y x. rewrite E. cbn [existsb fst]. rewrite Z.eqb_refl. reflexivity.
    + pose proof (keys_add_edge acc u px d' Hu Hn) as K1.
      destruct (IH (add_edge acc u px d')) as (K & N & E).
      * rewrite (has_node_same_keys _ acc) by exact K1. exact Hu.
      * intros wa H. destruct (Hl wa (or_intror H)) as [A B]. split; [exact A|].
        rewrite (has_node_same_keys _ acc) by exact K1. exact B.
      * repeat split; [congruence| |].
        -- intros y. rewrite N. apply nattrs_add_edge; assumption.
        -- intros y x. rewrite E, has_edge_add_edge by assumption. cbn [existsb fst].
           replace (Z.eqb px u) with false by (symmetry; now apply Z.eqb_neq). cbn [negb andb].
           rewrite orb_assoc. reflexivity.
Qed.

Lemma remap_exists l y x u :
  existsb (fun wa : Z * attrs => negb (Z.eqb (fst wa) u) && eqpair y x u (fst wa)) l
  = (Z.eqb y u && negb (Z.eqb x u) && existsb (fun wa => Z.eqb x (fst wa)) l)
    || (Z.eqb x u && negb (Z.eqb y u) && existsb (fun wa => Z.eqb y (fst wa)) l).
Proof.
  induction l as [|[w a] l IH]; cbn [existsb fst].
  - rewrite !andb_false_r. reflexivity.
  - rewrite IH. unfold eqpair.
    generalize (existsb (fun wa : Z * attrs => Z.eqb x (fst wa)) l) (existsb (fun wa : Z * attrs => Z.eqb y (fst wa)) l).
    intros EX EY.
    destruct (Z.eqb_spec w u), (Z.eqb_spec y u), (Z.eqb_spec x u), (Z.eqb_spec x w), (Z.eqb_spec y w);
      subst; try congruence; destruct EX, EY; reflexivity.
Qed.

(** ------------------------------------------------------------ contracted_nodes *)
Lemma nattrs_set_node_attr g j a v y :
  nattrs (set_node_attr g j a v) y = if Z.eqb y j then option_map (aset a v) (nattrs g y) else nattrs g y.
Proof. unfold nattrs. rewrite gfind_set_node_attr. destruct (Z.eqb y j); [|reflexivity]. destruct (gfind y g); reflexivity. Qed.
Lemma has_edge_set_node_attr g j a v y x : has_edge (set_node_attr g j a v) y x = has_edge g y x.
Proof. unfold has_edge. rewrite gfind_set_node_attr. destruct (Z.eqb y j); [|reflexivity]. destruct (gfind y g); reflexivity. Qed.
Lemma keys_set_node_attr g j a v : node_keys (set_node_attr g j a v) = node_keys g.
Proof. unfold set_node_attr. apply node_keys_gupdate. reflexivity. Qed.

(** what one contraction does: the node list loses exactly v (order kept); the adjacency is
    [contracted_edge]; v's attribute dict is stored under u's 'contraction'; every other node keeps
    its attributes *)
Theorem contracted_spec g u v au av : wf_graph g -> u <> v ->
  nattrs g u = Some au -> nattrs g v = Some av ->
  exists h, contracted false g u v = Ok h /\
    node_keys h = filter (fun k => negb (Z.eqb k v)) (node_keys g) /\
    (forall y x, has_edge h y x = contracted_edge g u v y x) /\
    nattrs h u = Some (aset (S "contraction") (store_contraction au (VInt v) (attrs_to_pyval av)) au) /\
    nattrs h v = None /\
    (forall y, y <> u -> y <> v -> nattrs h y = nattrs g y).
Proof.
  intros [Hnd Hcl Hsym Hloop] Huv Hu Hv.
  unfold nattrs in Hu, Hv.
  destruct (gfind u g) as [nu|] eqn:Gu; [|discriminate]. destruct (gfind v g) as [nv|] eqn:Gv; [|discriminate].
  cbn in Hu, Hv. inversion Hu; inversion Hv; subst au av. clear Hu Hv.
  destruct (gcopy_spec g Hnd Hcl) as (K1 & N1 & E1).
  set (h1 := gcopy g) in *.
  pose proof (keys_remove_node h1 v) as K2. rewrite K1 in K2.
  set (h2 := remove_node h1 v) in *.
  assert (Euv : Z.eqb u v = false) by now apply Z.eqb_neq.
  assert (Hu2 : has_node h2 u = true).
  { apply has_node_keys. rewrite K2. apply filter_In. split; [|now rewrite Euv].
    apply has_node_keys. apply has_node_gfind. eauto. }
  assert (Hl : forall wa, In wa (nadj nv) -> fst wa <> v /\ has_node h2 (fst wa) = true).
  { intros wa Hin.
    assert (Ew : has_edge g v (fst wa) = true).
    { unfold has_edge. rewrite Gv. pose proof (adj_get_existsb (fst wa) (nadj nv)) as X.
      destruct (adj_get (fst wa) (nadj nv)); [reflexivity|]. symmetry in X. apply not_true_iff_false in X.
      exfalso. apply X. apply existsb_exists. exists wa. split; [assumption|apply Z.eqb_refl]. }
    assert (Nv : fst wa <> v) by (intro E; rewrite E, Hloop in Ew; discriminate).
    split; [exact Nv|]. apply has_node_keys. rewrite K2. apply filter_In. split.
    - apply has_node_keys. exact (Hcl _ _ Ew).
    - apply Z.eqb_neq in Nv. now rewrite Nv. }
  destruct (remap_fold u v Huv (nadj nv) h2 Hu2 Hl) as (K3 & N3 & E3).
  unfold contracted. rewrite Gv. unfold edges_of. rewrite Gv. fold h1. fold h2.
  set (h3 := fold_left (remap_edge false u v) (map (fun wa => (v, fst wa, snd wa)) (nadj nv)) h2) in *.
  assert (N3u : nattrs h3 u = Some (na nu)).
  { rewrite N3. unfold h2. rewrite nattrs_remove_node, Euv, N1. unfold nattrs. now rewrite Gu. }
  unfold nattrs in N3u. destruct (gfind u h3) as [nu3|] eqn:Gu3; [|discriminate]. cbn in N3u. inversion N3u as [Hna].
  eexists. split; [reflexivity|]. rewrite Hna.
  split; [rewrite keys_set_node_attr, K3; exact K2|]. split; [|split; [|split]].
  - intros y x. rewrite has_edge_set_node_attr, E3. unfold h2. rewrite has_edge_remove_node, E1, remap_exists.
    rewrite <- !adj_get_existsb.
    assert (Ev : forall z, (match adj_get z (nadj nv) with Some _ => true | None => false end) = has_edge g v z)
      by (intros z; unfold has_edge; now rewrite Gv).
    rewrite !Ev. unfold contracted_edge. rewrite (Hsym x y), (Hsym v y), orb_diag.
    destruct (Z.eqb_spec y v) as [->|Nyv]; [|destruct (Z.eqb_spec x v) as [->|Nxv]].
    + cbn [negb andb orb]. rewrite Z.eqb_sym, Euv. cbn [andb orb]. rewrite Hloop, !andb_false_r. reflexivity.
    + cbn [negb andb orb]. rewrite (Z.eqb_sym v u), Euv, Hloop, !andb_false_r. reflexivity.
    + cbn [negb andb orb].
      destruct (Z.eqb_spec y u) as [->|Nyu], (Z.eqb_spec x u) as [->|Nxu]; cbn [negb andb orb];
        rewrite ?orb_false_r; reflexivity.
  - rewrite nattrs_set_node_attr, Z.eqb_refl. unfold nattrs. rewrite Gu3. cbn. rewrite Hna. reflexivity.
  - rewrite nattrs_set_node_attr. rewrite (Z.eqb_sym v u), Euv, N3. unfold h2.
    rewrite nattrs_remove_node, Z.eqb_refl. reflexivity.
  - intros y Nyu Nyv. rewrite nattrs_set_node_attr. apply Z.eqb_neq in Nyu, Nyv. rewrite Nyu, N3. unfold h2.
    rewrite nattrs_remove_node, Nyv. apply N1.
Qed.

(** ------------------------------------------------------------ well-formedness is kept *)
Lemma wf_transfer g h : node_keys h = node_keys g -> (forall y x, has_edge h y x = has_edge g y x) ->
  wf_graph g -> wf_graph h.
Proof.
  intros K E [Hnd Hcl Hsym Hloop]. constructor.
  - now rewrite K.
  - intros y x H. rewrite E in H. rewrite (has_node_same_keys h g) by exact K. eauto.
  - intros y x. rewrite !E. apply Hsym.
  - intros y. rewrite E. apply Hloop.
Qed.

Lemma wf_contracted g u v h : wf_graph g -> u <> v -> has_node g u = true -> has_node g v = true ->
  node_keys h = filter (fun k => negb (Z.eqb k v)) (node_keys g) ->
  (forall y x, has_edge h y x = contracted_edge g u v y x) -> wf_graph h.
Proof.
  intros [Hnd Hcl Hsym Hloop] Huv Hu Hv K E.
  assert (HN : forall x, has_node h x = true <-> x <> v /\ has_node g x = true).
  { intros x. rewrite !has_node_keys, K, filter_In. rewrite negb_true_iff, Z.eqb_neq. tauto. }
  constructor.
  - rewrite K. apply NoDup_filter. exact Hnd.
  - intros y x H. rewrite E in H. unfold contracted_edge in H. apply HN.
    destruct (Z.eqb y v) eqn:Eyv; [discriminate|]. destruct (Z.eqb x v) eqn:Exv; [discriminate|].
    split; [now apply Z.eqb_neq|]. cbn [orb] in H.
    destruct (Z.eqb x u) eqn:Exu; [apply Z.eqb_eq in Exu; now subst x|]. rewrite andb_false_r in H. cbn [andb] in H.
    rewrite orb_false_r in H. apply orb_true_iff in H as [H|H]; [eauto|].
    apply andb_true_iff in H as [_ H]. eauto.
  - intros y x. rewrite !E. unfold contracted_edge.
    rewrite (Hsym x y), (Hsym v y), (Hsym x v).
    destruct (Z.eqb y v), (Z.eqb x v), (Z.eqb y u), (Z.eqb x u); cbn [orb andb]; try reflexivity;
      destruct (has_edge g y x), (has_edge g v x), (has_edge g y v); reflexivity.
  - intros y. rewrite E. unfold contracted_edge.
    destruct (Z.eqb_spec y v) as [->|Nyv]; [reflexivity|]. cbn [orb].
    destruct (Z.eqb_spec y u) as [->|Nyu]; cbn [andb orb]; [apply Hloop|]. rewrite Hloop. reflexivity.
Qed.

(** [squash_neighbours]: after merging v into u the kept atom is adjacent to exactly the atoms that were
    adjacent to u or to v (other than u and v themselves); an atom that was adjacent to v is now
    adjacent to u instead; nothing else changes; v is gone. *)
Theorem squash_neighbours g u v au av h : wf_graph g -> u <> v ->
  nattrs g u = Some au -> nattrs g v = Some av -> contracted squash_self_loops g u v = Ok h ->
  wf_graph h /\ has_node h v = false /\
  (forall x, x <> u -> x <> v -> has_edge h u x = has_edge g u x || has_edge g v x) /\
  has_edge h u u = false /\
  (forall y x, y <> u -> y <> v -> x <> u -> x <> v -> has_edge h y x = has_edge g y x) /\
  (forall y x, has_edge h y x = contracted_edge g u v y x).
Proof.
  intros W Huv Hu Hv Hc. change squash_self_loops with false in Hc.
  destruct (contracted_spec g u v au av W Huv Hu Hv) as (h' & Hc' & K & E & _).
  rewrite Hc in Hc'. inversion Hc'; subst h'. clear Hc'.
  assert (Hnu : has_node g u = true) by (unfold nattrs in Hu; apply has_node_gfind; destruct (gfind u g); [eauto|discriminate]).
  assert (Hnv : has_node g v = true) by (unfold nattrs in Hv; apply has_node_gfind; destruct (gfind v g); [eauto|discriminate]).
  split; [exact (wf_contracted g u v h W Huv Hnu Hnv K E)|]. split.
  - apply not_true_iff_false. rewrite has_node_keys, K, filter_In, Z.eqb_refl. cbn. intros [_ X]. discriminate.
  - destruct W as [_ _ Hsym Hloop]. repeat split.
    + intros x Nxu Nxv. rewrite E. unfold contracted_edge. apply Z.eqb_neq in Nxu, Nxv, Huv.
      rewrite Huv, Nxv, Nxu, Z.eqb_refl. cbn. rewrite orb_false_r. reflexivity.
    + rewrite E. unfold contracted_edge. apply Z.eqb_neq in Huv. rewrite Huv, Z.eqb_refl. cbn. apply Hloop.
    + intros y x A B C D. rewrite E. unfold contracted_edge. apply Z.eqb_neq in A, B, C, D.
      rewrite A, B, C, D. cbn. rewrite !orb_false_r. reflexivity.
    + exact E.
Qed.

(** ------------------------------------------------------------ membership lists *)
Lemma dict_get_set_same k v d : pyval_eqb k k = true -> dict_get k (dict_set k v d) = Some v.
Proof.
  intros R. induction d as [|[k' v'] d IH]; cbn; [now rewrite R|].
  destruct (pyval_eqb k k') eqn:E; cbn; rewrite E; [reflexivity|exact IH].
Qed.
Lemma dict_get_attrs k a : dict_get (VStr k) (map (fun kv : pystr * pyval => (VStr (fst kv), snd kv)) a) = aget k a.
Proof. induction a as [|[k' v] a IH]; cbn; [reflexivity|]. destruct (str_eqb k k'); [reflexivity|exact IH]. Qed.
Lemma store_get au v val : exists c, store_contraction au (VInt v) val = VDict c /\ dict_get (VInt v) c = Some val.
Proof.
  unfold store_contraction. destruct (aget (S "contraction") au) as [[| | | | | | |c]|];
    try (eexists; split; [reflexivity|cbn; now rewrite Z.eqb_refl]).
  eexists. split; [reflexivity|]. apply dict_get_set_same. cbn. apply Z.eqb_refl.
Qed.

Lemma concat_attr_spec h u v A c av attr a b :
  nattrs h u = Some A -> aget (S "contraction") A = Some (VDict c) ->
  dict_get (VInt v) c = Some (attrs_to_pyval av) ->
  aget attr A = Some (VList a) -> aget attr av = Some (VList b) ->
  concat_attr u v h attr = Ok (set_node_attr h u attr (VList (a ++ b))).
Proof.
  intros Hn Hc Hd Ha Hb. unfold concat_attr, node_attrs. unfold nattrs in Hn. unfold attrs_to_pyval in Hd.
  destruct (gfind u h) as [n|]; [|discriminate]. cbn in Hn. inversion Hn; subst A.
  cbn [bind]. rewrite Ha. cbn [of_option bind]. rewrite Hc. cbn [of_option bind]. rewrite Hd. cbn [of_option bind].
  rewrite dict_get_attrs, Hb. reflexivity.
Qed.

Lemma hcount_min_shape keep rm g g' : hcount_min keep rm g = Ok g' ->
  g' = g \/ exists v, g' = set_node_attr g keep squash_min_attr v.
Proof.
  unfold hcount_min. destruct (node_attrs g keep) as [n|]; cbn [bind]; [|discriminate].
  destruct (aget (S "contraction") n) as [c|]; cbn [of_option bind]; [|discriminate].
  destruct c; cbn [bind]; try discriminate.
  destruct (dict_get (VInt rm) d) as [vd|]; cbn [of_option bind]; [|discriminate].
  destruct vd; cbn [bind]; try discriminate.
  destruct (aget squash_min_attr n) as [a|]; [|intros H; inversion H; auto].
  destruct (dict_get (VStr squash_min_attr) d0) as [b|]; [|intros H; inversion H; auto].
  destruct (half_of_num a); cbn [bind]; [|discriminate]. destruct (half_of_num b); cbn [bind]; [|discriminate].
  intros H. inversion H. eauto.
Qed.
Lemma hcount_min_keeps keep rm g g' : hcount_min keep rm g = Ok g' ->
  node_keys g' = node_keys g /\ (forall y x, has_edge g' y x = has_edge g y x) /\
  (forall y, y <> keep -> nattrs g' y = nattrs g y) /\
  (forall k a, k <> squash_min_attr -> nattrs g keep = Some a -> exists a', nattrs g' keep = Some a' /\ aget k a' = aget k a).
Proof.
  intros H. destruct (hcount_min_shape _ _ _ _ H) as [->|[v ->]].
  - repeat split; auto. intros k a _ E. eauto.
  - split; [apply keys_set_node_attr|]. split; [intros; apply has_edge_set_node_attr|]. split.
    + intros y Ny. rewrite nattrs_set_node_attr. apply Z.eqb_neq in Ny. now rewrite Ny.
    + intros k a Nk E. rewrite nattrs_set_node_attr, Z.eqb_refl, E. cbn. eexists. split; [reflexivity|].
      apply aget_aset_other. exact Nk.
Qed.

(** [squash_membership]: one step of squash_atoms (contraction + the two concatenations) leaves the kept
    atom with fragid = its own list followed by the removed atom's list, likewise mapping; all other
    atoms keep their attribute dicts; adjacency as in [squash_neighbours]. *)
Theorem squash_membership g u v au av fu fv mu mv : wf_graph g -> u <> v ->
  nattrs g u = Some au -> nattrs g v = Some av ->
  aget (S "fragid") au = Some (VList fu) -> aget (S "fragid") av = Some (VList fv) ->
  aget (S "mapping") au = Some (VList mu) -> aget (S "mapping") av = Some (VList mv) ->
  hnum au -> hnum av ->
  forall sq a b bond, starts_squash bond = Ok true ->
  sq_root (sq_fuel sq) sq a = Ok u -> sq_root (sq_fuel sq) sq b = Ok v ->
  exists g2, squash_step (g, sq) (a, b, bond) = Ok (g2, sq_set v u sq) /\
    node_keys g2 = filter (fun k => negb (Z.eqb k v)) (node_keys g) /\
    (forall y x, has_edge g2 y x = contracted_edge g u v y x) /\
    (exists A, nattrs g2 u = Some A /\ aget (S "fragid") A = Some (VList (fu ++ fv))
               /\ aget (S "mapping") A = Some (VList (mu ++ mv))
               /\ (forall k, k <> S "fragid" -> k <> S "mapping" -> k <> S "contraction" -> k <> squash_min_attr ->
                           aget k A = aget k au)
               /\ aget squash_min_attr A = hcount_merged au av /\ hnum A) /\
    (forall y, y <> u -> y <> v -> nattrs g2 y = nattrs g y).
Proof.
  intros W Huv Hu Hv Fu Fv Mu Mv Hnu Hnv sq a b bond Hb Ha Hbv.
  destruct (contracted_spec g u v au av W Huv Hu Hv) as (h & Hc & K & E & Nu & _ & No).
  destruct (store_get au v (attrs_to_pyval av)) as (c & Sc & Dc).
  unfold squash_step. rewrite Hb. cbn [bind negb]. rewrite Ha, Hbv. cbn [bind].
  replace (Z.eqb u v) with false by (symmetry; now apply Z.eqb_neq).
  change squash_self_loops with false. rewrite Hc. cbn [bind].
  change squash_concat_attrs with [S "fragid"; S "mapping"]. cbn [fold_res].
  set (A0 := aset (S "contraction") (store_contraction au (VInt v) (attrs_to_pyval av)) au) in *.
  assert (C0 : aget (S "contraction") A0 = Some (VDict c)) by (unfold A0; rewrite aget_aset_same, Sc; reflexivity).
  assert (NE1 : S "fragid" <> S "contraction") by (intro X; vm_compute in X; discriminate).
  assert (NE2 : S "mapping" <> S "contraction") by (intro X; vm_compute in X; discriminate).
  assert (NE3 : S "mapping" <> S "fragid") by (intro X; vm_compute in X; discriminate).
  assert (NE4 : S "contraction" <> S "fragid") by (intro X; vm_compute in X; discriminate).
  assert (NE5 : S "fragid" <> S "mapping") by (intro X; vm_compute in X; discriminate).
  assert (NE6 : S "contraction" <> S "mapping") by (intro X; vm_compute in X; discriminate).
  rewrite (concat_attr_spec h u v A0 c av (S "fragid") fu fv Nu C0 Dc)
    by (try assumption; unfold A0; rewrite aget_aset_other by exact NE1; assumption).
  cbn [bind].
  set (h1 := set_node_attr h u (S "fragid") (VList (fu ++ fv))).
  set (A1 := aset (S "fragid") (VList (fu ++ fv)) A0).
  assert (N1 : nattrs h1 u = Some A1) by (unfold h1; rewrite nattrs_set_node_attr, Z.eqb_refl, Nu; reflexivity).
  rewrite (concat_attr_spec h1 u v A1 c av (S "mapping") mu mv N1)
    by (try assumption; unfold A1, A0; rewrite ?aget_aset_other by assumption; assumption).
  cbn [bind].
  set (h2 := set_node_attr h1 u (S "mapping") (VList (mu ++ mv))).
  set (A2 := aset (S "mapping") (VList (mu ++ mv)) A1).
  assert (N2 : nattrs h2 u = Some A2) by (unfold h2; rewrite nattrs_set_node_attr, Z.eqb_refl, N1; reflexivity).
  assert (NH1 : squash_min_attr <> S "fragid") by (intro X; vm_compute in X; discriminate).
  assert (NH2 : squash_min_attr <> S "mapping") by (intro X; vm_compute in X; discriminate).
  assert (NH3 : squash_min_attr <> S "contraction") by (intro X; vm_compute in X; discriminate).
  assert (C2 : aget (S "contraction") A2 = Some (VDict c))
    by (unfold A2, A1; rewrite !aget_aset_other by assumption; exact C0).
  assert (H2 : aget squash_min_attr A2 = aget squash_min_attr au)
    by (unfold A2, A1, A0; rewrite !aget_aset_other by assumption; reflexivity).
  (* the hcount write *)
  assert (HM : exists g3, hcount_min u v h2 = Ok g3 /\
             (g3 = h2 /\ hcount_merged au av = aget squash_min_attr au \/
              exists x, g3 = set_node_attr h2 u squash_min_attr x /\ hcount_merged au av = Some x /\
                        exists hx, half_of_num x = Ok hx)).
  { unfold hcount_min, node_attrs. unfold nattrs in N2. destruct (gfind u h2) as [n2|]; [|discriminate].
    cbn in N2. inversion N2 as [EA]. cbn [bind]. rewrite EA, C2. cbn [of_option bind].
    pose proof Dc as Dc'. unfold attrs_to_pyval in Dc'. rewrite Dc'. cbn [of_option bind].
    rewrite dict_get_attrs, H2. unfold hcount_merged, hnum in *.
    destruct (aget squash_min_attr au) as [x|]; [|eexists; split; [reflexivity|left; auto]].
    destruct (aget squash_min_attr av) as [y|]; [|eexists; split; [reflexivity|left; auto]].
    destruct Hnu as [hx Ex]. destruct Hnv as [hy Ey]. rewrite Ex, Ey. cbn [bind].
    eexists. split; [reflexivity|]. right. eexists. split; [reflexivity|]. split; [reflexivity|].
    destruct (hy <? hx); eauto. }
  destruct HM as (g3 & HM & Cases). rewrite HM. cbn [bind]. exists g3. split; [reflexivity|].
  destruct (hcount_min_keeps _ _ _ _ HM) as (K3 & E3 & O3 & _).
  split; [rewrite K3; unfold h2, h1; rewrite !keys_set_node_attr; exact K|].
  split; [intros y x; rewrite E3; unfold h2, h1; rewrite !has_edge_set_node_attr; apply E|]. split.
  - assert (Base : aget (S "fragid") A2 = Some (VList (fu ++ fv)) /\ aget (S "mapping") A2 = Some (VList (mu ++ mv)) /\
                   forall k, k <> S "fragid" -> k <> S "mapping" -> k <> S "contraction" -> aget k A2 = aget k au).
    { split; [unfold A2, A1; rewrite aget_aset_other by exact NE5; apply aget_aset_same|].
      split; [apply aget_aset_same|]. intros k X Y Z_. unfold A2, A1, A0. rewrite !aget_aset_other by assumption. reflexivity. }
    destruct Base as (BF & BM & BO).
    destruct Cases as [[-> Hm]|(x & -> & Hm & hx & Ehx)].
    + exists A2. split; [exact N2|]. split; [exact BF|]. split; [exact BM|]. split; [intros k X Y Z_ _; apply BO; assumption|].
      split; [rewrite Hm; exact H2|]. unfold hnum. rewrite H2. exact Hnu.
    + exists (aset squash_min_attr x A2). split; [rewrite nattrs_set_node_attr, Z.eqb_refl, N2; reflexivity|].
      split; [rewrite aget_aset_other by (intro X; apply NH1; now symmetry); exact BF|].
      split; [rewrite aget_aset_other by (intro X; apply NH2; now symmetry); exact BM|].
      split; [intros k X Y Z_ Q; rewrite aget_aset_other by exact Q; apply BO; assumption|].
      split; [rewrite aget_aset_same; now symmetry|]. unfold hnum. rewrite aget_aset_same. eauto.
  - intros y Nyu Nyv. rewrite (O3 y Nyu). unfold h2, h1. rewrite !nattrs_set_node_attr. apply Z.eqb_neq in Nyu. rewrite Nyu.
    apply No; [now apply Z.eqb_neq|assumption].
Qed.

(** ------------------------------------------------------------ the whole loop: node count *)
Lemma concat_attr_shape keep rm g attr g' : concat_attr keep rm g attr = Ok g' ->
  exists val, g' = set_node_attr g keep attr val.
Proof.
  unfold concat_attr. destruct (node_attrs g keep) as [n|]; cbn [bind]; [|discriminate].
  destruct (aget attr n) as [old|]; cbn [of_option bind]; [|discriminate].
  destruct (aget (S "contraction") n) as [c|]; cbn [of_option bind]; [|discriminate].
  destruct c; cbn [bind]; try discriminate.
  destruct (dict_get (VInt rm) d) as [vd|]; cbn [of_option bind]; [|discriminate].
  destruct vd; cbn [bind]; try discriminate.
  destruct (dict_get (VStr attr) d0) as [add|]; cbn [of_option bind]; [|discriminate].
  destruct old; try discriminate. destruct add; try discriminate.
  intros H. inversion H. eauto.
Qed.
Lemma concat_fold_shape keep rm l : forall g g', fold_res (concat_attr keep rm) l g = Ok g' ->
  node_keys g' = node_keys g /\ (forall y x, has_edge g' y x = has_edge g y x).
Proof.
  induction l as [|attr l IH]; intros g g' H; cbn in H; [inversion H; auto|].
  destruct (concat_attr keep rm g attr) as [g1|] eqn:E; cbn [bind] in H; [|discriminate].
  destruct (concat_attr_shape _ _ _ _ _ E) as [val ->]. destruct (IH _ _ H) as [K Ed].
  split; [rewrite K; apply keys_set_node_attr|]. intros y x. rewrite Ed. apply has_edge_set_node_attr.
Qed.

Lemma filter_remove_one (l : list Z) r : NoDup l -> In r l ->
  (length (filter (fun k => negb (Z.eqb k r)) l) + 1 = length l)%nat.
Proof.
  induction l as [|x l IH]; intros Hnd Hin; [contradiction|]. inversion Hnd as [|? ? Hx Hl]; subst. cbn.
  destruct (Z.eqb_spec x r) as [->|N]; cbn.
  - replace (filter (fun k => negb (Z.eqb k r)) l) with l; [lia|].
    clear - Hx. induction l as [|y l IH]; [reflexivity|]. cbn.
    destruct (Z.eqb_spec y r) as [->|N]; [exfalso; apply Hx; now left|]. cbn. f_equal. apply IH.
    intro H. apply Hx. now right.
  - destruct Hin as [->|Hin]; [contradiction|]. rewrite <- (IH Hl Hin). lia.
Qed.

Lemma existsb_eqb_In_ i l : existsb (Z.eqb i) l = true <-> In i l.
Proof.
  rewrite existsb_exists. split; [intros (x & Hin & E); apply Z.eqb_eq in E; now subst|].
  intros H. exists i. split; [assumption|apply Z.eqb_refl].
Qed.

(** ---- the `squashed` dict: chains only run forward, so the while loops terminate and equal one pass *)
Definition sq_keys (sq : list (Z * Z)) : list Z := map fst sq.
Definition sq_vals (sq : list (Z * Z)) : list Z := map snd sq.
Fixpoint fwd (sq : list (Z * Z)) : Prop :=
  match sq with
  | [] => True
  | (k, v) :: r => k <> v /\ ~ In k (sq_keys r) /\ ~ In k (sq_vals r) /\ fwd r
  end.

Lemma sq_find_cons k v r x : sq_find ((k, v) :: r) x = if Z.eqb k x then Some v else sq_find r x.
Proof. unfold sq_find. cbn. destruct (Z.eqb k x); reflexivity. Qed.
Lemma sq_find_vals r x w : sq_find r x = Some w -> In w (sq_vals r).
Proof.
  induction r as [|[k v] r IH]; [discriminate|]. rewrite sq_find_cons. destruct (Z.eqb k x).
  - intros H. inversion H. now left.
  - intros H. right. auto.
Qed.
Lemma sq_root_skip k v r : ~ In k (sq_vals r) -> forall f y, y <> k -> sq_root f ((k, v) :: r) y = sq_root f r y.
Proof.
  intros Hv. induction f as [|f IH]; intros y Hy; [reflexivity|]. cbn [sq_root]. rewrite sq_find_cons.
  replace (Z.eqb k y) with false by (symmetry; apply Z.eqb_neq; congruence).
  destruct (sq_find r y) as [w|] eqn:E; [|reflexivity]. apply IH. intro X. subst. apply Hv. eapply sq_find_vals; eauto.
Qed.
Lemma pass_cons k v r x : sq_pass ((k, v) :: r) x = sq_pass r (if Z.eqb x k then v else x).
Proof. reflexivity. Qed.
(** the faithful loop (with fuel) computes the one-pass root on every forward dict: it never runs out of fuel *)
Lemma sq_root_pass sq : fwd sq -> forall f x, (length sq < f)%nat -> sq_root f sq x = Ok (sq_pass sq x).
Proof.
  induction sq as [|[k v] r IH]; intros F f x Hf.
  - destruct f; [inversion Hf|]. reflexivity.
  - destruct F as (Hkv & Hk & Hv & Fr). rewrite pass_cons. cbn [length] in Hf.
    destruct (Z.eqb_spec x k) as [->|N].
    + destruct f; [inversion Hf|]. cbn [sq_root]. rewrite sq_find_cons, Z.eqb_refl.
      rewrite sq_root_skip by (auto; congruence). apply IH; [assumption|lia].
    + rewrite sq_root_skip by assumption. apply IH; [assumption|lia].
Qed.
Lemma pass_id_or_val r : forall y, sq_pass r y = y \/ In (sq_pass r y) (sq_vals r).
Proof.
  induction r as [|[k v] r IH]; intros y; [now left|]. rewrite pass_cons.
  destruct (Z.eqb y k).
  - right. destruct (IH v) as [->|H]; [now left|now right].
  - destruct (IH y) as [->|H]; [now left|right; now right].
Qed.
Lemma pass_not_key sq : fwd sq -> forall x, ~ In (sq_pass sq x) (sq_keys sq).
Proof.
  induction sq as [|[k v] r IH]; intros F x; [intros []|]. destruct F as (Hkv & Hk & Hv & Fr).
  rewrite pass_cons. intros [E|H]; [|exact (IH Fr _ H)]. cbn [fst] in E.
  destruct (Z.eqb x k) eqn:Ex.
  - destruct (pass_id_or_val r v) as [X|X]; [congruence|]. rewrite <- E in X. contradiction.
  - apply Z.eqb_neq in Ex. destruct (pass_id_or_val r x) as [X|X]; [congruence|]. rewrite <- E in X. contradiction.
Qed.
Lemma pass_pred (P : Z -> Prop) sq : (forall kv, In kv sq -> P (snd kv)) -> forall x, P x -> P (sq_pass sq x).
Proof.
  induction sq as [|[k v] r IH]; intros H x Px; [assumption|]. rewrite pass_cons.
  apply IH; [intros kv Hin; apply H; now right|]. destruct (Z.eqb x k); [apply (H (k, v)); now left|assumption].
Qed.
Lemma fwd_snoc sq rm keep : fwd sq -> rm <> keep -> ~ In rm (sq_keys sq) -> ~ In keep (sq_keys sq) ->
  fwd (sq ++ [(rm, keep)]).
Proof.
  induction sq as [|[k v] r IH]; intros F Hne Hr Hk.
  - cbn. repeat split; auto.
  - destruct F as (Hkv & Hkk & Hkv' & Fr). cbn [app fwd]. unfold sq_keys, sq_vals in *. cbn [map fst] in Hr, Hk.
    repeat split.
    + assumption.
    + rewrite map_app. intro X. apply in_app_or in X as [X|[X|[]]]; [contradiction|]. cbn in X. apply Hr. now left.
    + rewrite map_app. intro X. apply in_app_or in X as [X|[X|[]]]; [contradiction|]. cbn in X. apply Hk. now left.
    + apply IH; [assumption|assumption|intro X; apply Hr; now right|intro X; apply Hk; now right].
Qed.
Lemma sq_set_fresh rm keep sq : ~ In rm (sq_keys sq) -> sq_set rm keep sq = sq ++ [(rm, keep)].
Proof.
  induction sq as [|[k v] r IH]; intros H; [reflexivity|]. cbn.
  destruct (Z.eqb_spec rm k) as [->|N]; [exfalso; apply H; now left|]. rewrite IH; [reflexivity|].
  intro X. apply H. now right.
Qed.
Lemma zmem_In x l : zmem x l = true <-> In x l.
Proof. apply existsb_eqb_In_. Qed.

Lemma squash_merge gi keep rm g2 : wf_graph gi -> keep <> rm ->
  has_node gi keep = true -> has_node gi rm = true ->
  (g1 <- contracted squash_self_loops gi keep rm ;; g2 <- fold_res (concat_attr keep rm) squash_concat_attrs g1 ;;
   hcount_min keep rm g2) = Ok g2 ->
  wf_graph g2 /\ node_keys g2 = filter (fun k => negb (Z.eqb k rm)) (node_keys gi).
Proof.
  intros W Hne Hk Hr H.
  assert (exists au, nattrs gi keep = Some au) as [au Hu]
    by (apply has_node_gfind in Hk as [n Hn]; unfold nattrs; rewrite Hn; cbn; eauto).
  assert (exists av, nattrs gi rm = Some av) as [av Hv]
    by (apply has_node_gfind in Hr as [n Hn]; unfold nattrs; rewrite Hn; cbn; eauto).
  destruct (contracted_spec gi keep rm au av W Hne Hu Hv) as (h & Hc & K & E & _).
  change squash_self_loops with false in H. rewrite Hc in H. cbn [bind] in H.
  destruct (fold_res (concat_attr keep rm) squash_concat_attrs h) as [gc|] eqn:Cf; cbn [bind] in H; [|discriminate].
  destruct (concat_fold_shape _ _ _ _ _ Cf) as [K2 E2].
  destruct (hcount_min_keeps _ _ _ _ H) as (K3 & E3 & _).
  pose proof (wf_contracted gi keep rm h W Hne Hk Hr K E) as Wh.
  assert (Wc : wf_graph gc) by exact (wf_transfer h gc K2 E2 Wh).
  split; [exact (wf_transfer gc g2 K3 E3 Wc)|congruence].
Qed.

Definition bangs (l : list (Z * Z * pyval)) : list (Z * Z) :=
  map (fun e => (fst (fst e), snd (fst e))) (filter item_is_bang l).

Lemma squash_fold_count alive l : forall gi sq g' sq',
  wf_graph gi -> fwd sq ->
  (forall k, has_node gi k = zmem k alive && negb (zmem k (sq_keys sq))) ->
  (forall kv, In kv sq -> zmem (snd kv) alive = true) ->
  (forall e, In e l -> zmem (fst (fst e)) alive = true /\ zmem (snd (fst e)) alive = true) ->
  fold_res squash_step l (gi, sq) = Ok (g', sq') ->
  wf_graph g' /\ (length (node_keys g') + length (squash_plan sq (bangs l)) = length (node_keys gi))%nat.
Proof.
  induction l as [|[[a b] bond] l IH]; intros gi sq g' sq' W F Hal Hv Hl H.
  - cbn in H. inversion H; subst. cbn. split; [assumption|lia].
  - cbn [fold_res] in H.
    assert (Eb : bangs ((a, b, bond) :: l) =
                 match starts_squash bond with Ok true => (a, b) :: bangs l | _ => bangs l end).
    { unfold bangs. cbn [filter]. unfold item_is_bang at 1. cbn [snd].
      destruct (starts_squash bond) as [[|]|]; reflexivity. }
    rewrite Eb. clear Eb.
    assert (Hl' : forall e, In e l -> zmem (fst (fst e)) alive = true /\ zmem (snd (fst e)) alive = true)
      by (intros e He; apply Hl; now right).
    destruct (Hl (a, b, bond) (or_introl eq_refl)) as [Aa Ab]. cbn [fst snd] in Aa, Ab.
    unfold squash_step at 1 in H.
    destruct (starts_squash bond) as [[|]|] eqn:Hb; cbn [bind negb] in H.
    + (* a `!` pair *)
      rewrite !(sq_root_pass sq F) in H by (unfold sq_fuel; lia). cbn [bind] in H.
      cbn [squash_plan].
      set (keep := sq_pass sq a) in *. set (rm := sq_pass sq b) in *.
      assert (Ak : zmem keep alive = true) by (apply (pass_pred (fun z => zmem z alive = true)); assumption).
      assert (Ar : zmem rm alive = true) by (apply (pass_pred (fun z => zmem z alive = true)); assumption).
      assert (Nk : zmem keep (sq_keys sq) = false)
        by (apply not_true_iff_false; rewrite zmem_In; apply pass_not_key; assumption).
      assert (Nr : zmem rm (sq_keys sq) = false)
        by (apply not_true_iff_false; rewrite zmem_In; apply pass_not_key; assumption).
      destruct (Z.eqb_spec keep rm) as [E|Hne].
      * (* redundant pair: skipped *) exact (IH gi sq g' sq' W F Hal Hv Hl' H).
      * destruct (g1 <- contracted squash_self_loops gi keep rm ;;
                  g2 <- fold_res (concat_attr keep rm) squash_concat_attrs g1 ;; hcount_min keep rm g2) as [g2|] eqn:St.
        2:{ destruct (contracted squash_self_loops gi keep rm) as [g1|]; cbn [bind] in St, H; [|discriminate].
            destruct (fold_res (concat_attr keep rm) squash_concat_attrs g1) as [gc|]; cbn [bind] in St, H; [|discriminate].
            rewrite St in H. discriminate. }
        assert (H2 : fold_res squash_step l (g2, sq_set rm keep sq) = Ok (g', sq')).
        { destruct (contracted squash_self_loops gi keep rm) as [g1|]; cbn [bind] in St, H; [|discriminate].
          destruct (fold_res (concat_attr keep rm) squash_concat_attrs g1) as [gc|]; cbn [bind] in St, H; [|discriminate].
          rewrite St in H. exact H. }
        assert (Hk : has_node gi keep = true) by (rewrite Hal, Ak, Nk; reflexivity).
        assert (Hr : has_node gi rm = true) by (rewrite Hal, Ar, Nr; reflexivity).
        destruct (squash_merge gi keep rm g2 W Hne Hk Hr St) as [W2 K2].
        assert (Fr : ~ In rm (sq_keys sq)) by (rewrite <- zmem_In, Nr; discriminate).
        assert (Fk : ~ In keep (sq_keys sq)) by (rewrite <- zmem_In, Nk; discriminate).
        rewrite (sq_set_fresh rm keep sq Fr) in H2.
        destruct (IH g2 (sq ++ [(rm, keep)]) g' sq' W2) as [Wg Len]; try assumption.
        -- apply fwd_snoc; auto.
        -- intros k. apply Bool.eq_iff_eq_true.
           rewrite has_node_keys, K2, filter_In, <- has_node_keys, Hal. unfold sq_keys. rewrite map_app. cbn [map fst].
           unfold zmem. rewrite existsb_app. cbn [existsb]. fold (zmem k (map fst sq)). fold (sq_keys sq).
           rewrite orb_false_r, negb_orb, !andb_true_iff, !negb_true_iff. tauto.
        -- intros kv Hin. apply in_app_or in Hin as [Hin|[<-|[]]]; [auto|exact Ak].
        -- split; [exact Wg|]. rewrite K2 in Len. cbn [length].
           pose proof (filter_remove_one (node_keys gi) rm (wf_nodup _ W) (proj1 (has_node_keys _ _) Hr)) as FR. lia.
    + exact (IH gi sq g' sq' W F Hal Hv Hl' H).
    + discriminate.
Qed.

(** the items squash_atoms iterates over are edges of the graph: both ends are nodes *)
Lemma gfind_of_In g n : NoDup (node_keys g) -> In n g -> gfind (nk n) g = Some n.
Proof.
  induction g as [|m r IH]; intros Hnd Hn; [contradiction|]. cbn. inversion Hnd; subst.
  destruct Hn as [->|Hn]; [now rewrite Z.eqb_refl|].
  destruct (Z.eqb (nk m) (nk n)) eqn:E; [|auto].
  apply Z.eqb_eq in E. exfalso. apply H1. rewrite E. unfold node_keys. now apply in_map.
Qed.
Lemma edges_from_In g : forall seen u v d, In (u, v, d) (edges_from g seen) ->
  exists n, In n g /\ nk n = u /\ In (v, d) (nadj n).
Proof.
  induction g as [|n r IH]; intros seen u v d H; [contradiction|]. cbn [edges_from] in H.
  apply in_app_or in H as [H|H].
  - apply in_flat_map in H as ([w a] & Hin & Hx). cbn [fst snd] in Hx.
    destruct (existsb (Z.eqb w) seen); [contradiction|]. destruct Hx as [Hx|[]]. inversion Hx; subst.
    exists n. repeat split; [now left|assumption].
  - destruct (IH _ _ _ _ H) as (m & Hm & X). exists m. split; [now right|assumption].
Qed.
Lemma In_adj_get x a l : In (x, a) l -> exists b, adj_get x l = Some b.
Proof.
  induction l as [|[w c] l IH]; [contradiction|]. cbn. intros [H|H].
  - inversion H; subst. rewrite Z.eqb_refl. eauto.
  - destruct (Z.eqb w x); eauto.
Qed.
Lemma items_are_edges g name e : wf_graph g -> In e (edge_attr_items g name) ->
  has_node g (fst (fst e)) = true /\ has_node g (snd (fst e)) = true.
Proof.
  intros [Hnd Hcl _ _] H. unfold edge_attr_items in H. apply in_flat_map in H as ([[u v] d] & Hin & Hx).
  cbn [fst snd] in Hx. destruct (aget name d); [|contradiction]. destruct Hx as [<-|[]]. cbn [fst snd].
  destruct (edges_from_In _ _ _ _ _ Hin) as (n & Hn & <- & Hadj).
  pose proof (gfind_of_In g n Hnd Hn) as G.
  assert (E : has_edge g (nk n) v = true).
  { unfold has_edge. rewrite G. destruct (In_adj_get _ _ _ Hadj) as [b ->]. reflexivity. }
  split; [apply has_node_gfind; eauto|exact (Hcl _ _ E)].
Qed.

(** [squash_count]: for EVERY well-formed molecule graph on which squash_atoms returns, the fine graph has
    exactly one node fewer per merge of the plan — one per `!` pair, except pairs whose two ends have already
    become one atom (redundant pairs are skipped) — and it is again a well-formed simple graph.  No
    hypothesis on the shape or order of the pairs is needed any more (repaired code: root-following
    lookups are total, proved through [sq_root_pass]). *)
Theorem squash_count g g' : wf_graph g -> squash_atoms g = Ok g' ->
  wf_graph g' /\ (length g' + length (squash_plan [] (bang_items g)) = length g)%nat.
Proof.
  intros W H. unfold squash_atoms in H.
  destruct (fold_res squash_step (edge_attr_items g squash_edge_attr) (g, [])) as [[g2 sq2]|] eqn:Fd; cbn [bind fst] in H; [|discriminate].
  inversion H; subst g2. clear H.
  assert (Hal : forall k, has_node g k = zmem k (node_keys g) && negb (zmem k (sq_keys []))).
  { intros k. cbn. rewrite andb_true_r. apply Bool.eq_iff_eq_true. rewrite has_node_keys, zmem_In. tauto. }
  destruct (squash_fold_count (node_keys g) (edge_attr_items g squash_edge_attr) g [] g' sq2 W I Hal) as [Wg Len];
    [intros kv []| |exact Fd|].
  - intros e He. destruct (items_are_edges g _ e W He) as [A B].
    rewrite !zmem_In, <- !has_node_keys. auto.
  - split; [exact Wg|]. unfold node_keys in Len. rewrite !map_length in Len. exact Len.
Qed.
(** … in particular one node fewer per `!` pair when no pair is redundant (the pairs form a forest over atoms) *)
Corollary squash_count_per_pair g g' : wf_graph g -> squash_atoms g = Ok g' ->
  length (squash_plan [] (bang_items g)) = length (bang_items g) ->
  (length g' + length (bang_items g) = length g)%nat.
Proof. intros W H E. destruct (squash_count g g' W H) as [_ L]. rewrite E in L. exact L. Qed.

(** ------------------------------------------------------------ a decidable sufficient test for wf_graph *)
Lemma nodupz_NoDup l : nodupz l = true -> NoDup l.
Proof.
  induction l as [|x r IH]; cbn; [constructor|]. intros H. apply andb_true_iff in H as [A B].
  constructor; [|auto]. intro Hin. apply negb_true_iff in A.
  assert (existsb (Z.eqb x) r = true) by (apply existsb_exists; exists x; split; [assumption|apply Z.eqb_refl]). congruence.
Qed.
Lemma adj_get_In x l a : adj_get x l = Some a -> In (x, a) l.
Proof.
  induction l as [|[w b] l IH]; cbn; [discriminate|]. destruct (Z.eqb_spec w x) as [->|N].
  - intros H. inversion H. now left.
  - intros H. right. auto.
Qed.
Lemma wf_graphb_sound g : wf_graphb g = true -> wf_graph g.
Proof.
  unfold wf_graphb. intros H. apply andb_true_iff in H as [Hnd Hall].
  rewrite forallb_forall in Hall.
  assert (Key : forall y x, has_edge g y x = true ->
                has_node g x = true /\ has_edge g x y = true /\ x <> y).
  { intros y x He. unfold has_edge in He. destruct (gfind y g) as [n|] eqn:Gy; [|discriminate].
    destruct (adj_get x (nadj n)) as [a|] eqn:Ga; [|discriminate].
    pose proof (gfind_In _ _ _ Gy) as Hin. pose proof (gfind_key _ _ _ Gy) as Hk.
    specialize (Hall n Hin). rewrite forallb_forall in Hall. specialize (Hall (x, a) (adj_get_In _ _ _ Ga)).
    cbn [fst] in Hall. rewrite Hk in Hall. apply andb_true_iff in Hall as [Hall C]. apply andb_true_iff in Hall as [A B].
    repeat split; try assumption. apply negb_true_iff in C. now apply Z.eqb_neq. }
  constructor.
  - now apply nodupz_NoDup.
  - intros y x He. apply (Key y x He).
  - intros y x. destruct (has_edge g y x) eqn:A; destruct (has_edge g x y) eqn:B; try reflexivity.
    + destruct (Key y x A) as (_ & C & _). congruence.
    + destruct (Key x y B) as (_ & C & _). congruence.
  - intros y. destruct (has_edge g y y) eqn:A; [|reflexivity]. destruct (Key y y A) as (_ & _ & C). congruence.
Qed.

(** ------------------------------------------------------------ witnesses *)
Definition atom_ (k : Z) (el : pystr) (arom : bool) (hc : pyval) (frag : Z) (adj : list (Z * attrs)) : nrec :=
  {| nk := k;
     na := [(S "element", VStr el); (S "charge", VInt 0); (S "aromatic", VBool arom); (S "hcount", hc);
            (S "fragid", VList [VInt frag]); (S "mapping", VList [VTup [VStr (S "F"); VInt k]])];
     nadj := adj |}.
Definition single_ : attrs := [(S "order", VInt 1)].
Definition arom_ : attrs := [(S "order", VFlt (S "1.5"))].
Definition bang_ (o : pyval) : attrs := [(S "bonding", VTup [VStr (S "!a1"); VStr (S "!a1")]); (S "order", o)].
Definition dollar_ : attrs := [(S "bonding", VTup [VStr (S "$a1"); VStr (S "$a1")]); (S "order", VInt 1)].

(** one atom shared by three fragments in a chain A - B - C (two pairs), plus an ordinary bond *)
Definition g_chain : graph :=
  [atom_ 0 (S "C") false (VInt 3) 0 [(1, single_)];
   atom_ 1 (S "C") false (VInt 1) 0 [(0, single_); (2, bang_ (VInt 1))];
   atom_ 2 (S "C") false (VInt 2) 1 [(1, bang_ (VInt 1)); (3, bang_ (VInt 1))];
   atom_ 3 (S "C") false (VInt 2) 2 [(2, bang_ (VInt 1)); (4, single_)];
   atom_ 4 (S "O") false (VInt 0) 2 [(3, single_); (5, dollar_)];
   atom_ 5 (S "C") false (VInt 2) 3 [(4, dollar_)]].
Example squash_count_nonvacuous :
  wf_graph g_chain /\ length (bang_items g_chain) = 2%nat /\ length (squash_plan [] (bang_items g_chain)) = 2%nat /\
  exists g', squash_atoms g_chain = Ok g' /\ length g' = 4%nat /\
             node_get g' 1 (S "fragid") = Some (VList [VInt 0; VInt 1; VInt 2]) /\
             neighbors g' 1 = [0; 4].
Proof.
  split; [apply wf_graphb_sound; vm_compute; reflexivity|]. split; [vm_compute; reflexivity|].
  split; [vm_compute; reflexivity|]. eexists. split; [vm_compute; reflexivity|]. repeat split.
Qed.

(** formerly REFUTED (class redundant-squash-cycle, repaired by /repo 03eb080): three copies of one atom,
    every two joined by a `!` pair.  Now: two merges, the third pair is skipped, one atom with three
    memberships remains. *)
Definition g_triangle : graph :=
  [atom_ 0 (S "C") false (VInt 2) 0 [(1, bang_ (VInt 1)); (2, bang_ (VInt 1))];
   atom_ 1 (S "C") false (VInt 2) 1 [(0, bang_ (VInt 1)); (2, bang_ (VInt 1))];
   atom_ 2 (S "C") false (VInt 2) 2 [(0, bang_ (VInt 1)); (1, bang_ (VInt 1))]].
Example triangle_resolves :
  wf_graph g_triangle /\ length (bang_items g_triangle) = 3%nat /\ squash_plan [] (bang_items g_triangle) = [(0, 1); (0, 2)] /\
  exists g', squash_atoms g_triangle = Ok g' /\ length g' = 1%nat /\
             node_get g' 0 (S "fragid") = Some (VList [VInt 0; VInt 1; VInt 2]) /\ neighbors g' 0 = [].
Proof.
  split; [apply wf_graphb_sound; vm_compute; reflexivity|]. split; [reflexivity|]. split; [vm_compute; reflexivity|].
  eexists. split; [vm_compute; reflexivity|]. repeat split.
Qed.

(** formerly REFUTED (class stale-squashed-entry, repaired by /repo 03eb080): the hub atom 2 is shared with
    0, 1 and 3; its pairs come in the order (0,2) (1,2) (2,3): 0 is kept, then merged into 1, and the third
    pair now follows 2 -> 0 -> 1 *)
Definition g_stale : graph :=
  [atom_ 0 (S "C") false (VInt 2) 0 [(2, bang_ (VInt 1))];
   atom_ 1 (S "C") false (VInt 2) 1 [(2, bang_ (VInt 1))];
   atom_ 2 (S "C") false (VInt 0) 2 [(0, bang_ (VInt 1)); (1, bang_ (VInt 1)); (3, bang_ (VInt 1))];
   atom_ 3 (S "C") false (VInt 2) 3 [(2, bang_ (VInt 1)); (4, single_)];
   atom_ 4 (S "O") false (VInt 1) 3 [(3, single_)]].
Example stale_entry_resolves :
  wf_graph g_stale /\ squash_plan [] (bang_items g_stale) = [(0, 2); (1, 0); (1, 3)] /\
  exists g', squash_atoms g_stale = Ok g' /\ length g' = 2%nat /\
             node_get g' 1 (S "fragid") = Some (VList [VInt 1; VInt 0; VInt 2; VInt 3]) /\ neighbors g' 1 = [4].
Proof.
  split; [apply wf_graphb_sound; vm_compute; reflexivity|]. split; [vm_compute; reflexivity|].
  eexists. split; [vm_compute; reflexivity|]. repeat split.
Qed.

(** formerly REFUTED (class stale-hcount-aromatic, repaired by /repo e7bad38): toluene with the ring atom
    shared, the methyl fragment first.  The kept copy 0 had the hydrogen count 1.5 of its own fragment; it
    now gets the minimum of both copies' counts (0, the ring atom's), so bonds + hcount no longer exceed the
    valence and pysmiles' aromaticity correction keeps the atom in the ring. *)
From CGV Require Hydro.HydroCheck Hydro.SquashCheck.
Definition g_toluene : graph :=
  [atom_ 0 (S "C") true (VFlt (S "1.5")) 0 [(1, single_); (7, bang_ (VFlt (S "1.5")))];
   atom_ 1 (S "C") false (VInt 3) 0 [(0, single_)];
   atom_ 2 (S "C") true (VInt 1) 1 [(3, arom_); (7, arom_)];
   atom_ 3 (S "C") true (VInt 1) 1 [(2, arom_); (4, arom_)];
   atom_ 4 (S "C") true (VInt 1) 1 [(3, arom_); (5, arom_)];
   atom_ 5 (S "C") true (VInt 1) 1 [(4, arom_); (6, arom_)];
   atom_ 6 (S "C") true (VInt 1) 1 [(5, arom_); (7, arom_)];
   atom_ 7 (S "C") true (VInt 0) 1 [(6, arom_); (2, arom_); (0, bang_ (VFlt (S "1.5")))]].
Example toluene_resolves :
  wf_graph g_toluene /\
  exists g', squash_atoms g_toluene = Ok g' /\
             SquashCheck.stale_hcount_aromatic (observe g') = false /\
             node_get g' 0 (S "hcount") = Some (VInt 0) /\ bonds_half g' 0 = Ok 8 /\
             node_get g' 0 (S "fragid") = Some (VList [VInt 0; VInt 1]).
Proof.
  split; [apply wf_graphb_sound; vm_compute; reflexivity|].
  eexists. split; [vm_compute; reflexivity|]. repeat split.
Qed.

(** ------------------------------------------------------------ totality under typed attributes *)
(** every node carries list-valued `fragid` and `mapping` (what merge_graphs / resolve_disconnected_molecule
    establish: SquashTotal.v), and every `bonding` edge attribute is a pair whose first entry is a string *)
Definition tgood (a : attrs) : Prop :=
  (exists l, aget (S "fragid") a = Some (VList l)) /\ (exists l, aget (S "mapping") a = Some (VList l)).
Definition typed_g (g : graph) : Prop := forall i a, nattrs g i = Some a -> tgood a.
Definition hnum_g (g : graph) : Prop := forall i a, nattrs g i = Some a -> hnum a.
Definition bondings_ok (l : list (Z * Z * pyval)) : Prop := forall e, In e l -> exists b, starts_squash (snd e) = Ok b.

Lemma squash_fold_total alive l : forall gi sq,
  wf_graph gi -> fwd sq -> typed_g gi -> hnum_g gi ->
  (forall k, has_node gi k = zmem k alive && negb (zmem k (sq_keys sq))) ->
  (forall kv, In kv sq -> zmem (snd kv) alive = true) ->
  (forall e, In e l -> zmem (fst (fst e)) alive = true /\ zmem (snd (fst e)) alive = true) ->
  bondings_ok l ->
  exists g' sq', fold_res squash_step l (gi, sq) = Ok (g', sq') /\ typed_g g' /\ hnum_g g'.
Proof.
  induction l as [|[[a b] bond] l IH]; intros gi sq W F T HN Hal Hv Hl Hb.
  - exists gi, sq. split; [reflexivity|split; assumption].
  - assert (Hl' : forall e, In e l -> zmem (fst (fst e)) alive = true /\ zmem (snd (fst e)) alive = true)
      by (intros e He; apply Hl; now right).
    assert (Hb' : bondings_ok l) by (intros e He; apply Hb; now right).
    destruct (Hl (a, b, bond) (or_introl eq_refl)) as [Aa Ab]. cbn [fst snd] in Aa, Ab.
    destruct (Hb (a, b, bond) (or_introl eq_refl)) as [isb Eb]. cbn [snd] in Eb.
    cbn [fold_res]. destruct isb.
    + set (keep := sq_pass sq a). set (rm := sq_pass sq b).
      assert (Rk : sq_root (sq_fuel sq) sq a = Ok keep) by (apply sq_root_pass; [assumption|unfold sq_fuel; lia]).
      assert (Rr : sq_root (sq_fuel sq) sq b = Ok rm) by (apply sq_root_pass; [assumption|unfold sq_fuel; lia]).
      assert (Ak : zmem keep alive = true) by (apply (pass_pred (fun z => zmem z alive = true)); assumption).
      assert (Ar : zmem rm alive = true) by (apply (pass_pred (fun z => zmem z alive = true)); assumption).
      assert (Nk : zmem keep (sq_keys sq) = false)
        by (apply not_true_iff_false; rewrite zmem_In; apply pass_not_key; assumption).
      assert (Nr : zmem rm (sq_keys sq) = false)
        by (apply not_true_iff_false; rewrite zmem_In; apply pass_not_key; assumption).
      destruct (Z.eqb_spec keep rm) as [E|Hne].
      * (* redundant pair *)
        assert (St : squash_step (gi, sq) (a, b, bond) = Ok (gi, sq)).
        { unfold squash_step. rewrite Eb. cbn [bind negb]. rewrite Rk, Rr. cbn [bind]. rewrite E, Z.eqb_refl. reflexivity. }
        rewrite St. cbn [bind]. apply IH; assumption.
      * assert (Hk : has_node gi keep = true) by (rewrite Hal, Ak, Nk; reflexivity).
        assert (Hr : has_node gi rm = true) by (rewrite Hal, Ar, Nr; reflexivity).
        assert (exists au, nattrs gi keep = Some au) as [au Hu]
          by (apply has_node_gfind in Hk as [n Hn]; unfold nattrs; rewrite Hn; cbn; eauto).
        assert (exists av, nattrs gi rm = Some av) as [av Hv']
          by (apply has_node_gfind in Hr as [n Hn]; unfold nattrs; rewrite Hn; cbn; eauto).
        destruct (T keep au Hu) as [[fu Fu] [mu Mu]]. destruct (T rm av Hv') as [[fv Fv] [mv Mv]].
        destruct (squash_membership gi keep rm au av fu fv mu mv W Hne Hu Hv' Fu Fv Mu Mv (HN keep au Hu) (HN rm av Hv') sq a b bond Eb Rk Rr)
          as (g2 & St & K2 & E2 & (A & NA & FA & MA & _ & _ & HA) & O2).
        rewrite St. cbn [bind].
        assert (W2 : wf_graph g2) by (exact (wf_contracted gi keep rm g2 W Hne Hk Hr K2 E2)).
        assert (Fr : ~ In rm (sq_keys sq)) by (rewrite <- zmem_In, Nr; discriminate).
        assert (Fk : ~ In keep (sq_keys sq)) by (rewrite <- zmem_In, Nk; discriminate).
        rewrite (sq_set_fresh rm keep sq Fr). apply IH; try assumption.
        -- apply fwd_snoc; auto.
        -- intros i ai Gi. destruct (Z.eq_dec i keep) as [->|Ni].
           ++ rewrite NA in Gi. inversion Gi; subst ai. split; eauto.
           ++ destruct (Z.eq_dec i rm) as [->|Nr'].
              ** exfalso. assert (X : has_node g2 rm = true).
                 { unfold nattrs in Gi. apply has_node_gfind. destruct (gfind rm g2); [eauto|discriminate]. }
                 apply has_node_keys in X. rewrite K2 in X. apply filter_In in X as [_ X]. rewrite Z.eqb_refl in X. discriminate.
              ** rewrite O2 in Gi by assumption. exact (T i ai Gi).
        -- intros i ai Gi. destruct (Z.eq_dec i keep) as [->|Ni].
           ++ rewrite NA in Gi. inversion Gi; subst ai. exact HA.
           ++ destruct (Z.eq_dec i rm) as [->|Nr'].
              ** exfalso. assert (X : has_node g2 rm = true).
                 { unfold nattrs in Gi. apply has_node_gfind. destruct (gfind rm g2); [eauto|discriminate]. }
                 apply has_node_keys in X. rewrite K2 in X. apply filter_In in X as [_ X]. rewrite Z.eqb_refl in X. discriminate.
              ** rewrite O2 in Gi by assumption. exact (HN i ai Gi).
        -- intros k. apply Bool.eq_iff_eq_true.
           rewrite has_node_keys, K2, filter_In, <- has_node_keys, Hal. unfold sq_keys. rewrite map_app. cbn [map fst].
           unfold zmem. rewrite existsb_app. cbn [existsb]. fold (zmem k (map fst sq)). fold (sq_keys sq).
           rewrite orb_false_r, negb_orb, !andb_true_iff, !negb_true_iff. tauto.
        -- intros kv Hin. apply in_app_or in Hin as [Hin|[<-|[]]]; [auto|exact Ak].
    + assert (St : squash_step (gi, sq) (a, b, bond) = Ok (gi, sq))
        by (unfold squash_step; rewrite Eb; reflexivity).
      rewrite St. cbn [bind]. apply IH; assumption.
Qed.

(** [squash_total]: on a well-formed, typed graph squash_atoms ALWAYS returns (no KeyError / TypeError is
    left), and the count theorem applies to what it returns *)
Theorem squash_total g : wf_graph g -> typed_g g -> hnum_g g -> bondings_ok (edge_attr_items g squash_edge_attr) ->
  exists g', squash_atoms g = Ok g' /\ typed_g g' /\ wf_graph g' /\
             (length g' + length (squash_plan [] (bang_items g)) = length g)%nat.
Proof.
  intros W T HN B.
  assert (Hal : forall k, has_node g k = zmem k (node_keys g) && negb (zmem k (sq_keys []))).
  { intros k. cbn. rewrite andb_true_r. apply Bool.eq_iff_eq_true. rewrite has_node_keys, zmem_In. tauto. }
  destruct (squash_fold_total (node_keys g) (edge_attr_items g squash_edge_attr) g [] W I T HN Hal) as (g' & sq' & Fd & T' & _).
  - intros kv [].
  - intros e He. destruct (items_are_edges g _ e W He) as [A B']. rewrite !zmem_In, <- !has_node_keys. auto.
  - exact B.
  - assert (S : squash_atoms g = Ok g') by (unfold squash_atoms; rewrite Fd; reflexivity).
    exists g'. split; [exact S|]. split; [exact T'|]. exact (squash_count g g' W S).
Qed.

(** the decidable forms evaluated by the check imply the hypotheses of [squash_total] *)
Lemma bondings_okb_sound g : bondings_okb g = true -> bondings_ok (edge_attr_items g squash_edge_attr).
Proof.
  unfold bondings_okb. rewrite forallb_forall. intros H e He. specialize (H e He).
  destruct (starts_squash (snd e)) as [b|]; [eauto|discriminate].
Qed.
Lemma typed_gb_sound g : typed_gb g = true -> typed_g g.
Proof.
  unfold typed_gb. rewrite forallb_forall. intros H i a G. unfold nattrs in G.
  destruct (gfind i g) as [n|] eqn:Gi; [|discriminate]. cbn in G. inversion G; subst a.
  specialize (H n (gfind_In _ _ _ Gi)).
  destruct (aget (S "fragid") (na n)) as [[| | | | |l| |]|] eqn:Ef; cbv beta iota in H; try discriminate H.
  destruct (aget (S "mapping") (na n)) as [[| | | | |l'| |]|] eqn:Em; cbv beta iota in H; try discriminate H.
  split; [eexists; exact Ef|eexists; exact Em].
Qed.
Lemma hnum_gb_sound g : hnum_gb g = true -> hnum_g g.
Proof.
  unfold hnum_gb. rewrite forallb_forall. intros H i a G. unfold nattrs in G.
  destruct (gfind i g) as [n|] eqn:Gi; [|discriminate]. cbn in G. inversion G; subst a.
  specialize (H n (gfind_In _ _ _ Gi)). unfold hnumb in H. unfold hnum.
  destruct (aget squash_min_attr (na n)) as [v|]; [|exact I]. destruct (half_of_num v) as [h|]; [eauto|discriminate].
Qed.
