(** Hydrogens: executable model (Impl layer, NO proofs) of
      cgsmiles.pysmiles_utils.rebuild_h_atoms(mol_graph, keep_bonding, copy_attrs)
    and of the pysmiles 2.1 helpers it calls: valence / _bonds / bonds_missing / fill_valence /
    add_explicit_hydrogens.  `correct_aromatic_rings(strict=True)` is NOT modelled: the state
    right after it is a TRANSCRIPT recorded in the run (DESIGN 2.6), checked against a decidable
    contract.  Bond orders and hydrogen counts are in HALF UNITS over Z (1.5 |-> 3).
    The valence table, the attributes of a fresh hydrogen and the constants handed to pysmiles
    come from Gen/HydroGen.v (regenerated on every run). *)
From Coq Require Import String.
From Coq Require Import List Ascii ZArith Bool Lia.
From CGV Require Import Base.PyBase Base.PyVal Base.NxGraph Gen.HydroGen.
Import ListNotations.
Open Scope Z_scope.

(** ---------------------------------------------------------------- numbers in half units *)
(** a float literal "<digits>.0" or "<digits>.5" (repr of the floats that occur: 1.5, 0.0, 2.0) *)
Definition half_of_flt (r : pystr) : res Z :=
  match py_split r "."%char with
  | [a; b] =>
      if py_isdigit a then
        if str_eqb b (S "0") then Ok (2 * digits_val 0 a)
        else if str_eqb b (S "5") then Ok (2 * digits_val 0 a + 1)
        else Err EType
      else Err EType
  | _ => Err EType
  end.
Definition half_of_num (v : pyval) : res Z :=
  match v with
  | VInt z => Ok (2 * z)
  | VBool b => Ok (if b then 2 else 0)
  | VFlt r => half_of_flt r
  | _ => Err EType
  end.
(** order of an edge data dict, `data='order', default=1` *)
Definition order_half (d : attrs) : res Z :=
  match aget (S "order") d with Some v => half_of_num v | None => Ok 2 end.

Fixpoint sum_orders (l : list (Z * attrs)) : res Z :=
  match l with
  | [] => Ok 0
  | (_, d) :: r => o <- order_half d ;; s <- sum_orders r ;; Ok (o + s)
  end.
(** pysmiles._bonds(mol, n, use_order=True) = sum of the orders over mol.edges(n), in half units *)
Definition bonds_half (g : graph) (k : Z) : res Z :=
  match gfind k g with Some n => sum_orders (nadj n) | None => Err EKey end.

(** ---------------------------------------------------------------- pysmiles.valence *)
Definition to_upper (c : ascii) : ascii :=
  let n := nat_of_ascii c in if ((97 <=? n) && (n <=? 122))%nat then ascii_of_nat (n - 32) else c.
Definition to_lower (c : ascii) : ascii :=
  let n := nat_of_ascii c in if ((65 <=? n) && (n <=? 90))%nat then ascii_of_nat (n + 32) else c.
Definition capitalize (s : pystr) : pystr :=
  match s with [] => [] | c :: r => to_upper c :: map to_lower r end.

Definition table_row (e : pystr) (q : Z) : option (option (list Z)) :=
  match find (fun row => str_eqb (fst (fst row)) e && Z.eqb (snd (fst row)) q) valence_table with
  | Some row => Some (snd row)
  | None => None
  end.
Definition charge_of (a : attrs) : res Z :=
  match aget (S "charge") a with
  | None => Ok 0
  | Some (VInt q) => Ok q
  | Some (VFlt r) => h <- half_of_flt r ;; if Z.even h then Ok (h / 2) else Err EKey
  | Some _ => Err EType
  end.
(** valence(atom): [] for the wildcard; the generated table otherwise.  An (element, charge)
    outside the generated table is outside the model (EOutOfFuel marks "not modelled"). *)
Definition valence_of (a : attrs) : res (list Z) :=
  match (match aget (S "element") a with Some v => v | None => VStr (S "*") end) with
  | VStr e =>
      if str_eqb e (S "*") then Ok [] else
      q <- charge_of a ;;
      match table_row (capitalize e) q with
      | Some (Some l) => Ok l
      | Some None => Err EValue
      | None => Err EOutOfFuel
      end
  | _ => Err EAttr
  end.

(** ---------------------------------------------------------------- bonds_missing / fill_valence *)
Fixpoint last_opt {A} (l : list A) : option A :=
  match l with [] => None | [x] => Some x | _ :: r => last_opt r end.
(** `[v for v in val if v >= bonds] or val[-1:]`, first element *)
Definition pick_valence (val : list Z) (b2 : Z) : option Z :=
  match find (fun v => b2 <=? 2 * v) val with Some v => Some v | None => last_opt val end.
(** int(x) for x = d2/2: truncation toward zero *)
Definition trunc_half (d2 : Z) : Z := Z.quot d2 2.
Definition hcount_half (a : attrs) : res Z :=
  match aget (S "hcount") a with Some v => half_of_num v | None => Ok 0 end.

Definition missing_of (val : list Z) (b2 : Z) : Z :=
  match pick_valence val b2 with None => 0 | Some v => trunc_half (2 * v - b2) end.

Definition bonds_missing (g : graph) (k : Z) : res Z :=
  n <- node_attrs g k ;;
  b <- bonds_half g k ;;
  h <- hcount_half n ;;
  val <- valence_of n ;;
  Ok (missing_of val (b + h)).

Definition is_elem (e : pystr) (a : attrs) : bool :=
  match aget (S "element") a with Some (VStr s) => str_eqb s e | _ => false end.
Definition is_H (a : attrs) : bool := is_elem (S "H") a.

Definition fill_step (respect : bool) (g : graph) (k : Z) : res graph :=
  n <- node_attrs g k ;;
  if (ahas (S "hcount") n && respect) || is_H n then Ok g else
  m <- bonds_missing g k ;;
  old <- match aget (S "hcount") n with Some v => as_int v | None => Ok 0 end ;;
  Ok (set_node_attr g k (S "hcount") (VInt (old + Z.max m 0))).

Fixpoint fold_res {A B} (f : A -> B -> res A) (l : list B) (a : A) : res A :=
  match l with [] => Ok a | x :: r => a' <- f a x ;; fold_res f r a' end.

(** fill_valence(mol, respect_hcount, respect_bond_order=True) *)
Definition fill_valence (respect : bool) (g : graph) : res graph :=
  fold_res (fill_step respect) (node_keys g) g.

(** ---------------------------------------------------------------- add_explicit_hydrogens *)
Definition max_key (g : graph) : Z :=
  match node_keys g with [] => 0 | k :: r => fold_left Z.max r k end.
Definition fresh_keys (g : graph) (h : Z) : list Z :=
  map (fun i => max_key g + 1 + Z.of_nat i) (seq 0 (Z.to_nat h)).
Definition h_edge_attrs : attrs := [(S "order", VInt 1)].
Definition attach_h (g : graph) (k : Z) (idxs : list Z) : graph :=
  let g1 := fold_left (fun acc j => add_node acc j h_atom_defaults) idxs g in
  fold_left (fun acc j => add_edge acc k j h_edge_attrs) idxs g1.
Fixpoint map_res {A B} (f : A -> res B) (l : list A) : res (list B) :=
  match l with [] => Ok [] | x :: r => y <- f x ;; ys <- map_res f r ;; Ok (y :: ys) end.

Definition add_h_step (g : graph) (k : Z) : res graph :=
  n <- node_attrs g k ;;
  hc <- match aget (S "hcount") n with
        | None => Ok 0
        | Some (VInt h) => Ok h
        | Some (VBool b) => Ok (if b then 1 else 0)
        | Some _ => Err EType            (* range() of a float *)
        end ;;
  let idxs := fresh_keys g hc in
  let g3 := del_node_attr (attach_h g k idxs) k (S "hcount") in
  match aget (S "rs_isomer") n with
  | None => Ok g3
  | Some v =>
      l <- as_list v ;;
      l' <- map_res (fun x => if pyval_eqb x (VInt k)
                              then match idxs with j :: _ => Ok (VInt j) | [] => Err EIndex end
                              else Ok x) l ;;
      Ok (set_node_attr g3 k (S "rs_isomer") (VTup l'))
  end.
Definition add_explicit_hydrogens (g : graph) : res graph :=
  fold_res add_h_step (node_keys g) g.

(** ---------------------------------------------------------------- the inheritance loop *)
Definition getd (k : pystr) (a : attrs) (d : pyval) : pyval :=
  match aget k a with Some v => v | None => d end.
Definition inherit_attr (k anchor : Z) (g : graph) (attr : pystr) : res graph :=
  nn <- node_attrs g k ;;
  if ahas attr nn then Ok g else
  an <- node_attrs g anchor ;;
  Ok (set_node_attr g k attr (getd attr an VNone)).
Definition wants_inherit (n : attrs) : bool :=
  is_elem inherit_element n && negb (truthy (getd inherit_skip_attr n (VBool inherit_skip_default))).
Definition inherit_step (copy_attrs : list pystr) (g : graph) (k : Z) : res graph :=
  n <- node_attrs g k ;;
  if wants_inherit n then
    match neighbors g k with
    | [] => Err EStopIter
    | anchor :: _ => fold_res (inherit_attr k anchor) copy_attrs g
    end
  else Ok g.
Definition inherit_all (copy_attrs : list pystr) (g : graph) : res graph :=
  fold_res (inherit_step copy_attrs) (node_keys g) g.

(** ---------------------------------------------------------------- keep_bonding adjustment *)
Definition keep_bonding_step (g : graph) (kv : Z * pyval) : res graph :=
  let '(k, ops) := kv in
  l <- as_list ops ;;
  s <- fold_res (fun acc b => d <- as_str b ;; c <- py_last d ;; i <- py_int [c] ;; Ok (acc + i)) l 0 ;;
  n <- node_attrs g k ;;
  h <- of_option (aget (S "hcount") n) EKey ;;
  hz <- as_int h ;;
  Ok (set_node_attr g k (S "hcount") (VInt (hz - s))).

(** ---------------------------------------------------------------- the aromaticity transcript *)
(** Contract of `correct_aromatic_rings`: same nodes and edges in the same orders; only the node
    attribute `aromatic` and the edge attribute `order` may differ (checked on every recorded
    transcript; a library that stops honouring it shows up as a correspondence failure). *)
Definition mask (k : pystr) (a : attrs) : attrs := adel k a.
Definition nrec_same_but (n m : nrec) : bool :=
  Z.eqb (nk n) (nk m)
  && attrs_eqb (mask (S "aromatic") (na n)) (mask (S "aromatic") (na m))
  && Nat.eqb (length (nadj n)) (length (nadj m))
  && forallb (fun p => Z.eqb (fst (fst p)) (fst (snd p))
                       && attrs_eqb (mask (S "order") (snd (fst p))) (mask (S "order") (snd (snd p))))
             (combine (nadj n) (nadj m)).
Definition transcript_contract (before after : graph) : bool :=
  Nat.eqb (length before) (length after)
  && forallb (fun p => nrec_same_but (fst p) (snd p)) (combine before after)
  && forallb (fun n => ahas (S "aromatic") (na n)) after.

(** ---------------------------------------------------------------- rebuild_h_atoms *)
(** everything after the aromaticity step *)
Definition rebuild_after_car (keep_bonding : bool) (copy_attrs : list pystr) (g1 : graph) : res graph :=
  let g2 := set_all_nodes g1 rebuild_reset_attr (VInt rebuild_reset_value) in
  g3 <- fill_valence rebuild_respect_hcount g2 ;;
  g4 <- (if keep_bonding then fold_res keep_bonding_step (get_node_attributes g3 (S "bonding")) g3 else Ok g3) ;;
  g5 <- add_explicit_hydrogens g4 ;;
  inherit_all copy_attrs g5.

(** [car] = the recorded state after correct_aromatic_rings, None = it raised SyntaxError *)
Definition rebuild_h_atoms (keep_bonding : bool) (copy_attrs : list pystr) (g : graph) (car : option graph)
  : res graph :=
  match car with
  | None => Err (ESyntax (S "aromatic"))
  | Some g1 => if transcript_contract g g1 then rebuild_after_car keep_bonding copy_attrs g1 else Err EAssert
  end.
Definition rebuild_h_atoms_default := rebuild_h_atoms rebuild_keep_bonding_default rebuild_copy_attrs_default.
