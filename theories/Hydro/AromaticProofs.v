(** AromaticProofs: the modelled aromaticity step (Hydro.Aromatic.car_model) honours the contracts under which
    the theorems about rebuild_h_atoms are stated, for EVERY input graph and EVERY pair of transcripts (M, L):
      * [car_model_skeleton]   transcript_contract g g1 = true: same nodes in the same order, same keys, every
        node attribute but `aromatic` and every edge attribute but `order` untouched, adjacency lists in the same
        order, `aromatic` present on every node;
      * [car_model_arom]       arom_contractb g1 = true: every order is a number and a half-integral one (1.5) only
        joins two atoms flagged aromatic (for graphs with distinct keys whose orders are 0, 1, 1.5, 2, 3, ...);
      * [rebuild_m_is_rebuild] rebuild_h_atoms computed through the model is rebuild_h_atoms on that state. *)
From Coq Require Import String.
From Coq Require Import List Ascii ZArith Bool Lia.
From CGV Require Import Base.PyBase Base.PyVal Base.NxGraph Gen.HydroGen Gen.AromGen
     Hydro.Hydrogens Hydro.HydroDefs Hydro.Aromatic Hydro.RebuildProofs.
Import ListNotations.
Open Scope Z_scope.

(** ------------------------------------------------------------------ dict facts *)
Lemma adel_aset_same k v a : adel k (aset k v a) = adel k a.
Proof.
  induction a as [|[k' v'] r IH]; cbn.
  - now rewrite str_eqb_refl.
  - destruct (str_eqb k k') eqn:E; cbn; rewrite E; [reflexivity|now rewrite IH].
Qed.

Lemma pyval_eqb_refl : forall v, pyval_eqb v v = true.
Proof.
  fix IH 1. intros [ | b | z | r | s | l | l | d]; cbn.
  - reflexivity.
  - now destruct b.
  - apply Z.eqb_refl.
  - apply str_eqb_refl.
  - apply str_eqb_refl.
  - induction l as [|x l IHl]; [reflexivity|]. rewrite IH. exact IHl.
  - induction l as [|x l IHl]; [reflexivity|]. rewrite IH. exact IHl.
  - induction d as [|[x y] d IHd]; [reflexivity|]. rewrite !IH. exact IHd.
Qed.

Lemma attrs_eqb_ordered_refl a : attrs_eqb_ordered a a = true.
Proof. induction a as [|[k v] r IH]; cbn; [reflexivity|]. now rewrite str_eqb_refl, pyval_eqb_refl. Qed.
Lemma attrs_eqb_refl a : attrs_eqb a a = true.
Proof. apply attrs_eqb_ordered_refl. Qed.

(** ------------------------------------------------------------------ the skeleton relation *)
Definition esame (p q : Z * attrs) : Prop := fst p = fst q /\ adel k_order (snd p) = adel k_order (snd q).
Definition nsame (n m : nrec) : Prop :=
  nk n = nk m /\ adel k_arom (na n) = adel k_arom (na m) /\ Forall2 esame (nadj n) (nadj m).
Definition skel (g g' : graph) : Prop := Forall2 nsame g g'.

Lemma F2_refl {A} (R : A -> A -> Prop) : (forall x, R x x) -> forall l, Forall2 R l l.
Proof. intros H l; induction l; constructor; auto. Qed.
Lemma F2_trans {A} (R : A -> A -> Prop) :
  (forall x y z, R x y -> R y z -> R x z) -> forall a b c, Forall2 R a b -> Forall2 R b c -> Forall2 R a c.
Proof.
  intros H a b c Hab; revert c; induction Hab; intros c Hbc; inversion Hbc; subst; constructor; eauto.
Qed.
Lemma esame_trans x y z : esame x y -> esame y z -> esame x z.
Proof. intros [A B] [C D]; split; congruence. Qed.
Lemma nsame_trans x y z : nsame x y -> nsame y z -> nsame x z.
Proof.
  intros (A & B & C) (D & E & F); repeat split; try congruence.
  eapply F2_trans; eauto using esame_trans.
Qed.
Lemma skel_refl g : skel g g.
Proof.
  apply F2_refl. intros n; repeat split. apply F2_refl. intros x; split; reflexivity.
Qed.
Lemma skel_trans a b c : skel a b -> skel b c -> skel a c.
Proof. apply F2_trans, nsame_trans. Qed.

Definition fa_ok (fa : Z -> attrs -> attrs) : Prop := forall j a, adel k_arom (fa j a) = adel k_arom a.
Definition fe_ok (fe : Z -> Z -> attrs -> attrs) : Prop := forall j w d, adel k_order (fe j w d) = adel k_order d.

Lemma rewrite_skel fa fe g : fa_ok fa -> fe_ok fe -> skel g (rewrite fa fe g).
Proof.
  intros Ha He. unfold skel, rewrite. induction g as [|n r IH]; cbn; constructor; [|exact IH].
  repeat split; cbn; [now rewrite Ha|].
  induction (nadj n) as [|wa l IHl]; cbn; constructor; [|exact IHl].
  split; cbn; [reflexivity|now rewrite He].
Qed.

Lemma keep_a_ok : fa_ok keep_a. Proof. intros j a; reflexivity. Qed.
Lemma keep_e_ok : fe_ok keep_e. Proof. intros j w d; reflexivity. Qed.

Lemma reset_skel g : skel g (reset_arom g).
Proof. apply rewrite_skel; [|apply keep_e_ok]. intros j a. apply adel_aset_same. Qed.
Lemma demote_skel g : skel g (demote g).
Proof.
  apply rewrite_skel; [apply keep_a_ok|]. intros j w d. destruct (is_15 d); [apply adel_aset_same|reflexivity].
Qed.
Lemma set_order_skel g u v x : skel g (set_order g u v x).
Proof.
  apply rewrite_skel; [apply keep_a_ok|]. intros j w d. destruct (hits u v j w); [apply adel_aset_same|reflexivity].
Qed.
Lemma set_arom_skel g k : skel g (set_arom g k).
Proof.
  apply rewrite_skel; [|apply keep_e_ok]. intros j a. destruct (Z.eqb j k); [apply adel_aset_same|reflexivity].
Qed.

(** `aromatic` present on every node *)
Definition all_arom (g : graph) : Prop := Forall (fun n => ahas k_arom (na n) = true) g.
Lemma ahas_aset_same k v a : ahas k (aset k v a) = true.
Proof. unfold ahas. now rewrite aget_aset_same. Qed.
Lemma rewrite_all_arom fa fe g :
  (forall j a, ahas k_arom a = true -> ahas k_arom (fa j a) = true) -> all_arom g -> all_arom (rewrite fa fe g).
Proof.
  intros H A. unfold all_arom, rewrite in *. induction A as [|n l Hn _ IH]; [constructor|].
  rewrite map_cons. constructor; [|exact IH]. cbn [na]. apply H, Hn.
Qed.
Lemma reset_all_arom g : all_arom (reset_arom g).
Proof.
  unfold all_arom, reset_arom, rewrite. induction g as [|n g IH]; [constructor|].
  rewrite map_cons. constructor; [|exact IH]. cbn [na]. apply ahas_aset_same.
Qed.
Lemma demote_all_arom g : all_arom g -> all_arom (demote g).
Proof. apply rewrite_all_arom. auto. Qed.
Lemma set_order_all_arom g u v x : all_arom g -> all_arom (set_order g u v x).
Proof. apply rewrite_all_arom. auto. Qed.
Lemma set_arom_all_arom g k : all_arom g -> all_arom (set_arom g k).
Proof. apply rewrite_all_arom. intros j a H. destruct (Z.eqb j k); [apply ahas_aset_same|exact H]. Qed.

(** the invariant carried through the whole function *)
Definition sk (g g' : graph) : Prop := skel g g' /\ all_arom g'.
Lemma sk_step g a b : sk g a -> skel a b -> (all_arom a -> all_arom b) -> sk g b.
Proof. intros [S A] S' A'. split; [eapply skel_trans; eauto|auto]. Qed.

Lemma kekulize_sk g0 g a M :
  sk g a ->
  sk g (fold_left (fun acc e => if star_node g0 (fst e) && star_node g0 (snd e) then acc
                                else set_order acc (fst e) (snd e) (VInt 2)) M a).
Proof.
  revert a. induction M as [|e M IH]; intros a H; cbn; [exact H|]. apply IH.
  destruct (star_node g0 (fst e) && star_node g0 (snd e)); [exact H|].
  eapply sk_step; [exact H|apply set_order_skel|apply set_order_all_arom].
Qed.
Lemma set_arom_fold_sk g c : forall a, sk g a -> sk g (fold_left set_arom c a).
Proof.
  induction c as [|k c IH]; intros a H; cbn; [exact H|]. apply IH.
  eapply sk_step; [exact H|apply set_arom_skel|apply set_arom_all_arom].
Qed.
Lemma mark_edges_sk g es : forall a b, sk g a -> fold_res mark_edge es a = Ok b -> sk g b.
Proof.
  induction es as [|[u v] es IH]; intros a b H E; cbn in E; [inversion E; subst; exact H|].
  destruct (has_edge a u v && has_edge a v u && arom_flag a u && arom_flag a v); cbn in E; [|discriminate].
  eapply IH; [|exact E]. eapply sk_step; [exact H|apply set_order_skel|apply set_order_all_arom].
Qed.
Lemma mark_ring_sk g g0 a ce b : sk g a -> mark_ring g0 a ce = Ok b -> sk g b.
Proof.
  destruct ce as [c est]. unfold mark_ring. intros H E.
  destruct (negb (ring_okb g0 c est)); [discriminate|].
  eapply mark_edges_sk; [|exact E]. now apply set_arom_fold_sk.
Qed.
Lemma mark_rings_sk g g0 L : forall a b, sk g a -> fold_res (mark_ring g0) L a = Ok b -> sk g b.
Proof.
  induction L as [|ce L IH]; intros a b H E; cbn in E; [inversion E; subst; exact H|].
  destruct (mark_ring g0 a ce) as [a'|] eqn:E1; cbn in E; [|discriminate].
  eapply IH; [|exact E]. eapply mark_ring_sk; eauto.
Qed.

(** what car_model computes, once its guards are passed *)
Lemma car_model_inv strict g M L g1 : car_model strict g M L = Ok g1 ->
  exists ds, prune (demote (reset_arom g)) (map nk (filter (fun n => flagged (na n) || is_star (na n)) g)) = Ok ds /\
    matching_okb (demote (reset_arom g)) ds M = true /\
    fold_res (mark_ring (kekulize (demote (reset_arom g)) M)) L (kekulize (demote (reset_arom g)) M) = Ok g1.
Proof.
  unfold car_model. intros E.
  destruct (prune _ _) as [ds|] eqn:Ep; cbn in E; [|discriminate].
  exists ds. split; [reflexivity|].
  destruct (matching_okb (demote (reset_arom g)) ds M); cbn in E; [|discriminate].
  split; [reflexivity|].
  match type of E with (if ?c then _ else _) = _ => destruct c end; [discriminate|exact E].
Qed.

Lemma car_model_sk strict g M L g1 : car_model strict g M L = Ok g1 -> sk g g1.
Proof.
  intros E. apply car_model_inv in E as (ds & _ & _ & E).
  eapply mark_rings_sk; [|exact E]. unfold kekulize. apply kekulize_sk.
  split; [eapply skel_trans; [apply reset_skel|apply demote_skel]|apply demote_all_arom, reset_all_arom].
Qed.

(** from the relation to the boolean contract of Hydrogens *)
Lemma esame_b l m : Forall2 esame l m ->
  Nat.eqb (length l) (length m) = true /\
  forallb (fun p : (Z * attrs) * (Z * attrs) => Z.eqb (fst (fst p)) (fst (snd p))
              && attrs_eqb (mask (S "order") (snd (fst p))) (mask (S "order") (snd (snd p)))) (combine l m) = true.
Proof.
  induction 1 as [|p q l m [A B] _ [IH1 IH2]]; [split; reflexivity|].
  cbn [combine forallb length Nat.eqb fst snd]. split; [exact IH1|].
  rewrite A, Z.eqb_refl. unfold mask at 1 2. change (S "order") with k_order at 1 2. rewrite B, attrs_eqb_refl. exact IH2.
Qed.
Lemma nsame_b n m : nsame n m -> nrec_same_but n m = true.
Proof.
  intros (A & B & C). unfold nrec_same_but. rewrite A, Z.eqb_refl. unfold mask at 1 2.
  change (S "aromatic") with k_arom. rewrite B, attrs_eqb_refl.
  destruct (esame_b _ _ C) as [C1 C2]. rewrite C1. cbn [andb]. exact C2.
Qed.
Lemma sk_contract g g' : sk g g' -> transcript_contract g g' = true.
Proof.
  intros [S A]. unfold transcript_contract.
  assert (H : Nat.eqb (length g) (length g') = true /\
              forallb (fun p => nrec_same_but (fst p) (snd p)) (combine g g') = true).
  { induction S as [|n m g g' Hn _ IH]; [split; reflexivity|].
    cbn [combine forallb length Nat.eqb fst snd].
    inversion A; subst. destruct (IH H2) as [I1 I2]. split; [exact I1|]. now rewrite (nsame_b _ _ Hn). }
  destruct H as [H1 H2]. rewrite H1, H2. cbn [andb].
  apply forallb_forall. intros n Hn. unfold all_arom in A. rewrite Forall_forall in A. exact (A n Hn).
Qed.

Theorem car_model_skeleton strict g M L g1 : car_model strict g M L = Ok g1 -> transcript_contract g g1 = true.
Proof. intros E. apply sk_contract. eapply car_model_sk; eauto. Qed.

(** ------------------------------------------------------------------ the aromatic-bond contract *)
Definition edge_ok (g : graph) (n : nrec) (wa : Z * attrs) : Prop :=
  exists h, order_half (snd wa) = Ok h /\
            (Z.even h = true \/ (is_arom (na n) = true /\ arom_of g (fst wa) = true)).
Definition ainv (g : graph) : Prop := forall n, In n g -> forall wa, In wa (nadj n) -> edge_ok g n wa.
Definition all_even (g : graph) : Prop :=
  forall n, In n g -> forall wa, In wa (nadj n) -> exists h, order_half (snd wa) = Ok h /\ Z.even h = true.
(** the orders of the input: numbers, integral or 1.5 (what the CGsmiles / SMILES bond symbols give) *)
Definition orders_std (g : graph) : Prop :=
  forall n, In n g -> forall wa, In wa (nadj n) ->
    exists h, order_half (snd wa) = Ok h /\ (Z.even h = true \/ h = 3).
Definition orders_stdb (g : graph) : bool :=
  forallb (fun n => forallb (fun wa : Z * attrs =>
     match order_half (snd wa) with Ok h => Z.even h || Z.eqb h 3 | Err _ => false end) (nadj n)) g.
Lemma orders_stdb_sound g : orders_stdb g = true -> orders_std g.
Proof.
  unfold orders_stdb. intros H n Hn wa Hw. rewrite forallb_forall in H. specialize (H n Hn).
  rewrite forallb_forall in H. specialize (H wa Hw). destruct (order_half (snd wa)) as [h|]; [|discriminate].
  exists h. split; [reflexivity|]. apply orb_prop in H as [H|H]; [now left|right; now apply Z.eqb_eq].
Qed.

Lemma ainv_contract g : ainv g -> arom_contractb g = true.
Proof.
  intros H. unfold arom_contractb. apply forallb_forall. intros n Hn. apply forallb_forall. intros wa Hw.
  destruct (H n Hn wa Hw) as (h & E & [Ev|[A B]]); rewrite E; [now rewrite Ev|]. rewrite A, B. apply orb_true_r.
Qed.
Lemma even_ainv g : all_even g -> ainv g.
Proof. intros H n Hn wa Hw. destruct (H n Hn wa Hw) as (h & E & Ev). exists h. split; [exact E|now left]. Qed.

(** nodes and edges of a rewritten graph *)
Lemma rewrite_edges fa fe g n' wa' : In n' (rewrite fa fe g) -> In wa' (nadj n') ->
  exists n wa, In n g /\ In wa (nadj n) /\ nk n' = nk n /\ na n' = fa (nk n) (na n) /\
               wa' = (fst wa, fe (nk n) (fst wa) (snd wa)).
Proof.
  unfold rewrite. intros Hn Hw. apply in_map_iff in Hn as (n & <- & Hn). cbn in Hw.
  apply in_map_iff in Hw as (wa & <- & Hw). exists n, wa. cbn. auto.
Qed.
Lemma gfind_rewrite fa fe g k :
  gfind k (rewrite fa fe g) =
  match gfind k g with
  | Some n => Some {| nk := nk n; na := fa (nk n) (na n);
                      nadj := map (fun wa => (fst wa, fe (nk n) (fst wa) (snd wa))) (nadj n) |}
  | None => None
  end.
Proof.
  unfold rewrite. induction g as [|m r IH]; [reflexivity|]. cbn [map gfind nk].
  destruct (Z.eqb (nk m) k); [reflexivity|exact IH].
Qed.
Lemma node_keys_rewrite fa fe g : node_keys (rewrite fa fe g) = node_keys g.
Proof. unfold node_keys, rewrite. rewrite map_map. reflexivity. Qed.
Lemma arom_of_keep fe g k : arom_of (rewrite keep_a fe g) k = arom_of g k.
Proof. unfold arom_of. rewrite gfind_rewrite. destruct (gfind k g); reflexivity. Qed.

Lemma order_half_aset_int z d : order_half (aset k_order (VInt z) d) = Ok (2 * z).
Proof. unfold order_half. change (S "order") with k_order. now rewrite aget_aset_same. Qed.
Lemma order_half_aset_15 d : order_half (aset k_order v15 d) = Ok 3.
Proof. unfold order_half. change (S "order") with k_order. rewrite aget_aset_same. reflexivity. Qed.
Lemma not15_not3 d : is_15 d = false -> order_half d <> Ok 3.
Proof.
  unfold is_15, order_half. change (S "order") with k_order. destruct (aget k_order d) as [v|]; [|intros _ E; inversion E].
  destruct v; cbn [half_of_num]; intros H E; try discriminate.
  - destruct b; inversion E.
  - assert (E2 : 2 * z = 3) by congruence. clear -E2. lia.
  - rewrite E in H. cbn in H. discriminate.
Qed.

Lemma demote_reset_even g : orders_std g -> all_even (demote (reset_arom g)).
Proof.
  intros H n2 Hn2 wa2 Hw2. unfold demote in Hn2.
  destruct (rewrite_edges _ _ _ _ _ Hn2 Hw2) as (n1 & wa1 & Hn1 & Hw1 & _ & _ & ->).
  unfold reset_arom in Hn1. destruct (rewrite_edges _ _ _ _ _ Hn1 Hw1) as (n & wa & Hn & Hw & _ & _ & ->).
  cbn [fst snd]. unfold keep_e.
  destruct (is_15 (snd wa)) eqn:E15.
  - exists 2. split; [apply order_half_aset_int|reflexivity].
  - destruct (H n Hn wa Hw) as (h & Eh & [Ev| ->]); [exists h; auto|]. exfalso. exact (not15_not3 _ E15 Eh).
Qed.

Lemma set_order_even g u v z : Z.even (2 * z) = true -> all_even g -> all_even (set_order g u v (VInt z)).
Proof.
  intros Hz H n' Hn' wa' Hw'. destruct (rewrite_edges _ _ _ _ _ Hn' Hw') as (n & wa & Hn & Hw & _ & _ & ->).
  cbn [fst snd]. destruct (hits u v (nk n) (fst wa)); [exists (2 * z); split; [apply order_half_aset_int|exact Hz]|].
  exact (H n Hn wa Hw).
Qed.
Lemma kek_fold_even g0 M : forall a, all_even a ->
  all_even (fold_left (fun acc e => if star_node g0 (fst e) && star_node g0 (snd e) then acc
                                    else set_order acc (fst e) (snd e) (VInt 2)) M a).
Proof.
  induction M as [|e M IH]; intros a H; cbn [fold_left]; [exact H|].
  apply IH. destruct (star_node g0 (fst e) && star_node g0 (snd e)); [exact H|]. now apply set_order_even.
Qed.
Lemma kekulize_even g M : all_even g -> all_even (kekulize g M).
Proof. apply kek_fold_even. Qed.

Lemma is_arom_set a : is_arom (aset k_arom (VBool true) a) = true.
Proof. unfold is_arom, getd. change (S "aromatic") with k_arom. now rewrite aget_aset_same. Qed.

Lemma set_arom_ainv g k : ainv g -> ainv (set_arom g k).
Proof.
  intros H n' Hn' wa' Hw'. destruct (rewrite_edges _ _ _ _ _ Hn' Hw') as (n & wa & Hn & Hw & _ & Ea & ->).
  destruct (H n Hn wa Hw) as (h & Eh & C). exists h. cbn [fst snd]. unfold keep_e. split; [exact Eh|].
  destruct C as [Ev|[A B]]; [now left|right]. split.
  - rewrite Ea. destruct (Z.eqb (nk n) k); [apply is_arom_set|exact A].
  - unfold arom_of in *. unfold set_arom. rewrite gfind_rewrite. destruct (gfind (fst wa) g) as [m|]; [|discriminate].
    cbn [na]. destruct (Z.eqb (nk m) k); [apply is_arom_set|exact B].
Qed.

Lemma gfind_of_In' g n : NoDup (node_keys g) -> In n g -> gfind (nk n) g = Some n.
Proof.
  induction g as [|m r IH]; intros Hnd Hn; [contradiction|]. cbn. inversion Hnd; subst.
  destruct Hn as [->|Hn]; [now rewrite Z.eqb_refl|].
  destruct (Z.eqb_spec (nk m) (nk n)) as [E|_]; [|now apply IH].
  exfalso. apply H1. rewrite E. unfold node_keys. now apply in_map.
Qed.

Lemma mark_edge_ainv g e g' : NoDup (node_keys g) -> ainv g -> mark_edge g e = Ok g' ->
  NoDup (node_keys g') /\ ainv g'.
Proof.
  destruct e as [u v]. unfold mark_edge. intros Hnd H E.
  destruct (has_edge g u v && has_edge g v u) eqn:_E0; cbn in E; [|discriminate].
  destruct (arom_flag g u) eqn:Au; cbn in E; [|discriminate].
  destruct (arom_flag g v) eqn:Av; cbn in E; [|discriminate]. inversion E; subst g'; clear E.
  split; [unfold set_order; now rewrite node_keys_rewrite|].
  intros n' Hn' wa' Hw'. destruct (rewrite_edges _ _ _ _ _ Hn' Hw') as (n & wa & Hn & Hw & _ & Ea & ->).
  assert (AO : forall k, arom_of (set_order g u v v15) k = arom_of g k) by (intros; apply arom_of_keep).
  unfold edge_ok. cbn [fst snd]. rewrite Ea, AO. unfold keep_a.
  destruct (hits u v (nk n) (fst wa)) eqn:Eh.
  - exists 3. split; [apply order_half_aset_15|right].
    assert (An : forall x, nk n = x -> arom_flag g x = true -> is_arom (na n) = true).
    { intros x <- A. unfold arom_flag, arom_of in A. now rewrite (gfind_of_In' _ _ Hnd Hn) in A. }
    unfold hits in Eh. apply orb_prop in Eh as [Eh|Eh]; apply andb_prop in Eh as [E1 E2];
      apply Z.eqb_eq in E1; apply Z.eqb_eq in E2; rewrite E2; unfold arom_flag in *; eauto.
  - exact (H n Hn wa Hw).
Qed.
Lemma mark_edges_ainv es : forall g g', NoDup (node_keys g) -> ainv g -> fold_res mark_edge es g = Ok g' ->
  NoDup (node_keys g') /\ ainv g'.
Proof.
  induction es as [|e es IH]; intros g g' Hnd H E; cbn in E; [inversion E; subst; auto|].
  destruct (mark_edge g e) as [g1|] eqn:E1; cbn in E; [|discriminate].
  destruct (mark_edge_ainv _ _ _ Hnd H E1) as [N1 H1]. eapply IH; eauto.
Qed.
Lemma set_arom_fold_ainv c : forall g, NoDup (node_keys g) -> ainv g ->
  NoDup (node_keys (fold_left set_arom c g)) /\ ainv (fold_left set_arom c g).
Proof.
  induction c as [|k c IH]; intros g Hnd H; cbn; [auto|]. apply IH.
  - unfold set_arom. now rewrite node_keys_rewrite.
  - now apply set_arom_ainv.
Qed.
Lemma mark_rings_ainv g0 L : forall g g', NoDup (node_keys g) -> ainv g -> fold_res (mark_ring g0) L g = Ok g' ->
  NoDup (node_keys g') /\ ainv g'.
Proof.
  induction L as [|ce L IH]; intros g g' Hnd H E; cbn in E; [inversion E; subst; auto|].
  destruct (mark_ring g0 g ce) as [g1|] eqn:E1; cbn in E; [|discriminate].
  destruct ce as [c est]. unfold mark_ring in E1. destruct (negb (ring_okb g0 c est)); [discriminate|].
  destruct (set_arom_fold_ainv c g Hnd H) as [N1 H1].
  destruct (mark_edges_ainv _ _ _ N1 H1 E1) as [N2 H2]. eapply IH; eauto.
Qed.

Lemma kek_fold_keys g0 M : forall a,
  node_keys (fold_left (fun acc e => if star_node g0 (fst e) && star_node g0 (snd e) then acc
                                     else set_order acc (fst e) (snd e) (VInt 2)) M a) = node_keys a.
Proof.
  induction M as [|e M IH]; intros a; cbn [fold_left]; [reflexivity|].
  rewrite IH. destruct (star_node g0 (fst e) && star_node g0 (snd e)); [reflexivity|]. unfold set_order. apply node_keys_rewrite.
Qed.
Lemma kekulize_keys g M : node_keys (kekulize g M) = node_keys g.
Proof. apply kek_fold_keys. Qed.

Theorem car_model_arom strict g M L g1 :
  NoDup (node_keys g) -> orders_std g -> car_model strict g M L = Ok g1 ->
  arom_contractb g1 = true /\ NoDup (node_keys g1).
Proof.
  intros Hnd Ho E. apply car_model_inv in E as (ds & _ & _ & E).
  assert (N : NoDup (node_keys (kekulize (demote (reset_arom g)) M))).
  { rewrite kekulize_keys. unfold demote, reset_arom. now rewrite !node_keys_rewrite. }
  destruct (mark_rings_ainv _ _ _ _ N (even_ainv _ (kekulize_even _ M (demote_reset_even _ Ho))) E) as [N1 H1].
  split; [now apply ainv_contract|exact N1].
Qed.

(** rebuild_h_atoms computed through the model IS rebuild_h_atoms on the computed state, whose contract holds *)
Theorem rebuild_m_is_rebuild kb ca g M L g' : rebuild_h_atoms_m kb ca g M L = Ok g' ->
  exists g1, car_model rebuild_strict g M L = Ok g1 /\ transcript_contract g g1 = true /\
             rebuild_h_atoms kb ca g (Some g1) = Ok g' /\ rebuild_after_car kb ca g1 = Ok g'.
Proof.
  unfold rebuild_h_atoms_m. intros E. destruct (car_model rebuild_strict g M L) as [g1|] eqn:E1; cbn in E; [|discriminate].
  exists g1. pose proof (car_model_skeleton _ _ _ _ _ E1) as C. repeat split; auto.
  unfold rebuild_h_atoms. now rewrite C.
Qed.

(** ... so the exact valence theorem needs NO hypothesis about the aromaticity step any more: for every molecule
    graph with distinct keys, closed adjacency, no self loops and standard orders, and every answer (M, L) of the
    two enumerations, either the modelled function raises, or the state g1 it computes satisfies both contracts
    and every non-aromatic heavy atom whose bonds fit gets exactly (least fitting valence - bonds) hydrogens *)
Theorem rebuild_m_valence_exact ca g M L g' :
  NoDup (node_keys g) -> closed_g g -> noself_g g -> orders_std g ->
  rebuild_h_atoms_m false ca g M L = Ok g' ->
  exists g1, car_model rebuild_strict g M L = Ok g1 /\
    transcript_contract g g1 = true /\ arom_contractb g1 = true /\
    NoDup (node_keys g1) /\ closed_g g1 /\ noself_g g1 /\ rebuild_after_car false ca g1 = Ok g' /\
    ((forall i m, gfind i g1 = Some m -> no_rs m) ->
     forall k n val b, gfind k g1 = Some n -> is_H (na n) = false -> is_arom (na n) = false ->
       valence_of (na n) = Ok val -> sum_orders (nadj n) = Ok b -> fits val b ->
       exists v idxs n', least_fitting val b v /\ gfind k g' = Some n' /\
         nadj n' = nadj n ++ map (fun j => (j, h_edge_attrs)) idxs /\
         2 * Z.of_nat (length idxs) = 2 * v - b /\ sum_orders (nadj n') = Ok (2 * v) /\
         forall j, In j idxs -> exists h, gfind j g' = Some h /\ nadj h = [(k, h_edge_attrs)] /\ is_H (na h) = true).
Proof.
  intros Hnd Hcl Hns Ho E.
  destruct (rebuild_m_is_rebuild _ _ _ _ _ _ E) as (g1 & E1 & C & R & R').
  destruct (rebuild_h_atoms_end_to_end _ _ _ _ Hnd Hcl Hns R) as (g1' & Eq & _ & N1 & C1 & S1 & _).
  inversion Eq; subst g1'. destruct (car_model_arom _ _ _ _ _ Hnd Ho E1) as [A _].
  exists g1. repeat split; auto.
  intros Hrs k n val b G EH EA Ev Es Hf. eapply rebuild_valence_exact; eauto.
Qed.

(** ------------------------------------------------------------------ non-vacuity: benzene as a fragment writes it *)
Definition bz_node (k a b : Z) : nrec :=
  {| nk := k; na := [(S "element", VStr (S "C")); (S "aromatic", VBool true); (S "hcount", VInt 1); (S "charge", VInt 0)];
     nadj := [(a, [(S "order", VFlt (S "1.5"))]); (b, [(S "order", VFlt (S "1.5"))])] |}.
Definition benzene : graph := [bz_node 0 5 1; bz_node 1 0 2; bz_node 2 1 3; bz_node 3 2 4; bz_node 4 3 5; bz_node 5 4 0].
Definition cp_ring : graph := [bz_node 0 4 1; bz_node 1 0 2; bz_node 2 1 3; bz_node 3 2 4; bz_node 4 3 0].

Example car_model_nonvacuous :
  orders_std benzene /\ NoDup (node_keys benzene) /\
  (exists g1, car_model true benzene [(0, 1); (2, 3); (4, 5)] [([0; 1; 2; 3; 4; 5], false)] = Ok g1 /\
              arom_of g1 0 = true /\ edge_get g1 0 1 (S "order") = Some v15 /\ edge_get g1 1 0 (S "order") = Some v15 /\
              transcript_contract benzene g1 = true /\ arom_contractb g1 = true) /\
  (* without a marked ring the kekulised state stays: alternating 2 / 1, nobody aromatic *)
  (exists g1, car_model true benzene [(0, 1); (2, 3); (4, 5)] [] = Ok g1 /\ arom_of g1 0 = false /\
              edge_get g1 0 1 (S "order") = Some (VInt 2) /\ edge_get g1 1 2 (S "order") = Some (VInt 1)) /\
  (* a set of bonds that is no matching, a matching that can be extended, a ring that does not alternate: rejected *)
  car_model true benzene [(0, 1); (1, 2)] [] = Err EAssert /\
  car_model true benzene [(0, 1); (2, 3)] [] = Err EAssert /\
  car_model true benzene [(0, 1); (2, 3); (4, 5)] [([0; 1; 2], false)] = Err EAssert /\
  (* an odd ring of atoms that all need a double bond cannot be kekulised: SyntaxError when strict *)
  car_model true cp_ring [(0, 1); (2, 3)] [] = Err (ESyntax (S "kekulize")) /\
  (exists g1, car_model false cp_ring [(0, 1); (2, 3)] [] = Ok g1).
Proof.
  split; [apply orders_stdb_sound; vm_compute; reflexivity|].
  split; [repeat constructor; cbn; intuition lia|].
  split; [eexists; split; [vm_compute; reflexivity|vm_compute; repeat split; reflexivity]|].
  split; [eexists; split; [vm_compute; reflexivity|vm_compute; repeat split; reflexivity]|].
  repeat split; try (vm_compute; reflexivity).
  eexists; vm_compute; reflexivity.
Qed.
