(** ShareCutImpl: the hypotheses of ShareCutFull.share_vs_cut_resolver_full DECIDED ON WHAT THE IMPLEMENTATION READS
    (Gen/HydroCutGen.v, recorded on every run by running /repo on one description with shared atoms written with `!`,
    with `$`, and as the molecule's own cut), and the graphs the theorem speaks about identified with the graphs the
    implementation builds.  If the reader, the resolver or squash_atoms change what they produce for this input, the
    generated literals change and these examples stop compiling. *)
From Coq Require Import String.
From Coq Require Import List Ascii ZArith Bool Lia.
From CGV Require Import Base.PyBase Base.PyVal Base.NxGraph Gen.HydroCutGen Resolve.Bonding Resolve.GraphOps.
From CGV Require Import Hydro.Squash Hydro.SquashDefs Hydro.QuotientDefs Hydro.BangBonds Hydro.BangGraph.
From CGV Require Import Compose.CutModel Compose.CutPos Compose.CutSpecCheck Compose.CutSkeleton.
From CGV Require Import Hydro.ShareCut Hydro.ShareCutTotal Hydro.ShareCutFull.
Import ListNotations.
Open Scope Z_scope.

Definition iatom (e : string) (h : Z) : attrs :=
  [(S "element", VStr (S e)); (S "charge", VInt 0); (S "aromatic", VBool false); (S "hcount", VInt h)].
Definition ibd (u v : Z) (lab : string) : cbond := {| cb_u := u; cb_v := v; cb_ord := VInt 1; cb_lab := S lab; cb_dollar := true |}.
(** the molecule 1-2, 2-3, 2-4, 4-5 as its own cut, hydrogen counts as the reader gives them for the templates *)
Definition icD : cut := {|
  c_atoms := [(1, iatom "C" 3); (2, iatom "C" 3); (3, iatom "O" 2); (4, iatom "N" 3); (5, iatom "C" 4)];
  c_bonds := [ibd 1 2 ""; ibd 2 3 "a"; ibd 2 4 "b"; ibd 4 5 "c"];
  c_parts := [(S "A", [1; 2]); (S "B", [3]); (S "E", [4]); (S "F", [5])]; c_dord := [] |}.
(** atom 2 shared by three fragments: copies 2, 20, 21 *)
Definition icC : cut := {|
  c_atoms := [(1, iatom "C" 3); (2, iatom "C" 3); (20, iatom "C" 3); (3, iatom "O" 1); (21, iatom "C" 3); (4, iatom "N" 2); (5, iatom "C" 4)];
  c_bonds := [ibd 1 2 ""; ibd 2 20 "s"; ibd 20 3 ""; ibd 20 21 "t"; ibd 21 4 ""; ibd 4 5 "c"];
  c_parts := [(S "A", [1; 2]); (S "B", [20; 3]); (S "E", [21; 4]); (S "F", [5])]; c_dord := [] |}.
Definition iL : list pystr := [S "s"; S "t"].
Definition iorig (x : Z) : Z := if Z.eqb x 20 then 2 else if Z.eqb x 21 then 2 else x.

(** the hypotheses, decided on the implementation's dictionaries and base graphs *)
Example impl_hypotheses :
  wf_cutb icC = true /\ templates_okb icC cutex_dollar_fd = true /\ is_baseb icC cutex_dollar_base = true /\
  wf_dictb cutex_dollar_fd = true /\ hnum_dictb cutex_dollar_fd = true /\
  wf_cutb icD = true /\ templates_okb icD cutex_plain_fd = true /\ is_baseb icD cutex_plain_base = true /\
  expandsb icC icD iL iorig = true.
Proof. vm_compute. auto 12. Qed.
(** the `!`-written input is read as the `$`-written one with the descriptor texts of s and t rewritten *)
Example impl_bang_is_renamed_dollar :
  cutex_bang_fd = fdmap (bangify iL) cutex_dollar_fd /\ cutex_bang_base = cutex_dollar_base /\
  cutex_bang_aa = true /\ cutex_plain_aa = true.
Proof. vm_compute. auto. Qed.

Lemma impl_payloads (C : cut) : forallb (fun x =>
    match aget (S "element") (payload C x), aget (S "hcount") (payload C x) with Some _, Some (VInt _) => true | _, _ => false end) (flat C) = true ->
  forall x, In x (flat C) ->
    (exists e, aget (S "element") (payload C x) = Some e) /\ exists h, aget (S "hcount") (payload C x) = Some (VInt h).
Proof.
  intros H x Hx. rewrite forallb_forall in H. specialize (H x Hx).
  destruct (aget (S "element") (payload C x)) as [e|]; [|discriminate]. destruct (aget (S "hcount") (payload C x)) as [[]|]; try discriminate.
  split; eexists; reflexivity.
Qed.
Lemma iatom_other e h h' key v : key <> S "hcount" -> aget key (iatom e h) = Some v -> aget key (iatom e h') = Some v.
Proof.
  intros N. unfold iatom. cbn [aget fst snd].
  destruct (str_eqb key (S "element")); [exact (fun H => H)|]. destruct (str_eqb key (S "charge")); [exact (fun H => H)|].
  destruct (str_eqb key (S "aromatic")); [exact (fun H => H)|]. destruct (str_eqb_spec key (S "hcount")); [contradiction|discriminate].
Qed.
Lemma impl_same_payload : same_payload icC icD iorig.
Proof.
  intros x key v Hx N. cbn in Hx.
  repeat destruct Hx as [<-|Hx]; try contradiction; change (payload icC _) with (iatom "C" 3) || change (payload icC _) with (iatom "O" 1)
    || change (payload icC _) with (iatom "N" 2) || change (payload icC _) with (iatom "C" 4);
  change (payload icD _) with (iatom "C" 3) || change (payload icD _) with (iatom "O" 2)
    || change (payload icD _) with (iatom "N" 3) || change (payload icD _) with (iatom "C" 4); apply iatom_other; exact N.
Qed.

(** the theorem on the implementation's dictionaries; its graphs ARE the implementation's graphs *)
Theorem impl_share_vs_cut :
  exists fgs fgd,
    (st <- resolve_disconnected cutex_bang_fd cutex_bang_base ;; bonding_step true cutex_bang_aa cutex_bang_base (fst st) (snd st))
      = Ok (cutex_bang_bonded, fgs) /\
    (st <- resolve_disconnected cutex_plain_fd cutex_plain_base ;; bonding_step true cutex_plain_aa cutex_plain_base (fst st) (snd st))
      = Ok (cutex_plain_bonded, fgd) /\
    squash_atoms cutex_bang_bonded = Ok cutex_bang_squashed /\
    length cutex_bang_bonded = 7%nat /\ length cutex_bang_squashed = 5%nat /\
    (forall y, In y (node_keys cutex_bang_squashed) -> has_node cutex_plain_bonded (pi_cut icC icD iorig y) = true) /\
    (forall a, has_node cutex_plain_bonded a = true -> exists y, In y (node_keys cutex_bang_squashed) /\ pi_cut icC icD iorig y = a) /\
    (forall y x, In y (node_keys cutex_bang_squashed) -> In x (node_keys cutex_bang_squashed) ->
       pi_cut icC icD iorig y = pi_cut icC icD iorig x -> y = x) /\
    (forall y x, In y (node_keys cutex_bang_squashed) -> In x (node_keys cutex_bang_squashed) ->
       has_edge cutex_bang_squashed y x = has_edge cutex_plain_bonded (pi_cut icC icD iorig y) (pi_cut icC icD iorig x)) /\
    (forall y key v, In y (node_keys cutex_bang_squashed) -> aget key (payload icC (atom_of icC y)) = Some v ->
       ~ In key reserved -> key <> S "hcount" -> key <> S "contraction" ->
       node_get cutex_bang_squashed y key = Some v /\ node_get cutex_plain_bonded (pi_cut icC icD iorig y) key = Some v) /\
    (forall x, In x (flat icC) -> exists y l, In y (node_keys cutex_bang_squashed) /\ pi_cut icC icD iorig y = phi icD (iorig x) /\
       node_get cutex_bang_squashed y (S "fragid") = Some (VList l) /\ In (VInt (Z.of_nat (owner icC x))) l).
Proof.
  destruct impl_hypotheses as (H1 & H2 & H3 & H4 & H5 & H6 & H7 & H8 & H9).
  destruct impl_bang_is_renamed_dollar as (B1 & B2 & B3 & B4).
  destruct (share_vs_cut_resolver_full icC icD iL true iorig cutex_dollar_fd cutex_dollar_base cutex_plain_fd cutex_plain_base
              (wf_cutb_sound _ H1) (templates_okb_sound _ _ H2) (is_baseb_sound _ _ H3) (wf_dictb_sound _ H4) (hnum_dictb_sound _ H5)
              (wf_cutb_sound _ H6) (templates_okb_sound _ _ H7) (is_baseb_sound _ _ H8))
    as (gs & fgs & gd & fgd & g' & R1 & R2 & Q & L1 & L2 & A1 & A2 & A3 & A4 & A5 & A6).
  { intros _. apply impl_payloads. vm_compute. reflexivity. }
  { intros _. apply impl_payloads. vm_compute. reflexivity. }
  { apply expandsb_sound. exact H9. }
  { exact impl_same_payload. }
  rewrite <- B1, <- B2 in R1. rewrite B3. rewrite B4.
  (* the model's graphs are the recorded ones *)
  assert (E1 : gs = cutex_bang_bonded).
  { pose proof R1 as X. vm_compute in X. injection X as X _. rewrite <- X. vm_compute. reflexivity. }
  assert (E2 : gd = cutex_plain_bonded).
  { pose proof R2 as X. vm_compute in X. injection X as X _. rewrite <- X. vm_compute. reflexivity. }
  subst gs gd.
  assert (E3 : g' = cutex_bang_squashed).
  { assert (Y : squash_atoms cutex_bang_bonded = Ok cutex_bang_squashed) by (vm_compute; reflexivity). rewrite Y in Q. now inversion Q. }
  subst g'.
  exists fgs, fgd. split; [exact R1|]. split; [exact R2|]. split; [exact Q|].
  split; [vm_compute; reflexivity|]. split; [vm_compute; reflexivity|]. auto 10.
Qed.
