(** ShareProofs: the metamorphic clause of C10 on the model, for ONE shared pair.
    [shares gd gs u v v']: gs is the bonded graph of the OVERLAPPING description, gd that of the DISJOINT
    one: gs has one more node v' (the copy of end atom v inside u's fragment), bonded to u like the cut
    bond u-v that gd has instead, and joined to v by the provisional `!` bond; everything else — other
    atoms, other `$` bonds, fragment-internal bonds — is the same.  Then squash_atoms gs is gd up to
    renaming the surviving copy. *)
From Coq Require Import String.
From Coq Require Import List Ascii ZArith Bool Lia.
From CGV Require Import Base.PyBase Base.PyVal Base.NxGraph Gen.HydroGen Hydro.Hydrogens Hydro.Squash
     Hydro.GraphLemmas Hydro.SquashDefs Hydro.SquashProofs.
Import ListNotations.
Open Scope Z_scope.

Record shares (gd gs : graph) (u v v' : Z) : Prop := {
  sh_new : has_node gd v' = false;
  sh_u : has_node gd u = true;
  sh_v : has_node gd v = true;
  sh_ne : u <> v;
  sh_cut : has_edge gd u v = true;
  sh_keys : forall k, has_node gs k = has_node gd k || Z.eqb k v';
  sh_edges : forall y x, has_edge gs y x =
      if Z.eqb y v' then Z.eqb x u || Z.eqb x v
      else if Z.eqb x v' then Z.eqb y u || Z.eqb y v
      else if eqpair y x u v then false else has_edge gd y x }.

(** the surviving copy is renamed to the original *)
Definition phi (v v' z : Z) : Z := if Z.eqb z v' then v else z.

(** ---- squash_atoms with exactly one `!` pair is one contraction *)
Lemma fold_nonbang l : bangs l = [] -> forall st st', Hydrogens.fold_res squash_step l st = Ok st' -> st' = st.
Proof.
  induction l as [|[[a b] bond] l IH]; intros Hb st st' H; [cbn in H; now inversion H|].
  cbn [Hydrogens.fold_res] in H. unfold bangs in Hb. cbn [filter] in Hb. unfold item_is_bang at 1 in Hb. cbn [snd] in Hb.
  destruct st as [g sq]. unfold squash_step at 1 in H.
  destruct (starts_squash bond) as [[|]|]; cbn [bind negb] in H; try discriminate.
  exact (IH Hb _ _ H).
Qed.

Lemma squash_single g a b g' : wf_graph g -> a <> b -> bang_items g = [(a, b)] -> squash_atoms g = Ok g' ->
  node_keys g' = filter (fun k => negb (Z.eqb k b)) (node_keys g) /\
  (forall y x, has_edge g' y x = contracted_edge g a b y x) /\
  (forall y, y <> a -> y <> b -> nattrs g' y = nattrs g y).
Proof.
  intros W Hne Hb H. unfold squash_atoms in H.
  destruct (Hydrogens.fold_res squash_step (edge_attr_items g squash_edge_attr) (g, [])) as [[g2 sq2]|] eqn:Fd; cbn [bind fst] in H; [|discriminate].
  inversion H; subst g2. clear H. unfold bang_items in Hb. fold (bangs (edge_attr_items g squash_edge_attr)) in Hb.
  assert (Ends : has_node g a = true /\ has_node g b = true).
  { assert (X : In (a, b) (bangs (edge_attr_items g squash_edge_attr))) by (rewrite Hb; now left).
    unfold bangs in X. apply in_map_iff in X as (e & E & He). apply filter_In in He as [He _].
    destruct (items_are_edges g _ e W He) as [A B]. inversion E; subst. auto. }
  destruct Ends as [Ha Hbn].
  revert Fd Hb. generalize (edge_attr_items g squash_edge_attr). intros l.
  induction l as [|[[a0 b0] bond] l IH]; intros Fd Hb; [discriminate|].
  cbn [Hydrogens.fold_res] in Fd.
  assert (Eb : bangs ((a0, b0, bond) :: l) =
               match starts_squash bond with Ok true => (a0, b0) :: bangs l | _ => bangs l end).
  { unfold bangs. cbn [filter]. unfold item_is_bang at 1. cbn [snd]. destruct (starts_squash bond) as [[|]|]; reflexivity. }
  rewrite Eb in Hb. unfold squash_step at 1 in Fd.
  destruct (starts_squash bond) as [[|]|] eqn:Es; cbn [bind negb] in Fd; try discriminate.
  - injection Hb as Ea0 Eb0 H1. subst a0 b0. cbn [sq_fuel length sq_root sq_find find bind] in Fd.
    replace (Z.eqb a b) with false in Fd by (symmetry; now apply Z.eqb_neq).
    destruct (contracted squash_self_loops g a b) as [h|] eqn:C; cbn [bind] in Fd; [|discriminate].
    destruct (Hydrogens.fold_res (concat_attr a b) squash_concat_attrs h) as [gc|] eqn:Cf; cbn [bind] in Fd; [|discriminate].
    destruct (hcount_min a b gc) as [g3|] eqn:Hm; cbn [bind] in Fd; [|discriminate].
    pose proof (fold_nonbang l H1 _ _ Fd) as E. inversion E; subst g3 sq2.
    assert (exists au, nattrs g a = Some au) as [au Hu]
      by (apply has_node_gfind in Ha as [n Hn]; unfold nattrs; rewrite Hn; cbn; eauto).
    assert (exists av, nattrs g b = Some av) as [av Hv]
      by (apply has_node_gfind in Hbn as [n Hn]; unfold nattrs; rewrite Hn; cbn; eauto).
    destruct (contracted_spec g a b au av W Hne Hu Hv) as (h' & Hc & K & E' & _ & _ & O).
    change squash_self_loops with false in C. rewrite C in Hc. inversion Hc; subst h'.
    destruct (concat_fold_shape _ _ _ _ _ Cf) as [K2 E2].
    destruct (hcount_min_keeps _ _ _ _ Hm) as (K3 & E3 & O3 & _).
    split; [congruence|]. split; [intros y x; rewrite E3, E2; apply E'|].
    intros y Ny Nyb. rewrite (O3 y Ny). rewrite <- (O y Ny Nyb).
    (* the concatenations only touch node a *)
    clear - Cf Ny. revert h Cf. induction squash_concat_attrs as [|attr r IHr]; intros h Cf; cbn in Cf; [now inversion Cf|].
    destruct (concat_attr a b h attr) as [h1|] eqn:E1; cbn [bind] in Cf; [|discriminate].
    destruct (concat_attr_shape _ _ _ _ _ E1) as [val ->]. rewrite (IHr _ Cf).
    rewrite nattrs_set_node_attr. apply Z.eqb_neq in Ny. now rewrite Ny.
  - exact (IH Fd Hb).
Qed.

(** the single merge, as the step of the model *)
Lemma squash_single_step g a b g' : bang_items g = [(a, b)] -> squash_atoms g = Ok g' ->
  exists bond sq', starts_squash bond = Ok true /\ squash_step (g, []) (a, b, bond) = Ok (g', sq').
Proof.
  intros Hb H. unfold squash_atoms in H.
  destruct (Hydrogens.fold_res squash_step (edge_attr_items g squash_edge_attr) (g, [])) as [[g2 sq2]|] eqn:Fd; cbn [bind fst] in H; [|discriminate].
  inversion H; subst g2. clear H. unfold bang_items in Hb. fold (bangs (edge_attr_items g squash_edge_attr)) in Hb.
  revert Fd Hb. generalize (edge_attr_items g squash_edge_attr). intros l.
  induction l as [|[[a0 b0] bond] l IH]; intros Fd Hb; [discriminate|].
  cbn [Hydrogens.fold_res] in Fd.
  assert (Eb : bangs ((a0, b0, bond) :: l) =
               match starts_squash bond with Ok true => (a0, b0) :: bangs l | _ => bangs l end).
  { unfold bangs. cbn [filter]. unfold item_is_bang at 1. cbn [snd]. destruct (starts_squash bond) as [[|]|]; reflexivity. }
  rewrite Eb in Hb.
  destruct (starts_squash bond) as [[|]|] eqn:Es.
  - injection Hb as Ea0 Eb0 H1. subst a0 b0.
    destruct (squash_step (g, []) (a, b, bond)) as [[g3 sq3]|] eqn:St; cbn [bind] in Fd; [|discriminate].
    pose proof (fold_nonbang l H1 _ _ Fd) as E. inversion E; subst g3 sq2. exists bond, sq3. auto.
  - unfold squash_step at 1 in Fd. rewrite Es in Fd. cbn [bind negb] in Fd. exact (IH Fd Hb).
  - unfold squash_step at 1 in Fd. rewrite Es in Fd. cbn [bind] in Fd. discriminate.
Qed.

(** … whose kept atom carries both memberships and the SMALLER hydrogen count of the two copies *)
Lemma squash_single_kept g a b g' au av fu fv mu mv : wf_graph g -> a <> b -> bang_items g = [(a, b)] ->
  squash_atoms g = Ok g' -> nattrs g a = Some au -> nattrs g b = Some av ->
  aget (S "fragid") au = Some (VList fu) -> aget (S "fragid") av = Some (VList fv) ->
  aget (S "mapping") au = Some (VList mu) -> aget (S "mapping") av = Some (VList mv) -> hnum au -> hnum av ->
  exists A, nattrs g' a = Some A /\ aget (S "fragid") A = Some (VList (fu ++ fv)) /\
            aget (S "mapping") A = Some (VList (mu ++ mv)) /\ aget squash_min_attr A = hcount_merged au av.
Proof.
  intros W Hne Hb H Hu Hv Fu Fv Mu Mv Nu Nv.
  destruct (squash_single_step g a b g' Hb H) as (bond & sq' & Es & St).
  destruct (squash_membership g a b au av fu fv mu mv W Hne Hu Hv Fu Fv Mu Mv Nu Nv [] a b bond Es eq_refl eq_refl)
    as (g2 & St2 & _ & _ & (A & NA & FA & MA & _ & HA & _) & _).
  rewrite St in St2. inversion St2; subst g2. exists A. auto.
Qed.

Lemma has_node_filter g g' b : node_keys g' = filter (fun k => negb (Z.eqb k b)) (node_keys g) ->
  forall y, has_node g' y = true <-> has_node g y = true /\ y <> b.
Proof.
  intros K y. rewrite !has_node_keys, K, filter_In, negb_true_iff, Z.eqb_neq. tauto.
Qed.

(** [share_vs_cut_one]: replacing ONE cut bond u-v by sharing the end atom v (copy v' next to u, `!` pair
    v'~v, in either fragment order) resolves to the same molecule: after squash_atoms the overlapping
    graph is the disjoint graph, through the explicit atom map [phi] that renames the surviving copy —
    a bijection on nodes that preserves adjacency; atoms other than the two copies keep their attributes. *)
Theorem share_vs_cut_one gd gs u v v' a b g' : wf_graph gd -> wf_graph gs -> shares gd gs u v v' ->
  bang_items gs = [(a, b)] -> (a = v' /\ b = v) \/ (a = v /\ b = v') -> squash_atoms gs = Ok g' ->
  (forall y, has_node g' y = true -> has_node gd (phi v v' y) = true) /\
  (forall k, has_node gd k = true -> exists y, has_node g' y = true /\ phi v v' y = k) /\
  (forall y x, has_node g' y = true -> has_node g' x = true -> phi v v' y = phi v v' x -> y = x) /\
  (forall y x, has_node g' y = true -> has_node g' x = true ->
     has_edge g' y x = has_edge gd (phi v v' y) (phi v v' x)) /\
  (forall y, y <> v -> y <> v' -> nattrs g' y = nattrs gs y) /\
  (* the kept copy belongs to both coarse nodes and carries the smaller hydrogen count of the two copies *)
  (forall au av fu fv mu mv, nattrs gs a = Some au -> nattrs gs b = Some av ->
     aget (S "fragid") au = Some (VList fu) -> aget (S "fragid") av = Some (VList fv) ->
     aget (S "mapping") au = Some (VList mu) -> aget (S "mapping") av = Some (VList mv) -> hnum au -> hnum av ->
     exists A, nattrs g' a = Some A /\ aget (S "fragid") A = Some (VList (fu ++ fv)) /\
               aget (S "mapping") A = Some (VList (mu ++ mv)) /\ aget squash_min_attr A = hcount_merged au av).
Proof.
  intros Wd Ws [Hnew Hu Hv Hne Hcut Hkeys Hedges] Hb Or H.
  assert (Kept : forall au av fu fv mu mv, nattrs gs a = Some au -> nattrs gs b = Some av ->
     aget (S "fragid") au = Some (VList fu) -> aget (S "fragid") av = Some (VList fv) ->
     aget (S "mapping") au = Some (VList mu) -> aget (S "mapping") av = Some (VList mv) -> hnum au -> hnum av ->
     exists A, nattrs g' a = Some A /\ aget (S "fragid") A = Some (VList (fu ++ fv)) /\
               aget (S "mapping") A = Some (VList (mu ++ mv)) /\ aget squash_min_attr A = hcount_merged au av).
  { intros au av fu fv mu mv. apply squash_single_kept; try assumption.
    destruct Or as [[-> ->]|[-> ->]]; intro X; subst; congruence. }
  assert (Nvu : v' <> u) by (intro X; subst; congruence).
  assert (Nvv : v' <> v) by (intro X; subst; congruence).
  assert (Hab : a <> b) by (destruct Or as [[-> ->]|[-> ->]]; congruence).
  destruct (squash_single gs a b g' Ws Hab Hb H) as (K & E & O).
  pose proof (has_node_filter gs g' b K) as HN.
  pose proof (wf_sym _ Wd) as Sym. pose proof (wf_loopfree _ Wd) as Loop.
  assert (Hcut' : has_edge gd v u = true) by (rewrite Sym; exact Hcut).
  assert (InGd : forall y, has_node gs y = true -> y <> v' -> has_node gd y = true).
  { intros y Hy Ny. rewrite Hkeys in Hy. apply Z.eqb_neq in Ny. rewrite Ny, orb_false_r in Hy. exact Hy. }
  assert (NotNew : forall y, has_node gd y = true -> y <> v') by (intros y Hy X; subst; congruence).
  unfold phi.
  destruct Or as [[-> ->]|[-> ->]].
  - (* the copy v' is kept, v is removed *)
    repeat split.
    + intros y Hy. apply HN in Hy as [Hy Nyv]. destruct (Z.eqb_spec y v'); [exact Hv|auto].
    + intros k Hk. destruct (Z.eq_dec k v) as [->|Nk].
      * exists v'. split; [apply HN; split; [rewrite Hkeys, Z.eqb_refl, orb_true_r; reflexivity|exact Nvv]|].
        now rewrite Z.eqb_refl.
      * exists k. split; [apply HN; split; [rewrite Hkeys, Hk; reflexivity|exact Nk]|].
        destruct (Z.eqb_spec k v'); [exfalso; eapply NotNew; eauto|reflexivity].
    + intros y x Hy Hx. apply HN in Hy as [_ Ny]. apply HN in Hx as [_ Nx].
      destruct (Z.eqb_spec y v'), (Z.eqb_spec x v'); congruence.
    + intros y x Hy Hx. apply HN in Hy as [Hy Ny]. apply HN in Hx as [Hx Nx].
      rewrite E. unfold contracted_edge. rewrite !Hedges. unfold eqpair.
      pose proof (Loop v) as Lv. pose proof (Sym v x) as Svx. pose proof (Sym y v) as Syv. pose proof (Sym y x) as Syx.
      repeat match goal with
             | |- context [Z.eqb ?p ?q] => destruct (Z.eqb_spec p q); try congruence
             end; subst; cbn [andb orb negb];
        rewrite ?Lv, ?Hcut, ?Hcut', ?orb_false_r, ?andb_false_r, ?orb_true_r; try reflexivity; try congruence; auto.
    + intros y Ny Ny'. apply O; assumption.
    + exact Kept.
  - (* the original v is kept, the copy v' is removed *)
    repeat split.
    + intros y Hy. apply HN in Hy as [Hy Nyv]. destruct (Z.eqb_spec y v'); [contradiction|auto].
    + intros k Hk. exists k. pose proof (NotNew k Hk) as Nk. split; [apply HN; split; [rewrite Hkeys, Hk; reflexivity|exact Nk]|].
      destruct (Z.eqb_spec k v'); [contradiction|reflexivity].
    + intros y x Hy Hx. apply HN in Hy as [_ Ny]. apply HN in Hx as [_ Nx].
      destruct (Z.eqb_spec y v'), (Z.eqb_spec x v'); congruence.
    + intros y x Hy Hx. apply HN in Hy as [Hy Ny]. apply HN in Hx as [Hx Nx].
      rewrite E. unfold contracted_edge. rewrite !Hedges. unfold eqpair.
      pose proof (Loop v) as Lv. pose proof (Sym v x) as Svx. pose proof (Sym y v) as Syv. pose proof (Sym y x) as Syx.
      repeat match goal with
             | |- context [Z.eqb ?p ?q] => destruct (Z.eqb_spec p q); try congruence
             end; subst; cbn [andb orb negb];
        rewrite ?Lv, ?Hcut, ?Hcut', ?orb_false_r, ?andb_false_r, ?orb_true_r; try reflexivity; try congruence; auto.
    + intros y Ny Ny'. apply O; assumption.
    + exact Kept.
Qed.

Lemma has_node_zmem g k : has_node g k = zmem k (node_keys g).
Proof. apply Bool.eq_iff_eq_true. rewrite has_node_keys. unfold zmem. symmetry. apply existsb_eqb_In_. Qed.

(** non-vacuity: ethanol-like C0-C1-O3 cut between C0 and C1; the overlapping description puts a copy (key 2)
    of C1 next to C0, written before the original, so the COPY is the kept atom *)
Definition gd_ex : graph :=
  [atom_ 0 (S "C") false (VInt 3) 0 [(1, dollar_)];
   atom_ 1 (S "C") false (VInt 2) 1 [(0, dollar_); (3, single_)];
   atom_ 3 (S "O") false (VInt 1) 1 [(1, single_)]].
Definition gs_ex : graph :=
  [atom_ 0 (S "C") false (VInt 3) 0 [(2, single_)];
   atom_ 2 (S "C") false (VInt 2) 0 [(0, single_); (1, bang_ (VInt 1))];
   atom_ 1 (S "C") false (VInt 2) 1 [(2, bang_ (VInt 1)); (3, single_)];
   atom_ 3 (S "O") false (VInt 1) 1 [(1, single_)]].
Example share_vs_cut_one_nonvacuous :
  wf_graph gd_ex /\ wf_graph gs_ex /\ shares gd_ex gs_ex 0 1 2 /\ bang_items gs_ex = [(2, 1)] /\
  exists g', squash_atoms gs_ex = Ok g' /\ node_keys g' = [0; 2; 3] /\ neighbors g' 2 = [0; 3] /\
             node_get g' 2 (S "fragid") = Some (VList [VInt 0; VInt 1]).
Proof.
  assert (Wd : wf_graph gd_ex) by (apply wf_graphb_sound; vm_compute; reflexivity).
  assert (Ws : wf_graph gs_ex) by (apply wf_graphb_sound; vm_compute; reflexivity).
  split; [exact Wd|]. split; [exact Ws|]. split.
  - constructor; try (vm_compute; reflexivity); try discriminate.
    + intros k. rewrite !has_node_zmem.
      change (node_keys gs_ex) with [0; 2; 1; 3]. change (node_keys gd_ex) with [0; 1; 3]. unfold zmem. cbn [existsb].
      repeat match goal with |- context [Z.eqb ?p ?q] => destruct (Z.eqb_spec p q); subst; try lia end; reflexivity.
    + intros y x. rewrite <- !all_adj_dir by (apply wf_nodup; assumption).
      set (As := all_adj gs_ex). vm_compute in As. subst As. set (Ad := all_adj gd_ex). vm_compute in Ad. subst Ad.
      unfold eqpair. cbn [existsb fst snd].
      repeat match goal with |- context [Z.eqb ?p ?q] => destruct (Z.eqb_spec p q); subst; try lia end; reflexivity.
  - split; [vm_compute; reflexivity|]. eexists. split; [vm_compute; reflexivity|]. repeat split.
Qed.

(** ------------------------------------------------------------ the same relation one level up: bond creation
    For two coarse nodes A - B joined by one base edge and a single descriptor pair, the bond-creation fold
    of the resolver component (Resolve/Bonding.v, with the GENERATED [compatible]) makes exactly one bond in
    both descriptions: the `$` pair joins u and v (disjoint), the `!` pair joins the copy v' and v
    (overlapping) — the provisional bond that [share_vs_cut_one] contracts. *)
From CGV Require Import Gen.ResolveGen Resolve.Bonding Resolve.BondingDefs Resolve.BondingSpec.

Lemma compat_self legacy c t : (c = "$"%char \/ c = "!"%char) -> Compat legacy c t c t = true.
Proof.
  intros [-> | ->]; unfold Compat; destruct legacy; cbn; rewrite ?str_eqb_refl; reflexivity.
Qed.

Theorem single_pair_bond legacy arom A B x y c t o : A <> B -> (c = "$"%char \/ c = "!"%char) ->
  bond_order arom x y (c :: t) = Ok o ->
  edges_from_bonding legacy arom [(A, B, 1)] [(A, [(x, [c :: t])]); (B, [(y, [c :: t])])] []
  = Ok ([(A, [(x, [])]); (B, [(y, [])])],
        [{| b_src := A; b_tgt := B; b_u := x; b_v := y; b_d1 := c :: t; b_d2 := c :: t; b_order := o |}]).
Proof.
  intros Hne Hc Ho. cbn [edges_from_bonding Z.to_nat]. change (Pos.to_nat 1) with 1%nat. cbn [edge_loop].
  assert (EAB : Z.eqb B A = false) by (apply Z.eqb_neq; congruence).
  assert (EBA : Z.eqb A B = false) by (apply Z.eqb_neq; congruence).
  cbn [cget]. rewrite !Z.eqb_refl, EAB. cbn [bind].
  cbn [match_bonding scan_targets first_pair find_target]. rewrite compatible_spec, (compat_self legacy c t Hc). cbn [bind].
  cbn [tbl_remove cset cget remove1]. rewrite !Z.eqb_refl, ?EAB, ?EBA, ?str_eqb_refl. cbn [bind cget cset tbl_remove remove1].
  rewrite ?Z.eqb_refl, ?EAB, ?EBA, ?str_eqb_refl. cbn [bind]. rewrite Ho. cbn [bind app tbl_remove remove1].
  rewrite ?Z.eqb_refl, ?str_eqb_refl. reflexivity.
Qed.

(** the two descriptions of one cut bond: same order, ends (u, v) resp. (v', v) *)
Corollary share_vs_cut_bonds legacy arom A B u v v' lab digit o : A <> B ->
  bond_order arom u v ("$"%char :: lab ++ [digit]) = Ok o ->
  bond_order arom v' v ("!"%char :: lab ++ [digit]) = Ok o ->
  exists s1 s2,
    edges_from_bonding legacy arom [(A, B, 1)] [(A, [(u, ["$"%char :: lab ++ [digit]])]); (B, [(v, ["$"%char :: lab ++ [digit]])])] []
    = Ok (s1, [{| b_src := A; b_tgt := B; b_u := u; b_v := v; b_d1 := "$"%char :: lab ++ [digit];
                  b_d2 := "$"%char :: lab ++ [digit]; b_order := o |}]) /\
    edges_from_bonding legacy arom [(A, B, 1)] [(A, [(v', ["!"%char :: lab ++ [digit]])]); (B, [(v, ["!"%char :: lab ++ [digit]])])] []
    = Ok (s2, [{| b_src := A; b_tgt := B; b_u := v'; b_v := v; b_d1 := "!"%char :: lab ++ [digit];
                  b_d2 := "!"%char :: lab ++ [digit]; b_order := o |}]).
Proof.
  intros Hne H1 H2. do 2 eexists. split; apply single_pair_bond; auto.
Qed.
