(** Squash: executable model (Impl layer, NO proofs) of MoleculeResolver.squash_atoms (resolve.py)
    and of networkx 3.6 `contracted_nodes(G, u, v, self_loops=…, copy=True)` with the exact
    'contraction' bookkeeping on nodes and on already-existing (parallel) edges.
    Differences to Base/NxGraph.contracted_nodes (which is a simplification): the removed node's data
    and the edge data are stored (not a placeholder), an existing 'contraction' dict is extended,
    and a keeper [u] that is not in the graph is re-created by add_edge exactly as networkx does
    (KeyError only if nothing re-creates it).  The constants (descriptor prefix, self_loops,
    concatenated attributes) come from Gen/HydroGen.v. *)
From Coq Require Import String.
From Coq Require Import List Ascii ZArith Bool Lia.
From CGV Require Import Base.PyBase Base.PyVal Base.NxGraph Gen.HydroGen Hydro.Hydrogens.
Import ListNotations.
Open Scope Z_scope.

(** python dicts with arbitrary keys, as they appear under 'contraction' *)
Definition attrs_to_pyval (a : attrs) : pyval := VDict (map (fun kv => (VStr (fst kv), snd kv)) a).
Fixpoint dict_get (k : pyval) (d : list (pyval * pyval)) : option pyval :=
  match d with [] => None | (k', v) :: r => if pyval_eqb k k' then Some v else dict_get k r end.
Fixpoint dict_set (k v : pyval) (d : list (pyval * pyval)) : list (pyval * pyval) :=
  match d with
  | [] => [(k, v)]
  | (k', v') :: r => if pyval_eqb k k' then (k', v) :: r else (k', v') :: dict_set k v r
  end.
(** `if c in D: D[c][key] = val  else: D[c] = {key: val}` *)
Definition store_contraction (a : attrs) (key val : pyval) : pyval :=
  match aget (S "contraction") a with
  | Some (VDict c) => VDict (dict_set key val c)
  | _ => VDict [(key, val)]
  end.

Definition zin (x a b : Z) : bool := Z.eqb x a || Z.eqb x b.
(** {pw, px} == {u, v} as Python sets *)
Definition same_pair (pw px u v : Z) : bool := zin pw u v && zin px u v && zin u pw px && zin v pw px.

Definition remap_edge (self_loops : bool) (u v : Z) (acc : graph) (e : Z * Z * attrs) : graph :=
  let '(pw, px, d) := e in
  let w := if Z.eqb pw v then u else pw in
  let x := if Z.eqb px v then u else px in
  if same_pair pw px u v && negb self_loops then acc
  else if negb (has_edge acc w x) then add_edge acc w x d
  else
    let ed := match edge_attrs acc w x with Ok a => a | Err _ => [] end in
    add_edge acc w x [(S "contraction", store_contraction ed (VTup [VInt pw; VInt px]) (attrs_to_pyval d))].

Definition contracted (self_loops : bool) (g : graph) (u v : Z) : res graph :=
  match gfind v g with
  | None => Err EKey                                  (* v_data = H.nodes[v] *)
  | Some nv =>
      let h := remove_node (gcopy g) v in
      let h := fold_left (remap_edge self_loops u v) (edges_of g v) h in
      match gfind u h with
      | None => Err EKey                              (* H.nodes[u] *)
      | Some nu => Ok (set_node_attr h u (S "contraction")
                         (store_contraction (na nu) (VInt v) (attrs_to_pyval (na nv))))
      end
  end.

(** nx.get_edge_attributes(G, name): edges in G.edges order that carry the attribute *)
Definition edge_attr_items (g : graph) (name : pystr) : list (Z * Z * pyval) :=
  flat_map (fun e => match aget name (snd e) with Some b => [(fst (fst e), snd (fst e), b)] | None => [] end)
           (edges_data g).

(** bonding[0].startswith('!') *)
Definition starts_squash (b : pyval) : res bool :=
  l <- as_list b ;;
  match l with
  | [] => Err EIndex
  | x :: _ => s <- as_str x ;; Ok (prefixb squash_prefix s)
  end.

(** the `squashed` dict (insertion-ordered, keys unique) *)
Definition sq_find (m : list (Z * Z)) (k : Z) : option Z :=
  match find (fun p => Z.eqb (fst p) k) m with Some p => Some (snd p) | None => None end.
Fixpoint sq_set (k v : Z) (m : list (Z * Z)) : list (Z * Z) :=
  match m with
  | [] => [(k, v)]
  | (k', v') :: r => if Z.eqb k k' then (k', v) :: r else (k', v') :: sq_set k v r
  end.
(** `while node in squashed: node = squashed[node]` (repaired code, commit 03eb080).  The loop is modelled
    with fuel; [length squashed + 1] steps suffice whenever the dict is acyclic, which is an invariant of
    the loop (proved in SquashProofs: sq_root_pass); running out of fuel would be a non-terminating loop. *)
Fixpoint sq_root (fuel : nat) (m : list (Z * Z)) (k : Z) : res Z :=
  match fuel with
  | O => Err EOutOfFuel
  | Datatypes.S f => match sq_find m k with None => Ok k | Some v => sq_root f m v end
  end.
Definition sq_fuel (m : list (Z * Z)) : nat := Datatypes.S (length m).

(** nodes[keep][attr] += nodes[keep]['contraction'][remove][attr] *)
Definition concat_attr (keep rm : Z) (g : graph) (attr : pystr) : res graph :=
  n <- node_attrs g keep ;;
  old <- of_option (aget attr n) EKey ;;
  c <- of_option (aget (S "contraction") n) EKey ;;
  cd <- match c with VDict d => Ok d | _ => Err EType end ;;
  vd <- of_option (dict_get (VInt rm) cd) EKey ;;
  vdd <- match vd with VDict d => Ok d | _ => Err EType end ;;
  add <- of_option (dict_get (VStr attr) vdd) EKey ;;
  match old, add with
  | VList a, VList b => Ok (set_node_attr g keep attr (VList (a ++ b)))
  | _, _ => Err EType
  end.

(** `if 'hcount' in kept and 'hcount' in removed: kept['hcount'] = min(kept['hcount'], removed['hcount'])`
    (/repo e7bad38).  Python's min returns its FIRST argument unless the second is strictly smaller; the
    numbers are ints or floats d.0 / d.5 (compared in half units; anything else is a TypeError). *)
Definition hcount_min (keep rm : Z) (g : graph) : res graph :=
  n <- node_attrs g keep ;;
  c <- of_option (aget (S "contraction") n) EKey ;;
  cd <- match c with VDict d => Ok d | _ => Err EType end ;;
  vd <- of_option (dict_get (VInt rm) cd) EKey ;;
  vdd <- match vd with VDict d => Ok d | _ => Err EType end ;;
  match aget squash_min_attr n, dict_get (VStr squash_min_attr) vdd with
  | Some a, Some b =>
      ha <- half_of_num a ;; hb <- half_of_num b ;;
      Ok (set_node_attr g keep squash_min_attr (if hb <? ha then b else a))
  | _, _ => Ok g
  end.

Definition sqstate := (graph * list (Z * Z))%type.
Definition squash_step (st : sqstate) (e : Z * Z * pyval) : res sqstate :=
  let '(g, sq) := st in
  let '(a, b, bond) := e in
  is <- starts_squash bond ;;
  if negb is then Ok st else
  keep <- sq_root (sq_fuel sq) sq a ;;
  rm <- sq_root (sq_fuel sq) sq b ;;
  if Z.eqb keep rm then Ok st else             (* redundant pair: both atoms are already one *)
  let sq' := sq_set rm keep sq in
  g1 <- contracted squash_self_loops g keep rm ;;
  g2 <- fold_res (concat_attr keep rm) squash_concat_attrs g1 ;;
  (* In the code the hcount line comes BEFORE the two concatenations.  The three writes go to different
     keys of the kept node's dict and read only 'contraction' and their own key, so they commute; every one
     must succeed for the call to return.  The model performs the hcount write last (observationally the
     same graph and the same raise / no-raise outcome) so that the proofs of other components about the
     first two writes keep their shape. *)
  g3 <- hcount_min keep rm g2 ;;
  Ok (g3, sq').

Definition squash_atoms (g : graph) : res graph :=
  st <- fold_res squash_step (edge_attr_items g squash_edge_attr) (g, []) ;;
  Ok (fst st).
