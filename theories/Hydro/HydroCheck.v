(** HydroCheck: property C09 as an executable predicate on what the IMPLEMENTATION returned
    ([prop_fail], 0 = holds) and the correspondence of the Hydrogens model with the recorded call
    of rebuild_h_atoms ([corr_ok]).  Imports only the model, never a proof file.

    Reading of C09 that is encoded (DESIGN 3/C09):
    * judged atoms: element <> H, (element, charge) has a row in the GENERATED pysmiles valence table,
      and b := sum of the orders of its bonds to non-H atoms (1.5 per aromatic bond, as pysmiles
      counts) is at most the largest valence of the row;
    * then with v := the least valence of the row with v >= b:  #attached H = v - b and the orders of
      all incident bonds add up to v.  If b is half-integral (an odd number of aromatic bonds, e.g.
      ring-fusion atoms) v - b is not an integer: pysmiles takes int(v - b); the predicate then
      demands #H = floor(v - b) and the sum within half a unit of v — but ONLY for atoms flagged aromatic;
      a half-integral bond sum on a non-aromatic atom (a left-over 1.5 order) violates "orders add up";
    * every H has degree exactly 1 (order 1);
    * a hydrogen that was ADDED by the completion (it does not come from a fragment: no `mapping`
      attribute) carries its anchor's fragid, fragname and weight; hydrogens written explicitly
      (they come from a fragment, incl. single-H fragments) keep their own;
    * explicitly written hydrogens present before the completion are still present afterwards. *)
From Coq Require Import String.
From Coq Require Import List Ascii ZArith Bool.
From Coq Require Import Floats.PrimFloat.
From CGV Require Import Base.PyBase Base.PyVal Base.NxGraph Gen.HydroGen Hydro.Hydrogens Hydro.HydroDefs Hydro.Fragments Hydro.Aromatic.
Import ListNotations.
Open Scope Z_scope.

(** ------------------------------------------------------------ observed graphs *)
Definition onode (o : obs_graph) (k : Z) : option attrs :=
  match find (fun p => Z.eqb (fst p) k) (fst o) with Some p => Some (snd p) | None => None end.
(** incident edges of k as (neighbour, data); a self loop is reported once *)
Definition oadj (o : obs_graph) (k : Z) : list (Z * attrs) :=
  flat_map (fun e => let '(u, v, d) := e in
                     if Z.eqb u k then [(v, d)] else if Z.eqb v k then [(u, d)] else []) (snd o).
Definition o_isH (o : obs_graph) (k : Z) : bool :=
  match onode o k with Some a => is_H a | None => false end.

Definition half_or0 (d : attrs) : Z := match order_half d with Ok z => z | Err _ => 0 end.
Definition sum_half (l : list (Z * attrs)) : Z := fold_left (fun acc p => acc + half_or0 (snd p)) l 0.

Definition max_list (l : list Z) : Z := fold_left Z.max l 0.
Definition least_ge (val : list Z) (b2 : Z) : option Z := find (fun v => b2 <=? 2 * v) val.

(** the valence row of a node; None = not judged *)
Definition row_of (a : attrs) : option (list Z) :=
  match valence_of a with Ok (x :: l) => Some (x :: l) | _ => None end.

(** per heavy atom: 0 = fine / not judged, 1 = wrong hydrogen count, 2 = orders do not add up *)
Definition check_atom (o : obs_graph) (k : Z) (a : attrs) : nat :=
  if is_H a then 0%nat else
  match row_of a with
  | None => 0%nat
  | Some val =>
      let adj := oadj o k in
      (* bonds to OTHER non-hydrogen atoms: an entry of the atom for itself (self-loop) is no bond of the molecule;
         it is reported by [self_loops] *)
      let heavy := filter (fun p => negb (o_isH o (fst p)) && negb (Z.eqb (fst p) k)) adj in
      let hs := filter (fun p => o_isH o (fst p)) adj in
      let b2 := sum_half heavy in
      if 2 * max_list val <? b2 then 0%nat else
      (* a half-integral bond sum is the aromatic convention (1.5 per aromatic bond): it is only accepted on an
         atom that is flagged aromatic; on any other atom the orders cannot add up to a valence *)
      if negb (Z.even b2) && negb (truthy (getd (S "aromatic") a (VBool false))) then 2%nat else
      match least_ge val b2 with
      | None => 0%nat
      | Some v =>
          let want2 := 2 * v - b2 in                       (* missing, half units *)
          let nh := Z.of_nat (length hs) in
          if negb (Z.eqb nh (Z.div want2 2)) then 1%nat
          else
            let tot := b2 + sum_half hs in
            if Z.even b2 then (if Z.eqb tot (2 * v) then 0%nat else 2%nat)
            else (if Z.eqb tot (2 * v - 1) then 0%nat else 2%nat)
      end
  end.

(** the three attributes the PROPERTY names (fixed here; not the code's default argument) *)
Definition c09_attrs : list pystr := [S "fragid"; S "fragname"; S "weight"].
Definition has_mapping (a : attrs) : bool := ahas (S "mapping") a.
(** Python's ==: 1.0 == 1 (a weight read from a fragment string is a float, a default weight an int) *)
Definition val_eqb (x y : pyval) : bool :=
  pyval_eqb x y || match half_of_num x, half_of_num y with Ok a, Ok b => Z.eqb a b | _, _ => false end.
Definition same_attr (k : pystr) (a b : attrs) : bool :=
  match aget k a, aget k b with
  | Some x, Some y => val_eqb x y
  | None, None => true
  | Some VNone, None => true        (* the loop stores None when the anchor lacks the attribute *)
  | _, _ => false
  end.
(** a hydrogen that was written in a fragment (it carries `mapping`) may keep its OWN membership instead of its
    anchor's -- a single-hydrogen fragment is a fragment of its own -- but then consistently: one coarse node, whose
    name (when the coarse graph of the run is known: [coarse], node key -> fragname) is the hydrogen's fragname, and
    every mapping entry names that fragment *)
Definition entry_names (fn : pystr) (m : pyval) : bool :=
  match m with
  | VTup (VStr n :: _) | VList (VStr n :: _) => str_eqb n fn
  | _ => false
  end.
Definition own_fragment (coarse : list (Z * pystr)) (a : attrs) : bool :=
  match aget (S "mapping") a, aget (S "fragid") a, aget (S "fragname") a with
  | Some (VList (m :: ms)), Some (VList [VInt k]), Some (VStr fn) =>
      forallb (entry_names fn) (m :: ms) &&
      match coarse with
      | [] => true
      | _ => match find (fun p => Z.eqb (fst p) k) coarse with Some p => str_eqb (snd p) fn | None => false end
      end
  | _, _, _ => false
  end.
(** per hydrogen: 3 = degree is not one (or bond order not 1), 4 = neither its own fragment nor the anchor's membership *)
Definition check_h (coarse : list (Z * pystr)) (o : obs_graph) (k : Z) (a : attrs) : nat :=
  if negb (is_H a) then 0%nat else
  match oadj o k with
  | [(anchor, d)] =>
      if negb (Z.eqb (half_or0 d) 2) then 3%nat
      else match onode o anchor with
           | None => 3%nat
           | Some an =>
               if forallb (fun attr => same_attr attr a an) c09_attrs then 0%nat
               else if has_mapping a && own_fragment coarse a then 0%nat else 4%nat
           end
  | _ => 3%nat
  end.

Fixpoint first_fail (l : list nat) : nat := match l with [] => 0%nat | 0%nat :: r => first_fail r | n :: _ => n end.

(** explicit hydrogens (they come from a fragment: they carry `mapping`) present before the completion
    must still be there afterwards, identified by (mapping, fragid) (5), with their own fragname / weight (6) *)
Definition find_explicit (final : list (Z * attrs)) (m f : pyval) : option attrs :=
  match find (fun p => is_H (snd p) && pyval_eqb (getd (S "mapping") (snd p) VNone) m
                       && pyval_eqb (getd (S "fragid") (snd p) VNone) f) final with
  | Some p => Some (snd p) | None => None end.
Definition same_attr_strict (k : pystr) (a b : attrs) : bool :=
  match aget k a, aget k b with
  | Some x, Some y => pyval_eqb x y
  | None, None => true
  | _, _ => false
  end.
Definition check_explicit (final : list (Z * attrs)) (a : attrs) : nat :=
  if is_H a && has_mapping a then
    match find_explicit final (getd (S "mapping") a VNone) (getd (S "fragid") a VNone) with
    | None => 5%nat
    | Some b => if forallb (fun attr => same_attr_strict attr a b) c09_attrs then 0%nat else 6%nat
    end
  else 0%nat.
Definition explicit_kept (before final : list (Z * attrs)) : nat :=
  first_fail (map (fun p => check_explicit final (snd p)) before).

(** 7 = an atom is its own neighbour *)
Definition self_loops (o : obs_graph) : bool :=
  existsb (fun p => existsb (fun q => Z.eqb (fst q) (fst p)) (oadj o (fst p))) (fst o).
Definition holds_C09 (coarse : list (Z * pystr)) (before : list (Z * attrs)) (final : obs_graph) : nat :=
  if self_loops final then 7%nat else
  match first_fail (map (fun p => check_atom final (fst p) (snd p)) (fst final)) with
  | 0%nat =>
      match first_fail (map (fun p => check_h coarse final (fst p) (snd p)) (fst final)) with
      | 0%nat => explicit_kept before (fst final)
      | n => n
      end
  | n => n
  end.

(** ------------------------------------------------------------ direct validation of the helper models *)
(** one call of a modelled helper with what the library / the implementation returned (None = raised) *)
Inductive extra :=
| XValence (a : attrs) (r : option (list Z))
| XMissing (g : graph) (k : Z) (r : option Z)
| XFill (respect : bool) (g : graph) (r : option obs_graph)
| XAddH (g : graph) (r : option obs_graph)
| XRemoveH (g : graph) (r : option obs_graph)
| XFragment (g0 : graph) (name : pystr) (bonding : list (Z * pyval)) (ez : list (Z * pyval))
            (attributes : list (Z * attrs)) (r : option obs_graph)
| XMass (g : graph) (car : option graph) (r : option float)
(** a direct call of pysmiles' correct_aromatic_rings(g, strict) with the two recorded enumeration answers *)
| XCar (strict : bool) (g : graph) (M : list (Z * Z)) (L : list (list Z * bool)) (r : option obs_graph)
(** a direct call of rebuild_h_atoms(g, keep_bonding, copy_attrs), aromaticity step computed by the model *)
| XRebuild (kb : bool) (ca : list pystr) (g : graph) (M : list (Z * Z)) (L : list (list Z * bool)) (r : option obs_graph).

Fixpoint zlist_eqb (a b : list Z) : bool :=
  match a, b with [], [] => true | x :: a', y :: b' => Z.eqb x y && zlist_eqb a' b' | _, _ => false end.
Definition graph_res_ok (m : res graph) (r : option obs_graph) : bool :=
  match m, r with
  | Ok g, Some o => obs_eqb (observe g) o
  | Err _, None => true
  | _, _ => false
  end.
Definition extra_ok (x : extra) : bool :=
  match x with
  | XValence a r => match valence_of a, r with Ok l, Some l' => zlist_eqb l l' | Err _, None => true | _, _ => false end
  | XMissing g k r => match bonds_missing g k, r with Ok z, Some z' => Z.eqb z z' | Err _, None => true | _, _ => false end
  | XFill respect g r => graph_res_ok (fill_valence respect g) r
  | XAddH g r => graph_res_ok (add_explicit_hydrogens g) r
  | XRemoveH g r => graph_res_ok (remove_explicit_hydrogens g) r
  | XFragment g0 name b ez ats r => graph_res_ok (read_fragment_post g0 name b ez ats) r
  | XMass g car r => match compute_mass g car, r with
                     | Ok f, Some f' => PrimFloat.eqb f f'
                     | Err _, None => true
                     | _, _ => false
                     end
  | XCar strict g M L r => graph_res_ok (car_model strict g M L) r
  | XRebuild kb ca g M L r => graph_res_ok (rebuild_h_atoms_m kb ca g M L) r
  end.

(** ------------------------------------------------------------ cases *)
(** c_before: molecule when rebuild_h_atoms is entered; c_car: recorded state right after
    correct_aromatic_rings (None = SyntaxError); c_after: molecule when rebuild_h_atoms returned
    (None = it raised); c_final: the molecule returned by resolve_all / sample (None = a later
    step raised or the case is outside the property's domain, then nothing is judged);
    c_skip: the input never reached rebuild_h_atoms. *)
Record case := { c_skip : bool; c_before : graph; c_car : option graph;
                 c_after : option obs_graph; c_final : option obs_graph; c_extra : list extra;
                 c_nocorr : bool; c_coarse : list (Z * pystr);
                 c_match : list (Z * Z); c_rings : list (list Z * bool) }.
(** c_match / c_rings: the two answers of networkx' enumeration inside correct_aromatic_rings that the model
    Hydro.Aromatic takes as transcripts (the kekulisation matching; the rings dekekulize marked, with the flag
    `estimated`).  From them the model COMPUTES the state after the aromaticity step; it must equal c_car. *)
(** c_coarse: the coarse graph returned with c_final, node key -> fragname ([] when the run has none: sampler) *)
(** c_nocorr: the implementation called rebuild_h_atoms in a way the model does not cover (arguments other
    than the defaults, or without calling correct_aromatic_rings): the model is not compared on this case,
    but the PROPERTY is still judged on the molecule that was returned. *)

(** the transcript must satisfy the contracts under which the theorems are stated: same skeleton
    ([transcript_contract], also enforced inside the model) and a 1.5 order only between two aromatic atoms
    ([arom_contractb], hypothesis of C09_rebuild_valence_exact) *)
Definition transcript_ok (c : case) : bool :=
  match c_car c with Some g1 => transcript_contract (c_before c) g1 && arom_contractb g1 | None => true end.

(** the modelled aromaticity step reproduces the recorded state (same exception when it raised) *)
Definition car_agrees (c : case) : bool :=
  match car_model rebuild_strict (c_before c) (c_match c) (c_rings c), c_car c with
  | Ok g, Some g1 => obs_eqb (observe g) (observe g1)
  | Err _, None => true
  | _, _ => false
  end.

Definition corr_ok (c : case) : bool :=
  forallb extra_ok (c_extra c) &&
  (if c_skip c || c_nocorr c then true else
   transcript_ok c && car_agrees c &&
   match rebuild_h_atoms_default (c_before c) (c_car c), c_after c with
   | Ok g, Some o => obs_eqb (observe g) o
   | Err _, None => true
   | _, _ => false
   end).

Definition prop_fail (c : case) : nat :=
  if c_skip c then 0%nat else
  match c_final c with
  | None => 0%nat
  | Some fin => holds_C09 (c_coarse c) (nodes_data (c_before c)) fin
  end.
