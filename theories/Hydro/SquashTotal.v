(** SquashTotal: squash_atoms is TOTAL on the graphs the resolver hands to it.  The typedness of the
    attributes (fragid and mapping are lists on every fine node) is derived from what
    resolve_disconnected_molecule / merge_graphs establish — lemmas of the resolver component
    (theories/Resolve/CopyProofs.v: disc_step_real, frag_copy, merge_graphs_keys, stamp_*, stamped_fragid,
    stamped_mapping; imported, not edited) — and is kept by the bond-creation step. *)
From Coq Require Import String.
From Coq Require Import List Ascii ZArith Bool Lia.
From CGV Require Import Base.PyBase Base.PyVal Base.NxGraph Gen.HydroGen Hydro.Hydrogens Hydro.Squash
     Hydro.GraphLemmas Hydro.SquashDefs Hydro.SquashProofs.
From CGV Require Import Resolve.Bonding Resolve.GraphOps Resolve.MapProofs Resolve.VirtualProofs Resolve.CopyProofs.
Import ListNotations.
Open Scope Z_scope.

(** the invariant in the form the resolver component uses (node_attrs, distinct keys) *)
Definition typed_inv (mol : graph) : Prop :=
  NoDup (node_keys mol) /\ forall k a, node_attrs mol k = Ok a -> tgood a.

Lemma typed_inv_typed_g mol : typed_inv mol -> typed_g mol.
Proof.
  intros [_ H] i a G. apply (H i). unfold nattrs in G. unfold node_attrs. destruct (gfind i mol); [|discriminate].
  cbn in G. inversion G. reflexivity.
Qed.

Lemma tgood_stamped ck name t a : tgood (stamped ck name t a).
Proof. split; [exists [VInt ck]; apply stamped_fragid|]. unfold mapping_val. eexists. apply stamped_mapping. Qed.

Lemma disc_step_typed fd mol fgs mn mol2 fgs2 : wf_dict fd -> typed_inv mol ->
  disc_step fd (mol, fgs) mn = Ok (mol2, fgs2) -> typed_inv mol2.
Proof.
  intros Hw Hi H.
  destruct (aget (S "fragname") (na mn)) as [fv|] eqn:Hf; [|unfold disc_step in H; rewrite Hf in H; discriminate].
  destruct (lookup_fragment fd fv) as [[name frag]|] eqn:Hl.
  - destruct (lookup_fragment_get _ _ _ _ Hl) as [_ Hg]. pose proof (Hw _ _ Hg) as Hwf.
    destruct (disc_step_real _ _ _ _ _ _ _ _ _ Hf Hl H) as [mol1 [corr [Hm Em]]].
    destruct (merge_graphs_keys _ _ _ _ Hm Hwf) as [Hk Hold].
    destruct (frag_copy _ _ _ _ Hm Hwf) as [off [fo [Ho [Ec Hc]]]].
    destruct Hi as [Hn Ha]. destruct Hwf as [Hnt _].
    assert (forall x, In x (node_keys mol) -> ~ In x (map snd corr)) as Hdisj.
    { intros x Hx Hv. subst corr. apply in_map_iff in Hv as [[t y] [Ey Hy]]. cbn in Ey. subst y.
      apply correspondence_fresh in Hy. pose proof (merge_offsets_max _ _ _ Ho _ Hx). lia. }
    assert (NoDup (map (fun n => map_get corr (nk n)) frag)) as Hnd
      by (subst corr; rewrite corr_values by exact Hnt; apply correspondence_injective).
    split.
    + subst mol2. rewrite stamp_keys, Hk. apply NoDup_app_intro; auto. subst corr. apply correspondence_injective.
    + intros k a E.
      assert (In k (node_keys mol2)) as Hin by (apply gfind_has; eapply node_attrs_has; exact E).
      subst mol2. rewrite stamp_keys, Hk, in_app_iff in Hin. destruct Hin as [Hin|Hin].
      * rewrite stamp_other in E.
        -- rewrite (Hold k Hin) in E. exact (Ha k a E).
        -- intros X. apply (Hdisj k Hin). subst corr. rewrite <- corr_values by exact Hnt. exact X.
      * assert (In k (map (fun n => map_get corr (nk n)) frag)) as Hin' by (subst corr; rewrite corr_values by exact Hnt; exact Hin).
        apply in_map_iff in Hin' as [n [En Hn']]. subst k. destruct (Hc n Hn') as [a' [_ E2]].
        rewrite (stamp_same (map_get corr) (nk mn) name frag mol1 Hnd n a' Hn' E2) in E. inversion E; subst a.
        apply tgood_stamped.
  - unfold disc_step in H. rewrite Hf in H. unfold of_option, bind at 1 in H. rewrite Hl in H.
    destruct (virtual_ok mn); [|discriminate]. unfold bind in H. inversion H; subst. exact Hi.
Qed.

Theorem resolve_disconnected_typed fd meta mol fgs : wf_dict fd ->
  resolve_disconnected fd meta = Ok (mol, fgs) -> typed_inv mol.
Proof.
  intros Hw. unfold resolve_disconnected.
  assert (G : forall l mol0 fgs0 mol fgs, typed_inv mol0 ->
              GraphOps.fold_res (disc_step fd) l (mol0, fgs0) = Ok (mol, fgs) -> typed_inv mol).
  { induction l as [|mn r IH]; intros mol0 fgs0 mol' fgs' Hi H.
    - cbn in H. inversion H; subst. exact Hi.
    - change (GraphOps.fold_res (disc_step fd) (mn :: r) (mol0, fgs0))
        with (b' <- disc_step fd (mol0, fgs0) mn ;; GraphOps.fold_res (disc_step fd) r b') in H.
      destruct (disc_step fd (mol0, fgs0) mn) as [[m1 f1]|] eqn:E; [|discriminate]. unfold bind in H.
      eapply IH; [|exact H]. eapply disc_step_typed; eauto. }
  apply G. split; [constructor|]. intros k a E. discriminate.
Qed.

(** ---- the bond-creation step keeps keys and attribute typedness.  At the all-atom level the hydrogen
    bookkeeping reads `element` of both ends, so a bond whose end is not a node of the molecule makes the
    step raise: a returned graph has no node that add_edge had to create. *)
Lemma node_attrs_set_other_attr g k x v k' a : x <> S "fragid" -> x <> S "mapping" ->
  node_attrs (set_node_attr g k x v) k' = Ok a -> exists a0, node_attrs g k' = Ok a0 /\
    aget (S "fragid") a = aget (S "fragid") a0 /\ aget (S "mapping") a = aget (S "mapping") a0.
Proof.
  intros N1 N2. unfold node_attrs. rewrite gfind_set_node_attr. destruct (Z.eqb k' k).
  - destruct (gfind k' g) as [n|]; cbn; [|discriminate]. intros H. inversion H; subst a. exists (na n).
    split; [reflexivity|]. cbn [na].
    rewrite (aget_aset_other (S "fragid") x) by (intro X; apply N1; now symmetry).
    rewrite (aget_aset_other (S "mapping") x) by (intro X; apply N2; now symmetry). auto.
  - destruct (gfind k' g) as [n|]; [|discriminate]. intros H. inversion H; subst. eauto.
Qed.
Lemma typed_set_other g k x v : x <> S "fragid" -> x <> S "mapping" -> typed_inv g -> typed_inv (set_node_attr g k x v).
Proof.
  intros N1 N2 [Hn Ha]. split; [rewrite keys_set_node_attr; exact Hn|].
  intros k' a E. destruct (node_attrs_set_other_attr g k x v k' a N1 N2 E) as (a0 & E0 & F & M).
  destruct (Ha k' a0 E0) as [[l1 L1] [l2 L2]]. split; [exists l1; congruence|exists l2; congruence].
Qed.
Lemma typed_add_edge_present g u v d : has_node g u = true -> has_node g v = true -> typed_inv g -> typed_inv (add_edge g u v d).
Proof.
  intros Hu Hv [Hn Ha]. split; [rewrite keys_add_edge by assumption; exact Hn|].
  intros k a E. apply (Ha k). pose proof (nattrs_add_edge g u v d k Hu Hv) as X. unfold nattrs in X. unfold node_attrs in *.
  destruct (gfind k (add_edge g u v d)) as [n|]; [|discriminate]. destruct (gfind k g) as [m|]; [|discriminate].
  cbn in X. inversion E; subst. inversion X. reflexivity.
Qed.
(** a node that add_edge had to create has an empty attribute dict *)
Lemma gfind_app_list x g l : gfind x (g ++ l) = match gfind x g with Some n => Some n | None => gfind x l end.
Proof. induction g as [|m g IH]; cbn; [reflexivity|]. destruct (Z.eqb (nk m) x); [reflexivity|exact IH]. Qed.
Lemma add_edge_created g u v d x : (x = u \/ x = v) -> has_node g x = false ->
  node_get (add_edge g u v d) x (S "element") = None.
Proof.
  intros Hx Hm. unfold node_get, add_edge.
  set (g1 := if has_node g u then g else g ++ [{| nk := u; na := []; nadj := [] |}]).
  set (g2 := if has_node g1 v then g1 else g1 ++ [{| nk := v; na := []; nadj := [] |}]).
  assert (Gx : gfind x g = None) by (unfold has_node in Hm; destruct (gfind x g); [discriminate|reflexivity]).
  assert (Sh : exists l, g2 = g ++ l /\ Forall (fun n => na n = []) l).
  { unfold g2, g1. destruct (has_node g u).
    - destruct (has_node g v); [exists []; rewrite app_nil_r; auto|eexists; split; [reflexivity|repeat constructor]].
    - destruct (has_node (g ++ _) v); [eexists; split; [reflexivity|repeat constructor]|].
      rewrite <- app_assoc. eexists; split; [reflexivity|repeat constructor]. }
  destruct Sh as (l & E2 & Fl).
  assert (G2 : forall n, gfind x g2 = Some n -> na n = []).
  { intros n G. rewrite E2, gfind_app_list, Gx in G. apply gfind_In in G. rewrite Forall_forall in Fl. auto. }
  rewrite !gfind_gupdate by reflexivity.
  destruct (gfind x g2) as [n|] eqn:G; [|destruct (Z.eqb x v), (Z.eqb x u); reflexivity].
  pose proof (G2 n eq_refl) as E. destruct (Z.eqb x v), (Z.eqb x u); cbn [option_map na]; rewrite E; reflexivity.
Qed.

Lemma node_get_set_other g k x v k' a : a <> x -> node_get (set_node_attr g k x v) k' a = node_get g k' a.
Proof.
  intros N. unfold node_get. rewrite gfind_set_node_attr. destruct (Z.eqb k' k); [|reflexivity].
  destruct (gfind k' g); cbn; [apply aget_aset_other; exact N|reflexivity].
Qed.
Lemma hcount_ne_fragid : S "hcount" <> S "fragid". Proof. intro X; vm_compute in X; discriminate. Qed.
Lemma hcount_ne_mapping : S "hcount" <> S "mapping". Proof. intro X; vm_compute in X; discriminate. Qed.
Lemma element_ne_hcount : S "element" <> S "hcount". Proof. intro X; vm_compute in X; discriminate. Qed.

Definition hstep (m : graph) (n : Z) : res graph :=
  el <- of_option (node_get m n (S "element")) EKey ;;
  if pyval_eqb el (VStr (S "H")) then Ok m else
  hc <- of_option (node_get m n (S "hcount")) EKey ;;
  let ar := match node_get m n (S "aromatic") with Some v => truthy v | None => true end in
  hc' <- dec_hcount ar hc ;;
  Ok (set_node_attr m n (S "hcount") hc').
Lemma hstep_cases m n m' : hstep m n = Ok m' ->
  node_get m n (S "element") <> None /\ (m' = m \/ exists x, m' = set_node_attr m n (S "hcount") x).
Proof.
  intros H. unfold hstep in H. destruct (node_get m n (S "element")) as [el|]; cbn [of_option bind] in H; [|discriminate].
  split; [discriminate|]. destruct (pyval_eqb el (VStr (S "H"))); [inversion H; auto|].
  destruct (node_get m n (S "hcount")); cbn [of_option bind] in H; [|discriminate].
  destruct (dec_hcount _ p); cbn [bind] in H; [|discriminate]. inversion H. eauto.
Qed.

Lemma apply_bond_typed mol b mol' : typed_inv mol -> apply_bond true mol b = Ok mol' -> typed_inv mol'.
Proof.
  intros T H. unfold apply_bond in H. cbn [GraphOps.fold_res] in H. fold (hstep (add_edge mol (b_u b) (b_v b) (bond_attrs b)) (b_u b)) in H.
  set (mol1 := add_edge mol (b_u b) (b_v b) (bond_attrs b)) in *.
  destruct (hstep mol1 (b_u b)) as [m2|] eqn:S1; cbn [bind] in H; [|discriminate].
  change (el <- of_option (node_get m2 (b_v b) (S "element")) EKey ;; _) with (hstep m2 (b_v b)) in H.
  destruct (hstep m2 (b_v b)) as [m3|] eqn:S2; cbn [bind] in H; [|discriminate]. inversion H; subst m3. clear H.
  destruct (hstep_cases _ _ _ S1) as [Eu C1]. destruct (hstep_cases _ _ _ S2) as [Ev C2].
  assert (Ev1 : node_get mol1 (b_v b) (S "element") <> None).
  { destruct C1 as [->|[x ->]]; [assumption|]. rewrite node_get_set_other in Ev by exact element_ne_hcount. exact Ev. }
  assert (Hu : has_node mol (b_u b) = true).
  { destruct (has_node mol (b_u b)) eqn:X; [reflexivity|]. exfalso. apply Eu. apply add_edge_created; auto. }
  assert (Hv : has_node mol (b_v b) = true).
  { destruct (has_node mol (b_v b)) eqn:X; [reflexivity|]. exfalso. apply Ev1. apply add_edge_created; auto. }
  assert (T1 : typed_inv mol1) by (apply typed_add_edge_present; assumption).
  assert (T2 : typed_inv m2).
  { destruct C1 as [->|[x ->]]; [assumption|]. apply typed_set_other; [exact hcount_ne_fragid|exact hcount_ne_mapping|assumption]. }
  destruct C2 as [->|[x ->]]; [assumption|]. apply typed_set_other; [exact hcount_ne_fragid|exact hcount_ne_mapping|assumption].
Qed.

Theorem bonding_step_typed legacy meta mol fgs mol' fgs' : typed_inv mol ->
  bonding_step legacy true meta mol fgs = Ok (mol', fgs') -> typed_inv mol'.
Proof.
  intros T. unfold bonding_step. destruct (bonds_of legacy meta mol fgs) as [[s1 bonds]|]; cbn; [|discriminate].
  destruct (GraphOps.fold_res (apply_bond true) bonds mol) as [m|] eqn:E; cbn; [|discriminate]. intros H. inversion H; subst.
  clear H. revert mol T E. induction bonds as [|b r IH]; intros mol T E; cbn [GraphOps.fold_res] in E; [inversion E; subst; exact T|].
  destruct (apply_bond true mol b) as [m1|] eqn:A; cbn [bind] in E; [|discriminate].
  eapply IH; [|exact E]. eapply apply_bond_typed; eauto.
Qed.

(** [squash_total_resolver]: at the all-atom level, the graph the resolver hands to squash_atoms (instantiate
    the fragments, create the bonds) has list-valued fragid and mapping on every node; so, being a well-formed
    simple graph whose hydrogen counts are numbers and whose `bonding` edge attributes are descriptor pairs (all evaluated on every recorded case
    by ./check C10), squash_atoms RETURNS on it, with one node fewer per merge. *)
Theorem squash_total_resolver fd legacy meta m1 fg1 m2 fg2 : wf_dict fd ->
  resolve_disconnected fd meta = Ok (m1, fg1) -> bonding_step legacy true meta m1 fg1 = Ok (m2, fg2) ->
  wf_graph m2 -> hnum_g m2 -> bondings_ok (edge_attr_items m2 squash_edge_attr) ->
  exists g', squash_atoms m2 = Ok g' /\ typed_g g' /\ wf_graph g' /\
             (length g' + length (squash_plan [] (bang_items m2)) = length m2)%nat.
Proof.
  intros Hw H1 H2 W HN B. apply squash_total; [assumption| |assumption|assumption].
  apply typed_inv_typed_g. eapply bonding_step_typed; [|exact H2]. eapply resolve_disconnected_typed; eauto.
Qed.
