(** AromaticOrders: WHERE the modelled aromaticity step (Hydro.Aromatic.car_model) changes a bond order.
    [car_model_orders]: the result has the same nodes and adjacency entries in the same order, every entry keeps all
    attributes but `order`, and its `order` is either the one it had, or 1 where it was 1.5, or 2 on a bond of
    the kekulisation matching M, or 1.5 on a bond of a ring of L (whose two atoms are then flagged aromatic:
    AromaticProofs.car_model_arom). *)
From Coq Require Import String.
From Coq Require Import List Ascii ZArith Bool Lia.
From CGV Require Import Base.PyBase Base.PyVal Base.NxGraph Gen.HydroGen Gen.AromGen
     Hydro.Hydrogens Hydro.HydroDefs Hydro.Aromatic Hydro.AromaticProofs.
Import ListNotations.
Open Scope Z_scope.

Definition erel (P : Z -> Z -> attrs -> attrs -> Prop) (g a : graph) : Prop :=
  Forall2 (fun n m => nk n = nk m /\
                      Forall2 (fun p q => fst p = fst q /\ P (nk n) (fst p) (snd p) (snd q)) (nadj n) (nadj m)) g a.

Lemma erel_refl (P : Z -> Z -> attrs -> attrs -> Prop) g : (forall u w d, P u w d d) -> erel P g g.
Proof.
  intros H. unfold erel. induction g as [|n g IH]; constructor; [|exact IH]. split; [reflexivity|].
  induction (nadj n) as [|p l IHl]; constructor; auto.
Qed.
Lemma erel_rewrite (P Q : Z -> Z -> attrs -> attrs -> Prop) fa fe g a :
  (forall u w d d', P u w d d' -> Q u w d (fe u w d')) -> erel P g a -> erel Q g (rewrite fa fe a).
Proof.
  intros H R. unfold erel, rewrite in *. induction R as [|n m g a [K A] _ IH]; [constructor|].
  rewrite map_cons. constructor; [|exact IH]. cbn [nk nadj]. split; [exact K|].
  clear IH. induction A as [|p q l l' [F Pq] _ IHl]; [constructor|]. rewrite map_cons. constructor; [|exact IHl].
  cbn [fst snd]. split; [exact F|]. rewrite <- K, <- F. apply H, Pq.
Qed.

Definition on_pair (u w : Z) (l : list (Z * Z)) : Prop := In (u, w) l \/ In (w, u) l.
Definition prov (M : list (Z * Z)) (L : list (list Z * bool)) (u w : Z) (d d' : attrs) : Prop :=
  adel k_order d' = adel k_order d /\
  (aget k_order d' = aget k_order d
   \/ (is_15 d = true /\ aget k_order d' = Some (VInt 1))
   \/ (aget k_order d' = Some (VInt 2) /\ on_pair u w M)
   \/ (aget k_order d' = Some v15 /\ exists c est, In (c, est) L /\ on_pair u w (ring_edges c))).

Lemma prov_refl M L u w d : prov M L u w d d.
Proof. split; [reflexivity|now left]. Qed.
Lemma hits_pair u v k w l : hits u v k w = true -> In (u, v) l -> on_pair k w l.
Proof.
  unfold hits. intros H I. apply orb_prop in H as [H|H]; apply andb_prop in H as [A B];
    apply Z.eqb_eq in A; apply Z.eqb_eq in B; subst; [now left|now right].
Qed.

(** the first two steps: reset `aromatic` (edges untouched), demote 1.5 *)
Lemma demote_reset_erel M L g : erel (prov M L) g (demote (reset_arom g)).
Proof.
  unfold demote, reset_arom.
  apply erel_rewrite with (P := fun _ _ d d' => d' = d).
  - intros u w d d' ->. destruct (is_15 d) eqn:E; [|apply prov_refl].
    split; [apply adel_aset_same|]. right; left. split; [exact E|apply aget_aset_same].
  - apply erel_rewrite with (P := fun _ _ d d' => d' = d); [intros u w d d' ->; reflexivity|].
    apply erel_refl. reflexivity.
Qed.

(** writing an order with a cause *)
Lemma set_order_erel M L g a u v x :
  (x = VInt 2 /\ In (u, v) M) \/ (x = v15 /\ exists c est, In (c, est) L /\ In (u, v) (ring_edges c)) ->
  erel (prov M L) g a -> erel (prov M L) g (set_order a u v x).
Proof.
  intros C. unfold set_order. apply erel_rewrite. intros k w d d' [A B].
  destruct (hits u v k w) eqn:Eh; [|split; assumption].
  split; [now rewrite adel_aset_same|]. right; right.
  destruct C as [[-> I]|[-> (c & est & I & J)]].
  - left. split; [apply aget_aset_same|eapply hits_pair; eauto].
  - right. split; [apply aget_aset_same|]. exists c, est. split; [exact I|eapply hits_pair; eauto].
Qed.
Lemma set_arom_erel M L g a k : erel (prov M L) g a -> erel (prov M L) g (set_arom a k).
Proof. unfold set_arom. apply erel_rewrite. intros u w d d' H. exact H. Qed.

Lemma kek_fold_erel M L g g0 M' : incl M' M -> forall a, erel (prov M L) g a ->
  erel (prov M L) g (fold_left (fun acc e => if star_node g0 (fst e) && star_node g0 (snd e) then acc
                                            else set_order acc (fst e) (snd e) (VInt 2)) M' a).
Proof.
  induction M' as [|e M' IH]; intros I a R; cbn [fold_left]; [exact R|].
  apply IH; [intros x Hx; apply I; now right|].
  destruct (star_node g0 (fst e) && star_node g0 (snd e)); [exact R|].
  apply set_order_erel; [|exact R]. left. split; [reflexivity|]. rewrite <- surjective_pairing. apply I. now left.
Qed.
Lemma set_arom_fold_erel M L g c : forall a, erel (prov M L) g a -> erel (prov M L) g (fold_left set_arom c a).
Proof. induction c as [|k c IH]; intros a R; cbn [fold_left]; [exact R|]. apply IH. now apply set_arom_erel. Qed.
Lemma mark_edges_erel M L g c est es : In (c, est) L -> incl es (ring_edges c) -> forall a b,
  erel (prov M L) g a -> fold_res mark_edge es a = Ok b -> erel (prov M L) g b.
Proof.
  intros IL. induction es as [|[u v] es IH]; intros I a b R E; cbn in E; [inversion E; subst; exact R|].
  destruct (has_edge a u v && has_edge a v u && arom_flag a u && arom_flag a v); cbn in E; [|discriminate].
  eapply IH; [intros x Hx; apply I; now right| |exact E].
  apply set_order_erel; [|exact R]. right. split; [reflexivity|]. exists c, est. split; [exact IL|]. apply I. now left.
Qed.
Lemma mark_rings_erel M L g g0 L' : incl L' L -> forall a b,
  erel (prov M L) g a -> fold_res (mark_ring g0) L' a = Ok b -> erel (prov M L) g b.
Proof.
  induction L' as [|ce L' IH]; intros I a b R E; cbn in E; [inversion E; subst; exact R|].
  destruct (mark_ring g0 a ce) as [a'|] eqn:E1; cbn in E; [|discriminate].
  eapply IH; [intros x Hx; apply I; now right| |exact E].
  destruct ce as [c est]. unfold mark_ring in E1. destruct (negb (ring_okb g0 c est)); [discriminate|].
  eapply mark_edges_erel; [apply I; now left|apply incl_refl| |exact E1]. now apply set_arom_fold_erel.
Qed.

Theorem car_model_orders strict g M L g1 : car_model strict g M L = Ok g1 -> erel (prov M L) g g1.
Proof.
  intros E. apply car_model_inv in E as (ds & _ & _ & E).
  eapply mark_rings_erel; [apply incl_refl| |exact E].
  unfold kekulize. apply kek_fold_erel; [apply incl_refl|]. apply demote_reset_erel.
Qed.
