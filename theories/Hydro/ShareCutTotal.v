(** ShareCutTotal: in the setting of ShareCut.share_vs_cut_resolver, squash_atoms RETURNS (at any level), once the
    hydrogen counts of the bonded graph are numbers: wf_graph, the list-valued fragid / mapping and the
    descriptor-pair `bonding` edge attributes are derived (cut skeleton, SquashTotalAny). *)
From Coq Require Import String.
From Coq Require Import List Ascii ZArith Bool Lia.
From CGV Require Import Base.PyBase Base.PyVal Base.NxGraph Gen.HydroGen Resolve.Bonding Resolve.BondingDefs Resolve.GraphOps Resolve.CopyProofs.
From CGV Require Import Hydro.GraphLemmas Hydro.Squash Hydro.SquashDefs Hydro.SquashProofs Hydro.SquashTotal Hydro.QuotientDefs Hydro.QuotientProofs
     Hydro.BangBonds Hydro.BangGraph.
From CGV Require Import Compose.GraphAdj Compose.CutModel Compose.CutPos Compose.CutDisc Compose.CutTables Compose.CutSkeleton Compose.CutWf.
From CGV Require Import Hydro.SquashTotalAny Hydro.ShareCut Hydro.QuotientAttrs.
Import ListNotations.
Open Scope Z_scope.

Section Gmap.
  Variable r : pystr -> pystr.
  Lemma nattrs_gmap g i : nattrs (gmap r g) i = option_map (Fa r) (nattrs g i).
  Proof. unfold nattrs. rewrite gfind_gmap. destruct (gfind i g); reflexivity. Qed.
  Lemma typed_g_gmap g : typed_g g -> typed_g (gmap r g).
  Proof.
    intros T i a H. rewrite nattrs_gmap in H. destruct (nattrs g i) as [a0|] eqn:E; [|discriminate]. inversion H; subst a.
    destruct (T i a0 E) as [[l1 L1] [l2 L2]]. split.
    - exists l1. rewrite aget_Fa_other by exact fragid_ne. exact L1.
    - exists l2. rewrite aget_Fa_other by exact mapping_ne. exact L2.
  Qed.
  Lemma hnum_g_gmap g : hnum_g g -> hnum_g (gmap r g).
  Proof.
    intros T i a H. rewrite nattrs_gmap in H. destruct (nattrs g i) as [a0|] eqn:E; [|discriminate]. inversion H; subst a.
    pose proof (T i a0 E) as X. unfold hnum in *. change squash_min_attr with (S "hcount") in *.
    rewrite aget_Fa_other by exact hcount_ne. exact X.
  Qed.
  Lemma items_gmap g e : In e (edge_attr_items (gmap r g) (S "bonding")) ->
    exists d bv, In (fst e, d) (edges_data g) /\ aget (S "bonding") d = Some bv /\ snd e = vren r bv.
  Proof.
    unfold edge_attr_items. rewrite edges_data_gmap. intros H. apply in_flat_map in H as ([[u v] d'] & Hin & Hx).
    apply in_map_iff in Hin as ([[u0 v0] d] & E0 & Hin). cbn [fst snd] in E0. inversion E0; subst u0 v0 d'. cbn [fst snd] in Hx.
    rewrite aget_Fa in Hx. destruct (aget (S "bonding") d) as [bv|] eqn:Ea; cbn [option_map] in Hx; [|contradiction].
    destruct Hx as [<-|[]]. cbn [fst snd]. exists d, bv. split; [exact Hin|]. split; [exact Ea|]. apply fk_bonding.
  Qed.
End Gmap.

Lemma skeleton_bondings_ok C aa gs' L : wf_cut C -> skeleton C aa gs' -> adj_nodup gs' ->
  bondings_ok (edge_attr_items (gmap (bangify L) gs') squash_edge_attr).
Proof.
  intros WC Sk Adj [[p q] bv'] H. change squash_edge_attr with (S "bonding") in H.
  apply items_gmap in H as (d & bv & Hin & Ea & E). cbn [fst snd] in *. subst bv'.
  pose proof (cut_skeleton_wf C WC aa gs' Sk) as Wf.
  pose proof (edges_data_attrs gs' p q d (wf_nodup _ Wf) Adj Hin) as Hd.
  pose proof (edge_attrs_has_edge _ _ _ _ Hd) as He. destruct (sk_closed _ _ _ Sk p q He) as [Np Nq].
  destruct (sk_onto C WC aa gs' Sk p Np) as (x & Fx & <-). destruct (sk_onto C WC aa gs' Sk q Nq) as (y & Fy & <-).
  destruct (sk_edges _ _ _ Sk x y Fx Fy) as (_ & _ & _ & B4).
  assert (Eg : edge_get gs' (phi C x) (phi C y) (S "bonding") = Some bv) by (unfold edge_get; rewrite Hd; exact Ea).
  destruct (B4 bv Eg) as (b & s & _ & _ & ->). eexists. apply starts_pair.
Qed.

Theorem share_vs_cut_resolver_total C D L aa orig fdC BC fdD BD :
  wf_cut C -> templates_ok C fdC -> is_base C BC -> wf_dict fdC ->
  wf_cut D -> templates_ok D fdD -> is_base D BD ->
  (aa = true -> forall x, In x (flat C) ->
     (exists e, aget (S "element") (payload C x) = Some e) /\ exists h, aget (S "hcount") (payload C x) = Some (VInt h)) ->
  (aa = true -> forall x, In x (flat D) ->
     (exists e, aget (S "element") (payload D x) = Some e) /\ exists h, aget (S "hcount") (payload D x) = Some (VInt h)) ->
  expands C D L orig ->
  exists gs fgs gd fgd,
    (st <- resolve_disconnected (fdmap (bangify L) fdC) BC ;; bonding_step true aa BC (fst st) (snd st)) = Ok (gs, fgs) /\
    (st <- resolve_disconnected fdD BD ;; bonding_step true aa BD (fst st) (snd st)) = Ok (gd, fgd) /\
    (hnum_g gs -> exists g', squash_atoms gs = Ok g' /\
      (length g' + length (squash_plan [] (bang_items gs)) = length gs)%nat /\
      (forall y, In y (node_keys g') -> has_node gd (pi_cut C D orig y) = true) /\
      (forall a, has_node gd a = true -> exists y, In y (node_keys g') /\ pi_cut C D orig y = a) /\
      (forall y x, In y (node_keys g') -> In x (node_keys g') -> pi_cut C D orig y = pi_cut C D orig x -> y = x) /\
      (forall y x, In y (node_keys g') -> In x (node_keys g') ->
         has_edge g' y x = has_edge gd (pi_cut C D orig y) (pi_cut C D orig x))).
Proof.
  intros WC TC IC WdC WD TD ID HaC HaD X.
  destruct (cut_bonding_skeleton C WC fdC TC BC IC aa HaC) as (m1 & fg1 & gs' & fg2 & E1 & E2 & SkC).
  destruct (cut_bonding_skeleton D WD fdD TD BD ID aa HaD) as (n1 & fh1 & gd & fgd & F1 & F2 & SkD).
  destruct (disconnected_total C WC fdC TC BC IC) as (m1' & fg1' & E1' & I). rewrite E1 in E1'. inversion E1'; subst m1' fg1'.
  assert (Htab : tables_of fg1 = Ok (tables C)) by (rewrite (i_tables _ _ _ _ I), firstn_all; reflexivity).
  assert (Adj : adj_nodup gs') by (eapply adj_nodup_bonding; [eapply adj_nodup_disconnected; exact E1|exact E2]).
  assert (Len : length gs' = length m1).
  { rewrite <- (map_length nk gs'), <- (map_length nk m1). change (map nk gs') with (node_keys gs'). change (map nk m1) with (node_keys m1).
    rewrite (sk_keys _ _ _ SkC), (i_keys _ _ _ _ I), off_total. reflexivity. }
  pose proof (cut_skeleton_wf C WC aa gs' SkC) as Wf.
  exists (gmap (bangify L) gs'), (fgmap (bangify L) fg2), gd, fgd. split; [|split].
  - rewrite (resolve_bang_like_dollar L aa fdC BC m1 fg1 E1), E2; [reflexivity|].
    intros s0 Hs. rewrite Htab in Hs. inversion Hs; subst s0. now apply tables_bang_free.
  - rewrite F1. cbn [bind fst snd]. exact F2.
  - intros HN.
    assert (T : typed_g (gmap (bangify L) gs')).
    { apply typed_g_gmap. apply typed_inv_typed_g. eapply bonding_step_typed_any; [|exact E2|exact Len].
      eapply resolve_disconnected_typed; eauto. }
    destruct (squash_total _ (wf_graph_gmap _ _ Wf) T HN (skeleton_bondings_ok C aa gs' L WC SkC Adj)) as (g' & Q & _ & _ & Cnt).
    exists g'. split; [exact Q|]. split; [exact Cnt|].
    exact (share_vs_cut_skeletons C D WC WD L aa gs' gd SkC SkD Adj orig X g' Q).
Qed.

(** a decidable form of the resolver component's [wf_dict] *)
Definition wf_templateb (T : graph) : bool :=
  nodupz (node_keys T) &&
  forallb (fun e : Z * Z * attrs => zmem (fst (fst e)) (node_keys T) && zmem (snd (fst e)) (node_keys T)) (edges_data T).
Definition wf_dictb (fd : fragdict) : bool := forallb (fun ng => wf_templateb (snd ng)) fd.
Lemma wf_dictb_sound fd : wf_dictb fd = true -> wf_dict fd.
Proof.
  unfold wf_dictb. rewrite forallb_forall. intros H name g Hg.
  assert (Hin : In (name, g) fd).
  { induction fd as [|[k g0] fd IH]; [discriminate|]. cbn in Hg. destruct (str_eqb_spec name k) as [->|N].
    - inversion Hg; subst. now left.
    - right. apply IH; [|exact Hg]. intros x Hx. apply H. now right. }
  specialize (H _ Hin). cbn [snd] in H. unfold wf_templateb in H. apply andb_true_iff in H as [H1 H2]. split; [now apply nodupz_NoDup|].
  intros u v d He. rewrite forallb_forall in H2. specialize (H2 _ He). cbn [fst snd] in H2. apply andb_true_iff in H2 as [A B].
  split; now apply CutPos.zmem_In.
Qed.

(** ---- the atoms keep their attributes: a surviving atom of the squashed graph and its image in the graph of the
    molecule's own cut carry the molecule's payload (element, charge, aromatic, ...: every key that is not one of
    the resolver's own, nor hcount / contraction) *)
Definition lists_fn (g : graph) (key : pystr) (k : Z) : list pyval :=
  match nattrs g k with Some a => match aget key a with Some (VList l) => l | _ => [] end | None => [] end.
Lemma typed_lists_of g : typed_g g -> lists_of g (lists_fn g (S "fragid")) (lists_fn g (S "mapping")).
Proof.
  intros T k a H. destruct (T k a H) as [[l1 L1] [l2 L2]]. unfold lists_fn. rewrite H, L1, L2. auto.
Qed.
Lemma node_get_nattrs g k key : node_get g k key = match nattrs g k with Some a => aget key a | None => None end.
Proof. unfold node_get, nattrs. destruct (gfind k g); reflexivity. Qed.

(** hcount is left out: the templates of the two descriptions count the hydrogens of a cut end differently *)
Definition same_payload (C D : cut) (orig : Z -> Z) : Prop :=
  forall x key v, In x (flat C) -> key <> S "hcount" -> aget key (payload C x) = Some v -> aget key (payload D (orig x)) = Some v.

Theorem share_vs_cut_attrs C D L aa gs' gd orig g' : wf_cut C -> wf_cut D ->
  skeleton C aa gs' -> skeleton D aa gd -> expands C D L orig -> same_payload C D orig ->
  typed_g gs' -> hnum_g gs' -> squash_atoms (gmap (bangify L) gs') = Ok g' ->
  forall y key v, In y (node_keys g') -> aget key (payload C (atom_of C y)) = Some v ->
    ~ In key reserved -> key <> S "hcount" -> key <> S "contraction" ->
    node_get g' y key = Some v /\ node_get gd (pi_cut C D orig y) key = Some v.
Proof.
  intros WC WD SkC SkD X SP T HN Q y key v Hy Hp Nr Nh Nc.
  pose proof (cut_skeleton_wf C WC aa gs' SkC) as Wf. set (gs := gmap (bangify L) gs') in *.
  pose proof (wf_graph_gmap (bangify L) _ Wf) as Wg. fold gs in Wg.
  destruct (squash_quotient gs g' Wg Q) as (_ & K & _ & _).
  assert (Hys : In y (node_keys gs)) by (rewrite K in Hy; apply filter_In in Hy; tauto).
  unfold gs in Hys. rewrite node_keys_gmap in Hys. apply has_node_keys in Hys.
  destruct (sk_onto C WC aa gs' SkC y Hys) as (x & Fx & <-). rewrite atom_of_phi in Hp by (try assumption; exact (wc_nodup C WC)).
  assert (Rk : key <> S "fragid" /\ key <> S "mapping" /\ key <> S "bonding").
  { unfold reserved in Nr. cbn [In] in Nr. repeat split; intros ->; apply Nr; tauto. }
  destruct Rk as (N1 & N2 & N3).
  pose proof (squash_keeps_attrs gs g' _ _ Wg (typed_lists_of gs (typed_g_gmap _ _ T)) (hnum_g_gmap _ _ HN) Q) as Kp.
  destruct (sk_attrs _ _ _ SkC x Fx) as (_ & _ & _ & PC).
  pose proof (PC key v Hp Nr (fun _ => Nh)) as G1.
  destruct (sk_attrs _ _ _ SkD (orig x) (ex_into _ _ _ _ X x Fx)) as (_ & _ & _ & PD).
  pose proof (PD key v (SP x key v Fx Nh Hp) Nr (fun _ => Nh)) as G2.
  split; [|rewrite pi_cut_phi by (try assumption; exact (wc_nodup C WC)); exact G2].
  rewrite node_get_nattrs. apply has_node_keys in Hy. apply has_node_gfind in Hy as [n Gn].
  assert (Na : nattrs g' (phi C x) = Some (na n)) by (unfold nattrs; rewrite Gn; reflexivity).
  rewrite Na. destruct (Kp _ _ Na) as (a0 & G0 & K0). rewrite (K0 key N1 N2 Nc Nh).
  unfold gs in G0. rewrite nattrs_gmap in G0. destruct (nattrs gs' (phi C x)) as [a1|] eqn:E1; [|discriminate]. inversion G0; subst a0.
  rewrite aget_Fa_other by exact N3. rewrite node_get_nattrs, E1 in G1. exact G1.
Qed.

(** what the two runs of share_vs_cut_resolver establish *)
Lemma cut_runs C D L aa fdC BC fdD BD :
  wf_cut C -> templates_ok C fdC -> is_base C BC -> wf_dict fdC ->
  wf_cut D -> templates_ok D fdD -> is_base D BD ->
  (aa = true -> forall x, In x (flat C) ->
     (exists e, aget (S "element") (payload C x) = Some e) /\ exists h, aget (S "hcount") (payload C x) = Some (VInt h)) ->
  (aa = true -> forall x, In x (flat D) ->
     (exists e, aget (S "element") (payload D x) = Some e) /\ exists h, aget (S "hcount") (payload D x) = Some (VInt h)) ->
  exists gs' fgs gd fgd,
    (st <- resolve_disconnected (fdmap (bangify L) fdC) BC ;; bonding_step true aa BC (fst st) (snd st)) = Ok (gmap (bangify L) gs', fgs) /\
    (st <- resolve_disconnected fdD BD ;; bonding_step true aa BD (fst st) (snd st)) = Ok (gd, fgd) /\
    skeleton C aa gs' /\ skeleton D aa gd /\ adj_nodup gs' /\ typed_g gs'.
Proof.
  intros WC TC IC WdC WD TD ID HaC HaD.
  destruct (cut_bonding_skeleton C WC fdC TC BC IC aa HaC) as (m1 & fg1 & gs' & fg2 & E1 & E2 & SkC).
  destruct (cut_bonding_skeleton D WD fdD TD BD ID aa HaD) as (n1 & fh1 & gd & fgd & F1 & F2 & SkD).
  destruct (disconnected_total C WC fdC TC BC IC) as (m1' & fg1' & E1' & I). rewrite E1 in E1'. inversion E1'; subst m1' fg1'.
  assert (Htab : tables_of fg1 = Ok (tables C)) by (rewrite (i_tables _ _ _ _ I), firstn_all; reflexivity).
  assert (Adj : adj_nodup gs') by (eapply adj_nodup_bonding; [eapply adj_nodup_disconnected; exact E1|exact E2]).
  assert (Len : length gs' = length m1).
  { rewrite <- (map_length nk gs'), <- (map_length nk m1). change (map nk gs') with (node_keys gs'). change (map nk m1) with (node_keys m1).
    rewrite (sk_keys _ _ _ SkC), (i_keys _ _ _ _ I), off_total. reflexivity. }
  exists gs', (fgmap (bangify L) fg2), gd, fgd. split; [|split; [|split; [|split; [|split]]]]; try assumption.
  - rewrite (resolve_bang_like_dollar L aa fdC BC m1 fg1 E1), E2; [reflexivity|].
    intros s0 Hs. rewrite Htab in Hs. inversion Hs; subst s0. now apply tables_bang_free.
  - rewrite F1. cbn [bind fst snd]. exact F2.
  - apply typed_inv_typed_g. eapply bonding_step_typed_any; [|exact E2|exact Len]. eapply resolve_disconnected_typed; eauto.
Qed.

(** [share_vs_cut_resolver_atoms]: ... and the atoms are the same atoms: under every key of the molecule's payload
    (besides the resolver's own keys, hcount and contraction) a surviving atom of the squashed graph and its image
    in the graph of the molecule's own cut carry the molecule's value *)
Theorem share_vs_cut_resolver_atoms C D L aa orig fdC BC fdD BD :
  wf_cut C -> templates_ok C fdC -> is_base C BC -> wf_dict fdC ->
  wf_cut D -> templates_ok D fdD -> is_base D BD ->
  (aa = true -> forall x, In x (flat C) ->
     (exists e, aget (S "element") (payload C x) = Some e) /\ exists h, aget (S "hcount") (payload C x) = Some (VInt h)) ->
  (aa = true -> forall x, In x (flat D) ->
     (exists e, aget (S "element") (payload D x) = Some e) /\ exists h, aget (S "hcount") (payload D x) = Some (VInt h)) ->
  expands C D L orig -> same_payload C D orig ->
  exists gs fgs gd fgd,
    (st <- resolve_disconnected (fdmap (bangify L) fdC) BC ;; bonding_step true aa BC (fst st) (snd st)) = Ok (gs, fgs) /\
    (st <- resolve_disconnected fdD BD ;; bonding_step true aa BD (fst st) (snd st)) = Ok (gd, fgd) /\
    (hnum_g gs -> forall g', squash_atoms gs = Ok g' ->
       forall y key v, In y (node_keys g') -> aget key (payload C (atom_of C y)) = Some v ->
         ~ In key reserved -> key <> S "hcount" -> key <> S "contraction" ->
         node_get g' y key = Some v /\ node_get gd (pi_cut C D orig y) key = Some v).
Proof.
  intros WC TC IC WdC WD TD ID HaC HaD X SP.
  destruct (cut_runs C D L aa fdC BC fdD BD WC TC IC WdC WD TD ID HaC HaD) as (gs' & fgs & gd & fgd & R1 & R2 & SkC & SkD & Adj & T).
  exists (gmap (bangify L) gs'), fgs, gd, fgd. split; [exact R1|]. split; [exact R2|]. intros HN g' Q.
  apply (share_vs_cut_attrs C D L aa gs' gd orig g' WC WD SkC SkD X SP T); [|exact Q].
  intros i a H. assert (H' : nattrs (gmap (bangify L) gs') i = Some (Fa (bangify L) a)) by (rewrite nattrs_gmap, H; reflexivity).
  pose proof (HN i _ H') as Y. unfold hnum in *. change squash_min_attr with (S "hcount") in *.
  rewrite aget_Fa_other in Y by exact hcount_ne. exact Y.
Qed.

(** ---- membership: the surviving atom of a class lists the coarse node of EVERY copy *)
Lemma merged_lists_incl plan : forall (F : Z -> list pyval) k v, In v (F k) ->
  In v (merged_lists F plan (sq_pass (plan_sq plan) k)).
Proof.
  induction plan as [|[keep rm] plan IH]; intros F k v H; [exact H|].
  cbn [merged_lists plan_sq map fst snd]. unfold sq_pass. cbn [fold_left fst snd].
  fold (sq_pass (plan_sq plan) (if Z.eqb k rm then keep else k)). apply IH.
  destruct (Z.eqb_spec k rm) as [->|N].
  - rewrite Z.eqb_refl. apply in_or_app. now right.
  - destruct (Z.eqb_spec k keep) as [->|N']; [apply in_or_app; now left|exact H].
Qed.
Lemma bconn_rho g z : bconn (bang_items g) z (rho g z).
Proof. unfold rho. apply (plan_sound (bang_items g) (bang_items g) []); [intros w; apply bc_refl|auto]. Qed.

Theorem share_vs_cut_membership C D L aa gs' gd orig g' : wf_cut C -> wf_cut D ->
  skeleton C aa gs' -> skeleton D aa gd -> adj_nodup gs' -> expands C D L orig ->
  typed_g gs' -> hnum_g gs' -> squash_atoms (gmap (bangify L) gs') = Ok g' ->
  forall x, In x (flat C) -> exists y l, In y (node_keys g') /\ pi_cut C D orig y = phi D (orig x) /\
    node_get g' y (S "fragid") = Some (VList l) /\ In (VInt (Z.of_nat (owner C x))) l.
Proof.
  intros WC WD SkC SkD Adj X T HN Q x Fx.
  pose proof (cut_skeleton_wf C WC aa gs' SkC) as Wf. set (gs := gmap (bangify L) gs') in *.
  pose proof (wf_graph_gmap (bangify L) _ Wf) as Wg. fold gs in Wg.
  destruct (squash_quotient gs g' Wg Q) as (_ & K & _ & R).
  assert (Hp : In (phi C x) (node_keys gs)).
  { unfold gs. rewrite node_keys_gmap. apply has_node_keys. exact (sk_node C aa gs' SkC x Fx). }
  pose proof (R _ Hp) as Hy. set (y := rho gs (phi C x)) in *.
  assert (Hys : In y (node_keys gs)) by (rewrite K in Hy; apply filter_In in Hy; tauto).
  pose proof (squash_memberships gs g' _ _ Wg (typed_lists_of gs (typed_g_gmap _ _ T)) (hnum_g_gmap _ _ HN) Q) as ML.
  apply has_node_keys in Hy. pose proof Hy as Hy'. apply has_node_gfind in Hy' as [n Gn].
  assert (Na : nattrs g' y = Some (na n)) by (unfold nattrs; rewrite Gn; reflexivity).
  destruct (ML y _ Na) as [Fy _].
  exists y, (merged_lists (lists_fn gs (S "fragid")) (squash_plan [] (bang_items gs)) y).
  split; [now apply has_node_keys|]. split; [|split].
  - rewrite <- (pi_cut_phi C D orig x Fx). symmetry.
    apply (pi_classes C D WC L aa gs' SkC Adj orig X (phi C x) y Hp Hys). apply bconn_rho.
  - rewrite node_get_nattrs, Na. exact Fy.
  - apply merged_lists_incl. unfold lists_fn, gs. rewrite nattrs_gmap.
    destruct (sk_attrs _ _ _ SkC x Fx) as (Ef & _). rewrite node_get_nattrs in Ef.
    destruct (nattrs gs' (phi C x)) as [a|]; [|discriminate]. cbn [option_map]. rewrite aget_Fa_other by exact fragid_ne.
    rewrite Ef. now left.
Qed.

Theorem share_vs_cut_resolver_membership C D L aa orig fdC BC fdD BD :
  wf_cut C -> templates_ok C fdC -> is_base C BC -> wf_dict fdC ->
  wf_cut D -> templates_ok D fdD -> is_base D BD ->
  (aa = true -> forall x, In x (flat C) ->
     (exists e, aget (S "element") (payload C x) = Some e) /\ exists h, aget (S "hcount") (payload C x) = Some (VInt h)) ->
  (aa = true -> forall x, In x (flat D) ->
     (exists e, aget (S "element") (payload D x) = Some e) /\ exists h, aget (S "hcount") (payload D x) = Some (VInt h)) ->
  expands C D L orig ->
  exists gs fgs gd fgd,
    (st <- resolve_disconnected (fdmap (bangify L) fdC) BC ;; bonding_step true aa BC (fst st) (snd st)) = Ok (gs, fgs) /\
    (st <- resolve_disconnected fdD BD ;; bonding_step true aa BD (fst st) (snd st)) = Ok (gd, fgd) /\
    (hnum_g gs -> forall g', squash_atoms gs = Ok g' ->
       forall x, In x (flat C) -> exists y l, In y (node_keys g') /\ pi_cut C D orig y = phi D (orig x) /\
         node_get g' y (S "fragid") = Some (VList l) /\ In (VInt (Z.of_nat (owner C x))) l).
Proof.
  intros WC TC IC WdC WD TD ID HaC HaD X.
  destruct (cut_runs C D L aa fdC BC fdD BD WC TC IC WdC WD TD ID HaC HaD) as (gs' & fgs & gd & fgd & R1 & R2 & SkC & SkD & Adj & T).
  exists (gmap (bangify L) gs'), fgs, gd, fgd. split; [exact R1|]. split; [exact R2|]. intros HN g' Q.
  apply (share_vs_cut_membership C D L aa gs' gd orig g' WC WD SkC SkD Adj X T); [|exact Q].
  intros i a H. assert (H' : nattrs (gmap (bangify L) gs') i = Some (Fa (bangify L) a)) by (rewrite nattrs_gmap, H; reflexivity).
  pose proof (HN i _ H') as Y. unfold hnum in *. change squash_min_attr with (S "hcount") in *.
  rewrite aget_Fa_other in Y by exact hcount_ne. exact Y.
Qed.

(** ---- the count: the squashed graph has as many atoms as the molecule, the bonded graph as many as the fragments
    contain together *)
Theorem share_vs_cut_count C D L aa gs' gd orig g' : wf_cut C -> wf_cut D ->
  skeleton C aa gs' -> skeleton D aa gd -> adj_nodup gs' -> expands C D L orig ->
  squash_atoms (gmap (bangify L) gs') = Ok g' ->
  length g' = length (flat D) /\ length (gmap (bangify L) gs') = length (flat C).
Proof.
  intros WC WD SkC SkD Adj X Q.
  pose proof (cut_skeleton_wf C WC aa gs' SkC) as Wf. pose proof (wf_graph_gmap (bangify L) _ Wf) as Wg.
  destruct (squash_quotient _ g' Wg Q) as (Wg' & _).
  destruct (share_vs_cut_skeletons C D WC WD L aa gs' gd SkC SkD Adj orig X g' Q) as (A & B & Ci & _).
  pose proof (cut_skeleton_wf D WD aa gd SkD) as Wd.
  assert (Lg : forall g, length g = length (node_keys g)) by (intros g; unfold node_keys; now rewrite map_length).
  split.
  - rewrite (Lg g'). transitivity (length (node_keys gd)); [|rewrite (sk_keys _ _ _ SkD), map_length, seq_length; reflexivity].
    set (pi := pi_cut C D orig) in *.
    assert (Nm : NoDup (map pi (node_keys g'))).
    { clear A B. pose proof (wf_nodup _ Wg') as Nd. induction (node_keys g') as [|y l IH]; [constructor|]. cbn [map].
      inversion Nd as [|? ? Hy Hl]; subst. constructor.
      - intros Hin. apply in_map_iff in Hin as (z & Ez & Hz). apply Hy. rewrite (Ci y z); [exact Hz|now left|now right|now symmetry].
      - apply IH; [|exact Hl]. intros a b Ha Hb. apply Ci; now right. }
    rewrite <- (map_length pi (node_keys g')). apply Nat.le_antisymm.
    + apply NoDup_incl_length; [exact Nm|]. intros a Ha. apply in_map_iff in Ha as (y & <- & Hy). apply has_node_keys. now apply A.
    + apply NoDup_incl_length; [exact (wf_nodup _ Wd)|]. intros a Ha. apply has_node_keys in Ha. destruct (B a Ha) as (y & Hy & <-).
      now apply in_map.
  - rewrite Lg, node_keys_gmap, (sk_keys _ _ _ SkC), map_length, seq_length. reflexivity.
Qed.
