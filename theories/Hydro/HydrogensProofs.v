(** HydrogensProofs: theorems about the Hydrogens model (C09). *)
From Coq Require Import String.
From Coq Require Import List Ascii ZArith Bool Lia.
From CGV Require Import Base.PyBase Base.PyVal Base.NxGraph Gen.HydroGen Hydro.Hydrogens Hydro.HydroDefs.
Import ListNotations.
Open Scope Z_scope.

(** bounded: the bound is the GENERATED table itself (70 rows today) *)
Lemma valence_table_wf : table_wf valence_table = true.
Proof. vm_compute. reflexivity. Qed.
