(** HydrogensProofs: theorems about the Hydrogens model (C09). *)
From Coq Require Import String.
From Coq Require Import List Ascii ZArith Bool Lia.
From CGV Require Import Base.PyBase Base.PyVal Base.NxGraph Gen.HydroGen Hydro.Hydrogens Hydro.HydroDefs.
Import ListNotations.
Open Scope Z_scope.

(** bounded: the bound is the GENERATED table itself (70 rows today) *)
Lemma valence_table_wf : table_wf valence_table = true.
Proof. vm_compute. reflexivity. Qed.

(** ------------------------------------------------------------ arithmetic of bonds_missing *)
Lemma ascending_head_lt x l : ascending (x :: l) = true -> forall w, In w l -> x < w.
Proof.
  revert x. induction l as [|y l IH]; intros x H w Hin; [contradiction|].
  cbn in H. apply andb_true_iff in H as [Hxy Hasc]. apply Z.ltb_lt in Hxy.
  destruct Hin as [->|Hin]; [assumption|].
  specialize (IH y Hasc w Hin). lia.
Qed.
Lemma ascending_tail x l : ascending (x :: l) = true -> ascending l = true.
Proof. destruct l; cbn; [reflexivity|]. intros H. apply andb_true_iff in H. tauto. Qed.

Lemma find_least val b2 : ascending val = true ->
  forall v, find (fun v => b2 <=? 2 * v) val = Some v -> least_fitting val b2 v.
Proof.
  induction val as [|x l IH]; intros Hasc v Hf; [discriminate|].
  cbn [find] in Hf. destruct (b2 <=? 2 * x) eqn:E.
  - inversion Hf; subst. apply Z.leb_le in E. split; [now left|]. split; [assumption|].
    intros w [->|Hin] _; [lia|]. pose proof (ascending_head_lt _ _ Hasc w Hin). lia.
  - apply Z.leb_gt in E. destruct (IH (ascending_tail _ _ Hasc) v Hf) as (Hin & Hle & Hmin).
    split; [now right|]. split; [assumption|].
    intros w [->|Hw] Hb; [lia|auto].
Qed.
Lemma find_fits val b2 : fits val b2 -> exists v, find (fun v => b2 <=? 2 * v) val = Some v.
Proof.
  intros (w & Hin & Hle). induction val as [|x l IH]; [contradiction|].
  cbn [find]. destruct (b2 <=? 2 * x) eqn:E; [eauto|].
  destruct Hin as [->|Hin]; [apply Z.leb_gt in E; lia|auto].
Qed.

(** [bonds_missing_spec]: for a well-formed row and a bond sum that fits, the model's count of missing
    bonds is int(v - b) for the LEAST fitting valence v; it is never negative; when the sum is
    integral (even number of half units) the sum plus the count is exactly v. *)
Theorem bonds_missing_spec val b2 : row_wf val = true -> fits val b2 ->
  exists v, least_fitting val b2 v /\ missing_of val b2 = Z.quot (2 * v - b2) 2 /\
            0 <= missing_of val b2 /\
            (Z.even b2 = true -> b2 + 2 * missing_of val b2 = 2 * v) /\
            (Z.even b2 = false -> b2 + 2 * missing_of val b2 = 2 * v - 1).
Proof.
  intros Hwf Hfit. unfold row_wf in Hwf. destruct val as [|x l] eqn:Ev; [discriminate|].
  apply andb_true_iff in Hwf as [_ Hasc]. rewrite <- Ev in *.
  destruct (find_fits val b2 Hfit) as [v Hf].
  pose proof (find_least val b2 Hasc v Hf) as HL.
  exists v. split; [assumption|]. unfold missing_of, pick_valence, trunc_half. rewrite Hf.
  destruct HL as (_ & Hle & _).
  assert (Hq : 0 <= 2 * v - b2) by lia.
  split; [reflexivity|]. split; [apply Z.quot_pos; lia|].
  split; intros Hev.
  - apply Zeven_bool_iff in Hev. destruct (Zeven_ex _ Hev) as [m Hm].
    replace (2 * v - b2) with ((v - m) * 2) by lia. rewrite Z.quot_mul by lia. lia.
  - assert (Hodd : Z.odd b2 = true) by (rewrite <- Z.negb_even, Hev; reflexivity).
    apply Zodd_bool_iff in Hodd. destruct (Zodd_ex _ Hodd) as [m Hm].
    replace (2 * v - b2) with (1 + (v - m - 1) * 2) by lia.
    rewrite Z.quot_add by lia. change (1 ÷ 2) with 0. lia.
Qed.

(** rows of the generated table are well formed *)
Lemma table_row_wf e q val : table_row e q = Some (Some val) -> row_wf val = true.
Proof.
  unfold table_row. destruct (find _ valence_table) as [row|] eqn:E; [|discriminate].
  intros H. inversion H as [H1]. apply find_some in E as [Hin _].
  pose proof valence_table_wf as W. unfold table_wf in W. rewrite forallb_forall in W.
  specialize (W row Hin). rewrite H1 in W. exact W.
Qed.

(** [valence_complete]: for EVERY element/charge row of the generated table and every bond sum within
    the largest valence, the hydrogen count that fill_valence stores (max(bonds_missing, 0), hcount
    having been reset to 0) is the least fitting valence minus the bonds, and bonds + hydrogens = that
    valence (integral sums; half-integral sums — an odd number of aromatic bonds — come out half a
    unit short, pysmiles' int()). *)
Theorem valence_complete e q val b2 : table_row e q = Some (Some val) -> fits val b2 ->
  let h := Z.max (missing_of val b2) 0 in
  exists v, least_fitting val b2 v /\
            (Z.even b2 = true -> 2 * h = 2 * v - b2 /\ b2 + 2 * h = 2 * v) /\
            (Z.even b2 = false -> 2 * h = 2 * v - b2 - 1).
Proof.
  intros Hrow Hfit h. destruct (bonds_missing_spec val b2 (table_row_wf _ _ _ Hrow) Hfit)
    as (v & HL & _ & Hpos & Hev & Hodd).
  exists v. split; [assumption|]. subst h. rewrite Z.max_l by lia.
  split; intros H; [specialize (Hev H)|specialize (Hodd H)]; lia.
Qed.

(** non-vacuity: neutral carbon with two single bonds and one aromatic pair *)
Example valence_complete_nonvacuous :
  table_row (S "C") 0 = Some (Some [4]) /\ fits [4] 4 /\ missing_of [4] 4 = 2 /\ missing_of [4] 6 = 1 /\
  table_row (S "N") 0 = Some (Some [3; 5]) /\ missing_of [3; 5] 8 = 1 /\ missing_of [3; 5] 9 = 0.
Proof. repeat split; try reflexivity. exists 4. split; [now left|lia]. Qed.

(** ------------------------------------------------------------ fill_valence on one atom *)
From CGV Require Import Hydro.GraphLemmas.

(** with the constants rebuild_h_atoms hands to pysmiles (regenerated from the source:
    respect_hcount=False, hcount reset to 0), one step of fill_valence stores
    max(bonds_missing, 0) computed from the bonds alone *)
Theorem fill_step_spec g k n b val :
  gfind k g = Some n -> is_H (na n) = false ->
  aget (S "hcount") (na n) = Some (VInt rebuild_reset_value) ->
  sum_orders (nadj n) = Ok b -> valence_of (na n) = Ok val ->
  fill_step rebuild_respect_hcount g k
  = Ok (set_node_attr g k (S "hcount") (VInt (Z.max (missing_of val b) 0))).
Proof.
  intros Hk HH Hh Hb Hv. unfold fill_step, bonds_missing, node_attrs, bonds_half, hcount_half.
  rewrite Hk. cbn [bind]. rewrite HH.
  change rebuild_respect_hcount with false. rewrite andb_false_r. cbn [orb].
  cbn [bind]. rewrite Hb. cbn [bind]. rewrite Hh.
  change rebuild_reset_value with 0. cbn [half_of_num bind as_int]. rewrite Hv. cbn [bind].
  rewrite Z.add_0_r. reflexivity.
Qed.

(** ------------------------------------------------------------ descriptors contribute no edges *)
Lemma bonding_ne x : x <> S "bonding" -> forall v a, aget x (aset (S "bonding") v a) = aget x a.
Proof. intros N v a. apply aget_aset_other. exact N. Qed.

Lemma valence_of_bonding v a : valence_of (aset (S "bonding") v a) = valence_of a.
Proof.
  unfold valence_of, charge_of. rewrite !bonding_ne by (intro H; vm_compute in H; discriminate). reflexivity.
Qed.
Lemma hcount_half_bonding v a : hcount_half (aset (S "bonding") v a) = hcount_half a.
Proof. unfold hcount_half. rewrite bonding_ne by (intro H; vm_compute in H; discriminate). reflexivity. Qed.

(** [unused_descriptor_is_H]: whatever list of (unconsumed) bonding descriptors a node carries, the
    number of bonds found missing on any atom is the same: descriptors are node attributes, they
    contribute no edge, so the valence a surplus descriptor leaves open is filled with hydrogen
    exactly as [valence_complete] says. *)
Theorem unused_descriptor_is_H g j v k :
  bonds_missing (set_node_attr g j (S "bonding") v) k = bonds_missing g k.
Proof.
  unfold bonds_missing, node_attrs, bonds_half. rewrite gfind_set_node_attr.
  destruct (Z.eqb k j); [|reflexivity].
  destruct (gfind k g) as [n|]; cbn [option_map bind na nadj]; [|reflexivity].
  rewrite hcount_half_bonding, valence_of_bonding. reflexivity.
Qed.
Example unused_descriptor_nonvacuous :
  let g := [{| nk := 0; na := [(S "element", VStr (S "C")); (S "charge", VInt 0); (S "bonding", VList [VStr (S "$1"); VStr (S "$1")])];
               nadj := [(1, [(S "order", VInt 1)])] |};
            {| nk := 1; na := [(S "element", VStr (S "C")); (S "charge", VInt 0)]; nadj := [(0, [(S "order", VInt 1)])] |}] in
  bonds_missing g 0 = Ok 3 /\ bonds_missing (set_node_attr g 0 (S "bonding") (VList [])) 0 = Ok 3.
Proof. split; vm_compute; reflexivity. Qed.

(** ------------------------------------------------------------ attribute inheritance *)
(** what the loop does to the hydrogen's attribute dict, given the anchor's dict *)
Definition inherit_pure (an : attrs) (l : list pystr) (a : attrs) : attrs :=
  fold_left (fun a attr => if ahas attr a then a else aset attr (getd attr an VNone) a) l a.

Lemma gupdate_gupdate k f1 f2 g : (forall n, nk (f1 n) = nk n) ->
  gupdate k f2 (gupdate k f1 g) = gupdate k (fun n => f2 (f1 n)) g.
Proof.
  intros H. induction g as [|n r IH]; cbn; [reflexivity|].
  destruct (Z.eqb (nk n) k) eqn:E; cbn; [rewrite H, E; reflexivity|rewrite E, IH; reflexivity].
Qed.
Lemma gupdate_id k g : gupdate k (fun n => n) g = g.
Proof. induction g as [|n r IH]; cbn; [reflexivity|]. destruct (Z.eqb (nk n) k); [reflexivity|now rewrite IH]. Qed.
Lemma gupdate_ext k f1 f2 g : (forall n, f1 n = f2 n) -> gupdate k f1 g = gupdate k f2 g.
Proof. intros H. induction g as [|n r IH]; cbn; [reflexivity|]. destruct (Z.eqb (nk n) k); [now rewrite H|now rewrite IH]. Qed.

Definition set_attrs (A : attrs) (n : nrec) : nrec := {| nk := nk n; na := A; nadj := nadj n |}.
Lemma gupdate_self k g n : gfind k g = Some n -> gupdate k (set_attrs (na n)) g = g.
Proof.
  induction g as [|m r IH]; cbn; [reflexivity|].
  destruct (Z.eqb (nk m) k); [intros H; inversion H; subst; destruct n; reflexivity|intros H; now rewrite IH].
Qed.

Lemma inherit_fold k anchor m l : anchor <> k -> forall g A n,
  gfind k g = Some n -> gfind anchor g = Some m ->
  fold_res (inherit_attr k anchor) l (gupdate k (set_attrs A) g)
  = Ok (gupdate k (set_attrs (inherit_pure (na m) l A)) g).
Proof.
  intros Hne. induction l as [|attr l IH]; intros g A n Hk Ha; [reflexivity|].
  cbn [fold_res]. unfold inherit_attr at 1. unfold node_attrs.
  rewrite !gfind_gupdate by reflexivity. rewrite Z.eqb_refl, Hk.
  destruct (Z.eqb anchor k) eqn:E; [apply Z.eqb_eq in E; contradiction|]. rewrite Ha.
  cbn [option_map bind set_attrs na].
  unfold inherit_pure. cbn [fold_left]. fold (inherit_pure (na m) l).
  destruct (ahas attr A) eqn:Eh; cbn [bind].
  - exact (IH g A n Hk Ha).
  - unfold set_node_attr. rewrite gupdate_gupdate by reflexivity.
    rewrite (gupdate_ext k _ (set_attrs (aset attr (getd attr (na m) VNone) A))) by reflexivity.
    exact (IH g _ n Hk Ha).
Qed.

Lemma inherit_pure_get an l : forall a attr,
  aget attr (inherit_pure an l a) =
  match aget attr a with
  | Some v => Some v
  | None => if str_in attr l then Some (getd attr an VNone) else None
  end.
Proof.
  unfold inherit_pure. induction l as [|x l IH]; intros a attr; cbn [fold_left str_in existsb].
  - destruct (aget attr a); reflexivity.
  - rewrite IH. unfold ahas.
    destruct (aget x a) eqn:Ex.
    + destruct (aget attr a) eqn:Ea; [reflexivity|].
      destruct (str_eqb_spec attr x) as [->|N]; [congruence|reflexivity].
    + destruct (str_eqb_spec attr x) as [->|N].
      * rewrite aget_aset_same, Ex. reflexivity.
      * rewrite aget_aset_other by exact N. destruct (aget attr a); reflexivity.
Qed.

(** [h_inherits]: a hydrogen that is not a single-H fragment receives, for every attribute in
    copy_attrs that it does not carry yet, the value of its FIRST neighbour (None if the neighbour
    lacks it); attributes it already carries, its bonds, and all other atoms are untouched. *)
Theorem h_inherits copy_attrs g k n anchor rest m :
  gfind k g = Some n -> wants_inherit (na n) = true ->
  neighbors g k = anchor :: rest -> anchor <> k -> gfind anchor g = Some m ->
  exists g', inherit_step copy_attrs g k = Ok g' /\
    (forall j, j <> k -> gfind j g' = gfind j g) /\
    exists n', gfind k g' = Some n' /\ nadj n' = nadj n /\
      forall attr, aget attr (na n') =
        match aget attr (na n) with
        | Some v => Some v
        | None => if str_in attr copy_attrs then Some (getd attr (na m) VNone) else None
        end.
Proof.
  intros Hk Hw Hn Hne Ha. unfold inherit_step, node_attrs. rewrite Hk. cbn [bind]. rewrite Hw, Hn.
  pose proof (inherit_fold k anchor m copy_attrs Hne g (na n) n Hk Ha) as HF.
  rewrite (gupdate_self k g n Hk) in HF. rewrite HF.
  eexists. split; [reflexivity|]. split.
  - intros j Hj. rewrite gfind_gupdate by reflexivity. apply Z.eqb_neq in Hj. rewrite Hj. reflexivity.
  - rewrite gfind_gupdate by reflexivity. rewrite Z.eqb_refl, Hk. cbn [option_map].
    eexists. split; [reflexivity|]. split; [reflexivity|]. intros attr. cbn [na set_attrs]. apply inherit_pure_get.
Qed.

(** non-vacuity, and the two exceptions: an explicit hydrogen keeps what it has; a single-H fragment is skipped *)
Example h_inherits_nonvacuous :
  let c := {| nk := 0; na := [(S "element", VStr (S "C")); (S "fragid", VList [VInt 3]); (S "fragname", VStr (S "A"))];
              nadj := [(1, [(S "order", VInt 1)]); (2, [(S "order", VInt 1)]); (3, [(S "order", VInt 1)])] |} in
  let h a := {| nk := fst a; na := (S "element", VStr (S "H")) :: snd a; nadj := [(0, [(S "order", VInt 1)])] |} in
  let g := [c; h (1, []); h (2, [(S "fragname", VStr (S "own"))]); h (3, [(S "single_h_frag", VBool true)])] in
  match inherit_all rebuild_copy_attrs_default g with
  | Ok g' => node_get g' 1 (S "fragid") = Some (VList [VInt 3]) /\ node_get g' 1 (S "fragname") = Some (VStr (S "A"))
             /\ node_get g' 1 (S "weight") = Some VNone
             /\ node_get g' 2 (S "fragname") = Some (VStr (S "own")) /\ node_get g' 2 (S "fragid") = Some (VList [VInt 3])
             /\ node_get g' 3 (S "fragid") = None
  | Err _ => False
  end.
Proof. vm_compute. repeat split; reflexivity. Qed.

(** ------------------------------------------------------------ attaching hydrogens *)
Lemma gfind_app i g r : gfind i (g ++ [r]) =
  match gfind i g with Some n => Some n | None => if Z.eqb (nk r) i then Some r else None end.
Proof.
  induction g as [|m g IH]; cbn; [reflexivity|]. destruct (Z.eqb (nk m) i); [reflexivity|exact IH].
Qed.
Lemma existsb_eqb_In i l : existsb (Z.eqb i) l = true <-> In i l.
Proof.
  rewrite existsb_exists. split; [intros (x & Hin & E); apply Z.eqb_eq in E; now subst|].
  intros H. exists i. split; [assumption|apply Z.eqb_refl].
Qed.

Lemma add_nodes_find A : forall idxs g, NoDup idxs -> (forall j, In j idxs -> gfind j g = None) ->
  forall i, gfind i (fold_left (fun acc j => add_node acc j A) idxs g)
            = if existsb (Z.eqb i) idxs then Some {| nk := i; na := A; nadj := [] |} else gfind i g.
Proof.
  induction idxs as [|j r IH]; intros g Hnd Hfresh i; [reflexivity|].
  cbn [fold_left existsb]. inversion Hnd as [|? ? Hnotin Hnd']; subst.
  assert (Hj : gfind j g = None) by (apply Hfresh; now left).
  unfold add_node at 2. unfold has_node. rewrite Hj.
  rewrite IH; [|assumption|].
  - rewrite gfind_app. cbn [nk].
    destruct (Z.eqb i j) eqn:Eij; cbn [orb].
    + apply Z.eqb_eq in Eij. subst i.
      destruct (existsb (Z.eqb j) r) eqn:Er; [apply existsb_eqb_In in Er; contradiction|].
      rewrite Hj, Z.eqb_refl. reflexivity.
    + destruct (existsb (Z.eqb i) r); [reflexivity|].
      destruct (gfind i g); [reflexivity|]. rewrite Z.eqb_sym, Eij. reflexivity.
  - intros j' Hin. rewrite gfind_app. rewrite (Hfresh j') by now right. cbn [nk].
    destruct (Z.eqb j j') eqn:E; [apply Z.eqb_eq in E; subst; contradiction|reflexivity].
Qed.

Lemma adj_set_fresh j d l : adj_get j l = None -> adj_set j d l = l ++ [(j, d)].
Proof.
  induction l as [|[w b] l IH]; cbn; [reflexivity|].
  destruct (Z.eqb w j); [discriminate|]. intros H. now rewrite IH.
Qed.
Lemma adj_get_app_other j j' d l : j' <> j -> adj_get j' (l ++ [(j, d)]) = adj_get j' l.
Proof.
  intros N. induction l as [|[w b] l IH]; cbn.
  - destruct (Z.eqb j j') eqn:E; [apply Z.eqb_eq in E; congruence|reflexivity].
  - destruct (Z.eqb w j'); [reflexivity|exact IH].
Qed.

Lemma add_edge_fresh g k j ak adjk A : k <> j ->
  gfind k g = Some {| nk := k; na := ak; nadj := adjk |} ->
  gfind j g = Some {| nk := j; na := A; nadj := [] |} -> adj_get j adjk = None ->
  let g' := add_edge g k j h_edge_attrs in
  gfind k g' = Some {| nk := k; na := ak; nadj := adjk ++ [(j, h_edge_attrs)] |} /\
  gfind j g' = Some {| nk := j; na := A; nadj := [(k, h_edge_attrs)] |} /\
  (forall i, i <> k -> i <> j -> gfind i g' = gfind i g).
Proof.
  intros Hkj Hk Hj Hadj. cbn zeta. unfold add_edge, has_node, edge_attrs. rewrite Hk, Hj, Hk. cbn [nadj].
  rewrite Hadj. change (aupdate [] h_edge_attrs) with h_edge_attrs.
  assert (Ejk : Z.eqb j k = false) by (apply Z.eqb_neq; congruence).
  assert (Ekj : Z.eqb k j = false) by (apply Z.eqb_neq; congruence).
  repeat split.
  - rewrite !gfind_gupdate by reflexivity. rewrite Ekj, Z.eqb_refl, Hk. cbn [option_map nk na nadj].
    rewrite adj_set_fresh by assumption. reflexivity.
  - rewrite !gfind_gupdate by reflexivity. rewrite Z.eqb_refl, Ejk, Hj. reflexivity.
  - intros i Hik Hij. rewrite !gfind_gupdate by reflexivity.
    apply Z.eqb_neq in Hik, Hij. rewrite Hik, Hij. reflexivity.
Qed.

Lemma add_edges_find k ak A : forall idxs g adjk, NoDup idxs -> ~ In k idxs ->
  gfind k g = Some {| nk := k; na := ak; nadj := adjk |} ->
  (forall j, In j idxs -> gfind j g = Some {| nk := j; na := A; nadj := [] |}) ->
  (forall j, In j idxs -> adj_get j adjk = None) ->
  let g' := fold_left (fun acc j => add_edge acc k j h_edge_attrs) idxs g in
  gfind k g' = Some {| nk := k; na := ak; nadj := adjk ++ map (fun j => (j, h_edge_attrs)) idxs |} /\
  (forall j, In j idxs -> gfind j g' = Some {| nk := j; na := A; nadj := [(k, h_edge_attrs)] |}) /\
  (forall i, i <> k -> ~ In i idxs -> gfind i g' = gfind i g).
Proof.
  induction idxs as [|j r IH]; intros g adjk Hnd Hk_notin Hk Hjs Hadj; cbn zeta.
  - cbn. rewrite app_nil_r. repeat split; [assumption|contradiction].
  - cbn [fold_left map]. inversion Hnd as [|? ? Hnotin Hnd']; subst.
    assert (Hkj : k <> j) by (intro E; apply Hk_notin; now left).
    destruct (add_edge_fresh g k j ak adjk A Hkj Hk (Hjs j (or_introl eq_refl)) (Hadj j (or_introl eq_refl)))
      as (Hk1 & Hj1 & Ho1).
    destruct (IH (add_edge g k j h_edge_attrs) (adjk ++ [(j, h_edge_attrs)]) Hnd') as (Hk2 & Hj2 & Ho2).
    + intro H. apply Hk_notin. now right.
    + exact Hk1.
    + intros j' Hin. rewrite Ho1; [apply Hjs; now right| |].
      * intro E. apply Hk_notin. subst. now right.
      * intro E. subst. contradiction.
    + intros j' Hin. rewrite adj_get_app_other; [apply Hadj; now right|]. intro E. subst. contradiction.
    + repeat split.
      * rewrite Hk2. rewrite <- app_assoc. reflexivity.
      * intros j' [->|Hin]; [|apply Hj2; assumption].
        rewrite Ho2; [exact Hj1|congruence|assumption].
      * intros i Hik Hnot. rewrite Ho2; [apply Ho1; [assumption|]|assumption|].
        -- intro E. apply Hnot. now left.
        -- intro H. apply Hnot. now right.
Qed.

(** [add_h_degree_one]: attaching the hydrogens with fresh keys [idxs] to atom [k] gives every new
    hydrogen exactly ONE edge, of order 1, to its anchor [k] and the attributes of parse_atom('[H]');
    the anchor keeps its attributes and its old adjacency, extended by the new hydrogens in order;
    every other atom, with all its edges, is untouched. *)
Theorem add_h_degree_one g k n idxs :
  gfind k g = Some n -> NoDup idxs -> (forall j, In j idxs -> gfind j g = None) ->
  (forall j, In j idxs -> adj_get j (nadj n) = None) ->
  let g' := attach_h g k idxs in
  (forall j, In j idxs ->
     gfind j g' = Some {| nk := j; na := h_atom_defaults; nadj := [(k, h_edge_attrs)] |}) /\
  gfind k g' = Some {| nk := k; na := na n; nadj := nadj n ++ map (fun j => (j, h_edge_attrs)) idxs |} /\
  (forall i, i <> k -> ~ In i idxs -> gfind i g' = gfind i g).
Proof.
  intros Hk Hnd Hfresh Hadj. cbn zeta. unfold attach_h.
  assert (Hnk : ~ In k idxs) by (intro H; rewrite (Hfresh k H) in Hk; discriminate).
  pose proof (add_nodes_find h_atom_defaults idxs g Hnd Hfresh) as HN.
  set (g1 := fold_left (fun acc j => add_node acc j h_atom_defaults) idxs g) in *.
  assert (Hk1 : gfind k g1 = Some {| nk := k; na := na n; nadj := nadj n |}).
  { rewrite HN. destruct (existsb (Z.eqb k) idxs) eqn:E; [apply existsb_eqb_In in E; contradiction|].
    rewrite Hk. pose proof (gfind_key _ _ _ Hk). destruct n; cbn in *; subst; reflexivity. }
  assert (Hj1 : forall j, In j idxs -> gfind j g1 = Some {| nk := j; na := h_atom_defaults; nadj := [] |}).
  { intros j Hin. rewrite HN. apply existsb_eqb_In in Hin. rewrite Hin. reflexivity. }
  destruct (add_edges_find k (na n) h_atom_defaults idxs g1 (nadj n) Hnd Hnk Hk1 Hj1 Hadj) as (Hk2 & Hj2 & Ho2).
  split; [exact Hj2|]. split; [exact Hk2|].
  intros i Hik Hnot. rewrite Ho2 by assumption. rewrite HN.
  destruct (existsb (Z.eqb i) idxs) eqn:E; [apply existsb_eqb_In in E; contradiction|reflexivity].
Qed.

(** the keys add_explicit_hydrogens uses are fresh: above every existing key, pairwise distinct *)
Lemma fold_max_ge l : forall a x, (x = a \/ In x l) -> x <= fold_left Z.max l a.
Proof.
  induction l as [|y l IH]; intros a x H; cbn.
  - destruct H as [->|[]]. lia.
  - destruct H as [->|[->|H]].
    + transitivity (Z.max a y); [lia|apply IH; now left].
    + transitivity (Z.max a x); [lia|apply IH; now left].
    + apply IH. now right.
Qed.
Lemma max_key_ge g x : In x (node_keys g) -> x <= max_key g.
Proof.
  unfold max_key. destruct (node_keys g) as [|a l]; [contradiction|].
  intros [->|H]; apply fold_max_ge; [now left|now right].
Qed.
Lemma fresh_keys_fresh g h j : In j (fresh_keys g h) -> gfind j g = None.
Proof.
  unfold fresh_keys. rewrite in_map_iff. intros (i & <- & _).
  apply gfind_none_keys. intro H. apply max_key_ge in H. lia.
Qed.
From Coq Require FinFun.
Lemma fresh_keys_nodup g h : NoDup (fresh_keys g h).
Proof.
  unfold fresh_keys. apply FinFun.Injective_map_NoDup; [|apply seq_NoDup].
  intros a b H. lia.
Qed.

Example add_h_degree_one_nonvacuous :
  let g := [{| nk := 0; na := [(S "element", VStr (S "C")); (S "hcount", VInt 2)]; nadj := [(5, [(S "order", VInt 2)])] |};
            {| nk := 5; na := [(S "element", VStr (S "O")); (S "hcount", VInt 0)]; nadj := [(0, [(S "order", VInt 2)])] |}] in
  fresh_keys g 2 = [6; 7] /\
  match add_explicit_hydrogens g with
  | Ok g' => neighbors g' 0 = [5; 6; 7] /\ neighbors g' 6 = [0] /\ neighbors g' 7 = [0] /\ neighbors g' 5 = [0]
             /\ node_get g' 0 (S "hcount") = None
  | Err _ => False
  end.
Proof. vm_compute. repeat split; reflexivity. Qed.
