(** RebuildProofs: the END-TO-END theorem of property C09 on the model: what rebuild_h_atoms returns,
    for every molecule graph with distinct keys and closed adjacency and every aromaticity transcript,
    by induction over the node lists of fill_valence, add_explicit_hydrogens and the inheritance loop. *)
From Coq Require Import String.
From Coq Require Import List Ascii ZArith Bool Lia.
From CGV Require Import Base.PyBase Base.PyVal Base.NxGraph Gen.HydroGen Hydro.Hydrogens Hydro.HydroDefs
     Hydro.GraphLemmas Hydro.HydrogensProofs.
Import ListNotations.
Open Scope Z_scope.

Lemma nrec_eta n : {| nk := nk n; na := na n; nadj := nadj n |} = n.
Proof. destruct n; reflexivity. Qed.

(** ------------------------------------------------------------ folds whose steps update one node locally *)
Section Local.
  Variable F : nrec -> res (option pyval).
  Variable attr : pystr.
  Definition upd (n : nrec) (r : option pyval) : nrec :=
    match r with None => n | Some v => {| nk := nk n; na := aset attr v (na n); nadj := nadj n |} end.
  Definition lstep (g : graph) (k : Z) : res graph :=
    match gfind k g with
    | None => Err EKey
    | Some n => r <- F n ;; Ok (match r with None => g | Some v => set_node_attr g k attr v end)
    end.
  Lemma lstep_spec g k g' : lstep g k = Ok g' ->
    exists n r, gfind k g = Some n /\ F n = Ok r /\ gfind k g' = Some (upd n r) /\
                node_keys g' = node_keys g /\ forall i, i <> k -> gfind i g' = gfind i g.
  Proof.
    unfold lstep. destruct (gfind k g) as [n|] eqn:G; [|discriminate].
    destruct (F n) as [r|] eqn:E; cbn [bind]; [|discriminate]. intros H. inversion H; subst g'. clear H.
    exists n, r. split; [first [reflexivity|assumption]|]. split; [first [reflexivity|assumption]|]. destruct r as [v|]; cbn [upd].
    - split; [rewrite gfind_set_node_attr, Z.eqb_refl, G; reflexivity|].
      split; [unfold set_node_attr; apply node_keys_gupdate; reflexivity|].
      intros i Hi. rewrite gfind_set_node_attr. apply Z.eqb_neq in Hi. now rewrite Hi.
    - split; [assumption|]. split; [reflexivity|]. reflexivity.
  Qed.
  Lemma local_fold ks : NoDup ks -> forall g g', fold_res lstep ks g = Ok g' ->
    node_keys g' = node_keys g /\
    (forall i, ~ In i ks -> gfind i g' = gfind i g) /\
    (forall i, In i ks -> exists n r, gfind i g = Some n /\ F n = Ok r /\ gfind i g' = Some (upd n r)).
  Proof.
    induction ks as [|k ks IH]; intros Hnd g g' H.
    - cbn in H. inversion H; subst. split; [reflexivity|]. split; [reflexivity|intros i []].
    - cbn [fold_res] in H. destruct (lstep g k) as [g1|] eqn:S1; cbn [bind] in H; [|discriminate].
      inversion Hnd as [|? ? Hk Hnd']; subst.
      destruct (lstep_spec _ _ _ S1) as (n & r & G & Fn & G1 & K1 & O1).
      destruct (IH Hnd' g1 g' H) as (K & O & I).
      split; [congruence|]. split.
      + intros i Hi. rewrite O by (intro X; apply Hi; now right). apply O1. intro X. apply Hi. now left.
      + intros i [->|Hi].
        * exists n, r. repeat split; try assumption. rewrite O by assumption. exact G1.
        * destruct (I i Hi) as (n' & r' & G' & F' & R'). exists n', r'. repeat split; try assumption.
          rewrite <- O1; [assumption|]. intro X. subst. contradiction.
  Qed.
End Local.

(** ------------------------------------------------------------ phase 1: fill_valence *)
Definition fill_node (respect : bool) (n : nrec) : res (option pyval) :=
  if (ahas (S "hcount") (na n) && respect) || is_H (na n) then Ok None else
  b <- sum_orders (nadj n) ;;
  h <- hcount_half (na n) ;;
  val <- valence_of (na n) ;;
  old <- match aget (S "hcount") (na n) with Some v => as_int v | None => Ok 0 end ;;
  Ok (Some (VInt (old + Z.max (missing_of val (b + h)) 0))).
Lemma fill_step_local respect g k : fill_step respect g k = lstep (fill_node respect) (S "hcount") g k.
Proof.
  unfold fill_step, lstep, fill_node, bonds_missing, node_attrs, bonds_half.
  destruct (gfind k g) as [n|]; [|reflexivity]. cbn [bind].
  destruct ((ahas (S "hcount") (na n) && respect) || is_H (na n)); [reflexivity|].
  destruct (sum_orders (nadj n)); cbn [bind]; [|reflexivity].
  destruct (hcount_half (na n)); cbn [bind]; [|reflexivity].
  destruct (valence_of (na n)); cbn [bind]; [|reflexivity].
  destruct (match aget (S "hcount") (na n) with Some v => as_int v | None => Ok 0 end); reflexivity.
Qed.
Lemma fold_res_ext {A B} (f g : A -> B -> res A) l : (forall a x, f a x = g a x) -> forall a, fold_res f l a = fold_res g l a.
Proof. intros H. induction l as [|x l IH]; intros a; cbn; [reflexivity|]. rewrite H. destruct (g a x); cbn; auto. Qed.

(** ------------------------------------------------------------ phase 2: add_explicit_hydrogens *)
Definition closed_g (g : graph) : Prop :=
  forall i n w a, gfind i g = Some n -> In (w, a) (nadj n) -> gfind w g <> None.
Definition hcount_int (a : attrs) : res Z :=
  match aget (S "hcount") a with
  | None => Ok 0
  | Some (VInt h) => Ok h
  | Some (VBool b) => Ok (if b then 1 else 0)
  | Some _ => Err EType
  end.
Definition hrec (j k : Z) : nrec := {| nk := j; na := h_atom_defaults; nadj := [(k, h_edge_attrs)] |}.
Definition anchored (n : nrec) (idxs : list Z) : nrec :=
  {| nk := nk n; na := adel (S "hcount") (na n); nadj := nadj n ++ map (fun j => (j, h_edge_attrs)) idxs |}.

Lemma adj_get_In_ x l a : adj_get x l = Some a -> In (x, a) l.
Proof.
  induction l as [|[w b] l IH]; cbn; [discriminate|]. destruct (Z.eqb_spec w x) as [E|N].
  - intros H. inversion H. subst. now left.
  - intros H. right. auto.
Qed.

Lemma add_h_step_spec g k g' n : closed_g g -> gfind k g = Some n -> aget (S "rs_isomer") (na n) = None ->
  add_h_step g k = Ok g' ->
  exists hc, hcount_int (na n) = Ok hc /\
    let idxs := fresh_keys g hc in
    gfind k g' = Some (anchored n idxs) /\
    (forall j, In j idxs -> gfind j g' = Some (hrec j k)) /\
    (forall i, i <> k -> ~ In i idxs -> gfind i g' = gfind i g) /\
    closed_g g'.
Proof.
  intros Hcl Hk Hrs H. unfold add_h_step, node_attrs in H. rewrite Hk in H. cbn [bind] in H.
  fold (hcount_int (na n)) in H. destruct (hcount_int (na n)) as [hc|] eqn:Ehc; cbn [bind] in H; [|discriminate].
  rewrite Hrs in H. inversion H; subst g'. clear H. exists hc. split; [reflexivity|]. cbn zeta.
  set (idxs := fresh_keys g hc).
  assert (Hfresh : forall j, In j idxs -> gfind j g = None) by (intros j; apply fresh_keys_fresh).
  assert (Hadj : forall j, In j idxs -> adj_get j (nadj n) = None).
  { intros j Hj. destruct (adj_get j (nadj n)) as [a|] eqn:E; [|reflexivity].
    exfalso. apply (Hcl k n j a Hk (adj_get_In_ _ _ _ E)). auto. }
  destruct (add_h_degree_one g k n idxs Hk (fresh_keys_nodup g hc) Hfresh Hadj) as (Hj & Hkk & Ho).
  assert (Hnk : ~ In k idxs) by (intro X; rewrite (Hfresh k X) in Hk; discriminate).
  assert (Key : nk n = k) by (eapply gfind_key; eauto).
  match goal with |- gfind k ?x = _ /\ _ => set (gres := x) end.
  assert (G1 : gfind k gres = Some (anchored n idxs)).
  { unfold gres, del_node_attr. rewrite gfind_gupdate by reflexivity. rewrite Z.eqb_refl, Hkk. cbn [option_map nk na nadj].
    unfold anchored. rewrite Key. reflexivity. }
  assert (G2 : forall i, i <> k -> gfind i gres = gfind i (attach_h g k idxs)).
  { intros i Hi. unfold gres, del_node_attr. rewrite gfind_gupdate by reflexivity. apply Z.eqb_neq in Hi. now rewrite Hi. }
  split; [exact G1|]. split.
  { intros j Hin. rewrite G2 by (intro X; subst; contradiction). apply Hj. exact Hin. }
  split.
  { intros i Hik Hni. rewrite G2 by assumption. apply Ho; assumption. }
  (* closedness *)
  assert (Persist : forall w, gfind w g <> None -> gfind w gres <> None).
  { intros w Hw. destruct (Z.eq_dec w k) as [->|Nw]; [rewrite G1; discriminate|].
    rewrite G2 by assumption. rewrite Ho; [assumption|assumption|]. intro X. apply Hw. auto. }
  intros i m w a Gi Hin.
  destruct (Z.eq_dec i k) as [->|Nik].
  - rewrite G1 in Gi. inversion Gi; subst m. cbn [nadj anchored] in Hin. apply in_app_or in Hin as [Hin|Hin].
    + apply Persist. eapply Hcl; eauto.
    + apply in_map_iff in Hin as (j & E & Hj'). inversion E; subst. rewrite G2 by (intro X; subst; contradiction).
      rewrite (Hj w Hj'). discriminate.
  - rewrite G2 in Gi by assumption. destruct (in_dec Z.eq_dec i idxs) as [Hi|Hi].
    + rewrite (Hj i Hi) in Gi. inversion Gi; subst m. cbn in Hin. destruct Hin as [E|[]]. inversion E; subst.
      rewrite G1. discriminate.
    + rewrite Ho in Gi by assumption. apply Persist. eapply Hcl; eauto.
Qed.

Lemma fresh_keys_length g hc : length (fresh_keys g hc) = Z.to_nat hc.
Proof. unfold fresh_keys. rewrite map_length, seq_length. reflexivity. Qed.

Definition no_rs (n : nrec) : Prop := aget (S "rs_isomer") (na n) = None.

Lemma add_h_fold ks : NoDup ks -> forall acc g', closed_g acc ->
  (forall k, In k ks -> exists n, gfind k acc = Some n /\ no_rs n) ->
  fold_res add_h_step ks acc = Ok g' ->
  closed_g g' /\
  (forall i n, gfind i acc = Some n -> ~ In i ks -> gfind i g' = Some n) /\
  (forall k n, In k ks -> gfind k acc = Some n ->
     exists hc idxs, hcount_int (na n) = Ok hc /\ length idxs = Z.to_nat hc /\ NoDup idxs /\
       (forall j, In j idxs -> gfind j acc = None) /\
       gfind k g' = Some (anchored n idxs) /\ forall j, In j idxs -> gfind j g' = Some (hrec j k)) /\
  (forall j m, gfind j acc = None -> gfind j g' = Some m -> exists k, In k ks /\ m = hrec j k).
Proof.
  induction ks as [|k ks IH]; intros Hnd acc g' Hcl Hks H.
  - cbn in H. inversion H; subst. split; [assumption|]. split; [auto|]. split; [intros ? ? []|].
    intros j m A B. congruence.
  - cbn [fold_res] in H. destruct (add_h_step acc k) as [acc1|] eqn:S1; cbn [bind] in H; [|discriminate].
    inversion Hnd as [|? ? Hk Hnd']; subst.
    destruct (Hks k (or_introl eq_refl)) as (n & Gk & Rk).
    destruct (add_h_step_spec acc k acc1 n Hcl Gk Rk S1) as (hc & Ehc & G1 & Gj & Go & Cl1).
    cbn zeta in *. set (idxs := fresh_keys acc hc) in *.
    assert (Fresh : forall j, In j idxs -> gfind j acc = None) by (intros j; apply fresh_keys_fresh).
    assert (Same : forall i m, gfind i acc = Some m -> i <> k -> gfind i acc1 = Some m).
    { intros i m Gi Ni. rewrite Go; [assumption|assumption|]. intro X. rewrite (Fresh i X) in Gi. discriminate. }
    assert (Hks' : forall k', In k' ks -> exists n', gfind k' acc1 = Some n' /\ no_rs n').
    { intros k' Hin. destruct (Hks k' (or_intror Hin)) as (n' & G' & R'). exists n'. split; [|assumption].
      apply Same; [assumption|]. intro X. subst. contradiction. }
    destruct (IH Hnd' acc1 g' Cl1 Hks' H) as (Clg & U & A & N).
    assert (NotKs : forall j, gfind j acc = None -> ~ In j ks).
    { intros j Gj' X. destruct (Hks j (or_intror X)) as (? & G' & _). congruence. }
    split; [assumption|]. split; [|split].
    + intros i m Gi Ni. apply U; [|intro X; apply Ni; now right]. apply Same; [assumption|]. intro X. apply Ni. now left.
    + intros k' n' [<-|Hin] Gk'.
      * rewrite Gk in Gk'. inversion Gk'; subst n'. exists hc, idxs.
        split; [assumption|]. split; [apply fresh_keys_length|]. split; [apply fresh_keys_nodup|]. split; [assumption|].
        split; [apply U; assumption|]. intros j Hj. apply U; [apply Gj; assumption|]. apply NotKs. auto.
      * assert (Nk : k' <> k) by (intro X; subst; contradiction).
        destruct (A k' n' Hin (Same _ _ Gk' Nk)) as (hc' & idxs' & E1 & E2 & E3 & E4 & E5 & E6).
        exists hc', idxs'. repeat split; try assumption.
        intros j Hj. specialize (E4 j Hj). destruct (gfind j acc) as [m|] eqn:Gj'; [|reflexivity].
        destruct (Z.eq_dec j k) as [->|Nj]; [rewrite G1 in E4; discriminate|].
        rewrite (Same _ _ Gj' Nj) in E4. discriminate.
    + intros j m Gj' Gm. destruct (in_dec Z.eq_dec j idxs) as [Hj|Hj].
      * exists k. split; [now left|]. rewrite (U j (hrec j k) (Gj j Hj) (NotKs j Gj')) in Gm. congruence.
      * assert (Nj : j <> k) by (intro X; subst; congruence).
        destruct (N j m) as (k' & Hin & E); [rewrite Go; assumption|assumption|].
        exists k'. split; [now right|assumption].
Qed.

(** ------------------------------------------------------------ phase 3: the inheritance loop *)
Definition noself_g (g : graph) : Prop := forall i n a, gfind i g = Some n -> ~ In (i, a) (nadj n).
Definition inherited (ca : list pystr) (n m n' : nrec) : Prop :=
  forall attr, aget attr (na n') =
    match aget attr (na n) with
    | Some v => Some v
    | None => if str_in attr ca then Some (getd attr (na m) VNone) else None
    end.
Definition extends (n n' : nrec) : Prop :=
  nk n' = nk n /\ nadj n' = nadj n /\ (forall attr v, aget attr (na n) = Some v -> aget attr (na n') = Some v) /\
  (wants_inherit (na n) = false -> n' = n).
Lemma extends_refl n : extends n n.
Proof. repeat split; auto. Qed.
Lemma extends_trans a b c : (wants_inherit (na a) = false -> wants_inherit (na b) = false) ->
  extends a b -> extends b c -> extends a c.
Proof.
  intros W (A1 & A2 & A3 & A4) (B1 & B2 & B3 & B4). repeat split; try congruence; auto.
  intros X. rewrite <- (A4 X). apply B4. rewrite (A4 X). exact X.
Qed.

Lemma inherit_step_spec ca g k g' n : closed_g g -> noself_g g -> gfind k g = Some n ->
  inherit_step ca g k = Ok g' ->
  exists n', gfind k g' = Some n' /\ extends n n' /\ (forall i, i <> k -> gfind i g' = gfind i g) /\
    (wants_inherit (na n) = true -> forall anchor a rest m, nadj n = (anchor, a) :: rest ->
       gfind anchor g = Some m -> inherited ca n m n').
Proof.
  intros Hcl Hns Hk H. pose proof (gfind_key _ _ _ Hk) as Key.
  destruct (wants_inherit (na n)) eqn:W.
  - destruct (nadj n) as [|[anchor a] rest] eqn:Adj.
    { unfold inherit_step, node_attrs, neighbors in H. rewrite Hk in H. cbn [bind] in H. rewrite W, Adj in H. discriminate. }
    assert (Hne : anchor <> k) by (intro X; subst anchor; apply (Hns k n a Hk); rewrite Adj; now left).
    destruct (gfind anchor g) as [m|] eqn:Ga;
      [|exfalso; apply (Hcl k n anchor a Hk); [rewrite Adj; now left|assumption]].
    assert (Nb : neighbors g k = anchor :: map fst rest) by (unfold neighbors; rewrite Hk, Adj; reflexivity).
    destruct (h_inherits ca g k n anchor (map fst rest) m Hk W Nb Hne Ga) as (g2 & S2 & O2 & n' & G' & A' & I').
    rewrite H in S2. inversion S2; subst g2. exists n'. split; [assumption|]. split.
    + repeat split.
      * rewrite (gfind_key _ _ _ G'). congruence.
      * congruence.
      * intros attr v E. rewrite I', E. reflexivity.
      * intro X; congruence.
    + split; [assumption|]. intros _ anchor' a' rest' m' E Gm. inversion E; subst. rewrite Ga in Gm. inversion Gm; subst.
      exact I'.
  - unfold inherit_step, node_attrs in H. rewrite Hk in H. cbn [bind] in H. rewrite W in H. inversion H; subst g'.
    exists n. split; [assumption|]. split; [apply extends_refl|]. split; [reflexivity|discriminate].
Qed.

Lemma inherit_fold_all ca ks : NoDup ks -> forall acc g', closed_g acc -> noself_g acc ->
  (forall k, In k ks -> gfind k acc <> None) ->
  fold_res (inherit_step ca) ks acc = Ok g' ->
  (forall i, ~ In i ks -> gfind i g' = gfind i acc) /\
  (forall i n, gfind i acc = Some n -> exists n', gfind i g' = Some n' /\ extends n n') /\
  (forall i, gfind i acc = None -> gfind i g' = None) /\
  (forall j n anchor a rest m, In j ks -> gfind j acc = Some n -> wants_inherit (na n) = true ->
     nadj n = (anchor, a) :: rest -> gfind anchor acc = Some m -> wants_inherit (na m) = false ->
     exists n', gfind j g' = Some n' /\ inherited ca n m n').
Proof.
  induction ks as [|k ks IH]; intros Hnd acc g' Hcl Hns Hks H.
  - cbn in H. inversion H; subst. split; [auto|]. split; [intros i n G; exists n; split; [assumption|apply extends_refl]|].
    split; [auto|]. intros ? ? ? ? ? ? [].
  - cbn [fold_res] in H. destruct (inherit_step ca acc k) as [acc1|] eqn:S1; cbn [bind] in H; [|discriminate].
    inversion Hnd as [|? ? Hk Hnd']; subst.
    destruct (gfind k acc) as [nk_|] eqn:Gk; [|exfalso; apply (Hks k); [now left|assumption]].
    destruct (inherit_step_spec ca acc k acc1 nk_ Hcl Hns Gk S1) as (n1 & G1 & E1 & O1 & I1).
    assert (Rec : forall i n, gfind i acc = Some n -> exists n', gfind i acc1 = Some n' /\ extends n n').
    { intros i n Gi. destruct (Z.eq_dec i k) as [->|Ni].
      - rewrite Gk in Gi. inversion Gi; subst. eauto.
      - exists n. split; [rewrite O1; assumption|apply extends_refl]. }
    assert (Non : forall i, gfind i acc = None -> gfind i acc1 = None).
    { intros i Gi. destruct (Z.eq_dec i k) as [->|Ni]; [congruence|]. rewrite O1; assumption. }
    assert (Cl1 : closed_g acc1).
    { intros i n w a Gi Hin. destruct (gfind i acc) as [n0|] eqn:G0; [|rewrite (Non i G0) in Gi; discriminate].
      destruct (Rec i n0 G0) as (n' & Gi' & (_ & A & _)). rewrite Gi in Gi'. inversion Gi'; subst n'.
      rewrite A in Hin. pose proof (Hcl i n0 w a G0 Hin) as X.
      destruct (gfind w acc) as [mw|] eqn:Gw; [|congruence]. destruct (Rec w mw Gw) as (? & -> & _). discriminate. }
    assert (Ns1 : noself_g acc1).
    { intros i n a Gi Hin. destruct (gfind i acc) as [n0|] eqn:G0; [|rewrite (Non i G0) in Gi; discriminate].
      destruct (Rec i n0 G0) as (n' & Gi' & (_ & A & _)). rewrite Gi in Gi'. inversion Gi'; subst n'.
      rewrite A in Hin. exact (Hns i n0 a G0 Hin). }
    assert (Hks1 : forall k', In k' ks -> gfind k' acc1 <> None).
    { intros k' Hin. pose proof (Hks k' (or_intror Hin)) as X. destruct (gfind k' acc) as [m|] eqn:G; [|congruence].
      destruct (Rec k' m G) as (? & -> & _). discriminate. }
    destruct (IH Hnd' acc1 g' Cl1 Ns1 Hks1 H) as (U & R & N & I).
    split; [|split; [|split]].
    + intros i Hi. rewrite U by (intro X; apply Hi; now right). apply O1. intro X. apply Hi. now left.
    + intros i n Gi. destruct (Rec i n Gi) as (n' & Gi' & Ex). destruct (R i n' Gi') as (n'' & Gi'' & Ex').
      exists n''. split; [assumption|]. apply (extends_trans n n' n''); [|exact Ex|exact Ex']. intros X. destruct Ex as (_ & _ & _ & Y). now rewrite (Y X).
    + intros i Gi. apply N. apply Non. assumption.
    + intros j n anchor a rest m [<-|Hin] Gj W Adj Ga Wm.
      * rewrite Gk in Gj. inversion Gj; subst n. exists n1. split; [rewrite U; assumption|].
        exact (I1 W anchor a rest m Adj Ga).
      * assert (Nj : j <> k) by (intro X; subst; contradiction).
        assert (Ga1 : gfind anchor acc1 = Some m).
        { destruct (Rec anchor m Ga) as (m' & Gm' & (_ & _ & _ & Y)). rewrite (Y Wm) in Gm'. exact Gm'. }
        apply (I j n anchor a rest m Hin); try assumption. rewrite O1; assumption.
Qed.

(** ------------------------------------------------------------ keys stay distinct *)
From CGV Require Import Hydro.Squash Hydro.SquashDefs Hydro.SquashProofs.

Lemma NoDup_app_ (l m : list Z) : NoDup l -> NoDup m -> (forall x, In x l -> ~ In x m) -> NoDup (l ++ m).
Proof.
  induction l as [|x l IH]; intros Hl Hm H; [assumption|]. inversion Hl; subst. cbn. constructor.
  - intro X. apply in_app_or in X as [X|X]; [contradiction|]. apply (H x); [now left|assumption].
  - apply IH; auto. intros y Hy. apply H. now right.
Qed.
Lemma keys_add_nodes A : forall idxs g, NoDup idxs -> (forall j, In j idxs -> gfind j g = None) ->
  node_keys (fold_left (fun acc j => add_node acc j A) idxs g) = node_keys g ++ idxs.
Proof.
  induction idxs as [|j r IH]; intros g Hnd Hf; cbn [fold_left]; [now rewrite app_nil_r|].
  inversion Hnd as [|? ? Hj Hr]; subst.
  assert (Gj : gfind j g = None) by (apply Hf; now left).
  unfold add_node at 2. unfold has_node. rewrite Gj. rewrite IH; [|assumption|].
  - unfold node_keys. rewrite map_app, <- app_assoc. reflexivity.
  - intros j' Hin. rewrite gfind_app. rewrite (Hf j' (or_intror Hin)). cbn [nk].
    destruct (Z.eqb_spec j j') as [E|N]; [subst; contradiction|reflexivity].
Qed.
Lemma keys_add_edges_to k : forall idxs g, has_node g k = true -> (forall j, In j idxs -> has_node g j = true) ->
  node_keys (fold_left (fun acc j => add_edge acc k j h_edge_attrs) idxs g) = node_keys g.
Proof.
  induction idxs as [|j r IH]; intros g Hk Hj; cbn [fold_left]; [reflexivity|].
  pose proof (keys_add_edge g k j h_edge_attrs Hk (Hj j (or_introl eq_refl))) as K.
  rewrite IH; [exact K| |].
  - rewrite (has_node_same_keys _ g) by exact K. exact Hk.
  - intros j' Hin. rewrite (has_node_same_keys _ g) by exact K. apply Hj. now right.
Qed.
Lemma keys_add_h_step g k g' : gfind k g <> None -> add_h_step g k = Ok g' ->
  exists idxs, node_keys g' = node_keys g ++ idxs /\ NoDup idxs /\ forall j, In j idxs -> ~ In j (node_keys g).
Proof.
  intros Hk H. unfold add_h_step, node_attrs in H. destruct (gfind k g) as [n|] eqn:G; [|congruence]. cbn [bind] in H.
  fold (hcount_int (na n)) in H. destruct (hcount_int (na n)) as [hc|]; cbn [bind] in H; [|discriminate].
  set (idxs := fresh_keys g hc) in *.
  assert (Hf : forall j, In j idxs -> gfind j g = None) by (intros j; apply fresh_keys_fresh).
  assert (K : node_keys (del_node_attr (attach_h g k idxs) k (S "hcount")) = node_keys g ++ idxs).
  { unfold del_node_attr. rewrite node_keys_gupdate by reflexivity. unfold attach_h.
    pose proof (keys_add_nodes h_atom_defaults idxs g (fresh_keys_nodup g hc) Hf) as K1.
    rewrite keys_add_edges_to; [exact K1| |].
    - apply has_node_keys. rewrite K1. apply in_or_app. left. apply has_node_keys. apply has_node_gfind. eauto.
    - intros j Hj. apply has_node_keys. rewrite K1. apply in_or_app. now right. }
  exists idxs. split.
  - destruct (aget (S "rs_isomer") (na n)).
    + destruct (as_list p) as [l|]; cbn [bind] in H; [|discriminate].
      destruct (map_res _ l); cbn [bind] in H; [|discriminate]. inversion H; subst g'.
      rewrite keys_set_node_attr. exact K.
    + inversion H; subst g'. exact K.
  - split; [apply fresh_keys_nodup|]. intros j Hj X. apply gfind_none_keys in X; [assumption|]. auto.
Qed.
Lemma keys_add_h_fold ks : forall acc g', NoDup (node_keys acc) -> (forall k, In k ks -> In k (node_keys acc)) ->
  fold_res add_h_step ks acc = Ok g' -> NoDup (node_keys g') /\ forall k, In k (node_keys acc) -> In k (node_keys g').
Proof.
  induction ks as [|k ks IH]; intros acc g' Hnd Hks H.
  - cbn in H. inversion H; subst. auto.
  - cbn [fold_res] in H. destruct (add_h_step acc k) as [acc1|] eqn:S1; cbn [bind] in H; [|discriminate].
    assert (Gk : gfind k acc <> None).
    { destruct (gfind_some_keys k acc (Hks k (or_introl eq_refl))) as [n ->]. discriminate. }
    destruct (keys_add_h_step acc k acc1 Gk S1) as (idxs & K & Ni & Fi).
    assert (Hnd1 : NoDup (node_keys acc1)).
    { rewrite K. apply NoDup_app_; try assumption. intros x A B. exact (Fi x B A). }
    destruct (IH acc1 g' Hnd1) as [N M]; [|assumption|].
    + intros k' Hin. rewrite K. apply in_or_app. left. apply Hks. now right.
    + split; [assumption|]. intros k' Hin. apply M. rewrite K. apply in_or_app. now left.
Qed.

(** ------------------------------------------------------------ small attribute facts *)
Lemma ne_hcount x : x <> S "hcount" -> forall v a, aget x (aset (S "hcount") v a) = aget x a.
Proof. intros N v a. apply aget_aset_other. exact N. Qed.
Lemma valence_of_hcount v a : valence_of (aset (S "hcount") v a) = valence_of a.
Proof. unfold valence_of, charge_of. rewrite !ne_hcount by (intro H; vm_compute in H; discriminate). reflexivity. Qed.
Lemma is_elem_hcount e v a : is_elem e (aset (S "hcount") v a) = is_elem e a.
Proof. unfold is_elem. rewrite ne_hcount by (intro H; vm_compute in H; discriminate). reflexivity. Qed.
Lemma aget_adel_other k k' a : k <> k' -> aget k (adel k' a) = aget k a.
Proof.
  intros N. induction a as [|[k2 v2] r IH]; cbn; [reflexivity|].
  destruct (str_eqb_spec k' k2) as [->|N2]; cbn.
  - destruct (str_eqb_spec k k2); [contradiction|reflexivity].
  - destruct (str_eqb k k2); [reflexivity|exact IH].
Qed.
Lemma is_elem_adel e a : is_elem e (adel (S "hcount") a) = is_elem e a.
Proof. unfold is_elem. rewrite aget_adel_other by (intro H; vm_compute in H; discriminate). reflexivity. Qed.

Definition reset (n : nrec) : nrec := {| nk := nk n; na := aset (S "hcount") (VInt 0) (na n); nadj := nadj n |}.

(** the record of an original atom after fill_valence: hydrogen atoms only have their count reset, every
    other atom stores max(bonds_missing, 0) computed from its bonds *)
Definition filled (n n3 : nrec) : Prop :=
  nk n3 = nk n /\ nadj n3 = nadj n /\
  (forall attr, attr <> S "hcount" -> aget attr (na n3) = aget attr (na n)) /\
  (is_H (na n) = true -> hcount_int (na n3) = Ok 0) /\
  (is_H (na n) = false -> exists val b, valence_of (na n) = Ok val /\ sum_orders (nadj n) = Ok b /\
                                    hcount_int (na n3) = Ok (Z.max (missing_of val b) 0)).

Lemma fill_node_filled n r : fill_node false (reset n) = Ok r -> filled n (upd (S "hcount") (reset n) r).
Proof.
  unfold fill_node. cbn [na nadj reset]. rewrite andb_false_r. cbn [orb].
  change (is_H (aset (S "hcount") (VInt 0) (na n))) with (is_elem (S "H") (aset (S "hcount") (VInt 0) (na n))).
  rewrite is_elem_hcount. fold (is_H (na n)). destruct (is_H (na n)) eqn:EH.
  - intros H. inversion H; subst r. cbn [upd]. repeat split; try reflexivity.
    + intros attr Na. cbn [na reset]. apply ne_hcount. exact Na.
    + intros _. unfold hcount_int. cbn [na reset]. rewrite aget_aset_same. reflexivity.
    + intro X; congruence.
  - destruct (sum_orders (nadj n)) as [b|] eqn:Eb; cbn [bind]; [|discriminate].
    unfold hcount_half. rewrite aget_aset_same. cbn [half_of_num bind]. rewrite valence_of_hcount.
    destruct (valence_of (na n)) as [val|] eqn:Ev; cbn [bind as_int]; [|discriminate].
    intros H. inversion H; subst r. cbn [upd nk na nadj reset]. repeat split; try reflexivity.
    + intros attr Na. cbn [na]. rewrite !ne_hcount by exact Na. reflexivity.
    + intro X; congruence.
    + intros _. exists val, b. split; [exact Ev|]. split; [exact Eb|]. unfold hcount_int. cbn [na]. rewrite aget_aset_same.
      rewrite ?Z.mul_0_r, ?Z.add_0_r, ?Z.add_0_l. reflexivity.
Qed.

Lemma phase01 g1 g3 : NoDup (node_keys g1) ->
  fill_valence false (set_all_nodes g1 (S "hcount") (VInt 0)) = Ok g3 ->
  node_keys g3 = node_keys g1 /\
  forall i, match gfind i g1 with
            | None => gfind i g3 = None
            | Some n => exists n3, gfind i g3 = Some n3 /\ filled n n3
            end.
Proof.
  intros Hnd H. set (g2 := set_all_nodes g1 (S "hcount") (VInt 0)) in *.
  assert (G2 : forall i, gfind i g2 = option_map reset (gfind i g1)).
  { intros i. unfold g2, set_all_nodes. rewrite gfind_map by reflexivity. reflexivity. }
  assert (K2 : node_keys g2 = node_keys g1) by (unfold g2, set_all_nodes, node_keys; rewrite map_map; reflexivity).
  unfold fill_valence in H. rewrite (fold_res_ext _ (lstep (fill_node false) (S "hcount"))) in H by (intros; apply fill_step_local).
  rewrite K2 in H. destruct (local_fold (fill_node false) (S "hcount") (node_keys g1) Hnd g2 g3 H) as (K3 & O3 & I3).
  split; [congruence|]. intros i. destruct (gfind i g1) as [n|] eqn:G1.
  - assert (Hin : In i (node_keys g1)).
    { destruct (in_dec Z.eq_dec i (node_keys g1)) as [X|X]; [assumption|]. apply gfind_none_keys in X. congruence. }
    destruct (I3 i Hin) as (n2 & r & Gn2 & Fr & G3). rewrite G2, G1 in Gn2. cbn in Gn2. inversion Gn2; subst n2.
    eexists. split; [exact G3|]. apply fill_node_filled. exact Fr.
  - rewrite O3; [rewrite G2, G1; reflexivity|]. apply gfind_none_keys. exact G1.
Qed.

(** ------------------------------------------------------------ the end-to-end theorem *)
(** what an ADDED hydrogen carries: parse_atom('[H]') minus hcount, plus — for every attribute of
    copy_attrs it does not have — its anchor's value (None if the anchor lacks it) *)
Definition added_h_attrs (ca : list pystr) (anchor_attrs h : attrs) : Prop :=
  forall attr, aget attr h =
    match aget attr h_atom_defaults with
    | Some v => Some v
    | None => if str_in attr ca then Some (getd attr anchor_attrs VNone) else None
    end.

Lemma wants_inherit_fresh_h : wants_inherit h_atom_defaults = true.
Proof. reflexivity. Qed.
Lemma wants_inherit_not_H a : is_H a = false -> wants_inherit a = false.
Proof. unfold wants_inherit. change (is_elem inherit_element a) with (is_H a). intros ->. reflexivity. Qed.
Lemma is_H_fresh_h : is_H h_atom_defaults = true.
Proof. reflexivity. Qed.

Theorem rebuild_end_to_end ca g1 g' :
  NoDup (node_keys g1) -> closed_g g1 -> noself_g g1 -> (forall i n, gfind i g1 = Some n -> no_rs n) ->
  rebuild_after_car false ca g1 = Ok g' ->
  (* 1. every original non-hydrogen atom *)
  (forall k n, gfind k g1 = Some n -> is_H (na n) = false ->
     exists val b idxs n', valence_of (na n) = Ok val /\ sum_orders (nadj n) = Ok b /\
       length idxs = Z.to_nat (Z.max (missing_of val b) 0) /\ NoDup idxs /\ (forall j, In j idxs -> gfind j g1 = None) /\
       gfind k g' = Some n' /\ nadj n' = nadj n ++ map (fun j => (j, h_edge_attrs)) idxs /\
       (forall attr, attr <> S "hcount" -> aget attr (na n') = aget attr (na n)) /\
       forall j, In j idxs -> exists h, gfind j g' = Some h /\ nadj h = [(k, h_edge_attrs)] /\ is_H (na h) = true /\
                                        added_h_attrs ca (na n') (na h)) /\
  (* 2. every original (explicitly written) hydrogen: same bonds, its own attributes kept *)
  (forall k n, gfind k g1 = Some n -> is_H (na n) = true ->
     exists n', gfind k g' = Some n' /\ nadj n' = nadj n /\
       forall attr v, attr <> S "hcount" -> aget attr (na n) = Some v -> aget attr (na n') = Some v) /\
  (* 3. every other node of the result is an added hydrogen with exactly one bond, to an original atom *)
  (forall j m, gfind j g1 = None -> gfind j g' = Some m ->
     exists k, gfind k g1 <> None /\ nadj m = [(k, h_edge_attrs)] /\ is_H (na m) = true).
Proof.
  intros Hnd Hcl Hns Hrs H. unfold rebuild_after_car in H.
  change rebuild_reset_attr with (S "hcount") in H. change rebuild_reset_value with 0 in H.
  change rebuild_respect_hcount with false in H.
  destruct (fill_valence false (set_all_nodes g1 (S "hcount") (VInt 0))) as [g3|] eqn:F; cbn [bind] in H; [|discriminate].
  destruct (phase01 g1 g3 Hnd F) as (K3 & P3).
  destruct (add_explicit_hydrogens g3) as [g5|] eqn:A; cbn [bind] in H; [|discriminate].
  unfold add_explicit_hydrogens in A. rewrite K3 in A.
  (* facts about g3 *)
  assert (In3 : forall i n3, gfind i g3 = Some n3 -> exists n, gfind i g1 = Some n /\ filled n n3).
  { intros i n3 G. specialize (P3 i). destruct (gfind i g1) as [n|]; [|congruence].
    destruct P3 as (n3' & G' & Fl). rewrite G in G'. inversion G'; subst. eauto. }
  assert (Cl3 : closed_g g3).
  { intros i n3 w a G Hin. destruct (In3 i n3 G) as (n & G1 & (_ & Adj & _)). rewrite Adj in Hin.
    pose proof (Hcl i n w a G1 Hin) as X. specialize (P3 w). destruct (gfind w g1); [|congruence].
    destruct P3 as (? & -> & _). discriminate. }
  assert (Ks3 : forall k, In k (node_keys g1) -> exists n3, gfind k g3 = Some n3 /\ no_rs n3).
  { intros k Hin. destruct (gfind_some_keys k g1 Hin) as [n G1]. specialize (P3 k). rewrite G1 in P3.
    destruct P3 as (n3 & G3 & (_ & _ & At & _)). exists n3. split; [assumption|]. unfold no_rs.
    rewrite At by (intro X; vm_compute in X; discriminate). exact (Hrs k n G1). }
  destruct (add_h_fold (node_keys g1) Hnd g3 g5 Cl3 Ks3 A) as (Cl5 & U5 & A5 & N5).
  assert (Nd3 : NoDup (node_keys g3)) by (rewrite K3; exact Hnd).
  destruct (keys_add_h_fold (node_keys g1) g3 g5 Nd3) as [Nd5 _]; [intros k Hk; rewrite K3; exact Hk|exact A|].
  (* classification of the nodes of g5 *)
  assert (Ns5 : noself_g g5).
  { intros i m a G Hin. destruct (gfind i g3) as [n3|] eqn:G3.
    - destruct (In3 i n3 G3) as (n & G1 & (_ & Adj & _)).
      assert (Hk : In i (node_keys g1)).
      { destruct (in_dec Z.eq_dec i (node_keys g1)) as [X|X]; [assumption|]. apply gfind_none_keys in X. congruence. }
      destruct (A5 i n3 Hk G3) as (hc & idxs & _ & _ & _ & Fr & Gi & _). rewrite G in Gi. inversion Gi; subst m.
      cbn [anchored nadj] in Hin. apply in_app_or in Hin as [Hin|Hin].
      + rewrite Adj in Hin. exact (Hns i n a G1 Hin).
      + apply in_map_iff in Hin as (j & E & Hj). inversion E; subst. rewrite (Fr i Hj) in G3. discriminate.
    - destruct (N5 i m G3 G) as (k & Hk & ->). cbn in Hin. destruct Hin as [E|[]]. inversion E; subst.
      destruct (Ks3 i Hk) as (? & X & _). congruence. }
  unfold inherit_all in H.
  assert (Hks5 : forall k, In k (node_keys g5) -> gfind k g5 <> None).
  { intros k Hk. destruct (gfind_some_keys k g5 Hk) as [? ->]. discriminate. }
  destruct (inherit_fold_all ca (node_keys g5) Nd5 g5 g' Cl5 Ns5 Hks5 H) as (_ & R & N & I).
  split; [|split].
  - (* original heavy atoms *)
    intros k n G1 EH. pose proof (P3 k) as P. rewrite G1 in P. destruct P as (n3 & G3 & (Nk & Adj & At & _ & Hv)).
    destruct (Hv EH) as (val & b & Ev & Eb & Ehc).
    assert (Hk : In k (node_keys g1)).
    { destruct (in_dec Z.eq_dec k (node_keys g1)) as [X|X]; [assumption|]. apply gfind_none_keys in X. congruence. }
    destruct (A5 k n3 Hk G3) as (hc & idxs & Ehc' & Len & Ndi & Fr & Gk5 & Gj5).
    rewrite Ehc in Ehc'. inversion Ehc'; subst hc.
    assert (W5 : wants_inherit (na (anchored n3 idxs)) = false).
    { apply wants_inherit_not_H. cbn [anchored na]. unfold is_H. rewrite is_elem_adel. fold (is_H (na n3)).
      unfold is_H, is_elem. rewrite At by (intro X; vm_compute in X; discriminate). exact EH. }
    destruct (R k _ Gk5) as (n' & Gk' & (_ & _ & _ & Same)). rewrite (Same W5) in Gk'.
    exists val, b, idxs, (anchored n3 idxs). split; [assumption|]. split; [assumption|]. split; [assumption|].
    split; [assumption|]. split.
    { intros j Hj. specialize (Fr j Hj). specialize (P3 j). destruct (gfind j g1); [|reflexivity].
      destruct P3 as (? & X & _). congruence. }
    split; [assumption|]. split; [cbn [anchored nadj]; now rewrite Adj|]. split.
    { intros attr Na. cbn [anchored na]. rewrite aget_adel_other by exact Na. apply At. exact Na. }
    intros j Hj.
    assert (Hjk : In j (node_keys g5)).
    { destruct (in_dec Z.eq_dec j (node_keys g5)) as [X|X]; [assumption|]. apply gfind_none_keys in X.
      rewrite (Gj5 j Hj) in X. discriminate. }
    destruct (I j (hrec j k) k h_edge_attrs [] (anchored n3 idxs) Hjk (Gj5 j Hj) wants_inherit_fresh_h eq_refl Gk5 W5)
      as (h & Gh & Inh).
    destruct (R j _ (Gj5 j Hj)) as (h2 & Gh2 & (_ & Adjh & Keep & _)). rewrite Gh in Gh2. inversion Gh2; subst h2.
    exists h. split; [assumption|]. split; [exact Adjh|]. split.
    + unfold is_H, is_elem. rewrite (Keep (S "element") (VStr (S "H"))); [apply str_eqb_refl|reflexivity].
    + intros attr. rewrite (Inh attr). reflexivity.
  - (* original hydrogens *)
    intros k n G1 EH. pose proof (P3 k) as P. rewrite G1 in P. destruct P as (n3 & G3 & (Nk & Adj & At & Hh & _)).
    assert (Hk : In k (node_keys g1)).
    { destruct (in_dec Z.eq_dec k (node_keys g1)) as [X|X]; [assumption|]. apply gfind_none_keys in X. congruence. }
    destruct (A5 k n3 Hk G3) as (hc & idxs & Ehc' & Len & _ & _ & Gk5 & _).
    rewrite (Hh EH) in Ehc'. inversion Ehc'; subst hc. destruct idxs; [|discriminate Len].
    destruct (R k _ Gk5) as (n' & Gk' & (_ & Adj' & Keep & _)).
    exists n'. split; [assumption|]. split; [rewrite Adj'; cbn [anchored nadj map]; rewrite app_nil_r; exact Adj|].
    intros attr v Na E. apply Keep. cbn [anchored na]. rewrite aget_adel_other by exact Na. rewrite At by exact Na. exact E.
  - (* new nodes *)
    intros j m G1 Gm.
    assert (G3 : gfind j g3 = None) by (specialize (P3 j); rewrite G1 in P3; exact P3).
    destruct (gfind j g5) as [m5|] eqn:G5; [|rewrite (N j G5) in Gm; discriminate].
    destruct (N5 j m5 G3 G5) as (k & Hk & ->).
    destruct (R j _ G5) as (m' & Gm' & (_ & Adjm & Keep & _)). rewrite Gm in Gm'. inversion Gm'; subst m'.
    exists k. split; [destruct (gfind_some_keys k g1 Hk) as [? ->]; discriminate|]. split; [exact Adjm|].
    unfold is_H, is_elem. rewrite (Keep (S "element") (VStr (S "H"))); [apply str_eqb_refl|reflexivity].
Qed.

(** ------------------------------------------------------------ orders add up *)
Lemma sum_orders_app_h l idxs b : sum_orders l = Ok b ->
  sum_orders (l ++ map (fun j : Z => (j, h_edge_attrs)) idxs) = Ok (b + 2 * Z.of_nat (length idxs)).
Proof.
  revert b. induction l as [|[w d] l IH]; intros b H.
  - cbn in H. inversion H; subst b. cbn [app]. induction idxs as [|j r IHr]; [reflexivity|].
    cbn [map sum_orders length]. change (order_half h_edge_attrs) with (Ok 2). cbn [bind]. rewrite IHr. cbn [bind].
    f_equal. lia.
  - cbn [app sum_orders] in *. destruct (order_half d) as [o|]; cbn [bind] in *; [|discriminate].
    destruct (sum_orders l) as [s|] eqn:E; cbn [bind] in *; [|discriminate]. inversion H; subst b.
    rewrite (IH s eq_refl). cbn [bind]. f_equal. lia.
Qed.
Lemma valence_of_row a val : valence_of a = Ok val -> val = [] \/ row_wf val = true.
Proof.
  unfold valence_of. destruct (match aget (S "element") a with Some v => v | None => VStr (S "*") end); try discriminate.
  destruct (str_eqb s (S "*")); [intros H; inversion H; now left|].
  destruct (charge_of a) as [q|]; cbn [bind]; [|discriminate].
  destruct (table_row (capitalize s) q) as [[l|]|] eqn:E; try discriminate.
  intros H. inversion H; subst. right. eapply table_row_wf; eauto.
Qed.

(** [rebuild_valence_sum]: for an atom whose bond sum [b] (half units, all bonds present when the
    completion starts, explicit hydrogens included) fits within its largest valence: the number of
    added hydrogens is (least fitting valence) - b/2 and afterwards its orders add up to that valence
    (integral sums; a half-integral sum ends half a unit short, pysmiles' int()). *)
Theorem rebuild_valence_sum a val b idxs l' l :
  valence_of a = Ok val -> fits val b -> sum_orders l = Ok b ->
  length idxs = Z.to_nat (Z.max (missing_of val b) 0) -> l' = l ++ map (fun j : Z => (j, h_edge_attrs)) idxs ->
  exists v, least_fitting val b v /\
    (Z.even b = true -> 2 * Z.of_nat (length idxs) = 2 * v - b /\ sum_orders l' = Ok (2 * v)) /\
    (Z.even b = false -> 2 * Z.of_nat (length idxs) = 2 * v - b - 1 /\ sum_orders l' = Ok (2 * v - 1)).
Proof.
  intros Ev Hf Hs Len ->. destruct (valence_of_row a val Ev) as [->|Wf].
  - destruct Hf as (w & [] & _).
  - destruct (bonds_missing_spec val b Wf Hf) as (v & HL & _ & Pos & Heven & Hodd).
    exists v. split; [assumption|]. rewrite Z.max_l in Len by lia.
    assert (E : Z.of_nat (length idxs) = missing_of val b) by (rewrite Len, Z2Nat.id; lia).
    rewrite (sum_orders_app_h l idxs b Hs), E.
    split; intros X; [specialize (Heven X)|specialize (Hodd X)]; split; try lia; f_equal; lia.
Qed.

(** ------------------------------------------------------------ the transcript keeps the skeleton *)
Definition same_skeleton (n m : nrec) : Prop := nk n = nk m /\ map fst (nadj n) = map fst (nadj m).
Lemma combine_forall2 {A B} (P : A * B -> bool) : forall (a : list A) (b : list B), length a = length b ->
  forallb P (combine a b) = true -> Forall2 (fun x y => P (x, y) = true) a b.
Proof.
  induction a as [|x a IH]; intros [|y b] L H; try discriminate; [constructor|].
  cbn in H. apply andb_true_iff in H as [H1 H2]. constructor; [assumption|]. apply IH; [now inversion L|assumption].
Qed.
Lemma nrec_same_but_skeleton n m : nrec_same_but n m = true -> same_skeleton n m.
Proof.
  unfold nrec_same_but. intros H. apply andb_true_iff in H as [H H4]. apply andb_true_iff in H as [H H3].
  apply andb_true_iff in H as [H1 _]. split; [now apply Z.eqb_eq|].
  apply Nat.eqb_eq in H3. pose proof (combine_forall2 _ _ _ H3 H4) as F. clear - F.
  induction F as [|[w a] [w' a'] l l' H F IH]; [reflexivity|]. cbn [map fst]. cbn [fst snd] in H.
  apply andb_true_iff in H as [H _]. apply Z.eqb_eq in H. congruence.
Qed.
Lemma contract_skeleton g g1 : transcript_contract g g1 = true -> Forall2 same_skeleton g g1.
Proof.
  unfold transcript_contract. intros H. apply andb_true_iff in H as [H _]. apply andb_true_iff in H as [L H].
  apply Nat.eqb_eq in L. pose proof (combine_forall2 _ _ _ L H) as F. clear - F.
  induction F; constructor; [apply nrec_same_but_skeleton; assumption|assumption].
Qed.
Lemma skeleton_gfind g g1 : Forall2 same_skeleton g g1 -> forall i,
  match gfind i g, gfind i g1 with
  | Some n, Some m => same_skeleton n m
  | None, None => True
  | _, _ => False
  end.
Proof.
  induction 1 as [|n m g g1 [Hk Ha] F IH]; intros i; cbn; [exact I|]. rewrite <- Hk.
  destruct (Z.eqb (nk n) i); [split; assumption|apply IH].
Qed.
Lemma skeleton_wf g g1 : Forall2 same_skeleton g g1 -> NoDup (node_keys g) -> closed_g g -> noself_g g ->
  NoDup (node_keys g1) /\ closed_g g1 /\ noself_g g1.
Proof.
  intros F Hnd Hcl Hns. pose proof (skeleton_gfind g g1 F) as S.
  assert (K : node_keys g1 = node_keys g).
  { clear - F. induction F as [|n m g g1 [Hk _] F IH]; [reflexivity|]. unfold node_keys in *. cbn. congruence. }
  split; [now rewrite K|]. split.
  - intros i m w a G Hin. specialize (S i) as Si. rewrite G in Si. destruct (gfind i g) as [n|] eqn:Gn; [|contradiction].
    destruct Si as [_ Ha]. assert (Hw : In w (map fst (nadj n))) by (rewrite Ha; apply (in_map fst _ _ Hin)).
    apply in_map_iff in Hw as ([w' a'] & E & Hin'). cbn in E. subst w'.
    pose proof (Hcl i n w a' Gn Hin') as X. specialize (S w). destruct (gfind w g); [|congruence].
    destruct (gfind w g1); [discriminate|contradiction].
  - intros i m a G Hin. specialize (S i) as Si. rewrite G in Si. destruct (gfind i g) as [n|] eqn:Gn; [|contradiction].
    destruct Si as [_ Ha]. assert (Hw : In i (map fst (nadj n))) by (rewrite Ha; apply (in_map fst _ _ Hin)).
    apply in_map_iff in Hw as ([w' a'] & E & Hin'). cbn in E. subst w'. exact (Hns i n a' Gn Hin').
Qed.

(** [rebuild_h_atoms_end_to_end]: the whole function, for EVERY recorded aromaticity transcript: if the call
    returns, pysmiles did not raise, its result [g1] satisfies the contract (same nodes and edges), and
    the three clauses of [rebuild_end_to_end] hold of [g1] and the returned graph.  The structural
    hypotheses are on the graph handed to rebuild_h_atoms (molecule graphs of the resolver AND of the
    sampler satisfy them: distinct keys, every neighbour is a node, no self loops). *)
Theorem rebuild_h_atoms_end_to_end ca g car g' :
  NoDup (node_keys g) -> closed_g g -> noself_g g -> rebuild_h_atoms false ca g car = Ok g' ->
  exists g1, car = Some g1 /\ transcript_contract g g1 = true /\
    NoDup (node_keys g1) /\ closed_g g1 /\ noself_g g1 /\ rebuild_after_car false ca g1 = Ok g'.
Proof.
  intros Hnd Hcl Hns H. unfold rebuild_h_atoms in H. destruct car as [g1|]; [|discriminate].
  destruct (transcript_contract g g1) eqn:C; [|discriminate]. exists g1. split; [reflexivity|]. split; [first [reflexivity|exact C]|].
  destruct (skeleton_wf g g1 (contract_skeleton g g1 C) Hnd Hcl Hns) as (A & B & D). auto.
Qed.

(** the structural hypotheses follow from [wf_graph] (the notion the squash theorems preserve), so the
    theorem composes with C10_squash_count: squash_atoms returns a wf_graph, rebuild_h_atoms accepts it *)
Lemma wf_graph_structural g : wf_graph g -> NoDup (node_keys g) /\ closed_g g /\ noself_g g.
Proof.
  intros [Hnd Hcl _ Hloop]. split; [assumption|]. split.
  - intros i n w a G Hin. assert (E : has_edge g i w = true).
    { unfold has_edge. rewrite G. destruct (In_adj_get _ _ _ Hin) as [b ->]. reflexivity. }
    apply Hcl in E. apply has_node_gfind in E as [m ->]. discriminate.
  - intros i n a G Hin. assert (E : has_edge g i i = true).
    { unfold has_edge. rewrite G. destruct (In_adj_get _ _ _ Hin) as [b ->]. reflexivity. }
    rewrite Hloop in E. discriminate.
Qed.

(** non-vacuity: CH3-O(-) … a methyl carbon with an explicit hydrogen that has its own weight, an oxygen
    anion, and a single-H fragment on the carbon *)
Definition g_example : graph :=
  let at_ k el q extra adj := {| nk := k; na := [(S "element", VStr el); (S "charge", VInt q); (S "aromatic", VBool false);
                                               (S "hcount", VInt 9); (S "fragid", VList [VInt 0]);
                                               (S "fragname", VStr (S "A")); (S "weight", VInt 1)] ++ extra;
                                 nadj := adj |} in
  let e := [(S "order", VInt 1)] in
  [at_ 0 (S "C") 0 [] [(1, e); (2, e); (3, e)];
   at_ 1 (S "O") (-1) [] [(0, e)];
   {| nk := 2; na := [(S "element", VStr (S "H")); (S "charge", VInt 0); (S "weight", VFlt (S "0.5")); (S "fragid", VList [VInt 0])];
      nadj := [(0, e)] |};
   {| nk := 3; na := [(S "element", VStr (S "H")); (S "single_h_frag", VBool true); (S "fragid", VList [VInt 1])]; nadj := [(0, e)] |}].
Example rebuild_end_to_end_nonvacuous :
  wf_graph g_example /\ (forall i n, gfind i g_example = Some n -> no_rs n) /\
  exists g', rebuild_after_car false rebuild_copy_attrs_default g_example = Ok g' /\
    neighbors g' 0 = [1; 2; 3; 4] /\ neighbors g' 1 = [0] /\ neighbors g' 4 = [0] /\
    node_get g' 4 (S "fragname") = Some (VStr (S "A")) /\ node_get g' 4 (S "weight") = Some (VInt 1) /\
    node_get g' 2 (S "weight") = Some (VFlt (S "0.5")) /\ node_get g' 2 (S "fragname") = Some (VStr (S "A")) /\
    node_get g' 3 (S "fragid") = Some (VList [VInt 1]) /\ node_get g' 3 (S "fragname") = None.
Proof.
  split; [apply wf_graphb_sound; vm_compute; reflexivity|]. split.
  - intros i n G. unfold no_rs. cbn in G.
    repeat match type of G with
           | (if ?c then _ else _) = _ => destruct c; [inversion G; subst; reflexivity|]
           end. discriminate.
  - eexists. split; [vm_compute; reflexivity|]. repeat split.
Qed.

(** ------------------------------------------------------------ no half-unit caveat off the aromatic atoms *)
Lemma sum_orders_even l b : sum_orders l = Ok b ->
  (forall wa, In wa l -> exists h, order_half (snd wa) = Ok h /\ Z.even h = true) -> Z.even b = true.
Proof.
  revert b. induction l as [|[w d] l IH]; intros b H Hall; [cbn in H; inversion H; reflexivity|].
  cbn [sum_orders] in H. destruct (Hall (w, d) (or_introl eq_refl)) as (h & Eh & Ev). cbn [snd] in Eh. rewrite Eh in H.
  cbn [bind] in H. destruct (sum_orders l) as [s|] eqn:Es; cbn [bind] in H; [|discriminate]. inversion H; subst b.
  rewrite Z.even_add, Ev, (IH s eq_refl); [reflexivity|]. intros wa Hin. apply Hall. now right.
Qed.
Lemma arom_contract_even g k n b : arom_contractb g = true -> gfind k g = Some n -> is_arom (na n) = false ->
  sum_orders (nadj n) = Ok b -> Z.even b = true.
Proof.
  intros C G A S. unfold arom_contractb in C. rewrite forallb_forall in C. specialize (C n (gfind_In _ _ _ G)).
  rewrite forallb_forall in C. apply (sum_orders_even _ _ S). intros wa Hin. specialize (C wa Hin).
  destruct (order_half (snd wa)) as [h|]; [|discriminate]. exists h. split; [reflexivity|].
  rewrite A in C. cbn [andb] in C. rewrite orb_false_r in C. exact C.
Qed.

(** [rebuild_valence_exact]: under the aromaticity contract (a 1.5 order only between two aromatic atoms,
    checked on every recorded transcript) the property's clause holds WITHOUT the half-unit caveat for every
    atom that is not flagged aromatic: if its bonds fit within its largest valence, it receives exactly
    (least fitting valence - bonds) hydrogens and its bond orders then add up to that valence. *)
Theorem rebuild_valence_exact ca g1 g' k n val b :
  NoDup (node_keys g1) -> closed_g g1 -> noself_g g1 -> (forall i m, gfind i g1 = Some m -> no_rs m) ->
  arom_contractb g1 = true -> rebuild_after_car false ca g1 = Ok g' ->
  gfind k g1 = Some n -> is_H (na n) = false -> is_arom (na n) = false ->
  valence_of (na n) = Ok val -> sum_orders (nadj n) = Ok b -> fits val b ->
  exists v idxs n', least_fitting val b v /\ gfind k g' = Some n' /\
    nadj n' = nadj n ++ map (fun j => (j, h_edge_attrs)) idxs /\
    2 * Z.of_nat (length idxs) = 2 * v - b /\ sum_orders (nadj n') = Ok (2 * v) /\
    forall j, In j idxs -> exists h, gfind j g' = Some h /\ nadj h = [(k, h_edge_attrs)] /\ is_H (na h) = true.
Proof.
  intros Hnd Hcl Hns Hrs C H G EH EA Ev Es Hf.
  destruct (rebuild_end_to_end ca g1 g' Hnd Hcl Hns Hrs H) as (Heavy & _ & _).
  destruct (Heavy k n G EH) as (val' & b' & idxs & n' & Ev' & Es' & Len & _ & _ & G' & Adj & _ & Hs).
  rewrite Ev in Ev'. inversion Ev'; subst val'. rewrite Es in Es'. inversion Es'; subst b'.
  pose proof (arom_contract_even g1 k n b C G EA Es) as Even.
  destruct (rebuild_valence_sum (na n) val b idxs (nadj n') (nadj n) Ev Hf Es Len Adj) as (v & HL & He & _).
  destruct (He Even) as [Cnt Sum]. exists v, idxs, n'.
  split; [exact HL|]. split; [exact G'|]. split; [exact Adj|]. split; [exact Cnt|]. split; [exact Sum|].
  intros j Hj. destruct (Hs j Hj) as (h & A & B & D & _). eauto.
Qed.
