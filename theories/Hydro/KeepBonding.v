(** KeepBonding: what the `keep_bonding=True` adjustment of rebuild_h_atoms does (the loop
      for node, bond_ops in nx.get_node_attributes(mol_graph, 'bonding').items():
          mol_graph.nodes[node]['hcount'] -= sum([int(bond[-1]) for bond in bond_ops])
    as modelled by Hydrogens.keep_bonding_step), for every graph with distinct keys: a node WITH descriptors has its
    hydrogen count lowered by the sum of the LAST CHARACTERS of its descriptors read as digits (the order digit; of an
    order 1.5 the `5`), every other node and every other attribute, the bonds and the key order are untouched.
    PARTIAL: the end-to-end theorem (Hydro.RebuildProofs.rebuild_end_to_end) is stated for keep_bonding=False; this is
    the additional phase between fill_valence and add_explicit_hydrogens, not yet composed with them. *)
From Coq Require Import String.
From Coq Require Import List Ascii ZArith Bool Lia.
From CGV Require Import Base.PyBase Base.PyVal Base.NxGraph Gen.HydroGen Hydro.Hydrogens Hydro.GraphLemmas.
Import ListNotations.
Open Scope Z_scope.

Definition kb_sum (ops : pyval) : res Z :=
  l <- as_list ops ;;
  fold_res (fun acc b => d <- as_str b ;; c <- py_last d ;; i <- py_int [c] ;; Ok (acc + i)) l 0.
Definition lowered (n : nrec) (x : Z) : nrec :=
  {| nk := nk n; na := aset (S "hcount") (VInt x) (na n); nadj := nadj n |}.

Lemma kb_step_spec g k ops g' : keep_bonding_step g (k, ops) = Ok g' ->
  exists n s h hz, gfind k g = Some n /\ kb_sum ops = Ok s /\ aget (S "hcount") (na n) = Some h /\ as_int h = Ok hz /\
    g' = set_node_attr g k (S "hcount") (VInt (hz - s)).
Proof.
  unfold keep_bonding_step, kb_sum, node_attrs. intros H.
  destruct (as_list ops) as [l|]; cbn [bind] in H |- *; [|discriminate].
  match type of H with context [fold_res ?f l 0] => destruct (fold_res f l 0) as [s|] eqn:Es end; cbn [bind] in H; [|discriminate].
  destruct (gfind k g) as [n|] eqn:G; cbn [bind] in H; [|discriminate].
  destruct (aget (S "hcount") (na n)) as [h|] eqn:Eh; cbn [of_option bind] in H; [|discriminate].
  destruct (as_int h) as [hz|] eqn:Ez; cbn [bind] in H; [|discriminate].
  inversion H. exists n, s, h, hz. repeat split; auto.
Qed.

Lemma kb_fold l : NoDup (map fst l) -> forall g g', fold_res keep_bonding_step l g = Ok g' ->
  node_keys g' = node_keys g /\
  (forall i, ~ In i (map fst l) -> gfind i g' = gfind i g) /\
  (forall i ops, In (i, ops) l -> exists n s h hz, gfind i g = Some n /\ kb_sum ops = Ok s /\
      aget (S "hcount") (na n) = Some h /\ as_int h = Ok hz /\ gfind i g' = Some (lowered n (hz - s))).
Proof.
  induction l as [|[k ops] l IH]; intros Hnd g g' H.
  - cbn in H. inversion H; subst. split; [reflexivity|]. split; [reflexivity|intros i o []].
  - cbn [fold_res] in H. destruct (keep_bonding_step g (k, ops)) as [g1|] eqn:S1; cbn [bind] in H; [|discriminate].
    cbn [map fst] in Hnd. inversion Hnd as [|? ? Hk Hnd']; subst.
    destruct (kb_step_spec _ _ _ _ S1) as (n & s & h & hz & G & Es & Eh & Ez & ->).
    destruct (IH Hnd' _ g' H) as (K & O & I).
    assert (G1 : forall i, gfind i (set_node_attr g k (S "hcount") (VInt (hz - s))) =
                           if Z.eqb i k then Some (lowered n (hz - s)) else gfind i g).
    { intros i. rewrite gfind_set_node_attr. destruct (Z.eqb_spec i k) as [->|]; [now rewrite G|reflexivity]. }
    split; [rewrite K; unfold set_node_attr; apply node_keys_gupdate; reflexivity|]. split.
    + intros i Hi. cbn [map fst] in Hi. rewrite O by (intro X; apply Hi; now right). rewrite G1.
      destruct (Z.eqb_spec i k) as [->|]; [exfalso; apply Hi; now left|reflexivity].
    + intros i o [E|Hin].
      * inversion E; subst i o. exists n, s, h, hz. repeat split; try assumption.
        rewrite O by assumption. rewrite G1, Z.eqb_refl. reflexivity.
      * destruct (I i o Hin) as (n' & s' & h' & hz' & G' & A & B & C & D). exists n', s', h', hz'.
        repeat split; try assumption. rewrite G1 in G'.
        destruct (Z.eqb_spec i k) as [->|]; [|exact G']. exfalso. apply Hk. apply in_map_iff. exists (k, o). auto.
Qed.

(** the dict nx.get_node_attributes(g, 'bonding'): keys are a duplicate-free sublist of the node keys *)
Lemma gna_in a g i v : In (i, v) (get_node_attributes g a) <-> exists n, In n g /\ nk n = i /\ aget a (na n) = Some v.
Proof.
  unfold get_node_attributes. rewrite in_flat_map. split.
  - intros (n & Hn & Hin). destruct (aget a (na n)) as [x|] eqn:E; [|contradiction].
    destruct Hin as [E'|[]]. inversion E'; subst. exists n. auto.
  - intros (n & Hn & <- & E). exists n. split; [exact Hn|]. rewrite E. now left.
Qed.
Lemma gna_cons a n g : get_node_attributes (n :: g) a =
  (match aget a (na n) with Some v => [(nk n, v)] | None => [] end) ++ get_node_attributes g a.
Proof. reflexivity. Qed.
Lemma gna_keys_nodup a g : NoDup (node_keys g) -> NoDup (map fst (get_node_attributes g a)).
Proof.
  induction g as [|n g IH]; intros H; [constructor|].
  rewrite gna_cons, map_app. change (node_keys (n :: g)) with (nk n :: node_keys g) in H.
  inversion H as [|? ? Hn Hnd]; subst. destruct (aget a (na n)) as [v|]; cbn [map fst app]; [|now apply IH].
  constructor; [|now apply IH]. intros X. apply Hn. apply in_map_iff in X as ([i w] & E & Hin). cbn in E. subst i.
  apply gna_in in Hin as (m & Hm & Km & _). rewrite <- Km. unfold node_keys. now apply in_map.
Qed.
Lemma gfind_In_key g n : NoDup (node_keys g) -> In n g -> gfind (nk n) g = Some n.
Proof.
  induction g as [|m r IH]; intros Hnd Hn; [contradiction|]. cbn. inversion Hnd; subst.
  destruct Hn as [->|Hn]; [now rewrite Z.eqb_refl|].
  destruct (Z.eqb_spec (nk m) (nk n)) as [E|_]; [|now apply IH].
  exfalso. apply H1. rewrite E. unfold node_keys. now apply in_map.
Qed.

Theorem keep_bonding_phase g g' : NoDup (node_keys g) ->
  fold_res keep_bonding_step (get_node_attributes g (S "bonding")) g = Ok g' ->
  node_keys g' = node_keys g /\
  forall i n, gfind i g = Some n ->
    match aget (S "bonding") (na n) with
    | None => gfind i g' = Some n
    | Some ops => exists s h hz, kb_sum ops = Ok s /\ aget (S "hcount") (na n) = Some h /\ as_int h = Ok hz /\
                                 gfind i g' = Some (lowered n (hz - s))
    end.
Proof.
  intros Hnd H. destruct (kb_fold _ (gna_keys_nodup _ g Hnd) g g' H) as (K & O & I).
  split; [exact K|]. intros i n G. pose proof (gfind_key _ _ _ G) as Ki. pose proof (gfind_In _ _ _ G) as Hin.
  destruct (aget (S "bonding") (na n)) as [ops|] eqn:E.
  - destruct (I i ops) as (n' & s & h & hz & G' & A & B & C & D).
    { apply gna_in. exists n. auto. }
    rewrite G in G'. inversion G'; subst n'. exists s, h, hz. auto.
  - rewrite O; [exact G|]. intros X. apply in_map_iff in X as ([j w] & Ej & Hj). cbn in Ej. subst j.
    apply gna_in in Hj as (m & Hm & Km & Em).
    assert (m = n). { pose proof (gfind_In_key g m Hnd Hm) as Gm. rewrite Km, G in Gm. now inversion Gm. }
    subst m. congruence.
Qed.

(** non-vacuity: [$]C([>])=[$] style - one atom with three descriptors of orders 1, 1, 2 and a stored count of 3 *)
Example keep_bonding_phase_nonvacuous :
  let g := [{| nk := 0; na := [(S "element", VStr (S "C")); (S "hcount", VInt 3);
                               (S "bonding", VList [VStr (S "$1"); VStr (S ">1"); VStr (S "$a2")])]; nadj := [] |};
            {| nk := 1; na := [(S "element", VStr (S "C")); (S "hcount", VInt 3)]; nadj := [] |}] in
  NoDup (node_keys g) /\
  exists g', fold_res keep_bonding_step (get_node_attributes g (S "bonding")) g = Ok g' /\
             node_get g' 0 (S "hcount") = Some (VInt (-1)) /\ node_get g' 1 (S "hcount") = Some (VInt 3).
Proof.
  cbv zeta. split; [repeat constructor; cbn; intuition lia|].
  eexists. split; [vm_compute; reflexivity|]. split; vm_compute; reflexivity.
Qed.
