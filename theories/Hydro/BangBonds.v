(** BangBonds: the bond-creation fold of the resolver component (Resolve/Bonding.v, over the GENERATED
    [compatible]) does not depend on HOW uniquely labelled undirected pairs are written: renaming descriptor
    texts by a map that preserves compatibility, equality and the order digit renames the created bonds and
    the left-over tables, nothing else.  Instance: writing some `$lab` pairs as `!lab` pairs (BigSmiles
    convention) — so the `!` bonds of an overlapping description are exactly the bonds the same description
    gets when it is read as an ordinary cut of the molecule with the shared atoms duplicated, to which the
    theorems of C01/C03 apply. *)
From Coq Require Import String.
From Coq Require Import List Ascii ZArith Bool Lia.
From CGV Require Import Base.PyBase Base.PyVal Gen.ResolveGen Resolve.Bonding Resolve.BondingDefs Resolve.BondingSpec.
Import ListNotations.
Open Scope Z_scope.

Definition res_map {A B} (f : A -> B) (m : res A) : res B := match m with Ok a => Ok (f a) | Err e => Err e end.

Section Rename.
  Variable legacy : bool.
  Variable r : pystr -> pystr.
  Variable P : pystr -> Prop.                       (* the descriptors the statement is about *)
  Hypothesis P_nonempty : forall d, P d -> d <> [].
  Hypothesis r_nonempty : forall d, P d -> r d <> [].
  Hypothesis r_compat : forall a b, P a -> P b -> compat_str legacy (r a) (r b) = compat_str legacy a b.
  Hypothesis r_eqb : forall a b, P a -> P b -> str_eqb (r a) (r b) = str_eqb a b.
  Hypothesis r_last : forall a, P a -> py_last (r a) = py_last a.

  Definition ren_tbl (t : tbl) : tbl := map (fun ud => (fst ud, map r (snd ud))) t.
  Definition ren_state (s : cstate) : cstate := map (fun at_ => (fst at_, ren_tbl (snd at_))) s.
  Definition ren_bond (b : bond) : bond :=
    {| b_src := b_src b; b_tgt := b_tgt b; b_u := b_u b; b_v := b_v b; b_d1 := r (b_d1 b); b_d2 := r (b_d2 b);
       b_order := b_order b |}.
  Definition Pl (l : list pystr) : Prop := forall d, In d l -> P d.
  Definition Pt (t : tbl) : Prop := forall u ds, In (u, ds) t -> Pl ds.
  Definition Ps (s : cstate) : Prop := forall a t, In (a, t) s -> Pt t.

  Lemma compatible_ne a b : a <> [] -> b <> [] -> compatible a b legacy = Ok (compat_str legacy a b).
  Proof. destruct a as [|lk lt]; [congruence|]. destruct b as [|rk rt]; [congruence|]. intros _ _. apply compatible_spec. Qed.

  Lemma find_target_ren d ts : P d -> Pl ts ->
    find_target legacy (r d) (map r ts) = res_map (option_map r) (find_target legacy d ts).
  Proof.
    intros Hd. induction ts as [|t ts IH]; intros Ht; [reflexivity|]. cbn [map find_target].
    assert (Pt_ : P t) by (apply Ht; now left).
    rewrite (compatible_ne (r d) (r t)) by auto. rewrite (compatible_ne d t) by auto. cbn [bind].
    rewrite r_compat by assumption. destruct (compat_str legacy d t); [reflexivity|].
    apply IH. intros x Hx. apply Ht. now right.
  Qed.
  Lemma find_target_ok d ts : P d -> Pl ts -> exists o, find_target legacy d ts = Ok o /\ (forall t, o = Some t -> In t ts).
  Proof.
    intros Hd. induction ts as [|t ts IH]; intros Ht; [exists None; split; [reflexivity|discriminate]|]. cbn [find_target].
    rewrite (compatible_ne d t) by (auto; apply P_nonempty; apply Ht; now left). cbn [bind].
    destruct (compat_str legacy d t); [exists (Some t); split; [reflexivity|intros ? E; inversion E; now left]|].
    destruct IH as (o & E & Hin); [intros x Hx; apply Ht; now right|]. exists o. split; [exact E|]. intros x Hx. right. auto.
  Qed.
  Lemma first_pair_ren ds ts : Pl ds -> Pl ts ->
    first_pair legacy (map r ds) (map r ts) = res_map (option_map (fun p => (r (fst p), r (snd p)))) (first_pair legacy ds ts).
  Proof.
    intros Hd Ht. induction ds as [|d ds IH]; [reflexivity|]. cbn [map first_pair].
    rewrite find_target_ren by (auto; apply Hd; now left).
    destruct (find_target_ok d ts (Hd d (or_introl eq_refl)) Ht) as (o & E & _). rewrite E. cbn [res_map bind].
    destruct o as [t|]; cbn [option_map]; [reflexivity|]. apply IH. intros x Hx. apply Hd. now right.
  Qed.
  Lemma first_pair_ok ds ts : Pl ds -> Pl ts -> exists o, first_pair legacy ds ts = Ok o /\
    (forall d t, o = Some (d, t) -> In d ds /\ In t ts).
  Proof.
    intros Hd Ht. induction ds as [|d ds IH]; [exists None; split; [reflexivity|discriminate]|]. cbn [first_pair].
    destruct (find_target_ok d ts (Hd d (or_introl eq_refl)) Ht) as (o & E & Hin). rewrite E. cbn [bind].
    destruct o as [t|].
    - exists (Some (d, t)). split; [reflexivity|]. intros d' t' X. inversion X; subst. split; [now left|auto].
    - destruct IH as (o' & E' & Hin'); [intros x Hx; apply Hd; now right|]. exists o'. split; [exact E'|].
      intros d' t' X. destruct (Hin' d' t' X). split; [now right|assumption].
  Qed.
  Lemma scan_targets_ren ds tg : Pl ds -> Pt tg ->
    scan_targets legacy (map r ds) (ren_tbl tg)
    = res_map (option_map (fun p => (fst (fst p), r (snd (fst p)), r (snd p)))) (scan_targets legacy ds tg).
  Proof.
    intros Hd. induction tg as [|[v ts] tg IH]; intros Ht; [reflexivity|]. cbn [ren_tbl map scan_targets fst snd].
    assert (Hts : Pl ts) by (apply (Ht v); now left).
    rewrite first_pair_ren by assumption. destruct (first_pair_ok ds ts Hd Hts) as (o & E & _). rewrite E. cbn [res_map bind].
    destruct o as [[d t]|]; cbn [option_map fst snd]; [reflexivity|]. apply IH. intros u x Hx. apply (Ht u). now right.
  Qed.
  Lemma scan_targets_ok ds tg : Pl ds -> Pt tg -> exists o, scan_targets legacy ds tg = Ok o.
  Proof.
    intros Hd. induction tg as [|[v ts] tg IH]; intros Ht; [eexists; reflexivity|]. cbn [scan_targets].
    destruct (first_pair_ok ds ts Hd) as (o & E & _); [apply (Ht v); now left|]. rewrite E. cbn [bind].
    destruct o as [[d t]|]; [eexists; reflexivity|]. apply IH. intros u x Hx. apply (Ht u). now right.
  Qed.
  Lemma match_bonding_ren sr tg : Pt sr -> Pt tg ->
    match_bonding legacy (ren_tbl sr) (ren_tbl tg)
    = res_map (option_map (fun q => (fst (fst (fst q)), snd (fst (fst q)), r (snd (fst q)), r (snd q)))) (match_bonding legacy sr tg).
  Proof.
    intros Hs Ht. induction sr as [|[u ds] sr IH]; [reflexivity|]. cbn [ren_tbl map match_bonding fst snd].
    assert (Hds : Pl ds) by (apply (Hs u); now left).
    fold (ren_tbl tg). rewrite scan_targets_ren by assumption. destruct (scan_targets_ok ds tg Hds Ht) as (o & E). rewrite E.
    cbn [res_map bind]. destruct o as [[[v d] t]|]; cbn [option_map fst snd]; [reflexivity|].
    apply IH. intros w x Hx. apply (Hs w). now right.
  Qed.
  Lemma match_bonding_mem sr tg u v d t : Pt sr -> Pt tg -> match_bonding legacy sr tg = Ok (Some (u, v, d, t)) -> P d /\ P t.
  Proof.
    intros Hs Ht. induction sr as [|[u0 ds] sr IH]; intros H; [discriminate|]. cbn [match_bonding] in H.
    assert (Hds : Pl ds) by (apply (Hs u0); now left).
    destruct (scan_targets legacy ds tg) as [o|] eqn:E; cbn [bind] in H; [|discriminate].
    destruct o as [[[v0 d0] t0]|].
    - injection H as E1 E2 E3 E4. subst u0 v0 d0 t0. clear IH. revert E. clear Hs. induction tg as [|[w ts] tg IHt]; intros E; [discriminate|].
      cbn [scan_targets] in E. assert (Hts : Pl ts) by (apply (Ht w); now left).
      destruct (first_pair_ok ds ts Hds Hts) as (o & Eo & Hin). rewrite Eo in E. cbn [bind] in E.
      destruct o as [[d' t']|].
      + injection E as F1 F2 F3. subst w d' t'. destruct (Hin d t eq_refl). split; [apply Hds|apply Hts]; assumption.
      + apply IHt; [|exact E]. intros x y Hx. apply (Ht x). now right.
    - apply IH; [|exact H]. intros w x Hx. apply (Hs w). now right.
  Qed.
  Lemma match_bonding_ok sr tg : Pt sr -> Pt tg -> exists o, match_bonding legacy sr tg = Ok o.
  Proof.
    intros Hs Ht. induction sr as [|[u ds] sr IH]; [eexists; reflexivity|]. cbn [match_bonding].
    destruct (scan_targets_ok ds tg) as (o & E); [apply (Hs u); now left|assumption|]. rewrite E. cbn [bind].
    destruct o as [[[v d] t]|]; [eexists; reflexivity|]. apply IH. intros w x Hx. apply (Hs w). now right.
  Qed.

  Lemma remove1_ren d l : P d -> Pl l -> remove1 (r d) (map r l) = map r (remove1 d l).
  Proof.
    intros Hd. induction l as [|x l IH]; intros Hl; [reflexivity|]. cbn [map remove1].
    rewrite r_eqb by (auto; apply Hl; now left). destruct (str_eqb d x); [reflexivity|]. cbn [map]. f_equal.
    apply IH. intros y Hy. apply Hl. now right.
  Qed.
  Lemma remove1_P d l : Pl l -> Pl (remove1 d l).
  Proof.
    induction l as [|x l IH]; intros Hl y Hy; [contradiction|]. cbn [remove1] in Hy.
    destruct (str_eqb d x); [apply Hl; now right|]. destruct Hy as [<-|Hy]; [apply Hl; now left|].
    apply IH; [intros z Hz; apply Hl; now right|assumption].
  Qed.
  Lemma tbl_remove_ren u d t : P d -> Pt t -> tbl_remove u (r d) (ren_tbl t) = ren_tbl (tbl_remove u d t).
  Proof.
    intros Hd. induction t as [|[v ds] t IH]; intros Ht; [reflexivity|]. cbn [ren_tbl map tbl_remove fst snd].
    destruct (Z.eqb u v).
    - rewrite remove1_ren by (auto; apply (Ht v); now left). reflexivity.
    - cbn [map fst snd]. f_equal. apply IH. intros w x Hx. apply (Ht w). now right.
  Qed.
  Lemma tbl_remove_P u d t : Pt t -> Pt (tbl_remove u d t).
  Proof.
    induction t as [|[v ds] t IH]; intros Ht w x Hx; [contradiction|]. cbn [tbl_remove] in Hx. destruct (Z.eqb u v).
    - destruct Hx as [E|Hx]; [inversion E; subst; apply remove1_P; eapply Ht; now left|apply (Ht w); now right].
    - destruct Hx as [E|Hx]; [inversion E; subst; eapply Ht; now left|].
      apply (IH (fun a b H => Ht a b (or_intror H)) w x Hx).
  Qed.
  Lemma cget_ren a s : cget a (ren_state s) = res_map ren_tbl (cget a s).
  Proof. induction s as [|[k t] s IH]; [reflexivity|]. cbn [ren_state map cget fst snd]. destruct (Z.eqb a k); [reflexivity|exact IH]. Qed.
  Lemma cget_P a s t : Ps s -> cget a s = Ok t -> Pt t.
  Proof.
    induction s as [|[k t0] s IH]; intros Hs H; [discriminate|]. cbn [cget] in H. destruct (Z.eqb a k).
    - inversion H; subst. apply (Hs k). now left.
    - apply IH; [intros x y Hx; apply (Hs x); now right|exact H].
  Qed.
  Lemma cset_ren a t s : cset a (ren_tbl t) (ren_state s) = ren_state (cset a t s).
  Proof.
    induction s as [|[k t0] s IH]; [reflexivity|]. cbn [ren_state map cset fst snd]. destruct (Z.eqb a k); cbn [map fst snd]; [reflexivity|].
    f_equal. exact IH.
  Qed.
  Lemma cset_P a t s : Pt t -> Ps s -> Ps (cset a t s).
  Proof.
    intros Ht. induction s as [|[k t0] s IH]; intros Hs x y Hx; [contradiction|]. cbn [cset] in Hx. destruct (Z.eqb a k).
    - destruct Hx as [E|Hx]; [inversion E; subst; exact Ht|apply (Hs x); now right].
    - destruct Hx as [E|Hx]; [inversion E; subst; apply (Hs x); now left|].
      apply (IH (fun p q H => Hs p q (or_intror H)) x y Hx).
  Qed.
  Lemma bond_order_ren arom u v d : P d -> bond_order arom u v (r d) = bond_order arom u v d.
  Proof. intros Hd. unfold bond_order. rewrite r_last by assumption. reflexivity. Qed.

  Definition ren_out (o : cstate * list bond) : cstate * list bond := (ren_state (fst o), map ren_bond (snd o)).

  Lemma edge_loop_ren arom n : forall a b s acc, Ps s ->
    edge_loop legacy arom n a b (ren_state s) (map ren_bond acc) = res_map ren_out (edge_loop legacy arom n a b s acc) /\
    (forall s' acc', edge_loop legacy arom n a b s acc = Ok (s', acc') -> Ps s').
  Proof.
    induction n as [|n IH]; intros a b s acc Hs; [split; [reflexivity|intros ? ? H; inversion H; subst; exact Hs]|].
    cbn [edge_loop]. rewrite !cget_ren.
    destruct (cget a s) as [sr|] eqn:Ea; cbn [res_map bind]; [|split; [reflexivity|discriminate]].
    destruct (cget b s) as [tg|] eqn:Eb; cbn [res_map bind]; [|split; [reflexivity|discriminate]].
    pose proof (cget_P a s sr Hs Ea) as Psr. pose proof (cget_P b s tg Hs Eb) as Ptg.
    rewrite match_bonding_ren by assumption. destruct (match_bonding_ok sr tg Psr Ptg) as (o & Em). rewrite Em. cbn [res_map bind].
    destruct o as [[[[u v] d1] d2]|]; cbn [option_map fst snd]; [|exact (IH a b s acc Hs)].
    destruct (match_bonding_mem sr tg u v d1 d2 Psr Ptg Em) as [Pd1 Pd2].
    rewrite tbl_remove_ren by assumption. rewrite cset_ren, cget_ren.
    set (s1 := cset a (tbl_remove u d1 sr) s).
    assert (Ps1 : Ps s1) by (apply cset_P; [apply tbl_remove_P; exact Psr|exact Hs]).
    destruct (cget b s1) as [tg1|] eqn:Eb1; cbn [res_map bind]; [|split; [reflexivity|discriminate]].
    pose proof (cget_P b s1 tg1 Ps1 Eb1) as Ptg1.
    rewrite tbl_remove_ren by assumption. rewrite cset_ren, bond_order_ren by assumption.
    destruct (bond_order arom u v d1) as [o|]; cbn [bind]; [|split; [reflexivity|discriminate]].
    assert (Ps2 : Ps (cset b (tbl_remove v d2 tg1) s1)) by (apply cset_P; [apply tbl_remove_P; exact Ptg1|exact Ps1]).
    specialize (IH a b (cset b (tbl_remove v d2 tg1) s1)
                  (acc ++ [{| b_src := a; b_tgt := b; b_u := u; b_v := v; b_d1 := d1; b_d2 := d2; b_order := o |}]) Ps2).
    rewrite map_app in IH. exact IH.
  Qed.

  Theorem edges_from_bonding_ren arom edges : forall s acc, Ps s ->
    edges_from_bonding legacy arom edges (ren_state s) (map ren_bond acc)
    = res_map ren_out (edges_from_bonding legacy arom edges s acc).
  Proof.
    induction edges as [|[[a b] o] edges IH]; intros s acc Hs; [reflexivity|]. cbn [edges_from_bonding].
    destruct (edge_loop_ren arom (Z.to_nat o) a b s acc Hs) as [E Hp]. rewrite E.
    destruct (edge_loop legacy arom (Z.to_nat o) a b s acc) as [[s' acc']|] eqn:El; cbn [res_map bind ren_out fst snd]; [|reflexivity].
    apply IH. exact (Hp s' acc' eq_refl).
  Qed.
End Rename.

(** ------------------------------------------------------------ `$lab` written as `!lab` *)
Open Scope char_scope.
Definition tail_in (t : pystr) (L : list pystr) : bool :=
  match rev t with [] => false | _ :: rl => str_in (rev rl) L end.
Definition bangify (L : list pystr) (d : pystr) : pystr :=
  match d with
  | c :: t => if Ascii.eqb c "$" && tail_in t L then "!" :: t else d
  | [] => []
  end.
(** the descriptors the statement is about: non-empty, and none already written `!` with one of the labels *)
Definition bang_free (L : list pystr) (d : pystr) : Prop :=
  d <> [] /\ forall t, d = "!" :: t -> tail_in t L = false.

Lemma bangify_cases L d : bang_free L d ->
  (exists t, d = "$" :: t /\ tail_in t L = true /\ bangify L d = "!" :: t) \/
  (bangify L d = d /\ forall t, d = "$" :: t -> tail_in t L = false).
Proof.
  intros [Hne _]. destruct d as [|c t]; [congruence|]. cbn [bangify].
  destruct (Ascii.eqb_spec c "$") as [->|N]; cbn [andb].
  - destruct (tail_in t L) eqn:E; [left; eauto|right; split; [reflexivity|intros t' X; inversion X; subst; exact E]].
  - right. split; [reflexivity|]. intros t' X. inversion X. congruence.
Qed.

Lemma bangify_nonempty L d : bang_free L d -> bangify L d <> [].
Proof. intros H. destruct (bangify_cases L d H) as [(t & -> & _ & ->)|[-> _]]; [discriminate|apply H]. Qed.
Lemma bangify_last L d : bang_free L d -> py_last (bangify L d) = py_last d.
Proof.
  intros H. destruct (bangify_cases L d H) as [(t & -> & E & ->)|[-> _]]; [|reflexivity].
  unfold py_last. cbn [rev]. unfold tail_in in E. destruct (rev t) as [|c rl]; [discriminate|reflexivity].
Qed.
Lemma bangify_eqb L a b : bang_free L a -> bang_free L b -> str_eqb (bangify L a) (bangify L b) = str_eqb a b.
Proof.
  intros Ha Hb.
  destruct (bangify_cases L a Ha) as [(ta & -> & Ea & ->)|[-> Na]];
    destruct (bangify_cases L b Hb) as [(tb & -> & Eb & ->)|[-> Nb]]; try reflexivity.
  - (* only a is rewritten *)
    destruct b as [|cb tb]; [reflexivity|]. cbn [str_eqb].
    destruct (Ascii.eqb "!" cb) eqn:E1; destruct (Ascii.eqb "$" cb) eqn:E2; cbn [andb]; try reflexivity.
    + apply Ascii.eqb_eq in E1. subst cb. destruct (str_eqb_spec ta tb) as [->|]; [|reflexivity].
      destruct Hb as [_ Hb]. rewrite (Hb tb eq_refl) in Ea. discriminate.
    + apply Ascii.eqb_eq in E2. subst cb. destruct (str_eqb_spec ta tb) as [->|]; [|reflexivity].
      rewrite (Nb tb eq_refl) in Ea. discriminate.
  - destruct a as [|ca ta]; [reflexivity|]. cbn [str_eqb].
    destruct (Ascii.eqb ca "!") eqn:E1; destruct (Ascii.eqb ca "$") eqn:E2; cbn [andb]; try reflexivity.
    + apply Ascii.eqb_eq in E1. subst ca. destruct (str_eqb_spec ta tb) as [->|]; [|reflexivity].
      destruct Ha as [_ Ha]. rewrite (Ha tb eq_refl) in Eb. discriminate.
    + apply Ascii.eqb_eq in E2. subst ca. destruct (str_eqb_spec ta tb) as [->|]; [|reflexivity].
      rewrite (Na tb eq_refl) in Eb. discriminate.
Qed.
Lemma bangify_compat L a b : bang_free L a -> bang_free L b ->
  compat_str true (bangify L a) (bangify L b) = compat_str true a b.
Proof.
  intros Ha Hb.
  destruct (bangify_cases L a Ha) as [(ta & -> & Ea & ->)|[-> Na]];
    destruct (bangify_cases L b Hb) as [(tb & -> & Eb & ->)|[-> Nb]]; try reflexivity.
  - destruct b as [|cb tb]; [reflexivity|]. cbn [compat_str]. unfold Compat, compl.
    destruct (Ascii.eqb "!" cb) eqn:E1; destruct (Ascii.eqb "$" cb) eqn:E2.
    + apply Ascii.eqb_eq in E1, E2. congruence.
    + apply Ascii.eqb_eq in E1. subst cb. cbn. destruct (str_eqb_spec ta tb) as [->|]; [|reflexivity].
      destruct Hb as [_ Hb]. rewrite (Hb tb eq_refl) in Ea. discriminate.
    + apply Ascii.eqb_eq in E2. subst cb. cbn. destruct (str_eqb_spec ta tb) as [->|]; [|reflexivity].
      rewrite (Nb tb eq_refl) in Ea. discriminate.
    + cbn. destruct (Ascii.eqb cb ">"), (Ascii.eqb cb "<"); reflexivity.
  - destruct a as [|ca ta]; [reflexivity|]. cbn [compat_str]. unfold Compat, compl.
    destruct (Ascii.eqb ca "!") eqn:E1; destruct (Ascii.eqb ca "$") eqn:E2.
    + apply Ascii.eqb_eq in E1, E2. congruence.
    + apply Ascii.eqb_eq in E1. subst ca. cbn. destruct (str_eqb_spec ta tb) as [->|]; [|reflexivity].
      destruct Ha as [_ Ha]. rewrite (Ha tb eq_refl) in Eb. discriminate.
    + apply Ascii.eqb_eq in E2. subst ca. cbn. destruct (str_eqb_spec ta tb) as [->|]; [|reflexivity].
      rewrite (Na tb eq_refl) in Eb. discriminate.
    + cbn. destruct (Ascii.eqb ca ">"), (Ascii.eqb ca "<"), (Ascii.eqb ca " "); reflexivity.
Qed.
Open Scope Z_scope.

(** [bang_bonds_like_dollar]: BigSmiles convention; [L] a set of labels; every descriptor of the tables is
    non-empty and none is already `!`-written with a label of L.  Writing the `$lab` descriptors with lab in L as
    `!lab` changes NOTHING in the bond-creation fold except the text on those descriptors: same base edges
    served, same atoms joined, same orders, same left-over descriptors. *)
Theorem bang_bonds_like_dollar L arom edges s : Ps (bang_free L) s ->
  edges_from_bonding true arom edges (ren_state (bangify L) s) []
  = res_map (ren_out (bangify L)) (edges_from_bonding true arom edges s []).
Proof.
  intros H.
  exact (edges_from_bonding_ren true (bangify L) (bang_free L) (fun d Hd => proj1 Hd) (bangify_nonempty L)
           (bangify_compat L) (bangify_eqb L) (bangify_last L) arom edges s [] H).
Qed.

(** non-vacuity: three coarse nodes; the pair labelled `a` is written `!`, the pair labelled `b` stays `$` *)
Example bang_bonds_like_dollar_nonvacuous :
  let s := [(0, [(1, [S "$a1"])]); (1, [(2, [S "$a1"]); (3, [S "$b1"])]); (2, [(4, [S "$b1"])])] in
  let edges := [(0, 1, 1); (1, 2, 1)] in
  Ps (bang_free [S "a"]) s /\
  ren_state (bangify [S "a"]) s = [(0, [(1, [S "!a1"])]); (1, [(2, [S "!a1"]); (3, [S "$b1"])]); (2, [(4, [S "$b1"])])] /\
  exists s' bonds, edges_from_bonding true (fun _ => false) edges s [] = Ok (s', bonds) /\
    map (fun b => (b_u b, b_v b, b_d1 b)) bonds = [(1, 2, S "$a1"); (3, 4, S "$b1")] /\
    map (fun b => (b_u b, b_v b, b_d1 b)) (map (ren_bond (bangify [S "a"])) bonds) = [(1, 2, S "!a1"); (3, 4, S "$b1")].
Proof.
  cbn zeta. split.
  - intros a t Ht u ds Hu d Hd. cbn in Ht.
    repeat (destruct Ht as [Ht|Ht]; [inversion Ht; subst; cbn in Hu;
            repeat (destruct Hu as [Hu|Hu]; [inversion Hu; subst; cbn in Hd;
                    repeat (destruct Hd as [Hd|Hd]; [subst; split; [discriminate|intros t' X; discriminate X]|]); contradiction|]);
            contradiction|]). contradiction.
  - split; [vm_compute; reflexivity|]. do 2 eexists. split; [vm_compute; reflexivity|]. split; vm_compute; reflexivity.
Qed.
