(** HydroDefs: definitions used by the statements of C09 (NO proofs). *)
From Coq Require Import String.
From Coq Require Import List Ascii ZArith Bool Lia.
From CGV Require Import Base.PyBase Base.PyVal Base.NxGraph Gen.HydroGen Hydro.Hydrogens.
Import ListNotations.
Open Scope Z_scope.

(** a valence row is well formed: non-empty, non-negative, strictly ascending *)
Fixpoint ascending (l : list Z) : bool :=
  match l with
  | [] => true
  | x :: r => match r with [] => true | y :: _ => (x <? y) && ascending r end
  end.
Definition row_wf (l : list Z) : bool :=
  match l with [] => false | x :: _ => (0 <=? x) && ascending l end.
Definition table_wf (t : list ((pystr * Z) * option (list Z))) : bool :=
  forallb (fun row => match snd row with Some l => row_wf l | None => true end) t.

(** [v] is the least valence of the row that accommodates a bond sum of [b2] half units *)
Definition least_fitting (val : list Z) (b2 v : Z) : Prop :=
  In v val /\ b2 <= 2 * v /\ forall w, In w val -> b2 <= 2 * w -> v <= w.
(** the bond sum fits within the largest valence of the row *)
Definition fits (val : list Z) (b2 : Z) : Prop := exists w, In w val /\ b2 <= 2 * w.

(** the stronger part of the contract of `correct_aromatic_rings` (evaluated on every recorded transcript by
    ./check C09): every bond order is a number, and a half-integral one (1.5, the aromatic bond) only joins
    two atoms that are both flagged aromatic *)
Definition is_arom (a : attrs) : bool := truthy (getd (S "aromatic") a (VBool false)).
Definition arom_of (g : graph) (k : Z) : bool := match gfind k g with Some n => is_arom (na n) | None => false end.
Definition arom_contractb (g : graph) : bool :=
  forallb (fun n => forallb (fun wa : Z * attrs =>
                      match order_half (snd wa) with
                      | Ok h => Z.even h || (is_arom (na n) && arom_of g (fst wa))
                      | Err _ => false
                      end) (nadj n)) g.
