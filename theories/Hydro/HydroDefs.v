(** HydroDefs: definitions used by the statements of C09 (NO proofs). *)
From Coq Require Import String.
From Coq Require Import List Ascii ZArith Bool Lia.
From CGV Require Import Base.PyBase Base.PyVal Base.NxGraph Gen.HydroGen Hydro.Hydrogens.
Import ListNotations.
Open Scope Z_scope.

(** a valence row is well formed: non-empty, non-negative, strictly ascending *)
Fixpoint ascending (l : list Z) : bool :=
  match l with
  | [] => true
  | x :: r => match r with [] => true | y :: _ => (x <? y) && ascending r end
  end.
Definition row_wf (l : list Z) : bool :=
  match l with [] => false | x :: _ => (0 <=? x) && ascending l end.
Definition table_wf (t : list ((pystr * Z) * option (list Z))) : bool :=
  forallb (fun row => match snd row with Some l => row_wf l | None => true end) t.

(** [v] is the least valence of the row that accommodates a bond sum of [b2] half units *)
Definition least_fitting (val : list Z) (b2 v : Z) : Prop :=
  In v val /\ b2 <= 2 * v /\ forall w, In w val -> b2 <= 2 * w -> v <= w.
(** the bond sum fits within the largest valence of the row *)
Definition fits (val : list Z) (b2 : Z) : Prop := exists w, In w val /\ b2 <= 2 * w.
