(** SquashDefs: definitions used by the statements of C10 (NO proofs). *)
From Coq Require Import String.
From Coq Require Import List Ascii ZArith Bool Lia.
From CGV Require Import Base.PyBase Base.PyVal Base.NxGraph Gen.HydroGen Hydro.Hydrogens Hydro.Squash.
Import ListNotations.
Open Scope Z_scope.

(** a well-formed simple undirected graph in the NxGraph representation: distinct keys, every
    adjacency entry names a node, adjacency symmetric, no self loops (molecule graphs) *)
Record wf_graph (g : graph) : Prop := {
  wf_nodup : NoDup (node_keys g);
  wf_closed : forall y x, has_edge g y x = true -> has_node g x = true;
  wf_sym : forall y x, has_edge g y x = has_edge g x y;
  wf_loopfree : forall y, has_edge g y y = false }.

Definition nattrs (g : graph) (y : Z) : option attrs := option_map na (gfind y g).

(** adjacency of the graph after contracting v into u, in terms of the graph before *)
Definition contracted_edge (g : graph) (u v y x : Z) : bool :=
  if Z.eqb y v || Z.eqb x v then false
  else if Z.eqb y u && Z.eqb x u then has_edge g u u
  else has_edge g y x || (Z.eqb y u && has_edge g v x) || (Z.eqb x u && has_edge g y v).

Definition zmem (x : Z) (l : list Z) : bool := existsb (Z.eqb x) l.

(** what `while node in squashed: node = squashed[node]` computes on the dicts the loop builds: entries are
    in insertion order and a value is a root when it is inserted, so chains only run forward and ONE
    left-to-right pass follows them to the end *)
Definition sq_pass (sq : list (Z * Z)) (x : Z) : Z :=
  fold_left (fun cur kv => if Z.eqb cur (fst kv) then snd kv else cur) sq x.

(** the merges squash_atoms performs for the `!` pairs [ps] (in edge order), as (kept, removed); a pair
    whose two ends already are one atom is skipped *)
Fixpoint squash_plan (sq : list (Z * Z)) (ps : list (Z * Z)) : list (Z * Z) :=
  match ps with
  | [] => []
  | (a, b) :: r =>
      let keep := sq_pass sq a in
      let rm := sq_pass sq b in
      if Z.eqb keep rm then squash_plan sq r else (keep, rm) :: squash_plan (sq ++ [(rm, keep)]) r
  end.

(** the items squash_atoms iterates over, split into `!` pairs and others *)
Definition item_is_bang (e : Z * Z * pyval) : bool :=
  match starts_squash (snd e) with Ok true => true | _ => false end.
Definition bang_items (g : graph) : list (Z * Z) :=
  map (fun e => (fst (fst e), snd (fst e))) (filter item_is_bang (edge_attr_items g squash_edge_attr)).

(** a decidable sufficient test for [wf_graph] (sound: SquashProofs.wf_graphb_sound), evaluated on every
    recorded case by ./check C10 *)
Fixpoint nodupz (l : list Z) : bool :=
  match l with [] => true | x :: r => negb (existsb (Z.eqb x) r) && nodupz r end.
Definition wf_graphb (g : graph) : bool :=
  nodupz (node_keys g) &&
  forallb (fun n => forallb (fun wa : Z * attrs => has_node g (fst wa) && has_edge g (fst wa) (nk n)
                                                    && negb (Z.eqb (fst wa) (nk n))) (nadj n)) g.
(** every `bonding` edge attribute is a descriptor pair (decidable form of SquashProofs.bondings_ok) *)
Definition bondings_okb (g : graph) : bool :=
  forallb (fun e => match starts_squash (snd e) with Ok _ => true | Err _ => false end) (edge_attr_items g squash_edge_attr).
(** every node carries list-valued fragid and mapping (decidable form of SquashProofs.typed_g) *)
Definition typed_gb (g : graph) : bool :=
  forallb (fun n => match aget (S "fragid") (na n), aget (S "mapping") (na n) with
                    | Some (VList _), Some (VList _) => true | _, _ => false end) g.

(** the hydrogen count of a merged atom (/repo e7bad38): min of the two copies' counts when both carry one
    (Python's min: the kept atom's value unless the removed one's is strictly smaller), else the kept atom's *)
Definition hnum (a : attrs) : Prop :=
  match aget squash_min_attr a with Some v => exists h, half_of_num v = Ok h | None => True end.
Definition hcount_merged (au av : attrs) : option pyval :=
  match aget squash_min_attr au, aget squash_min_attr av with
  | Some a, Some b =>
      match half_of_num a, half_of_num b with
      | Ok ha, Ok hb => Some (if hb <? ha then b else a)
      | _, _ => Some a
      end
  | _, _ => aget squash_min_attr au
  end.
Definition hnumb (a : attrs) : bool :=
  match aget squash_min_attr a with Some v => match half_of_num v with Ok _ => true | Err _ => false end | None => true end.
Definition hnum_gb (g : graph) : bool := forallb (fun n => hnumb (na n)) g.
