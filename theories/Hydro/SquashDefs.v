(** SquashDefs: definitions used by the statements of C10 (NO proofs). *)
From Coq Require Import String.
From Coq Require Import List Ascii ZArith Bool Lia.
From CGV Require Import Base.PyBase Base.PyVal Base.NxGraph Gen.HydroGen Hydro.Hydrogens Hydro.Squash.
Import ListNotations.
Open Scope Z_scope.

(** a well-formed simple undirected graph in the NxGraph representation: distinct keys, every
    adjacency entry names a node, adjacency symmetric, no self loops (molecule graphs) *)
Record wf_graph (g : graph) : Prop := {
  wf_nodup : NoDup (node_keys g);
  wf_closed : forall y x, has_edge g y x = true -> has_node g x = true;
  wf_sym : forall y x, has_edge g y x = has_edge g x y;
  wf_loopfree : forall y, has_edge g y y = false }.

Definition nattrs (g : graph) (y : Z) : option attrs := option_map na (gfind y g).

(** adjacency of the graph after contracting v into u, in terms of the graph before *)
Definition contracted_edge (g : graph) (u v y x : Z) : bool :=
  if Z.eqb y v || Z.eqb x v then false
  else if Z.eqb y u && Z.eqb x u then has_edge g u u
  else has_edge g y x || (Z.eqb y u && has_edge g v x) || (Z.eqb x u && has_edge g y v).

Definition zmem (x : Z) (l : list Z) : bool := existsb (Z.eqb x) l.

(** the bookkeeping of squash_atoms over the `!` pairs [ps] (in edge order) never meets the two defect
    situations: it never looks up an atom that an earlier contraction removed (stale entry), and never
    asks to merge an atom with itself (the pairs close a cycle over one atom).  [alive] = the node keys
    of the graph handed to squash_atoms.  For pairs that form a forest over atoms and whose kept
    atoms are never removed later this holds (see the Examples); it is decidable. *)
Fixpoint squash_safe (alive : list Z) (sq : list (Z * Z)) (dead : list Z) (ps : list (Z * Z)) : bool :=
  match ps with
  | [] => true
  | (a, b) :: r =>
      let keep := sq_get sq a in
      let rm := sq_get sq b in
      zmem keep alive && zmem rm alive && negb (zmem keep dead) && negb (zmem rm dead)
      && negb (Z.eqb keep rm) && squash_safe alive (sq_set rm keep sq) (rm :: dead) r
  end.

(** the atoms removed by the run, in order *)
Fixpoint squash_removed (sq : list (Z * Z)) (ps : list (Z * Z)) : list Z :=
  match ps with
  | [] => []
  | (a, b) :: r => let keep := sq_get sq a in let rm := sq_get sq b in rm :: squash_removed (sq_set rm keep sq) r
  end.

(** the items squash_atoms iterates over, split into `!` pairs and others *)
Definition item_is_bang (e : Z * Z * pyval) : bool :=
  match starts_squash (snd e) with Ok true => true | _ => false end.
Definition bang_items (g : graph) : list (Z * Z) :=
  map (fun e => (fst (fst e), snd (fst e))) (filter item_is_bang (edge_attr_items g squash_edge_attr)).
