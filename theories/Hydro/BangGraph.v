(** BangGraph: resolving (instantiate the fragments, create the bonds) is PARAMETRIC in the descriptor texts:
    if the `bonding` lists of the templates are rewritten by a renaming under which bond creation is
    invariant (BangBonds), the disconnected molecule, the fragment graphs and the bonded molecule are the same
    graphs with the same rewriting applied to every `bonding` attribute value (nodes and edges).  Instance:
    a description whose shared pairs are written `!lab` resolves, up to squash_atoms, to the graph of the
    same description with those pairs written `$lab`, with the texts on those bonds rewritten. *)
From Coq Require Import String.
From Coq Require Import List Ascii ZArith Bool Lia.
From CGV Require Import Base.PyBase Base.PyVal Base.NxGraph Gen.ResolveGen Resolve.Bonding Resolve.BondingDefs Resolve.GraphOps.
From CGV Require Import Hydro.GraphLemmas.
From CGV Require Import Hydro.BangBonds.
Import ListNotations.
Open Scope Z_scope.

Section Param.
  Variable r : pystr -> pystr.

  Definition sren (x : pyval) : pyval := match x with VStr s => VStr (r s) | y => y end.
  Definition vren (v : pyval) : pyval :=
    match v with VList l => VList (map sren l) | VTup l => VTup (map sren l) | x => x end.
  Definition fk (k : pystr) (v : pyval) : pyval := if str_eqb k (S "bonding") then vren v else v.
  Definition Fa (a : attrs) : attrs := map (fun kv => (fst kv, fk (fst kv) (snd kv))) a.
  Definition nmap (n : nrec) : nrec :=
    {| nk := nk n; na := Fa (na n); nadj := map (fun wa => (fst wa, Fa (snd wa))) (nadj n) |}.
  Definition gmap (g : graph) : graph := map nmap g.

  (** ---- attribute dicts *)
  Lemma aget_Fa k a : aget k (Fa a) = option_map (fk k) (aget k a).
  Proof.
    induction a as [|[k' v] a IH]; [reflexivity|]. cbn [Fa map aget fst snd].
    destruct (str_eqb_spec k k') as [->|N]; [reflexivity|exact IH].
  Qed.
  Lemma aget_Fa_other k a : k <> S "bonding" -> aget k (Fa a) = aget k a.
  Proof.
    intros N. rewrite aget_Fa. unfold fk. destruct (str_eqb_spec k (S "bonding")); [contradiction|].
    destruct (aget k a); reflexivity.
  Qed.
  Lemma aset_Fa k v a : aset k (fk k v) (Fa a) = Fa (aset k v a).
  Proof.
    induction a as [|[k' v'] a IH]; [reflexivity|]. cbn [Fa map aset fst snd].
    destruct (str_eqb_spec k k') as [->|N]; cbn [map fst snd]; [reflexivity|]. f_equal. exact IH.
  Qed.
  Lemma aset_Fa_other k v a : k <> S "bonding" -> aset k v (Fa a) = Fa (aset k v a).
  Proof.
    intros N. rewrite <- aset_Fa. unfold fk. destruct (str_eqb_spec k (S "bonding")); [contradiction|reflexivity].
  Qed.
  Lemma aupdate_Fa b : forall a, aupdate (Fa a) (Fa b) = Fa (aupdate a b).
  Proof.
    unfold aupdate. induction b as [|[k v] b IH]; intros a; [reflexivity|]. cbn [Fa map fold_left fst snd].
    rewrite aset_Fa. apply IH.
  Qed.

  (** ---- graphs *)
  Lemma gfind_gmap k g : gfind k (gmap g) = option_map nmap (gfind k g).
  Proof. induction g as [|n g IH]; [reflexivity|]. cbn. destruct (Z.eqb (nk n) k); [reflexivity|exact IH]. Qed.
  Lemma has_node_gmap g k : has_node (gmap g) k = has_node g k.
  Proof. unfold has_node. rewrite gfind_gmap. destruct (gfind k g); reflexivity. Qed.
  Lemma node_keys_gmap g : node_keys (gmap g) = node_keys g.
  Proof. unfold node_keys, gmap. rewrite map_map. reflexivity. Qed.
  Lemma node_attrs_gmap g k : node_attrs (gmap g) k = res_map Fa (node_attrs g k).
  Proof. unfold node_attrs. rewrite gfind_gmap. destruct (gfind k g); reflexivity. Qed.
  Lemma node_get_gmap g k a : node_get (gmap g) k a = option_map (fk a) (node_get g k a).
  Proof. unfold node_get. rewrite gfind_gmap. destruct (gfind k g); cbn; [apply aget_Fa|reflexivity]. Qed.
  Lemma node_get_gmap_other g k a : a <> S "bonding" -> node_get (gmap g) k a = node_get g k a.
  Proof. intros N. unfold node_get. rewrite gfind_gmap. destruct (gfind k g); cbn; [now apply aget_Fa_other|reflexivity]. Qed.
  Lemma gupdate_gmap k f f' g : (forall n, nmap (f n) = f' (nmap n)) -> gupdate k f' (gmap g) = gmap (gupdate k f g).
  Proof.
    intros H. unfold gmap. induction g as [|n g IH]; [reflexivity|]. cbn [map gupdate]. change (nk (nmap n)) with (nk n).
    destruct (Z.eqb (nk n) k); cbn [map]; [now rewrite H|now rewrite IH].
  Qed.
  Lemma gmap_app g h : gmap (g ++ h) = gmap g ++ gmap h.
  Proof. apply map_app. Qed.
  Lemma add_node_gmap g k a : add_node (gmap g) k (Fa a) = gmap (add_node g k a).
  Proof.
    unfold add_node. rewrite has_node_gmap. destruct (has_node g k).
    - apply gupdate_gmap. intros n. unfold nmap. cbn. rewrite aupdate_Fa. reflexivity.
    - rewrite gmap_app. reflexivity.
  Qed.
  Lemma set_node_attr_gmap g k a v : set_node_attr (gmap g) k a (fk a v) = gmap (set_node_attr g k a v).
  Proof. unfold set_node_attr. apply gupdate_gmap. intros n. unfold nmap. cbn. rewrite aset_Fa. reflexivity. Qed.
  Lemma set_node_attr_gmap_other g k a v : a <> S "bonding" -> set_node_attr (gmap g) k a v = gmap (set_node_attr g k a v).
  Proof.
    intros N. rewrite <- set_node_attr_gmap. unfold fk. destruct (str_eqb_spec a (S "bonding")); [contradiction|reflexivity].
  Qed.
  Lemma adj_get_map v l : adj_get v (map (fun wa : Z * attrs => (fst wa, Fa (snd wa))) l) = option_map Fa (adj_get v l).
  Proof. induction l as [|[w a] l IH]; [reflexivity|]. cbn. destruct (Z.eqb w v); [reflexivity|exact IH]. Qed.
  Lemma adj_set_map v d l : adj_set v (Fa d) (map (fun wa : Z * attrs => (fst wa, Fa (snd wa))) l)
                            = map (fun wa : Z * attrs => (fst wa, Fa (snd wa))) (adj_set v d l).
  Proof. induction l as [|[w a] l IH]; [reflexivity|]. cbn. destruct (Z.eqb w v); cbn; [reflexivity|now rewrite IH]. Qed.
  Lemma edge_attrs_gmap g u v : edge_attrs (gmap g) u v = res_map Fa (edge_attrs g u v).
  Proof.
    unfold edge_attrs. rewrite gfind_gmap. destruct (gfind u g) as [n|]; cbn; [|reflexivity].
    rewrite adj_get_map. destruct (adj_get v (nadj n)); reflexivity.
  Qed.
  Lemma has_edge_gmap g u v : has_edge (gmap g) u v = has_edge g u v.
  Proof.
    unfold has_edge. rewrite gfind_gmap. destruct (gfind u g) as [n|]; cbn; [|reflexivity].
    rewrite adj_get_map. destruct (adj_get v (nadj n)); reflexivity.
  Qed.
  Lemma add_edge_gmap g u v d : add_edge (gmap g) u v (Fa d) = gmap (add_edge g u v d).
  Proof.
    unfold add_edge. rewrite has_node_gmap.
    set (g1 := if has_node g u then g else g ++ [{| nk := u; na := []; nadj := [] |}]).
    assert (E1 : (if has_node g u then gmap g else gmap g ++ [{| nk := u; na := []; nadj := [] |}]) = gmap g1).
    { unfold g1. destruct (has_node g u); [reflexivity|]. rewrite gmap_app. reflexivity. }
    rewrite E1, has_node_gmap.
    set (g2 := if has_node g1 v then g1 else g1 ++ [{| nk := v; na := []; nadj := [] |}]).
    assert (E2 : (if has_node g1 v then gmap g1 else gmap g1 ++ [{| nk := v; na := []; nadj := [] |}]) = gmap g2).
    { unfold g2. destruct (has_node g1 v); [reflexivity|]. rewrite gmap_app. reflexivity. }
    rewrite E2, edge_attrs_gmap.
    assert (E3 : aupdate (match res_map Fa (edge_attrs g2 u v) with Ok d0 => d0 | Err _ => [] end) (Fa d)
                 = Fa (aupdate (match edge_attrs g2 u v with Ok d0 => d0 | Err _ => [] end) d)).
    { destruct (edge_attrs g2 u v); cbn [res_map]; [apply aupdate_Fa|apply (aupdate_Fa d [])]. }
    rewrite E3.
    rewrite (gupdate_gmap u (fun n => {| nk := nk n; na := na n; nadj := adj_set v (aupdate (match edge_attrs g2 u v with Ok d0 => d0 | Err _ => [] end) d) (nadj n) |}))
      by (intros n; unfold nmap; cbn; now rewrite adj_set_map).
    apply gupdate_gmap. intros n. unfold nmap. cbn. now rewrite adj_set_map.
  Qed.
  Lemma edges_from_gmap g : forall seen, edges_from (gmap g) seen = map (fun e => (fst e, Fa (snd e))) (edges_from g seen).
  Proof.
    induction g as [|n g IH]; intros seen; [reflexivity|]. cbn [gmap map edges_from nmap nk nadj]. rewrite map_app. f_equal; [|apply IH].
    induction (nadj n) as [|[w a] l IHl]; [reflexivity|]. cbn [map flat_map fst snd]. rewrite map_app, IHl. f_equal.
    destruct (existsb (Z.eqb w) seen); reflexivity.
  Qed.
  Lemma edges_data_gmap g : edges_data (gmap g) = map (fun e => (fst e, Fa (snd e))) (edges_data g).
  Proof. apply edges_from_gmap. Qed.
  Lemma get_node_attributes_gmap g a :
    get_node_attributes (gmap g) a = map (fun kv => (fst kv, fk a (snd kv))) (get_node_attributes g a).
  Proof.
    unfold get_node_attributes. induction g as [|n g IH]; [reflexivity|]. cbn [gmap map flat_map nmap nk na].
    rewrite map_app. f_equal; [|exact IH]. rewrite aget_Fa. destruct (aget a (na n)); reflexivity.
  Qed.

  (** ---- the resolver's graph operations (Resolve/GraphOps.v) *)
  Lemma fold_res_map2 {A B X} (f : B -> A -> res B) (f' : B -> X -> res B) (m : A -> X) (h : B -> B) l :
    (forall b x, f' (h b) (m x) = res_map h (f b x)) ->
    forall b, GraphOps.fold_res f' (map m l) (h b) = res_map h (GraphOps.fold_res f l b).
  Proof.
    intros H. induction l as [|x l IH]; intros b; [reflexivity|]. cbn [map GraphOps.fold_res]. rewrite H.
    destruct (f b x) as [b1|]; cbn [res_map bind]; [apply IH|reflexivity].
  Qed.
  Lemma fold_left_map2 {A B X} (f : B -> A -> B) (f' : B -> X -> B) (m : A -> X) (h : B -> B) l :
    (forall b x, f' (h b) (m x) = h (f b x)) -> forall b, fold_left f' (map m l) (h b) = h (fold_left f l b).
  Proof. intros H. induction l as [|x l IH]; intros b; [reflexivity|]. cbn [map fold_left]. rewrite H. apply IH. Qed.

  Lemma fragid_ne : S "fragid" <> S "bonding". Proof. intro X; vm_compute in X; discriminate. Qed.
  Lemma ez_ne : S "ez_isomer_atoms" <> S "bonding". Proof. intro X; vm_compute in X; discriminate. Qed.
  Lemma mapping_ne : S "mapping" <> S "bonding". Proof. intro X; vm_compute in X; discriminate. Qed.
  Lemma fragname_ne : S "fragname" <> S "bonding". Proof. intro X; vm_compute in X; discriminate. Qed.
  Lemma order_ne : S "order" <> S "bonding". Proof. intro X; vm_compute in X; discriminate. Qed.
  Lemma element_ne : S "element" <> S "bonding". Proof. intro X; vm_compute in X; discriminate. Qed.
  Lemma hcount_ne : S "hcount" <> S "bonding". Proof. intro X; vm_compute in X; discriminate. Qed.
  Lemma aromatic_ne : S "aromatic" <> S "bonding". Proof. intro X; vm_compute in X; discriminate. Qed.

  Lemma merge_offsets_gmap src : merge_offsets (gmap src) = merge_offsets src.
  Proof.
    destruct src as [|n0 rr]; [reflexivity|]. unfold merge_offsets.
    change (gmap (n0 :: rr)) with (nmap n0 :: gmap rr). cbn [nk nmap]. rewrite node_keys_gmap.
    change (nmap n0 :: gmap rr) with (gmap (n0 :: rr)). rewrite node_attrs_gmap.
    destruct (node_attrs (n0 :: rr) (zmax_list (node_keys rr) (nk n0))) as [a|]; cbn [res_map bind]; [|reflexivity].
    rewrite aget_Fa_other by exact fragid_ne. reflexivity.
  Qed.
  Lemma shift_ez_Fa off a : shift_ez off (Fa a) = res_map Fa (shift_ez off a).
  Proof.
    unfold shift_ez. rewrite aget_Fa_other by exact ez_ne. destruct (aget (S "ez_isomer_atoms") a) as [v|]; [|reflexivity].
    destruct (as_list v) as [l|]; cbn [bind res_map]; [|reflexivity]. destruct l as [|x [|y l]]; try reflexivity.
    destruct (as_int x); cbn [bind res_map]; [|reflexivity]. destruct (as_int y); cbn [bind res_map]; [|reflexivity].
    rewrite aset_Fa_other by exact ez_ne. reflexivity.
  Qed.
  Lemma merge_node_Fa off fo a : merge_node off fo (Fa a) = res_map Fa (merge_node off fo a).
  Proof.
    unfold merge_node. rewrite aget_Fa_other by exact fragid_ne.
    destruct (match aget (S "fragid") a with Some v => as_int v | None => Ok 0 end); cbn [bind res_map]; [|reflexivity].
    rewrite aset_Fa_other by exact fragid_ne. apply shift_ez_Fa.
  Qed.
  Lemma correspondence_gmap off tgt : correspondence off (gmap tgt) = correspondence off tgt.
  Proof. unfold correspondence. rewrite node_keys_gmap. unfold gmap. rewrite map_length. reflexivity. Qed.

  Definition pmap1 (p : graph * list (Z * Z)) : graph * list (Z * Z) := (gmap (fst p), snd p).
  Lemma merge_graphs_gmap src tgt : merge_graphs (gmap src) (gmap tgt) = res_map pmap1 (merge_graphs src tgt).
  Proof.
    unfold merge_graphs. rewrite merge_offsets_gmap. destruct (merge_offsets src) as [[off fo]|]; cbn [bind res_map]; [|reflexivity].
    rewrite correspondence_gmap. set (corr := correspondence off tgt).
    unfold gmap at 2.
    rewrite (fold_res_map2 (fun acc n => a <- merge_node (off + 1) fo (na n) ;; Ok (add_node acc (map_get corr (nk n)) a)) _ nmap gmap tgt).
    - destruct (GraphOps.fold_res _ tgt src) as [src1|]; cbn [res_map bind]; [|reflexivity].
      unfold pmap1. cbn [fst snd]. f_equal. f_equal. rewrite edges_data_gmap.
      apply (fold_left_map2 (fun acc e => let '(u, v, d) := e in if Z.eqb (map_get corr u) (map_get corr v) then acc
                                                               else add_edge acc (map_get corr u) (map_get corr v) d)).
      intros b [[u v] d]. cbn [fst snd]. destruct (Z.eqb (map_get corr u) (map_get corr v)); [reflexivity|apply add_edge_gmap].
    - intros b n. cbn [nmap na nk]. rewrite merge_node_Fa. destruct (merge_node (off + 1) fo (na n)); cbn [bind res_map]; [|reflexivity].
      rewrite add_node_gmap. reflexivity.
  Qed.
  Lemma frag_graph_of_gmap mol tgt corr mn name :
    frag_graph_of (gmap mol) (gmap tgt) corr mn name = res_map gmap (frag_graph_of mol tgt corr mn name).
  Proof.
    unfold frag_graph_of. unfold gmap at 2. change gempty with (gmap gempty) at 1.
    rewrite (fold_res_map2 (fun acc n => let new := map_get corr (nk n) in a <- node_attrs mol new ;;
               Ok (add_node acc new (aset (S "mapping") (mapping_val name (nk n)) (aset (S "fragid") (VList [VInt mn]) a))))
             _ nmap gmap tgt).
    - destruct (GraphOps.fold_res _ tgt gempty) as [gf|]; cbn [res_map bind]; [|reflexivity]. f_equal.
      fold (gmap tgt). rewrite edges_data_gmap.
      apply (fold_left_map2 (fun acc e => let '(u, v, d) := e in add_edge acc (map_get corr u) (map_get corr v) d)).
      intros b [[u v] d]. cbn [fst snd]. apply add_edge_gmap.
    - intros b n. cbn zeta. cbn [nmap nk]. rewrite node_attrs_gmap. destruct (node_attrs mol (map_get corr (nk n))) as [a|]; cbn [res_map bind]; [|reflexivity].
      rewrite (aset_Fa_other (S "fragid")) by exact fragid_ne. rewrite (aset_Fa_other (S "mapping")) by exact mapping_ne.
      rewrite add_node_gmap. reflexivity.
  Qed.

  Definition fdmap (fd : fragdict) : fragdict := map (fun ng => (fst ng, gmap (snd ng))) fd.
  Definition fgmap (fgs : fgraphs) : fgraphs := map (fun kg => (fst kg, gmap (snd kg))) fgs.
  Lemma fd_get_fdmap name fd : fd_get name (fdmap fd) = option_map gmap (fd_get name fd).
  Proof. induction fd as [|[k g] fd IH]; [reflexivity|]. cbn. destruct (str_eqb name k); [reflexivity|exact IH]. Qed.
  Lemma fg_set_fgmap k g l : fg_set k (gmap g) (fgmap l) = fgmap (fg_set k g l).
  Proof.
    unfold fgmap. induction l as [|[k' g'] l IH]; [reflexivity|]. cbn [map fg_set fst snd].
    destruct (Z.eqb k k'); cbn [map fst snd]; [reflexivity|now rewrite IH].
  Qed.

  Definition smap (st : graph * fgraphs) : graph * fgraphs := (gmap (fst st), fgmap (snd st)).
  Lemma disc_step_gmap fd st mn : disc_step (fdmap fd) (smap st) mn = res_map smap (disc_step fd st mn).
  Proof.
    destruct st as [mol fgs]. unfold disc_step, smap. cbn [fst snd].
    destruct (aget (S "fragname") (na mn)) as [fv|]; cbn [of_option bind res_map]; [|reflexivity].
    unfold lookup_fragment. destruct fv as [| | |?|r0| | |]; try (destruct (virtual_ok mn); reflexivity).
    rewrite fd_get_fdmap. destruct (fd_get r0 fd) as [frag|]; cbn [option_map]; [|destruct (virtual_ok mn); reflexivity].
    rewrite merge_graphs_gmap. destruct (merge_graphs mol frag) as [[mol1 corr]|]; cbn [res_map bind pmap1 fst snd]; [|reflexivity].
    rewrite frag_graph_of_gmap. destruct (frag_graph_of mol1 frag corr (nk mn) r0) as [gf|]; cbn [res_map bind]; [|reflexivity].
    cbn [fst snd]. rewrite fg_set_fgmap. f_equal. f_equal. unfold gmap at 2.
    apply (fold_left_map2 (fun acc n => set_node_attr (set_node_attr acc (map_get corr (nk n)) (S "fragid") (VList [VInt (nk mn)]))
                                                      (map_get corr (nk n)) (S "mapping") (mapping_val r0 (nk n)))).
    intros b n. cbn [nmap nk]. rewrite (set_node_attr_gmap_other _ _ (S "fragid")) by exact fragid_ne.
    rewrite (set_node_attr_gmap_other _ _ (S "mapping")) by exact mapping_ne. reflexivity.
  Qed.
  Lemma disc_fold_gmap fd meta : forall st,
    GraphOps.fold_res (disc_step (fdmap fd)) meta (smap st) = res_map smap (GraphOps.fold_res (disc_step fd) meta st).
  Proof.
    induction meta as [|mn meta IH]; intros st; [reflexivity|].
    cbn [GraphOps.fold_res]. rewrite disc_step_gmap. destruct (disc_step fd st mn) as [st1|]; cbn [res_map bind]; [apply IH|reflexivity].
  Qed.
  Theorem resolve_disconnected_gmap fd meta :
    resolve_disconnected (fdmap fd) meta = res_map smap (resolve_disconnected fd meta).
  Proof. unfold resolve_disconnected. exact (disc_fold_gmap fd meta (gempty, [])). Qed.

  (** ---- the bonding step *)
  Lemma fold_res_map1 {A B} (f f' : B -> A -> res B) (h : B -> B) l :
    (forall b x, f' (h b) x = res_map h (f b x)) ->
    forall b, GraphOps.fold_res f' l (h b) = res_map h (GraphOps.fold_res f l b).
  Proof.
    intros H. induction l as [|x l IH]; intros b; [reflexivity|]. cbn [GraphOps.fold_res]. rewrite H.
    destruct (f b x) as [b1|]; cbn [res_map bind]; [apply IH|reflexivity].
  Qed.
  Lemma map_res_map {A B C X} (f : A -> res B) (f' : X -> res C) (m : A -> X) (h : B -> C) l :
    (forall x, f' (m x) = res_map h (f x)) -> map_res f' (map m l) = res_map (map h) (map_res f l).
  Proof.
    intros H. induction l as [|x l IH]; [reflexivity|]. cbn [map map_res]. rewrite H.
    destruct (f x) as [y|]; cbn [res_map bind]; [|reflexivity]. rewrite IH.
    destruct (map_res f l); reflexivity.
  Qed.
  Lemma strs_of_vren v : strs_of (vren v) = res_map (map r) (strs_of v).
  Proof.
    unfold strs_of.
    assert (E : forall l, map_res as_str (map sren l) = res_map (map r) (map_res as_str l)).
    { intros l. apply map_res_map. intros x. destruct x; reflexivity. }
    destruct v; try reflexivity; cbn [vren as_list bind]; apply E.
  Qed.
  Lemma fk_bonding v : fk (S "bonding") v = vren v.
  Proof. unfold fk. destruct (str_eqb_spec (S "bonding") (S "bonding")); [reflexivity|congruence]. Qed.
  Lemma table_of_gmap g : table_of (gmap g) = res_map (ren_tbl r) (table_of g).
  Proof.
    unfold table_of. rewrite get_node_attributes_gmap. unfold ren_tbl.
    apply (map_res_map (fun kv : Z * pyval => ds <- strs_of (snd kv) ;; Ok (fst kv, ds))). intros [k v]. cbn [fst snd].
    rewrite fk_bonding, strs_of_vren. destruct (strs_of v); reflexivity.
  Qed.
  Lemma tables_of_fgmap fgs : tables_of (fgmap fgs) = res_map (ren_state r) (tables_of fgs).
  Proof.
    unfold tables_of, fgmap, ren_state.
    apply (map_res_map (fun kg : Z * graph => t <- table_of (snd kg) ;; Ok (fst kg, t))). intros [k g]. cbn [fst snd].
    rewrite table_of_gmap. destruct (table_of g); reflexivity.
  Qed.
  Lemma arom_fn_gmap mol k : arom_fn (gmap mol) k = arom_fn mol k.
  Proof. unfold arom_fn. rewrite node_get_gmap_other by exact aromatic_ne. reflexivity. Qed.

  Lemma edge_loop_ext legacy ar1 ar2 : (forall k, ar1 k = ar2 k) ->
    forall n a b s acc, edge_loop legacy ar1 n a b s acc = edge_loop legacy ar2 n a b s acc.
  Proof.
    intros H. induction n as [|n IH]; intros a b s acc; [reflexivity|]. cbn [edge_loop].
    destruct (cget a s) as [sr|]; cbn [bind]; [|reflexivity]. destruct (cget b s) as [tg|]; cbn [bind]; [|reflexivity].
    destruct (match_bonding legacy sr tg) as [[[[[u v] d1] d2]|]|]; cbn [bind]; [|apply IH|reflexivity].
    destruct (cget b (cset a (tbl_remove u d1 sr) s)); cbn [bind]; [|reflexivity].
    unfold bond_order. rewrite !H. destruct (py_last d1) as [c|]; cbn [bind]; [|reflexivity]. destruct (py_int [c]); cbn [bind]; [|reflexivity].
    destruct (ar2 u && ar2 v); cbn [bind]; apply IH.
  Qed.
  Lemma edges_from_bonding_ext legacy ar1 ar2 : (forall k, ar1 k = ar2 k) ->
    forall edges s acc, edges_from_bonding legacy ar1 edges s acc = edges_from_bonding legacy ar2 edges s acc.
  Proof.
    intros H. induction edges as [|[[a b] o] edges IH]; intros s acc; [reflexivity|]. cbn [edges_from_bonding].
    rewrite (edge_loop_ext legacy ar1 ar2 H). destruct (edge_loop legacy ar2 (Z.to_nat o) a b s acc) as [[s' acc']|]; cbn [bind]; [apply IH|reflexivity].
  Qed.

  Lemma bond_attrs_ren b : bond_attrs (ren_bond r b) = Fa (bond_attrs b).
  Proof.
    unfold bond_attrs, Fa. cbn [map fst snd ren_bond b_d1 b_d2 b_order]. rewrite fk_bonding. unfold fk.
    destruct (str_eqb_spec (S "order") (S "bonding")) as [E|_]; [exfalso; exact (order_ne E)|]. reflexivity.
  Qed.
  Lemma apply_bond_gmap aa m b : apply_bond aa (gmap m) (ren_bond r b) = res_map gmap (apply_bond aa m b).
  Proof.
    unfold apply_bond. rewrite bond_attrs_ren. cbn [ren_bond b_u b_v]. rewrite add_edge_gmap.
    destruct aa; [|reflexivity].
    apply (fold_res_map1 (fun m n => el <- of_option (node_get m n (S "element")) EKey ;;
      if pyval_eqb el (VStr (S "H")) then Ok m else
      hc <- of_option (node_get m n (S "hcount")) EKey ;;
      let ar := match node_get m n (S "aromatic") with Some v => truthy v | None => true end in
      hc' <- dec_hcount ar hc ;; Ok (set_node_attr m n (S "hcount") hc'))).
    intros g n. rewrite !(node_get_gmap_other g n (S "element")) by exact element_ne.
    rewrite (node_get_gmap_other g n (S "hcount")) by exact hcount_ne.
    rewrite (node_get_gmap_other g n (S "aromatic")) by exact aromatic_ne.
    destruct (node_get g n (S "element")) as [el|]; cbn [of_option bind res_map]; [|reflexivity].
    destruct (pyval_eqb el (VStr (S "H"))); [reflexivity|].
    destruct (node_get g n (S "hcount")) as [hc|]; cbn [of_option bind res_map]; [|reflexivity].
    cbn zeta. destruct (dec_hcount _ hc); cbn [bind res_map]; [|reflexivity].
    rewrite set_node_attr_gmap_other by exact hcount_ne. reflexivity.
  Qed.
  Lemma cget_ren k s : cget k (ren_state r s) = res_map (ren_tbl r) (cget k s).
  Proof.
    unfold ren_state. induction s as [|[k' t] s IH]; [reflexivity|]. cbn [map cget fst snd].
    destruct (Z.eqb k k'); [reflexivity|exact IH].
  Qed.
  Lemma write_table_gmap t g : write_table (ren_tbl r t) (gmap g) = gmap (write_table t g).
  Proof.
    unfold write_table, ren_tbl.
    apply (fold_left_map2 (fun acc (ud : Z * list pystr) => set_node_attr acc (fst ud) (S "bonding") (VList (map VStr (snd ud))))).
    intros b [u ds]. cbn [fst snd]. rewrite <- set_node_attr_gmap. rewrite fk_bonding. cbn [vren]. rewrite !map_map. reflexivity.
  Qed.
  Lemma write_tables_gmap s fgs : write_tables (ren_state r s) (fgmap fgs) = fgmap (write_tables s fgs).
  Proof.
    unfold write_tables, fgmap. rewrite !map_map. apply map_ext. intros [k g]. cbn [fst snd].
    rewrite cget_ren. destruct (cget k s) as [t|]; cbn [res_map fst snd]; [|reflexivity].
    rewrite write_table_gmap. reflexivity.
  Qed.

  Section Step.
    Variable legacy : bool.
    Variable P : pystr -> Prop.
    Hypothesis P_nonempty : forall d, P d -> d <> [].
    Hypothesis r_nonempty : forall d, P d -> r d <> [].
    Hypothesis r_compat : forall a b, P a -> P b -> compat_str legacy (r a) (r b) = compat_str legacy a b.
    Hypothesis r_eqb : forall a b, P a -> P b -> str_eqb (r a) (r b) = str_eqb a b.
    Hypothesis r_last : forall a, P a -> py_last (r a) = py_last a.

    Lemma bonds_of_gmap meta mol fgs : (forall s0, tables_of fgs = Ok s0 -> Ps P s0) ->
      bonds_of legacy meta (gmap mol) (fgmap fgs) = res_map (ren_out r) (bonds_of legacy meta mol fgs).
    Proof.
      intros HP. unfold bonds_of. destruct (base_edges meta) as [edges|]; cbn [bind res_map]; [|reflexivity].
      rewrite tables_of_fgmap. destruct (tables_of fgs) as [s0|] eqn:E; cbn [bind res_map]; [|reflexivity].
      rewrite (edges_from_bonding_ext legacy _ _ (arom_fn_gmap mol)).
      exact (edges_from_bonding_ren legacy r P P_nonempty r_nonempty r_compat r_eqb r_last (arom_fn mol) edges s0 [] (HP s0 eq_refl)).
    Qed.
    Theorem bonding_step_gmap aa meta mol fgs : (forall s0, tables_of fgs = Ok s0 -> Ps P s0) ->
      bonding_step legacy aa meta (gmap mol) (fgmap fgs) = res_map smap (bonding_step legacy aa meta mol fgs).
    Proof.
      intros HP. unfold bonding_step. rewrite (bonds_of_gmap meta mol fgs HP).
      destruct (bonds_of legacy meta mol fgs) as [[s1 bonds]|]; cbn [bind res_map ren_out fst snd]; [|reflexivity].
      rewrite (fold_res_map2 (apply_bond aa) _ (ren_bond r) gmap bonds (apply_bond_gmap aa)).
      destruct (GraphOps.fold_res (apply_bond aa) bonds mol) as [mol'|]; cbn [bind res_map]; [|reflexivity].
      unfold smap. cbn [fst snd]. rewrite write_tables_gmap. reflexivity.
    Qed.
  End Step.
End Param.

(** [resolve_bang_like_dollar]: BigSmiles convention, [L] a set of labels.  Rewriting, in every fragment of the
    dictionary, the descriptors `$lab…` with lab in L as `!lab…` changes nothing in resolve_disconnected followed by
    the bonding step except those texts: the atoms, their attributes other than `bonding`, the edges and their orders,
    the hydrogen counts and the left-over descriptors are the images under [gmap (bangify L)] -- so the edges
    squash_atoms will later contract are exactly the edges the `$` description creates for the labels of L. *)
Theorem resolve_bang_like_dollar L aa fd meta mol fgs :
  resolve_disconnected fd meta = Ok (mol, fgs) ->
  (forall s0, tables_of fgs = Ok s0 -> Ps (bang_free L) s0) ->
  (st <- resolve_disconnected (fdmap (bangify L) fd) meta ;; bonding_step true aa meta (fst st) (snd st))
  = res_map (smap (bangify L)) (bonding_step true aa meta mol fgs).
Proof.
  intros E HP. rewrite resolve_disconnected_gmap, E. cbn [res_map bind smap fst snd].
  exact (bonding_step_gmap (bangify L) true (bang_free L) (fun d Hd => proj1 Hd) (bangify_nonempty L)
           (bangify_compat L) (bangify_eqb L) (bangify_last L) aa meta mol fgs HP).
Qed.
