(** ShareCutFull: the metamorphic clause of C10 in one statement, from hypotheses on the inputs only. *)
From Coq Require Import String.
From Coq Require Import List Ascii ZArith Bool Lia.
From CGV Require Import Base.PyBase Base.PyVal Base.NxGraph Gen.HydroGen Resolve.Bonding Resolve.BondingDefs Resolve.GraphOps Resolve.CopyProofs.
From CGV Require Import Hydro.GraphLemmas Hydro.Squash Hydro.SquashDefs Hydro.SquashProofs Hydro.SquashTotal Hydro.QuotientDefs Hydro.QuotientProofs
     Hydro.BangBonds Hydro.BangGraph Hydro.SquashTotalAny Hydro.NumTotal Hydro.ShareCut Hydro.QuotientAttrs Hydro.ShareCutTotal.
From CGV Require Import Compose.GraphAdj Compose.CutModel Compose.CutPos Compose.CutDisc Compose.CutTables Compose.CutSkeleton Compose.CutWf.
Import ListNotations.
Open Scope Z_scope.

Definition hnum_dictb (fd : fragdict) : bool := forallb (fun ng => forallb (fun n => hnumb (na n)) (snd ng)) fd.
Lemma hnum_dictb_sound fd : hnum_dictb fd = true -> hnum_dict fd.
Proof.
  unfold hnum_dictb. rewrite forallb_forall. intros H name g Hg n Hn.
  assert (Hin : In (name, g) fd).
  { clear H. induction fd as [|[k g0] fd IH]; [discriminate|]. cbn in Hg. destruct (str_eqb_spec name k) as [->|N].
    - inversion Hg; subst. now left.
    - right. now apply IH. }
  specialize (H _ Hin). cbn [snd] in H. rewrite forallb_forall in H. specialize (H n Hn).
  assert (G : hnum_g [n]).
  { apply hnum_gb_sound. unfold hnum_gb. cbn [forallb]. now rewrite H. }
  apply (G (nk n)). unfold nattrs. cbn [gfind]. now rewrite Z.eqb_refl.
Qed.

Theorem share_vs_cut_resolver_full C D L aa orig fdC BC fdD BD :
  wf_cut C -> templates_ok C fdC -> is_base C BC -> wf_dict fdC -> hnum_dict fdC ->
  wf_cut D -> templates_ok D fdD -> is_base D BD ->
  (aa = true -> forall x, In x (flat C) ->
     (exists e, aget (S "element") (payload C x) = Some e) /\ exists h, aget (S "hcount") (payload C x) = Some (VInt h)) ->
  (aa = true -> forall x, In x (flat D) ->
     (exists e, aget (S "element") (payload D x) = Some e) /\ exists h, aget (S "hcount") (payload D x) = Some (VInt h)) ->
  expands C D L orig -> same_payload C D orig ->
  exists gs fgs gd fgd g',
    (st <- resolve_disconnected (fdmap (bangify L) fdC) BC ;; bonding_step true aa BC (fst st) (snd st)) = Ok (gs, fgs) /\
    (st <- resolve_disconnected fdD BD ;; bonding_step true aa BD (fst st) (snd st)) = Ok (gd, fgd) /\
    squash_atoms gs = Ok g' /\
    length gs = length (flat C) /\ length g' = length (flat D) /\
    (forall y, In y (node_keys g') -> has_node gd (pi_cut C D orig y) = true) /\
    (forall a, has_node gd a = true -> exists y, In y (node_keys g') /\ pi_cut C D orig y = a) /\
    (forall y x, In y (node_keys g') -> In x (node_keys g') -> pi_cut C D orig y = pi_cut C D orig x -> y = x) /\
    (forall y x, In y (node_keys g') -> In x (node_keys g') ->
       has_edge g' y x = has_edge gd (pi_cut C D orig y) (pi_cut C D orig x)) /\
    (forall y key v, In y (node_keys g') -> aget key (payload C (atom_of C y)) = Some v ->
       ~ In key reserved -> key <> S "hcount" -> key <> S "contraction" ->
       node_get g' y key = Some v /\ node_get gd (pi_cut C D orig y) key = Some v) /\
    (forall x, In x (flat C) -> exists y l, In y (node_keys g') /\ pi_cut C D orig y = phi D (orig x) /\
       node_get g' y (S "fragid") = Some (VList l) /\ In (VInt (Z.of_nat (owner C x))) l).
Proof.
  intros WC TC IC WdC HdC WD TD ID HaC HaD X SP.
  destruct (cut_bonding_skeleton C WC fdC TC BC IC aa HaC) as (m1 & fg1 & gs' & fg2 & E1 & E2 & SkC).
  destruct (cut_bonding_skeleton D WD fdD TD BD ID aa HaD) as (n1 & fh1 & gd & fgd & F1 & F2 & SkD).
  destruct (disconnected_total C WC fdC TC BC IC) as (m1' & fg1' & E1' & I). rewrite E1 in E1'. inversion E1'; subst m1' fg1'.
  assert (Htab : tables_of fg1 = Ok (tables C)) by (rewrite (i_tables _ _ _ _ I), firstn_all; reflexivity).
  assert (Adj : adj_nodup gs') by (eapply adj_nodup_bonding; [eapply adj_nodup_disconnected; exact E1|exact E2]).
  assert (Len : length gs' = length m1).
  { rewrite <- (map_length nk gs'), <- (map_length nk m1). change (map nk gs') with (node_keys gs'). change (map nk m1) with (node_keys m1).
    rewrite (sk_keys _ _ _ SkC), (i_keys _ _ _ _ I), off_total. reflexivity. }
  pose proof (cut_skeleton_wf C WC aa gs' SkC) as Wf.
  assert (T : typed_g gs').
  { apply typed_inv_typed_g. eapply bonding_step_typed_any; [|exact E2|exact Len]. eapply resolve_disconnected_typed; eauto. }
  assert (HN : hnum_g gs').
  { apply num_inv_hnum_g. eapply bonding_step_num_any; [|exact E2|exact Len]. eapply resolve_disconnected_num; eauto. }
  destruct (squash_total _ (wf_graph_gmap (bangify L) _ Wf) (typed_g_gmap _ _ T) (hnum_g_gmap _ _ HN)
              (skeleton_bondings_ok C aa gs' L WC SkC Adj)) as (g' & Q & _ & _ & _).
  destruct (share_vs_cut_count C D L aa gs' gd orig g' WC WD SkC SkD Adj X Q) as (Cn1 & Cn2).
  destruct (share_vs_cut_skeletons C D WC WD L aa gs' gd SkC SkD Adj orig X g' Q) as (A1 & A2 & A3 & A4).
  exists (gmap (bangify L) gs'), (fgmap (bangify L) fg2), gd, fgd, g'.
  split; [|split; [|split; [exact Q|split; [exact Cn2|split; [exact Cn1|split; [exact A1|split; [exact A2|split; [exact A3|split; [exact A4|split]]]]]]]]].
  - rewrite (resolve_bang_like_dollar L aa fdC BC m1 fg1 E1), E2; [reflexivity|].
    intros s0 Hs. rewrite Htab in Hs. inversion Hs; subst s0. now apply tables_bang_free.
  - rewrite F1. cbn [bind fst snd]. exact F2.
  - exact (share_vs_cut_attrs C D L aa gs' gd orig g' WC WD SkC SkD X SP T HN Q).
  - exact (share_vs_cut_membership C D L aa gs' gd orig g' WC WD SkC SkD Adj X T HN Q).
Qed.
