(** BaseAnnot: an annotation on a base-graph node stays on that node - the reader part.
    [Dialect/MachineAnnot.machine_annotations] composed with the reader component's simulation theorems
    (imported, not edited): whatever [ReaderImpl.read_cgsmiles] (the model compared with the implementation
    on every run) returns for a string of the documented grammar, node i of the graph carries EXACTLY
    parse_graph_base_node(text of the i-th node in order of appearance, a multiplied node counting once per
    copy): inside branches, after ring bonds, for every copy. *)
From Coq Require Import String.
From Coq Require Import List Ascii ZArith Bool Lia.
From CGV Require Import Base.PyBase Base.PyVal Base.NxGraph Dialect.DialectImpl
     Reader.ReaderImpl Reader.Grammar Reader.Lin Reader.ReaderSim Reader.ReaderCheck Reader.ReaderEnd
     Resolve.Bonding Resolve.GraphOps Resolve.Pipeline Dialect.MachineAnnot.
Import ListNotations.
Open Scope Z_scope.

Definition annotated_as (fo : float_oracle) (g : graph) (texts : list pystr) : Prop :=
  node_keys g = zseq (length texts) /\
  forall i nm, nth_error texts i = Some nm ->
    exists a, parse_graph_base_node fo nm = Ok a /\ node_attrs g (Z.of_nat i) = Ok a.

Lemma finish_annotations fo ts g : m_finish (m_run fo ts m_init) = Ok g -> annotated_as fo g (node_texts ts).
Proof.
  unfold m_finish. destruct (m_run fo ts m_init) as [x|] eqn:E; cbn [bind]; [|discriminate].
  destruct (m_rings x); [|discriminate]. intros H. injection H as <-. now apply machine_annotations.
Qed.

(** flat strings (chains, node multipliers, nested branches, ring bonds) *)
Theorem base_annotation_flat fo l g : lins_ok fo l = true ->
  read_cgsmiles fo ("{"%char :: lins_str l ++ ["}"%char]) = Ok g -> annotated_as fo g (node_texts (lins_toks l)).
Proof. intros Hok H. rewrite (reader_sim_lin fo l Hok) in H. now apply finish_annotations. Qed.

(** the documented grammar (well-formed AST, no branch multiplier, outside the reader's defect classes),
    base graphs in braces and coarse fragment texts without *)
Theorem base_annotation_stays fo braces a g : wf fo a = true -> has_branch_mult a = false -> class_C04 braces a = 0%nat ->
  read_cgsmiles fo (print braces a) = Ok g -> annotated_as fo g (node_texts (toks (expand_branches a))).
Proof. intros W B C H. rewrite (reader_sim_C04 fo braces a W B C) in H. now apply finish_annotations. Qed.

(** ... and on the coarse graph that resolve() returns: same key, same attributes (an `atomname` key is the
    only thing the resolver reads to rewrite `fragname`) *)
Theorem base_annotation_on_coarse_graph fo braces a g legacy aa fd tr so i nm :
  wf fo a = true -> has_branch_mult a = false -> class_C04 braces a = 0%nat ->
  read_cgsmiles fo (print braces a) = Ok g ->
  resolve_step legacy aa fd g tr = Ok so ->
  nth_error (node_texts (toks (expand_branches a))) i = Some nm ->
  exists at_, parse_graph_base_node fo nm = Ok at_ /\
              (aget (S "atomname") at_ = None -> node_attrs (so_meta so) (Z.of_nat i) = Ok at_).
Proof.
  intros W B C H R Hi. destruct (base_annotation_stays fo braces a g W B C H) as [K A].
  destruct (A i nm Hi) as [at_ [Hp Hn]]. exists at_. split; [exact Hp|]. intros Hat.
  apply (coarse_graph_keeps_annotation legacy aa fd g tr so _ at_ R); auto. rewrite K. apply zseq_nodup.
Qed.

(** non-vacuity: {[#A;q=1]([#B;w=2]|2)[#C]} *)
Example base_annotation_example :
  let fo := fo_of_table [(S "1", Some (S "1.0")); (S "2", Some (S "2.0"))] in
  let a := [Item (S "A;q=1") [] None None [Branch [Item (S "B;w=2") [] (Some [2%nat]) None []] None None]; Item (S "C") [] None None []] in
  wf fo a = true /\ has_branch_mult a = false /\ class_C04 true a = 0%nat /\
  node_texts (toks (expand_branches a)) = [S "A;q=1"; S "B;w=2"; S "B;w=2"; S "C"] /\
  exists g, read_cgsmiles fo (print true a) = Ok g.
Proof. repeat split; try (vm_compute; reflexivity). eexists. vm_compute. reflexivity. Qed.
