(** CopyAnnot: annotations on the template atom and on every copy of it, over the Hydro and Resolve
    components' models (imported, not edited):
      - Hydro/Fragments.set_attr_dicts  = `nx.set_node_attributes(mol_graph, attributes)` of
        read_fragment_smiles / read_fragment_cgsmiles: every parsed key lands on the template atom;
      - Resolve/GraphOps.disc_step / resolve_disconnected = MoleculeResolver.resolve_disconnected_molecule:
        for WHICHEVER coarse node uses the fragment (hence for every reuse count) the copy of a template
        atom carries the template's value under every key except fragid / mapping / ez_isomer_atoms, and
        keeps it while the later coarse nodes are instantiated;
      - Hydro/Hydrogens.inherit_step (rebuild_h_atoms' inheritance loop): no existing key of any atom is
        overwritten. *)
From Coq Require Import String.
From Coq Require Import List Ascii ZArith Bool Lia.
From CGV Require Import Base.PyBase Base.PyVal Base.NxGraph Hydro.GraphLemmas Hydro.Hydrogens Hydro.HydrogensProofs
     Hydro.Fragments Resolve.Bonding Resolve.GraphOps Resolve.MapProofs Resolve.CopyProofs
     Dialect.DialectProofs Dialect.FragAnnot.
Import ListNotations.
Open Scope Z_scope.

(** ** 2. the template atom *)
Lemma set_attr_dicts_other d : forall g i, ~ In i (map fst d) -> gfind i (set_attr_dicts g d) = gfind i g.
Proof.
  unfold set_attr_dicts. induction d as [|[k a] r IH]; intros g i H; cbn [fold_left]; [reflexivity|].
  rewrite IH by (intros HI; apply H; now right). cbn [fst snd]. rewrite gfind_gupdate by reflexivity.
  destruct (Z.eqb_spec i k) as [->|N]; [exfalso; apply H; now left|reflexivity].
Qed.
(** every (key, value) of attributes[i] is on template atom i afterwards *)
Theorem template_carries_annotation d : forall g i a n key v,
  NoDup (map fst d) -> In (i, a) d -> gfind i g = Some n -> NoDup (map fst a) -> In (key, v) a ->
  exists n', gfind i (set_attr_dicts g d) = Some n' /\ aget key (na n') = Some v.
Proof.
  unfold set_attr_dicts. induction d as [|[k b] r IH]; intros g i a n key v ND HI Hg NDa Hk; [destruct HI|].
  inversion ND as [|? ? Hn Hr]; subst. cbn [fold_left fst snd]. destruct HI as [E|HI].
  - inversion E; subst k b. fold (set_attr_dicts (gupdate i (fun n0 => {| nk := nk n0; na := aupdate (na n0) a; nadj := nadj n0 |}) g) r).
    rewrite set_attr_dicts_other by exact Hn. rewrite gfind_gupdate by reflexivity. rewrite Z.eqb_refl, Hg. cbn.
    eexists. split; [reflexivity|]. cbn. now apply aget_aupdate_in.
  - assert (N : i <> k) by (intros ->; apply Hn; change k with (fst (k, a)); now apply in_map).
    apply (IH _ i a n key v Hr HI); [|assumption|assumption].
    rewrite gfind_gupdate by reflexivity. apply Z.eqb_neq in N. now rewrite N.
Qed.

(** ** 3. every copy *)
Definition copy_key (off : Z) (frag : graph) (t : Z) : Z := map_get (correspondence off frag) t.
Definition kept_key (key : pystr) : Prop := key <> S "fragid" /\ key <> S "mapping" /\ key <> S "ez_isomer_atoms".

(** one instantiation step, for an arbitrary coarse node [mn] whose fragname has a fragment *)
Theorem copy_carries_template fd mol fgs mn fv name frag mol2 fgs2 :
  aget (S "fragname") (na mn) = Some fv -> lookup_fragment fd fv = Some (name, frag) -> wf_template frag ->
  disc_step fd (mol, fgs) mn = Ok (mol2, fgs2) ->
  exists off fo, merge_offsets mol = Ok (off, fo) /\
    forall n, In n frag -> exists a2, node_attrs mol2 (copy_key off frag (nk n)) = Ok a2 /\
      aget (S "fragid") a2 = Some (VList [VInt (nk mn)]) /\
      forall key, kept_key key -> aget key a2 = aget key (na n).
Proof.
  intros Hf Hl Hw H. destruct (disc_step_copy _ _ _ _ _ _ _ _ _ Hf Hl Hw H) as [off [fo [Ho Hc]]].
  exists off, fo. split; [exact Ho|]. intros n Hin. destruct (Hc n Hin) as [a' [Em En]].
  eexists. split; [exact En|]. split; [apply stamped_fragid|].
  intros key (K1 & K2 & K3). rewrite stamped_other by assumption. now apply (frag_copy_attrs _ _ _ _ _ Em).
Qed.

(** a later instantiation step (fragment or virtual node) does not touch the nodes that exist *)
Lemma disc_step_keeps fd mol fgs mn mol2 fgs2 : wf_dict fd ->
  disc_step fd (mol, fgs) mn = Ok (mol2, fgs2) ->
  forall k, In k (node_keys mol) -> In k (node_keys mol2) /\ node_attrs mol2 k = node_attrs mol k.
Proof.
  intros Hw H k Hk.
  destruct (aget (S "fragname") (na mn)) as [fv|] eqn:Hf; [|unfold disc_step in H; rewrite Hf in H; discriminate].
  destruct (lookup_fragment fd fv) as [[name frag]|] eqn:Hl.
  - destruct (lookup_fragment_get _ _ _ _ Hl) as [_ Hg]. pose proof (Hw _ _ Hg) as Hwf.
    destruct (disc_step_real _ _ _ _ _ _ _ _ _ Hf Hl H) as [mol1 [corr [Hm Em]]].
    destruct (merge_graphs_keys _ _ _ _ Hm Hwf) as [Hk1 Hold].
    destruct (frag_copy _ _ _ _ Hm Hwf) as [off [fo [Ho [Ec Hc]]]]. destruct Hwf as [Hnt _].
    assert (Hdisj : ~ In k (map (fun n => map_get corr (nk n)) frag)).
    { subst corr. rewrite corr_values by exact Hnt. intros Hv.
      apply in_map_iff in Hv as [[t y] [Ey Hy]]. cbn in Ey. subst y.
      apply correspondence_fresh in Hy. pose proof (merge_offsets_max _ _ _ Ho _ Hk). lia. }
    subst mol2. split.
    + rewrite stamp_keys, Hk1. apply in_or_app. now left.
    + rewrite stamp_other by exact Hdisj. now apply Hold.
  - unfold disc_step in H. rewrite Hf in H. unfold of_option, bind at 1 in H. rewrite Hl in H.
    destruct (virtual_ok mn); [|discriminate]. unfold bind in H. inversion H; subst. auto.
Qed.
Lemma disc_fold_keeps fd : wf_dict fd -> forall l mol fgs mol' fgs',
  fold_res (disc_step fd) l (mol, fgs) = Ok (mol', fgs') ->
  forall k, In k (node_keys mol) -> In k (node_keys mol') /\ node_attrs mol' k = node_attrs mol k.
Proof.
  intros Hw. induction l as [|mn r IH]; intros mol fgs mol' fgs' H k Hk.
  - cbn in H. inversion H; subst. auto.
  - change (fold_res (disc_step fd) (mn :: r) (mol, fgs))
      with (b' <- disc_step fd (mol, fgs) mn ;; fold_res (disc_step fd) r b') in H.
    destruct (disc_step fd (mol, fgs) mn) as [[m1 f1]|] eqn:E; [|discriminate]. unfold bind in H.
    destruct (disc_step_keeps _ _ _ _ _ _ Hw E k Hk) as [K1 A1].
    destruct (IH _ _ _ _ H k K1) as [K2 A2]. split; [exact K2|]. now rewrite A2.
Qed.
Lemma fold_res_app {A B} (f : B -> A -> res B) a : forall b x,
  fold_res f (a ++ b) x = (y <- fold_res f a x ;; fold_res f b y).
Proof.
  induction a as [|h r IH]; intros b x; cbn [app fold_res bind]; [reflexivity|].
  destruct (f x h); cbn [bind]; [apply IH|reflexivity].
Qed.

(** THE WHOLE LOOP: the coarse node [mn] stands at ANY position of the coarse graph (so the statement
    covers every coarse node that uses the fragment, i.e. every reuse count); at the end of
    resolve_disconnected_molecule each template atom has its copy for that coarse node, recording the
    coarse key and carrying the template's value under every kept key *)
Theorem every_copy_carries_template fd pre mn post fv name frag mol fgs :
  wf_dict fd -> aget (S "fragname") (na mn) = Some fv -> lookup_fragment fd fv = Some (name, frag) ->
  resolve_disconnected fd (pre ++ mn :: post) = Ok (mol, fgs) ->
  exists off, forall n, In n frag -> exists a2, node_attrs mol (copy_key off frag (nk n)) = Ok a2 /\
    aget (S "fragid") a2 = Some (VList [VInt (nk mn)]) /\
    forall key, kept_key key -> aget key a2 = aget key (na n).
Proof.
  intros Hw Hf Hl H. unfold resolve_disconnected in H. rewrite fold_res_app in H.
  destruct (fold_res (disc_step fd) pre (gempty, [])) as [[m0 f0]|] eqn:E0; cbn [bind] in H; [|discriminate].
  change (fold_res (disc_step fd) (mn :: post) (m0, f0))
    with (b' <- disc_step fd (m0, f0) mn ;; fold_res (disc_step fd) post b') in H.
  destruct (disc_step fd (m0, f0) mn) as [[m1 f1]|] eqn:E1; cbn [bind] in H; [|discriminate].
  destruct (lookup_fragment_get _ _ _ _ Hl) as [_ Hg]. pose proof (Hw _ _ Hg) as Hwf.
  destruct (copy_carries_template _ _ _ _ _ _ _ _ _ Hf Hl Hwf E1) as [off [fo [Ho Hc]]].
  exists off. intros n Hin. destruct (Hc n Hin) as [a2 [En Hk]].
  assert (Hin1 : In (copy_key off frag (nk n)) (node_keys m1)) by (apply gfind_has; eapply node_attrs_has; exact En).
  destruct (disc_fold_keeps fd Hw post m1 f1 mol fgs H _ Hin1) as [_ A]. exists a2. split; [now rewrite A|exact Hk].
Qed.

(** ** rebuild_h_atoms' inheritance loop never overwrites: for the hydrogen [k] that inherits, every
    key it already carries keeps its value, and every other atom is untouched *)
Theorem inheritance_does_not_overwrite copy_attrs g k n anchor rest m :
  gfind k g = Some n -> wants_inherit (na n) = true ->
  neighbors g k = anchor :: rest -> anchor <> k -> gfind anchor g = Some m ->
  exists g', inherit_step copy_attrs g k = Ok g' /\
    (forall j, j <> k -> gfind j g' = gfind j g) /\
    exists n', gfind k g' = Some n' /\ forall attr v, aget attr (na n) = Some v -> aget attr (na n') = Some v.
Proof.
  intros Hk Hw Hn Hne Ha. destruct (h_inherits copy_attrs g k n anchor rest m Hk Hw Hn Hne Ha) as [g' [E [Ho [n' [Hg [_ Hat]]]]]].
  exists g'. split; [exact E|]. split; [exact Ho|]. exists n'. split; [exact Hg|].
  intros attr v Hv. rewrite Hat, Hv. reflexivity.
Qed.

(** ** the later steps of resolve(): bonds and sorting keep the dictionaries *)
Lemma gfind_app_found g h k n : gfind k g = Some n -> gfind k (g ++ h) = Some n.
Proof. induction g as [|m r IH]; cbn; [discriminate|]. destruct (Z.eqb (nk m) k); [auto|exact IH]. Qed.
(** G.add_edge never touches the attribute dict of a node that exists, whatever the end points are *)
Lemma attrs_add_edge_existing g u v d k : has_node g k = true -> node_attrs (add_edge g u v d) k = node_attrs g k.
Proof.
  intros Hk. unfold add_edge.
  set (g1 := if has_node g u then g else g ++ [{| nk := u; na := []; nadj := [] |}]).
  set (g2 := if has_node g1 v then g1 else g1 ++ [{| nk := v; na := []; nadj := [] |}]).
  assert (E : node_attrs g2 k = node_attrs g k).
  { unfold has_node in Hk. destruct (gfind k g) as [n|] eqn:G; [|discriminate]. unfold node_attrs. rewrite G.
    assert (G1 : gfind k g1 = Some n) by (unfold g1; destruct (has_node g u); [exact G|now apply gfind_app_found]).
    assert (G2 : gfind k g2 = Some n) by (unfold g2; destruct (has_node g1 v); [exact G1|now apply gfind_app_found]).
    now rewrite G2. }
  rewrite <- E. unfold node_attrs. rewrite !gfind_gupdate by reflexivity.
  destruct (gfind k g2) as [n|]; destruct (Z.eqb k v), (Z.eqb k u); reflexivity.
Qed.
Lemma has_node_add_edge_mono g u v d k : has_node g k = true -> has_node (add_edge g u v d) k = true.
Proof. intros H. apply has_node_add_edge. now left. Qed.
Lemma node_get_of_attrs g h k : node_attrs h k = node_attrs g k -> forall key, node_get h k key = node_get g k key.
Proof.
  unfold node_attrs, node_get. intros E key. destruct (gfind k h), (gfind k g); try discriminate; [inversion E; congruence|reflexivity].
Qed.
Lemma has_node_set g j a v k : has_node (set_node_attr g j a v) k = has_node g k.
Proof.
  unfold has_node. rewrite gfind_set_node_attr. destruct (Z.eqb k j); [|reflexivity]. now destruct (gfind k g).
Qed.
(** one bond: the edge, and in the all-atom case the hcount bookkeeping of its two ends *)
Lemma apply_bond_keeps all_atom mol b mol' : apply_bond all_atom mol b = Ok mol' ->
  forall k, has_node mol k = true -> has_node mol' k = true /\
    forall key, key <> S "hcount" -> node_get mol' k key = node_get mol k key.
Proof.
  unfold apply_bond. set (mol1 := add_edge mol (b_u b) (b_v b) (bond_attrs b)). intros H k Hk.
  assert (B : has_node mol1 k = true /\ forall key, node_get mol1 k key = node_get mol k key).
  { split; [now apply has_node_add_edge_mono|]. apply node_get_of_attrs. now apply attrs_add_edge_existing. }
  destruct all_atom; [|inversion H; subst; destruct B as [B1 B2]; split; [exact B1|intros key _; apply B2]].
  revert H. generalize [b_u b; b_v b]. intros l. destruct B as [B1 B2].
  assert (G : forall l m, has_node m k = true -> (forall key, key <> S "hcount" -> node_get m k key = node_get mol k key) ->
                fold_res (fun m0 n =>
                   el <- of_option (node_get m0 n (S "element")) EKey ;;
                   if pyval_eqb el (VStr (S "H")) then Ok m0 else
                   hc <- of_option (node_get m0 n (S "hcount")) EKey ;;
                   let ar := match node_get m0 n (S "aromatic") with Some v => truthy v | None => true end in
                   hc' <- dec_hcount ar hc ;; Ok (set_node_attr m0 n (S "hcount") hc')) l m = Ok mol' ->
                has_node mol' k = true /\ forall key, key <> S "hcount" -> node_get mol' k key = node_get mol k key).
  { clear. induction l as [|n r IH]; intros m Hm Hg H; cbn [fold_res] in H; [inversion H; subst; auto|].
    destruct (node_get m n (S "element")) as [el|]; cbn [of_option bind] in H; [|discriminate].
    destruct (pyval_eqb el (VStr (S "H"))); cbn [bind] in H; [now apply (IH m)|].
    destruct (node_get m n (S "hcount")) as [hc|]; cbn [of_option bind] in H; [|discriminate].
    destruct (dec_hcount _ hc) as [hc'|]; cbn [bind] in H; [|discriminate].
    apply (IH (set_node_attr m n (S "hcount") hc')); [now rewrite has_node_set| |exact H].
    intros key Nk. rewrite <- (Hg key Nk). unfold node_get. rewrite gfind_set_node_attr.
    destruct (Z.eqb k n); [|reflexivity]. destruct (gfind k m); cbn; [now apply aget_aset_other|reflexivity]. }
  intros H. apply (G l mol1 B1); [intros key _; apply B2|exact H].
Qed.
(** edges_from_bonding_descrpt (model GraphOps.bonding_step): every node keeps every key but hcount *)
Theorem bonding_keeps_annotation legacy all_atom meta mol fgs mol' fgs' :
  bonding_step legacy all_atom meta mol fgs = Ok (mol', fgs') ->
  forall k, has_node mol k = true -> has_node mol' k = true /\
    forall key, key <> S "hcount" -> node_get mol' k key = node_get mol k key.
Proof.
  unfold bonding_step. destruct (bonds_of legacy meta mol fgs) as [[s1 bonds]|]; cbn [bind]; [|discriminate].
  destruct (fold_res (apply_bond all_atom) bonds mol) as [m|] eqn:E; cbn [bind]; [|discriminate].
  intros H. inversion H; subst m fgs'. clear H. revert mol E.
  induction bonds as [|b r IH]; intros mol E k Hk; cbn [fold_res] in E; [inversion E; subst; auto|].
  destruct (apply_bond all_atom mol b) as [m1|] eqn:E1; cbn [bind] in E; [|discriminate].
  destruct (apply_bond_keeps _ _ _ _ E1 k Hk) as [H1 G1]. destruct (IH m1 E k H1) as [H2 G2].
  split; [exact H2|]. intros key Nk. rewrite G2, G1 by exact Nk. reflexivity.
Qed.

(** sort_nodes_by_attr (the resolver component's SortGraphProofs.sort_graph): the returned graph has the
    nodes under the sorting permutation [map_get m], each with its dictionary (ez_isomer_atoms, which holds
    node references, is rewritten by the same permutation) *)
From CGV Require Import Hydro.SquashDefs Resolve.SortGraphProofs.
Theorem sort_keeps_annotation g h : wf_graph g -> map fst (get_node_attributes g (S "fragid")) = node_keys g ->
  sort_nodes_by_attr g = Ok h ->
  exists m, sort_mapping g = Ok m /\
    forall k key, In k (node_keys g) -> key <> S "ez_isomer_atoms" -> node_get h (map_get m k) key = node_get g k key.
Proof.
  intros W A H. destruct (sort_graph g h W A H) as [m [Em [_ [_ [_ [_ N]]]]]]. exists m. split; [exact Em|exact N].
Qed.
