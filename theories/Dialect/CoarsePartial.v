(** CoarsePartial: C14 for coarse nodes written inside a fragment definition, OUTSIDE the known defect
    class [coarse_fragment_dialect_class] (no positional value after the name, no key q, no key x).
    The code reads such a node through the atom dialect layered over the base dialect
    (model [DialectCheck.coarse_fragment_node], compared with the implementation on every run); for
    these writings the result is what the documented coarse dialect promises: charge 0.0 (q is
    omitted), weight = the written number or 1.0, every free key verbatim. *)
From Coq Require Import String.
From Coq Require Import List Ascii ZArith Bool Lia Permutation.
From CGV Require Import Base.PyBase Base.PyVal Gen.DialectGen Dialect.DialectImpl Dialect.DialectDefs
     Dialect.DialectProofs Dialect.DialectCheck.
Import ListNotations.

Lemma cut_semi_none a : forall acc, ~ In ";"%char a -> cut_semi a acc = (rev acc ++ a, []).
Proof.
  induction a as [|c r IH]; intros acc H; cbn; [now rewrite app_nil_r|].
  destruct (Ascii.eqb_spec c ";"%char) as [->|N]; [exfalso; apply H; now left|].
  rewrite IH by (intros HI; apply H; now right). cbn. now rewrite <- app_assoc.
Qed.
Lemma cut_semi_at a b : forall acc, ~ In ";"%char a -> cut_semi (a ++ ";"%char :: b) acc = (rev acc ++ a, b).
Proof.
  induction a as [|c r IH]; intros acc H; cbn; [now rewrite app_nil_r|].
  destruct (Ascii.eqb_spec c ";"%char) as [->|N]; [exfalso; apply H; now left|].
  rewrite IH by (intros HI; apply H; now right). cbn. now rewrite <- app_assoc.
Qed.
Lemma cut_render name kws : clean name = true -> cut_semi (render [name] kws) [] = (name, render [] kws).
Proof.
  intros C. apply clean_spec in C. destruct C as [C _]. unfold render. cbn [app].
  destruct (map render_kw kws) as [|e r] eqn:E.
  - cbn. now rewrite cut_semi_none.
  - change (join sep (name :: e :: r)) with (name ++ sep ++ join sep (e :: r)). unfold sep at 1. cbn [app].
    now rewrite cut_semi_at.
Qed.

Definition w_value (fo : float_oracle) (kws : list entry) : option pyval :=
  match kw_get (S "w") kws with
  | Some v => match fo v with Some r => Some (VFlt r) | None => None end
  | None => Some (VFlt (S "1.0"))
  end.
(** the atom dialect on keyword-only entries without key x *)
Lemma atom_dialect_keywords fo kws xw : ~ In (S "x") (keys kws) -> w_value fo kws = Some xw ->
  bind_cast fo fragment_node_dialect [] kws =
    Ok (aupdate (aupdate [] (free_items (kw_del (S "w") kws))) [(S "weight", xw)]).
Proof.
  intros Hx Hw. unfold bind_cast, w_value in *. cbn [params fragment_node_dialect bind_params pname].
  assert (Ex : forall d, ~ In (S "x") (keys d) -> kw_get (S "x") d = None)
    by (intros d Hd; rewrite kw_get_assoc; now apply assoc_notin).
  destruct (kw_get (S "w") kws) as [v|] eqn:Ew.
  - assert (Hx2 : ~ In (S "x") (keys (kw_del (S "w") kws))).
    { intros HI. apply Hx. unfold keys, kw_del in *. apply in_map_iff in HI. destruct HI as [kv [E HI]].
      apply filter_In in HI. rewrite <- E. apply in_map. apply HI. }
    rewrite (Ex _ Hx2). cbn [bind]. cbn.
    destruct (fo v) as [r|]; [|discriminate]. inversion Hw; subst xw. reflexivity.
  - rewrite (Ex _ Hx). cbn [bind]. cbn. inversion Hw; subst xw.
    rewrite kw_del_notin; [reflexivity|]. intros HI. rewrite kw_get_assoc in Ew.
    apply in_map_iff in HI. destruct HI as [[k v] [E HI]]. cbn in E. subst k.
    pose proof (assoc_none_key _ _ Ew _ HI) as F. vm_compute in F. discriminate F.
Qed.

Definition outside_names : list pystr := [S "fragname"; S "q"; S "x"; S "charge"; S "weight"].

(** C14 for coarse-fragment annotations outside the defect class *)
Theorem coarse_fragment_partial fo name kws xw :
  clean name = true -> name <> [] ->
  Forall (fun kv => clean_entry kv = true) kws -> NoDup (keys kws) ->
  (forall k, In k (keys kws) -> ~ In k outside_names) ->
  w_value fo kws = Some xw ->
  exists a, coarse_fragment_node fo (render [name] kws) = Ok a /\
    aget (S "charge") a = Some (VFlt (S "0.0")) /\
    aget (S "weight") a = Some xw /\
    forall k v, In (k, v) kws -> k <> S "w" -> aget k a = Some (VStr v).
Proof.
  intros Cn Nn Fk ND Out Hw. unfold coarse_fragment_node. rewrite cut_render by exact Cn.
  assert (Hx : ~ In (S "x") (keys kws)) by (intros HI; apply (Out _ HI); cbn; tauto).
  (* the annotation part through the atom dialect *)
  unfold fragment_node_parser, parse_dialect.
  rewrite (split_render [] kws); [|constructor|assumption|assumption|].
  2:{ intros E. apply nondeg in E. destruct E as [E _]. discriminate. }
  cbn [bind]. rewrite (atom_dialect_keywords fo kws xw Hx Hw). cbn [bind].
  (* the bare name through the base dialect *)
  unfold parse_graph_base_node, parse_dialect.
  assert (Es : split_annotation name = Ok ([name], [])).
  { change name with (render [name] []) at 1. apply split_render; try constructor; auto.
    intros E. inversion E. contradiction. }
  rewrite Es. cbn [bind]. destruct (defaults_generated fo name) as [-> _]. cbn [bind].
  eexists. split; [reflexivity|].
  set (extra := aupdate (aupdate [] (free_items (kw_del (S "w") kws))) [(S "weight", xw)]).
  assert (NDe : NoDup (map fst extra)) by (apply aupdate_nodup, aupdate_nodup; constructor).
  assert (Gx : forall k, aget k extra =
               if str_eqb k (S "weight") then Some xw else assoc k (rev (free_items (kw_del (S "w") kws)))).
  { intros k. unfold extra. rewrite aget_aupdate. cbn [rev app assoc].
    destruct (str_eqb k (S "weight")); [reflexivity|]. rewrite aget_aupdate. cbn. now destruct (assoc k _). }
  assert (NDf : NoDup (map fst (free_items (kw_del (S "w") kws)))).
  { unfold free_items. rewrite map_map. cbn. now apply NoDup_keys_filter. }
  split; [|split].
  - rewrite aget_aupdate, assoc_rev by exact NDe. rewrite <- aget_assoc. rewrite Gx.
    change (str_eqb (S "charge") (S "weight")) with false. cbv iota.
    rewrite assoc_notin; [reflexivity|].
    rewrite map_rev. intros HI. apply in_rev in HI. unfold free_items in HI. rewrite map_map in HI. cbn in HI.
    apply in_map_iff in HI. destruct HI as [kv [E HI]]. apply filter_In in HI. destruct HI as [HI _].
    assert (E' : fst kv = S "charge") by exact E.
    apply (Out (S "charge")); [unfold keys; rewrite <- E'; now apply in_map|cbn; tauto].
  - rewrite aget_aupdate, assoc_rev by exact NDe. rewrite <- aget_assoc. rewrite Gx.
    change (str_eqb (S "weight") (S "weight")) with true. reflexivity.
  - intros k v HI Nw. rewrite aget_aupdate, assoc_rev by exact NDe. rewrite <- aget_assoc. rewrite Gx.
    assert (Nk : str_eqb k (S "weight") = false).
    { destruct (str_eqb_spec k (S "weight")) as [->|]; [|reflexivity]. exfalso.
      apply (Out (S "weight")); [change (S "weight") with (fst (S "weight", v)); now apply in_map|cbn; tauto]. }
    rewrite Nk, assoc_rev by exact NDf.
    rewrite (assoc_in k (VStr v)); [reflexivity|exact NDf|].
    unfold free_items. apply in_map_iff. exists (k, v). split; [reflexivity|].
    unfold kw_del. apply filter_In. split; [exact HI|]. cbn [fst].
    destruct (str_eqb_spec (S "w") k) as [E|]; [congruence|reflexivity].
Qed.

(** the hypotheses say "outside the class": such a writing is not in [coarse_fragment_dialect_class] *)
Lemma outside_class name kws assign free :
  (forall k, In k (keys kws) -> ~ In k outside_names) ->
  coarse_fragment_dialect_class {| a_assign := assign; a_free := free; a_ents := EPos name :: map (fun kv => EKw (fst kv) (snd kv)) kws |} = false.
Proof.
  intros Out. unfold coarse_fragment_dialect_class. cbn [a_ents].
  assert (P : pos_of (EPos name :: map (fun kv => EKw (fst kv) (snd kv)) kws) = [name]).
  { unfold pos_of. cbn. induction kws as [|kv r IH]; cbn; [reflexivity|]. apply IH. intros k Hk. apply Out. now right. }
  rewrite P. cbn [length Nat.ltb Nat.leb orb].
  assert (K : kws_of (EPos name :: map (fun kv => EKw (fst kv) (snd kv)) kws) = kws).
  { unfold kws_of. cbn. clear. induction kws as [|[k v] r IH]; cbn; [reflexivity|]. now rewrite IH. }
  rewrite K. apply not_true_is_false. intros H. apply existsb_exists in H. destruct H as [[k v] [HI Hk]]. cbn in Hk.
  apply orb_prop in Hk. destruct Hk as [Hk|Hk]; apply str_eqb_eq in Hk; subst k;
    (apply (Out _ (in_map fst _ _ HI)); cbn; tauto).
Qed.

(** non-vacuity *)
Example coarse_fragment_partial_example :
  let fo := fo_of_table [(S "0.5", Some (S "0.5"))] in
  exists a, coarse_fragment_node fo (S "X;m=3;w=0.5") = Ok a /\ aget (S "charge") a = Some (VFlt (S "0.0")) /\
            aget (S "weight") a = Some (VFlt (S "0.5")) /\ aget (S "m") a = Some (VStr (S "3")) /\
            render [S "X"] [(S "m", S "3"); (S "w", S "0.5")] = S "X;m=3;w=0.5".
Proof. eexists. repeat split; vm_compute; reflexivity. Qed.
