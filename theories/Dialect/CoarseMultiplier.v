(** CoarseMultiplier: the second defect class of C14.  An annotated coarse node WITH A MULTIPLIER inside a fragment
    definition, `#A=[$][#X;w=2;k=v]|3[#Y][$]`: by the syntax `[#X;..]|3` stands for three consecutive nodes with the same
    annotations, and in the BASE graph read_cgsmiles annotates all three; in a fragment definition
    strip_bonding_descriptors removes the annotation from the text, records it for ONE node index and hands `[#X]|3` to
    read_cgsmiles, so only the first copy is annotated.  Shown on the graph-level model of read_fragment_cgsmiles
    (Write/FragRead.read_coarse_fragment over Frag/StripImpl and Reader/ReaderImpl; imports only), which reproduces it. *)
From Coq Require Import String.
From Coq Require Import List Ascii ZArith Bool.
From CGV Require Import Base.PyBase Base.PyVal Base.NxGraph Dialect.DialectImpl Dialect.DialectDefs Dialect.DialectCheck
     Write.FragRead Dialect.CoarseTextAnnot.
From CGV Require Reader.ReaderImpl.
Import ListNotations.
Open Scope Z_scope.

Definition cm_annot : annot :=
  {| a_assign := [(S "fragname", S "X"); (S "w", S "2")]; a_free := [(S "k", S "v")];
     a_ents := [EPos (S "X"); EKw (S "w") (S "2"); EKw (S "k") (S "v")] |}.
Theorem coarse_multiplier_refuted :
  (* the annotation is well-formed, outside the atom-dialect class, inside the multiplier class, and promises weight 2.0, k = v *)
  annot_ok doc_coarse cm_annot (S "X;w=2;k=v") = true /\ coarse_fragment_dialect_class cm_annot = false /\
  coarse_fragment_multiplier_class 3 = true /\
  (exists e, expected exc_fo doc_coarse (a_assign cm_annot) (a_free cm_annot) = Some e /\
             aget (S "weight") e = Some (VFlt (S "2.0")) /\ aget (S "k") e = Some (VStr (S "v"))) /\
  (* in the base graph every copy carries it *)
  (match Reader.ReaderImpl.read_cgsmiles exc_fo (S "{[#X;w=2;k=v]|3}") with
   | Ok g => map (fun k => (node_get g k (S "weight"), node_get g k (S "k"))) (node_keys g)
             = [(Some (VFlt (S "2.0")), Some (VStr (S "v"))); (Some (VFlt (S "2.0")), Some (VStr (S "v")));
                (Some (VFlt (S "2.0")), Some (VStr (S "v")))]
   | Err _ => False end) /\
  (* in a fragment definition only the first of the three does *)
  (match read_coarse_fragment exc_fo (S "A") (S "[$][#X;w=2;k=v]|3[#Y][$]") with
   | Ok T => map (fun k => (node_get T k (S "atomname"), node_get T k (S "weight"), node_get T k (S "k"))) (node_keys T)
             = [(Some (VStr (S "X")), Some (VFlt (S "2.0")), Some (VStr (S "v")));
                (Some (VStr (S "X")), Some (VFlt (S "1.0")), None); (Some (VStr (S "X")), Some (VFlt (S "1.0")), None);
                (Some (VStr (S "Y")), Some (VFlt (S "1.0")), None)]
   | Err _ => False end) /\
  (* and the executable clause of the check classifies exactly that observation as the class (code 111) *)
  mult_fail [(S "2", Some (S "2.0"))] [({| a_assign := [(S "fragname", S "A")]; a_free := []; a_ents := [EPos (S "A")] |}, S "A", [])]
            (S "A") cm_annot (S "X;w=2;k=v") 3
            [[ [(S "weight", VFlt (S "2.0")); (S "charge", VFlt (S "0.0")); (S "k", VStr (S "v"))];
               [(S "weight", VFlt (S "1.0")); (S "charge", VFlt (S "0.0"))]; [(S "weight", VFlt (S "1.0")); (S "charge", VFlt (S "0.0"))] ]] = 111%nat.
Proof.
  split; [vm_compute; reflexivity|]. split; [vm_compute; reflexivity|]. split; [reflexivity|].
  split; [eexists; repeat split; vm_compute; reflexivity|].
  split; [vm_compute; reflexivity|]. split; vm_compute; reflexivity.
Qed.
