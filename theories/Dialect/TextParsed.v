(** TextParsed: the hypothesis "pysmiles' graph of the clean text is a transcript with distinct keys in which atom i is
    node i" of TextAnnot.text_annotation_reaches_returned_graph, DISCHARGED with the strip component's parser model
    (Frag/SmilesParse.smiles_parse; imports only): for an atomistic token list ([wf_smiles]) the clean text
    strip_bonding_descriptors returns is [render_smiles false toks] (TemplateProofs.strip_spec_clean), the parser model on it
    is the token graph ([render_parse]), its node list has one entry per atom token ([grun_atoms]), and as a networkx graph
    ([nx_of]: TemplateGraph.tmpl_graph of the parsed nodes and bonds: keys 0..n-1 in order) it has distinct keys and a
    node for the index of every atom token.  What is left of pysmiles is the per-run tie of smiles_parse (C13). *)
From Coq Require Import String.
From Coq Require Import List Ascii ZArith Bool Lia Permutation.
From CGV Require Import Base.PyBase Base.PyVal Base.NxGraph Dialect.DialectImpl Dialect.DialectDefs Dialect.DialectProofs
     Frag.NDict Frag.StripImpl Frag.FragText Frag.FragProofs Hydro.Fragments Hydro.SquashDefs Hydro.HydroDefs
     Resolve.Bonding Resolve.GraphOps Resolve.CopyProofs Resolve.Pipeline Resolve.PipelineFull Compose.CutModel.
From CGV Require Hydro.Hydrogens Resolve.SortGraphProofs.
From CGV Require Import Dialect.FragAnnot Dialect.TemplateAnnot Dialect.CopyAnnot Dialect.ReturnedAnnot Dialect.ReturnedCar
     Dialect.TextAnnot.
From CGV Require Dialect.CoarseChainAnnot.
From CGV Require Import Frag.SmilesParse Frag.SmilesSpec Frag.SmilesIndex Frag.SmilesProofs Frag.Template Frag.TemplateProofs Frag.TemplateGraph.
Import ListNotations.

(** pysmiles' graph as the parser model gives it: nodes 0..n-1 in order with the parsed attributes, adjacency = the bonds *)
Definition nx_of (G : sgraph) : graph := tmpl_graph {| t_nodes := g_nodes G; t_edges := g_edges G |}.

Lemma nx_of_keys G : node_keys (nx_of G) = map Z.of_nat (seq 0 (length (g_nodes G))).
Proof.
  unfold nx_of, tmpl_graph, node_keys. cbn [t_nodes t_edges]. rewrite map_map. cbn [nk mknode].
  generalize 0%nat. induction (g_nodes G) as [|a l IH]; intros s; [reflexivity|]. cbn. f_equal. apply IH.
Qed.
Lemma nx_of_nodup G : NoDup (node_keys (nx_of G)).
Proof. rewrite nx_of_keys. apply FinFun.Injective_map_NoDup; [intros a b E; lia|apply seq_NoDup]. Qed.
Lemma gfind_in_keys g k : In k (node_keys g) -> exists n, gfind k g = Some n.
Proof.
  unfold node_keys. induction g as [|n r IH]; cbn; [intros []|]. intros [E|H].
  - subst k. rewrite Z.eqb_refl. eauto.
  - destruct (Z.eqb (nk n) k); eauto.
Qed.
Lemma nx_of_gfind G i : (i < length (g_nodes G))%nat -> exists n, gfind (Z.of_nat i) (nx_of G) = Some n.
Proof. intros L. apply gfind_in_keys. rewrite nx_of_keys. apply in_map, in_seq. lia. Qed.

Lemma nx_of_gfind_node G i base : nth_error (g_nodes G) i = Some base ->
  exists n, gfind (Z.of_nat i) (nx_of G) = Some n /\ na n = base.
Proof.
  unfold nx_of, tmpl_graph. cbn [t_nodes t_edges]. set (E := g_edges G).
  assert (H : forall l s k, nth_error l k = Some base ->
            gfind (Z.of_nat (s + k)) (map (mknode E) (combine (seq s (length l)) l)) = Some (mknode E ((s + k)%nat, base))).
  { clear i.
    induction l as [|a l IH]; intros s i N; [destruct i; discriminate N|]. destruct i as [|i]; cbn in N |- *.
    - injection N as ->. rewrite Nat.add_0_r, Z.eqb_refl. reflexivity.
    - destruct (Z.eqb_spec (Z.of_nat s) (Z.of_nat (s + Datatypes.S i))) as [e|_]; [lia|].
      replace (s + Datatypes.S i)%nat with (Datatypes.S s + i)%nat by lia. apply IH. exact N. }
  intros N. specialize (H (g_nodes G) 0%nat i N). cbn [Nat.add] in H. rewrite H. eexists. split; reflexivity.
Qed.

(** one node per atom token *)
Definition atom_toks (toks : list tok) : list pystr :=
  flat_map (fun t => match t with TAtom _ | TBracket _ _ => [clean_tok t] | _ => [] end) toks.
Lemma map_res_length {A B} (f : A -> res B) : forall l l', map_res f l = Ok l' -> length l' = length l.
Proof.
  induction l as [|x r IH]; intros l' H; cbn in H; [injection H as <-; reflexivity|].
  destruct (f x); cbn in H; [|discriminate]. destruct (map_res f r) as [r'|]; cbn in H; [|discriminate].
  injection H as <-. cbn. f_equal. now apply IH.
Qed.
Lemma graph_of_nodes ks toks G : graph_of ks toks = Ok G -> length (g_nodes G) = length (atom_toks toks).
Proof.
  unfold graph_of, graph_base. destruct (grun ks ginit toks) as [g|] eqn:E; cbn [bind]; [|discriminate].
  destruct (grun_atoms ks toks ginit g E) as [A _]. cbn [q_atoms ginit app] in A.
  unfold interpret. destruct (map_res parse_atom (q_atoms g)) as [nodes|] eqn:En; cbn [bind]; [|discriminate].
  destruct (map_res (edge_order nodes) (q_edges g)); cbn [bind]; [|discriminate]. intros H. injection H as <-. cbn [g_nodes].
  rewrite (map_res_length _ _ _ En), A. reflexivity.
Qed.
(** without multipliers (wf_smiles), atoms_of counts the atom tokens *)
Lemma wf_toks_nomult : forall toks z d, wf_toks z d toks = true -> forall k, ~ In (TMult k) toks.
Proof.
  induction toks as [|t r IH]; intros z d W k; [intros []|]. cbn [wf_toks] in W. apply andb_prop in W. destruct W as [Wt W].
  intros [E|H]; [subst t; discriminate Wt|].
  destruct t; try discriminate Wt;
    repeat match type of W with
           | (_ && _)%bool = true => let W1 := fresh in apply andb_prop in W; destruct W as [W1 W]
           | match ?x with _ => _ end = true => destruct x; try discriminate W
           end; eapply IH; eauto.
Qed.
Lemma atoms_toks_count toks : (forall k, ~ In (TMult k) toks) -> CoarseChainAnnot.atoms_toks toks = length (atom_toks toks).
Proof.
  unfold CoarseChainAnnot.atoms_toks, atoms_of, atom_toks. induction toks as [|t r IH]; intros H; [reflexivity|].
  cbn [map fold_right flat_map]. rewrite app_length, IH by (intros k Hk; apply (H k); now right).
  destruct t; cbn [atoms_of_item length]; try reflexivity. exfalso. apply (H n). now left.
Qed.
Lemma atoms_of_app a b : atoms_of (a ++ b) = (atoms_of a + atoms_of b)%nat.
Proof. unfold atoms_of. induction a as [|i r IH]; cbn [app fold_right]; [reflexivity|]. rewrite IH. lia. Qed.
Lemma atom_token_index toks dc pre body annot post G ks :
  wf_smiles toks = true -> graph_of ks toks = Ok G ->
  decorate toks dc = pre ++ ITok (TBracket body annot) :: post -> (atoms_of pre < length (g_nodes G))%nat.
Proof.
  intros WS HG D. rewrite (graph_of_nodes ks toks G HG), <- atoms_toks_count by (apply (wf_toks_nomult toks _ _ WS)).
  assert (E : CoarseChainAnnot.atoms_toks toks = atoms_of (decorate toks dc))
    by (now rewrite CoarseChainAnnot.atoms_of_toks, CoarseChainAnnot.toks_of_decorate).
  rewrite E, D. change (ITok (TBracket body annot) :: post) with ([ITok (TBracket body annot)] ++ post). rewrite !atoms_of_app.
  assert (E1 : atoms_of [ITok (TBracket body annot)] = 1%nat) by reflexivity. lia.
Qed.
(** the parser model on the clean text strip returned IS the token graph *)
Lemma parse_of_clean fo toks dc clean d e a :
  FragText.wf toks dc = true -> excluded toks dc = false -> wf_smiles toks = true ->
  strip_bonding_descriptors fo (FragText.render (decorate toks dc)) = Ok (clean, d, e, a) ->
  smiles_parse clean = graph_of false toks.
Proof.
  intros W X WS Hs. rewrite (strip_correct fo toks dc W X) in Hs. rewrite (strip_spec_clean fo toks dc clean d e a Hs).
  apply render_parse. exact WS.
Qed.

(** ** the end-to-end statement with the parser model in place of the transcript *)
Section Parsed.
  Variable fo : float_oracle.
  Variables (name : pystr) (toks : list tok) (dc : decor).
  Hypothesis Wt : FragText.wf toks dc = true.
  Hypothesis Xt : excluded toks dc = false.
  Hypothesis WS : wf_smiles toks = true.
  Variables (clean : pystr) (desc : ndict (list pystr)) (ez : ndict ascii) (ann : ndict attrs).
  Hypothesis Strip : strip_bonding_descriptors fo (FragText.render (decorate toks dc)) = Ok (clean, desc, ez, ann).
  Variable G : sgraph.
  Hypothesis Parse : smiles_parse clean = Ok G.
  Variables (bonding ezl : list (Z * pyval)) (T : graph).
  Hypothesis Post : read_fragment_post (nx_of G) name bonding ezl (ann_list ann) = Ok T.

  Theorem parsed_annotation_on_template pre body annot post a key v :
    decorate toks dc = pre ++ ITok (TBracket body annot) :: post ->
    fragment_node_parser fo (annot_text annot) = Ok a -> In (key, v) a -> ~ In key written_keys ->
    node_get T (Z.of_nat (atoms_of pre)) key = Some v.
  Proof.
    intros D Hp Hkv Hw.
    assert (HG : graph_of false toks = Ok G) by (rewrite <- (parse_of_clean fo toks dc clean desc ez ann Wt Xt WS Strip); exact Parse).
    destruct (nx_of_gfind G (atoms_of pre) (atom_token_index toks dc pre body annot post G false WS HG D)) as (n0 & Gi).
    exact (text_annotation_on_template fo name toks dc Wt Xt clean desc ez ann Strip (nx_of G) bonding ezl T (nx_of_nodup G) Post
             pre body annot post a key v n0 D Hp Hkv Hw Gi).
  Qed.

  (** an atom j of the fragment whose token does not set [key] (nor `element`) and for which the parser sets no such key *)
  Theorem parsed_annotation_absent j key base :
    nth_error (g_nodes G) j = Some base -> aget key base = None ->
    (forall a, nd_get j ann = Some a -> aget key a = None /\ aget (S "element") a = None) ->
    (nd_get j ann <> None \/ aget (S "element") base <> Some (VStr (S "H"))) ->
    ~ In key written_keys -> ~ In key default_keys ->
    node_get T (Z.of_nat j) key = None.
  Proof.
    intros N H0 Ha Hc Hw Hd. destruct (nx_of_gfind_node G j base N) as (n & Gn & En).
    apply (text_annotation_absent fo name toks dc Wt Xt clean desc ez ann Strip (nx_of G) bonding ezl T (nx_of_nodup G) Post j key).
    - unfold has_node. now rewrite Gn.
    - unfold node_get. now rewrite Gn, En.
    - exact Ha.
    - destruct Hc as [Hc|Hc]; [now left|right]. unfold node_get. now rewrite Gn, En.
    - exact Hw.
    - exact Hd.
  Qed.

  Variable C : cut.
  Hypothesis W : wf_cut C.
  Variable fd : fragdict.
  Hypothesis HT : templates_ok C fd.
  Hypothesis Hwfd : wf_dict fd.
  Hypothesis Hname : fd_get name fd = Some T.
  Variable B : graph.
  Hypothesis HB : is_base C B.
  Hypothesis Hatoms : forall x, In x (flat C) ->
    (exists e, aget (S "element") (payload C x) = Some e) /\ (exists q, aget (S "charge") (payload C x) = Some q) /\
    (exists h, aget (S "hcount") (payload C x) = Some (VInt h)) /\ Hydrogens.is_H (payload C x) = false.
  Variables (prev g1 : graph) (fo_ : full_out).
  Hypothesis HM : meta_of prev = B.
  Hypothesis Step : resolve_step_full true true fd prev (Some g1) = Ok fo_.
  Hypothesis HD : dicts (fo_m3 fo_).

  Theorem parsed_annotation_reaches_returned_graph :
    exists m, sort_mapping (fo_m4 fo_) = Ok m /\ SortGraphProofs.inj_on (map_get m) (node_keys (fo_m4 fo_)) /\
      forall pre body annot post a key v,
        decorate toks dc = pre ++ ITok (TBracket body annot) :: post ->
        fragment_node_parser fo (annot_text annot) = Ok a -> In (key, v) a ->
        ~ In key written_keys -> returned_key key -> key <> S "aromatic" ->
        forall p xs x, nth_error (c_parts C) p = Some (name, xs) -> nth_error xs (atoms_of pre) = Some x ->
          node_get (fo_mol fo_) (map_get m (phi C x)) key = Some v.
  Proof.
    assert (HG : graph_of false toks = Ok G) by (rewrite <- (parse_of_clean fo toks dc clean desc ez ann Wt Xt WS Strip); exact Parse).
    destruct (text_annotation_reaches_returned_graph fo name toks dc Wt Xt clean desc ez ann Strip (nx_of G) bonding ezl T (nx_of_nodup G) Post
                C W fd HT Hwfd Hname B HB Hatoms prev g1 fo_ HM Step HD) as (m & Em & Inj & Hk).
    exists m. split; [exact Em|]. split; [exact Inj|].
    intros pre body annot post a key v D Hp Hkv Hw Rk Nar p xs x Ep Ex.
    destruct (nx_of_gfind G (atoms_of pre) (atom_token_index toks dc pre body annot post G false WS HG D)) as (n0 & Gi).
    exact (Hk pre body annot post a key v n0 D Hp Hkv Gi Hw Rk Nar p xs x Ep Ex).
  Qed.
  Theorem parsed_annotation_not_gained :
    exists m, sort_mapping (fo_m4 fo_) = Ok m /\
      forall j key n base,
        gfind (Z.of_nat j) T = Some n ->
        nth_error (g_nodes G) j = Some base -> aget key base = None ->
        (forall a, nd_get j ann = Some a -> aget key a = None /\ aget (S "element") a = None) ->
        (nd_get j ann <> None \/ aget (S "element") base <> Some (VStr (S "H"))) ->
        ~ In key written_keys -> ~ In key default_keys -> returned_key key -> key <> S "aromatic" ->
        forall p xs y, nth_error (c_parts C) p = Some (name, xs) -> nth_error xs j = Some y ->
          node_get (fo_mol fo_) (map_get m (phi C y)) key = None.
  Proof.
    destruct (text_annotation_not_gained fo name toks dc Wt Xt clean desc ez ann Strip (nx_of G) bonding ezl T (nx_of_nodup G) Post
                C W fd HT Hwfd Hname B HB Hatoms prev g1 fo_ HM Step HD) as (m & Em & Hk).
    exists m. split; [exact Em|].
    intros j key n base Gn N H0 Ha Hc Hw Hd Rk Nar p xs y Ep Ey. destruct (nx_of_gfind_node G j base N) as (n' & Gn' & En).
    assert (Hj : has_node (nx_of G) (Z.of_nat j) = true) by (unfold has_node; now rewrite Gn').
    assert (H0' : node_get (nx_of G) (Z.of_nat j) key = None) by (unfold node_get; now rewrite Gn', En).
    assert (Hc' : nd_get j ann <> None \/ node_get (nx_of G) (Z.of_nat j) (S "element") <> Some (VStr (S "H")))
      by (destruct Hc as [Hc|Hc]; [now left|right]; unfold node_get; now rewrite Gn', En).
    exact (Hk j key n Gn Hj H0' Ha Hc' Hw Hd Rk Nar p xs y Ep Ey).
  Qed.
End Parsed.

(** ** non-vacuity: {[#A][#A]}.{#A=C[C;0.5;x=R;k=v][$]} from the TEXT of the fragment *)
From CGV Require Import Compose.CutSpecDefs Compose.CutSpecCheck Compose.CutHydrogens Dialect.ReturnedExample.
From CGV Require Hydro.Squash.
Open Scope Z_scope.
Definition tp_toks := [TAtom (S "C"); TBracket (S "C") (Some (S "0.5;x=R;k=v"))].
Definition tp_dc := {| d_lead := []; d_after := [[]; [{| d_kind := "$"%char; d_label := []; d_sym := None |}]] |}.
Definition tp_fo := fo_of_table [(S "0.5", Some (S "0.5"))].
Definition tp_ann : ndict attrs := [(1%nat, [(S "k", VStr (S "v")); (S "weight", VFlt (S "0.5")); (S "chiral", VStr (S "R"))])].
Definition tp_T : graph :=
  match smiles_parse (S "C[C]") with
  | Ok G => match read_fragment_post (nx_of G) (S "A") [(1, VList [VStr (S "$1")])] [] (ann_list tp_ann) with Ok T => T | _ => [] end
  | Err _ => [] end.
Definition tp_fd : fragdict := [(S "A", tp_T)].
(** the cut of ReturnedExample with the hydrogen counts the template of the text carries *)
Definition tpC : cut := {| c_atoms := [(1, catom 0 []); (2, catom 0 ReturnedExample.ann); (3, catom 0 []); (4, catom 0 ReturnedExample.ann)];
  c_bonds := c_bonds exA; c_parts := c_parts exA; c_dord := [] |}.
Definition tp_m3 : option graph :=
  match resolve_disconnected tp_fd (base_of tpC) with
  | Ok (m1, fg1) => match bonding_step true true (base_of tpC) m1 fg1 with
                    | Ok (m2, _) => match Squash.squash_atoms m2 with Ok m3 => Some m3 | _ => None end | _ => None end
  | _ => None end.
Example parsed_annotation_example :
  FragText.wf tp_toks tp_dc = true /\ excluded tp_toks tp_dc = false /\ wf_smiles tp_toks = true /\
  to_string (FragText.render (decorate tp_toks tp_dc)) = "C[C;0.5;x=R;k=v][$]"%string /\
  strip_bonding_descriptors tp_fo (FragText.render (decorate tp_toks tp_dc)) = Ok (S "C[C]", [(1%nat, [S "$1"])], [], tp_ann) /\
  (exists G, smiles_parse (S "C[C]") = Ok G /\ read_fragment_post (nx_of G) (S "A") [(1, VList [VStr (S "$1")])] [] (ann_list tp_ann) = Ok tp_T) /\
  wf_cut tpC /\ templates_ok tpC tp_fd /\ is_base tpC (base_of tpC) /\ wf_dict tp_fd /\ fd_get (S "A") tp_fd = Some tp_T /\
  (forall x, In x (flat tpC) ->
     (exists e, aget (S "element") (payload tpC x) = Some e) /\ (exists q, aget (S "charge") (payload tpC x) = Some q) /\
     (exists h, aget (S "hcount") (payload tpC x) = Some (VInt h)) /\ Hydrogens.is_H (payload tpC x) = false) /\
  meta_of (base_of tpC) = base_of tpC /\
  match tp_m3 with
  | Some m3 =>
      dictsb m3 = true /\
      match resolve_step_full true true tp_fd (base_of tpC) (Some m3) with
      | Ok fo => fo_m3 fo = m3 /\
          map (fun k => (node_get (fo_mol fo) k (S "weight"), node_get (fo_mol fo) k (S "chiral"), node_get (fo_mol fo) k (S "k"))) [0; 1; 7; 8]
          = [(Some (VInt 1), None, None); (Some (VFlt (S "0.5")), Some (VStr (S "R")), Some (VStr (S "v")));
             (Some (VInt 1), None, None); (Some (VFlt (S "0.5")), Some (VStr (S "R")), Some (VStr (S "v")))]
      | Err _ => False
      end
  | None => False
  end.
Proof.
  split; [vm_compute; reflexivity|]. split; [vm_compute; reflexivity|]. split; [vm_compute; reflexivity|].
  split; [vm_compute; reflexivity|]. split; [vm_compute; reflexivity|].
  split; [eexists; split; vm_compute; reflexivity|].
  split; [apply wf_cutb_sound; vm_compute; reflexivity|].
  split; [apply templates_okb_sound; vm_compute; reflexivity|].
  split; [apply is_baseb_sound; vm_compute; reflexivity|].
  split.
  { intros name g H. cbn [tp_fd fd_get] in H.
    destruct (str_eqb name (S "A")); [|discriminate];
      inversion H; subst g; (split; [vm_compute; repeat constructor; cbn; intuition discriminate|]);
      intros u v d Hin; vm_compute in Hin; repeat (destruct Hin as [Hin|Hin]; [inversion Hin; subst; vm_compute; auto|]); contradiction. }
  split; [vm_compute; reflexivity|].
  split.
  { intros x Hx. cbn in Hx. repeat destruct Hx as [<-|Hx]; try contradiction; repeat split; try (eexists; vm_compute; reflexivity); vm_compute; reflexivity. }
  split; [vm_compute; reflexivity|].
  vm_compute. repeat split; reflexivity.
Qed.
