(** DuplicateKey: a keyword written twice in one annotation (`[#A;w=1;w=2]`).  NOT one of the faults property C20 lists
    (two '=' in one entry, too many positional values, non-numeric charge/weight) and outside C14's quantifier (subsets
    of the keys): the code collects keyword entries in a dict, so the later value replaces the earlier one and the
    annotation is accepted.  Recorded here as what the model (tied to dialects.py on the corpus texts `A;q=1;q=2`,
    `A;foo=1;foo=2`, `A;weight=5;w=2` of C14 on every run) does; a key given positionally AND by keyword is rejected
    (FaultProofs/DialectProofs.bound_twice_rejected). *)
From Coq Require Import String.
From Coq Require Import List Ascii ZArith Bool.
From CGV Require Import Base.PyBase Base.PyVal Gen.DialectGen Dialect.DialectImpl Dialect.DialectDefs Dialect.DialectProofs.
Import ListNotations.
Example duplicate_keyword_last_wins_small :
  parse_dialect fo_demo graph_base_dialect (S "A;w=+1;w=1e-1") =
    Ok [(S "fragname", VStr (S "A")); (S "charge", VFlt (S "0.0")); (S "weight", VFlt (S "0.1"))] /\
  parse_dialect fo_demo graph_base_dialect (S "A;foo=1;bar=2;foo=3") =
    Ok [(S "foo", VStr (S "3")); (S "bar", VStr (S "2")); (S "fragname", VStr (S "A")); (S "charge", VFlt (S "0.0")); (S "weight", VFlt (S "1.0"))] /\
  parse_dialect fo_demo graph_base_dialect (S "A;+1;q=+1") = Err (ESyntax (S "bind")).
Proof. repeat split; vm_compute; reflexivity. Qed.
