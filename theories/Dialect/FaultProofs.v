(** FaultProofs: proofs about the fault models of C20 (ring table, missing fragment). *)
From Coq Require Import String.
From Coq Require Import List Ascii ZArith Bool Lia.
From CGV Require Import Base.PyBase Base.PyVal Dialect.FaultModels.
Import ListNotations.
Open Scope Z_scope.

(** a real (non-virtual) node without fragment definition is rejected wherever it stands in the
    node list, whatever the other nodes are, and nothing after the loop runs *)
Lemma rdm_rejects dict edges nodes k name :
  In (k, name) nodes -> str_in name dict = false -> real_node k edges = true ->
  rdm dict edges nodes = Err (ESyntax (S "no_fragment")).
Proof.
  induction nodes as [|[k' n'] r IH]; intros HI Hd Hr; [destruct HI|].
  cbn. destruct HI as [E|HI].
  - inversion E; subst. rewrite Hd, Hr. reflexivity.
  - destruct (str_in n' dict); [now apply IH|]. destruct (real_node k' edges); [reflexivity|now apply IH].
Qed.
Lemma missing_fragment_rejected {A} dict edges nodes k name (later : res A) :
  In (k, name) nodes -> str_in name dict = false -> real_node k edges = true ->
  resolve_step dict edges nodes later = Err (ESyntax (S "no_fragment")).
Proof. intros. unfold resolve_step. rewrite (rdm_rejects _ _ _ k name); auto. Qed.
