(** FaultProofs: proofs about the fault models of C20 (ring table, missing fragment). *)
From Coq Require Import String.
From Coq Require Import List Ascii ZArith Bool Lia.
From CGV Require Import Base.PyBase Base.PyVal Dialect.FaultModels.
Import ListNotations.
Open Scope Z_scope.

(** a real (non-virtual) node without fragment definition is rejected wherever it stands in the
    node list, whatever the other nodes are, and nothing after the loop runs *)
Lemma rdm_rejects dict edges nodes k name :
  In (k, name) nodes -> str_in name dict = false -> real_node k edges = true ->
  rdm dict edges nodes = Err (ESyntax (S "no_fragment")).
Proof.
  induction nodes as [|[k' n'] r IH]; intros HI Hd Hr; [destruct HI|].
  cbn. destruct HI as [E|HI].
  - inversion E; subst. rewrite Hd, Hr. reflexivity.
  - destruct (str_in n' dict); [now apply IH|]. destruct (real_node k' edges); [reflexivity|now apply IH].
Qed.
Lemma missing_fragment_rejected {A} dict edges nodes k name (later : res A) :
  In (k, name) nodes -> str_in name dict = false -> real_node k edges = true ->
  resolve_step dict edges nodes later = Err (ESyntax (S "no_fragment")).
Proof. intros. unfold resolve_step. rewrite (rdm_rejects _ _ _ k name); auto. Qed.

(** ** ring table *)
Definition tbl_mem (m : Z) (t : list (Z * Z)) : bool := match tbl_get m t with Some _ => true | None => false end.
Lemma tbl_get_notin m t : ~ In m (map fst t) -> tbl_get m t = None.
Proof.
  induction t as [|[k v] r IH]; cbn; intros H; [reflexivity|].
  destruct (Z.eqb_spec k m) as [->|N]; [exfalso; apply H; now left|]. apply IH. intros HI; apply H; now right.
Qed.
Lemma tbl_get_in m t : tbl_get m t <> None -> In m (map fst t).
Proof.
  induction t as [|[k v] r IH]; cbn; intros H; [congruence|].
  destruct (Z.eqb_spec k m) as [->|N]; [now left|right; now apply IH].
Qed.
Lemma tbl_get_app m t k v : tbl_get m (t ++ [(k, v)]) =
  match tbl_get m t with Some x => Some x | None => if Z.eqb k m then Some v else None end.
Proof. induction t as [|[k' v'] r IH]; cbn; [reflexivity|]. destruct (Z.eqb k' m); [reflexivity|exact IH]. Qed.
Lemma tbl_del_keys m t x : In x (map fst (tbl_del m t)) -> In x (map fst t).
Proof.
  induction t as [|[k v] r IH]; cbn; intros H; [assumption|].
  destruct (Z.eqb k m); [now right|]. cbn in H. destruct H; [now left|right; now apply IH].
Qed.
Lemma tbl_del_nodup m t : NoDup (map fst t) -> NoDup (map fst (tbl_del m t)).
Proof.
  induction t as [|[k v] r IH]; cbn; intros H; [constructor|]. inversion H as [|? ? Hn Hr]; subst.
  destruct (Z.eqb k m); [assumption|]. cbn. constructor; [|now apply IH]. intros HI. apply Hn. now apply (tbl_del_keys m).
Qed.
Lemma tbl_get_del_same m t : NoDup (map fst t) -> tbl_get m (tbl_del m t) = None.
Proof.
  induction t as [|[k v] r IH]; cbn; intros H; [reflexivity|]. inversion H as [|? ? Hn Hr]; subst.
  destruct (Z.eqb_spec k m) as [->|N].
  - now apply tbl_get_notin.
  - cbn. destruct (Z.eqb_spec k m); [congruence|]. now apply IH.
Qed.
Lemma tbl_get_del_other m m' t : m <> m' -> tbl_get m (tbl_del m' t) = tbl_get m t.
Proof.
  intros N. induction t as [|[k v] r IH]; cbn; [reflexivity|].
  destruct (Z.eqb_spec k m') as [->|N2].
  - destruct (Z.eqb_spec m' m); [congruence|reflexivity].
  - cbn. destruct (Z.eqb k m); [reflexivity|exact IH].
Qed.

Lemma NoDup_snoc {A} (l : list A) x : NoDup l -> ~ In x l -> NoDup (l ++ [x]).
Proof.
  induction l as [|y r IH]; cbn; intros ND H; [repeat constructor; intros []|].
  inversion ND as [|? ? Hn Hr]; subst. constructor.
  - intros HI. apply in_app_or in HI. destruct HI as [HI|[->|[]]]; [contradiction|]. apply H. now left.
  - apply IH; [assumption|]. intros HI. apply H. now right.
Qed.
Lemma tbl_get_none_notin m t : tbl_get m t = None -> ~ In m (map fst t).
Proof.
  induction t as [|[a b] r IH]; cbn; intros G HI; [assumption|].
  destruct (Z.eqb_spec a m) as [->|N]; [discriminate|]. destruct HI as [E|HI]; [congruence|]. now apply IH.
Qed.
Lemma ring_step_inv m st e st' : ring_step st e = Ok st' -> NoDup (map fst (r_tbl st)) ->
  NoDup (map fst (r_tbl st')) /\ tbl_mem m (r_tbl st') = xorb (tbl_mem m (r_tbl st)) (is_ring m e).
Proof.
  intros H ND. destruct e as [k [p|]|k m']; cbn in H.
  - inversion H; subst; cbn. split; [assumption|now rewrite xorb_false_r].
  - inversion H; subst; cbn. split; [assumption|now rewrite xorb_false_r].
  - cbn [is_ring]. destruct (tbl_get m' (r_tbl st)) as [n0|] eqn:G.
    + destruct (has_edge (r_edges st) k n0); [discriminate|]. inversion H; subst; cbn. split; [now apply tbl_del_nodup|].
      unfold tbl_mem. destruct (Z.eqb_spec m m') as [->|N].
      * rewrite tbl_get_del_same by assumption. now rewrite G.
      * rewrite tbl_get_del_other by assumption. now rewrite xorb_false_r.
    + inversion H; subst; cbn. split.
      * rewrite map_app. cbn. apply NoDup_snoc; [assumption|]. now apply tbl_get_none_notin.
      * unfold tbl_mem. rewrite tbl_get_app. destruct (Z.eqb_spec m m') as [->|N].
        -- rewrite G. now rewrite Z.eqb_refl.
        -- destruct (tbl_get m (r_tbl st)); [reflexivity|]. destruct (Z.eqb_spec m' m); [congruence|reflexivity].
Qed.

Lemma ring_run_inv m evs : forall st st', ring_run evs st = Ok st' -> NoDup (map fst (r_tbl st)) ->
  NoDup (map fst (r_tbl st')) /\ tbl_mem m (r_tbl st') = xorb (tbl_mem m (r_tbl st)) (Nat.odd (ring_count m evs)).
Proof.
  induction evs as [|e r IH]; intros st st' H ND; cbn in H.
  - inversion H; subst. split; [assumption|]. cbn. now rewrite xorb_false_r.
  - destruct (ring_step st e) as [st1|] eqn:E; cbn in H; [|discriminate].
    destruct (ring_step_inv m _ _ _ E ND) as [ND1 M1]. destruct (IH _ _ H ND1) as [ND2 M2].
    split; [assumption|]. rewrite M2, M1. unfold ring_count. cbn [filter].
    destruct (is_ring m e); cbn [length].
    + rewrite Nat.odd_succ, <- Nat.negb_odd. fold (ring_count m r).
      destruct (tbl_mem m (r_tbl st)), (Nat.odd (ring_count m r)); reflexivity.
    + now rewrite xorb_false_r.
Qed.
Lemma ring_step_err st e er : ring_step st e = Err er -> er = ESyntax (S "double").
Proof.
  destruct e as [k [p|]|k m']; cbn; try discriminate.
  destruct (tbl_get m' (r_tbl st)); [|discriminate]. destruct (has_edge (r_edges st) k z); [|discriminate].
  intros H; now inversion H.
Qed.
Lemma ring_run_err evs : forall st er, ring_run evs st = Err er -> er = ESyntax (S "double").
Proof.
  induction evs as [|e r IH]; intros st er H; cbn in H; [discriminate|].
  destruct (ring_step st e) as [st1|e1] eqn:E; cbn in H.
  - now apply (IH st1).
  - inversion H; subst. now apply (ring_step_err st e).
Qed.
(** a ring index read an odd number of times (in particular: opened and never closed) is rejected
    with a SyntaxError, wherever its occurrences stand and whatever else the text contains *)
Theorem dangling_rejected m evs : Nat.odd (ring_count m evs) = true ->
  ring_model evs = Err (ESyntax (S "dangling")) \/ ring_model evs = Err (ESyntax (S "double")).
Proof.
  intros Ho. unfold ring_model. destruct (ring_run evs rt0) as [st|er] eqn:E; cbn.
  - left. destruct (ring_run_inv m _ _ _ E) as [_ M]; [constructor|]. rewrite Ho in M. cbn in M.
    unfold tbl_mem in M. destruct (r_tbl st); [discriminate|reflexivity].
  - right. apply ring_run_err in E. now subst.
Qed.
Lemma ring_run_app a : forall b st, ring_run (a ++ b) st = (st' <- ring_run a st ;; ring_run b st').
Proof.
  induction a as [|e r IH]; intros b st; cbn; [reflexivity|].
  destruct (ring_step st e); cbn; [apply IH|reflexivity].
Qed.
(** a ring bond whose two ends are already joined by an edge is rejected, wherever it stands *)
Theorem duplicate_rejected pre post v m u st :
  ring_run pre rt0 = Ok st -> tbl_get m (r_tbl st) = Some u -> has_edge (r_edges st) v u = true ->
  ring_model (pre ++ EvRing v m :: post) = Err (ESyntax (S "double")).
Proof.
  intros Hp Hg He. unfold ring_model. rewrite ring_run_app, Hp. cbn. rewrite Hg, He. reflexivity.
Qed.

(** non-vacuity *)
Example dangling_example :
  Nat.odd (ring_count 3 [EvNode 0 None; EvRing 0 1; EvNode 1 (Some 0); EvRing 1 3; EvNode 2 (Some 1); EvRing 2 1]) = true /\
  ring_model [EvNode 0 None; EvRing 0 1; EvNode 1 (Some 0); EvRing 1 3; EvNode 2 (Some 1); EvRing 2 1] = Err (ESyntax (S "dangling")) /\
  ring_model [EvNode 0 None; EvRing 0 1; EvNode 1 (Some 0); EvNode 2 (Some 1); EvRing 2 1] = Ok [(2, 0); (1, 2); (0, 1)].
Proof. repeat split; vm_compute; reflexivity. Qed.
Example duplicate_example :
  exists st, ring_run [EvNode 0 None; EvRing 0 2; EvNode 1 (Some 0)] rt0 = Ok st /\ tbl_get 2 (r_tbl st) = Some 0 /\
             has_edge (r_edges st) 1 0 = true.
Proof. eexists. repeat split; vm_compute; reflexivity. Qed.
Example missing_fragment_example :
  rdm [S "A"] [(0, 1, 1)] [(0, S "A"); (1, S "B")] = Err (ESyntax (S "no_fragment")) /\
  rdm [S "A"] [(0, 1, 0)] [(0, S "A"); (1, S "B")] = Ok tt.
Proof. split; vm_compute; reflexivity. Qed.
