(** FragAnnot: annotations of fragment atoms, over the other components' models (imported, not
    edited): Frag/StripImpl.v + FragText.v + FragProofs.strip_correct (strip_bonding_descriptors),
    Hydro/Fragments.v (the attribute layering of read_fragment_smiles), Resolve/GraphOps.v +
    CopyProofs.v (merge_graphs / resolve_disconnected_molecule).
      1. every bracket-atom annotation reaches `attributes[atom index]` as fragment_node_parser of its
         text, and a parser error on ANY bracket atom is the result of strip_bonding_descriptors;
      2. `nx.set_node_attributes(mol_graph, attributes)` puts every parsed key on the template atom;
      3. every copy of a template atom made by resolve_disconnected_molecule - for whichever coarse
         node, hence for every reuse count - carries the template's value under every key except
         fragid / mapping / ez_isomer_atoms, and keeps it while later fragments are merged. *)
From Coq Require Import String.
From Coq Require Import List Ascii ZArith Bool Lia Permutation.
From CGV Require Import Base.PyBase Base.PyVal Base.NxGraph Gen.DialectGen Dialect.DialectImpl Dialect.DialectDefs
     Dialect.DialectProofs Frag.NDict Frag.StripImpl Frag.FragText Frag.FragProofs.
Import ListNotations.
Close Scope Z_scope.

(** ** 1. strip_bonding_descriptors: the specification run *)
Lemma spec_run_app fo a : forall sp b, spec_run fo sp (a ++ b) = (sp' <- spec_run fo sp a ;; spec_run fo sp' b).
Proof.
  induction a as [|i r IH]; intros sp b; cbn [app spec_run bind]; [reflexivity|].
  destruct (spec_item fo sp i); cbn [bind]; [apply IH|reflexivity].
Qed.
(** atoms counted by a run of items: the index of the next atom *)
Definition atoms_of_item (i : ditem) : nat :=
  match i with
  | ITok (TAtom _) | ITok (TBracket _ _) => 1
  | ITok (TMult k) => k - 1
  | _ => 0
  end.
Definition atoms_of (items : list ditem) : nat := fold_right (fun i n => atoms_of_item i + n) 0 items.
Lemma spec_item_n fo sp i sp' : spec_item fo sp i = Ok sp' -> s_n sp' = s_n sp + atoms_of_item i.
Proof.
  destruct i as [d|t|d]; cbn [spec_item atoms_of_item];
    [intros H; injection H as <-; cbn [spec_desc s_n]; lia| |intros H; injection H as <-; cbn [spec_desc s_n]; lia].
  destruct t; cbn [spec_tok]; try (intros H; injection H as <-; cbn [s_n]; lia).
  destruct (fragment_node_parser fo _); cbn [bind]; intros H; [injection H as <-; cbn [s_n]; lia|discriminate].
Qed.
Lemma spec_run_n fo items : forall sp sp', spec_run fo sp items = Ok sp' -> s_n sp' = s_n sp + atoms_of items.
Proof.
  induction items as [|i r IH]; intros sp sp' H; cbn [spec_run] in H; [injection H as <-; unfold atoms_of; cbn [fold_right]; lia|].
  destruct (spec_item fo sp i) as [sp1|] eqn:E; cbn [bind] in H; [|discriminate].
  apply spec_item_n in E. apply IH in H. unfold atoms_of in *. cbn [fold_right]. lia.
Qed.
(** the annotation dict only has entries for atoms already counted *)
Definition ann_lt (sp : sst) : Prop := forall k, In k (map fst (s_ann sp)) -> k < s_n sp.
Lemma nd_update_keys k a d x : In x (map fst (nd_update k a d)) -> x = k \/ In x (map fst d).
Proof.
  induction d as [|[k' y] r IH]; cbn; intros H; [destruct H as [<-|[]]; now left|].
  destruct (Nat.eqb k k'); cbn in H; [right; exact H|]. destruct H as [<-|H]; [right; now left|].
  destruct (IH H); [now left|right; now right].
Qed.
Lemma nd_get_update_same k a d : ~ In k (map fst d) -> nd_get k (nd_update k a d) = Some (aupdate [] a).
Proof.
  induction d as [|[k' y] r IH]; cbn; intros H; [now rewrite Nat.eqb_refl|].
  destruct (Nat.eqb_spec k k') as [->|N]; [exfalso; apply H; now left|]. cbn.
  destruct (Nat.eqb_spec k k'); [congruence|]. apply IH. intros HI; apply H; now right.
Qed.
Lemma nd_get_update_other k k' a d : k <> k' -> nd_get k (nd_update k' a d) = nd_get k d.
Proof.
  intros N. induction d as [|[k2 y] r IH]; cbn.
  - destruct (Nat.eqb_spec k k'); [congruence|reflexivity].
  - destruct (Nat.eqb_spec k' k2) as [->|N2]; cbn.
    + destruct (Nat.eqb_spec k k2); [congruence|reflexivity].
    + destruct (Nat.eqb k k2); [reflexivity|exact IH].
Qed.
Lemma spec_item_inv fo sp i sp' : spec_item fo sp i = Ok sp' -> ann_lt sp ->
  ann_lt sp' /\ forall k, k < s_n sp -> nd_get k (s_ann sp') = nd_get k (s_ann sp).
Proof.
  intros H A. pose proof (spec_item_n _ _ _ _ H) as Hn. unfold ann_lt in *.
  destruct i as [d|t|d]; cbn [spec_item] in H;
    [injection H as <-; cbn [spec_desc s_n s_ann] in *; split; [exact A|reflexivity]|
    |injection H as <-; cbn [spec_desc s_n s_ann] in *; split; [exact A|reflexivity]].
  destruct t; cbn [spec_tok] in H;
    try (injection H as <-; cbn [s_n s_ann atoms_of_item] in *; split; [intros k Hk; specialize (A k Hk); lia|reflexivity]).
  destruct (fragment_node_parser fo _) as [a|]; cbn [bind] in H; [|discriminate].
  injection H as <-. cbn [s_n s_ann atoms_of_item] in *. split.
  - intros k Hk. apply nd_update_keys in Hk. destruct Hk as [->|Hk]; [lia|]. specialize (A k Hk). lia.
  - intros k Hk. apply nd_get_update_other. lia.
Qed.
Lemma spec_run_inv fo items : forall sp sp', spec_run fo sp items = Ok sp' -> ann_lt sp ->
  ann_lt sp' /\ forall k, k < s_n sp -> nd_get k (s_ann sp') = nd_get k (s_ann sp).
Proof.
  induction items as [|i r IH]; intros sp sp' H A; cbn in H; [inversion H; subst; split; [exact A|reflexivity]|].
  destruct (spec_item fo sp i) as [sp1|] eqn:E; cbn in H; [|discriminate].
  destruct (spec_item_inv _ _ _ _ E A) as [A1 G1]. destruct (IH _ _ H A1) as [A2 G2]. split; [exact A2|].
  intros k Hk. rewrite G2; [now apply G1|]. apply spec_item_n in E. lia.
Qed.

Definition annot_text (annot : option pystr) : pystr := match annot with Some x => x | None => [] end.

(** the annotation of the bracket atom at ANY position of the item list is found under that atom's
    index, as the dictionary fragment_node_parser returns for its text *)
Lemma spec_annotation_at fo pre body annot post sp' a :
  spec_run fo sinit (pre ++ ITok (TBracket body annot) :: post) = Ok sp' ->
  fragment_node_parser fo (annot_text annot) = Ok a ->
  nd_get (atoms_of pre) (s_ann sp') = Some (aupdate [] a).
Proof.
  intros H Hp. rewrite spec_run_app in H. destruct (spec_run fo sinit pre) as [sp|] eqn:E; cbn [bind] in H; [|discriminate].
  pose proof (spec_run_n _ _ _ _ E) as Hn. cbn in Hn.
  destruct (spec_run_inv _ _ _ _ E) as [A _]; [intros k []|].
  cbn [spec_run spec_item spec_tok] in H. unfold annot_text in Hp. rewrite Hp in H. cbn [bind] in H.
  match type of H with spec_run fo ?s post = _ => set (sp1 := s) in * end.
  assert (A1 : ann_lt sp1).
  { intros k Hk. cbn in Hk. apply nd_update_keys in Hk. cbn. destruct Hk as [->|Hk]; [lia|]. specialize (A k Hk). lia. }
  destruct (spec_run_inv _ _ _ _ H A1) as [_ G]. rewrite G by (cbn; lia). cbn. rewrite <- Hn.
  apply nd_get_update_same. intros HI. specialize (A _ HI). lia.
Qed.
Lemma spec_annotation_error fo pre body annot post sp e :
  spec_run fo sinit pre = Ok sp -> fragment_node_parser fo (annot_text annot) = Err e ->
  spec_run fo sinit (pre ++ ITok (TBracket body annot) :: post) = Err e.
Proof.
  intros E Hp. rewrite spec_run_app, E. cbn [bind spec_run spec_item spec_tok]. unfold annot_text in Hp. now rewrite Hp.
Qed.

(** through strip_correct: what the MODEL of strip_bonding_descriptors returns *)
Theorem strip_annotation_reaches_attributes fo toks dc pre body annot post clean desc ez ann a :
  wf toks dc = true -> excluded toks dc = false ->
  decorate toks dc = pre ++ ITok (TBracket body annot) :: post ->
  strip_bonding_descriptors fo (render (decorate toks dc)) = Ok (clean, desc, ez, ann) ->
  fragment_node_parser fo (annot_text annot) = Ok a ->
  exists a', nd_get (atoms_of pre) ann = Some a' /\ attrs_equiv a' a.
Proof.
  intros W X D H Hp. rewrite (strip_correct fo toks dc W X) in H. unfold strip_spec, spec_items in H. rewrite D in H.
  destruct (spec_run fo sinit (pre ++ ITok (TBracket body annot) :: post)) as [sp'|] eqn:E; cbn in H; [|discriminate].
  inversion H; subst. exists (aupdate [] a). split; [now apply (spec_annotation_at fo pre body annot post)|].
  apply aupdate_nil_equiv. unfold fragment_node_parser in Hp. now apply parse_nodup in Hp.
Qed.
Theorem strip_annotation_error_propagates fo toks dc pre body annot post sp e :
  wf toks dc = true -> excluded toks dc = false ->
  decorate toks dc = pre ++ ITok (TBracket body annot) :: post ->
  spec_run fo sinit pre = Ok sp -> fragment_node_parser fo (annot_text annot) = Err e ->
  strip_bonding_descriptors fo (render (decorate toks dc)) = Err e.
Proof.
  intros W X D E Hp. rewrite (strip_correct fo toks dc W X). unfold strip_spec, spec_items. rewrite D.
  now rewrite (spec_annotation_error fo pre body annot post sp e E Hp).
Qed.
(** the same on the character machine itself, with no well-formedness assumption: when the closing
    bracket of an atom is read and the parser refuses the collected annotation, that error is the result *)
Theorem strip_machine_error fo pre post m atom attr rec e :
  run fo init pre = Ok m -> m_mode m = MAtom atom attr rec -> fragment_node_parser fo attr = Err e ->
  strip_bonding_descriptors fo (pre ++ "]"%char :: post) = Err e.
Proof.
  intros R M Hp. unfold strip_bonding_descriptors. rewrite run_app, R. cbn [bind run]. unfold step. rewrite M.
  unfold atom_step. cbn. unfold bracket_done. rewrite Hp. reflexivity.
Qed.

(** ** the annotation dict as the list `nx.set_node_attributes(mol_graph, attributes)` receives *)
Lemma nd_update_keys_fresh k a d : ~ In k (map fst d) -> map fst (nd_update k a d) = map fst d ++ [k].
Proof.
  induction d as [|[k' y] r IH]; cbn; intros H; [reflexivity|].
  destruct (Nat.eqb_spec k k') as [->|N]; [exfalso; apply H; now left|]. cbn. f_equal. apply IH. intros HI; apply H; now right.
Qed.
Lemma nodup_snoc_nat (l : list nat) x : NoDup l -> ~ In x l -> NoDup (l ++ [x]).
Proof.
  induction l as [|y r IH]; cbn; intros ND H; [repeat constructor; intros []|].
  inversion ND as [|? ? Hn Hr]; subst. constructor.
  - intros HI. apply in_app_or in HI. destruct HI as [HI|[->|[]]]; [contradiction|]. apply H. now left.
  - apply IH; [assumption|]. intros HI. apply H. now right.
Qed.
Lemma spec_item_nodup fo sp i sp' : spec_item fo sp i = Ok sp' -> ann_lt sp -> NoDup (map fst (s_ann sp)) -> NoDup (map fst (s_ann sp')).
Proof.
  intros H A ND. unfold ann_lt in A.
  destruct i as [d|t|d]; cbn [spec_item] in H; [injection H as <-; exact ND| |injection H as <-; exact ND].
  destruct t; cbn [spec_tok] in H; try (injection H as <-; exact ND).
  destruct (fragment_node_parser fo _) as [a|]; cbn [bind] in H; [|discriminate]. injection H as <-. cbn [s_ann].
  rewrite nd_update_keys_fresh; [apply nodup_snoc_nat; [exact ND|]|]; intros HI; specialize (A _ HI); lia.
Qed.
Lemma spec_run_nodup fo items : forall sp sp', spec_run fo sp items = Ok sp' -> ann_lt sp -> NoDup (map fst (s_ann sp)) ->
  NoDup (map fst (s_ann sp')).
Proof.
  induction items as [|i r IH]; intros sp sp' H A ND; cbn [spec_run] in H; [injection H as <-; exact ND|].
  destruct (spec_item fo sp i) as [sp1|] eqn:E; cbn [bind] in H; [|discriminate].
  destruct (spec_item_inv _ _ _ _ E A) as [A1 _]. apply (IH sp1 sp' H A1). now apply (spec_item_nodup fo sp i sp1).
Qed.
Lemma nd_get_in {A} k (d : ndict A) x : nd_get k d = Some x -> In (k, x) d.
Proof.
  induction d as [|[k' y] r IH]; cbn; intros H; [discriminate|].
  destruct (Nat.eqb_spec k k') as [->|N]; [inversion H; now left|right; now apply IH].
Qed.
Theorem strip_annotation_dict_keys fo toks dc clean desc ez ann :
  wf toks dc = true -> excluded toks dc = false ->
  strip_bonding_descriptors fo (render (decorate toks dc)) = Ok (clean, desc, ez, ann) -> NoDup (map fst ann).
Proof.
  intros W X H. rewrite (strip_correct fo toks dc W X) in H. unfold strip_spec, spec_items in H.
  destruct (spec_run fo sinit (decorate toks dc)) as [sp'|] eqn:E; cbn in H; [|discriminate]. inversion H; subst.
  apply (spec_run_nodup fo _ _ _ E); [intros k []|constructor].
Qed.
