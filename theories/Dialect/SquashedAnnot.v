(** SquashedAnnot: annotations of fragment atoms in the RETURNED graph of a step that DOES squash atoms (cuts with `!`
    bonds: shared atoms), over the resolver component's Resolve/SquashedReturned.step_squashed_returned (which rests on
    Hydro's QuotientAttrs.squash_keeps_attrs; imports only) - any dictionary of well-formed templates, any coarse graph,
    coarse and all-atom steps, no Compose cut model.
    A template atom whose copy SURVIVES squash_atoms (it is the representative [rho] of its `!` class; every atom of a
    step without `!` bonds is) carries every template attribute the step does not write itself on its one image in
    the returned graph; with the text chain of TextParsed: the annotation written on the i-th atom token.
    A copy that is merged INTO another atom is no atom of the fine graph any more: the merged atom keeps the
    survivor's attributes (squash_keeps_attrs) and lists both coarse nodes under fragid; the annotation of the removed
    copy is not transferred: two fragment definitions that annotate a shared atom differently are outside the statement. *)
From Coq Require Import String.
From Coq Require Import List Ascii ZArith Bool Lia Permutation.
From CGV Require Import Base.PyBase Base.PyVal Base.NxGraph Resolve.Bonding Resolve.BondingDefs Resolve.GraphOps
     Resolve.CopyProofs Hydro.SquashDefs Resolve.Pipeline Resolve.PipelineFull Resolve.FragidProofs.
From CGV Require Hydro.NumTotal Compose.RebuildWf Hydro.QuotientDefs Dialect.ReturnedCar Dialect.ReturnedAnnot.
From CGV Require Import Resolve.EdgeCopyGen Resolve.SquashedReturned.
From CGV Require Import Dialect.DialectImpl Dialect.DialectDefs Frag.NDict Frag.StripImpl Frag.FragText Hydro.Fragments
     Frag.SmilesParse Frag.SmilesSpec Dialect.FragAnnot Dialect.TemplateAnnot Dialect.TextAnnot Dialect.TextParsed.
Import ListNotations.
Open Scope Z_scope.

Section Squashed.
  Variables (legacy aa : bool) (fd : fragdict) (prev : graph) (car : option graph) (fo : full_out).
  Hypothesis Hd : tmpl_dict fd.
  Hypothesis Hwa : wf_attrs fd.
  Hypothesis Hnd : NumTotal.hnum_dict fd.
  Hypothesis Step : resolve_step_full legacy aa fd prev car = Ok fo.
  Hypothesis Hwe : forall es, base_edges (fo_meta fo) = Ok es -> wf_edges es.
  Hypothesis Rs : aa = true -> forall g1, car = Some g1 -> RebuildWf.all_no_rs g1.

  (** template attribute -> returned graph, on the surviving copies *)
  Theorem annotation_reaches_squashed_returned :
    exists sg : Z -> Z,
      (forall x y, In x (node_keys (fo_m3 fo)) -> In y (node_keys (fo_m3 fo)) -> sg x = sg y -> x = y) /\
      forall pre mn post fv name frag, fo_meta fo = pre ++ mn :: post ->
      aget (S "fragname") (na mn) = Some fv -> lookup_fragment fd fv = Some (name, frag) ->
      exists cf0 : Z -> Z,
        (forall a b, In a (node_keys frag) -> In b (node_keys frag) -> cf0 a = cf0 b -> a = b) /\
        forall n, In n frag ->
          In (cf0 (nk n)) (node_keys (fo_m2 fo)) /\ In (QuotientDefs.rho (fo_m2 fo) (cf0 (nk n))) (node_keys (fo_m3 fo)) /\
          (exists l, node_get (fo_mol fo) (sg (QuotientDefs.rho (fo_m2 fo) (cf0 (nk n)))) (S "fragid") = Some (VList l) /\ In (VInt (nk mn)) l) /\
          (QuotientDefs.rho (fo_m2 fo) (cf0 (nk n)) = cf0 (nk n) -> forall key v, ~ In key written_keys_sq -> aget key (na n) = Some v ->
             node_get (fo_mol fo) (sg (cf0 (nk n))) key = Some v).
  Proof.
    destruct (step_squashed_returned legacy aa fd prev car fo Hd Hwa Hnd Step Hwe Rs) as (sg & Isg & _ & H).
    exists sg. split; [exact Isg|]. intros pre mn post fv name frag Em Ef El.
    destruct (H pre mn post fv name frag Em Ef El) as (cf0 & Icf & Hn & _). exists cf0. split; [exact Icf|].
    intros n Hin. destruct (Hn n Hin) as (A & B & l & lm & Fl & Il & Rest).
    split; [exact A|]. split; [exact B|]. split; [exists l; split; assumption|].
    (* the attribute clause is the LAST conjunct of the resolver component's statement, however many precede it *)
    repeat match type of Rest with _ /\ _ => destruct Rest as [_ Rest] end. exact Rest.
  Qed.
End Squashed.

(** ** from the TEXT of an all-atom fragment definition *)
Section SquashedText.
  Variable fo : float_oracle.
  Variables (name : pystr) (toks : list tok) (dc : decor).
  Hypothesis Wt : FragText.wf toks dc = true.
  Hypothesis Xt : excluded toks dc = false.
  Hypothesis WS : wf_smiles toks = true.
  Variables (clean : pystr) (desc : ndict (list pystr)) (ez : ndict ascii) (ann : ndict attrs).
  Hypothesis Strip : strip_bonding_descriptors fo (FragText.render (decorate toks dc)) = Ok (clean, desc, ez, ann).
  Variable G : sgraph.
  Hypothesis Parse : smiles_parse clean = Ok G.
  Variables (bonding ezl : list (Z * pyval)) (T : graph).
  Hypothesis Post : read_fragment_post (nx_of G) name bonding ezl (ann_list ann) = Ok T.
  Variables (legacy aa : bool) (fd : fragdict) (prev : graph) (car : option graph) (fo_ : full_out).
  Hypothesis Hd : tmpl_dict fd.
  Hypothesis Hwa : wf_attrs fd.
  Hypothesis Hnd : NumTotal.hnum_dict fd.
  Hypothesis Hname : fd_get name fd = Some T.
  Hypothesis Step : resolve_step_full legacy aa fd prev car = Ok fo_.
  Hypothesis Hwe : forall es, base_edges (fo_meta fo_) = Ok es -> wf_edges es.
  Hypothesis Rs : aa = true -> forall g1, car = Some g1 -> RebuildWf.all_no_rs g1.

  Theorem parsed_annotation_reaches_squashed_returned :
    exists sg : Z -> Z,
      (forall x y, In x (node_keys (fo_m3 fo_)) -> In y (node_keys (fo_m3 fo_)) -> sg x = sg y -> x = y) /\
      forall pre mn post, fo_meta fo_ = pre ++ mn :: post -> aget (S "fragname") (na mn) = Some (VStr name) ->
      exists cf0 : Z -> Z,
        (forall a b, In a (node_keys T) -> In b (node_keys T) -> cf0 a = cf0 b -> a = b) /\
        forall pre' body annot post' a key v,
          decorate toks dc = pre' ++ ITok (TBracket body annot) :: post' ->
          fragment_node_parser fo (annot_text annot) = Ok a -> In (key, v) a ->
          ~ In key TemplateAnnot.written_keys -> ~ In key written_keys_sq ->
          let i := Z.of_nat (atoms_of pre') in
          In (cf0 i) (node_keys (fo_m2 fo_)) /\
          (exists l, node_get (fo_mol fo_) (sg (QuotientDefs.rho (fo_m2 fo_) (cf0 i))) (S "fragid") = Some (VList l) /\ In (VInt (nk mn)) l) /\
          (QuotientDefs.rho (fo_m2 fo_) (cf0 i) = cf0 i -> node_get (fo_mol fo_) (sg (cf0 i)) key = Some v).
  Proof.
    destruct (annotation_reaches_squashed_returned legacy aa fd prev car fo_ Hd Hwa Hnd Step Hwe Rs) as (sg & Isg & H).
    exists sg. split; [exact Isg|]. intros pre mn post Em Ef.
    assert (El : lookup_fragment fd (VStr name) = Some (name, T)) by (cbn [lookup_fragment]; now rewrite Hname).
    destruct (H pre mn post (VStr name) name T Em Ef El) as (cf0 & Icf & Hn). exists cf0. split; [exact Icf|].
    intros pre' body annot post' a key v D Hp Hkv Hw' Hw i.
    pose proof (parsed_annotation_on_template fo name toks dc Wt Xt WS clean desc ez ann Strip G Parse bonding ezl T Post
                  pre' body annot post' a key v D Hp Hkv Hw') as Vt.
    unfold node_get in Vt. fold i in Vt. destruct (gfind i T) as [n|] eqn:Gn; [|discriminate].
    assert (Hin : In n T /\ nk n = i).
    { clear -Gn. induction T as [|m r IH]; cbn in Gn; [discriminate|]. destruct (Z.eqb_spec (nk m) i) as [E|N].
      - injection Gn as <-. split; [now left|exact E].
      - destruct (IH Gn) as [A B]. split; [now right|exact B]. }
    destruct Hin as [Hin Ek]. destruct (Hn n Hin) as (A & _ & Fl & K). rewrite Ek in A, Fl, K.
    split; [exact A|]. split; [exact Fl|]. intros R. exact (K R key v Hw Vt).
  Qed.
End SquashedText.

(** ** non-vacuity: {[#A][#A]}.{#A=C[C;0.5;x=R;k=v][!]} - the annotated atom is SHARED by the two residues *)
From CGV Require Import Compose.CutModel Dialect.ReturnedExample.
From CGV Require Hydro.Squash Hydro.SquashProofs Hydro.GraphLemmas Hydro.RebuildProofs.
Definition sq_dc := {| d_lead := []; d_after := [[]; [{| d_kind := "!"%char; d_label := []; d_sym := None |}]] |}.
Definition sq_T : graph :=
  match smiles_parse (S "C[C]") with
  | Ok G => match read_fragment_post (nx_of G) (S "A") [(1, VList [VStr (S "!1")])] [] (ann_list tp_ann) with Ok T => T | _ => [] end
  | Err _ => [] end.
Definition sq_fd : fragdict := [(S "A", sq_T)].
Definition sq_base : graph := base_of tpC.      (* two coarse nodes named A joined by an order-1 edge *)
Definition sq_m3 : option graph :=
  match resolve_disconnected sq_fd sq_base with
  | Ok (m1, fg1) => match bonding_step true true sq_base m1 fg1 with
                    | Ok (m2, _) => match Squash.squash_atoms m2 with Ok m3 => Some m3 | _ => None end | _ => None end
  | _ => None end.
Definition no_rsb (g : graph) : bool := forallb (fun n => match aget (S "rs_isomer") (na n) with None => true | Some _ => false end) g.
(** every hypothesis of [parsed_annotation_reaches_squashed_returned] holds; the bonded graph has the four heavy atoms 0..3, atom 3
    (the second copy of the annotated atom) is merged into atom 1, which survives; the returned atom (key 4) lists BOTH coarse
    nodes and carries weight 0.5, chiral R, k = v *)
Example squashed_annotation_example :
  FragText.wf tp_toks sq_dc = true /\ excluded tp_toks sq_dc = false /\ wf_smiles tp_toks = true /\
  to_string (FragText.render (decorate tp_toks sq_dc)) = "C[C;0.5;x=R;k=v][!]"%string /\
  strip_bonding_descriptors tp_fo (FragText.render (decorate tp_toks sq_dc)) = Ok (S "C[C]", [(1%nat, [S "!1"])], [], tp_ann) /\
  (exists G, smiles_parse (S "C[C]") = Ok G /\ read_fragment_post (nx_of G) (S "A") [(1, VList [VStr (S "!1")])] [] (ann_list tp_ann) = Ok sq_T) /\
  tmpl_dict sq_fd /\ wf_attrs sq_fd /\ NumTotal.hnum_dict sq_fd /\ fd_get (S "A") sq_fd = Some sq_T /\
  match sq_m3 with
  | Some m3 =>
      RebuildWf.all_no_rs m3 /\
      match resolve_step_full true true sq_fd sq_base (Some m3) with
      | Ok fo =>
          (forall es, base_edges (fo_meta fo) = Ok es -> wf_edges es) /\
          node_keys (fo_m2 fo) = [0; 1; 2; 3] /\ node_keys (fo_m3 fo) = [0; 1; 2] /\
          map (QuotientDefs.rho (fo_m2 fo)) [0; 1; 2; 3] = [0; 1; 2; 1] /\
          (node_get (fo_mol fo) 4 (S "fragid"), node_get (fo_mol fo) 4 (S "weight"), node_get (fo_mol fo) 4 (S "chiral"), node_get (fo_mol fo) 4 (S "k"))
          = (Some (VList [VInt 0; VInt 1]), Some (VFlt (S "0.5")), Some (VStr (S "R")), Some (VStr (S "v")))
      | Err _ => False
      end
  | None => False
  end.
Proof.
  split; [vm_compute; reflexivity|]. split; [vm_compute; reflexivity|]. split; [vm_compute; reflexivity|].
  split; [vm_compute; reflexivity|]. split; [vm_compute; reflexivity|].
  split; [eexists; split; vm_compute; reflexivity|].
  split.
  { intros name g H. cbn [fd_get sq_fd] in H. destruct (str_eqb name (S "A")); [|discriminate]. inversion H; subst g; clear H. split.
    - apply SquashProofs.wf_graphb_sound. vm_compute. reflexivity.
    - intros n Hn. vm_compute in Hn. destruct Hn as [<-|[<-|[]]]; cbn; repeat constructor; intuition.
    - intros a b. let r := eval vm_compute in sq_T in change sq_T with r. unfold edge_attrs. cbn [gfind nk nadj map fst snd].
      repeat match goal with |- context [Z.eqb ?x ?y] => destruct (Z.eqb_spec x y); subst; try congruence; cbn [adj_get gfind nk nadj map fst snd] end; reflexivity. }
  split.
  { intros name g H n Hn. cbn [fd_get sq_fd] in H. destruct (str_eqb name (S "A")); [|discriminate]. inversion H; subst g; clear H.
    vm_compute in Hn. destruct Hn as [<-|[<-|[]]]; repeat constructor; cbn; intuition discriminate. }
  split.
  { intros name g H n Hn. cbn [fd_get sq_fd] in H. destruct (str_eqb name (S "A")); [|discriminate]. inversion H; subst g; clear H.
    vm_compute in Hn. destruct Hn as [<-|[<-|[]]]; vm_compute; eauto. }
  split; [vm_compute; reflexivity|].
  assert (Hrs : forall g, no_rsb g = true -> RebuildWf.all_no_rs g).
  { intros g Hb i n Gi. unfold no_rsb in Hb. rewrite forallb_forall in Hb. specialize (Hb n (GraphLemmas.gfind_In _ _ _ Gi)).
    unfold RebuildProofs.no_rs. destruct (aget (S "rs_isomer") (na n)); [discriminate|reflexivity]. }
  destruct sq_m3 as [m3|] eqn:E3; [|vm_compute in E3; discriminate].
  split; [apply Hrs; vm_compute in E3; injection E3 as <-; vm_compute; reflexivity|].
  vm_compute in E3. injection E3 as <-.
  match goal with |- match ?x with _ => _ end => let r := eval vm_compute in x in change x with r end.
  cbv iota. split; [|vm_compute; repeat split; reflexivity].
  intros es He. vm_compute in He. injection He as <-. repeat constructor; cbn; discriminate.
Qed.

(** ** the REMOVED copy (bounded): {[#A][#B]}.{#A=C[C;k=v][!],#B=[!][C;k=w;0.5]C} - the two definitions annotate the shared
    atom differently.  The merged atom (returned key 4) lists both coarse nodes and keeps the SURVIVOR's values (k = v, the
    default weight of A's atom); B's k = w and weight 0.5 are not transferred.  Model and implementation agree on this
    (observed on /repo); which value a shared atom should carry is not fixed by the property: outside the statement. *)
Definition tmpl_of (name text : pystr) : res graph :=
  '(clean, d, e, a) <- strip_bonding_descriptors tp_fo text ;;
  G <- smiles_parse clean ;;
  read_fragment_post (nx_of G) name (map (fun kv => (Z.of_nat (fst kv), VList (map VStr (snd kv)))) d) [] (ann_list a).
Definition rc_fd : res fragdict :=
  TA <- tmpl_of (S "A") (S "C[C;k=v][!]") ;; TB <- tmpl_of (S "B") (S "[!][C;k=w;0.5]C") ;; Ok [(S "A", TA); (S "B", TB)].
Definition rc_base : graph := [ {| nk := 0; na := [(S "fragname", VStr (S "A"))]; nadj := [(1, [(S "order", VInt 1)])] |};
                                {| nk := 1; na := [(S "fragname", VStr (S "B"))]; nadj := [(0, [(S "order", VInt 1)])] |} ].
Example squashed_removed_copy_small :
  (fd <- rc_fd ;;
   '(m1, fg1) <- resolve_disconnected fd rc_base ;; '(m2, _) <- bonding_step true true rc_base m1 fg1 ;; m3 <- Squash.squash_atoms m2 ;;
   fo <- resolve_step_full true true fd rc_base (Some m3) ;;
   Ok (map (fun n => (nk n, aget (S "fragid") (na n), aget (S "k") (na n), aget (S "weight") (na n)))
           (filter (fun n => match aget (S "element") (na n) with Some (VStr e) => negb (str_eqb e (S "H")) | _ => true end) (fo_mol fo))))
  = Ok [(0, Some (VList [VInt 0]), None, Some (VInt 1));
        (4, Some (VList [VInt 0; VInt 1]), Some (VStr (S "v")), Some (VFlt (S "1.0")));
        (7, Some (VList [VInt 1]), None, Some (VInt 1))].
Proof. vm_compute. reflexivity. Qed.
