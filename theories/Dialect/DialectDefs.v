(** DialectDefs: the SPECIFICATION side of properties C14 / C20 for annotations: the documented
    dialect tables (docs/source/syntax/basic_graph_description.rst, "Reserved Annotation Symbols"),
    abstract annotations (an assignment of reserved keys + free keys), their writings (positional /
    keyword entries in some order) and the attribute map the documentation promises.  Used by the
    theorem statements and by the executable oracle.  No proofs. *)
From Coq Require Import String.
From Coq Require Import List Ascii ZArith Bool.
From CGV Require Import Base.PyBase Base.PyVal Gen.DialectGen Dialect.DialectImpl.
Import ListNotations.

(** ---- the documented tables (hand-written from the documentation, NOT generated) ---- *)
Definition doc_coarse : dialect :=
  {| params := [ {| pname := S "fragname"; pdefault := None; ptype := TStr |};
                 {| pname := S "q"; pdefault := Some (VFlt (S "0.0")); ptype := TFloat |};
                 {| pname := S "w"; pdefault := Some (VFlt (S "1.0")); ptype := TFloat |} ];
     accept_kwargs := true;
     rename := [ (S "q", S "charge"); (S "w", S "weight") ] |}.
Definition doc_atomic : dialect :=
  {| params := [ {| pname := S "w"; pdefault := Some (VFlt (S "1.0")); ptype := TFloat |};
                 {| pname := S "x"; pdefault := None; ptype := TStr |} ];
     accept_kwargs := true;
     rename := [ (S "w", S "weight"); (S "x", S "chiral") ] |}.

Definition pnames (dl : dialect) : list pystr := map pname (params dl).
Definition long_name (dl : dialect) (k : pystr) : pystr := rename_key (rename dl) k.
Definition long_names (dl : dialect) : list pystr := map (long_name dl) (pnames dl).

Definition ptype_eqb (a b : ptype_t) : bool := match a, b with TFloat, TFloat => true | TStr, TStr => true | _, _ => false end.
Definition opt_pyval_eqb (a b : option pyval) : bool :=
  match a, b with Some x, Some y => pyval_eqb x y | None, None => true | _, _ => false end.
Definition param_eqb (p q : param) : bool :=
  str_eqb (pname p) (pname q) && opt_pyval_eqb (pdefault p) (pdefault q) && ptype_eqb (ptype p) (ptype q).
Fixpoint params_eqb (a b : list param) : bool :=
  match a, b with [] , [] => true | p :: a', q :: b' => param_eqb p q && params_eqb a' b' | _, _ => false end.
(** same parameters in the same order with the same defaults and types, same long names, kwargs accepted *)
Definition dialect_agrees (gen doc : dialect) : bool :=
  params_eqb (params gen) (params doc) && Bool.eqb (accept_kwargs gen) (accept_kwargs doc) &&
  forallb (fun k => str_eqb (long_name gen k) (long_name doc k)) (pnames doc).

Fixpoint nodupb (l : list pystr) : bool :=
  match l with [] => true | x :: r => negb (str_in x r) && nodupb r end.
Definition disjointb (a b : list pystr) : bool := forallb (fun x => negb (str_in x b)) a.
(** shape of a dialect for which the renaming loop is the key map used by the model, and for which the
    theorems are stated: parameter names distinct; long names distinct; a new long name is neither
    a parameter name nor an old name; kwargs accepted *)
Definition wf_dialect (dl : dialect) : bool :=
  nodupb (pnames dl) && nodupb (long_names dl) &&
  disjointb (map snd (rename dl)) (pnames dl) && accept_kwargs dl.

(** ---- writings of an annotation ---- *)
Definition entry := (pystr * pystr)%type.
Definition keys (l : list entry) : list pystr := map fst l.
Definition render_kw (kv : entry) : pystr := fst kv ++ "="%char :: snd kv.
Definition sep : pystr := [";"%char].
Definition render (pos : list pystr) (kws : list entry) : pystr := join sep (pos ++ map render_kw kws).

(** general writings: positional and keyword entries interleaved *)
Inductive ent := EPos (v : pystr) | EKw (k v : pystr).
Definition render_ent (e : ent) : pystr := match e with EPos v => v | EKw k v => render_kw (k, v) end.
Definition render_ents (es : list ent) : pystr := join sep (map render_ent es).
Definition pos_of (es : list ent) : list pystr := flat_map (fun e => match e with EPos v => [v] | _ => [] end) es.
Definition kws_of (es : list ent) : list entry := flat_map (fun e => match e with EKw k v => [(k, v)] | _ => [] end) es.

Definition clean (s : pystr) : bool := negb (char_in ";"%char s) && negb (char_in "="%char s).
Definition clean_entry (kv : entry) : bool := clean (fst kv) && clean (snd kv).

(** ---- abstract annotation: [assign] gives values to some reserved keys (short names),
    [free] are the other key/value pairs ---- *)
Definition wf_annot (dl : dialect) (assign free : list entry) : bool :=
  nodupb (keys assign) && forallb (fun k => str_in k (pnames dl)) (keys assign) &&
  nodupb (keys free) && disjointb (keys free) (pnames dl) && disjointb (keys free) (long_names dl) &&
  forallb clean_entry assign && forallb clean_entry free.

(** what the documentation promises for it: None when a reserved numeric value is not a number
    (outside C14's domain; C20 decides those) *)
Fixpoint expected_reserved (fo : float_oracle) (dl : dialect) (ps : list param) (assign : list entry) : option attrs :=
  match ps with
  | [] => Some []
  | p :: r =>
      match expected_reserved fo dl r assign with
      | None => None
      | Some rest =>
          match kw_get (pname p) assign with
          | Some v => match ptype p with
                      | TStr => Some ((long_name dl (pname p), VStr v) :: rest)
                      | TFloat => match fo v with Some x => Some ((long_name dl (pname p), VFlt x) :: rest) | None => None end
                      end
          | None => match pdefault p with Some d => Some ((long_name dl (pname p), d) :: rest) | None => Some rest end
          end
      end
  end.
Definition expected (fo : float_oracle) (dl : dialect) (assign free : list entry) : option attrs :=
  match expected_reserved fo dl (params dl) assign with
  | Some r => Some (free_items free ++ r)
  | None => None
  end.

(** a writing [es] of (assign, free): the positional entries are the values of the first
    parameters, the keyword entries are the remaining assigned keys and the free keys in any order *)
Fixpoint pos_matches (ps : list param) (pos : list pystr) (assign : list entry) : bool :=
  match pos, ps with
  | [], _ => true
  | v :: pos', p :: ps' => match kw_get (pname p) assign with Some v' => str_eqb v v' && pos_matches ps' pos' assign | None => false end
  | _ :: _, [] => false
  end.
Definition entry_eqb (a b : entry) : bool := str_eqb (fst a) (fst b) && str_eqb (snd a) (snd b).
Definition entry_in (a : entry) (l : list entry) : bool := existsb (entry_eqb a) l.
Definition same_entries (a b : list entry) : bool :=
  Nat.eqb (length a) (length b) && forallb (fun x => entry_in x b) a && forallb (fun x => entry_in x a) b.
Definition writing_ok (dl : dialect) (assign free : list entry) (es : list ent) : bool :=
  let pos := pos_of es in
  let firstk := firstn (length pos) (pnames dl) in
  pos_matches (params dl) pos assign &&
  forallb clean pos &&
  same_entries (kws_of es) (filter (fun kv => negb (str_in (fst kv) firstk)) assign ++ free) &&
  negb (match es with [EPos []] => true | _ => false end).

(** ---- equality of results as finite maps ---- *)
Definition attrs_equiv (a b : attrs) : Prop := forall k, aget k a = aget k b.
Definition res_equiv (r r' : res attrs) : Prop :=
  match r, r' with
  | Ok a, Ok b => attrs_equiv a b
  | Err e, Err e' => e = e'
  | _, _ => False
  end.
Definition submapb (a b : attrs) : bool :=
  forallb (fun kv => match aget (fst kv) b with Some v => pyval_eqb v (snd kv) | None => false end) a.
Definition err_eqb (a b : err) : bool :=
  match a, b with
  | ESyntax x, ESyntax y => str_eqb x y
  | EType, EType | EIndex, EIndex | EKey, EKey | EValue, EValue | EUnbound, EUnbound | ELookup, ELookup
  | EIO, EIO | EName, EName | EAttr, EAttr | EAssert, EAssert | EStopIter, EStopIter | EZeroDiv, EZeroDiv
  | ENoReturn, ENoReturn | EOutOfFuel, EOutOfFuel => true
  | _, _ => false
  end.
Definition res_attrs_eqb (r r' : res attrs) : bool :=
  match r, r' with
  | Ok a, Ok b => attrs_eqb a b
  | Err e, Err e' => err_eqb e e'
  | _, _ => false
  end.
Definition is_syntax (r : res attrs) : bool := match r with Err (ESyntax _) => true | _ => false end.
Definition is_type (r : res attrs) : bool := match r with Err EType => true | _ => false end.
