(** MachineFaults: the three reader-level faults of C20 on the token machine [Grammar.m_run] - the machine the
    reader model is PROVED equal to by the reader component (reader_sim_lin / reader_sim_C04 / reader_sim_segs;
    their side conditions [lins_ok] / [wf] / [segs_ok] do NOT ask for balanced rings or valid annotations, so
    faulty strings are inside those theorems) - and, through those theorems, on [ReaderImpl.read_cgsmiles] for
    every string of the documented grammar, with the fault at ANY token position:
      - an annotation the dialect parser refuses: that error;
      - a ring bond closing over an existing edge: "double";
      - a ring index read an odd number of times: never a graph, and "dangling" if nothing else is wrong. *)
From Coq Require Import String.
From Coq Require Import List Ascii ZArith Bool Lia.
From CGV Require Import Base.PyBase Base.PyVal Base.NxGraph Dialect.DialectImpl
     Reader.ReaderImpl Reader.Grammar Reader.Lin Reader.ReaderSim Reader.ReaderCheck Reader.ReaderEnd Reader.ReaderUnit.
Import ListNotations.
Open Scope Z_scope.

Lemma m_run_app fo a : forall b x, m_run fo (a ++ b) x = (x1 <- m_run fo a x ;; m_run fo b x1).
Proof.
  induction a as [|t r IH]; intros b x; cbn [app m_run bind]; [reflexivity|].
  destruct (m_step fo x t); cbn [bind]; [apply IH|reflexivity].
Qed.

(** ** annotation *)
Theorem machine_annotation_error fo pre nm n post x e :
  m_run fo pre m_init = Ok x -> parse_graph_base_node fo nm = Err e ->
  m_finish (m_run fo (pre ++ TNode nm n :: post) m_init) = Err e.
Proof. intros R P. rewrite m_run_app, R. cbn [bind m_run m_step]. rewrite P. reflexivity. Qed.

(** ** duplicate edge *)
Theorem machine_duplicate_rejected fo pre o m post x cur n0 o0 :
  m_run fo pre m_init = Ok x -> m_prev x = Some cur -> rt_get m (m_rings x) = Some (n0, o0) ->
  has_edge (m_g x) cur n0 = true ->
  m_finish (m_run fo (pre ++ TRing o m :: post) m_init) = Err (ESyntax (S "double")).
Proof. intros R P G E. rewrite m_run_app, R. cbn [bind m_run m_step]. rewrite P, G, E. reflexivity. Qed.

(** ** dangling ring index: parity of the ring table *)
Definition rmem (m : Z) (t : ringtab) : bool := match rt_get m t with Some _ => true | None => false end.
Definition is_ring_tok (m : Z) (t : tok) : bool := match t with TRing _ m' => Z.eqb m m' | _ => false end.
Definition ring_occurrences (m : Z) (ts : list tok) : nat := length (filter (is_ring_tok m) ts).

Lemma rt_get_none_notin m t : rt_get m t = None -> ~ In m (map fst t).
Proof.
  induction t as [|[a b] r IH]; cbn; intros G HI; [assumption|].
  destruct (Z.eqb_spec a m) as [->|N]; [discriminate|]. destruct HI as [E|HI]; [congruence|]. now apply IH.
Qed.
Lemma rt_get_notin m t : ~ In m (map fst t) -> rt_get m t = None.
Proof.
  induction t as [|[k v] r IH]; cbn; intros H; [reflexivity|].
  destruct (Z.eqb_spec k m) as [->|N]; [exfalso; apply H; now left|]. apply IH. intros HI; apply H; now right.
Qed.
Lemma rt_get_app m t k v : rt_get m (t ++ [(k, v)]) =
  match rt_get m t with Some x => Some x | None => if Z.eqb k m then Some v else None end.
Proof. induction t as [|[k' v'] r IH]; cbn; [reflexivity|]. destruct (Z.eqb k' m); [reflexivity|exact IH]. Qed.
Lemma rt_del_keys m t x : In x (map fst (rt_del m t)) -> In x (map fst t).
Proof.
  induction t as [|[k v] r IH]; cbn; intros H; [assumption|].
  destruct (Z.eqb k m); [now right|]. cbn in H. destruct H; [now left|right; now apply IH].
Qed.
Lemma rt_del_nodup m t : NoDup (map fst t) -> NoDup (map fst (rt_del m t)).
Proof.
  induction t as [|[k v] r IH]; cbn; intros H; [constructor|]. inversion H as [|? ? Hn Hr]; subst.
  destruct (Z.eqb k m); [assumption|]. cbn. constructor; [|now apply IH]. intros HI. apply Hn. now apply (rt_del_keys m).
Qed.
Lemma rt_get_del_same m t : NoDup (map fst t) -> rt_get m (rt_del m t) = None.
Proof.
  induction t as [|[k v] r IH]; cbn; intros H; [reflexivity|]. inversion H as [|? ? Hn Hr]; subst.
  destruct (Z.eqb_spec k m) as [->|N]; [now apply rt_get_notin|].
  cbn. destruct (Z.eqb_spec k m); [congruence|]. now apply IH.
Qed.
Lemma rt_get_del_other m m' t : m <> m' -> rt_get m (rt_del m' t) = rt_get m t.
Proof.
  intros N. induction t as [|[k v] r IH]; cbn; [reflexivity|].
  destruct (Z.eqb_spec k m') as [->|N2].
  - destruct (Z.eqb_spec m' m); [congruence|reflexivity].
  - cbn. destruct (Z.eqb k m); [reflexivity|exact IH].
Qed.
Lemma nodup_snoc {A} (l : list A) x : NoDup l -> ~ In x l -> NoDup (l ++ [x]).
Proof.
  induction l as [|y r IH]; cbn; intros ND H; [repeat constructor; intros []|].
  inversion ND as [|? ? Hn Hr]; subst. constructor.
  - intros HI. apply in_app_or in HI. destruct HI as [HI|[->|[]]]; [contradiction|]. apply H. now left.
  - apply IH; [assumption|]. intros HI. apply H. now right.
Qed.

Lemma m_step_rings fo m x t x' : m_step fo x t = Ok x' -> NoDup (map fst (m_rings x)) ->
  NoDup (map fst (m_rings x')) /\ rmem m (m_rings x') = xorb (rmem m (m_rings x)) (is_ring_tok m t).
Proof.
  intros H ND. destruct t as [nm n|o m'|s| |]; cbn [m_step is_ring_tok] in *.
  - destruct (parse_graph_base_node fo nm) as [a|]; cbn [bind] in H; [|discriminate].
    destruct (m_copies n a (m_g x) (m_next x) (m_prev x) (m_pend x)) as [[g' nx] pv]. inversion H; subst; cbn.
    split; [assumption|now rewrite xorb_false_r].
  - destruct (m_prev x) as [cur|]; [|discriminate]. destruct (rt_get m' (m_rings x)) as [[n0 o0]|] eqn:G.
    + destruct (has_edge (m_g x) cur n0); [discriminate|]. inversion H; subst; cbn. split; [now apply rt_del_nodup|].
      unfold rmem. destruct (Z.eqb_spec m m') as [->|N].
      * rewrite rt_get_del_same by assumption. now rewrite G.
      * rewrite rt_get_del_other by assumption. now rewrite xorb_false_r.
    + inversion H; subst; cbn. split.
      * rewrite map_app. cbn. apply nodup_snoc; [assumption|now apply rt_get_none_notin].
      * unfold rmem. rewrite rt_get_app. destruct (Z.eqb_spec m m') as [->|N].
        -- rewrite G. now rewrite Z.eqb_refl.
        -- destruct (rt_get m (m_rings x)); [reflexivity|]. destruct (Z.eqb_spec m' m); [congruence|reflexivity].
  - inversion H; subst; cbn. split; [assumption|now rewrite xorb_false_r].
  - inversion H; subst; cbn. split; [assumption|now rewrite xorb_false_r].
  - destruct (m_stack x); [discriminate|]. inversion H; subst; cbn. split; [assumption|now rewrite xorb_false_r].
Qed.
Lemma m_run_rings fo m ts : forall x x', m_run fo ts x = Ok x' -> NoDup (map fst (m_rings x)) ->
  NoDup (map fst (m_rings x')) /\ rmem m (m_rings x') = xorb (rmem m (m_rings x)) (Nat.odd (ring_occurrences m ts)).
Proof.
  induction ts as [|t r IH]; intros x x' H ND; cbn [m_run] in H.
  - inversion H; subst. split; [assumption|]. cbn. now rewrite xorb_false_r.
  - destruct (m_step fo x t) as [x1|] eqn:E; cbn [bind] in H; [|discriminate].
    destruct (m_step_rings fo m _ _ _ E ND) as [ND1 M1]. destruct (IH _ _ H ND1) as [ND2 M2].
    split; [assumption|]. rewrite M2, M1. unfold ring_occurrences. cbn [filter].
    destruct (is_ring_tok m t); cbn [length].
    + rewrite Nat.odd_succ, <- Nat.negb_odd. fold (ring_occurrences m r).
      destruct (rmem m (m_rings x)), (Nat.odd (ring_occurrences m r)); reflexivity.
    + now rewrite xorb_false_r.
Qed.
(** a ring index written an odd number of times: no graph, whatever else the tokens are; and the dangling-ring
    SyntaxError as soon as the run itself succeeds *)
Theorem machine_dangling_rejected fo m ts : Nat.odd (ring_occurrences m ts) = true ->
  (forall g, m_finish (m_run fo ts m_init) <> Ok g) /\
  (forall x, m_run fo ts m_init = Ok x -> m_finish (m_run fo ts m_init) = Err (ESyntax (S "dangling"))).
Proof.
  intros Ho.
  assert (K : forall x, m_run fo ts m_init = Ok x -> m_rings x <> []).
  { intros x R. destruct (m_run_rings fo m ts m_init x R) as [_ M]; [constructor|]. rewrite Ho in M. cbn in M.
    unfold rmem in M. destruct (m_rings x); [discriminate|discriminate]. }
  split.
  - intros g. unfold m_finish. destruct (m_run fo ts m_init) as [x|] eqn:R; cbn [bind]; [|discriminate].
    specialize (K x eq_refl). destruct (m_rings x); [contradiction|discriminate].
  - intros x R. unfold m_finish. rewrite R. cbn [bind]. specialize (K x R). destruct (m_rings x); [contradiction|reflexivity].
Qed.

(** ** the same for ReaderImpl.read_cgsmiles on the documented grammar *)
Section Transfer.
  Variables (fo : float_oracle) (braces : bool) (a : chain).
  Hypotheses (W : wf fo a = true) (B : has_branch_mult a = false) (C : class_C04 braces a = 0%nat).
  Let ts := toks (expand_branches a).
  Lemma read_is_machine : read_cgsmiles fo (print braces a) = m_finish (m_run fo ts m_init).
  Proof. rewrite (reader_sim_C04 fo braces a W B C). reflexivity. Qed.

  Theorem grammar_annotation_error pre nm n post x e : ts = pre ++ TNode nm n :: post ->
    m_run fo pre m_init = Ok x -> parse_graph_base_node fo nm = Err e ->
    read_cgsmiles fo (print braces a) = Err e.
  Proof. intros E R P. rewrite read_is_machine, E. now apply (machine_annotation_error fo pre nm n post x). Qed.
  Theorem grammar_duplicate_rejected pre o m post x cur n0 o0 : ts = pre ++ TRing o m :: post ->
    m_run fo pre m_init = Ok x -> m_prev x = Some cur -> rt_get m (m_rings x) = Some (n0, o0) ->
    has_edge (m_g x) cur n0 = true ->
    read_cgsmiles fo (print braces a) = Err (ESyntax (S "double")).
  Proof. intros E R P G H. rewrite read_is_machine, E. now apply (machine_duplicate_rejected fo pre o m post x cur n0 o0). Qed.
  Theorem grammar_dangling_rejected m : Nat.odd (ring_occurrences m ts) = true ->
    (forall g, read_cgsmiles fo (print braces a) <> Ok g) /\
    (forall x, m_run fo ts m_init = Ok x -> read_cgsmiles fo (print braces a) = Err (ESyntax (S "dangling"))).
  Proof. intros Ho. rewrite read_is_machine. now apply (machine_dangling_rejected fo m). Qed.
End Transfer.

(** flat strings and strings with branch multipliers: the reader model is the machine on their tokens, so the
    three machine theorems apply verbatim *)
Theorem flat_read_is_machine fo l : lins_ok fo l = true ->
  read_cgsmiles fo ("{"%char :: lins_str l ++ ["}"%char]) = m_finish (m_run fo (lins_toks l) m_init).
Proof. intros H. now rewrite (reader_sim_lin fo l H). Qed.
Theorem units_read_is_machine fo l : segs_ok fo l = true ->
  read_cgsmiles fo ("{"%char :: segs_str l ++ ["}"%char]) = m_finish (m_run fo (segs_toks l) m_init).
Proof. intros H. now rewrite (reader_sim_segs fo l H). Qed.

(** non-vacuity: the unclosed ring 7 deep inside a branch of a grammar string; [#C;q=x=y] as a faulty node *)
Example grammar_faults_example :
  let fo := fo_of_table [] in
  let a := [Item (S "A") [(None, MDigit 1)] None None [Branch [Item (S "B") [(None, MDigit 7)] None None []] None None];
            Item (S "C;q=x=y") [(None, MDigit 1)] None None []] in
  wf fo a = true /\ has_branch_mult a = false /\ class_C04 true a = 0%nat /\
  Nat.odd (ring_occurrences 7 (toks (expand_branches a))) = true /\
  read_cgsmiles fo (print true a) = Err (ESyntax (S "toomany_eq")).
Proof. repeat split; vm_compute; reflexivity. Qed.
