(** BaseAnnotUnits: [BaseAnnot] for strings with BRANCH MULTIPLIERS (the reader component's C05 theorem
    ReaderUnit.reader_sim_segs: units "anchor(branch)|n" at top level): every node of every copy of a multiplied
    unit carries exactly parse_graph_base_node of its text - [segs_toks] is the LONGHAND token list, so a node
    inside a unit written once appears there once per copy. *)
From Coq Require Import String.
From Coq Require Import List Ascii ZArith Bool Lia.
From CGV Require Import Base.PyBase Base.PyVal Base.NxGraph Dialect.DialectImpl
     Reader.ReaderImpl Reader.Grammar Reader.Lin Reader.ReaderUnit Dialect.MachineAnnot Dialect.BaseAnnot.
Import ListNotations.
Open Scope Z_scope.

Theorem base_annotation_units fo l g : segs_ok fo l = true ->
  read_cgsmiles fo ("{"%char :: segs_str l ++ ["}"%char]) = Ok g -> annotated_as fo g (node_texts (segs_toks l)).
Proof. intros Hok H. rewrite (reader_sim_segs fo l Hok) in H. now apply finish_annotations. Qed.

(** non-vacuity, and what "per copy" means: {[#A;q=1;foo=bar]([#B;w=2]|2)|3} - the token list names the anchor's
    FULL text once per copy, so copies 2..n of an annotated anchor carry its charge / free keys too (node 3 and
    node 6 below), not the attributes of the bare name *)
Example base_annotation_units_example :
  let fo := fo_of_table [(S "1", Some (S "1.0")); (S "2", Some (S "2.0"))] in
  let u := {| u_name := S "A;q=1;foo=bar"; u_mult := None; u_bond := None;
              u_body := [{| bn_name := S "B;w=2"; bn_mult := Some [2%nat]; bn_bond := None |}];
              u_ms := None; u_count := [3%nat]; u_after := None |} in
  segs_ok fo [SUnit u] = true /\
  segs_str [SUnit u] = S "[#A;q=1;foo=bar]([#B;w=2]|2)|3" /\
  node_texts (segs_toks [SUnit u]) =
    [S "A;q=1;foo=bar"; S "B;w=2"; S "B;w=2"; S "A;q=1;foo=bar"; S "B;w=2"; S "B;w=2"; S "A;q=1;foo=bar"; S "B;w=2"; S "B;w=2"] /\
  exists g, read_cgsmiles fo ("{"%char :: segs_str [SUnit u] ++ ["}"%char]) = Ok g /\
            node_get g 3 (S "charge") = Some (VFlt (S "1.0")) /\ node_get g 6 (S "foo") = Some (VStr (S "bar")).
Proof. repeat split; try (vm_compute; reflexivity). eexists. repeat split; vm_compute; reflexivity. Qed.
