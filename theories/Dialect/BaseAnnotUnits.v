(** BaseAnnotUnits: [BaseAnnot] for strings with BRANCH MULTIPLIERS (the reader component's C05 theorem
    ReaderUnit.reader_sim_segs: units "anchor(branch)|n" at top level): every node of every copy of a multiplied
    unit carries exactly parse_graph_base_node of its text - [segs_toks] is the LONGHAND token list, so a node
    inside a unit written once appears there once per copy. *)
From Coq Require Import String.
From Coq Require Import List Ascii ZArith Bool Lia.
From CGV Require Import Base.PyBase Base.PyVal Base.NxGraph Dialect.DialectImpl
     Reader.ReaderImpl Reader.Grammar Reader.Lin Reader.ReaderUnit Dialect.MachineAnnot Dialect.BaseAnnot.
Import ListNotations.
Open Scope Z_scope.

Theorem base_annotation_units fo l g : segs_ok fo l = true ->
  read_cgsmiles fo ("{"%char :: segs_str l ++ ["}"%char]) = Ok g -> annotated_as fo g (node_texts (segs_toks l)).
Proof. intros Hok H. rewrite (reader_sim_segs fo l Hok) in H. now apply finish_annotations. Qed.
