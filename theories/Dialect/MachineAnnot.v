(** MachineAnnot: an annotation on a base-graph node stays on that node (token machine and resolver part;
    the reader part is Dialect/BaseAnnot.v).
    Over the reader component's models (imported, not edited): the token machine [Grammar.m_run] that
    the reader model is proved equal to (Reader/ReaderSim.reader_sim_lin for flat strings,
    ReaderEnd.reader_sim_C04 for the documented grammar without branch multipliers,
    ReaderUnit.reader_sim_segs for branch multipliers), and the resolver's [Pipeline.resolve_step].
      1. [machine_annotations]: after ANY token run the graph has the node keys 0..n-1 and node i carries
         EXACTLY parse_graph_base_node(text of the i-th node in order of appearance), a multiplied node
         counting once per copy - so inside branches, after ring bonds, for every copy;
      2. the same for what [ReaderImpl.read_cgsmiles] returns, in the three domains above;
      3. resolve() returns that graph as the coarse graph with only `fragname` possibly rewritten (from
         an `atomname` attribute): every other attribute of every node stays. *)
From Coq Require Import String.
From Coq Require Import List Ascii ZArith Bool Lia.
From CGV Require Import Base.PyBase Base.PyVal Base.NxGraph Dialect.DialectImpl Reader.Grammar
     Resolve.Bonding Resolve.GraphOps Resolve.Pipeline Resolve.MapProofs Resolve.CopyProofs.
Import ListNotations.
Open Scope Z_scope.

(** the node texts of a token list in order of appearance, one per copy *)
Definition node_texts (ts : list tok) : list pystr :=
  flat_map (fun t => match t with TNode nm n => repeat nm n | _ => [] end) ts.
Definition zseq (n : nat) : list Z := map Z.of_nat (seq 0 n).

Lemma zseq_S n : zseq (Datatypes.S n) = zseq n ++ [Z.of_nat n].
Proof. unfold zseq. rewrite seq_S, map_app. reflexivity. Qed.
Lemma in_zseq k n : In k (zseq n) <-> 0 <= k < Z.of_nat n.
Proof.
  unfold zseq. rewrite in_map_iff. split.
  - intros [i [<- Hi]]. apply in_seq in Hi. lia.
  - intros H. exists (Z.to_nat k). split; [lia|]. apply in_seq. lia.
Qed.

Definition ptr_ok (n : nat) (o : option Z) : Prop := forall p, o = Some p -> 0 <= p < Z.of_nat n.
Record minv (fo : float_oracle) (x : mstate) (As : list attrs) : Prop := {
  mi_keys : node_keys (m_g x) = zseq (length As);
  mi_attrs : forall i a, nth_error As i = Some a -> node_attrs (m_g x) (Z.of_nat i) = Ok a;
  mi_next : m_next x = Z.of_nat (length As);
  mi_prev : ptr_ok (length As) (m_prev x);
  mi_stack : Forall (ptr_ok (length As)) (m_stack x);
  mi_rings : Forall (fun e => 0 <= fst (snd e) < Z.of_nat (length As)) (m_rings x) }.

Lemma has_of_range g n k : node_keys g = zseq n -> 0 <= k < Z.of_nat n -> has_node g k = true.
Proof. intros K H. apply gfind_has. rewrite K. now apply in_zseq. Qed.
Lemma fresh_of_range g n : node_keys g = zseq n -> has_node g (Z.of_nat n) = false.
Proof.
  intros K. destruct (has_node g (Z.of_nat n)) eqn:E; [|reflexivity]. apply gfind_has in E. rewrite K in E.
  apply in_zseq in E. lia.
Qed.
Lemma ptr_ok_mono n m o : (n <= m)%nat -> ptr_ok n o -> ptr_ok m o.
Proof. intros L H p E. specialize (H p E). lia. Qed.

(** the copies of one node token *)
Lemma m_copies_inv k : forall a g next prev pend (As : list attrs) g' next' prev',
  node_keys g = zseq (length As) ->
  (forall i b, nth_error As i = Some b -> node_attrs g (Z.of_nat i) = Ok b) ->
  next = Z.of_nat (length As) -> ptr_ok (length As) prev ->
  m_copies k a g next prev pend = (g', next', prev') ->
  let As' := As ++ repeat a k in
  node_keys g' = zseq (length As') /\
  (forall i b, nth_error As' i = Some b -> node_attrs g' (Z.of_nat i) = Ok b) /\
  next' = Z.of_nat (length As') /\ ptr_ok (length As') prev'.
Proof.
  induction k as [|k IH]; intros a g next prev pend As g' next' prev' K A N P H; cbn [m_copies] in H.
  - inversion H; subst. cbn [repeat]. rewrite app_nil_r. auto.
  - set (g1 := add_node g next a) in *.
    set (g2 := match prev with Some p => add_edge g1 p next (eorder pend) | None => g1 end) in *.
    pose proof (fresh_of_range g _ K) as Fr. rewrite <- N in Fr.
    assert (K1 : node_keys g1 = zseq (length (As ++ [a]))).
    { unfold g1. rewrite keys_add_node, Fr, K, app_length. cbn [length]. rewrite Nat.add_1_r, zseq_S. now rewrite N. }
    assert (A1 : forall i b, nth_error (As ++ [a]) i = Some b -> node_attrs g1 (Z.of_nat i) = Ok b).
    { intros i b Hi. destruct (Nat.lt_ge_cases i (length As)) as [L|L].
      - rewrite nth_error_app1 in Hi by exact L. unfold g1. rewrite attrs_add_node_other by lia. now apply A.
      - rewrite nth_error_app2 in Hi by exact L. destruct (i - length As)%nat as [|j] eqn:Ej; [|destruct j; discriminate].
        cbn in Hi. inversion Hi; subst b. assert (i = length As) by lia. subst i. unfold g1. rewrite <- N. now apply attrs_add_node_same. }
    assert (K2 : node_keys g2 = node_keys g1 /\ forall j, node_attrs g2 j = node_attrs g1 j).
    { unfold g2. destruct prev as [p|]; [|auto].
      assert (Hp : has_node g1 p = true).
      { apply (has_of_range g1 _ p K1). specialize (P p eq_refl). rewrite app_length. cbn. lia. }
      assert (Hn : has_node g1 next = true).
      { apply (has_of_range g1 _ next K1). rewrite app_length. cbn. lia. }
      split; [now apply keys_add_edge_in|intros j; now apply attrs_add_edge]. }
    destruct K2 as [K2 A2].
    specialize (IH a g2 (next + 1) (Some next) 1 (As ++ [a]) g' next' prev').
    rewrite <- app_assoc in IH. cbn [app] in IH. change (a :: repeat a k) with (repeat a (Datatypes.S k)) in IH.
    apply IH; auto.
    + now rewrite K2.
    + intros i b Hi. rewrite A2. now apply A1.
    + rewrite app_length. cbn. lia.
    + intros p E. inversion E; subst p. rewrite app_length. cbn. lia.
Qed.

Lemma m_step_inv fo x t x' As : minv fo x As -> m_step fo x t = Ok x' ->
  exists As', minv fo x' (As ++ As') /\
    Forall2 (fun a nm => parse_graph_base_node fo nm = Ok a) As' (node_texts [t]).
Proof.
  intros I H. destruct I as [K A N P St R]. destruct t as [nm n|o m|s| |]; cbn [m_step] in H.
  - destruct (parse_graph_base_node fo nm) as [a|] eqn:Ep; cbn [bind] in H; [|discriminate].
    destruct (m_copies n a (m_g x) (m_next x) (m_prev x) (m_pend x)) as [[g' nx] pv] eqn:Ec.
    inversion H; subst x'. clear H.
    destruct (m_copies_inv n a _ _ _ _ As g' nx pv K A N P Ec) as (K' & A' & N' & P').
    exists (repeat a n). split.
    + constructor; cbn; auto.
      * eapply Forall_impl; [|exact St]. intros o. apply ptr_ok_mono. rewrite app_length. lia.
      * eapply Forall_impl; [|exact R]. intros e He. cbn beta in *. rewrite app_length. lia.
    + cbn [node_texts flat_map]. rewrite app_nil_r. clear -Ep. induction n; cbn; constructor; auto.
  - destruct (m_prev x) as [cur|] eqn:Ecur; [|discriminate].
    exists []. rewrite app_nil_r. split; [|constructor].
    destruct (rt_get m (m_rings x)) as [[n0 o0]|] eqn:Eg.
    + destruct (has_edge (m_g x) cur n0); [discriminate|]. inversion H; subst x'. clear H.
      assert (Hn0 : 0 <= n0 < Z.of_nat (length As)).
      { clear -R Eg. induction (m_rings x) as [|[k v] r IH]; cbn in Eg; [discriminate|]. inversion R; subst.
        destruct (Z.eqb k m); [inversion Eg; subst; cbn in *; assumption|now apply IH]. }
      assert (Hc : has_node (m_g x) cur = true) by (apply (has_of_range _ _ _ K); now apply P).
      assert (Hh : has_node (m_g x) n0 = true) by now apply (has_of_range _ _ _ K).
      constructor; cbn [m_g m_next m_prev m_stack m_rings].
      * now rewrite keys_add_edge_in.
      * intros i a Hi. rewrite attrs_add_edge by assumption. now apply A.
      * exact N.
      * first [exact P | rewrite Ecur; exact P].
      * exact St.
      * clear -R. induction (m_rings x) as [|[k v] r IH]; cbn; [constructor|]. inversion R; subst.
        destruct (Z.eqb k m); [assumption|constructor; auto].
    + inversion H; subst x'. clear H. constructor; cbn [m_g m_next m_prev m_stack m_rings]; auto.
      apply Forall_app. split; [exact R|]. constructor; [|constructor]. cbn. now apply P.
  - inversion H; subst x'. exists []. rewrite app_nil_r. split; [constructor; cbn; auto|constructor].
  - inversion H; subst x'. exists []. rewrite app_nil_r. split; [constructor; cbn; auto|constructor].
  - destruct (m_stack x) as [|a st] eqn:Es; [discriminate|]. inversion H; subst x'.
    exists []. rewrite app_nil_r. inversion St; subst. split; [constructor; cbn; auto|constructor].
Qed.

Lemma node_texts_cons t ts : node_texts (t :: ts) = node_texts [t] ++ node_texts ts.
Proof. unfold node_texts. cbn [flat_map]. now rewrite app_nil_r. Qed.
Lemma m_run_inv fo ts : forall x x' As, minv fo x As -> m_run fo ts x = Ok x' ->
  exists As', minv fo x' (As ++ As') /\ Forall2 (fun a nm => parse_graph_base_node fo nm = Ok a) As' (node_texts ts).
Proof.
  induction ts as [|t r IH]; intros x x' As I H; cbn [m_run] in H.
  - inversion H; subst. exists []. rewrite app_nil_r. split; [exact I|constructor].
  - destruct (m_step fo x t) as [x1|] eqn:E; cbn [bind] in H; [|discriminate].
    destruct (m_step_inv fo x t x1 As I E) as [A1 [I1 F1]].
    destruct (IH x1 x' (As ++ A1) I1 H) as [A2 [I2 F2]].
    exists (A1 ++ A2). rewrite app_assoc. split; [exact I2|]. rewrite node_texts_cons. now apply Forall2_app.
Qed.
Lemma minv_init fo : minv fo m_init [].
Proof.
  constructor; cbn.
  - reflexivity.
  - intros i a Hi; destruct i; discriminate.
  - reflexivity.
  - intros q Hq; discriminate.
  - constructor.
  - constructor.
Qed.

Lemma forall2_len {A B} (R : A -> B -> Prop) l m : Forall2 R l m -> length l = length m.
Proof. induction 1; cbn; congruence. Qed.
Lemma forall2_nth {A B} (R : A -> B -> Prop) l m : Forall2 R l m ->
  forall i b, nth_error m i = Some b -> exists a, nth_error l i = Some a /\ R a b.
Proof.
  induction 1 as [|x y l m Hxy F IH]; intros i b Hi; [destruct i; discriminate|].
  destruct i as [|i]; cbn in Hi; [inversion Hi; subst; exists x; auto|now apply IH].
Qed.

(** 1. the token machine *)
Theorem machine_annotations fo ts x : m_run fo ts m_init = Ok x ->
  node_keys (m_g x) = zseq (length (node_texts ts)) /\
  forall i nm, nth_error (node_texts ts) i = Some nm ->
    exists a, parse_graph_base_node fo nm = Ok a /\ node_attrs (m_g x) (Z.of_nat i) = Ok a.
Proof.
  intros H. destruct (m_run_inv fo ts m_init x [] (minv_init fo) H) as [As [I F]]. cbn [app] in I.
  destruct I as [K A _ _ _ _]. split; [now rewrite K, (forall2_len _ _ _ F)|].
  intros i nm Hi. destruct (forall2_nth _ _ _ F i nm Hi) as [a [Ha Hp]]. exists a. split; [exact Hp|now apply A].
Qed.

(** 3. the coarse graph returned by resolve(): the previous molecule with `fragname := atomname` for the
    nodes that carry an atomname; nothing else of any node changes *)
Lemma set_nodes_from_other a d : forall g k, ~ In k (map fst d) -> node_attrs (set_nodes_from g a d) k = node_attrs g k.
Proof.
  unfold set_nodes_from. induction d as [|[k' v] r IH]; intros g k H; cbn [fold_left]; [reflexivity|].
  rewrite IH by (intros HI; apply H; now right). cbn [fst snd]. apply attrs_set_other. intros E. apply H. now left.
Qed.
Lemma resolve_step_meta legacy aa fd prev tr so : resolve_step legacy aa fd prev tr = Ok so ->
  so_meta so = set_nodes_from prev (S "fragname") (get_node_attributes prev (S "atomname")).
Proof.
  unfold resolve_step. set (meta := set_nodes_from prev (S "fragname") (get_node_attributes prev (S "atomname"))).
  destruct (resolve_disconnected fd meta) as [[m1 fg1]|]; cbn [bind]; [|discriminate].
  destruct (bonding_step legacy aa meta m1 fg1) as [[m2 fg2]|]; cbn [bind]; [|discriminate].
  match goal with |- (bind ?m _ = _ -> _) => destruct m as [m3|] end; cbn [bind]; [|discriminate].
  match goal with |- (bind ?m _ = _ -> _) => destruct m as [m4|] end; cbn [bind]; [|discriminate].
  destruct (sort_nodes_by_attr m4) as [m5|]; cbn [bind]; [|discriminate].
  match goal with |- (bind ?m _ = _ -> _) => destruct m as [m6|] end; cbn [bind]; [|discriminate].
  destruct (annotate_fragments meta m6) as [fgs|]; cbn [bind]; [|discriminate].
  match goal with |- (bind ?m _ = _ -> _) => destruct m as [[m7 fgs']|] end; cbn [bind]; [|discriminate].
  intros H. injection H as <-. reflexivity.
Qed.
Theorem coarse_graph_keeps_annotation legacy aa fd prev tr so k a :
  resolve_step legacy aa fd prev tr = Ok so -> NoDup (node_keys prev) ->
  node_attrs prev k = Ok a -> aget (S "atomname") a = None ->
  node_attrs (so_meta so) k = Ok a.
Proof.
  intros H ND Hk Ha. rewrite (resolve_step_meta _ _ _ _ _ _ H). rewrite set_nodes_from_other; [exact Hk|].
  intros HI. apply in_map_iff in HI. destruct HI as [[k' v] [E HI]]. cbn in E. subst k'.
  apply gna_in in HI. destruct HI as [r [Hr [Hn Hv]]]. pose proof (gfind_in prev ND r Hr) as G. rewrite Hn in G.
  unfold node_attrs in Hk. rewrite G in Hk. inversion Hk; subst a. congruence.
Qed.
(** what the reader returns has distinct node keys *)
Lemma zseq_nodup n : NoDup (zseq n).
Proof.
  unfold zseq. apply FinFun.Injective_map_NoDup; [intros a b E; lia|apply seq_NoDup].
Qed.
