(** ReturnedCoarse: [ReturnedAnnot] for a COARSE resolution step (last_all_atom = False, or any level but the last):
    the fragment "atoms" are coarse nodes; no hydrogen completion, no E/Z annotation, no atom names.  Every copy of
    template node i in the graph resolve() returns has exactly the template node's value under every key but
    fragid / mapping / ez_isomer_atoms / hcount - at coarse-fragment level as at atomistic level. *)
From Coq Require Import String.
From Coq Require Import List Ascii ZArith Bool Lia Permutation.
From CGV Require Import Base.PyBase Base.PyVal Base.NxGraph Resolve.Bonding Resolve.GraphOps Resolve.MapProofs Resolve.CopyProofs
     Hydro.GraphLemmas Hydro.SquashDefs Hydro.HydroDefs Resolve.Pipeline Resolve.PipelineFull.
From CGV Require Hydro.Hydrogens Hydro.Squash Resolve.SortGraphProofs.
From CGV Require Import Compose.GraphAdj Compose.CutModel Compose.CutPos Compose.CutTables Compose.CutDisc Compose.CutSkeleton Compose.CutWf
     Compose.CutHydrogens Compose.CutSorted Compose.LayeredStep.
From CGV Require Import Dialect.CopyAnnot Dialect.ReturnedAnnot Dialect.ReturnedExample.
Import ListNotations.
Open Scope Z_scope.

Theorem annotation_reaches_returned_graph_coarse C (W : wf_cut C) fd (HT : templates_ok C fd) (Hwfd : wf_dict fd)
  B (HB : is_base C B) prev car fo :
  meta_of prev = B -> resolve_step_full true false fd prev car = Ok fo ->
  exists m, sort_mapping (fo_m3 fo) = Ok m /\ SortGraphProofs.inj_on (map_get m) (node_keys (fo_m3 fo)) /\
    forall p name xs T i x n key,
      nth_error (c_parts C) p = Some (name, xs) -> fd_get name fd = Some T ->
      nth_error xs i = Some x -> gfind (Z.of_nat i) T = Some n -> carried_key key ->
      node_get (fo_mol fo) (map_get m (phi C x)) key = aget key (na n).
Proof.
  intros HM H.
  destruct (cut_bonding_skeleton C W fd HT B HB false) as (m1 & fg1 & m2 & fg2 & R & Bn & Sk); [discriminate|].
  assert (Adj : adj_nodup m2) by (eapply adj_nodup_bonding; [eapply adj_nodup_disconnected; exact R|exact Bn]).
  pose proof (cut_skeleton_wf C W false m2 Sk) as Wf2.
  unfold resolve_step_full in H. fold (meta_of prev) in H. rewrite HM, R in H. cbn [bind] in H. rewrite Bn in H. cbn [bind] in H.
  rewrite (squash_identity_any C false m2 W Sk Adj) in H. cbn [bind] in H.
  destruct (sort_nodes_by_attr m2) as [m5|] eqn:E5; cbn [bind] in H; [|discriminate].
  destruct (annotate_fragments B m5) as [fgs|]; cbn [bind] in H; [|discriminate].
  injection H as <-. cbn [fo_m3 fo_mol].
  assert (Fid : map fst (get_node_attributes m2 (S "fragid")) = node_keys m2).
  { apply gna_all_keys. intros nd Hin. pose proof (gfind_in m2 (wf_nodup _ Wf2) nd Hin) as G.
    assert (Hk : has_node m2 (nk nd) = true) by (unfold has_node; now rewrite G).
    destruct (sk_onto C W false m2 Sk _ Hk) as (x & Fx & Ex). destruct (sk_attrs _ _ _ Sk x Fx) as (F & _).
    rewrite Ex in F. unfold node_get in F. rewrite G in F. rewrite F. discriminate. }
  destruct (SortGraphProofs.sort_graph m2 m5 Wf2 Fid E5) as (m & Em & Inj & _ & _ & _ & A5).
  exists m. split; [exact Em|]. split; [exact Inj|].
  intros p name xs T i x n key Ep Ef Ex Gn (K1 & K2 & K3 & K4).
  destruct (disconnected_copy_exact C W fd HT Hwfd B HB m1 fg1 p name xs T i x n key R Ep Ef Ex Gn (conj K1 (conj K2 K3))) as [H1 V1].
  destruct (bonding_keeps_annotation true false B m1 fg1 m2 fg2 Bn _ H1) as [H2 V2].
  rewrite (A5 _ key (proj1 (gfind_has m2 _) H2) K3), (V2 key K4). exact V1.
Qed.

(** non-vacuity: the coarse step of the example of [ReturnedExample] returns; the two copies of node 1 (keys 1 and 3) carry
    weight 0.5, chiral R and k = v, the two copies of node 0 (keys 0 and 2) the default weight and neither chiral nor k *)
Example returned_coarse_example :
  match resolve_step_full true false exA_fd (base_of exA) None with
  | Ok fo => node_keys (fo_mol fo) = [0; 1; 2; 3] /\
      map (fun k => (node_get (fo_mol fo) k (S "weight"), node_get (fo_mol fo) k (S "chiral"), node_get (fo_mol fo) k (S "k"))) [0; 1; 2; 3]
      = [(Some (VInt 1), None, None); (Some (VFlt (S "0.5")), Some (VStr (S "R")), Some (VStr (S "v")));
         (Some (VInt 1), None, None); (Some (VFlt (S "0.5")), Some (VStr (S "R")), Some (VStr (S "v")))]
  | Err _ => False
  end.
Proof. vm_compute. split; reflexivity. Qed.
