(** TextAnnot: from the TEXT of a fragment definition to the graph resolve() returns.
    An annotation written on the i-th atom token of fragment `name` (i = number of atom tokens before it) reaches
    attribute `key` = v of EVERY copy of that atom in the returned all-atom graph, and an atom of the fragment whose own
    token carries no such key (and for which pysmiles sets none) does not have it on any copy.  Chain:
      strip_bonding_descriptors on the text          Frag/StripImpl.v, through the strip component's strip_correct
      read_fragment_smiles' post-processing          Hydro/Fragments.read_fragment_post on the transcript [g0] of
                                                     pysmiles.read_smiles(clean text) (third-party: only "atom i is node i")
      one all-atom resolve()                         Resolve/PipelineFull.resolve_step_full over Compose's cut model, any
                                                     aromaticity transcript Hydro's contract admits.
    (Frag/Template.v models the same attribute layering from the text alone, without the hydrogen steps:
    [C13_template_of_render]; its node i carries the same annotation dict, see [frag_template_node_annotation].) *)
From Coq Require Import String.
From Coq Require Import List Ascii ZArith Bool Lia Permutation.
From CGV Require Import Base.PyBase Base.PyVal Base.NxGraph Dialect.DialectImpl Dialect.DialectDefs Dialect.DialectProofs
     Frag.NDict Frag.StripImpl Frag.FragText Frag.FragProofs Hydro.Fragments Hydro.SquashDefs Hydro.HydroDefs
     Resolve.Bonding Resolve.GraphOps Resolve.CopyProofs Resolve.Pipeline Resolve.PipelineFull Compose.CutModel.
From CGV Require Hydro.Hydrogens Resolve.SortGraphProofs.
From CGV Require Import Dialect.FragAnnot Dialect.TemplateAnnot Dialect.CopyAnnot Dialect.ReturnedAnnot Dialect.ReturnedCar.
Import ListNotations.
Open Scope Z_scope.

Definition ann_list (ann : ndict attrs) : list (Z * attrs) := map (fun kv => (Z.of_nat (fst kv), snd kv)) ann.
Lemma ann_list_nodup ann : NoDup (map fst ann) -> NoDup (map fst (ann_list ann)).
Proof.
  unfold ann_list. rewrite map_map. cbn [fst]. intros ND. rewrite <- (map_map fst Z.of_nat).
  apply FinFun.Injective_map_NoDup; [intros a b E; lia|exact ND].
Qed.
Lemma ann_list_zassoc ann i : NoDup (map fst ann) -> zassoc (Z.of_nat i) (ann_list ann) = nd_get i ann.
Proof.
  intros _. unfold ann_list. induction ann as [|[k a] r IH]; cbn; [reflexivity|].
  destruct (Nat.eqb_spec i k) as [->|N]; [now rewrite Z.eqb_refl|]. destruct (Z.eqb_spec (Z.of_nat i) (Z.of_nat k)); [lia|exact IH].
Qed.

Section Text.
  Variable fo : float_oracle.
  Variables (name : pystr) (toks : list tok) (dc : decor).
  Hypothesis Wt : FragText.wf toks dc = true.
  Hypothesis Xt : excluded toks dc = false.
  Variables (clean : pystr) (desc : ndict (list pystr)) (ez : ndict ascii) (ann : ndict attrs).
  Hypothesis Strip : strip_bonding_descriptors fo (FragText.render (decorate toks dc)) = Ok (clean, desc, ez, ann).
  (** pysmiles.read_smiles(clean) as a transcript, and the rest of read_fragment_smiles on it *)
  Variables (g0 : graph) (bonding ezl : list (Z * pyval)) (T : graph).
  Hypothesis G0 : NoDup (node_keys g0).
  Hypothesis Post : read_fragment_post g0 name bonding ezl (ann_list ann) = Ok T.

  Lemma ann_dicts : forall i a, In (i, a) (ann_list ann) -> NoDup (map fst a).
  Proof.
    intros i a Hin. unfold ann_list in Hin. apply in_map_iff in Hin as ([k b] & E & Hin). cbn [fst snd] in E. injection E as E1 E2. subst i a.
    (* every entry of the dict is `{}` updated with a parse result *)
    rewrite (strip_correct fo toks dc Wt Xt) in Strip. unfold strip_spec, spec_items in Strip.
    destruct (spec_run fo sinit (decorate toks dc)) as [sp'|] eqn:E1; cbn in Strip; [|discriminate]. inversion Strip; subst.
    assert (Hall : forall items sp sp2, spec_run fo sp items = Ok sp2 -> Forall (fun kv => NoDup (map fst (snd kv))) (s_ann sp) ->
                   Forall (fun kv => NoDup (map fst (snd kv))) (s_ann sp2)).
    { clear. induction items as [|it r IH]; intros sp sp2 H F; cbn [spec_run] in H; [injection H as <-; exact F|].
      destruct (spec_item fo sp it) as [sp1|] eqn:E; cbn [bind] in H; [|discriminate]. apply (IH sp1 sp2 H).
      destruct it as [d|t|d]; cbn [spec_item] in E; [injection E as <-; exact F| |injection E as <-; exact F].
      destruct t; cbn [spec_tok] in E; try (injection E as <-; exact F).
      destruct (fragment_node_parser fo _) as [a|]; cbn [bind] in E; [|discriminate]. injection E as <-. cbn [s_ann].
      clear -F. induction (s_ann sp) as [|[k y] l IHl]; cbn.
      - constructor; [cbn; apply aupdate_nodup; constructor|constructor].
      - inversion F; subst. destruct (Nat.eqb (s_n sp) k); constructor; auto. cbn. now apply aupdate_nodup. }
    pose proof (Hall _ _ _ E1 (Forall_nil _)) as F. rewrite Forall_forall in F. exact (F (k, b) Hin).
  Qed.

  (** the annotated atom: template node i has the written value *)
  Theorem text_annotation_on_template pre body annot post a key v n0 :
    decorate toks dc = pre ++ ITok (TBracket body annot) :: post ->
    fragment_node_parser fo (annot_text annot) = Ok a -> In (key, v) a -> ~ In key written_keys ->
    gfind (Z.of_nat (atoms_of pre)) g0 = Some n0 ->
    node_get T (Z.of_nat (atoms_of pre)) key = Some v.
  Proof.
    intros D Hp Hkv Hw Gi.
    destruct (strip_annotation_reaches_attributes fo toks dc pre body annot post clean desc ez ann a Wt Xt D Strip Hp) as (a' & Ga & Eq).
    assert (NDa : NoDup (map fst a)) by (unfold fragment_node_parser in Hp; now apply parse_nodup in Hp).
    assert (Hv : aget key a' = Some v) by (rewrite (Eq key), aget_assoc; now apply assoc_in).
    assert (Hin : In (Z.of_nat (atoms_of pre), a') (ann_list ann)).
    { unfold ann_list. apply in_map_iff. exists (atoms_of pre, a'). split; [reflexivity|now apply nd_get_in]. }
    apply (template_annotation_post g0 name bonding ezl (ann_list ann) T _ a' key v n0 Post G0
             (ann_list_nodup ann (strip_annotation_dict_keys fo toks dc clean desc ez ann Wt Xt Strip)) Hin (ann_dicts _ _ Hin) Gi).
    - rewrite aget_assoc in Hv. now apply assoc_some_in.
    - exact Hw.
  Qed.
  (** any atom j of the fragment whose token does not set [key] (and for which pysmiles sets none): absent *)
  Theorem text_annotation_absent j key :
    has_node g0 (Z.of_nat j) = true -> node_get g0 (Z.of_nat j) key = None ->
    (forall a, nd_get j ann = Some a -> aget key a = None /\ aget (S "element") a = None) ->
    (nd_get j ann <> None \/ node_get g0 (Z.of_nat j) (S "element") <> Some (VStr (S "H"))) ->
    ~ In key written_keys -> ~ In key default_keys ->
    node_get T (Z.of_nat j) key = None.
  Proof.
    intros Hj H0 Ha Hcase Hw Hd.
    pose proof (strip_annotation_dict_keys fo toks dc clean desc ez ann Wt Xt Strip) as NDk.
    rewrite (template_exact_post g0 name bonding ezl (ann_list ann) T (Z.of_nat j) key Post G0 (ann_list_nodup ann NDk) ann_dicts Hj).
    - rewrite (ann_list_zassoc ann j NDk). unfold annotated_value. destruct (nd_get j ann) as [a|] eqn:E; [|exact H0].
      destruct (Ha a eq_refl) as [-> _]. exact H0.
    - destruct Hcase as [Hc|Hc]; [left|now right]. destruct (nd_get j ann) as [a|] eqn:E; [|congruence].
      apply nd_get_in in E. unfold ann_list. rewrite map_map. cbn [fst]. apply in_map_iff. exists (j, a). auto.
    - intros a Za. rewrite (ann_list_zassoc ann j NDk) in Za. now destruct (Ha a Za).
    - exact Hw.
    - exact Hd.
  Qed.
End Text.

(** ** ... to the returned graph *)
Section TextReturned.
  Variable fo : float_oracle.
  Variables (name : pystr) (toks : list tok) (dc : decor).
  Hypothesis Wt : FragText.wf toks dc = true.
  Hypothesis Xt : excluded toks dc = false.
  Variables (clean : pystr) (desc : ndict (list pystr)) (ez : ndict ascii) (ann : ndict attrs).
  Hypothesis Strip : strip_bonding_descriptors fo (FragText.render (decorate toks dc)) = Ok (clean, desc, ez, ann).
  Variables (g0 : graph) (bonding ezl : list (Z * pyval)) (T : graph).
  Hypothesis G0 : NoDup (node_keys g0).
  Hypothesis Post : read_fragment_post g0 name bonding ezl (ann_list ann) = Ok T.
  (** the molecule: a well-formed cut whose fragment `name` is this template; one all-atom resolve() *)
  Variable C : cut.
  Hypothesis W : wf_cut C.
  Variable fd : fragdict.
  Hypothesis HT : templates_ok C fd.
  Hypothesis Hwfd : wf_dict fd.
  Hypothesis Hname : fd_get name fd = Some T.
  Variable B : graph.
  Hypothesis HB : is_base C B.
  Hypothesis Hatoms : forall x, In x (flat C) ->
    (exists e, aget (S "element") (payload C x) = Some e) /\ (exists q, aget (S "charge") (payload C x) = Some q) /\
    (exists h, aget (S "hcount") (payload C x) = Some (VInt h)) /\ Hydrogens.is_H (payload C x) = false.
  Variables (prev g1 : graph) (fo_ : full_out).
  Hypothesis HM : meta_of prev = B.
  Hypothesis Step : resolve_step_full true true fd prev (Some g1) = Ok fo_.
  Hypothesis HD : dicts (fo_m3 fo_).

  Theorem text_annotation_reaches_returned_graph :
    exists m, sort_mapping (fo_m4 fo_) = Ok m /\ SortGraphProofs.inj_on (map_get m) (node_keys (fo_m4 fo_)) /\
      forall pre body annot post a key v n0,
        decorate toks dc = pre ++ ITok (TBracket body annot) :: post ->
        fragment_node_parser fo (annot_text annot) = Ok a -> In (key, v) a ->
        gfind (Z.of_nat (atoms_of pre)) g0 = Some n0 ->
        ~ In key written_keys -> returned_key key -> key <> S "aromatic" ->
        forall p xs x, nth_error (c_parts C) p = Some (name, xs) -> nth_error xs (atoms_of pre) = Some x ->
          node_get (fo_mol fo_) (map_get m (phi C x)) key = Some v.
  Proof.
    destruct (annotation_reaches_returned_graph_any_car C W fd HT Hwfd B HB Hatoms prev g1 fo_ HM Step HD) as (m & Em & Inj & Hk).
    exists m. split; [exact Em|]. split; [exact Inj|].
    intros pre body annot post a key v n0 D Hp Hkv Gi Hw Rk Nar p xs x Ep Ex.
    pose proof (text_annotation_on_template fo name toks dc Wt Xt clean desc ez ann Strip g0 bonding ezl T G0 Post
                  pre body annot post a key v n0 D Hp Hkv Hw Gi) as Vt.
    unfold node_get in Vt. destruct (gfind (Z.of_nat (atoms_of pre)) T) as [n|] eqn:Gn; [|discriminate].
    rewrite (Hk p name xs T (atoms_of pre) x n key Ep Hname Ex Gn Rk Nar). exact Vt.
  Qed.
  Theorem text_annotation_not_gained :
    exists m, sort_mapping (fo_m4 fo_) = Ok m /\
      forall j key n,
        gfind (Z.of_nat j) T = Some n ->
        has_node g0 (Z.of_nat j) = true -> node_get g0 (Z.of_nat j) key = None ->
        (forall a, nd_get j ann = Some a -> aget key a = None /\ aget (S "element") a = None) ->
        (nd_get j ann <> None \/ node_get g0 (Z.of_nat j) (S "element") <> Some (VStr (S "H"))) ->
        ~ In key written_keys -> ~ In key default_keys -> returned_key key -> key <> S "aromatic" ->
        forall p xs y, nth_error (c_parts C) p = Some (name, xs) -> nth_error xs j = Some y ->
          node_get (fo_mol fo_) (map_get m (phi C y)) key = None.
  Proof.
    destruct (annotation_reaches_returned_graph_any_car C W fd HT Hwfd B HB Hatoms prev g1 fo_ HM Step HD) as (m & Em & _ & Hk).
    exists m. split; [exact Em|].
    intros j key n Gn Hj H0 Ha Hcase Hw Hd Rk Nar p xs y Ep Ey.
    pose proof (text_annotation_absent fo name toks dc Wt Xt clean desc ez ann Strip g0 bonding ezl T G0 Post j key Hj H0 Ha Hcase Hw Hd) as Vt.
    unfold node_get in Vt. rewrite Gn in Vt.
    rewrite (Hk p name xs T j y n key Ep Hname Ey Gn Rk Nar). exact Vt.
  Qed.
End TextReturned.

(** ** Frag's text-only template (C13_template_of_render / C13_template_nodes): node i carries the same dict *)
From CGV Require Import Frag.SmilesParse Frag.SmilesSpec Frag.Template Frag.TemplateProofs.
Theorem frag_template_node_annotation fo name toks dc T clean d e a G pre body annot post an key v base :
  FragText.wf toks dc = true -> excluded toks dc = false ->
  template_spec fo name toks dc = Ok T -> strip_spec fo toks dc = Ok (clean, d, e, a) -> graph_of false toks = Ok G ->
  decorate toks dc = pre ++ ITok (TBracket body annot) :: post ->
  fragment_node_parser fo (annot_text annot) = Ok an -> In (key, v) an ->
  nth_error (g_nodes G) (atoms_of pre) = Some base ->
  exists nd, nth_error (t_nodes T) (atoms_of pre) = Some nd /\ aget key nd = Some v.
Proof.
  intros W X HT HS HG D Hp Hkv Hb.
  destruct (template_spec_nodes fo name toks dc T clean d e a G HT HS HG) as (_ & _ & Hn).
  exists (template_node name base (nd_get (atoms_of pre) d) (nd_get (atoms_of pre) a)). split; [now apply Hn|].
  assert (Hs : strip_bonding_descriptors fo (FragText.render (decorate toks dc)) = Ok (clean, d, e, a))
    by (rewrite (strip_correct fo toks dc W X); exact HS).
  destruct (strip_annotation_reaches_attributes fo toks dc pre body annot post clean d e a an W X D Hs Hp) as (a' & Ga & Eq).
  unfold template_node. rewrite Ga.
  assert (NDa : NoDup (map fst an)) by (unfold fragment_node_parser in Hp; now apply parse_nodup in Hp).
  assert (Hv : aget key a' = Some v) by (rewrite (Eq key), aget_assoc; now apply assoc_in).
  rewrite aget_aupdate. rewrite aget_assoc in Hv.
  (* a' = aupdate [] an has distinct keys *)
  destruct (strip_annotation_reaches_attributes fo toks dc pre body annot post clean d e a an W X D Hs Hp) as (a2 & Ga2 & _).
  rewrite Ga in Ga2. inversion Ga2; subst a2. clear Ga2.
  assert (ND' : NoDup (map fst a')).
  { rewrite (strip_correct fo toks dc W X) in Hs. unfold strip_spec, spec_items in Hs. rewrite D in Hs.
    destruct (spec_run fo sinit (pre ++ ITok (TBracket body annot) :: post)) as [sp'|] eqn:E1; cbn in Hs; [|discriminate]. inversion Hs; subst.
    rewrite (spec_annotation_at fo pre body annot post sp' an E1 Hp) in Ga. inversion Ga; subst a'. apply aupdate_nodup. constructor. }
  rewrite assoc_rev by exact ND'. now rewrite Hv.
Qed.
