(** MachineInject: the C20 reader faults INJECTED into a token list that runs (= a valid string): the hypotheses of
    the machine theorems of MachineFaults.v ("the tokens before the fault run", "the marker is open", "the edge exists")
    follow from validity, so the verdict is unconditional: a refused node text in the place of any node, a fresh ring
    marker after any node, a ring bond between two chain neighbours anywhere - also inside branches and (longhand
    tokens of) multiplied units.  Transferred to ReaderImpl.read_cgsmiles for grammar strings. *)
From Coq Require Import String.
From Coq Require Import List Ascii ZArith Bool Lia.
From CGV Require Import Base.PyBase Base.PyVal Base.NxGraph Dialect.DialectImpl
     Reader.ReaderImpl Reader.Grammar Reader.Lin Reader.ReaderSim Reader.ReaderCheck Reader.ReaderEnd Reader.ReaderUnit
     Resolve.MapProofs Dialect.MachineFaults Dialect.MachineAnnot.
From CGV Require Hydro.SquashProofs.
Import ListNotations.
Open Scope Z_scope.

(** ** faults INJECTED into a token list that runs: the hypotheses of the machine theorems follow from validity *)
Lemma m_run_prefix fo a b x y : m_run fo (a ++ b) x = Ok y -> exists x1, m_run fo a x = Ok x1 /\ m_run fo b x1 = Ok y.
Proof. rewrite m_run_app. destruct (m_run fo a x) as [x1|]; cbn [bind]; [eauto|discriminate]. Qed.

(** a node text the parser refuses, put in the place of ANY node of a token list that runs *)
Theorem injected_annotation_error fo ts1 nm n ts2 y nm' e :
  m_run fo (ts1 ++ TNode nm n :: ts2) m_init = Ok y -> parse_graph_base_node fo nm' = Err e ->
  m_finish (m_run fo (ts1 ++ TNode nm' n :: ts2) m_init) = Err e.
Proof.
  intros R P. destruct (m_run_prefix _ _ _ _ _ R) as (x1 & R1 & _). now apply (machine_annotation_error fo ts1 nm' n ts2 x1).
Qed.

(** ring tables that differ by one extra open marker [m] (never read again) *)
Inductive ins (m : Z) (v : Z * Z) : ringtab -> ringtab -> Prop :=
| ins_here t : ins m v t ((m, v) :: t)
| ins_skip kv t t' : fst kv <> m -> ins m v t t' -> ins m v (kv :: t) (kv :: t').
Lemma ins_get m v t t' m' : ins m v t t' -> m' <> m -> rt_get m' t' = rt_get m' t.
Proof.
  induction 1 as [t|[k w] t t' N I IH]; intros Nm; cbn.
  - destruct (Z.eqb_spec m m'); [congruence|reflexivity].
  - destruct (Z.eqb k m'); [reflexivity|now apply IH].
Qed.
Lemma ins_del m v t t' m' : ins m v t t' -> m' <> m -> ins m v (rt_del m' t) (rt_del m' t').
Proof.
  induction 1 as [t|[k w] t t' N I IH]; intros Nm; cbn.
  - destruct (Z.eqb_spec m m'); [congruence|constructor].
  - destruct (Z.eqb_spec k m') as [->|Nk]; [exact I|]. constructor; [exact N|now apply IH].
Qed.
Lemma ins_app m v t t' l : ins m v t t' -> Forall (fun kv => fst kv <> m) l -> ins m v (t ++ l) (t' ++ l).
Proof. induction 1; intros F; cbn; constructor; auto. Qed.
Lemma ins_snoc m v t : Forall (fun kv => fst kv <> m) t -> ins m v t (t ++ [(m, v)]).
Proof.
  induction t as [|kv r IH]; intros F; cbn; [constructor|]. inversion F; subst. constructor; [assumption|now apply IH].
Qed.
Lemma ins_nonempty m v t t' : ins m v t t' -> t' <> [].
Proof. destruct 1; discriminate. Qed.

Definition same_but_rings (m : Z) (v : Z * Z) (x x' : mstate) : Prop :=
  m_g x' = m_g x /\ m_next x' = m_next x /\ m_prev x' = m_prev x /\ m_pend x' = m_pend x /\ m_stack x' = m_stack x /\
  ins m v (m_rings x) (m_rings x').
Lemma m_step_sim fo m v x x' t y : same_but_rings m v x x' -> is_ring_tok m t = false -> m_step fo x t = Ok y ->
  exists y', m_step fo x' t = Ok y' /\ same_but_rings m v y y'.
Proof.
  intros (Eg & En & Ep & Epd & Es & I) Nt H. destruct t as [nm n|o m'|s| |]; cbn [m_step is_ring_tok] in *.
  - rewrite Eg, En, Ep, Epd. destruct (parse_graph_base_node fo nm) as [a|]; cbn [bind] in *; [|discriminate].
    destruct (m_copies n a (m_g x) (m_next x) (m_prev x) (m_pend x)) as [[g' nx] pv]. inversion H; subst y.
    eexists. split; [reflexivity|]. repeat split; cbn; auto.
  - assert (Nm : m' <> m) by (intros ->; rewrite Z.eqb_refl in Nt; discriminate).
    rewrite Ep. destruct (m_prev x) as [cur|]; [|discriminate]. rewrite (ins_get m v _ _ m' I Nm), Eg.
    destruct (rt_get m' (m_rings x)) as [[n0 o0]|].
    + destruct (has_edge (m_g x) cur n0); [discriminate|]. inversion H; subst y. eexists. split; [reflexivity|].
      repeat split; cbn; auto. now apply ins_del.
    + inversion H; subst y. eexists. split; [reflexivity|]. repeat split; cbn; auto.
      apply ins_app; [exact I|]. constructor; [exact Nm|constructor].
  - inversion H; subst y. eexists. split; [reflexivity|]. repeat split; cbn; auto.
  - inversion H; subst y. eexists. split; [reflexivity|]. rewrite Ep, Es. repeat split; cbn; auto.
  - rewrite Es. destruct (m_stack x) as [|a st]; [discriminate|]. inversion H; subst y. eexists. split; [reflexivity|]. repeat split; cbn; auto.
Qed.
Lemma m_run_sim fo m v ts : forall x x' y, same_but_rings m v x x' -> ring_occurrences m ts = 0%nat -> m_run fo ts x = Ok y ->
  exists y', m_run fo ts x' = Ok y' /\ same_but_rings m v y y'.
Proof.
  induction ts as [|t r IH]; intros x x' y S0 Hc H; cbn [m_run] in *.
  - inversion H; subst. eauto.
  - unfold ring_occurrences in Hc. cbn [filter] in Hc. destruct (is_ring_tok m t) eqn:Et; [discriminate|].
    destruct (m_step fo x t) as [x1|] eqn:E; cbn [bind] in H; [|discriminate].
    destruct (m_step_sim fo m v x x' t x1 S0 Et E) as (x1' & E' & S1). rewrite E'. cbn [bind]. now apply (IH x1 x1').
Qed.
(** ring tables only hold markers that were read *)
Lemma m_step_keys fo m x t y : m_step fo x t = Ok y -> is_ring_tok m t = false ->
  Forall (fun kv => fst kv <> m) (m_rings x) -> Forall (fun kv => fst kv <> m) (m_rings y).
Proof.
  intros H Nt F. destruct t as [nm n|o m'|s| |]; cbn [m_step is_ring_tok] in *.
  - destruct (parse_graph_base_node fo nm) as [a|]; cbn [bind] in *; [|discriminate].
    destruct (m_copies n a (m_g x) (m_next x) (m_prev x) (m_pend x)) as [[g' nx] pv]. inversion H; subst; exact F.
  - destruct (m_prev x) as [cur|]; [|discriminate]. destruct (rt_get m' (m_rings x)) as [[n0 o0]|].
    + destruct (has_edge (m_g x) cur n0); [discriminate|]. inversion H; subst; cbn. clear -F.
      induction (m_rings x) as [|[k w] r IH]; cbn; [constructor|]. inversion F; subst. destruct (Z.eqb k m'); [assumption|constructor; auto].
    + inversion H; subst; cbn. apply Forall_app. split; [exact F|]. constructor; [|constructor]. cbn.
      intros ->. rewrite Z.eqb_refl in Nt. discriminate.
  - inversion H; subst; exact F.
  - inversion H; subst; exact F.
  - destruct (m_stack x); [discriminate|]. inversion H; subst; exact F.
Qed.
Lemma m_run_keys fo m ts : forall x y, m_run fo ts x = Ok y -> ring_occurrences m ts = 0%nat ->
  Forall (fun kv => fst kv <> m) (m_rings x) -> Forall (fun kv => fst kv <> m) (m_rings y).
Proof.
  induction ts as [|t r IH]; intros x y H Hc F; cbn [m_run] in H; [inversion H; now subst|].
  unfold ring_occurrences in Hc. cbn [filter] in Hc. destruct (is_ring_tok m t) eqn:Et; [discriminate|].
  destruct (m_step fo x t) as [x1|] eqn:E; cbn [bind] in H; [|discriminate].
  apply (IH x1 y H Hc). now apply (m_step_keys fo m x t x1).
Qed.
Lemma occ_app m a b : ring_occurrences m (a ++ b) = (ring_occurrences m a + ring_occurrences m b)%nat.
Proof. unfold ring_occurrences. now rewrite filter_app, app_length. Qed.

(** a FRESH ring marker written after ANY node of a token list that runs (so also inside branches and multiplied
    units): the result is exactly the dangling-ring SyntaxError *)
Theorem injected_dangling_rejected fo ts1 ts2 o m y :
  m_run fo (ts1 ++ ts2) m_init = Ok y -> ring_occurrences m (ts1 ++ ts2) = 0%nat ->
  (forall x1, m_run fo ts1 m_init = Ok x1 -> m_prev x1 <> None) ->
  m_finish (m_run fo (ts1 ++ TRing o m :: ts2) m_init) = Err (ESyntax (S "dangling")).
Proof.
  intros R Hc Hp. destruct (m_run_prefix _ _ _ _ _ R) as (x1 & R1 & R2). rewrite occ_app in Hc.
  assert (H1 : ring_occurrences m ts1 = 0%nat) by lia. assert (H2 : ring_occurrences m ts2 = 0%nat) by lia.
  pose proof (m_run_keys fo m ts1 m_init x1 R1 H1 (Forall_nil _)) as F1.
  rewrite m_run_app, R1. cbn [bind m_run m_step]. destruct (m_prev x1) as [cur|] eqn:Ep; [|exfalso; now apply (Hp x1 R1)].
  rewrite (MachineFaults.rt_get_notin m (m_rings x1)).
  2:{ intros HI. apply in_map_iff in HI as ([k w] & E & HI). cbn in E. subst k. rewrite Forall_forall in F1. now apply (F1 _ HI). }
  cbn [bind].
  set (x1' := {| m_g := m_g x1; m_next := m_next x1; m_prev := Some cur; m_pend := m_pend x1; m_stack := m_stack x1;
                 m_rings := m_rings x1 ++ [(m, (cur, oord o))] |}).
  assert (S1 : same_but_rings m (cur, oord o) x1 x1') by (unfold x1'; repeat split; cbn; auto; now apply ins_snoc).
  destruct (m_run_sim fo m _ ts2 x1 x1' y S1 H2 R2) as (y' & R' & (_ & _ & _ & _ & _ & I)).
  unfold m_finish. rewrite R'. cbn [bind]. pose proof (ins_nonempty _ _ _ _ I) as NE. destruct (m_rings y'); [contradiction|reflexivity].
Qed.

(** a ring bond between two CHAIN NEIGHBOURS, wherever they stand: node u, fresh marker m, (bond symbol,) node v, m *)
Theorem injected_duplicate_rejected fo ts1 nu o m syms nv o' ts2 x1 au av :
  m_run fo ts1 m_init = Ok x1 -> ring_occurrences m ts1 = 0%nat ->
  parse_graph_base_node fo nu = Ok au -> parse_graph_base_node fo nv = Ok av ->
  has_node (m_g x1) (m_next x1) = false -> has_node (m_g x1) (m_next x1 + 1) = false ->
  (forall p, m_prev x1 = Some p -> has_node (m_g x1) p = true) ->
  Forall (fun t => match t with TSym _ => True | _ => False end) syms ->
  m_finish (m_run fo (ts1 ++ TNode nu 1 :: TRing o m :: syms ++ TNode nv 1 :: TRing o' m :: ts2) m_init)
  = Err (ESyntax (S "double")).
Proof.
  intros R1 H1 Pu Pv F0 F1' Hprev Hs.
  pose proof (m_run_keys fo m ts1 m_init x1 R1 H1 (Forall_nil _)) as Fk.
  rewrite m_run_app, R1. cbn [bind m_run m_step]. rewrite Pu. cbn [bind m_copies].
  set (u := m_next x1). set (g1 := add_node (m_g x1) u au).
  set (g2 := match m_prev x1 with Some p => add_edge g1 p u (eorder (m_pend x1)) | None => g1 end).
  cbn [m_prev m_rings m_g]. rewrite (MachineFaults.rt_get_notin m (m_rings x1)).
  2:{ intros HI. apply in_map_iff in HI as ([k w] & E & HI). cbn in E. subst k. rewrite Forall_forall in Fk. now apply (Fk _ HI). }
  cbn [bind].
  (* the bond symbols only set the pending order *)
  assert (Hsy : forall pend st, exists pend',
            m_run fo (syms ++ TNode nv 1 :: TRing o' m :: ts2)
              {| m_g := g2; m_next := u + 1; m_prev := Some u; m_pend := pend; m_stack := st; m_rings := m_rings x1 ++ [(m, (u, oord o))] |}
            = m_run fo (TNode nv 1 :: TRing o' m :: ts2)
              {| m_g := g2; m_next := u + 1; m_prev := Some u; m_pend := pend'; m_stack := st; m_rings := m_rings x1 ++ [(m, (u, oord o))] |}).
  { clear -Hs. induction Hs as [|t r Ht _ IH]; intros pend st; [eauto|]. destruct t; try contradiction.
    cbn [app m_run m_step bind m_g m_next m_prev m_pend m_stack m_rings]. apply IH. }
  cbn [m_next m_pend m_stack].
  destruct (Hsy 1 (m_stack x1)) as [pend' ->]. cbn [m_run m_step]. rewrite Pv. cbn [bind m_copies m_g m_next m_prev m_pend m_stack m_rings].
  assert (Hu2 : has_node g2 u = true).
  { unfold g2. destruct (m_prev x1) as [p|]; [apply has_node_add_edge; right; now right|]. unfold g1. apply has_node_add_node. now right. }
  assert (Hv2 : has_node g2 (u + 1) = false).
  { unfold g2, g1. destruct (m_prev x1) as [p|] eqn:Ep.
    - destruct (has_node (add_edge (add_node (m_g x1) u au) p u (eorder (m_pend x1))) (u + 1)) eqn:E; [|reflexivity].
      apply has_node_add_edge in E. destruct E as [E|[E|E]]; [|subst p; pose proof (Hprev _ eq_refl) as X; unfold u in X; congruence|lia].
      apply has_node_add_node in E. destruct E as [E|E]; [unfold u in E; congruence|lia].
    - apply has_node_false_add; [exact F1'|lia]. }
  set (g3 := add_node g2 (u + 1) av). set (g4 := add_edge g3 u (u + 1) (eorder pend')).
  rewrite MachineFaults.rt_get_app. rewrite (MachineFaults.rt_get_notin m (m_rings x1)), Z.eqb_refl.
  2:{ intros HI. apply in_map_iff in HI as ([k w] & E & HI). cbn in E. subst k. rewrite Forall_forall in Fk. now apply (Fk _ HI). }
  assert (He : has_edge g4 (u + 1) u = true).
  { unfold g4. rewrite SquashProofs.has_edge_add_edge.
    - apply orb_true_iff. right. unfold SquashProofs.eqpair. rewrite !Z.eqb_refl. cbn [andb]. apply orb_true_r.
    - unfold g3. apply has_node_add_node. now left.
    - unfold g3. apply has_node_add_node. now right. }
  fold g3. fold g4. rewrite He. reflexivity.
Qed.

(** ... with nothing assumed about the state: every run from the initial state has fresh next keys and a live `prev` *)
Lemma run_state_facts fo ts x : m_run fo ts m_init = Ok x ->
  has_node (m_g x) (m_next x) = false /\ has_node (m_g x) (m_next x + 1) = false /\
  (forall p, m_prev x = Some p -> has_node (m_g x) p = true).
Proof.
  intros R. destruct (m_run_inv fo ts m_init x [] (minv_init fo) R) as [As [I _]]. cbn [app] in I.
  destruct I as [K _ N P _ _].
  assert (Hf : forall k, Z.of_nat (length As) <= k -> has_node (m_g x) k = false).
  { intros k Hk. destruct (has_node (m_g x) k) eqn:E; [|reflexivity]. apply gfind_has in E. rewrite K in E. apply in_zseq in E. lia. }
  split; [apply Hf; lia|]. split; [apply Hf; lia|]. intros p Ep. apply (has_of_range _ _ _ K). now apply P.
Qed.
Theorem injected_duplicate_neighbours fo ts1 nu o m syms nv o' ts2 x1 au av :
  m_run fo ts1 m_init = Ok x1 -> ring_occurrences m ts1 = 0%nat ->
  parse_graph_base_node fo nu = Ok au -> parse_graph_base_node fo nv = Ok av ->
  Forall (fun t => match t with TSym _ => True | _ => False end) syms ->
  m_finish (m_run fo (ts1 ++ TNode nu 1 :: TRing o m :: syms ++ TNode nv 1 :: TRing o' m :: ts2) m_init)
  = Err (ESyntax (S "double")).
Proof.
  intros R1 H1 Pu Pv Hs. destruct (run_state_facts fo ts1 x1 R1) as (F0 & F1 & Hp).
  now apply (injected_duplicate_rejected fo ts1 nu o m syms nv o' ts2 x1 au av).
Qed.

(** ** on ReaderImpl.read_cgsmiles, for grammar strings *)
Section Transfer.
  Variables (fo : float_oracle) (braces : bool) (a : chain).
  Hypotheses (W : wf fo a = true) (B : has_branch_mult a = false) (C : class_C04 braces a = 0%nat).
  Let ts := toks (expand_branches a).
  Theorem grammar_injected_annotation_error ts1 nm n ts2 y nm' e :
    m_run fo (ts1 ++ TNode nm n :: ts2) m_init = Ok y -> ts = ts1 ++ TNode nm' n :: ts2 ->
    parse_graph_base_node fo nm' = Err e -> read_cgsmiles fo (print braces a) = Err e.
  Proof. intros R E P. rewrite (read_is_machine fo braces a W B C). fold ts. rewrite E. now apply (injected_annotation_error fo ts1 nm n ts2 y). Qed.
  Theorem grammar_injected_dangling ts1 ts2 o m y :
    m_run fo (ts1 ++ ts2) m_init = Ok y -> ring_occurrences m (ts1 ++ ts2) = 0%nat ->
    (forall x1, m_run fo ts1 m_init = Ok x1 -> m_prev x1 <> None) -> ts = ts1 ++ TRing o m :: ts2 ->
    read_cgsmiles fo (print braces a) = Err (ESyntax (S "dangling")).
  Proof. intros R Hc Hp E. rewrite (read_is_machine fo braces a W B C). fold ts. rewrite E. now apply (injected_dangling_rejected fo ts1 ts2 o m y). Qed.
  Theorem grammar_injected_duplicate ts1 nu o m syms nv o' ts2 x1 au av :
    m_run fo ts1 m_init = Ok x1 -> ring_occurrences m ts1 = 0%nat ->
    parse_graph_base_node fo nu = Ok au -> parse_graph_base_node fo nv = Ok av ->
    Forall (fun t => match t with TSym _ => True | _ => False end) syms ->
    ts = ts1 ++ TNode nu 1 :: TRing o m :: syms ++ TNode nv 1 :: TRing o' m :: ts2 ->
    read_cgsmiles fo (print braces a) = Err (ESyntax (S "double")).
  Proof.
    intros R H1 Pu Pv Hs E. rewrite (read_is_machine fo braces a W B C). fold ts. rewrite E.
    now apply (injected_duplicate_neighbours fo ts1 nu o m syms nv o' ts2 x1 au av).
  Qed.
End Transfer.

(** non-vacuity: {[#A]([#B]7[#C])[#D]}: the fresh marker 7 inside a branch of a string that is valid without it;
    {[#A]([#B]7=[#C]7)[#D]}: ring bond 7 between the chain neighbours B, C inside the branch *)
Example injected_example :
  let fo := fo_of_table [] in
  let a1 := [Item (S "A") [] None None [Branch [Item (S "B") [(None, MDigit 7)] None None []; Item (S "C") [] None None []] None None];
             Item (S "D") [] None None []] in
  let a2 := [Item (S "A") [] None None [Branch [Item (S "B") [(None, MDigit 7)] None (Some SDouble) []; Item (S "C") [(None, MDigit 7)] None None []] None None];
             Item (S "D") [] None None []] in
  wf fo a1 = true /\ read_cgsmiles fo (print true a1) = Err (ESyntax (S "dangling")) /\
  toks (expand_branches a1) = [TNode (S "A") 1; TOpen; TNode (S "B") 1] ++ TRing None 7 :: [TNode (S "C") 1; TClose; TNode (S "D") 1] /\
  wf fo a2 = true /\ read_cgsmiles fo (print true a2) = Err (ESyntax (S "double")) /\
  toks (expand_branches a2) = [TNode (S "A") 1; TOpen] ++ TNode (S "B") 1 :: TRing None 7 :: [TSym SDouble] ++ TNode (S "C") 1 :: TRing None 7 :: [TClose; TNode (S "D") 1].
Proof. repeat split; vm_compute; reflexivity. Qed.
