(** CoarseChainAnnot: the node-level model of a coarse node written inside a fragment definition
    ([DialectCheck.coarse_fragment_node], compared with the implementation per node on every run) IS what the graph-level
    model of the coarse branch of fragment_iter (Write/FragRead.read_coarse_fragment) puts on the template node - for
    fragment definitions that are CHAINS of annotated coarse nodes joined by bond symbols, with any descriptors anywhere:
      strip_bonding_descriptors    through the strip component's strip_correct (clean text = the tokens' clean text)
      read_cgsmiles on the clean   through the reader component's reader_sim_lin_nobrace (flat strings without braces)
    So C14_partial holds on the TEMPLATE node: outside the defect class it carries the documented charge, weight and keys. *)
From Coq Require Import String.
From Coq Require Import List Ascii ZArith Bool Lia Permutation.
From CGV Require Import Base.PyBase Base.PyVal Base.NxGraph Dialect.DialectImpl Dialect.DialectDefs Dialect.DialectProofs Dialect.DialectCheck
     Frag.NDict Frag.StripImpl Frag.FragText Frag.FragProofs Hydro.GraphLemmas Hydro.Fragments.
From CGV Require Reader.ReaderImpl Reader.Grammar Reader.Lin Reader.ReaderLast.
From CGV Require Import Write.FragRead.
From CGV Require Dialect.ReturnedCar.
From CGV Require Import Dialect.MachineAnnot Dialect.BaseAnnot Dialect.FragAnnot Dialect.TemplateAnnot Dialect.TextAnnot Dialect.CoarseTextAnnot.
Import ListNotations.
Open Scope Z_scope.

(** ** flat strings WITHOUT braces (fragment texts): node i carries the parse of the i-th node text *)
Theorem base_annotation_flat_nobrace fo l g : Lin.lins_ok fo l = true ->
  ReaderImpl.read_cgsmiles fo (Lin.lins_str l) = Ok g -> annotated_as fo g (node_texts (Lin.lins_toks l)).
Proof. intros Hok H. rewrite (ReaderLast.reader_sim_lin_nobrace fo l Hok) in H. now apply finish_annotations. Qed.

(** ** the clean text strip_bonding_descriptors hands over is the clean text of the TOKENS, whatever the descriptors *)
Definition toks_of (items : list ditem) : list tok := flat_map (fun i => match i with ITok t => [t] | _ => [] end) items.
Lemma spec_clean fo items : forall sp sp', spec_run fo sp items = Ok sp' -> s_clean sp' = s_clean sp ++ flat_map clean_tok (toks_of items).
Proof.
  induction items as [|i r IH]; intros sp sp' H; cbn [spec_run] in H; [injection H as <-; cbn; now rewrite app_nil_r|].
  destruct (spec_item fo sp i) as [sp1|] eqn:E; cbn [bind] in H; [|discriminate]. rewrite (IH _ _ H).
  destruct i as [d|t|d]; cbn [spec_item] in E; cbn [toks_of flat_map app].
  - injection E as <-. reflexivity.
  - fold (toks_of r). cbn [flat_map]. rewrite app_assoc. f_equal.
    destruct t; cbn [spec_tok] in E; try (injection E as <-; reflexivity).
    destruct (fragment_node_parser fo _); cbn [bind] in E; [injection E as <-; reflexivity|discriminate].
  - injection E as <-. reflexivity.
Qed.
Lemma toks_of_app a b : toks_of (a ++ b) = toks_of a ++ toks_of b. Proof. unfold toks_of. apply flat_map_app. Qed.
Lemma toks_of_descs ds : toks_of (map IDesc ds) = []. Proof. induction ds; [reflexivity|assumption]. Qed.
Lemma toks_of_leads ds : toks_of (map ILead ds) = []. Proof. induction ds; [reflexivity|assumption]. Qed.
Lemma toks_of_interleave : forall ts after, toks_of (interleave ts after) = ts.
Proof.
  induction ts as [|t r IH]; intros after; cbn [interleave]; [reflexivity|].
  change (ITok t :: map IDesc (hd [] after) ++ interleave r (tl after)) with ([ITok t] ++ map IDesc (hd [] after) ++ interleave r (tl after)).
  rewrite !toks_of_app, toks_of_descs, IH. reflexivity.
Qed.
Lemma toks_of_decorate ts dc : toks_of (decorate ts dc) = ts.
Proof. unfold decorate. now rewrite toks_of_app, toks_of_leads, toks_of_interleave. Qed.
(** the place of a token in the decorated list *)
Lemma interleave_split : forall t1 t t2 after, exists pre post,
  interleave (t1 ++ t :: t2) after = pre ++ ITok t :: post /\ toks_of pre = t1.
Proof.
  induction t1 as [|u r IH]; intros t t2 after; cbn [app interleave].
  - exists [], (map IDesc (hd [] after) ++ interleave t2 (tl after)). split; reflexivity.
  - destruct (IH t t2 (tl after)) as (pre & post & E & Hp). rewrite E.
    exists (ITok u :: map IDesc (hd [] after) ++ pre), post. split; [cbn [app]; now rewrite <- app_assoc|].
    change (ITok u :: map IDesc (hd [] after) ++ pre) with ([ITok u] ++ map IDesc (hd [] after) ++ pre).
    rewrite !toks_of_app, toks_of_descs, Hp. reflexivity.
Qed.
Lemma decorate_split t1 t t2 dc : exists pre post, decorate (t1 ++ t :: t2) dc = pre ++ ITok t :: post /\ toks_of pre = t1.
Proof.
  destruct (interleave_split t1 t t2 (d_after dc)) as (pre & post & E & Hp). unfold decorate. rewrite E.
  exists (map ILead (d_lead dc) ++ pre), post. split; [now rewrite <- app_assoc|]. now rewrite toks_of_app, toks_of_leads.
Qed.
Definition atoms_toks (ts : list tok) : nat := atoms_of (map ITok ts).
Lemma atoms_of_toks items : atoms_of items = atoms_toks (toks_of items).
Proof.
  unfold atoms_toks, atoms_of. induction items as [|i r IH]; [reflexivity|]. cbn [fold_right].
  destruct i as [d|t|d]; cbn [toks_of flat_map app atoms_of_item]; fold (toks_of r); [exact IH| |exact IH].
  cbn [map fold_right]. now rewrite IH.
Qed.

(** ** chains of annotated coarse nodes *)
Definition cnode := (pystr * option pystr)%type.          (* name, annotation (text after the first ';') *)
Definition bs_of (s : Grammar.sym) : bsym :=
  match s with Grammar.SDot => BZero | Grammar.SSingle => BSingle | Grammar.SDouble => BDouble | Grammar.STriple => BTriple | Grammar.SQuad => BQuad end.
Definition cn_toks (xo : cnode * option Grammar.sym) : list tok :=
  TBracket ("#"%char :: fst (fst xo)) (snd (fst xo)) :: match snd xo with Some s => [TBond (bs_of s)] | None => [] end.
Definition ctoks (l : list (cnode * option Grammar.sym)) : list tok := flat_map cn_toks l.
Definition cn_lin (xo : cnode * option Grammar.sym) : Lin.lin :=
  {| Lin.l_open := false; Lin.l_name := fst (fst xo); Lin.l_mult := None; Lin.l_rings := []; Lin.l_bond := snd xo; Lin.l_close := None |}.
Definition clins (l : list (cnode * option Grammar.sym)) : list Lin.lin := map cn_lin l.
(** the text of the node as written: name, or name;annotation *)
Definition cn_tail (a : option pystr) : pystr := match a with Some a => ";"%char :: a | None => [] end.
Definition cn_text (x : cnode) : pystr := fst x ++ cn_tail (snd x).

Lemma clean_ctoks l : flat_map clean_tok (ctoks l) = Lin.lins_str (clins l).
Proof.
  unfold ctoks, clins, Lin.lins_str. induction l as [|[x o] r IH]; [reflexivity|]. cbn [flat_map map]. rewrite flat_map_app, IH. f_equal.
  unfold cn_toks, cn_lin, Lin.lin_str, Lin.lin_tail_str. cbn [fst snd Lin.l_open Lin.l_name Lin.l_mult Lin.l_rings Lin.l_bond Lin.l_close flat_map clean_tok app].
  destruct o as [s|]; [destruct s|]; cbn; rewrite ?app_nil_r, <- ?app_assoc; reflexivity.
Qed.
Lemma node_texts_clins l : node_texts (Lin.lins_toks (clins l)) = map (fun xo => fst (fst xo)) l.
Proof.
  unfold node_texts, Lin.lins_toks, clins. induction l as [|[x o] r IH]; [reflexivity|]. cbn [map flat_map]. rewrite flat_map_app, IH.
  unfold cn_lin, Lin.lin_toks. cbn [fst snd Lin.l_open Lin.l_name Lin.l_mult Lin.l_rings Lin.l_bond Lin.l_close app map flat_map Grammar.mult_val repeat].
  rewrite flat_map_app. destruct o as [s|]; reflexivity.
Qed.
Lemma atoms_ctoks l : atoms_toks (ctoks l) = length l.
Proof.
  unfold atoms_toks, atoms_of, ctoks. induction l as [|[x o] r IH]; [reflexivity|]. cbn [flat_map]. rewrite map_app, fold_right_app, IH.
  unfold cn_toks. cbn [fst snd]. destruct o; reflexivity.
Qed.

Lemma spec_run_item_ok fo pre i post : forall sp sp', spec_run fo sp (pre ++ i :: post) = Ok sp' ->
  exists sp1 sp2, spec_run fo sp pre = Ok sp1 /\ spec_item fo sp1 i = Ok sp2.
Proof.
  intros sp sp' H. rewrite spec_run_app in H. destruct (spec_run fo sp pre) as [sp1|]; cbn [bind] in H; [|discriminate].
  cbn [spec_run] in H. destruct (spec_item fo sp1 i) as [sp2|] eqn:E; [now exists sp1, sp2|discriminate].
Qed.
Lemma cut_semi_name annot : forall name acc, ~ In ";"%char name ->
  cut_semi (name ++ cn_tail annot) acc = (rev acc ++ name, annot_text annot).
Proof.
  induction name as [|c r IH]; intros acc H; cbn [app].
  - rewrite app_nil_r. destruct annot; reflexivity.
  - cbn [cut_semi]. destruct (Ascii.eqb_spec c ";"%char) as [->|N]; [exfalso; apply H; now left|].
    rewrite IH by (intros HI; apply H; now right). cbn [rev]. now rewrite <- app_assoc.
Qed.
Lemma nth_error_split_at {A} (l : list A) j x : nth_error l j = Some x -> exists l1 l2, l = l1 ++ x :: l2 /\ length l1 = j.
Proof. intros H. destruct (nth_error_split l j H) as (l1 & l2 & E & L). eauto. Qed.

Theorem coarse_chain_template_node fo F l dc T :
  FragText.wf (ctoks l) dc = true -> excluded (ctoks l) dc = false ->
  Lin.lins_ok fo (clins l) = true ->
  Forall (fun xo => ~ In ";"%char (fst (fst xo))) l ->
  read_coarse_fragment fo F (FragText.render (decorate (ctoks l) dc)) = Ok T ->
  forall j x o key, nth_error l j = Some (x, o) -> ~ In key coarse_written ->
    exists a, coarse_fragment_node fo (cn_text x) = Ok a /\ node_get T (Z.of_nat j) key = aget key a.
Proof.
  intros W X Lok Hs Read j x o key Hj Hk.
  pose proof Read as Read'. unfold read_coarse_fragment in Read.
  destruct (strip_bonding_descriptors fo (FragText.render (decorate (ctoks l) dc))) as [[[[clean desc] ez] ann]|] eqn:Strip; [|discriminate]. clear Read.
  destruct (coarse_template_exact fo F (ctoks l) dc W X clean desc ez ann Strip T Read') as (g & Eg & Kg & Hv).
  pose proof Strip as S2. rewrite (strip_correct fo _ _ W X) in S2. unfold strip_spec, spec_items in S2.
  destruct (spec_run fo sinit (decorate (ctoks l) dc)) as [sp'|] eqn:E1; cbn in S2; [|discriminate].
  assert (Ec : clean = Lin.lins_str (clins l)).
  { inversion S2; subst. rewrite (spec_clean fo _ _ _ E1). cbn [s_clean sinit app]. rewrite toks_of_decorate. apply clean_ctoks. }
  subst clean.
  destruct (base_annotation_flat_nobrace fo (clins l) g Lok Eg) as [Kn Hn]. rewrite node_texts_clins in Hn.
  destruct (Hn j (fst x) (map_nth_error (fun xo => fst (fst xo)) j l Hj)) as (ab & Pb & Nb).
  destruct (nth_error_split_at l j (x, o) Hj) as (l1 & l2 & El & Len).
  assert (Et : ctoks l = ctoks l1 ++ TBracket ("#"%char :: fst x) (snd x) :: (match o with Some s => [TBond (bs_of s)] | None => [] end) ++ ctoks l2).
  { unfold ctoks. rewrite El, flat_map_app. reflexivity. }
  destruct (decorate_split (ctoks l1) (TBracket ("#"%char :: fst x) (snd x)) ((match o with Some s => [TBond (bs_of s)] | None => [] end) ++ ctoks l2) dc)
    as (pre & post & D & Hp).
  rewrite <- Et in D.
  assert (Ha : atoms_of pre = j) by (rewrite atoms_of_toks, Hp, atoms_ctoks; exact Len).
  rewrite D in E1. destruct (spec_run_item_ok fo pre _ post sinit sp' E1) as (sp1 & sp2 & R1 & R2).
  cbn [spec_item spec_tok] in R2. fold (annot_text (snd x)) in R2.
  destruct (fragment_node_parser fo (annot_text (snd x))) as [extra|] eqn:Px; cbn [bind] in R2; [|discriminate].
  destruct (strip_annotation_reaches_attributes fo (ctoks l) dc pre ("#"%char :: fst x) (snd x) post _ desc ez ann extra W X D Strip Px) as (a' & Ga & Eq).
  rewrite Ha in Ga.
  assert (Hsemi : ~ In ";"%char (fst x)).
  { rewrite Forall_forall in Hs. apply (Hs (x, o)). eapply nth_error_In; exact Hj. }
  eexists. split.
  { unfold coarse_fragment_node, cn_text. rewrite (cut_semi_name (snd x) (fst x) [] Hsemi). cbn [rev app]. rewrite Px, Pb. cbn [bind]. reflexivity. }
  rewrite (Hv j key Hk). unfold node_attrs in Nb. unfold has_node, node_get.
  destruct (gfind (Z.of_nat j) g) as [n|]; [|discriminate]. injection Nb as Nb. rewrite Ga. unfold annotated_value.
  assert (NDx : NoDup (map fst extra)) by (unfold fragment_node_parser in Px; now apply parse_nodup in Px).
  rewrite (aget_aupdate_dict _ extra key NDx), (Eq key).
  destruct (aget key extra) as [v|]; [reflexivity|].
  cbn in Hk.
  rewrite aget_aset_other by (intros ->; apply Hk; tauto).
  rewrite ReturnedCar.aget_adel_other by (intros ->; apply Hk; tauto).
  rewrite Nb. destruct (aget (S "fragname") ab); [|reflexivity].
  rewrite aget_aset_other by (intros ->; apply Hk; tauto). reflexivity.
Qed.

(** ** C14_partial on the TEMPLATE node: a chain node written outside the defect class (only the name positional, keys other
    than q / x / the reserved long names) carries on the template what the documented coarse dialect promises *)
From CGV Require Import Dialect.CoarsePartial.
Theorem coarse_chain_partial fo F l dc T :
  FragText.wf (ctoks l) dc = true -> excluded (ctoks l) dc = false ->
  Lin.lins_ok fo (clins l) = true ->
  Forall (fun xo => ~ In ";"%char (fst (fst xo))) l ->
  read_coarse_fragment fo F (FragText.render (decorate (ctoks l) dc)) = Ok T ->
  forall j x o name kws xw, nth_error l j = Some (x, o) -> cn_text x = DialectDefs.render [name] kws ->
    clean name = true -> name <> [] ->
    Forall (fun kv => clean_entry kv = true) kws -> NoDup (keys kws) ->
    (forall k, In k (keys kws) -> ~ In k outside_names) ->
    w_value fo kws = Some xw ->
    node_get T (Z.of_nat j) (S "charge") = Some (VFlt (S "0.0")) /\
    node_get T (Z.of_nat j) (S "weight") = Some xw /\
    forall k v, In (k, v) kws -> k <> S "w" -> ~ In k coarse_written -> node_get T (Z.of_nat j) k = Some (VStr v).
Proof.
  intros W X Lok Hs Read j x o name kws xw Hj Etx Cn Nn Fk ND Out Hw.
  destruct (coarse_fragment_partial fo name kws xw Cn Nn Fk ND Out Hw) as (a & Ea & Hc & Hwt & Hf).
  assert (Hkey : forall key, ~ In key coarse_written -> node_get T (Z.of_nat j) key = aget key a).
  { intros key Hk. destruct (coarse_chain_template_node fo F l dc T W X Lok Hs Read j x o key Hj Hk) as (a' & Ea' & Hv).
    rewrite Etx, Ea in Ea'. injection Ea' as <-. exact Hv. }
  assert (Nc : ~ In (S "charge") coarse_written) by (cbn; intros [H|[H|[H|[H|[H|[]]]]]]; apply str_eqb_eq in H; vm_compute in H; discriminate H).
  assert (Nw : ~ In (S "weight") coarse_written) by (cbn; intros [H|[H|[H|[H|[H|[]]]]]]; apply str_eqb_eq in H; vm_compute in H; discriminate H).
  split; [rewrite (Hkey _ Nc); exact Hc|]. split; [rewrite (Hkey _ Nw); exact Hwt|].
  intros k v Hin Nk Hk. rewrite (Hkey _ Hk). now apply Hf.
Qed.

(** ** ... and on every copy in the graph a coarse resolve() returns *)
From CGV Require Import Resolve.Bonding Resolve.GraphOps Resolve.MapProofs Resolve.CopyProofs Resolve.Pipeline Resolve.PipelineFull Compose.CutModel.
From CGV Require Resolve.SortGraphProofs.
From CGV Require Import Dialect.CopyAnnot Dialect.ReturnedAnnot Dialect.ReturnedCoarse.
Theorem coarse_chain_partial_returned fo F l dc T :
  FragText.wf (ctoks l) dc = true -> excluded (ctoks l) dc = false ->
  Lin.lins_ok fo (clins l) = true ->
  Forall (fun xo => ~ In ";"%char (fst (fst xo))) l ->
  read_coarse_fragment fo F (FragText.render (decorate (ctoks l) dc)) = Ok T ->
  forall C, wf_cut C -> forall fd, templates_ok C fd -> wf_dict fd -> fd_get F fd = Some T ->
  forall B, is_base C B -> forall prev car fo_,
  meta_of prev = B -> resolve_step_full true false fd prev car = Ok fo_ ->
  exists m, sort_mapping (fo_m3 fo_) = Ok m /\
    forall j x o name kws xw, nth_error l j = Some (x, o) -> cn_text x = DialectDefs.render [name] kws ->
      clean name = true -> name <> [] ->
      Forall (fun kv => clean_entry kv = true) kws -> NoDup (keys kws) ->
      (forall k, In k (keys kws) -> ~ In k outside_names) ->
      w_value fo kws = Some xw ->
      forall p xs y, nth_error (c_parts C) p = Some (F, xs) -> nth_error xs j = Some y ->
        node_get (fo_mol fo_) (map_get m (phi C y)) (S "charge") = Some (VFlt (S "0.0")) /\
        node_get (fo_mol fo_) (map_get m (phi C y)) (S "weight") = Some xw /\
        forall k v, In (k, v) kws -> k <> S "w" -> ~ In k coarse_written -> carried_key k ->
          node_get (fo_mol fo_) (map_get m (phi C y)) k = Some (VStr v).
Proof.
  intros W X Lok Hs Read C WC fd HT Hwfd Hname B HB prev car fo_ HM Step.
  destruct (annotation_reaches_returned_graph_coarse C WC fd HT Hwfd B HB prev car fo_ HM Step) as (m & Em & _ & Hk).
  exists m. split; [exact Em|].
  intros j x o name kws xw Hj Etx Cn Nn Fk ND Out Hw p xs y Ep Ey.
  destruct (coarse_chain_partial fo F l dc T W X Lok Hs Read j x o name kws xw Hj Etx Cn Nn Fk ND Out Hw) as (Hc & Hwt & Hf).
  destruct (HT F xs (nth_error_In _ _ Ep)) as (T' & ET & IT). rewrite Hname in ET. injection ET as <-.
  destruct (it_attrs _ _ _ _ IT _ _ Ey) as (a0 & Na & _). unfold node_attrs in Na.
  destruct (gfind (Z.of_nat j) T) as [n|] eqn:Gn; [|discriminate].
  assert (Hret : forall key, carried_key key -> node_get (fo_mol fo_) (map_get m (phi C y)) key = node_get T (Z.of_nat j) key).
  { intros key Ck. rewrite (Hk p F xs T j y n key Ep Hname Ey Gn Ck). unfold node_get. now rewrite Gn. }
  assert (Cc : carried_key (S "charge")) by (repeat split; intros H; apply str_eqb_eq in H; vm_compute in H; discriminate H).
  assert (Cw : carried_key (S "weight")) by (repeat split; intros H; apply str_eqb_eq in H; vm_compute in H; discriminate H).
  split; [rewrite (Hret _ Cc); exact Hc|]. split; [rewrite (Hret _ Cw); exact Hwt|].
  intros k v Hin Nk Hcw Ck. rewrite (Hret _ Ck). now apply Hf.
Qed.

(** non-vacuity: {#F=[$][#X;w=2;k=v]=[#Y][$]} as a chain: the hypotheses hold, the fragment is read, template node 0 carries
    charge 0.0, weight 2.0 and k = v *)
Definition exch : list (cnode * option Grammar.sym) := [((S "X", Some (S "w=2;k=v")), Some Grammar.SDouble); ((S "Y", None), None)].
Definition exch_dc : decor := {| d_lead := [{| d_kind := "$"%char; d_label := []; d_sym := None |}];
                                 d_after := [[]; []; [{| d_kind := "$"%char; d_label := []; d_sym := None |}]] |}.
Example coarse_chain_example :
  FragText.render (decorate (ctoks exch) exch_dc) = S "[$][#X;w=2;k=v]=[#Y][$]" /\
  FragText.wf (ctoks exch) exch_dc = true /\ excluded (ctoks exch) exch_dc = false /\ Lin.lins_ok exc_fo (clins exch) = true /\
  cn_text (S "X", Some (S "w=2;k=v")) = DialectDefs.render [S "X"] [(S "w", S "2"); (S "k", S "v")] /\
  match read_coarse_fragment exc_fo (S "F") (FragText.render (decorate (ctoks exch) exch_dc)) with
  | Ok T => (node_get T 0 (S "charge"), node_get T 0 (S "weight"), node_get T 0 (S "k"))
            = (Some (VFlt (S "0.0")), Some (VFlt (S "2.0")), Some (VStr (S "v")))
  | Err _ => False
  end.
Proof. vm_compute. repeat split; reflexivity. Qed.
