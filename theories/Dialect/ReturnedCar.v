(** ReturnedCar: [ReturnedAnnot] for an ARBITRARY aromaticity transcript.  pysmiles' correct_aromatic_rings is
    third-party code; Hydro's model takes the graph it returned as a transcript [car] and accepts it only if
    [Hydrogens.transcript_contract] holds: same nodes in the same order, every node attribute except `aromatic`
    unchanged, same neighbours in the same order with every edge attribute except `order` unchanged.  What this file
    uses of that contract is [car_ok]: same node keys, same adjacency relation, same value under every node key but
    `aromatic`.  ([contract_keys] derives the structural part from the boolean contract; the attribute part is the
    contract's `attrs_eqb (mask aromatic ..)` clause, evaluated by the model on every recorded transcript.) *)
From Coq Require Import String.
From Coq Require Import List Ascii ZArith Bool Lia Permutation.
From CGV Require Import Base.PyBase Base.PyVal Base.NxGraph Gen.HydroGen Resolve.Bonding Resolve.GraphOps Resolve.MapProofs Resolve.CopyProofs
     Hydro.GraphLemmas Hydro.SquashDefs Hydro.HydroDefs.
From CGV Require Hydro.Hydrogens Hydro.Squash Hydro.RebuildProofs Hydro.SquashProofs Resolve.SortGraphProofs.
From CGV Require Import Compose.GraphAdj Compose.CutModel Compose.CutPos Compose.CutTables Compose.CutDisc Compose.CutSkeleton Compose.CutWf
     Compose.CutHydrogens Compose.CutSorted Compose.RebuildWf.
From CGV Require Import Dialect.CopyAnnot Dialect.ReturnedAnnot.
Import ListNotations.
Open Scope Z_scope.

Ltac nes := let E := fresh in intros E; apply str_eqb_eq in E; vm_compute in E; discriminate E.

Record car_ok (m2 g1 : graph) : Prop := {
  ck_keys : node_keys g1 = node_keys m2;
  ck_edges : forall y x, has_edge g1 y x = has_edge m2 y x;
  ck_attrs : forall k key, key <> S "aromatic" -> node_get g1 k key = node_get m2 k key }.

Definition car_key (key : pystr) : Prop := carried_key key /\ key <> S "aromatic".

Section ReturnedCar.
  Variable C : cut.
  Hypothesis W : wf_cut C.
  Variable fd : fragdict.
  Hypothesis HT : templates_ok C fd.
  Hypothesis Hwfd : wf_dict fd.
  Variable B : graph.
  Hypothesis HB : is_base C B.
  Hypothesis Hatoms : forall x, In x (flat C) ->
    (exists e, aget (S "element") (payload C x) = Some e) /\ (exists q, aget (S "charge") (payload C x) = Some q) /\
    (exists h, aget (S "hcount") (payload C x) = Some (VInt h)) /\ Hydrogens.is_H (payload C x) = false.

  Section Car.
    Variable m2 : graph.
    Hypothesis Sk : skeleton C true m2.
    Hypothesis Adj : adj_nodup m2.
    Variable g1 : graph.
    Hypothesis CK : car_ok m2 g1.
    Let Wf2 := cut_skeleton_wf C W true m2 Sk.

    Lemma car_wf : wf_graph g1.
    Proof. apply (SquashProofs.wf_transfer m2 g1 (ck_keys _ _ CK) (ck_edges _ _ CK) Wf2). Qed.
    Lemma car_has k : has_node g1 k = has_node m2 k.
    Proof.
      destruct (has_node m2 k) eqn:E.
      - apply gfind_has. rewrite (ck_keys _ _ CK). now apply gfind_has.
      - destruct (has_node g1 k) eqn:E1; [|reflexivity]. apply gfind_has in E1. rewrite (ck_keys _ _ CK) in E1. apply gfind_has in E1. congruence.
    Qed.
    Lemma car_node x : In x (flat C) -> exists n1 nn, gfind (phi C x) g1 = Some n1 /\ gfind (phi C x) m2 = Some nn /\
      forall key, key <> S "aromatic" -> aget key (na n1) = aget key (na nn).
    Proof.
      intros Fx. destruct (sk_gfind C m2 Sk x Fx) as [nn Gnn].
      assert (H1 : has_node g1 (phi C x) = true) by (rewrite car_has; unfold has_node; now rewrite Gnn).
      unfold has_node in H1. destruct (gfind (phi C x) g1) as [n1|] eqn:G1; [|discriminate].
      exists n1, nn. split; [reflexivity|]. split; [exact Gnn|]. intros key Nk.
      pose proof (ck_attrs _ _ CK (phi C x) key Nk) as E. unfold node_get in E. now rewrite G1, Gnn in E.
    Qed.
    Lemma car_no_rs : all_no_rs g1.
    Proof.
      intros i n G. assert (Hi : has_node m2 i = true) by (rewrite <- car_has; unfold has_node; now rewrite G).
      destruct (sk_onto C W true m2 Sk i Hi) as (x & Fx & <-). destruct (car_node x Fx) as (n1 & nn & G1 & Gnn & A).
      rewrite G in G1. inversion G1; subst n1. unfold RebuildProofs.no_rs.
      rewrite A by (nes).
      exact (no_rs_all C W m2 Sk _ _ Gnn).
    Qed.
    Lemma car_heavy x n1 : In x (flat C) -> gfind (phi C x) g1 = Some n1 -> Hydrogens.is_H (na n1) = false.
    Proof.
      intros Fx G. destruct (car_node x Fx) as (n1' & nn & G1 & Gnn & A). rewrite G in G1. inversion G1; subst n1'.
      destruct (heavy_attrs C Hatoms m2 Sk x nn Fx Gnn) as [NH _]. unfold Hydrogens.is_H, Hydrogens.is_elem in *.
      rewrite A; [exact NH|]. nes.
    Qed.

    Variable g4 : graph.
    Hypothesis Hr : Hydrogens.rebuild_h_atoms_default m2 (Some g1) = Ok g4.
    Lemma car_unfold : Hydrogens.rebuild_after_car false rebuild_copy_attrs_default g1 = Ok g4.
    Proof.
      unfold Hydrogens.rebuild_h_atoms_default, Hydrogens.rebuild_h_atoms in Hr.
      destruct (Hydrogens.transcript_contract m2 g1); [|discriminate]. exact Hr.
    Qed.
    Lemma car_completed_wf : wf_graph g4.
    Proof. apply (rebuild_wf rebuild_copy_attrs_default g1 g4 car_wf car_no_rs car_unfold). Qed.

    (** every atom of the cut keeps its node and every attribute but hcount *)
    Lemma car_atom_kept x : In x (flat C) -> exists n1 n', gfind (phi C x) g1 = Some n1 /\ gfind (phi C x) g4 = Some n' /\
      forall attr, attr <> S "hcount" -> aget attr (na n') = aget attr (na n1).
    Proof.
      intros Fx. destruct (car_node x Fx) as (n1 & nn & G1 & _ & _).
      destruct (RebuildProofs.wf_graph_structural g1 car_wf) as (Hn & Hcl & Hns).
      destruct (RebuildProofs.rebuild_end_to_end rebuild_copy_attrs_default g1 g4 Hn Hcl Hns car_no_rs car_unfold) as (R1 & _ & _).
      destruct (R1 _ _ G1 (car_heavy x n1 Fx G1)) as (val & b & idxs & n' & _ & _ & _ & _ & _ & G' & _ & At & _).
      exists n1, n'. auto.
    Qed.

    Lemma car_completed_fragid : map fst (get_node_attributes g4 (S "fragid")) = node_keys g4.
    Proof.
      pose proof car_completed_wf as Wf4.
      destruct (RebuildProofs.wf_graph_structural g1 car_wf) as (Hn & Hcl & Hns).
      destruct (RebuildProofs.rebuild_end_to_end rebuild_copy_attrs_default g1 g4 Hn Hcl Hns car_no_rs car_unfold) as (R1 & _ & R3).
      apply gna_all_keys. intros nd Hin. pose proof (gfind_in g4 (wf_nodup _ Wf4) nd Hin) as Gnd.
      assert (Fid : forall x, In x (flat C) -> forall n', gfind (phi C x) g4 = Some n' -> aget (S "fragid") (na n') <> None).
      { intros x Fx n' G'. destruct (car_atom_kept x Fx) as (n1 & n'' & G1 & G4 & At). rewrite G' in G4. inversion G4; subst n''.
        rewrite At by (nes).
        destruct (car_node x Fx) as (n1' & nn & G1' & Gnn & A). rewrite G1 in G1'. inversion G1'; subst n1'.
        rewrite A by (nes).
        rewrite (sk_aget C m2 x nn _ Fx Gnn). destruct (sk_attrs _ _ _ Sk x Fx) as (F & _). rewrite F. discriminate. }
      destruct (gfind (nk nd) g1) as [n|] eqn:G.
      - assert (Hk : has_node m2 (nk nd) = true) by (rewrite <- car_has; unfold has_node; now rewrite G).
        destruct (sk_onto C W true m2 Sk _ Hk) as (x & Fx & Ex). rewrite <- Ex in Gnd. exact (Fid x Fx nd Gnd).
      - destruct (R3 _ _ G Gnd) as (k & Hk & Am & _).
        assert (Hk' : has_node m2 k = true) by (rewrite <- car_has; unfold has_node; destruct (gfind k g1); [reflexivity|congruence]).
        destruct (sk_onto C W true m2 Sk k Hk') as (x & Fx & <-).
        destruct (car_node x Fx) as (n1 & nn & G1 & _ & _).
        destruct (R1 _ _ G1 (car_heavy x n1 Fx G1)) as (val & b & idxs & n' & _ & _ & _ & _ & _ & G' & A' & _ & Hh).
        assert (He : has_edge g4 (phi C x) (nk nd) = true).
        { rewrite <- (wf_sym _ Wf4). apply has_edge_in. exists nd, Hydrogens.h_edge_attrs. split; [exact Gnd|rewrite Am; now left]. }
        apply has_edge_in in He as (n'' & a & G'' & Hin''). rewrite G' in G''. inversion G''; subst n''. rewrite A' in Hin''.
        apply in_app_or in Hin'' as [Hin''|Hin''].
        + exfalso. apply (Hcl _ _ _ _ G1 Hin''). exact G.
        + apply in_map_iff in Hin'' as (j & E & Hj). inversion E; subst j. destruct (Hh _ Hj) as (h & Gh & _ & _ & Ah). rewrite Gnd in Gh. inversion Gh; subst h.
          rewrite (Ah (S "fragid")). cbn. discriminate.
    Qed.
  End Car.

  (** the returned graph, for ANY transcript of the aromaticity correction that Hydro's contract admits *)
  Theorem annotation_reaches_returned_graph_car :
    exists m1 fg1 m2 fg2,
      resolve_disconnected fd B = Ok (m1, fg1) /\ bonding_step true true B m1 fg1 = Ok (m2, fg2) /\
      Squash.squash_atoms m2 = Ok m2 /\
      forall g1 g4 g5, car_ok m2 g1 -> Hydrogens.rebuild_h_atoms_default m2 (Some g1) = Ok g4 -> sort_nodes_by_attr g4 = Ok g5 ->
      exists m, sort_mapping g4 = Ok m /\ SortGraphProofs.inj_on (map_get m) (node_keys g4) /\
        forall p name xs T i x n key,
          nth_error (c_parts C) p = Some (name, xs) -> fd_get name fd = Some T ->
          nth_error xs i = Some x -> gfind (Z.of_nat i) T = Some n -> car_key key ->
          In (phi C x) (node_keys g4) /\ node_get g5 (map_get m (phi C x)) key = aget key (na n).
  Proof.
    destruct (cut_all_atom_step C W fd HT B HB Hatoms) as (m1 & fg1 & m2 & fg2 & R & Bn & Sk & Adj & Wf2 & Sq).
    exists m1, fg1, m2, fg2. split; [exact R|]. split; [exact Bn|]. split; [exact Sq|].
    intros g1 g4 g5 CK Hr Hs.
    destruct (SortGraphProofs.sort_graph g4 g5 (car_completed_wf m2 Sk g1 CK g4 Hr) (car_completed_fragid m2 Sk g1 CK g4 Hr) Hs)
      as (m & Em & Inj & _ & _ & _ & A5).
    exists m. split; [exact Em|]. split; [exact Inj|].
    intros p name xs T i x n key Ep Ef Ex Gn ((K1 & K2 & K3 & K4) & K5).
    pose proof (part_atom_in_flat C p name xs i x Ep Ex) as Fx.
    destruct (disconnected_copy_exact C W fd HT Hwfd B HB m1 fg1 p name xs T i x n key R Ep Ef Ex Gn (conj K1 (conj K2 K3))) as [H1 V1].
    destruct (bonding_keeps_annotation true true B m1 fg1 m2 fg2 Bn _ H1) as [H2 V2].
    destruct (car_atom_kept m2 Sk g1 CK g4 Hr x Fx) as (n1 & n' & G1 & G4 & At).
    destruct (car_node m2 Sk g1 CK x Fx) as (n1' & nn & G1' & Gnn & A). rewrite G1 in G1'. inversion G1'; subst n1'.
    assert (Hin4 : In (phi C x) (node_keys g4)) by (apply gfind_has; unfold has_node; now rewrite G4).
    split; [exact Hin4|].
    rewrite (A5 _ key Hin4 K3). unfold node_get at 1. rewrite G4, (At key K4), (A key K5), (sk_aget C m2 x nn key Fx Gnn).
    rewrite (V2 key K4). exact V1.
  Qed.
End ReturnedCar.

(** ** Hydro's boolean contract gives [car_ok] (for attribute lists that are dicts: distinct keys) *)
From CGV Require Import Compose.PyEq Dialect.DialectProofs.
Definition dicts (g : graph) : Prop := Forall (fun n => NoDup (map fst (na n))) g.

Lemma ainsert_perm kv a : Permutation (ainsert kv a) (kv :: a).
Proof.
  induction a as [|x r IH]; cbn; [reflexivity|]. destruct (str_ltb (fst kv) (fst x)); [reflexivity|].
  rewrite IH. apply perm_swap.
Qed.
Lemma asort_perm a : Permutation (asort a) a.
Proof. unfold asort. induction a as [|x r IH]; cbn; [constructor|]. rewrite ainsert_perm. now constructor. Qed.
Lemma attrs_eqb_ordered_eq a : forall b, attrs_eqb_ordered a b = true -> a = b.
Proof.
  induction a as [|[k v] r IH]; intros [|[k' v'] r'] H; cbn in H; try discriminate; [reflexivity|].
  apply andb_prop in H as [H H3]. apply andb_prop in H as [H1 H2].
  apply str_eqb_eq in H1. apply pyval_eqb_sound in H2. subst. f_equal. now apply IH.
Qed.
Lemma attrs_eqb_aget a b : attrs_eqb a b = true -> NoDup (map fst a) -> forall k, aget k a = aget k b.
Proof.
  intros H ND k. unfold attrs_eqb in H. apply attrs_eqb_ordered_eq in H.
  assert (P : Permutation a b) by (rewrite <- (asort_perm a), H; apply asort_perm).
  rewrite !aget_assoc. now apply assoc_perm.
Qed.
Lemma adel_keys k a x : In x (map fst (adel k a)) -> In x (map fst a).
Proof.
  induction a as [|[k' v] r IH]; cbn; intros H; [assumption|]. destruct (str_eqb k k'); [now right|].
  cbn in H. destruct H; [now left|right; now apply IH].
Qed.
Lemma adel_nodup k a : NoDup (map fst a) -> NoDup (map fst (adel k a)).
Proof.
  induction a as [|[k' v] r IH]; cbn; intros H; [constructor|]. inversion H as [|? ? Hn Hr]; subst.
  destruct (str_eqb k k'); [assumption|]. cbn. constructor; [|now apply IH]. intros HI. apply Hn. now apply (adel_keys k).
Qed.
Lemma aget_adel_other k key a : key <> k -> aget key (adel k a) = aget key a.
Proof.
  intros N. induction a as [|[k' v] r IH]; cbn; [reflexivity|].
  destruct (str_eqb_spec k k') as [->|N2].
  - destruct (str_eqb_spec key k'); [congruence|reflexivity].
  - cbn. destruct (str_eqb key k'); [reflexivity|exact IH].
Qed.
Lemma same_but_attrs n m : Hydrogens.nrec_same_but n m = true -> NoDup (map fst (na n)) ->
  nk n = nk m /\ (forall key, key <> S "aromatic" -> aget key (na n) = aget key (na m)) /\
  map fst (nadj n) = map fst (nadj m).
Proof.
  unfold Hydrogens.nrec_same_but, Hydrogens.mask. intros H ND.
  apply andb_prop in H as [H H4]. apply andb_prop in H as [H H3]. apply andb_prop in H as [H1 H2].
  split; [now apply Z.eqb_eq|]. split.
  - intros key Nk. rewrite <- (aget_adel_other (S "aromatic") key (na n) Nk), <- (aget_adel_other (S "aromatic") key (na m) Nk).
    apply attrs_eqb_aget; [exact H2|now apply adel_nodup].
  - apply Nat.eqb_eq in H3. revert H3 H4. generalize (nadj n) (nadj m). intros l.
    induction l as [|x r IH]; intros [|y r'] L F; cbn in *; try discriminate; [reflexivity|].
    apply andb_prop in F as [F1 F2]. apply andb_prop in F1 as [F1 _]. apply Z.eqb_eq in F1. f_equal; [exact F1|].
    apply IH; [now inversion L|exact F2].
Qed.
Lemma adj_get_keys x l l' : map fst l = map fst l' ->
  (match adj_get x l with Some _ => true | None => false end) = (match adj_get x l' with Some _ => true | None => false end).
Proof.
  revert l'. induction l as [|[w a] r IH]; intros [|[w' a'] r'] E; cbn in *; try discriminate; [reflexivity|].
  inversion E; subst. destruct (Z.eqb w' x); [reflexivity|now apply IH].
Qed.
Theorem contract_car_ok m2 g1 : Hydrogens.transcript_contract m2 g1 = true -> dicts m2 -> car_ok m2 g1.
Proof.
  unfold Hydrogens.transcript_contract. intros H D. apply andb_prop in H as [H _]. apply andb_prop in H as [L F].
  apply Nat.eqb_eq in L.
  assert (P : (forall y, match gfind y m2, gfind y g1 with
                        | Some n, Some m => (forall key, key <> S "aromatic" -> aget key (na n) = aget key (na m)) /\
                                            map fst (nadj n) = map fst (nadj m)
                        | None, None => True | _, _ => False end) /\ node_keys g1 = node_keys m2).
  { revert g1 L F D. induction m2 as [|n r IH]; intros [|m r'] L F D; cbn in L; try discriminate; [split; [intros; exact I|reflexivity]|].
    cbn [combine forallb fst snd] in F. apply andb_prop in F as [F1 F2]. inversion D as [|? ? Dn Dr]; subst.
    destruct (same_but_attrs n m F1 Dn) as (K & A & Aj). destruct (IH r' (eq_add_S _ _ L) F2 Dr) as [Pr Kr]. split.
    - intros y. cbn [gfind]. rewrite <- K. destruct (Z.eqb (nk n) y); [split; assumption|apply Pr].
    - unfold node_keys in *. cbn [map]. now rewrite Kr, K. }
  destruct P as [P K]. constructor; [exact K| |].
  - intros y x. unfold has_edge. specialize (P y). destruct (gfind y m2) as [n|], (gfind y g1) as [m|]; try contradiction; [|reflexivity].
    destruct P as [_ Aj]. symmetry. now apply adj_get_keys.
  - intros k key Nk. unfold node_get. specialize (P k). destruct (gfind k m2) as [n|], (gfind k g1) as [m|]; try contradiction; [|reflexivity].
    destruct P as [A _]. symmetry. now apply A.
Qed.

(** ** one all-atom resolve(), end to end (model PipelineFull.resolve_step_full), for ANY recorded aromaticity transcript:
    the model itself rejects a transcript that violates Hydro's contract, so no hypothesis about [car] is left - only that
    the attribute lists of the molecule handed to rebuild_h_atoms are dicts (distinct keys) *)
From CGV Require Import Resolve.Pipeline Resolve.PipelineFull Stereo.EzImpl Stereo.EzProofs.
Theorem annotation_reaches_returned_graph_any_car C (W : wf_cut C) fd (HT : templates_ok C fd) (Hwfd : wf_dict fd) B (HB : is_base C B)
  (Hatoms : forall x, In x (flat C) ->
    (exists e, aget (S "element") (payload C x) = Some e) /\ (exists q, aget (S "charge") (payload C x) = Some q) /\
    (exists h, aget (S "hcount") (payload C x) = Some (VInt h)) /\ Hydrogens.is_H (payload C x) = false) prev g1 fo :
  meta_of prev = B -> resolve_step_full true true fd prev (Some g1) = Ok fo -> dicts (fo_m3 fo) ->
  exists m, sort_mapping (fo_m4 fo) = Ok m /\ SortGraphProofs.inj_on (map_get m) (node_keys (fo_m4 fo)) /\
    forall p name xs T i x n key,
      nth_error (c_parts C) p = Some (name, xs) -> fd_get name fd = Some T ->
      nth_error xs i = Some x -> gfind (Z.of_nat i) T = Some n -> returned_key key -> key <> S "aromatic" ->
      node_get (fo_mol fo) (map_get m (phi C x)) key = aget key (na n).
Proof.
  intros HM H HD.
  destruct (annotation_reaches_returned_graph_car C W fd HT Hwfd B HB Hatoms) as (m1 & fg1 & m2 & fg2 & R & Bn & Sq & Hall).
  unfold resolve_step_full in H. fold (meta_of prev) in H. rewrite HM, R in H. cbn [bind] in H. rewrite Bn in H. cbn [bind] in H.
  rewrite Sq in H. cbn [bind] in H.
  destruct (Hydrogens.rebuild_h_atoms_default m2 (Some g1)) as [m4|] eqn:E4; cbn [bind] in H; [|discriminate].
  destruct (sort_nodes_by_attr m4) as [m5|] eqn:E5; cbn [bind] in H; [|discriminate].
  destruct (annotate_ez_isomers_cgsmiles m5) as [m6|] eqn:E6; cbn [bind] in H; [|discriminate].
  destruct (annotate_fragments B m6) as [fgs|]; cbn [bind] in H; [|discriminate].
  destruct (set_atom_names m6 B fgs) as [[m7 fgs']|] eqn:E7; cbn [bind] in H; [|discriminate].
  injection H as <-. cbn [fo_m3 fo_m4 fo_mol] in *.
  assert (CK : car_ok m2 g1).
  { apply contract_car_ok; [|exact HD]. unfold Hydrogens.rebuild_h_atoms_default, Hydrogens.rebuild_h_atoms in E4.
    destruct (Hydrogens.transcript_contract m2 g1); [reflexivity|discriminate]. }
  destruct (Hall g1 m4 m5 CK E4 E5) as (m & Em & Inj & Hk). exists m. split; [exact Em|]. split; [exact Inj|].
  intros p name xs T i x n key Ep Ef Ex Gn (Ck & Na & Ne1 & Ne2) Nar.
  destruct (Hk p name xs T i x n key Ep Ef Ex Gn (conj Ck Nar)) as [_ V].
  rewrite (set_atom_names_keeps _ _ _ _ _ E7 _ key Na), (annotate_keeps m5 m6 _ key Ne1 Ne2 E6). exact V.
Qed.
