(** TemplateAnnot: the parsed annotation of a fragment atom is on the TEMPLATE atom that
    read_fragment_smiles returns - through the whole post-processing modelled in Hydro/Fragments.v
    (imported, not edited): default attributes, `set_node_attributes(mol_graph, attributes)`, atom names,
    the `z` trick that protects annotated hydrogens, pysmiles.remove_explicit_hydrogens, the E/Z classes.
    An annotated atom is never removed, and every annotation key that is not one of the keys those steps
    write (atomname, element, hcount, rs_isomer, ez_isomer_class, single_h_frag) keeps the parsed value. *)
From Coq Require Import String.
From Coq Require Import List Ascii ZArith Bool Lia.
From CGV Require Import Base.PyBase Base.PyVal Base.NxGraph Hydro.GraphLemmas Hydro.Hydrogens Hydro.Fragments
     Hydro.SquashDefs Resolve.GraphOps Resolve.MapProofs Resolve.CopyProofs Resolve.SortGraphProofs
     Dialect.DialectProofs Dialect.CopyAnnot.
From CGV Require Hydro.SquashProofs.
Import ListNotations.
Open Scope Z_scope.

Definition written_keys : list pystr :=
  [S "atomname"; S "element"; S "hcount"; S "rs_isomer"; S "ez_isomer_class"; S "single_h_frag"].
Definition is_H (g : graph) (k : Z) : Prop := node_get g k (S "element") = Some (VStr (S "H")).

Lemma node_get_has g k key v : node_get g k key = Some v -> has_node g k = true.
Proof. unfold node_get, has_node. destruct (gfind k g); [reflexivity|discriminate]. Qed.
Lemma has_keys_eq g h k : node_keys h = node_keys g -> has_node h k = has_node g k.
Proof.
  intros E. destruct (has_node g k) eqn:A.
  - apply gfind_has. rewrite E. now apply gfind_has.
  - destruct (has_node h k) eqn:B; [|reflexivity]. apply gfind_has in B. rewrite E in B. apply gfind_has in B. congruence.
Qed.

(** ** set_all_nodes *)
Lemma node_get_set_all g a v k key : key <> a -> node_get (set_all_nodes g a v) k key = node_get g k key.
Proof.
  intros N. unfold node_get, set_all_nodes. rewrite SquashProofs.gfind_map by reflexivity.
  destruct (gfind k g); cbn; [now apply aget_aset_other|reflexivity].
Qed.
Lemma gfind_set_all g a v k : gfind k (set_all_nodes g a v) = option_map (fun n => {| nk := nk n; na := aset a v (na n); nadj := nadj n |}) (gfind k g).
Proof. unfold set_all_nodes. now apply SquashProofs.gfind_map. Qed.

(** ** one step of remove_explicit_hydrogens' loop *)
Lemma elem_is_H a : elem_is (S "H") a = true -> aget (S "element") a = Some (VStr (S "H")).
Proof.
  unfold elem_is, getd. destruct (aget (S "element") a) as [v|]; [|cbn; discriminate].
  destruct v; try discriminate. intros H. apply str_eqb_eq in H. now subst.
Qed.
Definition keeps (g g' : graph) : Prop :=
  node_keys g' = node_keys g /\
  forall k key, key <> S "hcount" -> key <> S "rs_isomer" -> node_get g' k key = node_get g k key.
Lemma keeps_refl g : keeps g g. Proof. split; auto. Qed.
Lemma keeps_trans a b c : keeps a b -> keeps b c -> keeps a c.
Proof. intros [K1 G1] [K2 G2]. split; [congruence|]. intros k key N1 N2. rewrite G2, G1; auto. Qed.
Lemma keeps_set g k a v : a = S "hcount" \/ a = S "rs_isomer" -> keeps g (set_node_attr g k a v).
Proof.
  intros Ha. split; [apply keys_set|]. intros j key N1 N2. apply node_get_set_other. destruct Ha; congruence.
Qed.
Lemma remove_h_step_inv g rm k g' rm' : remove_h_step (g, rm) k = Ok (g', rm') ->
  keeps g g' /\ (rm' = rm \/ (rm' = rm ++ [k] /\ is_H g k)).
Proof.
  unfold remove_h_step. destruct (gfind k g) as [n|] eqn:G; [|discriminate].
  destruct (simple_h n) eqn:Sh; cbn [negb]; [|intros H; inversion H; subst; split; [apply keeps_refl|now left]].
  assert (HH : is_H g k).
  { unfold is_H, node_get. rewrite G. unfold simple_h in Sh. repeat (apply andb_prop in Sh as [Sh ?]). now apply elem_is_H. }
  destruct (nadj n) as [|[nb d] [|? ?]]; try (intros H; inversion H; subst; split; [apply keeps_refl|now left]).
  destruct (gfind nb g) as [nbn|]; cbn [of_option bind]; [|discriminate].
  destruct (elem_is (S "H") (na nbn) || negb (order_is_one d)); [intros H; inversion H; subst; split; [apply keeps_refl|now left]|].
  destruct (truthy (getd (S "ez_isomer") (na n) VNone)); [discriminate|].
  destruct (as_int (getd (S "hcount") (na nbn) (VInt 0))) as [hc|]; cbn [bind]; [|discriminate].
  destruct (aget (S "rs_isomer") (na nbn)) as [v|].
  - destruct (as_list v) as [l|]; cbn [bind]; [|discriminate]. intros H. inversion H; subst. split; [|right; auto].
    eapply keeps_trans; [apply keeps_set; now left|apply keeps_set; now right].
  - intros H. inversion H; subst. split; [apply keeps_set; now left|right; auto].
Qed.
Lemma remove_h_fold_inv ks : forall g rm g' rm', Hydrogens.fold_res remove_h_step ks (g, rm) = Ok (g', rm') ->
  keeps g g' /\ forall k, In k rm' -> In k rm \/ is_H g k.
Proof.
  induction ks as [|k r IH]; intros g rm g' rm' H; cbn [Hydrogens.fold_res] in H.
  - inversion H; subst. split; [apply keeps_refl|auto].
  - destruct (remove_h_step (g, rm) k) as [[g1 rm1]|] eqn:E; cbn [bind] in H; [|discriminate].
    destruct (remove_h_step_inv _ _ _ _ _ E) as [K1 R1]. destruct (IH _ _ _ _ H) as [K2 R2].
    split; [eapply keeps_trans; eassumption|]. intros j Hj. destruct (R2 j Hj) as [Hin|Hh].
    + destruct R1 as [->|[-> Hk]]; [now left|]. apply in_app_or in Hin. destruct Hin as [Hin|[<-|[]]]; [now left|now right].
    + right. unfold is_H in *. destruct K1 as [_ G1]. rewrite <- G1; [exact Hh| |]; intros X; apply (f_equal (@length _)) in X; vm_compute in X; discriminate X.
Qed.
Lemma remove_nodes_keep rm : forall g i, ~ In i rm ->
  has_node (fold_left remove_node rm g) i = has_node g i /\
  forall key, node_get (fold_left remove_node rm g) i key = node_get g i key.
Proof.
  induction rm as [|k r IH]; intros g i H; cbn [fold_left]; [auto|].
  assert (N : Z.eqb i k = false) by (apply Z.eqb_neq; intros ->; apply H; now left).
  destruct (IH (remove_node g k) i) as [A B]; [intros X; apply H; now right|]. split.
  - rewrite A. unfold has_node. rewrite SquashProofs.gfind_remove_node, N. now destruct (gfind i g).
  - intros key. rewrite B. unfold node_get. rewrite SquashProofs.gfind_remove_node, N. now destruct (gfind i g).
Qed.
(** pysmiles.remove_explicit_hydrogens never removes an atom whose element is not H, and leaves all of its
    attributes except hcount / rs_isomer alone *)
Theorem remove_h_keeps g g' i : remove_explicit_hydrogens g = Ok g' -> has_node g i = true -> ~ is_H g i ->
  has_node g' i = true /\
  forall key, key <> S "hcount" -> key <> S "rs_isomer" -> node_get g' i key = node_get g i key.
Proof.
  unfold remove_explicit_hydrogens. destruct (Hydrogens.fold_res remove_h_step (node_keys g) (g, [])) as [[g1 rm]|] eqn:E; cbn [bind]; [|discriminate].
  intros H Hi Hn. inversion H; subst g'. clear H.
  destruct (remove_h_fold_inv _ _ _ _ _ E) as [[K G] R].
  assert (Nrm : ~ In i rm) by (intros X; destruct (R i X) as [[]|Hh]; contradiction).
  destruct (remove_nodes_keep rm g1 i Nrm) as [A B].
  set (f := fun n : nrec => if ahas (S "hcount") (na n) then n else {| nk := nk n; na := aset (S "hcount") (VInt 0) (na n); nadj := nadj n |}).
  assert (Fk : forall n, nk (f n) = nk n) by (intros n; unfold f; destruct (ahas _ _); reflexivity).
  split.
  - assert (A' : has_node (fold_left remove_node rm g1) i = true) by (rewrite A, (has_keys_eq g g1 i K); exact Hi).
    unfold has_node in *. rewrite SquashProofs.gfind_map by exact Fk.
    destruct (gfind i (fold_left remove_node rm g1)); [reflexivity|discriminate].
  - intros key N1 N2. rewrite <- (G i key N1 N2), <- B. unfold node_get. rewrite SquashProofs.gfind_map by exact Fk.
    destruct (gfind i (fold_left remove_node rm g1)) as [n|]; [|reflexivity]. cbn [option_map]. unfold f.
    destruct (ahas _ (na n)); [reflexivity|]. cbn [na]. now apply aget_aset_other.
Qed.

(** ** the whole post-processing of read_fragment_smiles *)
Lemma keys_set_all g a v : node_keys (set_all_nodes g a v) = node_keys g.
Proof. unfold set_all_nodes, node_keys. now rewrite map_map. Qed.
Lemma keys_set_attr_dicts d : forall g, node_keys (set_attr_dicts g d) = node_keys g.
Proof.
  unfold set_attr_dicts. induction d as [|kv r IH]; intros g; cbn [fold_left]; [reflexivity|].
  rewrite IH. now apply keys_gupdate.
Qed.
Lemma node_get_from_other a d : forall g i key, ~ In i (map fst d) -> node_get (set_nodes_from g a d) i key = node_get g i key.
Proof.
  unfold set_nodes_from. induction d as [|[k' v] r IH]; intros g i key H; cbn [fold_left]; [reflexivity|].
  rewrite IH by (intros HI; apply H; now right). cbn [fst snd]. unfold node_get. rewrite gfind_set_node_attr.
  destruct (Z.eqb_spec i k') as [->|N]; [exfalso; apply H; now left|reflexivity].
Qed.
Lemma flat_keys_nodup (f : nrec -> bool) g : NoDup (node_keys g) -> NoDup (flat_map (fun n => if f n then [nk n] else []) g).
Proof.
  unfold node_keys. induction g as [|n r IH]; cbn; intros ND; [constructor|]. inversion ND as [|? ? Hn Hr]; subst.
  destruct (f n); cbn; [|now apply IH]. constructor; [|now apply IH].
  intros HI. apply Hn. apply in_flat_map in HI. destruct HI as [m [Hm HI]]. destruct (f m); [|destruct HI].
  destruct HI as [<-|[]]. now apply in_map.
Qed.
Lemma filter_nodup {A} (f : A -> bool) l : NoDup l -> NoDup (filter f l).
Proof.
  induction 1 as [|x r Hx Hr IH]; cbn; [constructor|]. destruct (f x); [|exact IH].
  constructor; [|exact IH]. intros HI. apply filter_In in HI. now apply Hx.
Qed.
Lemma pyval_eqb_str s : pyval_eqb (VStr s) (VStr s) = true.
Proof. cbn. apply str_eqb_refl. Qed.

Theorem template_annotation_post g0 fragname bonding ez attributes g i a key v n0 :
  read_fragment_post g0 fragname bonding ez attributes = Ok g ->
  NoDup (node_keys g0) -> NoDup (map fst attributes) -> In (i, a) attributes -> NoDup (map fst a) ->
  gfind i g0 = Some n0 -> In (key, v) a -> ~ In key written_keys ->
  node_get g i key = Some v.
Proof.
  intros H ND NDa Hin NDk G0 Hkv Hw. unfold read_fragment_post in H.
  assert (Nw : forall w, In w written_keys -> key <> w) by (intros w Hwi E; apply Hw; now rewrite E).
  set (g3 := set_all_nodes (set_all_nodes (set_all_nodes g0 (S "fragname") (VStr fragname)) (S "fragid") (VInt 0)) (S "weight") (VInt 1)) in *.
  set (g4 := set_nodes_from g3 (S "bonding") bonding) in *.
  set (g5 := set_attr_dicts g4 attributes) in *.
  assert (K3 : node_keys g3 = node_keys g0) by (unfold g3; now rewrite !keys_set_all).
  assert (K4 : node_keys g4 = node_keys g0) by (unfold g4; destruct (set_nodes_from_facts (S "bonding") bonding g3) as [K _]; now rewrite K).
  assert (K5 : node_keys g5 = node_keys g0) by (unfold g5; now rewrite keys_set_attr_dicts).
  assert (Hi0 : has_node g0 i = true) by (unfold has_node; now rewrite G0).
  assert (G4 : exists n4, gfind i g4 = Some n4).
  { apply SquashProofs.has_node_gfind. now rewrite (has_keys_eq g0 g4 i K4). }
  destruct G4 as [n4 G4].
  destruct (template_carries_annotation attributes g4 i a n4 key v NDa Hin G4 NDk Hkv) as [n5 [G5 A5]].
  assert (V5 : node_get g5 i key = Some v) by (unfold node_get, g5; now rewrite G5).
  match type of H with bind ?m _ = _ => destruct m as [names|] end; cbn [bind] in H; [|discriminate].
  set (g6 := set_nodes_from g5 (S "atomname") names) in *.
  destruct (set_nodes_from_facts (S "atomname") names g5) as [K6 [_ N6]]. fold g6 in K6, N6.
  assert (V6 : node_get g6 i key = Some v) by (rewrite N6; [exact V5|apply Nw; cbn; tauto]).
  assert (K6' : node_keys g6 = node_keys g0) by congruence.
  destruct (Nat.eqb (length g6) 1).
  - (* a single atom *)
    destruct (gfind 0 g6) as [n06|]; cbn [of_option bind] in H; [|discriminate].
    destruct (aget (S "element") (na n06)) as [e|]; cbn [of_option bind] in H; [|discriminate].
    destruct (pyval_eqb e (VStr (S "H"))); inversion H; subst g;
      (rewrite node_get_set_other; [exact V6|apply Nw; cbn; tauto]).
  - set (hatoms := flat_map (fun n => if pyval_eqb (getd (S "element") (na n) VNone) (VStr (S "H")) then [nk n] else []) g6) in *.
    set (keep := filter (fun k => existsb (fun kv : Z * attrs => Z.eqb (fst kv) k) attributes) hatoms) in *.
    set (g7 := set_nodes_from g6 (S "element") (map (fun k => (k, VStr (S "z"))) keep)) in *.
    destruct (set_nodes_from_facts (S "element") (map (fun k => (k, VStr (S "z"))) keep) g6) as [K7 [_ N7]]. fold g7 in K7, N7.
    assert (V7 : node_get g7 i key = Some v) by (rewrite N7; [exact V6|apply Nw; cbn; tauto]).
    assert (Hi7 : has_node g7 i = true) by (rewrite (has_keys_eq g0 g7 i); [exact Hi0|congruence]).
    assert (NH : ~ is_H g7 i).
    { unfold is_H. destruct (in_dec Z.eq_dec i keep) as [Ik|Nk].
      - unfold g7. rewrite (set_from_get (S "element") (map (fun k => (k, VStr (S "z"))) keep) g6 i (VStr (S "z"))).
        + intros X. inversion X.
        + rewrite map_map. cbn [fst]. rewrite map_id. apply filter_nodup. apply flat_keys_nodup. now rewrite K6'.
        + apply in_map_iff. exists i. auto.
        + rewrite (has_keys_eq g0 g6 i K6'). exact Hi0.
      - unfold g7. rewrite node_get_from_other by (rewrite map_map; cbn [fst]; now rewrite map_id).
        intros X. apply Nk. unfold keep. apply filter_In. split.
        + unfold hatoms. apply in_flat_map. unfold node_get in X. destruct (gfind i g6) as [n6|] eqn:G6; [|discriminate].
          exists n6. split; [now apply gfind_In in G6|]. unfold getd. rewrite X, pyval_eqb_str. left. now apply gfind_key in G6.
        + apply existsb_exists. exists (i, a). split; [exact Hin|apply Z.eqb_refl]. }
    destruct (remove_explicit_hydrogens g7) as [g8|] eqn:E8; cbn [bind] in H; [|discriminate].
    destruct (remove_h_keeps g7 g8 i E8 Hi7 NH) as [Hi8 N8].
    assert (V8 : node_get g8 i key = Some v) by (rewrite N8; [exact V7|apply Nw; cbn; tauto|apply Nw; cbn; tauto]).
    match type of H with bind ?m _ = _ => destruct m as [cls|] end; cbn [bind] in H; [|discriminate]. inversion H; subst g.
    destruct (set_nodes_from_facts (S "ez_isomer_class") cls
                (set_nodes_from g8 (S "element") (map (fun k => (k, VStr (S "H"))) keep))) as [_ [_ N10]].
    rewrite N10 by (apply Nw; cbn; tauto).
    destruct (set_nodes_from_facts (S "element") (map (fun k => (k, VStr (S "H"))) keep) g8) as [_ [_ N9]].
    rewrite N9 by (apply Nw; cbn; tauto). exact V8.
Qed.

(** ** the EXACT value of every other key on the template atom: what the annotation says, else what pysmiles said *)
Fixpoint zassoc {A} (k : Z) (l : list (Z * A)) : option A :=
  match l with [] => None | (k', v) :: r => if Z.eqb k k' then Some v else zassoc k r end.
Lemma zassoc_notin {A} k (l : list (Z * A)) : ~ In k (map fst l) -> zassoc k l = None.
Proof.
  induction l as [|[k' v] r IH]; cbn; intros H; [reflexivity|].
  destruct (Z.eqb_spec k k') as [->|N]; [exfalso; apply H; now left|]. apply IH. intros HI; apply H; now right.
Qed.
Lemma zassoc_in {A} k (l : list (Z * A)) v : zassoc k l = Some v -> In (k, v) l.
Proof.
  induction l as [|[k' w] r IH]; cbn; intros H; [discriminate|].
  destruct (Z.eqb_spec k k') as [->|N]; [inversion H; now left|right; now apply IH].
Qed.
Definition annotated_value (key : pystr) (ann : option attrs) (old : option pyval) : option pyval :=
  match ann with Some a => match aget key a with Some v => Some v | None => old end | None => old end.
Lemma aget_aupdate_dict old a key : NoDup (map fst a) ->
  aget key (aupdate old a) = match aget key a with Some v => Some v | None => aget key old end.
Proof. intros ND. rewrite aget_aupdate, assoc_rev by exact ND. now rewrite <- aget_assoc. Qed.
Lemma set_attr_dicts_exact d : forall g j key, NoDup (map fst d) -> (forall i a, In (i, a) d -> NoDup (map fst a)) ->
  node_get (set_attr_dicts g d) j key = match gfind j g with Some _ => annotated_value key (zassoc j d) (node_get g j key) | None => None end.
Proof.
  unfold set_attr_dicts. induction d as [|[k b] r IH]; intros g j key ND Hd; cbn [fold_left zassoc].
  - unfold annotated_value, node_get. now destruct (gfind j g).
  - inversion ND as [|? ? Hn Hr]; subst. cbn [fst snd].
    rewrite IH; [|exact Hr|intros i a Hi; apply (Hd i a); now right].
    rewrite gfind_gupdate by reflexivity. unfold node_get. rewrite gfind_gupdate by reflexivity.
    destruct (Z.eqb_spec j k) as [->|N].
    + rewrite (zassoc_notin k r Hn). destruct (gfind k g) as [n|]; cbn; [|reflexivity].
      unfold annotated_value. apply aget_aupdate_dict. apply (Hd k b). now left.
    + destruct (gfind j g); reflexivity.
Qed.

Ltac nes := let E := fresh in intros E; apply str_eqb_eq in E; vm_compute in E; discriminate E.
Definition default_keys : list pystr := [S "fragname"; S "fragid"; S "weight"; S "bonding"].

Theorem template_exact_post g0 fragname bonding ez attributes g j key :
  read_fragment_post g0 fragname bonding ez attributes = Ok g ->
  NoDup (node_keys g0) -> NoDup (map fst attributes) -> (forall i a, In (i, a) attributes -> NoDup (map fst a)) ->
  has_node g0 j = true ->
  (In j (map fst attributes) \/ node_get g0 j (S "element") <> Some (VStr (S "H"))) ->
  (forall a, zassoc j attributes = Some a -> aget (S "element") a = None) ->
  ~ In key written_keys -> ~ In key default_keys ->
  node_get g j key = annotated_value key (zassoc j attributes) (node_get g0 j key).
Proof.
  intros H ND NDa NDk Hj0 Hcase Hel Hw Hdk. unfold read_fragment_post in H.
  assert (Nw : forall w, In w written_keys -> key <> w) by (intros w Hwi E; apply Hw; now rewrite E).
  assert (Nd : forall w, In w default_keys -> key <> w) by (intros w Hwi E; apply Hdk; now rewrite E).
  set (g3 := set_all_nodes (set_all_nodes (set_all_nodes g0 (S "fragname") (VStr fragname)) (S "fragid") (VInt 0)) (S "weight") (VInt 1)) in *.
  set (g4 := set_nodes_from g3 (S "bonding") bonding) in *.
  set (g5 := set_attr_dicts g4 attributes) in *.
  assert (K3 : node_keys g3 = node_keys g0) by (unfold g3; now rewrite !keys_set_all).
  destruct (set_nodes_from_facts (S "bonding") bonding g3) as [K4' [_ N4]]. fold g4 in K4', N4.
  assert (K4 : node_keys g4 = node_keys g0) by congruence.
  assert (K5 : node_keys g5 = node_keys g0) by (unfold g5; now rewrite keys_set_attr_dicts).
  assert (G4 : forall k, k <> S "fragname" -> k <> S "fragid" -> k <> S "weight" -> k <> S "bonding" -> node_get g4 j k = node_get g0 j k).
  { intros k A1 A2 A3 A4. rewrite N4 by exact A4. unfold g3. now rewrite !node_get_set_all. }
  assert (H4 : has_node g4 j = true) by (rewrite (has_keys_eq g0 g4 j K4); exact Hj0).
  assert (V5 : forall k, k <> S "fragname" -> k <> S "fragid" -> k <> S "weight" -> k <> S "bonding" ->
                 node_get g5 j k = annotated_value k (zassoc j attributes) (node_get g0 j k)).
  { intros k A1 A2 A3 A4. unfold g5. rewrite (set_attr_dicts_exact attributes g4 j k NDa NDk).
    unfold has_node in H4. destruct (gfind j g4); [|discriminate]. now rewrite G4. }
  assert (Vk : node_get g5 j key = annotated_value key (zassoc j attributes) (node_get g0 j key))
    by (apply V5; apply Nd; cbn; tauto).
  match type of H with bind ?m _ = _ => destruct m as [names|] end; cbn [bind] in H; [|discriminate].
  set (g6 := set_nodes_from g5 (S "atomname") names) in *.
  destruct (set_nodes_from_facts (S "atomname") names g5) as [K6 [_ N6]]. fold g6 in K6, N6.
  assert (V6 : node_get g6 j key = node_get g5 j key) by (apply N6; apply Nw; cbn; tauto).
  assert (K6' : node_keys g6 = node_keys g0) by congruence.
  assert (E6 : node_get g6 j (S "element") = annotated_value (S "element") (zassoc j attributes) (node_get g0 j (S "element"))).
  { rewrite N6 by nes. apply V5; nes. }
  destruct (Nat.eqb (length g6) 1).
  - destruct (gfind 0 g6) as [n06|]; cbn [of_option bind] in H; [|discriminate].
    destruct (aget (S "element") (na n06)) as [e|]; cbn [of_option bind] in H; [|discriminate].
    destruct (pyval_eqb e (VStr (S "H"))); inversion H; subst g;
      (rewrite node_get_set_other; [now rewrite V6|apply Nw; cbn; tauto]).
  - set (hatoms := flat_map (fun n => if pyval_eqb (getd (S "element") (na n) VNone) (VStr (S "H")) then [nk n] else []) g6) in *.
    set (keep := filter (fun k => existsb (fun kv : Z * attrs => Z.eqb (fst kv) k) attributes) hatoms) in *.
    set (g7 := set_nodes_from g6 (S "element") (map (fun k => (k, VStr (S "z"))) keep)) in *.
    destruct (set_nodes_from_facts (S "element") (map (fun k => (k, VStr (S "z"))) keep) g6) as [K7 [_ N7]]. fold g7 in K7, N7.
    assert (V7 : node_get g7 j key = node_get g6 j key) by (apply N7; apply Nw; cbn; tauto).
    assert (Hi7 : has_node g7 j = true) by (rewrite (has_keys_eq g0 g7 j); [exact Hj0|congruence]).
    assert (NH : ~ is_H g7 j).
    { unfold is_H. destruct (in_dec Z.eq_dec j keep) as [Ik|Nk].
      - unfold g7. rewrite (set_from_get (S "element") (map (fun k => (k, VStr (S "z"))) keep) g6 j (VStr (S "z"))).
        + intros X. inversion X.
        + rewrite map_map. cbn [fst]. rewrite map_id. apply filter_nodup. apply flat_keys_nodup. now rewrite K6'.
        + apply in_map_iff. exists j. auto.
        + rewrite (has_keys_eq g0 g6 j K6'). exact Hj0.
      - unfold g7. rewrite node_get_from_other by (rewrite map_map; cbn [fst]; now rewrite map_id).
        intros X. destruct Hcase as [Hin|Hne].
        + apply Nk. unfold keep. apply filter_In. split.
          * unfold hatoms. apply in_flat_map. unfold node_get in X. destruct (gfind j g6) as [n6|] eqn:G6; [|discriminate].
            exists n6. split; [now apply gfind_In in G6|]. unfold getd. rewrite X, pyval_eqb_str. left. now apply gfind_key in G6.
          * apply in_map_iff in Hin as ([j' a] & Ej & Hin). cbn in Ej. subst j'. apply existsb_exists. exists (j, a). split; [exact Hin|apply Z.eqb_refl].
        + apply Hne. rewrite E6 in X. unfold annotated_value in X. destruct (zassoc j attributes) as [a|] eqn:Za; [|exact X].
          rewrite (Hel a eq_refl) in X. exact X. }
    destruct (remove_explicit_hydrogens g7) as [g8|] eqn:E8; cbn [bind] in H; [|discriminate].
    destruct (remove_h_keeps g7 g8 j E8 Hi7 NH) as [Hi8 N8].
    assert (V8 : node_get g8 j key = node_get g7 j key) by (apply N8; apply Nw; cbn; tauto).
    match type of H with bind ?m _ = _ => destruct m as [cls|] end; cbn [bind] in H; [|discriminate]. inversion H; subst g.
    destruct (set_nodes_from_facts (S "ez_isomer_class") cls
                (set_nodes_from g8 (S "element") (map (fun k => (k, VStr (S "H"))) keep))) as [_ [_ N10]].
    rewrite N10 by (apply Nw; cbn; tauto).
    destruct (set_nodes_from_facts (S "element") (map (fun k => (k, VStr (S "H"))) keep) g8) as [_ [_ N9]].
    rewrite N9 by (apply Nw; cbn; tauto). now rewrite V8, V7, V6.
Qed.
