(** DialectImpl: Impl model of dialects._parse_dialect_string (with check_and_cast_types and
    inspect.Signature.bind / apply_defaults for a signature of positional-or-keyword
    parameters followed by a var-keyword parameter), over the dialect tables GENERATED from dialects.py.
    Python's float() is not modelled: it is an oracle [fo : text -> option repr]
    (None = ValueError), recorded from the running interpreter for every text of a run;
    theorems quantify over every such oracle.  No proofs here.

    Validated against the implementation (tools/props/c14.py, every run) on: empty text, empty
    entries, positional/keyword mixtures in any interleaving, duplicate keys (dict: last value wins,
    first position kept), keyword naming a parameter that is also filled positionally, more
    positionals than parameters, entries with two or more '=', free keys (including '', 'kwargs',
    'charge', 'weight', blanks inside keys), and the numeric spellings accepted or refused by float().

    The renaming step [arg_to_fullname] is modelled as a map over the key names; this is what the loop
    `arguments[new] = arguments.pop(old)` computes whenever no new name is a parameter name or
    another old name (checked for the generated tables in DialectProofs.wf_generated; a table
    leaving that shape breaks that lemma). *)
From Coq Require Import String.
From Coq Require Import List Ascii ZArith Bool.
From CGV Require Import Base.PyBase Base.PyVal Gen.DialectGen.
Import ListNotations.

Definition float_oracle := pystr -> option pystr.

(** split the annotation into positional values and keyword pairs (dict: last value wins,
    position of the first occurrence kept) *)
Definition kwdict := list (pystr * pystr).
Fixpoint kw_set (k v : pystr) (d : kwdict) : kwdict :=
  match d with
  | [] => [(k, v)]
  | (k', v') :: r => if str_eqb k k' then (k', v) :: r else (k', v') :: kw_set k v r
  end.
Fixpoint kw_get (k : pystr) (d : kwdict) : option pystr :=
  match d with [] => None | (k', v) :: r => if str_eqb k k' then Some v else kw_get k r end.
Definition kw_del (k : pystr) (d : kwdict) : kwdict := filter (fun kv => negb (str_eqb k (fst kv))) d.

Fixpoint split_entries (entries : list pystr) (args : list pystr) (kws : kwdict) : res (list pystr * kwdict) :=
  match entries with
  | [] => Ok (args, kws)
  | e :: r =>
      if Nat.ltb 1 (py_count e "="%char) then Err (ESyntax (S "toomany_eq"))
      else match py_split e "="%char with
           | [x] => split_entries r (args ++ [x]) kws
           | k :: v :: _ => split_entries r args (kw_set k v kws)
           | [] => split_entries r args kws
           end
  end.

(** `if len(string) > 0: elements = string.split(';') …` *)
Definition split_annotation (s : pystr) : res (list pystr * kwdict) :=
  match s with [] => Ok ([], []) | _ => split_entries (py_split s ";"%char) [] [] end.

(** Signature.bind( args, kwargs ) followed by check_and_cast_types and apply_defaults:
    walk the parameters in order. *)
Definition cast (fo : float_oracle) (t : ptype_t) (v : pystr) : res pyval :=
  match t with
  | TStr => Ok (VStr v)
  | TFloat => match fo v with Some r => Ok (VFlt r) | None => Err EType end
  end.

(** bind phase only (errors of bind come before errors of the casts) *)
Fixpoint bind_params (ps : list param) (args : list pystr) (kws : kwdict)
  : res (list (param * option pystr) * kwdict) :=
  match ps with
  | [] => match args with [] => Ok ([], kws) | _ => Err (ESyntax (S "bind")) end
  | p :: r =>
      match args with
      | a :: args' =>
          match kw_get (pname p) kws with
          | Some _ => Err (ESyntax (S "bind"))            (* multiple values for argument *)
          | None => '(bound, rest) <- bind_params r args' kws ;; Ok ((p, Some a) :: bound, rest)
          end
      | [] =>
          match kw_get (pname p) kws with
          | Some v => '(bound, rest) <- bind_params r [] (kw_del (pname p) kws) ;; Ok ((p, Some v) :: bound, rest)
          | None => '(bound, rest) <- bind_params r [] kws ;; Ok ((p, None) :: bound, rest)
          end
      end
  end.

Fixpoint cast_bound (fo : float_oracle) (bound : list (param * option pystr)) : res (list (pystr * option pyval)) :=
  match bound with
  | [] => Ok []
  | (p, Some v) :: r => x <- cast fo (ptype p) v ;; rest <- cast_bound fo r ;; Ok ((pname p, Some x) :: rest)
  | (p, None) :: r => rest <- cast_bound fo r ;; Ok ((pname p, pdefault p) :: rest)
  end.

Definition rename_key (ren : list (pystr * pystr)) (k : pystr) : pystr :=
  match find (fun ab => str_eqb k (fst ab)) ren with Some ab => snd ab | None => k end.

(** drop None, rename, free keys first then the reserved ones (dict update order) *)
Definition reserved_items (dl : dialect) (vals : list (pystr * option pyval)) : attrs :=
  flat_map (fun kv => match snd kv with Some v => [(rename_key (rename dl) (fst kv), v)] | None => [] end) vals.
Definition free_items (rest : kwdict) : attrs := map (fun kv => (fst kv, VStr (snd kv))) rest.
Definition finish (dl : dialect) (vals : list (pystr * option pyval)) (rest : kwdict) : attrs :=
  aupdate (aupdate [] (free_items rest)) (reserved_items dl vals).

(** everything after the splitting of the text *)
Definition bind_cast (fo : float_oracle) (dl : dialect) (args : list pystr) (kws : kwdict) : res attrs :=
  '(bound, rest) <- bind_params (params dl) args kws ;;
  _ <- (if negb (accept_kwargs dl) && match rest with [] => false | _ => true end then Err (ESyntax (S "bind")) else Ok tt) ;;
  vals <- cast_bound fo bound ;;
  Ok (finish dl vals rest).

Definition parse_dialect (fo : float_oracle) (dl : dialect) (s : pystr) : res attrs :=
  '(args, kws) <- split_annotation s ;;
  bind_cast fo dl args kws.

Definition parse_graph_base_node (fo : float_oracle) (s : pystr) : res attrs := parse_dialect fo graph_base_dialect s.
Definition fragment_node_parser (fo : float_oracle) (s : pystr) : res attrs := parse_dialect fo fragment_node_dialect s.

(** an oracle given as a finite table (what the harness recorded); texts not in the table are
    never asked on the recorded inputs *)
Definition fo_of_table (t : list (pystr * option pystr)) : float_oracle :=
  fun s => match find (fun kv => str_eqb s (fst kv)) t with Some kv => snd kv | None => None end.
