(** DialectCheck: executable form of property C14's clauses, evaluated on what the IMPLEMENTATION
    returned, and the correspondence of the Impl model (DialectImpl) with the implementation.
    Imports only model + definitions (never a proof file). *)
From Coq Require Import String.
From Coq Require Import List Ascii ZArith Bool.
From CGV Require Import Base.PyBase Base.PyVal Gen.DialectGen Dialect.DialectImpl Dialect.DialectDefs.
Import ListNotations.

Definition table := list (pystr * option pystr).
(** 0 = base graph / coarse nodes, otherwise atoms *)
Definition dl_model (d : nat) : dialect := match d with O => graph_base_dialect | _ => fragment_node_dialect end.
Definition dl_doc (d : nat) : dialect := match d with O => doc_coarse | _ => doc_atomic end.

Record annot := { a_assign : list entry; a_free : list entry; a_ents : list ent }.

Inductive case :=
(** raw text (fuzz, faults): correspondence only *)
| CParse (d : nat) (tbl : table) (text : pystr) (impl : res attrs)
(** one abstract annotation, several writings; for each: the text handed to the implementation
    and what it returned *)
| CForms (d : nat) (tbl : table) (assign free : list entry) (variants : list (list ent * pystr * res attrs))
(** propagation through MoleculeResolver.from_string(…).resolve(): per coarse node its writing,
    the text in the string and the attributes of that node of the returned coarse graph; per annotated
    fragment atom the fragment's name, the writing, the text and the attributes of every copy in the
    fine graph *)
| CProp (tbl : table) (aa : bool) (exc : option err)
        (base : list (annot * pystr * attrs))
        (atoms : list (pystr * annot * pystr * list attrs))
(** a MULTIPLIED annotated coarse node `[#X;..]|n` inside the definition of fragment [fname], coarse step: the base nodes
    as in CProp, the writing and text of the node, and per use of the fragment the attributes of the n consecutive
    nodes of the fine graph the token stands for *)
| CMult (tbl : table) (base : list (annot * pystr * attrs)) (fname : pystr) (a : annot) (text : pystr) (n : nat)
        (copies : list (list attrs)).

(** ---------------- model side ---------------- *)
Fixpoint cut_semi (s acc : pystr) : pystr * pystr :=
  match s with
  | [] => (rev acc, [])
  | c :: r => if Ascii.eqb c ";"%char then (rev acc, r) else cut_semi r (c :: acc)
  end.
(** attributes of a coarse node written inside a fragment definition, as the code computes them today:
    strip_bonding_descriptors parses what follows the first ';' with the ATOM dialect, read_cgsmiles
    parses the bare name with the base dialect, read_fragment_cgsmiles layers atomname/'w'/the
    stripped attributes on top (fragname, fragid, bonding are not compared) *)
Definition coarse_fragment_node (fo : float_oracle) (text : pystr) : res attrs :=
  let '(name, ann) := cut_semi text [] in
  extra <- fragment_node_parser fo ann ;;
  base <- parse_graph_base_node fo name ;;
  let base1 := match aget (S "fragname") base with Some v => aset (S "atomname") v base | None => base end in
  Ok (aupdate (aset (S "w") (VInt 1) (adel (S "fragname") base1)) extra).

Definition model_atom (fo : float_oracle) (aa : bool) (text : pystr) : res attrs :=
  if aa then fragment_node_parser fo text else coarse_fragment_node fo text.

Definition corr_ok (c : case) : bool :=
  match c with
  | CParse d tbl text impl => res_attrs_eqb (parse_dialect (fo_of_table tbl) (dl_model d) text) impl
  | CForms d tbl _ _ vs =>
      forallb (fun v => let '(_, text, impl) := v in
                        res_attrs_eqb (parse_dialect (fo_of_table tbl) (dl_model d) text) impl) vs
  | CProp tbl aa exc base atoms =>
      match exc with
      | Some e =>
          (* the implementation raised: the model must predict that error for some node or atom *)
          existsb (fun b => let '(_, text, _) := b in
                            match parse_graph_base_node (fo_of_table tbl) text with
                            | Err e' => err_eqb e e' | Ok _ => false end) base ||
          existsb (fun x => let '(_, _, text, _) := x in
                            match model_atom (fo_of_table tbl) aa text with
                            | Err e' => err_eqb e e' | Ok _ => false end) atoms
      | None =>
          (* the attribute lists handed over are dicts (hypothesis [dicts] of the returned-graph theorems) *)
          forallb (fun b => nodupb (map fst (snd b))) base &&
          forallb (fun x => forallb (fun c => nodupb (map fst c)) (snd x)) atoms &&
          forallb (fun b => let '(_, text, obs) := b in
                            match parse_graph_base_node (fo_of_table tbl) text with
                            | Ok a => submapb a obs | Err _ => false end) base &&
          forallb (fun x => let '(_, _, text, copies) := x in
                            match model_atom (fo_of_table tbl) aa text with
                            | Ok a => forallb (submapb a) copies | Err _ => false end) atoms
      end
  | CMult tbl _ _ _ text _ copies =>
      (* what the code does today: strip_bonding_descriptors records the annotation for ONE node index and hands
         `[#X]|n` to read_cgsmiles, so the first of the n nodes carries the annotation and the others are bare *)
      let fo := fo_of_table tbl in
      match coarse_fragment_node fo text, coarse_fragment_node fo (fst (cut_semi text [])) with
      | Ok a1, Ok a0 =>
          forallb (fun cs => match cs with c :: r => submapb a1 c && forallb (submapb a0) r | [] => false end) copies
      | _, _ => false
      end
  end.

(** ---------------- property side ---------------- *)
Fixpoint first_fail (l : list nat) : nat := match l with [] => 0%nat | 0%nat :: r => first_fail r | n :: _ => n end.

Definition annot_ok (dl : dialect) (a : annot) (text : pystr) : bool :=
  wf_annot dl (a_assign a) (a_free a) && writing_ok dl (a_assign a) (a_free a) (a_ents a) &&
  str_eqb (render_ents (a_ents a)) text.

(** compare an observed attribute map with the promised one, clause by clause *)
Definition key_code (dl : dialect) (assign : list entry) (k : pystr) : nat :=
  match find (fun p => str_eqb k (long_name dl (pname p))) (params dl) with
  | Some p => match kw_get (pname p) assign with Some _ => 3%nat | None => 2%nat end
  | None => 4%nat
  end.
Definition check_exact (dl : dialect) (assign : list entry) (e obs : attrs) : nat :=
  match first_fail (map (fun kv => match aget (fst kv) obs with
                                   | Some v => if pyval_eqb v (snd kv) then 0%nat else key_code dl assign (fst kv)
                                   | None => key_code dl assign (fst kv) end) e) with
  | 0%nat => if forallb (fun kv => ahas (fst kv) e) obs then 0%nat else 5%nat
  | n => n
  end.

Definition forms_fail (d : nat) (tbl : table) (assign free : list entry)
           (vs : list (list ent * pystr * res attrs)) : nat :=
  let dl := dl_doc d in
  if negb (wf_annot dl assign free &&
           forallb (fun v => let '(es, text, _) := v in
                             writing_ok dl assign free es && str_eqb (render_ents es) text) vs) then 90%nat
  else match expected (fo_of_table tbl) dl assign free with
       | None => 0%nat                      (* a reserved numeric value is not a number: C20's domain *)
       | Some e =>
           match vs with
           | [] => 0%nat
           | (_, _, r0) :: _ =>
               if negb (forallb (fun v => res_attrs_eqb (snd v) r0) vs) then 1%nat
               else first_fail (map (fun v => match snd v with
                                              | Ok a => check_exact dl assign e a
                                              | Err _ => 6%nat end) vs)
           end
       end.

(** the known defect class (DESIGN section 5 row 17): a coarse node inside a fragment definition
    whose annotation uses a positional value after the name, or the keys q / x: those are read with
    the atom dialect *)
Definition coarse_fragment_dialect_class (a : annot) : bool :=
  Nat.ltb 1 (length (pos_of (a_ents a))) ||
  existsb (fun kv => str_eqb (fst kv) (S "q") || str_eqb (fst kv) (S "x")) (kws_of (a_ents a)).

Definition uses (base : list (annot * pystr * attrs)) (fname : pystr) : nat :=
  length (filter (fun b => match kw_get (S "fragname") (a_assign (fst (fst b))) with
                           | Some n => str_eqb n fname | None => false end) base).

Definition atom_fail (tbl : table) (aa : bool) (base : list (annot * pystr * attrs))
           (x : pystr * annot * pystr * list attrs) : nat :=
  let '(fname, a, text, copies) := x in
  let dl := if aa then doc_atomic else doc_coarse in
  if negb (annot_ok dl a text) then 90%nat
  else match expected (fo_of_table tbl) dl (a_assign a) (a_free a) with
       | None => 0%nat
       | Some e =>
           let e' := if aa then e else filter (fun kv => negb (str_eqb (fst kv) (S "fragname"))) e in
           if negb (Nat.eqb (length copies) (uses base fname)) || Nat.eqb (length copies) 0 then 11%nat
           else if forallb (submapb e') copies then 0%nat
           else if aa then 8%nat
           else if coarse_fragment_dialect_class a then 110%nat else 10%nat
       end.

Definition base_fail (tbl : table) (b : annot * pystr * attrs) : nat :=
  let '(a, text, obs) := b in
  if negb (annot_ok doc_coarse a text) then 90%nat
  else match expected (fo_of_table tbl) doc_coarse (a_assign a) (a_free a) with
       | None => 0%nat
       | Some e => if submapb e obs then 0%nat else 7%nat
       end.

(** the second known class: an annotated coarse node WITH A MULTIPLIER inside a fragment definition - only the first of
    its n copies carries the annotation *)
Definition coarse_fragment_multiplier_class (n : nat) : bool := Nat.leb 2 n.
Definition mult_fail (tbl : table) (base : list (annot * pystr * attrs)) (fname : pystr) (a : annot) (text : pystr)
           (n : nat) (copies : list (list attrs)) : nat :=
  if negb (annot_ok doc_coarse a text) || Nat.eqb n 0 then 90%nat
  else match expected (fo_of_table tbl) doc_coarse (a_assign a) (a_free a) with
       | None => 0%nat
       | Some e =>
           let e' := filter (fun kv => negb (str_eqb (fst kv) (S "fragname"))) e in
           if negb (Nat.eqb (length copies) (uses base fname)) || Nat.eqb (length copies) 0
              || negb (forallb (fun cs => Nat.eqb (length cs) n) copies) then 11%nat
           else if forallb (forallb (submapb e')) copies then 0%nat
           else if coarse_fragment_dialect_class a then 110%nat
           else if coarse_fragment_multiplier_class n
                   && forallb (fun cs => match cs with c :: _ => submapb e' c | [] => false end) copies then 111%nat
           else 10%nat
       end.

(** first failure that is NOT the known class; the known class (110) only if nothing else fails *)
Definition first_new (l : list nat) : nat :=
  match first_fail (filter (fun n => negb (Nat.eqb n 110)) l) with
  | 0%nat => first_fail l
  | n => n
  end.

Definition prop_fail (c : case) : nat :=
  match c with
  | CParse _ _ _ _ => 0%nat
  | CForms d tbl assign free vs => forms_fail d tbl assign free vs
  | CProp tbl aa exc base atoms =>
      match exc with
      | Some e =>
          (* rejected although every annotation is well-formed; known class: a coarse node of a
             fragment definition in the defect class for which the atom dialect raises that error *)
          if negb aa && existsb (fun x => let '(_, a, text, _) := x in
                                 coarse_fragment_dialect_class a &&
                                 match model_atom (fo_of_table tbl) aa text with
                                 | Err e' => err_eqb e e' | Ok _ => false end) atoms
          then 110%nat else 9%nat
      | None => first_new (map (base_fail tbl) base ++ map (atom_fail tbl aa base) atoms)
      end
  | CMult tbl base fname a text n copies =>
      match first_fail (map (base_fail tbl) base) with
      | 0%nat => mult_fail tbl base fname a text n copies
      | k => k
      end
  end.
