From Coq Require Import String.
From Coq Require Import List Ascii ZArith Bool Lia Permutation.
From CGV Require Import Base.PyBase Base.PyVal Base.NxGraph Resolve.Bonding Resolve.GraphOps Resolve.MapProofs Resolve.CopyProofs
     Hydro.SquashDefs Hydro.HydroDefs Resolve.Pipeline Resolve.PipelineFull.
From CGV Require Hydro.Hydrogens Hydro.Squash.
From CGV Require Import Compose.CutModel Compose.CutSpecDefs Compose.CutSpecCheck Compose.CutHydrogens Dialect.DialectDefs Dialect.ReturnedAnnot Dialect.ReturnedCar.
Import ListNotations.
Open Scope Z_scope.

Definition catom (h : Z) (extra : attrs) : attrs :=
  [(S "element", VStr (S "C")); (S "charge", VInt 0); (S "aromatic", VBool false); (S "hcount", VInt h)] ++ extra.
Definition ann : attrs := [(S "weight", VFlt (S "0.5")); (S "chiral", VStr (S "R")); (S "k", VStr (S "v"))].
(** {[#A][#A]}.{#A=C[C;0.5;x=R;k=v][$]}: fragment A used twice, its atom 1 annotated *)
Definition exA : cut := {|
  c_atoms := [(1, catom 3 []); (2, catom 2 ann); (3, catom 3 []); (4, catom 2 ann)];
  c_bonds := [ {| cb_u := 1; cb_v := 2; cb_ord := VInt 1; cb_lab := []; cb_dollar := true |};
               {| cb_u := 3; cb_v := 4; cb_ord := VInt 1; cb_lab := []; cb_dollar := true |};
               {| cb_u := 2; cb_v := 4; cb_ord := VInt 1; cb_lab := []; cb_dollar := true |} ];
  c_parts := [(S "A", [1; 2]); (S "A", [3; 4])]; c_dord := [] |}.
(** the template as read_fragment_smiles builds it: a proper dict per atom (the annotation's weight REPLACES the default) *)
Definition exA_T : graph :=
  add_edge (add_node (add_node gempty 0 (catom 3 [] ++ [(S "fragname", VStr (S "A")); (S "fragid", VInt 0); (S "weight", VInt 1)]))
                     1 (catom 2 ann ++ [(S "fragname", VStr (S "A")); (S "fragid", VInt 0); (S "bonding", VList [VStr (S "$1")])]))
           0 1 [(S "order", VInt 1)].
Definition exA_fd : fragdict := [(S "A", exA_T)].
Definition exA_m3 : option graph :=
  match resolve_disconnected exA_fd (base_of exA) with
  | Ok (m1, fg1) => match bonding_step true true (base_of exA) m1 fg1 with
                    | Ok (m2, _) => match Squash.squash_atoms m2 with Ok m3 => Some m3 | _ => None end | _ => None end
  | _ => None end.
Definition dictsb (g : graph) : bool := forallb (fun n => DialectDefs.nodupb (map fst (na n))) g.

(** non-vacuity of C14_annotation_reaches_returned_graph_any_transcript: the hypotheses hold, the step returns, and the two
    copies of atom 1 (returned keys 1 and 8) carry weight 0.5, chiral R and k = v; the two copies of atom 0 (keys 0 and 7)
    carry the default weight and neither chiral nor k *)
Example returned_annotation_example :
  wf_cut exA /\ templates_ok exA exA_fd /\ is_base exA (base_of exA) /\ wf_dict exA_fd /\
  (forall x, In x (flat exA) ->
     (exists e, aget (S "element") (payload exA x) = Some e) /\ (exists q, aget (S "charge") (payload exA x) = Some q) /\
     (exists h, aget (S "hcount") (payload exA x) = Some (VInt h)) /\ Hydrogens.is_H (payload exA x) = false) /\
  meta_of (base_of exA) = base_of exA /\
  match exA_m3 with
  | Some m3 =>
      dictsb m3 = true /\
      match resolve_step_full true true exA_fd (base_of exA) (Some m3) with
      | Ok fo => fo_m3 fo = m3 /\
          map (fun k => (node_get (fo_mol fo) k (S "weight"), node_get (fo_mol fo) k (S "chiral"), node_get (fo_mol fo) k (S "k"))) [0; 1; 7; 8]
          = [(Some (VInt 1), None, None); (Some (VFlt (S "0.5")), Some (VStr (S "R")), Some (VStr (S "v")));
             (Some (VInt 1), None, None); (Some (VFlt (S "0.5")), Some (VStr (S "R")), Some (VStr (S "v")))]
      | Err _ => False
      end
  | None => False
  end.
Proof.
  split; [apply wf_cutb_sound; vm_compute; reflexivity|].
  split; [apply templates_okb_sound; vm_compute; reflexivity|].
  split; [apply is_baseb_sound; vm_compute; reflexivity|].
  split.
  { intros name g H. cbn [exA_fd fd_get] in H.
    destruct (str_eqb name (S "A")); [|discriminate];
      inversion H; subst g; (split; [vm_compute; repeat constructor; cbn; intuition discriminate|]);
      intros u v d Hin; vm_compute in Hin; repeat (destruct Hin as [Hin|Hin]; [inversion Hin; subst; vm_compute; auto|]); contradiction. }
  split.
  { intros x Hx. cbn in Hx. repeat destruct Hx as [<-|Hx]; try contradiction; repeat split; try (eexists; vm_compute; reflexivity); vm_compute; reflexivity. }
  split; [vm_compute; reflexivity|].
  vm_compute. repeat split; reflexivity.
Qed.
