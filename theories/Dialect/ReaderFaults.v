(** ReaderFaults: the C20 faults over the REAL reader model (Reader/ReaderImpl.v, the model that the
    reader component compares with read_cgsmiles on every run):
      - an error raised inside one iteration of the node loop IS the result of read_cgsmiles, at
        whatever node position it happens ([read_err_at]);
      - hence an [Err] of the dialect parser on any node text is the result of read_cgsmiles
        ([annotation_error_propagates]), and a ring bond closing over an existing edge gives the
        documented "double" SyntaxError ([reader_duplicate_rejected]);
      - the dangling-ring theorem is the reader component's [open_marker_never_a_graph] /
        [open_marker_dangling] (Reader/ReaderRing.v), re-exported in Properties/C20.v. *)
From Coq Require Import String.
From Coq Require Import List Ascii ZArith Bool Lia.
From CGV Require Import Base.PyBase Base.PyVal Base.NxGraph Base.PyGen Gen.ReaderGen Dialect.DialectImpl
     Reader.ReaderImpl Reader.ReaderLemmas Reader.ReaderSim.
Import ListNotations.
Open Scope Z_scope.

(** ** every iteration consumes text, so the fuel of read_cgsmiles never runs out *)
Lemma until_close_len r : forall nm rest, until_close r = Some (nm, rest) -> (length rest < length r)%nat.
Proof.
  induction r as [|c r IH]; intros nm rest H; cbn in H; [discriminate|].
  destruct (Ascii.eqb c "]"%char); [inversion H; subst; cbn; lia|].
  match type of H with (if ?b then _ else _) = _ => destruct b end; [discriminate|].
  destruct (until_close r) as [[a b]|] eqn:E; [|discriminate]. inversion H; subst.
  specialize (IH a rest eq_refl). cbn. lia.
Qed.
Lemma next_node_len s : forall pc pc' nm rest, next_node pc s = Some (pc', nm, rest) -> (length rest < length s)%nat.
Proof.
  induction s as [|c1 t IH]; intros pc pc' nm rest H; [discriminate|].
  destruct t as [|c2 r]; [discriminate|]. cbn [next_node] in H.
  destruct (Ascii.eqb c1 "["%char && Ascii.eqb c2 "#"%char).
  - destruct (until_close r) as [[a b]|] eqn:E.
    + inversion H; subst. apply until_close_len in E. cbn. lia.
    + apply IH in H. cbn in *. lia.
  - apply IH in H. cbn in *. lia.
Qed.

(** [reaches fo pc s st pc' s' st']: after some number of successful iterations of the node loop
    started on text [s] (character before it [pc]) in state [st], the loop stands before text [s'] in
    state [st'] *)
Inductive reaches (fo : float_oracle) : ascii -> pystr -> rstate -> ascii -> pystr -> rstate -> Prop :=
| reaches_refl pc s st : reaches fo pc s st pc s st
| reaches_step pc s st pc1 nm rest st1 pc' s' st' :
    next_node pc s = Some (pc1, nm, rest) -> node_step fo st pc1 nm rest = Ok st1 ->
    reaches fo "]"%char rest st1 pc' s' st' -> reaches fo pc s st pc' s' st'.

Lemma main_loop_reaches fo pc s st pc' s' st' : reaches fo pc s st pc' s' st' ->
  forall fuel, (length s < fuel)%nat ->
  exists fuel', (length s' < fuel')%nat /\ main_loop fuel fo pc s st = main_loop fuel' fo pc' s' st'.
Proof.
  induction 1 as [pc s st|pc s st pc1 nm rest st1 pc' s' st' Hn Hs _ IH]; intros fuel Hf.
  - exists fuel. split; [assumption|reflexivity].
  - destruct fuel as [|f]; [lia|]. cbn [main_loop]. rewrite Hn, Hs. cbn [bind].
    apply IH. apply next_node_len in Hn. lia.
Qed.

(** an error inside the iteration for ANY node (position = any reachable loop state) is what
    read_cgsmiles returns *)
Theorem read_err_at fo pattern pc s st pc1 nm rest e :
  reaches fo (last pattern " "%char) pattern init_state pc s st ->
  next_node pc s = Some (pc1, nm, rest) -> node_step fo st pc1 nm rest = Err e ->
  read_cgsmiles fo pattern = Err e.
Proof.
  intros R Hn Hs. unfold read_cgsmiles.
  destruct (main_loop_reaches _ _ _ _ _ _ _ R (Datatypes.S (length pattern))) as [fuel' [Hf E]]; [lia|].
  rewrite E. destruct fuel' as [|f]; [lia|]. cbn [main_loop]. rewrite Hn, Hs. reflexivity.
Qed.

(** ** annotation errors *)
(** the part of one iteration that runs BEFORE the annotation is parsed (lines 142-214: branch
    opening, ring look-ahead, bond symbol, multiplier count) *)
Definition pre_parse_ok (st : rstate) (pc : ascii) (rest : pystr) : Prop :=
  exists x rs rdx bo n bo', opened st pc = Ok x /\
    ring_scan (s_current st) rest 0 (clean_st (s_cycle st) []) = Ok (rs, rdx) /\
    bond_expr rest rdx = Ok bo /\ nmon_expr rest bo = Ok (n, bo').
Lemma node_step_annotation_error fo st pc nm rest e :
  pre_parse_ok st pc rest -> parse_graph_base_node fo nm = Err e -> node_step fo st pc nm rest = Err e.
Proof.
  intros (x & rs & rdx & bo & n & bo' & Ho & Hr & Hb & Hn) Hp. rewrite node_step_eq, Ho. destruct x as [[br ba] rc].
  cbn [bind]. rewrite Hr. cbn [bind]. rewrite Hb. cbn [bind]. rewrite Hn. cbn [bind]. rewrite Hp. reflexivity.
Qed.
(** an Err of the dialect parser on the text of ANY node is the result of read_cgsmiles *)
Theorem annotation_error_propagates fo pattern pc s st pc1 nm rest e :
  reaches fo (last pattern " "%char) pattern init_state pc s st ->
  next_node pc s = Some (pc1, nm, rest) -> pre_parse_ok st pc1 rest ->
  parse_graph_base_node fo nm = Err e ->
  read_cgsmiles fo pattern = Err e.
Proof.
  intros R Hn Hpre Hp. apply (read_err_at fo pattern pc s st pc1 nm rest e R Hn).
  now apply node_step_annotation_error.
Qed.

(** ** a ring bond that duplicates an edge *)
Lemma add_cycle_edges_app pre : forall g l,
  add_cycle_edges g (pre ++ l) = (g' <- add_cycle_edges g pre ;; add_cycle_edges g' l).
Proof.
  induction pre as [|[[u v] o] r IH]; intros g l; cbn [app add_cycle_edges bind]; [reflexivity|].
  destruct (has_edge g u v); [reflexivity|apply IH].
Qed.
Lemma add_cycle_edges_dup g pre u v o post g' :
  add_cycle_edges g pre = Ok g' -> has_edge g' u v = true ->
  add_cycle_edges g (pre ++ (u, v, o) :: post) = Err (ESyntax (S "double")).
Proof. intros Hp He. rewrite add_cycle_edges_app, Hp. cbn. now rewrite He. Qed.

(** the graph at the moment the pending ring bonds of the node are checked: the node has been added
    and joined to its predecessor *)
Definition graph_at_check (st : rstate) (a : attrs) : graph :=
  let g1 := add_node (s_g st) (s_current st) a in
  match s_prev_node st with Some p => add_edge g1 p (s_current st) (order_attr (s_pbo st)) | None => g1 end.

Lemma node_step_duplicate fo st pc nm rest x rs rdx bo n bo' a pre u v o post g' :
  opened st pc = Ok x ->
  ring_scan (s_current st) rest 0 (clean_st (s_cycle st) []) = Ok (rs, rdx) ->
  bond_expr rest rdx = Ok bo -> nmon_expr rest bo = Ok (n, bo') -> 0 < n ->
  parse_graph_base_node fo nm = Ok a -> ahas (S "node_for_adding") a = false ->
  (fst (fst x) = true -> snd (fst x) <> []) ->
  r_ces rs = pre ++ (u, v, o) :: post ->
  add_cycle_edges (graph_at_check st a) pre = Ok g' -> has_edge g' u v = true ->
  node_step fo st pc nm rest = Err (ESyntax (S "double")).
Proof.
  intros Ho Hr Hb Hn Hpos Hp Ha Hba Hces Hpre He. rewrite node_step_eq, Ho. destruct x as [[br ba] rc].
  cbn [bind]. rewrite Hr. cbn [bind]. rewrite Hb. cbn [bind]. rewrite Hn. cbn [bind]. rewrite Hp. cbn [bind].
  assert (Hrec : exists rc', (if br then match rev ba with [] => Err EIndex | k :: _ => Ok (rec_append k (n, a, s_pbo st) rc) end
                              else Ok rc) = Ok rc').
  { destruct br; [|eauto]. cbn [fst snd] in Hba. specialize (Hba eq_refl).
    destruct (rev ba) eqn:E; [|eauto]. exfalso. apply Hba. apply (f_equal (@rev _)) in E. now rewrite rev_involutive in E. }
  destruct Hrec as [rc' ->]. cbn [bind].
  destruct (Z.to_nat n) as [|n'] eqn:En; [lia|]. cbn [add_nodes]. unfold py_add_node. rewrite Ha. cbn [bind].
  change (match s_prev_node st with
          | Some p => add_edge (add_node (s_g st) (s_current st) a) p (s_current st) (order_attr (s_pbo st))
          | None => add_node (s_g st) (s_current st) a end) with (graph_at_check st a).
  rewrite Hces, (add_cycle_edges_dup _ pre u v o post g' Hpre He). reflexivity.
Qed.
(** a ring bond closing over an edge that exists when it is checked: the documented SyntaxError, at
    whatever node position *)
Theorem reader_duplicate_rejected fo pattern pc s st pc1 nm rest x rs rdx bo n bo' a pre u v o post g' :
  reaches fo (last pattern " "%char) pattern init_state pc s st ->
  next_node pc s = Some (pc1, nm, rest) ->
  opened st pc1 = Ok x ->
  ring_scan (s_current st) rest 0 (clean_st (s_cycle st) []) = Ok (rs, rdx) ->
  bond_expr rest rdx = Ok bo -> nmon_expr rest bo = Ok (n, bo') -> 0 < n ->
  parse_graph_base_node fo nm = Ok a -> ahas (S "node_for_adding") a = false ->
  (fst (fst x) = true -> snd (fst x) <> []) ->
  r_ces rs = pre ++ (u, v, o) :: post ->
  add_cycle_edges (graph_at_check st a) pre = Ok g' -> has_edge g' u v = true ->
  read_cgsmiles fo pattern = Err (ESyntax (S "double")).
Proof.
  intros R Hn Ho Hr Hb Hm Hpos Hp Ha Hba Hces Hpre He.
  apply (read_err_at fo pattern pc s st pc1 nm rest _ R Hn).
  now apply (node_step_duplicate fo st pc1 nm rest x rs rdx bo n bo' a pre u v o post g').
Qed.

(** non-vacuity: the ring bond 2 of {[#A]1[#B]([#C]2[#D]2)[#E]1} duplicates the edge C-D inside a
    branch; the annotation error sits on the last node of {[#A]([#B;q=1])[#C;q=x=y]} *)
Example reader_faults_example :
  read_cgsmiles (fun _ => None) (S "{[#A]1[#B]([#C]2[#D]2)[#E]1}") = Err (ESyntax (S "double")) /\
  read_cgsmiles (fo_of_table [(S "1", Some (S "1.0"))]) (S "{[#A]([#B;q=1])[#C;q=x=y]}") = Err (ESyntax (S "toomany_eq")) /\
  exists g, read_cgsmiles (fo_of_table [(S "1", Some (S "1.0"))]) (S "{[#A]([#B;q=1])[#C]}") = Ok g.
Proof. split; [|split]; [vm_compute; reflexivity|vm_compute; reflexivity|eexists; vm_compute; reflexivity]. Qed.
