(** FaultModels: small Impl models for the non-annotation faults of property C20.
    (1) the ring table of read_cgsmiles as a fold over ring/node events (the `cycle` dict, the
        `cycle_edges` check "two edges between the same node", the final "dangling ring index");
    (2) the loop of MoleculeResolver.resolve_disconnected_molecule (resolve.py 242-251): a node whose
        fragname has no fragment and whose incident edge orders are not all 0 raises SyntaxError,
        and nothing after the loop runs when it raises.
    No proofs here (FaultProofs.v). *)
From Coq Require Import String.
From Coq Require Import List Ascii ZArith Bool.
From CGV Require Import Base.PyBase Base.PyVal.
Import ListNotations.
Open Scope Z_scope.

(** ---------------- ring table ---------------- *)
Inductive ev :=
| EvNode (k : Z) (prev : option Z)      (* node k is added, with the chain/branch edge from prev *)
| EvRing (k m : Z).                     (* marker m (as an integer) read on node k *)

Record rt := { r_tbl : list (Z * Z); r_edges : list (Z * Z) }.
Definition rt0 : rt := {| r_tbl := []; r_edges := [] |}.
Fixpoint tbl_get (m : Z) (t : list (Z * Z)) : option Z :=
  match t with [] => None | (k, v) :: r => if Z.eqb k m then Some v else tbl_get m r end.
Fixpoint tbl_del (m : Z) (t : list (Z * Z)) : list (Z * Z) :=
  match t with [] => [] | (k, v) :: r => if Z.eqb k m then r else (k, v) :: tbl_del m r end.
Definition has_edge (es : list (Z * Z)) (u v : Z) : bool :=
  existsb (fun e => (Z.eqb (fst e) u && Z.eqb (snd e) v) || (Z.eqb (fst e) v && Z.eqb (snd e) u)) es.

Definition ring_step (st : rt) (e : ev) : res rt :=
  match e with
  | EvNode _ None => Ok st
  | EvNode k (Some p) => Ok {| r_tbl := r_tbl st; r_edges := (p, k) :: r_edges st |}
  | EvRing k m =>
      match tbl_get m (r_tbl st) with
      | None => Ok {| r_tbl := r_tbl st ++ [(m, k)]; r_edges := r_edges st |}
      | Some n0 =>
          if has_edge (r_edges st) k n0 then Err (ESyntax (S "double"))
          else Ok {| r_tbl := tbl_del m (r_tbl st); r_edges := (k, n0) :: r_edges st |}
      end
  end.
Fixpoint ring_run (evs : list ev) (st : rt) : res rt :=
  match evs with
  | [] => Ok st
  | e :: r => st' <- ring_step st e ;; ring_run r st'
  end.
(** `if cycle: raise SyntaxError("You have a dangling ring index.")` *)
Definition ring_model (evs : list ev) : res (list (Z * Z)) :=
  st <- ring_run evs rt0 ;;
  match r_tbl st with [] => Ok (r_edges st) | _ => Err (ESyntax (S "dangling")) end.

Definition is_ring (m : Z) (e : ev) : bool := match e with EvRing _ m' => Z.eqb m m' | _ => false end.
Definition ring_count (m : Z) (evs : list ev) : nat := length (filter (is_ring m) evs).

(** ---------------- missing fragment ---------------- *)
Definition incident_orders (k : Z) (edges : list (Z * Z * Z)) : list Z :=
  flat_map (fun e => let '(u, v, o) := e in if Z.eqb u k || Z.eqb v k then [o] else []) edges.
(** `not all(np.array(orders) == 0)` *)
Definition real_node (k : Z) (edges : list (Z * Z * Z)) : bool :=
  negb (forallb (Z.eqb 0) (incident_orders k edges)).
Fixpoint rdm (dict : list pystr) (edges : list (Z * Z * Z)) (nodes : list (Z * pystr)) : res unit :=
  match nodes with
  | [] => Ok tt
  | (k, name) :: r =>
      if str_in name dict then rdm dict edges r        (* merge the fragment: cannot raise *)
      else if real_node k edges then Err (ESyntax (S "no_fragment"))
      else rdm dict edges r                            (* virtual node: skipped *)
  end.
(** one resolve() call: the loop first, everything else ([later]) only if it did not raise *)
Definition resolve_step {A} (dict : list pystr) (edges : list (Z * Z * Z)) (nodes : list (Z * pystr))
           (later : res A) : res A :=
  _ <- rdm dict edges nodes ;; later.
