(** ReturnedAnnot: an annotation written on atom i of fragment F is carried, unchanged, by EVERY copy of that atom
    in the all-atom graph resolve() RETURNS (instantiation, bonds, squash = identity, hydrogen completion, sorting),
    and no other atom gains it - over the Compose component's cut model (imported, not edited: theories/Compose,
    C01_cut_all_atom_step / cut_hydrogens / completed_wf / completed_fragid) and the resolver's / hydro's models.
    The statement is an EQUALITY between the returned node's value and the template node's value under every key
    that the steps do not write (fragid, mapping, ez_isomer_atoms, hcount), so it says both "every copy carries what
    the template atom carries" and "an atom whose template atom lacks the key does not have it". *)
From Coq Require Import String.
From Coq Require Import List Ascii ZArith Bool Lia Permutation.
From CGV Require Import Base.PyBase Base.PyVal Base.NxGraph Resolve.Bonding Resolve.GraphOps Resolve.MapProofs Resolve.CopyProofs
     Hydro.GraphLemmas Hydro.SquashDefs Hydro.HydroDefs.
From CGV Require Hydro.Hydrogens Hydro.Squash Hydro.RebuildProofs Resolve.SortGraphProofs.
From CGV Require Import Compose.GraphAdj Compose.CutModel Compose.CutPos Compose.CutTables Compose.CutDisc Compose.CutSkeleton Compose.CutWf
     Compose.CutHydrogens Compose.CutSorted Compose.RebuildWf.
From CGV Require Import Resolve.Pipeline Resolve.PipelineFull Resolve.FragidProofs Stereo.EzImpl Stereo.EzProofs.
From CGV Require Import Dialect.CopyAnnot.
Import ListNotations.
Open Scope Z_scope.

Definition carried_key (key : pystr) : Prop :=
  key <> S "fragid" /\ key <> S "mapping" /\ key <> S "ez_isomer_atoms" /\ key <> S "hcount".

(** set_atom_names_atomistic writes `atomname` only *)
Lemma set_atom_names_keeps mol meta fgs mol' fgs' : set_atom_names mol meta fgs = Ok (mol', fgs') ->
  forall k key, key <> S "atomname" -> node_get mol' k key = node_get mol k key.
Proof.
  unfold set_atom_names, bind.
  destruct (GraphOps.fold_res name_group2 (fraglist_of meta fgs) (mol, fgs, [], [])) as [r|] eqn:E; [|discriminate].
  intros H k key Nk. apply ok_some in H. injection H as H1 H2. subst mol'.
  set (P := fun g : graph => node_get g k key = node_get mol k key).
  apply (fold_res_inv (fun st : nstate => P (ns_mol st)) name_group2 _) with (st := (mol, fgs, [], [])) (st' := r) in E; [exact E| |reflexivity].
  intros st grp st' Hs Hn. unfold name_group2 in Hn. destruct st as [[[m f] nd] sn].
  destruct (used_names m nd (snd grp)) as [used|]; cbn [bind] in Hn; [|discriminate Hn].
  match type of Hn with bind ?x _ = _ => destruct x as [r2|] eqn:E2 end; cbn [bind] in Hn; [|discriminate Hn].
  apply ok_some in Hn. subst st'.
  apply (fold_res_inv (fun st : nstate * Z => P (ns_mol (fst st))) (name_node (fst grp) used) _) with (st := (m, f, nd, sn, 0)) (st' := r2) in E2;
    [exact E2| |exact Hs].
  intros s1 x s2 H1 Hx. destruct (name_node_mol _ _ _ _ _ Hx) as [->|[v ->]]; [exact H1|].
  unfold P in *. rewrite <- H1. unfold node_get. rewrite gfind_set_node_attr.
  destruct (Z.eqb k x); [|reflexivity]. destruct (gfind k (ns_mol (fst s1))); cbn; [now apply aget_aset_other|reflexivity].
Qed.

Definition meta_of (prev : graph) : graph := set_nodes_from prev (S "fragname") (get_node_attributes prev (S "atomname")).
Definition returned_key (key : pystr) : Prop :=
  carried_key key /\ key <> S "atomname" /\ key <> S "ez_isomer" /\ key <> S "ez_isomer_class".

Section Returned.
  Variable C : cut.
  Hypothesis W : wf_cut C.
  Variable fd : fragdict.
  Hypothesis HT : templates_ok C fd.
  Hypothesis Hwfd : wf_dict fd.
  Variable B : graph.
  Hypothesis HB : is_base C B.

  (** the instantiation loop on every prefix of the coarse graph (Compose's step invariant, iterated) *)
  Lemma prefix_inv p : (p <= length (c_parts C))%nat ->
    exists mol fgs, fold_res (disc_step fd) (firstn p B) (gempty, []) = Ok (mol, fgs) /\ inv C p mol fgs.
  Proof.
    induction p as [|p IH]; intros Hp.
    - exists gempty, []. split; [reflexivity|apply inv_0].
    - destruct IH as (mol & fgs & E & I); [lia|].
      destruct (nth_error (c_parts C) p) as [[name xs]|] eqn:Ep; [|apply nth_error_None in Ep; lia].
      destruct (base_node C B HB p name xs Ep) as (mn & Hmn & Hk & Hf).
      destruct (disc_step_inv C W fd HT p name xs mn mol fgs Ep Hk Hf I) as (mol2 & fgs2 & E2 & I2).
      exists mol2, fgs2. split; [|exact I2].
      assert (F : firstn (Datatypes.S p) B = firstn p B ++ [mn]).
      { clear -Hmn. revert p Hmn. induction B as [|y r IHr]; intros [|p] H; cbn in *; try discriminate; [now inversion H|].
        f_equal. now apply IHr. }
      rewrite F, fold_res_app, E. cbn [bind fold_res]. now rewrite E2.
  Qed.

  (** the disconnected molecule: the copy of template atom i for the part at ANY position p carries exactly the
      template's value under every key but fragid / mapping / ez_isomer_atoms *)
  Theorem disconnected_copy_exact m1 fg1 p name xs T i x n key :
    resolve_disconnected fd B = Ok (m1, fg1) ->
    nth_error (c_parts C) p = Some (name, xs) -> fd_get name fd = Some T ->
    nth_error xs i = Some x -> gfind (Z.of_nat i) T = Some n -> kept_key key ->
    has_node m1 (phi C x) = true /\ node_get m1 (phi C x) key = aget key (na n).
  Proof.
    intros R Ep Ef Ex Gn Hk.
    assert (Hp : (p < length (c_parts C))%nat) by (apply nth_error_Some; congruence).
    destruct (base_node C B HB p name xs Ep) as (mn & Hmn & Hkn & Hfn).
    destruct (prefix_inv p) as (m0 & f0 & E0 & I0); [lia|].
    assert (Bsplit : B = firstn p B ++ mn :: skipn (Datatypes.S p) B).
    { rewrite <- (firstn_skipn p B) at 1. f_equal. clear -Hmn. revert p Hmn.
      induction B as [|y r IHr]; intros [|p] H; cbn in *; try discriminate; [now inversion H|now apply IHr]. }
    unfold resolve_disconnected in R. rewrite Bsplit, fold_res_app, E0 in R. cbn [bind] in R.
    change (fold_res (disc_step fd) (mn :: skipn (Datatypes.S p) B) (m0, f0))
      with (b' <- disc_step fd (m0, f0) mn ;; fold_res (disc_step fd) (skipn (Datatypes.S p) B) b') in R.
    destruct (disc_step fd (m0, f0) mn) as [[ms fs]|] eqn:E1; cbn [bind] in R; [|discriminate].
    destruct (HT name xs (nth_error_In _ _ Ep)) as (T' & Ef' & IT). rewrite Ef in Ef'. inversion Ef'; subst T'.
    assert (Hl : lookup_fragment fd (VStr name) = Some (name, T)) by (unfold lookup_fragment; now rewrite Ef).
    pose proof (Hwfd _ _ Ef) as Hwt.
    destruct (copy_carries_template fd m0 f0 mn (VStr name) name T ms fs Hfn Hl Hwt E1) as (off0 & fo & Ho & Hc).
    destruct (merge_offsets_range m0 (off C p) (i_keys _ _ _ _ I0) (i_fid _ _ _ _ I0)) as [fo' Ho'].
    rewrite Ho in Ho'. inversion Ho'; subst off0. clear Ho'.
    assert (Hin : In n T) by (eapply gfind_In; eauto).
    destruct (Hc n Hin) as (a2 & Ea2 & _ & Hkeys).
    assert (Ekey : copy_key (Z.of_nat (off C p) - 1) T (nk n) = phi C x).
    { unfold copy_key. rewrite (gfind_key _ _ _ Gn).
      rewrite (corr_range _ T (length xs) i (it_keys _ _ _ _ IT)) by (apply nth_error_Some; congruence).
      destruct (phi_part C (wc_nodup _ W) p name xs i x Ep Ex) as [-> _]. lia. }
    rewrite Ekey in Ea2.
    assert (Hin1 : In (phi C x) (node_keys ms)) by (apply gfind_has; eapply node_attrs_has; exact Ea2).
    destruct (disc_fold_keeps fd Hwfd _ _ _ _ _ R _ Hin1) as [K A]. split; [now apply gfind_has|].
    rewrite <- (Hkeys key Hk). unfold node_get. unfold node_attrs in A, Ea2.
    destruct (gfind (phi C x) m1) as [r1|], (gfind (phi C x) ms) as [r2|]; try discriminate.
    inversion A. inversion Ea2. congruence.
  Qed.

  (** ---- all-atom level: bonds, squash (identity: a cut has no `!` bond), hydrogen completion, sorting ---- *)
  Hypothesis Hatoms : forall x, In x (flat C) ->
    (exists e, aget (S "element") (payload C x) = Some e) /\ (exists q, aget (S "charge") (payload C x) = Some q) /\
    (exists h, aget (S "hcount") (payload C x) = Some (VInt h)) /\ Hydrogens.is_H (payload C x) = false.
  Hypothesis Hnum : forall b, In b (c_bonds C) -> numeric (cb_ord b).

  Lemma part_atom_in_flat p name xs i x : nth_error (c_parts C) p = Some (name, xs) -> nth_error xs i = Some x -> In x (flat C).
  Proof.
    intros Ep Ex. unfold flat. apply in_concat. exists xs. split; [|eapply nth_error_In; eauto].
    apply in_map_iff. exists (name, xs). split; [reflexivity|eapply nth_error_In; eauto].
  Qed.

  (** the aromaticity step enters as Hydro's transcript (here the identity transcript [Some m2], as in Compose's
      C01_cut_hydrogens); Hydro's contract [Hydrogens.transcript_contract] itself says that every attribute but
      `aromatic` of every node is left alone, and the model raises when a recorded transcript violates it *)
  Theorem annotation_reaches_returned_graph :
    exists m1 fg1 m2 fg2,
      resolve_disconnected fd B = Ok (m1, fg1) /\ bonding_step true true B m1 fg1 = Ok (m2, fg2) /\
      Squash.squash_atoms m2 = Ok m2 /\
      forall g4 g5, Hydrogens.rebuild_h_atoms_default m2 (Some m2) = Ok g4 -> sort_nodes_by_attr g4 = Ok g5 ->
      exists m, sort_mapping g4 = Ok m /\ SortGraphProofs.inj_on (map_get m) (node_keys g4) /\
        forall p name xs T i x n key,
          nth_error (c_parts C) p = Some (name, xs) -> fd_get name fd = Some T ->
          nth_error xs i = Some x -> gfind (Z.of_nat i) T = Some n -> carried_key key ->
          In (phi C x) (node_keys g4) /\ node_get g5 (map_get m (phi C x)) key = aget key (na n).
  Proof.
    destruct (cut_all_atom_step C W fd HT B HB Hatoms) as (m1 & fg1 & m2 & fg2 & R & Bn & Sk & Adj & Wf2 & Sq).
    exists m1, fg1, m2, fg2. split; [exact R|]. split; [exact Bn|]. split; [exact Sq|].
    intros g4 g5 Hr Hs.
    destruct (SortGraphProofs.sort_graph g4 g5 (completed_wf C W m2 Sk g4 Hr) (completed_fragid C W Hatoms m2 Sk g4 Hr) Hs)
      as (m & Em & Inj & _ & _ & _ & A5).
    exists m. split; [exact Em|]. split; [exact Inj|].
    intros p name xs T i x n key Ep Ef Ex Gn (K1 & K2 & K3 & K4).
    pose proof (part_atom_in_flat p name xs i x Ep Ex) as Fx.
    destruct (disconnected_copy_exact m1 fg1 p name xs T i x n key R Ep Ef Ex Gn (conj K1 (conj K2 K3))) as [H1 V1].
    destruct (bonding_keeps_annotation true true B m1 fg1 m2 fg2 Bn _ H1) as [H2 V2].
    destruct (sk_gfind C m2 Sk x Fx) as [nn Gnn].
    destruct (cut_hydrogens C W Hatoms Hnum m2 Sk Adj g4 Hr) as (Hh & _ & _).
    destruct (Hh x nn Fx Gnn) as (val & idxs & n' & _ & _ & _ & _ & G4 & _ & At & _).
    assert (Hin4 : In (phi C x) (node_keys g4)) by (apply gfind_has; unfold has_node; now rewrite G4).
    split; [exact Hin4|].
    rewrite (A5 _ key Hin4 K3). unfold node_get at 1. rewrite G4, (At key K4), (sk_aget C m2 x nn key Fx Gnn).
    rewrite (V2 key K4). exact V1.
  Qed.

  (** THE RETURNED GRAPH of one all-atom resolve() (model PipelineFull.resolve_step_full: every stage a model, the
      aromaticity correction a transcript [car] guarded by Hydro's contract); here for a transcript that leaves the
      molecule as it is ([car] = the graph handed to rebuild_h_atoms), as in Compose's C01 theorems *)
  Theorem annotation_reaches_returned_graph_full prev car fo :
    meta_of prev = B -> resolve_step_full true true fd prev car = Ok fo -> car = Some (fo_m3 fo) ->
    exists m, sort_mapping (fo_m4 fo) = Ok m /\ SortGraphProofs.inj_on (map_get m) (node_keys (fo_m4 fo)) /\
      forall p name xs T i x n key,
        nth_error (c_parts C) p = Some (name, xs) -> fd_get name fd = Some T ->
        nth_error xs i = Some x -> gfind (Z.of_nat i) T = Some n -> returned_key key ->
        node_get (fo_mol fo) (map_get m (phi C x)) key = aget key (na n).
  Proof.
    intros HM H Hcar. destruct annotation_reaches_returned_graph as (m1 & fg1 & m2 & fg2 & R & Bn & Sq & Hall).
    unfold resolve_step_full in H. fold (meta_of prev) in H. rewrite HM, R in H. cbn [bind] in H. rewrite Bn in H. cbn [bind] in H.
    rewrite Sq in H. cbn [bind] in H.
    destruct (Hydrogens.rebuild_h_atoms_default m2 car) as [m4|] eqn:E4; cbn [bind] in H; [|discriminate].
    destruct (sort_nodes_by_attr m4) as [m5|] eqn:E5; cbn [bind] in H; [|discriminate].
    destruct (annotate_ez_isomers_cgsmiles m5) as [m6|] eqn:E6; cbn [bind] in H; [|discriminate].
    destruct (annotate_fragments B m6) as [fgs|]; cbn [bind] in H; [|discriminate].
    destruct (set_atom_names m6 B fgs) as [[m7 fgs']|] eqn:E7; cbn [bind] in H; [|discriminate].
    injection H as <-. cbn [fo_m3 fo_m4 fo_mol] in *. subst car.
    destruct (Hall m4 m5 E4 E5) as (m & Em & Inj & Hk). exists m. split; [exact Em|]. split; [exact Inj|].
    intros p name xs T i x n key Ep Ef Ex Gn (Ck & Na & Ne1 & Ne2).
    destruct (Hk p name xs T i x n key Ep Ef Ex Gn Ck) as [_ V].
    rewrite (set_atom_names_keeps _ _ _ _ _ E7 _ key Na), (annotate_keeps m5 m6 _ key Ne1 Ne2 E6). exact V.
  Qed.
End Returned.
