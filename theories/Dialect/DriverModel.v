(** DriverModel: definitions only (NO proofs).
    [drive]: MoleculeResolver.from_string(s, last_all_atom, legacy).resolve_all() over the resolver component's driver model
    (Resolve/Pipeline.v), the two parsers being arguments.
    [read_fragments_with]: read_fragments as `for fragment in split: strip_bonding_descriptors (Frag/StripImpl.v), template
    construction mk, insertion add` for ANY mk and add. *)
From Coq Require Import String.
From Coq Require Import List Ascii ZArith Bool.
From CGV Require Import Base.PyBase Base.PyVal Base.NxGraph Resolve.Bonding Resolve.GraphOps Resolve.Pipeline Dialect.DialectImpl.
From CGV Require Frag.StripImpl.
Import ListNotations.

Definition drive (read_cgsmiles : pystr -> res graph) (read_fragments : pystr -> bool -> res fragdict)
    (s : pystr) (laa legacy : bool) (trs : list transcript) : res (rstate * (graph * fgraphs * graph)) :=
  st <- from_string read_cgsmiles read_fragments s laa legacy ;; resolve_all st trs.

Definition read_fragments_with (fo : float_oracle) (mk : bool -> pystr -> Frag.StripImpl.result -> res graph)
    (add : pystr -> graph -> fragdict -> fragdict) (block : pystr) (aa : bool) : res fragdict :=
  fold_res (fun fd nt => r <- Frag.StripImpl.strip_bonding_descriptors fo (snd nt) ;; g <- mk aa (fst nt) r ;; Ok (add (fst nt) g fd))
           (Frag.StripImpl.fragment_split block) [].
