(** DriverFaults: the errors of C20 through the DRIVER, MoleculeResolver.from_string(s).resolve_all()
    (Resolve/Pipeline.v: from_string over the two parsers, resolve_iter, resolve_all):
      - an error of read_cgsmiles on the first block is the result;
      - an error of read_fragments on ANY later block (the earlier ones being read) is the result;
      - an error of the resolve() of ANY level (the earlier ones returning) is the result of resolve_all -
        in particular the missing fragment of [ResolveFaults];
    so in each case the call is "never a graph", and raises exactly that error. *)
From Coq Require Import String.
From Coq Require Import List Ascii ZArith Bool Lia.
From CGV Require Import Base.PyBase Base.PyVal Base.NxGraph Resolve.Bonding Resolve.GraphOps Resolve.Pipeline.
From CGV Require Export Dialect.DriverModel.
From CGV Require Import Dialect.DialectImpl Frag.NDict Frag.StripImpl Frag.FragText Dialect.FragAnnot Dialect.ResolveFaults.
Import ListNotations.

(** ** re.findall(r"\{[^\}]+\}", s) on a string that starts with a block *)
Lemma span_nonclose_len s : forall a b, span_nonclose s = (a, b) -> (length b <= length s)%nat.
Proof.
  induction s as [|c r IH]; intros a b H; cbn [span_nonclose] in H; [injection H as <- <-; cbn; lia|].
  destruct (Ascii.eqb c "}"%char); [injection H as <- <-; cbn; lia|].
  destruct (span_nonclose r) as [a' b'] eqn:E. injection H as <- <-. specialize (IH a' b' eq_refl). cbn. lia.
Qed.
Lemma span_nonclose_app body tail : ~ In "}"%char body -> span_nonclose (body ++ "}"%char :: tail) = (body, "}"%char :: tail).
Proof.
  induction body as [|c r IH]; intros H; cbn [app span_nonclose]; [reflexivity|].
  destruct (Ascii.eqb_spec c "}"%char) as [->|N]; [exfalso; apply H; now left|].
  rewrite IH by (intros HI; apply H; now right). reflexivity.
Qed.
Lemma find_blocks_fuel_enough : forall f1 f2 s, (length s < f1)%nat -> (length s < f2)%nat ->
  find_blocks_fuel f1 s = find_blocks_fuel f2 s.
Proof.
  induction f1 as [|f1 IH]; intros f2 s H1 H2; [lia|]. destruct f2 as [|f2]; [lia|]. cbn [find_blocks_fuel].
  destruct s as [|c r]; [reflexivity|]. cbn [length] in H1, H2.
  assert (Er : find_blocks_fuel f1 r = find_blocks_fuel f2 r) by (apply IH; lia).
  destruct (Ascii.eqb c "{"%char); [|exact Er].
  destruct (span_nonclose r) as [a b] eqn:E. pose proof (span_nonclose_len r a b E) as L.
  destruct a as [|x body]; [exact Er|]. destruct b as [|y rest]; [exact Er|]. cbn [length] in L.
  f_equal. apply IH; lia.
Qed.
Theorem find_blocks_cons body tail : body <> [] -> ~ In "}"%char body ->
  find_blocks ("{"%char :: body ++ "}"%char :: tail) = ("{"%char :: body ++ ["}"%char]) :: find_blocks tail.
Proof.
  intros Hne Hno. unfold find_blocks.
  change (find_blocks_fuel (Datatypes.S (length ("{"%char :: body ++ "}"%char :: tail))) ("{"%char :: body ++ "}"%char :: tail))
    with (match span_nonclose (body ++ "}"%char :: tail) with
          | (x :: body', _ :: rest) => ("{"%char :: x :: body' ++ ["}"%char]) :: find_blocks_fuel (length ("{"%char :: body ++ "}"%char :: tail)) rest
          | _ => find_blocks_fuel (length ("{"%char :: body ++ "}"%char :: tail)) (body ++ "}"%char :: tail)
          end).
  rewrite (span_nonclose_app body tail Hno). destruct body as [|x b]; [congruence|].
  f_equal. apply find_blocks_fuel_enough; cbn [length]; rewrite ?app_length; cbn [length]; lia.
Qed.
Lemma find_blocks_skip c r : c <> "{"%char -> find_blocks (c :: r) = find_blocks r.
Proof.
  intros N. unfold find_blocks.
  change (find_blocks_fuel (Datatypes.S (length (c :: r))) (c :: r))
    with (if Ascii.eqb c "{"%char
          then match span_nonclose r with
               | (x :: body, _ :: rest) => ("{"%char :: x :: body ++ ["}"%char]) :: find_blocks_fuel (length (c :: r)) rest
               | _ => find_blocks_fuel (length (c :: r)) r end
          else find_blocks_fuel (length (c :: r)) r).
  destruct (Ascii.eqb_spec c "{"%char); [congruence|].
  apply find_blocks_fuel_enough; cbn [length]; lia.
Qed.
Lemma find_blocks_nil : find_blocks [] = []. Proof. reflexivity. Qed.
(** a string of any number of blocks "{b1}.{b2}. ... .{bn}" *)
Definition block_of (body : pystr) : pystr := "{"%char :: body ++ ["}"%char].
Fixpoint dotted (bs : list pystr) : pystr :=
  match bs with [] => [] | [b] => b | b :: r => b ++ "."%char :: dotted r end.
Theorem find_blocks_dotted bodies : Forall (fun body => body <> [] /\ ~ In "}"%char body) bodies ->
  find_blocks (dotted (map block_of bodies)) = map block_of bodies.
Proof.
  induction bodies as [|b r IH]; intros F; [reflexivity|]. inversion F as [|? ? [Hne Hno] Fr]; subst.
  destruct r as [|b' r'].
  - cbn [map dotted]. unfold block_of. change ("{"%char :: b ++ ["}"%char]) with ("{"%char :: b ++ "}"%char :: []).
    now rewrite (find_blocks_cons b [] Hne Hno).
  - change (dotted (map block_of (b :: b' :: r'))) with (block_of b ++ "."%char :: dotted (map block_of (b' :: r'))).
    unfold block_of at 1. cbn [app]. rewrite <- app_assoc. cbn [app].
    rewrite (find_blocks_cons b _ Hne Hno), find_blocks_skip by discriminate. rewrite (IH Fr). reflexivity.
Qed.

Section Driver.
  Variable read_cgsmiles : pystr -> res graph.
  Variable read_fragments : pystr -> bool -> res fragdict.

  Notation drive := (DriverModel.drive read_cgsmiles read_fragments).

  Theorem driver_base_error s laa legacy trs e0 rest e :
    find_blocks s = e0 :: rest -> read_cgsmiles e0 = Err e -> drive s laa legacy trs = Err e.
  Proof. intros Hb He. unfold drive, from_string. rewrite Hb, He. reflexivity. Qed.

  (** the flag a block is read with: all-atom iff it is the last one and last_all_atom *)
  Definition aa_flag (post : list pystr) (laa : bool) : bool := match post with [] => laa | _ => false end.
  Lemma fragment_strings_error laa x post e : forall pre,
    Forall (fun y => exists d, read_fragments y false = Ok d) pre ->
    read_fragments x (aa_flag post laa) = Err e ->
    read_fragment_strings read_fragments (pre ++ x :: post) laa = Err e.
  Proof.
    induction pre as [|y r IH]; intros F He; cbn [app read_fragment_strings].
    - unfold aa_flag in He. rewrite He. reflexivity.
    - inversion F as [|? ? (d & Hd) Fr]; subst.
      assert (E : match r ++ x :: post with [] => laa | _ => false end = false) by (destruct r; reflexivity).
      rewrite E, Hd. cbn [bind]. now rewrite (IH Fr He).
  Qed.
  Theorem driver_fragment_error s laa legacy trs e0 mol pre x post e :
    find_blocks s = e0 :: pre ++ x :: post -> read_cgsmiles e0 = Ok mol ->
    Forall (fun y => exists d, read_fragments y false = Ok d) pre ->
    read_fragments x (aa_flag post laa) = Err e ->
    drive s laa legacy trs = Err e.
  Proof.
    intros Hb Hm F He. unfold drive, from_string. rewrite Hb, Hm. cbn [bind].
    now rewrite (fragment_strings_error laa x post e pre F He).
  Qed.

  (** k resolve() calls return, from state st with transcripts trs, reaching st' with trs' left *)
  Inductive returns : nat -> rstate -> list transcript -> rstate -> list transcript -> Prop :=
  | ret0 st trs : returns 0 st trs st trs
  | retS k st trs st1 out st' trs' :
      resolve st (match trs with t :: _ => t | [] => no_transcript end) = Ok (st1, out) ->
      returns k st1 (tl trs) st' trs' -> returns (Datatypes.S k) st trs st' trs'.
  Lemma resolve_iter_error e : forall k n st trs st' trs',
    returns k st trs st' trs' -> (k < n)%nat ->
    resolve st' (match trs' with t :: _ => t | [] => no_transcript end) = Err e ->
    resolve_iter_n n st trs = Err e.
  Proof.
    induction k as [|k IH]; intros n st trs st' trs' R Hk He; inversion R; subst; (destruct n as [|n]; [lia|]); cbn [resolve_iter_n].
    - rewrite He. reflexivity.
    - match goal with H : resolve st _ = Ok _ |- _ => rewrite H end. cbn [bind].
      match goal with H : returns k _ _ _ _ |- _ => rewrite (IH n _ _ _ _ H ltac:(lia) He) end. reflexivity.
  Qed.
  Theorem driver_level_error s laa legacy trs st k st' trs' e :
    from_string read_cgsmiles read_fragments s laa legacy = Ok st ->
    returns k st trs st' trs' -> (k < st_res st)%nat ->
    resolve st' (match trs' with t :: _ => t | [] => no_transcript end) = Err e ->
    drive s laa legacy trs = Err e.
  Proof.
    intros Hs R Hk He. unfold drive. rewrite Hs. cbn [bind]. unfold resolve_all, resolve_iter.
    now rewrite (resolve_iter_error e k (st_res st) st trs st' trs' R Hk He).
  Qed.

  (** the missing fragment, at any level and any node position: the instantiation loop of that level's resolve() *)
  Theorem driver_missing_fragment s laa legacy trs st k st' trs' fd e :
    from_string read_cgsmiles read_fragments s laa legacy = Ok st ->
    returns k st trs st' trs' -> (k < st_res st)%nat ->
    nth_error (st_dicts st') (st_counter st') = Some fd ->
    resolve_disconnected fd (set_nodes_from (st_mol st') (S "fragname") (get_node_attributes (st_mol st') (S "atomname"))) = Err e ->
    drive s laa legacy trs = Err e.
  Proof.
    intros Hs R Hk Hfd He. apply (driver_level_error s laa legacy trs st k st' trs' e Hs R Hk).
    unfold resolve. rewrite Hfd. cbn [of_option bind]. now rewrite (resolve_step_propagates _ _ fd _ _ e He).
  Qed.

  (** the same from the STRING: s = "{body}" ++ tail, resp. s = "{body}.{fbody}" *)
  Theorem driver_string_base_error body tail laa legacy trs e :
    body <> [] -> ~ In "}"%char body -> read_cgsmiles ("{"%char :: body ++ ["}"%char]) = Err e ->
    drive ("{"%char :: body ++ "}"%char :: tail) laa legacy trs = Err e.
  Proof. intros Hne Hno He. exact (driver_base_error _ laa legacy trs _ _ e (find_blocks_cons body tail Hne Hno) He). Qed.
  Theorem driver_string_fragment_error body fbody laa legacy trs mol e :
    body <> [] -> ~ In "}"%char body -> fbody <> [] -> ~ In "}"%char fbody ->
    read_cgsmiles ("{"%char :: body ++ ["}"%char]) = Ok mol ->
    read_fragments ("{"%char :: fbody ++ ["}"%char]) laa = Err e ->
    drive ("{"%char :: body ++ "}"%char :: "."%char :: "{"%char :: fbody ++ ["}"%char]) laa legacy trs = Err e.
  Proof.
    intros Hne Hno Fne Fno Hm He.
    apply (driver_fragment_error _ laa legacy trs ("{"%char :: body ++ ["}"%char]) mol [] ("{"%char :: fbody ++ ["}"%char]) [] e); auto.
    rewrite (find_blocks_cons body _ Hne Hno), find_blocks_skip by discriminate.
    now rewrite (find_blocks_cons fbody [] Fne Fno).
  Qed.
  (** ... any number of blocks: the base block is read, the fragment blocks before the k-th are read, the k-th is refused *)
  Theorem driver_blocks_fragment_error body preB fb postB laa legacy trs mol e :
    Forall (fun b => b <> [] /\ ~ In "}"%char b) (body :: preB ++ fb :: postB) ->
    read_cgsmiles (block_of body) = Ok mol ->
    Forall (fun b => exists d, read_fragments (block_of b) false = Ok d) preB ->
    read_fragments (block_of fb) (aa_flag (map block_of postB) laa) = Err e ->
    drive (dotted (map block_of (body :: preB ++ fb :: postB))) laa legacy trs = Err e.
  Proof.
    intros F Hm FB He.
    apply (driver_fragment_error _ laa legacy trs (block_of body) mol (map block_of preB) (block_of fb) (map block_of postB) e).
    - rewrite (find_blocks_dotted _ F). cbn [map]. now rewrite map_app.
    - exact Hm.
    - rewrite Forall_map. exact FB.
    - exact He.
  Qed.
End Driver.

(** ** read_fragments: `for fragment in split: strip_bonding_descriptors, then the template construction; first name wins`.
    The template construction [mk] (read_fragment_smiles with pysmiles inside, or read_fragment_cgsmiles: for the coarse
    branch [mk false name (clean, bd, _, attributes) := Write/FragRead.read_fragment_cgsmiles fo clean name bd attributes])
    and the dict insertion are ANY functions: the error theorems do not depend on them. *)
Section Fragments.
  Variable fo : float_oracle.
  Variable mk : bool -> pystr -> result -> res graph.
  Variable add : pystr -> graph -> fragdict -> fragdict.
  Notation read_fragments_with := (DriverModel.read_fragments_with fo mk add).

  Lemma fragments_fold_error aa nt post e : forall pre fd,
    Forall (fun y => exists r g, strip_bonding_descriptors fo (snd y) = Ok r /\ mk aa (fst y) r = Ok g) pre ->
    strip_bonding_descriptors fo (snd nt) = Err e ->
    fold_res (fun fd nt => r <- strip_bonding_descriptors fo (snd nt) ;; g <- mk aa (fst nt) r ;; Ok (add (fst nt) g fd))
             (pre ++ nt :: post) fd = Err e.
  Proof.
    induction pre as [|y r IH]; intros fd F He; cbn [app fold_res].
    - rewrite He. reflexivity.
    - inversion F as [|? ? (r0 & g & Hr & Hg) Fr]; subst. rewrite Hr. cbn [bind]. rewrite Hg. cbn [bind]. now apply IH.
  Qed.
  (** a fragment definition whose text strip_bonding_descriptors refuses, at any place of the list *)
  Theorem fragments_strip_error block aa pre nt post e :
    fragment_split block = pre ++ nt :: post ->
    Forall (fun y => exists r g, strip_bonding_descriptors fo (snd y) = Ok r /\ mk aa (fst y) r = Ok g) pre ->
    strip_bonding_descriptors fo (snd nt) = Err e ->
    read_fragments_with block aa = Err e.
  Proof. intros Hs F He. unfold read_fragments_with. rewrite Hs. now apply fragments_fold_error. Qed.

  (** END TO END: an annotation the parser refuses, on any bracket atom / coarse node of any fragment definition of any
      block of the string: from_string(s).resolve_all() raises that error *)
  Theorem driver_fragment_annotation_error read_cgsmiles s laa legacy trs e0 mol preB x postB preF name postF
          toks dc pre body annot post sp e :
    find_blocks s = e0 :: preB ++ x :: postB -> read_cgsmiles e0 = Ok mol ->
    Forall (fun y => exists d, read_fragments_with y false = Ok d) preB ->
    fragment_split x = preF ++ (name, FragText.render (decorate toks dc)) :: postF ->
    Forall (fun y => exists r g, strip_bonding_descriptors fo (snd y) = Ok r /\ mk (aa_flag postB laa) (fst y) r = Ok g) preF ->
    FragText.wf toks dc = true -> excluded toks dc = false ->
    decorate toks dc = pre ++ ITok (TBracket body annot) :: post ->
    spec_run fo sinit pre = Ok sp -> fragment_node_parser fo (annot_text annot) = Err e ->
    drive read_cgsmiles read_fragments_with s laa legacy trs = Err e.
  Proof.
    intros Hb Hm FB Hs FF W X D Hp He.
    apply (driver_fragment_error read_cgsmiles read_fragments_with s laa legacy trs e0 mol preB x postB e Hb Hm FB).
    apply (fragments_strip_error x (aa_flag postB laa) preF (name, FragText.render (decorate toks dc)) postF e Hs FF).
    cbn [snd]. exact (strip_annotation_error_propagates fo toks dc pre body annot post sp e W X D Hp He).
  Qed.
End Fragments.

(** ** the base block, read by the reader component's model: the three reader faults of [MachineInject], through the driver *)
From CGV Require Reader.ReaderImpl Reader.Grammar Reader.Lin Reader.ReaderCheck Reader.ReaderUnit Dialect.MachineFaults Dialect.MachineInject.
Section BaseGrammar.
  Import Reader.ReaderImpl Reader.Grammar Reader.Lin Reader.ReaderCheck Reader.ReaderUnit Dialect.MachineFaults Dialect.MachineInject.
  Variables (fo : float_oracle) (rf : pystr -> bool -> res fragdict) (a : chain).
  Hypotheses (W : Grammar.wf fo a = true) (B : has_branch_mult a = false) (C : class_C04 true a = 0%nat).
  Variables (s : pystr) (rest : list pystr) (laa legacy : bool) (trs : list transcript).
  Hypothesis Hb : find_blocks s = print true a :: rest.
  Let ts := Grammar.toks (expand_branches a).

  Theorem driver_grammar_annotation_error ts1 nm n ts2 y nm' e :
    m_run fo (ts1 ++ TNode nm n :: ts2) m_init = Ok y -> ts = ts1 ++ TNode nm' n :: ts2 ->
    parse_graph_base_node fo nm' = Err e -> drive (read_cgsmiles fo) rf s laa legacy trs = Err e.
  Proof.
    intros R E P. apply (driver_base_error _ rf s laa legacy trs _ rest e Hb).
    exact (grammar_injected_annotation_error fo true a W B C ts1 nm n ts2 y nm' e R E P).
  Qed.
  Theorem driver_grammar_dangling ts1 ts2 o m y :
    m_run fo (ts1 ++ ts2) m_init = Ok y -> ring_occurrences m (ts1 ++ ts2) = 0%nat ->
    (forall x1, m_run fo ts1 m_init = Ok x1 -> m_prev x1 <> None) -> ts = ts1 ++ TRing o m :: ts2 ->
    drive (read_cgsmiles fo) rf s laa legacy trs = Err (ESyntax (S "dangling")).
  Proof.
    intros R Hc Hp E. apply (driver_base_error _ rf s laa legacy trs _ rest _ Hb).
    exact (grammar_injected_dangling fo true a W B C ts1 ts2 o m y R Hc Hp E).
  Qed.
  Theorem driver_grammar_duplicate ts1 nu o m syms nv o' ts2 x1 au av :
    m_run fo ts1 m_init = Ok x1 -> ring_occurrences m ts1 = 0%nat ->
    parse_graph_base_node fo nu = Ok au -> parse_graph_base_node fo nv = Ok av ->
    Forall (fun t => match t with TSym _ => True | _ => False end) syms ->
    ts = ts1 ++ TNode nu 1 :: TRing o m :: syms ++ TNode nv 1 :: TRing o' m :: ts2 ->
    drive (read_cgsmiles fo) rf s laa legacy trs = Err (ESyntax (S "double")).
  Proof.
    intros R Hc Pu Pv F E. apply (driver_base_error _ rf s laa legacy trs _ rest _ Hb).
    exact (grammar_injected_duplicate fo true a W B C ts1 nu o m syms nv o' ts2 x1 au av R Hc Pu Pv F E).
  Qed.
End BaseGrammar.

(** ** non-vacuity: the driver on concrete strings (fragments read by [read_fragments_with] with a one-node template) *)
Definition ex_mk (_ : bool) (name : pystr) (r : result) : res graph :=
  Ok (add_node gempty 0%Z [(S "fragname", VStr name); (S "fragid", VInt 0)]).
Definition ex_add (name : pystr) (g : graph) (fd : fragdict) : fragdict := fd ++ [(name, g)].
Definition ex_fo : float_oracle := fo_of_table [(S "1", Some (S "1.0")); (S "abc", None)].
Definition ex_drive (s : pystr) := drive (Reader.ReaderImpl.read_cgsmiles ex_fo) (read_fragments_with ex_fo ex_mk ex_add) s false true [].
Definition outcome (s : pystr) : option err := match ex_drive s with Ok _ => None | Err e => Some e end.
Example driver_example :
  outcome (S "{[#A][#A]}.{#A=[$][#X][$]}") = None /\
  outcome (S "{[#A][#A;a=b=c]}.{#A=[$][#X][$]}") = Some (ESyntax (S "toomany_eq")) /\
  outcome (S "{[#A]1[#A]}.{#A=[$][#X][$]}") = Some (ESyntax (S "dangling")) /\
  outcome (S "{[#A]1[#A]1}.{#A=[$][#X][$]}") = Some (ESyntax (S "double")) /\
  outcome (S "{[#A][#A]}.{#A=[$][#X;w=abc][$]}") = Some EType /\
  outcome (S "{[#A][#B]}.{#A=[$][#X][$]}") = Some (ESyntax (S "nofrag")).
Proof. vm_compute. repeat split; reflexivity. Qed.

(** ** the coarse branch of fragment_iter as the writer component models it (Write/FragRead.v) IS an instance of the shape:
    [mk false name (clean, bd, _, attributes) = read_fragment_cgsmiles fo clean name bd attributes] *)
From CGV Require Write.FragRead.
Definition mk_coarse (fo : float_oracle) (_ : bool) (name : pystr) (r : result) : res graph :=
  let '(clean, bd, _, attributes) := r in Write.FragRead.read_fragment_cgsmiles fo clean name bd attributes.
Lemma coarse_branch_is_instance fo aa name text :
  (r <- strip_bonding_descriptors fo text ;; mk_coarse fo aa name r) = Write.FragRead.read_coarse_fragment fo name text.
Proof. reflexivity. Qed.
(** so: a coarse fragment block whose k-th definition the writer's model refuses at the strip stage is refused as a whole *)
Theorem coarse_fragments_strip_error fo add block pre nt post e :
  fragment_split block = pre ++ nt :: post ->
  Forall (fun y => exists g, Write.FragRead.read_coarse_fragment fo (fst y) (snd y) = Ok g) pre ->
  strip_bonding_descriptors fo (snd nt) = Err e ->
  read_fragments_with fo (mk_coarse fo) add block false = Err e.
Proof.
  intros Hs F He. apply (fragments_strip_error fo (mk_coarse fo) add block false pre nt post e Hs); [|exact He].
  eapply Forall_impl; [|exact F]. intros y (g & Hg). rewrite <- (coarse_branch_is_instance fo false) in Hg.
  destruct (strip_bonding_descriptors fo (snd y)) as [r|]; cbn [bind] in Hg; [|discriminate]. now exists r, g.
Qed.
