(** CoarseTextAnnot: [TextAnnot] for COARSE fragment definitions ({#F=[$][#X;...][#Y][$]}), over the writer component's
    model of cgsmiles_utils.read_fragment_cgsmiles and of the coarse branch of fragment_iter (Write/FragRead.v, compared
    with the implementation on that component's runs): strip_bonding_descriptors on the text, read_cgsmiles on the clean
    text, atomname/bonding/fragname/fragid/w layered, and the annotation dicts LAST.
      - the annotation written on the i-th node token is on template node i, under every key it writes (nothing
        overwrites it: the annotations are applied last);
      - every other key of template node i, outside atomname/bonding/fragname/fragid/w, is what read_cgsmiles gave;
      - through [ReturnedCoarse]: every copy of that node in the graph a coarse resolve() returns has the written value. *)
From Coq Require Import String.
From Coq Require Import List Ascii ZArith Bool Lia Permutation.
From CGV Require Import Base.PyBase Base.PyVal Base.NxGraph Dialect.DialectImpl Dialect.DialectDefs Dialect.DialectProofs
     Frag.NDict Frag.StripImpl Frag.FragText Frag.FragProofs Hydro.GraphLemmas Hydro.Fragments Hydro.SquashDefs Hydro.HydroDefs
     Resolve.Bonding Resolve.GraphOps Resolve.CopyProofs Resolve.MapProofs Resolve.Pipeline Resolve.PipelineFull Compose.CutModel.
From CGV Require Resolve.SortGraphProofs Reader.ReaderImpl.
From CGV Require Import Write.FragRead.
From CGV Require Import Dialect.FragAnnot Dialect.TemplateAnnot Dialect.CopyAnnot Dialect.ReturnedAnnot Dialect.TextAnnot Dialect.ReturnedCoarse.
Import ListNotations.
Open Scope Z_scope.

Definition coarse_written : list pystr := [S "atomname"; S "bonding"; S "fragname"; S "fragid"; S "w"].

Lemma keys_set_from a d : forall g, node_keys (set_nodes_from g a d) = node_keys g.
Proof.
  unfold set_nodes_from. induction d as [|kv r IH]; intros g; cbn [fold_left]; [reflexivity|].
  rewrite IH. unfold set_node_attr. now apply keys_gupdate.
Qed.
Lemma node_get_set_from_key a d key : key <> a -> forall g i, node_get (set_nodes_from g a d) i key = node_get g i key.
Proof.
  intros N. unfold set_nodes_from. induction d as [|[k' v] r IH]; intros g i; cbn [fold_left]; [reflexivity|].
  rewrite IH. cbn [fst snd]. unfold node_get, set_node_attr. rewrite gfind_gupdate by reflexivity.
  destruct (Z.eqb i k'); [|reflexivity]. destruct (gfind i g) as [n|]; cbn; [|reflexivity]. now apply aget_aset_other.
Qed.

(** every annotation dict strip_bonding_descriptors returns has distinct keys *)
Lemma strip_ann_dicts fo toks dc clean desc ez ann : FragText.wf toks dc = true -> excluded toks dc = false ->
  strip_bonding_descriptors fo (FragText.render (decorate toks dc)) = Ok (clean, desc, ez, ann) ->
  forall i a, In (i, a) (ann_list ann) -> NoDup (map fst a).
Proof.
  intros Wt Xt Strip i a Hin. unfold ann_list in Hin. apply in_map_iff in Hin as ([k b] & E & Hin). cbn [fst snd] in E. injection E as E1 E2. subst i a.
  rewrite (strip_correct fo toks dc Wt Xt) in Strip. unfold strip_spec, spec_items in Strip.
  destruct (spec_run fo sinit (decorate toks dc)) as [sp'|] eqn:E1; cbn in Strip; [|discriminate]. inversion Strip; subst.
  assert (Hall : forall items sp sp2, spec_run fo sp items = Ok sp2 -> Forall (fun kv => NoDup (map fst (snd kv))) (s_ann sp) ->
                 Forall (fun kv => NoDup (map fst (snd kv))) (s_ann sp2)).
  { clear. induction items as [|it r IH]; intros sp sp2 H F; cbn [spec_run] in H; [injection H as <-; exact F|].
    destruct (spec_item fo sp it) as [sp1|] eqn:E; cbn [bind] in H; [|discriminate]. apply (IH sp1 sp2 H).
    destruct it as [d|t|d]; cbn [spec_item] in E; [injection E as <-; exact F| |injection E as <-; exact F].
    destruct t; cbn [spec_tok] in E; try (injection E as <-; exact F).
    destruct (fragment_node_parser fo _) as [a|]; cbn [bind] in E; [|discriminate]. injection E as <-. cbn [s_ann].
    clear -F. induction (s_ann sp) as [|[k y] l IHl]; cbn.
    - constructor; [cbn; apply aupdate_nodup; constructor|constructor].
    - inversion F; subst. destruct (Nat.eqb (s_n sp) k); constructor; auto. cbn. now apply aupdate_nodup. }
  pose proof (Hall _ _ _ E1 (Forall_nil _)) as F. rewrite Forall_forall in F. exact (F (k, b) Hin).
Qed.

Section CoarseText.
  Variable fo : float_oracle.
  Variables (name : pystr) (toks : list tok) (dc : decor).
  Hypothesis Wt : FragText.wf toks dc = true.
  Hypothesis Xt : excluded toks dc = false.
  Variables (clean : pystr) (desc : ndict (list pystr)) (ez : ndict ascii) (ann : ndict attrs).
  Hypothesis Strip : strip_bonding_descriptors fo (FragText.render (decorate toks dc)) = Ok (clean, desc, ez, ann).
  Variable T : graph.
  Hypothesis Read : read_coarse_fragment fo name (FragText.render (decorate toks dc)) = Ok T.

  (** what the model does, unfolded once *)
  Lemma coarse_template_shape : exists g g5, ReaderImpl.read_cgsmiles fo clean = Ok g /\ node_keys g5 = node_keys g /\
    (forall j key, ~ In key coarse_written -> node_get g5 j key = node_get g j key) /\
    T = set_attr_dicts g5 (ann_list ann).
  Proof.
    unfold read_coarse_fragment in Read. rewrite Strip in Read. cbn [bind] in Read. unfold read_fragment_cgsmiles in Read.
    destruct (ReaderImpl.read_cgsmiles fo clean) as [g|] eqn:Eg; cbn [bind] in Read; [|discriminate]. injection Read as R.
    eexists g, _. split; [reflexivity|]. split; [|split; [|symmetry; exact R]].
    - now rewrite !keys_set_all, !keys_set_from.
    - intros j key Hk. cbn in Hk.
      rewrite !node_get_set_all by (intros ->; apply Hk; tauto).
      rewrite !node_get_set_from_key by (intros ->; apply Hk; tauto). reflexivity.
  Qed.

  (** the annotated node: template node i has the written value, under EVERY key the annotation writes *)
  Theorem coarse_text_annotation_on_template pre body annot post a key v :
    decorate toks dc = pre ++ ITok (TBracket body annot) :: post ->
    fragment_node_parser fo (annot_text annot) = Ok a -> In (key, v) a ->
    has_node T (Z.of_nat (atoms_of pre)) = true ->
    node_get T (Z.of_nat (atoms_of pre)) key = Some v.
  Proof.
    intros D Hp Hkv Hn.
    destruct coarse_template_shape as (g & g5 & Eg & K5 & _ & ->).
    destruct (strip_annotation_reaches_attributes fo toks dc pre body annot post clean desc ez ann a Wt Xt D Strip Hp) as (a' & Ga & Eq).
    assert (NDa : NoDup (map fst a)) by (unfold fragment_node_parser in Hp; now apply parse_nodup in Hp).
    assert (Hv : aget key a' = Some v) by (rewrite (Eq key), aget_assoc; now apply assoc_in).
    pose proof (strip_annotation_dict_keys fo toks dc clean desc ez ann Wt Xt Strip) as NDk.
    rewrite set_attr_dicts_exact; [|exact (ann_list_nodup ann NDk)|exact (strip_ann_dicts fo toks dc clean desc ez ann Wt Xt Strip)].
    rewrite (has_keys_eq _ _ _ (keys_set_attr_dicts _ _)) in Hn. unfold has_node in Hn.
    destruct (gfind (Z.of_nat (atoms_of pre)) g5); [|discriminate].
    rewrite (ann_list_zassoc ann _ NDk), Ga. unfold annotated_value. now rewrite Hv.
  Qed.

  (** every other key, outside the five the function writes: the annotation's value if it has one, else read_cgsmiles' *)
  Theorem coarse_template_exact : exists g, ReaderImpl.read_cgsmiles fo clean = Ok g /\ node_keys T = node_keys g /\
    forall j key, ~ In key coarse_written ->
      node_get T (Z.of_nat j) key = if has_node g (Z.of_nat j) then annotated_value key (nd_get j ann) (node_get g (Z.of_nat j) key) else None.
  Proof.
    destruct coarse_template_shape as (g & g5 & Eg & K5 & V5 & ->). exists g. split; [exact Eg|].
    split; [now rewrite keys_set_attr_dicts|].
    intros j key Hk. pose proof (strip_annotation_dict_keys fo toks dc clean desc ez ann Wt Xt Strip) as NDk.
    rewrite set_attr_dicts_exact; [|exact (ann_list_nodup ann NDk)|exact (strip_ann_dicts fo toks dc clean desc ez ann Wt Xt Strip)].
    rewrite <- (has_keys_eq g g5 _ K5). unfold has_node.
    destruct (gfind (Z.of_nat j) g5); [|reflexivity]. now rewrite (ann_list_zassoc ann _ NDk), (V5 _ _ Hk).
  Qed.
End CoarseText.

(** ** ... to the graph a coarse resolve() returns *)
Section CoarseTextReturned.
  Variable fo : float_oracle.
  Variables (name : pystr) (toks : list tok) (dc : decor).
  Hypothesis Wt : FragText.wf toks dc = true.
  Hypothesis Xt : excluded toks dc = false.
  Variable T : graph.
  Hypothesis Read : read_coarse_fragment fo name (FragText.render (decorate toks dc)) = Ok T.
  Variable C : cut.
  Hypothesis W : wf_cut C.
  Variable fd : fragdict.
  Hypothesis HT : templates_ok C fd.
  Hypothesis Hwfd : wf_dict fd.
  Hypothesis Hname : fd_get name fd = Some T.
  Variable B : graph.
  Hypothesis HB : is_base C B.
  Variables (prev : graph) (car : option graph) (fo_ : full_out).
  Hypothesis HM : meta_of prev = B.
  Hypothesis Step : resolve_step_full true false fd prev car = Ok fo_.

  Theorem coarse_text_annotation_reaches_returned_graph :
    exists m, sort_mapping (fo_m3 fo_) = Ok m /\ SortGraphProofs.inj_on (map_get m) (node_keys (fo_m3 fo_)) /\
      forall pre body annot post a key v,
        decorate toks dc = pre ++ ITok (TBracket body annot) :: post ->
        fragment_node_parser fo (annot_text annot) = Ok a -> In (key, v) a -> carried_key key ->
        forall p xs x, nth_error (c_parts C) p = Some (name, xs) -> nth_error xs (atoms_of pre) = Some x ->
          node_get (fo_mol fo_) (map_get m (phi C x)) key = Some v.
  Proof.
    destruct (annotation_reaches_returned_graph_coarse C W fd HT Hwfd B HB prev car fo_ HM Step) as (m & Em & Inj & Hk).
    exists m. split; [exact Em|]. split; [exact Inj|].
    intros pre body annot post a key v D Hp Hkv Ck p xs x Ep Ex.
    destruct (HT name xs (nth_error_In _ _ Ep)) as (T' & ET & IT). rewrite Hname in ET. injection ET as <-.
    destruct (it_attrs _ _ _ _ IT _ _ Ex) as (a0 & Na & _). unfold node_attrs in Na.
    destruct (gfind (Z.of_nat (atoms_of pre)) T) as [n|] eqn:Gn; [|discriminate].
    assert (Hn : has_node T (Z.of_nat (atoms_of pre)) = true) by (unfold has_node; now rewrite Gn).
    unfold read_coarse_fragment in Read.
    destruct (strip_bonding_descriptors fo (FragText.render (decorate toks dc))) as [[[[clean desc] ez] ann]|] eqn:Strip; [|discriminate].
    assert (Read' : read_coarse_fragment fo name (FragText.render (decorate toks dc)) = Ok T)
      by (unfold read_coarse_fragment; rewrite Strip; exact Read).
    pose proof (coarse_text_annotation_on_template fo name toks dc Wt Xt clean desc ez ann Strip T Read' pre body annot post a key v D Hp Hkv Hn) as Vt.
    unfold node_get in Vt. rewrite Gn in Vt.
    rewrite (Hk p name xs T (atoms_of pre) x n key Ep Hname Ex Gn Ck). exact Vt.
  Qed.
End CoarseTextReturned.

(** ** non-vacuity: {#F=[$][#X;w=2;k=v][#Y][$]} *)
Definition exc_toks : list tok := [TBracket (S "#X") (Some (S "w=2;k=v")); TBracket (S "#Y") None].
Definition exc_dc : decor := {| d_lead := [{| d_kind := "$"%char; d_label := []; d_sym := None |}];
                                d_after := [[]; [{| d_kind := "$"%char; d_label := []; d_sym := None |}]] |}.
Definition exc_fo : float_oracle := fo_of_table [(S "2", Some (S "2.0")); (S "1", Some (S "1.0")); (S "0", Some (S "0.0"))].
Example coarse_text_example :
  FragText.render (decorate exc_toks exc_dc) = S "[$][#X;w=2;k=v][#Y][$]" /\ FragText.wf exc_toks exc_dc = true /\ excluded exc_toks exc_dc = false /\
  match read_coarse_fragment exc_fo (S "F") (FragText.render (decorate exc_toks exc_dc)) with
  | Ok T => node_keys T = [0; 1] /\
      map (fun k => (node_get T k (S "weight"), node_get T k (S "k"))) [0; 1]
      = [(Some (VFlt (S "2.0")), Some (VStr (S "v"))); (Some (VFlt (S "1.0")), None)]
  | Err _ => False
  end.
Proof. vm_compute. repeat split; reflexivity. Qed.
