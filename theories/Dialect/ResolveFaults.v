(** ResolveFaults: the missing-fragment fault of C20 over the resolver component's models (imported, not
    edited): Resolve/GraphOps.disc_step / resolve_disconnected (= resolve_disconnected_molecule) and
    Resolve/Pipeline.resolve_step / resolve (= MoleculeResolver.resolve).  A coarse node whose fragname has
    no fragment and one of whose incident edges has an order that is not 0 makes resolve() raise the
    documented SyntaxError, wherever the node stands in the coarse graph; nothing is returned. *)
From Coq Require Import String.
From Coq Require Import List Ascii ZArith Bool Lia.
From CGV Require Import Base.PyBase Base.PyVal Base.NxGraph Resolve.Bonding Resolve.GraphOps Resolve.Pipeline
     Dialect.CopyAnnot.
Import ListNotations.
Open Scope Z_scope.

Lemma map_res_orders l : Forall (fun wa => aget (S "order") (snd wa) <> None) l ->
  exists os, map_res (fun wa : Z * attrs => of_option (aget (S "order") (snd wa)) EKey) l = Ok os /\
             forall wa o, In wa l -> aget (S "order") (snd wa) = Some o -> In o os.
Proof.
  induction 1 as [|wa r Hwa F IH]; [exists []; split; [reflexivity|intros ? ? []]|].
  destruct IH as [os [E I]]. destruct (aget (S "order") (snd wa)) as [o|] eqn:Eo; [|congruence].
  exists (o :: os). split.
  - cbn [map_res]. rewrite Eo. cbn [of_option bind]. rewrite E. reflexivity.
  - intros wa' o' [<-|Hin] Ho; [rewrite Eo in Ho; inversion Ho; now left|right; now apply (I wa')].
Qed.
(** the virtual-node test fails for a node with a non-zero incident order *)
Lemma virtual_ok_real mn w d o : Forall (fun wa => aget (S "order") (snd wa) <> None) (nadj mn) ->
  In (w, d) (nadj mn) -> aget (S "order") d = Some o -> order_is_zero o = false ->
  virtual_ok mn = Err (ESyntax (S "nofrag")).
Proof.
  intros F Hin Ho Hz. unfold virtual_ok. destruct (map_res_orders _ F) as [os [E I]]. rewrite E. cbn [bind].
  assert (Hf : forallb order_is_zero os = false).
  { apply not_true_is_false. intros A. rewrite forallb_forall in A. specialize (A o (I (w, d) o Hin Ho)). congruence. }
  now rewrite Hf.
Qed.
Lemma disc_step_missing fd st mn fv w d o :
  aget (S "fragname") (na mn) = Some fv -> lookup_fragment fd fv = None ->
  Forall (fun wa => aget (S "order") (snd wa) <> None) (nadj mn) ->
  In (w, d) (nadj mn) -> aget (S "order") d = Some o -> order_is_zero o = false ->
  disc_step fd st mn = Err (ESyntax (S "nofrag")).
Proof.
  intros Hf Hl F Hin Ho Hz. unfold disc_step. destruct st as [mol fgs]. rewrite Hf. cbn [of_option bind]. rewrite Hl.
  rewrite (virtual_ok_real mn w d o F Hin Ho Hz). reflexivity.
Qed.
(** wherever the node stands: the nodes before it were instantiated (or skipped as virtual) without error *)
Theorem missing_fragment_rejected_at fd pre mn post st fv w d o :
  fold_res (disc_step fd) pre (gempty, []) = Ok st ->
  aget (S "fragname") (na mn) = Some fv -> lookup_fragment fd fv = None ->
  Forall (fun wa => aget (S "order") (snd wa) <> None) (nadj mn) ->
  In (w, d) (nadj mn) -> aget (S "order") d = Some o -> order_is_zero o = false ->
  resolve_disconnected fd (pre ++ mn :: post) = Err (ESyntax (S "nofrag")).
Proof.
  intros Hp Hf Hl F Hin Ho Hz. unfold resolve_disconnected. rewrite fold_res_app, Hp. cbn [bind].
  change (fold_res (disc_step fd) (mn :: post) st) with (b' <- disc_step fd st mn ;; fold_res (disc_step fd) post b').
  now rewrite (disc_step_missing fd st mn fv w d o Hf Hl F Hin Ho Hz).
Qed.
(** ... and resolve() returns nothing: the error of the instantiation loop is the result of the step *)
Theorem resolve_step_propagates legacy aa fd prev tr e :
  resolve_disconnected fd (set_nodes_from prev (S "fragname") (get_node_attributes prev (S "atomname"))) = Err e ->
  resolve_step legacy aa fd prev tr = Err e.
Proof. intros H. unfold resolve_step. rewrite H. reflexivity. Qed.

(** non-vacuity: {[#A][#B]} with a fragment for A only *)
Example missing_fragment_model_example :
  let meta := add_edge (add_node (add_node gempty 0 [(S "fragname", VStr (S "A"))]) 1 [(S "fragname", VStr (S "B"))])
                       0 1 [(S "order", VInt 1)] in
  let fd := [(S "A", add_node gempty 0 [(S "element", VStr (S "C"))])] in
  resolve_disconnected fd meta = Err (ESyntax (S "nofrag")).
Proof. vm_compute. reflexivity. Qed.
