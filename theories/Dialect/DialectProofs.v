(** DialectProofs: proofs about the dialect model (DialectImpl) over the generated tables. *)
From Coq Require Import String.
From Coq Require Import List Ascii ZArith Bool Lia Permutation.
From CGV Require Import Base.PyBase Base.PyVal Gen.DialectGen Dialect.DialectImpl Dialect.DialectDefs.
Import ListNotations.

(** the tables regenerated from dialects.py say what the documentation says (names, order,
    defaults, types, long names) and have the shape the generic theorems need *)
Lemma generated_tables_documented :
  dialect_agrees graph_base_dialect doc_coarse = true /\ dialect_agrees fragment_node_dialect doc_atomic = true.
Proof. split; vm_compute; reflexivity. Qed.
Lemma wf_generated : wf_dialect graph_base_dialect = true /\ wf_dialect fragment_node_dialect = true.
Proof. split; vm_compute; reflexivity. Qed.
