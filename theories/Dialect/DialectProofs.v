(** DialectProofs: proofs about the dialect model (DialectImpl) over the generated tables.
    Everything is for EVERY float oracle [fo] and, where possible, for every dialect of the
    generated shape ([wf_dialect]); the generated tables are instances (wf_generated). *)
From Coq Require Import String.
From Coq Require Import List Ascii ZArith Bool Lia Permutation.
From CGV Require Import Base.PyBase Base.PyVal Gen.DialectGen Dialect.DialectImpl Dialect.DialectDefs.
Import ListNotations.

(** the tables regenerated from dialects.py say what the documentation says (names, order,
    defaults, types, long names) and have the shape the generic theorems need *)
Lemma generated_tables_documented :
  dialect_agrees graph_base_dialect doc_coarse = true /\ dialect_agrees fragment_node_dialect doc_atomic = true.
Proof. split; vm_compute; reflexivity. Qed.
Lemma wf_generated : wf_dialect graph_base_dialect = true /\ wf_dialect fragment_node_dialect = true.
Proof. split; vm_compute; reflexivity. Qed.
Lemma names_clean_generated :
  forallb clean (pnames graph_base_dialect) = true /\ forallb clean (pnames fragment_node_dialect) = true.
Proof. split; vm_compute; reflexivity. Qed.

(** ** strings *)
Lemma split_on_nosep c s : forall cur, ~ In c s -> split_on c s cur = [rev cur ++ s].
Proof.
  induction s as [|x s IH]; intros cur H; cbn.
  - now rewrite app_nil_r.
  - destruct (Ascii.eqb_spec x c) as [->|N]; [exfalso; apply H; now left|].
    rewrite IH; [|intros HI; apply H; now right]. cbn. now rewrite <- app_assoc.
Qed.
Lemma split_on_sep c a b : forall cur, ~ In c a ->
  split_on c (a ++ c :: b) cur = (rev cur ++ a) :: split_on c b [].
Proof.
  induction a as [|x a IH]; intros cur H; cbn.
  - rewrite Ascii.eqb_refl. now rewrite app_nil_r.
  - destruct (Ascii.eqb_spec x c) as [->|N]; [exfalso; apply H; now left|].
    rewrite IH; [|intros HI; apply H; now right]. cbn. now rewrite <- app_assoc.
Qed.
Lemma py_split_join c es : es <> [] -> Forall (fun e => ~ In c e) es -> py_split (join [c] es) c = es.
Proof.
  unfold py_split. induction es as [|x r IH]; intros N F; [congruence|].
  inversion F as [|? ? Hx Hr]; subst. destruct r as [|y r'].
  - cbn. now rewrite split_on_nosep.
  - change (join [c] (x :: y :: r')) with (x ++ [c] ++ join [c] (y :: r')).
    cbn [app]. rewrite split_on_sep by assumption. cbn [rev app]. f_equal. apply IH; [discriminate|assumption].
Qed.
Lemma join_nil_inv c es : join [c] es = [] -> es = [] \/ es = [[]].
Proof.
  destruct es as [|x [|y r]]; cbn; intros H; auto.
  - right. now subst.
  - destruct x; cbn in H; discriminate.
Qed.

Lemma clean_spec s : clean s = true -> ~ In ";"%char s /\ ~ In "="%char s.
Proof.
  unfold clean. rewrite andb_true_iff, !negb_true_iff. intros [A B]. split; intros HI.
  - apply char_in_In in HI. congruence.
  - apply char_in_In in HI. congruence.
Qed.
Lemma count_notin c s : ~ In c s -> py_count s c = 0.
Proof.
  unfold py_count. induction s as [|x s IH]; intros H; [reflexivity|]. cbn.
  destruct (Ascii.eqb_spec c x) as [->|N]; [exfalso; apply H; now left|]. apply IH. intros HI; apply H; now right.
Qed.
Lemma count_app c a b : py_count (a ++ b) c = py_count a c + py_count b c.
Proof. unfold py_count. now rewrite filter_app, app_length. Qed.
Lemma count_render_kw kv : clean_entry kv = true -> py_count (render_kw kv) "="%char = 1.
Proof.
  unfold clean_entry, render_kw. rewrite andb_true_iff. intros [A B].
  apply clean_spec in A. apply clean_spec in B. rewrite count_app.
  rewrite (count_notin _ _ (proj2 A)). change ("="%char :: snd kv) with (["="%char] ++ snd kv).
  rewrite count_app, (count_notin _ _ (proj2 B)). reflexivity.
Qed.
Lemma split_render_kw kv : clean_entry kv = true -> py_split (render_kw kv) "="%char = [fst kv; snd kv].
Proof.
  unfold clean_entry, render_kw, py_split. rewrite andb_true_iff. intros [A B].
  apply clean_spec in A. apply clean_spec in B.
  rewrite split_on_sep by apply A. cbn [rev app]. now rewrite split_on_nosep by apply B.
Qed.
Lemma render_kw_nosemi kv : clean_entry kv = true -> ~ In ";"%char (render_kw kv).
Proof.
  unfold clean_entry, render_kw. rewrite andb_true_iff. intros [A B].
  apply clean_spec in A. apply clean_spec in B. intros HI. apply in_app_or in HI. destruct HI as [HI|[HI|HI]].
  - now apply A. - discriminate. - now apply B.
Qed.

(** ** generic association lists *)
Fixpoint assoc {A} (k : pystr) (l : list (pystr * A)) : option A :=
  match l with [] => None | (k', v) :: r => if str_eqb k k' then Some v else assoc k r end.
Lemma kw_get_assoc k d : kw_get k d = assoc k d.
Proof. induction d as [|[k' v] r IH]; cbn; [reflexivity|now rewrite IH]. Qed.
Lemma aget_assoc k d : aget k d = assoc k d.
Proof. induction d as [|[k' v] r IH]; cbn; [reflexivity|now rewrite IH]. Qed.
Lemma assoc_notin {A} k (l : list (pystr * A)) : ~ In k (map fst l) -> assoc k l = None.
Proof.
  induction l as [|[k' v] r IH]; cbn; intros H; [reflexivity|].
  destruct (str_eqb_spec k k') as [->|N]; [exfalso; apply H; now left|]. apply IH. intros HI; apply H; now right.
Qed.
Lemma assoc_in {A} k v (l : list (pystr * A)) : NoDup (map fst l) -> In (k, v) l -> assoc k l = Some v.
Proof.
  induction l as [|[k' v'] r IH]; cbn; intros ND HI; [destruct HI|].
  inversion ND as [|? ? Hn Hr]; subst. destruct HI as [E|HI].
  - inversion E; subst. now rewrite str_eqb_refl.
  - destruct (str_eqb_spec k k') as [->|N]; [|now apply IH].
    exfalso. apply Hn. change k' with (fst (k', v)). now apply in_map.
Qed.
Lemma assoc_some_in {A} k v (l : list (pystr * A)) : assoc k l = Some v -> In (k, v) l.
Proof.
  induction l as [|[k' v'] r IH]; cbn; intros H; [discriminate|].
  destruct (str_eqb_spec k k') as [->|N]; [inversion H; now left|right; now apply IH].
Qed.
Lemma assoc_perm {A} k (l l' : list (pystr * A)) : Permutation l l' -> NoDup (map fst l) -> assoc k l = assoc k l'.
Proof.
  intros P ND. assert (ND' : NoDup (map fst l')) by (eapply Permutation_NoDup; [apply Permutation_map, P|exact ND]).
  destruct (assoc k l) as [v|] eqn:E.
  - symmetry. apply assoc_in; [assumption|]. eapply Permutation_in; [exact P|]. now apply assoc_some_in.
  - destruct (assoc k l') as [v|] eqn:E'; [|reflexivity].
    apply assoc_some_in in E'. apply (Permutation_in _ (Permutation_sym P)) in E'.
    apply (assoc_in _ _ _ ND) in E'. congruence.
Qed.
Lemma assoc_app {A} k (a b : list (pystr * A)) :
  assoc k (a ++ b) = match assoc k a with Some v => Some v | None => assoc k b end.
Proof. induction a as [|[k' v] r IH]; cbn; [reflexivity|]. destruct (str_eqb k k'); [reflexivity|exact IH]. Qed.

(** ** splitting a rendered annotation *)
Lemma kw_set_fresh k v d : ~ In k (keys d) -> kw_set k v d = d ++ [(k, v)].
Proof.
  induction d as [|[k' v'] r IH]; cbn; intros H; [reflexivity|].
  destruct (str_eqb_spec k k') as [->|N]; [exfalso; apply H; now left|]. f_equal. apply IH. intros HI; apply H; now right.
Qed.
Lemma split_entries_pos pos : forall rest args kws, Forall (fun v => clean v = true) pos ->
  split_entries (pos ++ rest) args kws = split_entries rest (args ++ pos) kws.
Proof.
  induction pos as [|x r IH]; intros rest args kws F; cbn [app].
  - now rewrite app_nil_r.
  - inversion F as [|? ? Hx Hr]; subst. apply clean_spec in Hx. destruct Hx as [_ Hx]. cbn [split_entries].
    rewrite (count_notin _ _ Hx). cbn. unfold py_split. rewrite split_on_nosep by assumption. cbn [rev app].
    rewrite IH by assumption. now rewrite <- app_assoc.
Qed.
Lemma split_entries_kws l : forall rest args kws, Forall (fun kv => clean_entry kv = true) l ->
  NoDup (keys kws ++ keys l) ->
  split_entries (map render_kw l ++ rest) args kws = split_entries rest args (kws ++ l).
Proof.
  induction l as [|[k v] r IH]; intros rest args kws F ND; cbn [map app].
  - now rewrite app_nil_r.
  - inversion F as [|? ? Hx Hr]; subst. cbn [split_entries].
    rewrite (count_render_kw _ Hx). change (Nat.ltb 1 1) with false. cbv iota.
    rewrite (split_render_kw _ Hx). cbn [fst snd].
    rewrite kw_set_fresh.
    + rewrite IH; [now rewrite <- app_assoc|assumption|].
      unfold keys in *. rewrite map_app. cbn. rewrite <- app_assoc. exact ND.
    + unfold keys in ND. cbn in ND. apply NoDup_remove_2 in ND. intros HI. apply ND. apply in_or_app. now left.
Qed.

Lemma split_render pos kws :
  Forall (fun v => clean v = true) pos -> Forall (fun kv => clean_entry kv = true) kws -> NoDup (keys kws) ->
  pos ++ map render_kw kws <> [[]] ->
  split_annotation (render pos kws) = Ok (pos, kws).
Proof.
  intros Fp Fk ND NE. unfold split_annotation, render.
  destruct (join sep (pos ++ map render_kw kws)) eqn:J.
  - apply join_nil_inv in J. destruct J as [J|J]; [|contradiction].
    apply app_eq_nil in J. destruct J as [-> J]. apply map_eq_nil in J. now subst.
  - rewrite <- J. unfold sep. rewrite py_split_join.
    + rewrite split_entries_pos by assumption. rewrite <- (app_nil_r (map render_kw kws)).
      rewrite split_entries_kws; [reflexivity|assumption|exact ND].
    + intros E. rewrite E in J. discriminate.
    + apply Forall_app. split.
      * eapply Forall_impl; [|exact Fp]. intros e0 Ha. apply clean_spec in Ha. apply Ha.
      * apply Forall_forall. intros e He. apply in_map_iff in He. destruct He as [kv [<- Hk]].
        apply render_kw_nosemi. rewrite Forall_forall in Fk. now apply Fk.
Qed.

(** general writings: positional and keyword entries interleaved *)
Lemma split_entries_ents es : forall rest args kws,
  Forall (fun v => clean v = true) (pos_of es) -> Forall (fun kv => clean_entry kv = true) (kws_of es) ->
  NoDup (keys kws ++ keys (kws_of es)) ->
  split_entries (map render_ent es ++ rest) args kws = split_entries rest (args ++ pos_of es) (kws ++ kws_of es).
Proof.
  induction es as [|[x|k v] r IH]; intros rest args kws Fp Fk ND; cbn [map app pos_of kws_of flat_map].
  - now rewrite !app_nil_r.
  - cbn [pos_of flat_map app] in Fp. inversion Fp as [|? ? Hx Hr]; subst.
    apply clean_spec in Hx. destruct Hx as [_ Hx]. cbn [split_entries render_ent].
    rewrite (count_notin _ _ Hx). change (Nat.ltb 1 0) with false. cbv iota.
    unfold py_split. rewrite split_on_nosep by assumption. cbn [rev app].
    rewrite IH; [now rewrite <- app_assoc|assumption|assumption|assumption].
  - cbn [kws_of flat_map app] in Fk, ND. inversion Fk as [|? ? Hx Hr]; subst. cbn [split_entries render_ent].
    rewrite (count_render_kw _ Hx). change (Nat.ltb 1 1) with false. cbv iota.
    rewrite (split_render_kw _ Hx). cbn [fst snd]. rewrite kw_set_fresh.
    + rewrite IH; [now rewrite <- app_assoc|assumption|assumption|].
      unfold keys in *. rewrite map_app. cbn. rewrite <- app_assoc. exact ND.
    + unfold keys in ND. cbn in ND. apply NoDup_remove_2 in ND. intros HI. apply ND. apply in_or_app. now left.
Qed.
Lemma render_ent_nosemi e :
  Forall (fun v => clean v = true) (pos_of [e]) -> Forall (fun kv => clean_entry kv = true) (kws_of [e]) ->
  ~ In ";"%char (render_ent e).
Proof.
  destruct e as [x|k v]; cbn; intros A B.
  - inversion A; subst. now apply clean_spec.
  - inversion B; subst. now apply (render_kw_nosemi (k, v)).
Qed.
Lemma pos_of_app a b : pos_of (a ++ b) = pos_of a ++ pos_of b.
Proof. unfold pos_of. now rewrite flat_map_app. Qed.
Lemma kws_of_app a b : kws_of (a ++ b) = kws_of a ++ kws_of b.
Proof. unfold kws_of. now rewrite flat_map_app. Qed.
Lemma split_render_ents es :
  Forall (fun v => clean v = true) (pos_of es) -> Forall (fun kv => clean_entry kv = true) (kws_of es) ->
  NoDup (keys (kws_of es)) -> es <> [EPos []] ->
  split_annotation (render_ents es) = Ok (pos_of es, kws_of es).
Proof.
  intros Fp Fk ND NE. unfold split_annotation, render_ents.
  destruct (join sep (map render_ent es)) eqn:J.
  - apply join_nil_inv in J. destruct J as [J|J].
    + apply map_eq_nil in J. now subst.
    + exfalso. destruct es as [|e [|e' r]]; cbn in J; try discriminate.
      destruct e as [x|k v]; cbn in J; inversion J; [now subst|]. destruct k; discriminate.
  - rewrite <- J. unfold sep. rewrite py_split_join.
    + rewrite <- (app_nil_r (map render_ent es)). rewrite split_entries_ents; [reflexivity|assumption|assumption|exact ND].
    + intros E. rewrite E in J. discriminate.
    + apply Forall_forall. intros t Ht. apply in_map_iff in Ht. destruct Ht as [e [<- He]].
      apply in_split in He. destruct He as [l1 [l2 ->]].
      rewrite pos_of_app, kws_of_app in *. change (e :: l2) with ([e] ++ l2) in *. rewrite pos_of_app, kws_of_app in *.
      apply Forall_app in Fp. destruct Fp as [_ Fp]. apply Forall_app in Fp. destruct Fp as [Fp _].
      apply Forall_app in Fk. destruct Fk as [_ Fk]. apply Forall_app in Fk. destruct Fk as [Fk _].
      now apply render_ent_nosemi.
Qed.

(** ** C20: the error theorems, for every float oracle, every dialect, every position *)
Lemma split_entries_two_eq entries : forall args kws e, In e entries -> 1 < py_count e "="%char ->
  split_entries entries args kws = Err (ESyntax (S "toomany_eq")).
Proof.
  induction entries as [|x r IH]; intros args kws e HI Hc; [destruct HI|]. cbn [split_entries].
  destruct (Nat.ltb 1 (py_count x "="%char)) eqn:E; [reflexivity|].
  destruct HI as [->|HI]; [apply Nat.ltb_lt in Hc; congruence|].
  destruct (py_split x "="%char) as [|a [|b l]]; now apply (IH _ _ e).
Qed.
(** an entry with two '=' anywhere in the annotation: SyntaxError *)
Theorem two_eq_rejected fo dl s e : s <> [] -> In e (py_split s ";"%char) -> 1 < py_count e "="%char ->
  parse_dialect fo dl s = Err (ESyntax (S "toomany_eq")).
Proof.
  intros N HI Hc. unfold parse_dialect, split_annotation. destruct s; [congruence|].
  now rewrite (split_entries_two_eq _ _ _ e).
Qed.
(** ... in particular at every position among arbitrary other entries *)
Theorem two_eq_rejected_at fo dl es1 e es2 :
  Forall (fun x => ~ In ";"%char x) (es1 ++ e :: es2) -> 1 < py_count e "="%char ->
  parse_dialect fo dl (join sep (es1 ++ e :: es2)) = Err (ESyntax (S "toomany_eq")).
Proof.
  intros F Hc. apply (two_eq_rejected fo dl _ e); [| |assumption].
  - intros J. apply join_nil_inv in J. destruct J as [J|J].
    + destruct es1; discriminate.
    + destruct es1 as [|a [|b r]]; cbn in J; inversion J; subst; cbn in Hc; try lia.
  - unfold sep. rewrite py_split_join; [apply in_or_app; right; now left| |assumption]. destruct es1; discriminate.
Qed.

Lemma bind_params_too_many ps : forall args kws, length ps < length args ->
  bind_params ps args kws = Err (ESyntax (S "bind")).
Proof.
  induction ps as [|p r IH]; intros [|a args'] kws H; cbn in H; try lia; cbn [bind_params]; [reflexivity|].
  destruct (kw_get (pname p) kws); [reflexivity|]. rewrite IH by lia. reflexivity.
Qed.
(** more positional values than parameters: SyntaxError *)
Theorem too_many_positional_rejected fo dl s args kws :
  split_annotation s = Ok (args, kws) -> length (params dl) < length args ->
  parse_dialect fo dl s = Err (ESyntax (S "bind")).
Proof.
  intros Hs H. unfold parse_dialect. rewrite Hs. cbn. unfold bind_cast. now rewrite bind_params_too_many.
Qed.
Lemma bind_params_twice ps : forall i args kws p, nth_error ps i = Some p -> i < length args ->
  kw_get (pname p) kws <> None -> bind_params ps args kws = Err (ESyntax (S "bind")).
Proof.
  induction ps as [|p0 r IH]; intros i args kws p Hn Hl Hk; [destruct i; discriminate|].
  destruct args as [|a args']; [cbn in Hl; lia|]. cbn [bind_params]. destruct i as [|j].
  - cbn in Hn. inversion Hn; subst. destruct (kw_get (pname p) kws); [reflexivity|congruence].
  - cbn in Hn, Hl. destruct (kw_get (pname p0) kws); [reflexivity|].
    rewrite (IH j args' kws p); [reflexivity|assumption|lia|assumption].
Qed.
(** a parameter filled positionally and by keyword: SyntaxError *)
Theorem bound_twice_rejected fo dl s args kws i p :
  split_annotation s = Ok (args, kws) -> nth_error (params dl) i = Some p -> i < length args ->
  kw_get (pname p) kws <> None -> parse_dialect fo dl s = Err (ESyntax (S "bind")).
Proof.
  intros Hs Hn Hl Hk. unfold parse_dialect. rewrite Hs. cbn. unfold bind_cast.
  now rewrite (bind_params_twice _ i args kws p).
Qed.

Lemma cast_err fo t v e : cast fo t v = Err e -> e = EType.
Proof. destruct t; cbn; [destruct (fo v)|]; intros H; inversion H; reflexivity. Qed.
Lemma cast_bound_err fo bound p v : In (p, Some v) bound -> ptype p = TFloat -> fo v = None ->
  cast_bound fo bound = Err EType.
Proof.
  induction bound as [|[q [w|]] r IH]; intros HI Ht Hf; [destruct HI| |].
  - cbn [cast_bound]. destruct HI as [E|HI].
    + inversion E; subst. unfold cast. rewrite Ht, Hf. reflexivity.
    + destruct (cast fo (ptype q) w) eqn:C; cbn.
      * rewrite IH by assumption. reflexivity.
      * apply cast_err in C. now subst.
  - cbn [cast_bound]. destruct HI as [E|HI]; [discriminate|]. rewrite IH by assumption. reflexivity.
Qed.
(** a reserved numeric key whose text float() refuses: TypeError (once the binding itself succeeded) *)
Theorem non_numeric_rejected fo dl s args kws bound rest p v :
  split_annotation s = Ok (args, kws) -> bind_params (params dl) args kws = Ok (bound, rest) ->
  accept_kwargs dl = true -> In (p, Some v) bound -> ptype p = TFloat -> fo v = None ->
  parse_dialect fo dl s = Err EType.
Proof.
  intros Hs Hb Ha HI Ht Hf. unfold parse_dialect. rewrite Hs. cbn. unfold bind_cast. rewrite Hb. cbn.
  rewrite Ha. cbn. rewrite (cast_bound_err fo bound p v) by assumption. reflexivity.
Qed.

(** which values the binding gives to which parameter *)
Lemma kw_get_del_other k k' d : k <> k' -> kw_get k (kw_del k' d) = kw_get k d.
Proof.
  intros N. unfold kw_del. induction d as [|[a b] r IH]; cbn; [reflexivity|].
  destruct (str_eqb_spec k' a) as [->|N2]; cbn.
  - destruct (str_eqb_spec k a); [congruence|exact IH].
  - destruct (str_eqb k a); [reflexivity|exact IH].
Qed.
Lemma bind_params_kw_bound ps : forall kws bound rest p v,
  bind_params ps [] kws = Ok (bound, rest) -> NoDup (map pname ps) -> In p ps ->
  kw_get (pname p) kws = Some v -> In (p, Some v) bound.
Proof.
  induction ps as [|p0 r IH]; intros kws bound rest p v Hb ND HI Hk; [destruct HI|].
  inversion ND as [|? ? Hn Hr]; subst. cbn [bind_params] in Hb.
  destruct HI as [->|HI].
  - rewrite Hk in Hb. destruct (bind_params r [] (kw_del (pname p) kws)) as [[b' r']|]; cbn in Hb; inversion Hb. now left.
  - assert (N : pname p <> pname p0) by (intros E; apply Hn; rewrite <- E; now apply in_map).
    destruct (kw_get (pname p0) kws) eqn:E0.
    + destruct (bind_params r [] (kw_del (pname p0) kws)) as [[b' r']|] eqn:Eb; cbn in Hb; inversion Hb; subst.
      right. apply (IH _ _ _ p v Eb Hr HI). now rewrite kw_get_del_other.
    + destruct (bind_params r [] kws) as [[b' r']|] eqn:Eb; cbn in Hb; inversion Hb; subst.
      right. now apply (IH _ _ _ p v Eb Hr HI).
Qed.
Lemma bind_params_bound ps : forall args kws bound rest,
  bind_params ps args kws = Ok (bound, rest) -> NoDup (map pname ps) ->
  (forall i p v, nth_error ps i = Some p -> nth_error args i = Some v -> In (p, Some v) bound) /\
  (forall p v, In p (skipn (length args) ps) -> kw_get (pname p) kws = Some v -> In (p, Some v) bound).
Proof.
  induction ps as [|p0 r IH]; intros args kws bound rest Hb ND.
  - split; [intros [|i] p v H; discriminate|]. intros p v HI. destruct args; destruct HI.
  - inversion ND as [|? ? Hn Hr]; subst. destruct args as [|a args'].
    + split; [intros [|i] p v _ H; discriminate|]. intros p v HI Hk. cbn [length skipn] in HI.
      now apply (bind_params_kw_bound (p0 :: r) kws bound rest p v).
    + cbn [bind_params] in Hb. destruct (kw_get (pname p0) kws); [discriminate|].
      destruct (bind_params r args' kws) as [[b' r']|] eqn:Eb; cbn in Hb; inversion Hb; subst.
      destruct (IH _ _ _ _ Eb Hr) as [I1 I2]. split.
      * intros [|i] p v Hp Hv; cbn in Hp, Hv; [inversion Hp; inversion Hv; subst; now left|]. right. now apply (I1 i).
      * intros p v HI Hk. right. now apply I2.
Qed.

(** ** C14: positional form = keyword form *)
Lemma str_in_In x l : str_in x l = true <-> In x l.
Proof.
  unfold str_in. rewrite existsb_exists. split.
  - intros [y [H1 H2]]. apply str_eqb_eq in H2. now subst.
  - intros H. exists x. split; [assumption|apply str_eqb_refl].
Qed.
Lemma nodupb_NoDup l : nodupb l = true -> NoDup l.
Proof.
  induction l as [|x r IH]; cbn; intros H; [constructor|]. apply andb_true_iff in H. destruct H as [A B].
  constructor; [|now apply IH]. intros HI. apply str_in_In in HI. rewrite HI in A. discriminate.
Qed.
Lemma wf_dialect_nodup dl : wf_dialect dl = true -> NoDup (pnames dl).
Proof. unfold wf_dialect. rewrite !andb_true_iff. intros [[[A _] _] _]. now apply nodupb_NoDup. Qed.
Lemma wf_dialect_kwargs dl : wf_dialect dl = true -> accept_kwargs dl = true.
Proof. unfold wf_dialect. rewrite !andb_true_iff. now intros [_ A]. Qed.

Lemma kw_del_notin k d : ~ In k (keys d) -> kw_del k d = d.
Proof.
  unfold kw_del. induction d as [|[a b] r IH]; cbn; intros H; [reflexivity|].
  destruct (str_eqb_spec k a) as [->|N]; [exfalso; apply H; now left|]. cbn. f_equal. apply IH. intros HI; apply H; now right.
Qed.
Lemma keys_combine_in k l (v : list pystr) : In k (keys (combine l v)) -> In k l.
Proof.
  unfold keys. intros H. apply in_map_iff in H. destruct H as [[a b] [<- H]]. now apply in_combine_l in H.
Qed.
Lemma bind_params_pos_kw ps : forall vals kws, NoDup (map pname ps) -> length vals <= length ps ->
  (forall k, In k (keys (combine (map pname ps) vals)) -> ~ In k (keys kws)) ->
  bind_params ps vals kws = bind_params ps [] (combine (map pname ps) vals ++ kws).
Proof.
  induction ps as [|p r IH]; intros vals kws ND Hl Hd.
  - destruct vals; [reflexivity|cbn in Hl; lia].
  - destruct vals as [|a vals']; [reflexivity|]. inversion ND as [|? ? Hn Hr]; subst.
    cbn [map combine app bind_params kw_get]. rewrite str_eqb_refl.
    assert (Hk : kw_get (pname p) kws = None).
    { rewrite kw_get_assoc. apply assoc_notin. apply Hd. cbn. now left. }
    rewrite Hk.
    assert (Hdel : kw_del (pname p) ((pname p, a) :: combine (map pname r) vals' ++ kws) = combine (map pname r) vals' ++ kws).
    { unfold kw_del. cbn [filter fst]. rewrite str_eqb_refl. cbn [negb]. apply kw_del_notin.
      unfold keys. rewrite map_app. intros HI. apply in_app_or in HI. destruct HI as [HI|HI].
      - apply Hn. now apply (keys_combine_in _ _ vals').
      - apply (Hd (pname p)); [cbn; now left|exact HI]. }
    rewrite Hdel. rewrite <- IH; [reflexivity|assumption|cbn in Hl; lia|].
    intros k HI. apply Hd. cbn. now right.
Qed.
Lemma NoDup_app_disjoint {A} (a b : list A) : NoDup (a ++ b) -> forall x, In x a -> ~ In x b.
Proof.
  induction a as [|y r IH]; cbn; intros ND x HI; [destruct HI|]. inversion ND as [|? ? Hn Hr]; subst.
  destruct HI as [->|HI]; [intros Hb; apply Hn; apply in_or_app; now right|now apply IH].
Qed.
Lemma NoDup_app_r {A} (a b : list A) : NoDup (a ++ b) -> NoDup b.
Proof. induction a as [|x r IH]; cbn; intros H; [assumption|]. inversion H; subst. now apply IH. Qed.
Lemma nondeg pos kws : pos ++ map render_kw kws = [[]] -> pos = [[]] /\ kws = [].
Proof.
  destruct pos as [|x [|y r]]; cbn; intros H.
  - destruct kws as [|kv [|kv' r]]; cbn in H; try discriminate. inversion H as [H1].
    unfold render_kw in H1. destruct (fst kv); discriminate.
  - inversion H as [[H1 H2]]. apply map_eq_nil in H2. now subst.
  - discriminate.
Qed.

(** writing the first values positionally or all by keyword gives the same result (same map, same
    error), for every oracle and every dialect with distinct, clean parameter names *)
Theorem bind_pos_kw fo dl vals kws :
  NoDup (pnames dl) -> forallb clean (pnames dl) = true ->
  Forall (fun v => clean v = true) vals -> Forall (fun kv => clean_entry kv = true) kws ->
  length vals <= length (params dl) ->
  NoDup (keys (combine (pnames dl) vals ++ kws)) ->
  vals <> [[]] \/ kws <> [] ->
  parse_dialect fo dl (render vals kws) = parse_dialect fo dl (render [] (combine (pnames dl) vals ++ kws)).
Proof.
  intros NDp Cn Fv Fk Hl ND NE. unfold parse_dialect.
  unfold keys in ND. rewrite map_app in ND.
  assert (Fc : Forall (fun kv => clean_entry kv = true) (combine (pnames dl) vals)).
  { apply Forall_forall. intros [k v] HI. unfold clean_entry. cbn. apply andb_true_iff. split.
    - apply in_combine_l in HI. rewrite forallb_forall in Cn. now apply Cn.
    - apply in_combine_r in HI. rewrite Forall_forall in Fv. now apply Fv. }
  rewrite split_render; [|assumption|assumption|now apply NoDup_app_r in ND|].
  2:{ intros E. apply nondeg in E. destruct E as [-> ->]. destruct NE; congruence. }
  rewrite split_render; [|constructor|apply Forall_app; now split|unfold keys; now rewrite map_app|].
  2:{ intros E. apply nondeg in E. destruct E as [E _]. discriminate. }
  cbn. unfold bind_cast. unfold pnames in *. rewrite (bind_params_pos_kw (params dl) vals kws); [reflexivity|assumption|assumption|].
  intros k HI. now apply (NoDup_app_disjoint _ _ ND).
Qed.

(** ** C14: keyword order is irrelevant *)
Lemma Permutation_filter' {A} (f : A -> bool) l l' : Permutation l l' -> Permutation (filter f l) (filter f l').
Proof.
  induction 1; cbn.
  - constructor.
  - destruct (f x); [now constructor|assumption].
  - destruct (f x), (f y); try reflexivity; try (now constructor).
  - etransitivity; eassumption.
Qed.
Lemma NoDup_keys_filter (f : pystr * pystr -> bool) l : NoDup (keys l) -> NoDup (keys (filter f l)).
Proof.
  unfold keys. induction l as [|x r IH]; cbn; intros ND; [constructor|]. inversion ND as [|? ? Hn Hr]; subst.
  destruct (f x); cbn; [constructor|]; auto.
  intros HI. apply Hn. apply in_map_iff in HI. destruct HI as [y [E HI]]. apply filter_In in HI. rewrite <- E. apply in_map. apply HI.
Qed.
Definition bp_rel (x y : res (list (param * option pystr) * kwdict)) : Prop :=
  match x, y with
  | Ok (b, r), Ok (b', r') => b = b' /\ Permutation r r' /\ NoDup (keys r)
  | Err e, Err e' => e = e'
  | _, _ => False
  end.
Lemma bind_params_perm ps : forall args kws kws', Permutation kws kws' -> NoDup (keys kws) ->
  bp_rel (bind_params ps args kws) (bind_params ps args kws').
Proof.
  induction ps as [|p r IH]; intros args kws kws' P ND.
  - destruct args; cbn; auto.
  - cbn [bind_params]. rewrite !kw_get_assoc. rewrite <- (assoc_perm (pname p) kws kws' P ND).
    destruct args as [|a args'].
    + destruct (assoc (pname p) kws) as [v|].
      * specialize (IH [] (kw_del (pname p) kws) (kw_del (pname p) kws') (Permutation_filter' _ _ _ P) (NoDup_keys_filter _ _ ND)).
        unfold bp_rel in *. destruct (bind_params r [] (kw_del (pname p) kws)) as [[b1 r1]|e1], (bind_params r [] (kw_del (pname p) kws')) as [[b2 r2]|e2]; cbn; try tauto.
        destruct IH as [-> [? ?]]. auto.
      * specialize (IH [] kws kws' P ND).
        unfold bp_rel in *. destruct (bind_params r [] kws) as [[b1 r1]|e1], (bind_params r [] kws') as [[b2 r2]|e2]; cbn; try tauto.
        destruct IH as [-> [? ?]]. auto.
    + destruct (assoc (pname p) kws) as [v|]; [reflexivity|].
      specialize (IH args' kws kws' P ND).
      unfold bp_rel in *. destruct (bind_params r args' kws) as [[b1 r1]|e1], (bind_params r args' kws') as [[b2 r2]|e2]; cbn; try tauto.
      destruct IH as [-> [? ?]]. auto.
Qed.
Lemma aget_aupdate k b : forall a,
  aget k (aupdate a b) = match assoc k (rev b) with Some v => Some v | None => aget k a end.
Proof.
  unfold aupdate. induction b as [|[k' v'] r IH]; intros a; cbn [fold_left rev]; [reflexivity|].
  rewrite IH. rewrite assoc_app. cbn [fst snd]. destruct (assoc k (rev r)); [reflexivity|]. cbn.
  destruct (str_eqb_spec k k') as [->|N]; [apply aget_aset_same|now apply aget_aset_other].
Qed.
Lemma finish_perm dl vals r r' : Permutation r r' -> NoDup (keys r) ->
  attrs_equiv (finish dl vals r) (finish dl vals r').
Proof.
  intros P ND k. unfold finish. rewrite !aget_aupdate.
  destruct (assoc k (rev (reserved_items dl vals))); [reflexivity|].
  assert (E : assoc k (rev (free_items r)) = assoc k (rev (free_items r'))).
  { apply assoc_perm.
    - rewrite <- !Permutation_rev. unfold free_items. now apply Permutation_map.
    - eapply Permutation_NoDup; [apply Permutation_map, Permutation_rev|].
      unfold free_items. rewrite map_map. cbn. exact ND. }
  now rewrite E.
Qed.
Theorem bind_cast_perm fo dl args kws kws' : Permutation kws kws' -> NoDup (keys kws) ->
  res_equiv (bind_cast fo dl args kws) (bind_cast fo dl args kws').
Proof.
  intros P ND. unfold bind_cast. pose proof (bind_params_perm (params dl) args kws kws' P ND) as H.
  unfold bp_rel in H.
  destruct (bind_params (params dl) args kws) as [[b1 r1]|e1], (bind_params (params dl) args kws') as [[b2 r2]|e2]; cbn; try tauto.
  destruct H as [-> [Pr NDr]].
  assert (E : match r1 with [] => false | _ => true end = match r2 with [] => false | _ => true end).
  { destruct r1, r2; try reflexivity; [apply Permutation_nil in Pr|apply Permutation_sym, Permutation_nil in Pr]; discriminate. }
  rewrite E. destruct (negb (accept_kwargs dl) && match r2 with [] => false | _ => true end); cbn; [reflexivity|].
  destruct (cast_bound fo b2); cbn; [|reflexivity]. now apply finish_perm.
Qed.
(** any permutation of the keyword entries (distinct keys) gives the same finite map / the same error *)
Theorem bind_perm fo dl pos kws kws' :
  Forall (fun v => clean v = true) pos -> Forall (fun kv => clean_entry kv = true) kws ->
  NoDup (keys kws) -> Permutation kws kws' -> pos <> [[]] \/ kws <> [] ->
  res_equiv (parse_dialect fo dl (render pos kws)) (parse_dialect fo dl (render pos kws')).
Proof.
  intros Fp Fk ND P NE. unfold parse_dialect.
  rewrite split_render; [|assumption|assumption|assumption|].
  2:{ intros E. apply nondeg in E. destruct E as [-> ->]. destruct NE; congruence. }
  rewrite split_render; [|assumption| | |].
  - cbn. now apply bind_cast_perm.
  - eapply Permutation_Forall; eassumption.
  - eapply Permutation_NoDup; [apply Permutation_map, P|exact ND].
  - intros E. apply nondeg in E. destruct E as [-> ->]. apply Permutation_sym, Permutation_nil in P. destruct NE; congruence.
Qed.

(** ** C14: which value every key gets *)
Theorem parse_render_ents fo dl es :
  Forall (fun v => clean v = true) (pos_of es) -> Forall (fun kv => clean_entry kv = true) (kws_of es) ->
  NoDup (keys (kws_of es)) -> es <> [EPos []] ->
  parse_dialect fo dl (render_ents es) = bind_cast fo dl (pos_of es) (kws_of es).
Proof. intros. unfold parse_dialect. now rewrite split_render_ents. Qed.

Lemma bind_cast_inv fo dl args kws a : bind_cast fo dl args kws = Ok a ->
  exists bound rest vals, bind_params (params dl) args kws = Ok (bound, rest) /\
                          cast_bound fo bound = Ok vals /\ a = finish dl vals rest.
Proof.
  unfold bind_cast. destruct (bind_params (params dl) args kws) as [[bound rest]|]; cbn; [|discriminate].
  destruct (negb (accept_kwargs dl) && match rest with [] => false | _ => true end); cbn; [discriminate|].
  destruct (cast_bound fo bound) as [vals|] eqn:C; cbn; [|discriminate]. intros H; inversion H.
  exists bound, rest, vals. split; [reflexivity|]. split; [exact C|reflexivity].
Qed.
Lemma bind_params_fst ps : forall args kws bound rest, bind_params ps args kws = Ok (bound, rest) -> map fst bound = ps.
Proof.
  induction ps as [|p r IH]; intros args kws bound rest H.
  - destruct args; cbn in H; inversion H; reflexivity.
  - cbn [bind_params] in H. destruct args as [|a args'].
    + destruct (kw_get (pname p) kws).
      * destruct (bind_params r [] (kw_del (pname p) kws)) as [[b' r']|] eqn:E; cbn in H; inversion H; subst. cbn. f_equal. eapply IH; eassumption.
      * destruct (bind_params r [] kws) as [[b' r']|] eqn:E; cbn in H; inversion H; subst. cbn. f_equal. eapply IH; eassumption.
    + destruct (kw_get (pname p) kws); [discriminate|].
      destruct (bind_params r args' kws) as [[b' r']|] eqn:E; cbn in H; inversion H; subst. cbn. f_equal. eapply IH; eassumption.
Qed.
Lemma bind_params_omitted ps : forall args kws bound rest p,
  bind_params ps args kws = Ok (bound, rest) -> NoDup (map pname ps) -> In p (skipn (length args) ps) ->
  kw_get (pname p) kws = None -> In (p, None) bound.
Proof.
  induction ps as [|p0 r IH]; intros args kws bound rest p Hb ND HI Hk.
  - destruct args; destruct HI.
  - inversion ND as [|? ? Hn Hr]; subst. cbn [bind_params] in Hb. destruct args as [|a args'].
    + cbn in HI. destruct HI as [->|HI].
      * rewrite Hk in Hb. destruct (bind_params r [] kws) as [[b' r']|]; cbn in Hb; inversion Hb. now left.
      * assert (N : pname p <> pname p0) by (intros E; apply Hn; rewrite <- E; now apply in_map).
        destruct (kw_get (pname p0) kws).
        -- destruct (bind_params r [] (kw_del (pname p0) kws)) as [[b' r']|] eqn:E; cbn in Hb; inversion Hb; subst.
           right. apply (IH [] _ _ _ p E Hr); [exact HI|]. now rewrite kw_get_del_other.
        -- destruct (bind_params r [] kws) as [[b' r']|] eqn:E; cbn in Hb; inversion Hb; subst.
           right. now apply (IH [] _ _ _ p E Hr).
    + destruct (kw_get (pname p0) kws); [discriminate|].
      destruct (bind_params r args' kws) as [[b' r']|] eqn:E; cbn in Hb; inversion Hb; subst.
      right. now apply (IH args' _ _ _ p E Hr).
Qed.
Lemma str_eqb_sym a b : str_eqb a b = str_eqb b a.
Proof. destruct (str_eqb_spec a b), (str_eqb_spec b a); congruence. Qed.
Lemma assoc_none_key {A} k (l : list (pystr * A)) : assoc k l = None -> forall kv, In kv l -> str_eqb k (fst kv) = false.
Proof.
  induction l as [|[a b] r IH]; cbn; intros H kv HI; [destruct HI|].
  destruct (str_eqb k a) eqn:E; [discriminate|]. destruct HI as [<-|HI]; [exact E|now apply IH].
Qed.
Lemma filter_all {A} (f : A -> bool) l : (forall x, f x = true) -> filter f l = l.
Proof. intros H. induction l as [|x r IH]; cbn; [reflexivity|]. rewrite H. now f_equal. Qed.
Lemma filter_del p r kws :
  filter (fun kv => negb (str_in (fst kv) (map pname r))) (kw_del (pname p) kws) =
  filter (fun kv => negb (str_in (fst kv) (map pname (p :: r)))) kws.
Proof.
  unfold kw_del. induction kws as [|x l IHl]; [reflexivity|]. cbn [filter].
  assert (E : str_in (fst x) (map pname (p :: r)) = str_eqb (fst x) (pname p) || str_in (fst x) (map pname r)) by reflexivity.
  rewrite E, (str_eqb_sym (fst x)). destruct (str_eqb (pname p) (fst x)); cbn [negb orb].
  - exact IHl.
  - cbn [filter]. destruct (str_in (fst x) (map pname r)); cbn [negb]; [exact IHl|f_equal; exact IHl].
Qed.
(** what is left for **kwargs: the keyword pairs whose key is not a parameter name, in order *)
Lemma bind_params_rest ps : forall args kws bound rest, bind_params ps args kws = Ok (bound, rest) ->
  rest = filter (fun kv => negb (str_in (fst kv) (map pname ps))) kws.
Proof.
  induction ps as [|p r IH]; intros args kws bound rest H.
  - destruct args; cbn in H; inversion H; subst. symmetry. apply filter_all. intros x. reflexivity.
  - assert (None_case : forall (b' : unit) r', kw_get (pname p) kws = None ->
              r' = filter (fun kv => negb (str_in (fst kv) (map pname r))) kws ->
              r' = filter (fun kv => negb (str_in (fst kv) (map pname (p :: r)))) kws).
    { intros _ r' Hk ->. apply filter_ext_in. intros kv HI. cbn. rewrite kw_get_assoc in Hk.
      rewrite str_eqb_sym, (assoc_none_key _ _ Hk kv HI). reflexivity. }
    cbn [bind_params] in H. destruct args as [|a args'].
    + destruct (kw_get (pname p) kws) eqn:Hk.
      * destruct (bind_params r [] (kw_del (pname p) kws)) as [[b' r']|] eqn:E; cbn in H; inversion H; subst.
        rewrite (IH _ _ _ _ E). apply filter_del.
      * destruct (bind_params r [] kws) as [[b' r']|] eqn:E; cbn in H; inversion H; subst.
        apply (None_case tt rest eq_refl). eapply IH; eassumption.
    + destruct (kw_get (pname p) kws) eqn:Hk; [discriminate|].
      destruct (bind_params r args' kws) as [[b' r']|] eqn:E; cbn in H; inversion H; subst.
      apply (None_case tt rest eq_refl). eapply IH; eassumption.
Qed.

Definition cast_opt (fo : float_oracle) (p : param) (ov : option pystr) : option pyval :=
  match ov with
  | Some v => match cast fo (ptype p) v with Ok x => Some x | Err _ => None end
  | None => pdefault p
  end.
Lemma cast_bound_spec fo bound : forall vals, cast_bound fo bound = Ok vals ->
  vals = map (fun b => (pname (fst b), cast_opt fo (fst b) (snd b))) bound.
Proof.
  induction bound as [|[p [v|]] r IH]; intros vals H; cbn [cast_bound] in H.
  - inversion H; reflexivity.
  - destruct (cast fo (ptype p) v) as [x|] eqn:C; cbn in H; [|discriminate].
    destruct (cast_bound fo r) as [rest|]; cbn in H; inversion H; subst. cbn. rewrite C. f_equal. now apply IH.
  - destruct (cast_bound fo r) as [rest|]; cbn in H; inversion H; subst. cbn. f_equal. now apply IH.
Qed.
Lemma reserved_keys dl vals a : In a (map fst (reserved_items dl vals)) -> In a (map (long_name dl) (map fst vals)).
Proof.
  unfold reserved_items. induction vals as [|[k [v|]] r IH]; cbn; intros H; [assumption| |].
  - destruct H as [<-|H]; [now left|right; now apply IH].
  - right. now apply IH.
Qed.
Lemma reserved_assoc dl vals k ov : NoDup (map (long_name dl) (map fst vals)) -> In (k, ov) vals ->
  assoc (long_name dl k) (reserved_items dl vals) = ov.
Proof.
  unfold reserved_items. induction vals as [|[k0 o0] r IH]; intros ND HI; [destruct HI|].
  cbn [map fst] in ND. inversion ND as [|? ? Hn Hr]; subst. cbn [flat_map snd fst]. destruct HI as [E|HI].
  - inversion E; subst. destruct ov as [x|]; cbn.
    + unfold long_name. now rewrite str_eqb_refl.
    + apply assoc_notin. intros HI. apply Hn. now apply reserved_keys.
  - assert (N : long_name dl k <> long_name dl k0).
    { intros E. apply Hn. rewrite <- E. apply in_map. change k with (fst (k, ov)). now apply in_map. }
    destruct o0 as [x|]; cbn; [|now apply IH].
    unfold long_name in *. destruct (str_eqb_spec (rename_key (rename dl) k) (rename_key (rename dl) k0)); [contradiction|now apply IH].
Qed.
Lemma reserved_nodup dl vals : NoDup (map (long_name dl) (map fst vals)) -> NoDup (map fst (reserved_items dl vals)).
Proof.
  unfold reserved_items. induction vals as [|[k0 o0] r IH]; cbn; intros ND; [constructor|].
  inversion ND as [|? ? Hn Hr]; subst. destruct o0; cbn; [|now apply IH].
  constructor; [|now apply IH]. intros HI. apply Hn. now apply reserved_keys.
Qed.
Lemma assoc_rev {A} k (l : list (pystr * A)) : NoDup (map fst l) -> assoc k (rev l) = assoc k l.
Proof.
  intros ND. symmetry. apply assoc_perm; [apply Permutation_rev|assumption].
Qed.

(** the core: the attribute under a parameter's long name *)
Theorem bind_value fo dl args kws a p ov bound rest :
  NoDup (long_names dl) -> bind_cast fo dl args kws = Ok a ->
  bind_params (params dl) args kws = Ok (bound, rest) -> In (p, ov) bound ->
  aget (long_name dl (pname p)) a =
    match cast_opt fo p ov with
    | Some x => Some x
    | None => assoc (long_name dl (pname p)) (rev (free_items rest))
    end.
Proof.
  intros NDl Ha Hb HI. destruct (bind_cast_inv _ _ _ _ _ Ha) as [bound' [rest' [vals [Hb' [Hc ->]]]]].
  rewrite Hb in Hb'. inversion Hb'; subst bound' rest'. clear Hb'.
  pose proof (cast_bound_spec _ _ _ Hc) as Hv. pose proof (bind_params_fst _ _ _ _ _ Hb) as Hf.
  assert (Hn : map fst vals = pnames dl).
  { rewrite Hv, map_map. cbn. unfold pnames. rewrite <- Hf. now rewrite map_map. }
  assert (ND : NoDup (map (long_name dl) (map fst vals))) by (rewrite Hn; exact NDl).
  unfold finish. rewrite aget_aupdate, assoc_rev by now apply reserved_nodup.
  rewrite (reserved_assoc dl vals (pname p) (cast_opt fo p ov) ND).
  - destruct (cast_opt fo p ov); [reflexivity|]. rewrite aget_aupdate. cbn. destruct (assoc _ _); reflexivity.
  - rewrite Hv. apply in_map_iff. exists (p, ov). split; [reflexivity|assumption].
Qed.

Lemma long_names_eq dl : long_names dl = map (long_name dl) (pnames dl).
Proof. reflexivity. Qed.
(** reserved keys that are written: numeric keys are floats of the oracle's value, text keys the text *)
Theorem bind_numeric fo dl args kws a p v :
  NoDup (pnames dl) -> NoDup (long_names dl) -> bind_cast fo dl args kws = Ok a ->
  (exists i, nth_error (params dl) i = Some p /\ nth_error args i = Some v) \/
  (In p (skipn (length args) (params dl)) /\ kw_get (pname p) kws = Some v) ->
  match ptype p with
  | TFloat => exists r, fo v = Some r /\ aget (long_name dl (pname p)) a = Some (VFlt r)
  | TStr => aget (long_name dl (pname p)) a = Some (VStr v)
  end.
Proof.
  intros NDp NDl Ha Hw. destruct (bind_cast_inv _ _ _ _ _ Ha) as [bound [rest [vals [Hb [Hc _]]]]].
  destruct (bind_params_bound _ _ _ _ _ Hb NDp) as [B1 B2].
  assert (HI : In (p, Some v) bound).
  { destruct Hw as [[i [H1 H2]]|[H1 H2]]; [now apply (B1 i)|now apply B2]. }
  pose proof (bind_value fo dl args kws a p (Some v) bound rest NDl Ha Hb HI) as Hv. cbn in Hv.
  destruct (ptype p) eqn:T; cbn in Hv.
  - destruct (fo v) as [r|] eqn:F.
    + exists r. split; [reflexivity|exact Hv].
    + rewrite (cast_bound_err fo bound p v HI T F) in Hc. discriminate.
  - exact Hv.
Qed.
(** reserved keys that are omitted take the table's default (absent when the default is None and no
    free key has that long name) *)
Theorem bind_defaults fo dl args kws a p :
  NoDup (pnames dl) -> NoDup (long_names dl) -> bind_cast fo dl args kws = Ok a ->
  In p (skipn (length args) (params dl)) -> kw_get (pname p) kws = None ->
  (pdefault p = None -> ~ In (long_name dl (pname p)) (keys kws)) ->
  aget (long_name dl (pname p)) a = pdefault p.
Proof.
  intros NDp NDl Ha Hs Hk Hfree. destruct (bind_cast_inv _ _ _ _ _ Ha) as [bound [rest [vals [Hb [Hc _]]]]].
  pose proof (bind_params_omitted _ _ _ _ _ p Hb NDp Hs Hk) as HI.
  rewrite (bind_value fo dl args kws a p None bound rest NDl Ha Hb HI). cbn.
  destruct (pdefault p) as [d|] eqn:D; [reflexivity|].
  apply assoc_notin. intros HIn. apply (Hfree eq_refl).
  rewrite map_rev in HIn. apply in_rev in HIn. unfold free_items in HIn. rewrite map_map in HIn. cbn in HIn.
  rewrite (bind_params_rest _ _ _ _ _ Hb) in HIn. apply in_map_iff in HIn. destruct HIn as [kv [E HIn]].
  apply filter_In in HIn. unfold keys. rewrite <- E. apply in_map. apply HIn.
Qed.
(** free keys are kept verbatim as text (side condition: the key is neither a short nor a long
    reserved name) *)
Theorem bind_free fo dl args kws a k v :
  NoDup (long_names dl) -> bind_cast fo dl args kws = Ok a -> NoDup (keys kws) -> In (k, v) kws ->
  ~ In k (pnames dl) -> ~ In k (long_names dl) -> aget k a = Some (VStr v).
Proof.
  intros NDl Ha NDk HI Hp Hl. destruct (bind_cast_inv _ _ _ _ _ Ha) as [bound [rest [vals [Hb [Hc ->]]]]].
  pose proof (cast_bound_spec _ _ _ Hc) as Hv. pose proof (bind_params_fst _ _ _ _ _ Hb) as Hf.
  assert (Hn : map fst vals = pnames dl).
  { rewrite Hv, map_map. cbn. unfold pnames. rewrite <- Hf. now rewrite map_map. }
  unfold finish. rewrite aget_aupdate.
  rewrite assoc_notin.
  2:{ rewrite map_rev. intros HIn. apply in_rev in HIn. apply reserved_keys in HIn. rewrite Hn in HIn. now apply Hl. }
  rewrite aget_aupdate. 
  assert (HR : In (k, v) rest).
  { rewrite (bind_params_rest _ _ _ _ _ Hb). apply filter_In. split; [assumption|]. cbn.
    destruct (str_in k (map pname (params dl))) eqn:E; [|reflexivity]. apply str_in_In in E. contradiction. }
  assert (NDr : NoDup (map fst (free_items rest))).
  { unfold free_items. rewrite map_map. cbn. rewrite (bind_params_rest _ _ _ _ _ Hb). now apply NoDup_keys_filter. }
  rewrite assoc_rev by assumption.
  rewrite (assoc_in k (VStr v)); [reflexivity|assumption|].
  unfold free_items. apply in_map_iff. exists (k, v). split; [reflexivity|assumption].
Qed.

(** the generated tables: documented defaults, for every oracle *)
Theorem defaults_generated fo name :
  bind_cast fo graph_base_dialect [name] [] =
    Ok [(S "fragname", VStr name); (S "charge", VFlt (S "0.0")); (S "weight", VFlt (S "1.0"))] /\
  bind_cast fo fragment_node_dialect [] [] = Ok [(S "weight", VFlt (S "1.0"))].
Proof. split; reflexivity. Qed.
Lemma nodup_generated :
  NoDup (pnames graph_base_dialect) /\ NoDup (long_names graph_base_dialect) /\
  NoDup (pnames fragment_node_dialect) /\ NoDup (long_names fragment_node_dialect).
Proof. repeat split; apply nodupb_NoDup; vm_compute; reflexivity. Qed.

(** ** non-vacuity *)
Definition fo_demo : float_oracle := fo_of_table [(S "+1", Some (S "1.0")); (S "1e-1", Some (S "0.1")); (S "abc", None)].
Example pos_kw_example :
  parse_dialect fo_demo graph_base_dialect (S "A;+1;1e-1;mass=72") =
    Ok [(S "mass", VStr (S "72")); (S "fragname", VStr (S "A")); (S "charge", VFlt (S "1.0")); (S "weight", VFlt (S "0.1"))] /\
  parse_dialect fo_demo graph_base_dialect (S "fragname=A;q=+1;w=1e-1;mass=72") =
    parse_dialect fo_demo graph_base_dialect (S "A;+1;1e-1;mass=72") /\
  render [S "A"; S "+1"; S "1e-1"] [(S "mass", S "72")] = S "A;+1;1e-1;mass=72".
Proof. repeat split; vm_compute; reflexivity. Qed.
Example perm_example :
  res_equiv (parse_dialect fo_demo fragment_node_dialect (S "x=R;k=v;w=+1"))
            (parse_dialect fo_demo fragment_node_dialect (S "w=+1;x=R;k=v")) /\
  parse_dialect fo_demo fragment_node_dialect (S "w=+1;x=R;k=v") =
    Ok [(S "k", VStr (S "v")); (S "weight", VFlt (S "1.0")); (S "chiral", VStr (S "R"))].
Proof. split; [intros k; vm_compute; reflexivity|vm_compute; reflexivity]. Qed.
Example errors_example :
  parse_dialect fo_demo graph_base_dialect (S "A;q=1;a=b=c") = Err (ESyntax (S "toomany_eq")) /\
  parse_dialect fo_demo graph_base_dialect (S "A;+1;+1;+1") = Err (ESyntax (S "bind")) /\
  parse_dialect fo_demo graph_base_dialect (S "A;+1;q=+1") = Err (ESyntax (S "bind")) /\
  parse_dialect fo_demo graph_base_dialect (S "A;foo=bar;q=abc") = Err EType /\
  parse_dialect fo_demo fragment_node_dialect (S "abc") = Err EType.
Proof. repeat split; vm_compute; reflexivity. Qed.

(** ** dictionaries built by aset/aupdate have distinct keys *)
Lemma aset_keys k v a x : In x (map fst (aset k v a)) -> x = k \/ In x (map fst a).
Proof.
  induction a as [|[k' v'] r IH]; cbn; intros H; [destruct H as [<-|[]]; now left|].
  destruct (str_eqb k k'); cbn in H; [right; exact H|]. destruct H as [<-|H]; [right; now left|].
  destruct (IH H); [now left|right; now right].
Qed.
Lemma aset_nodup k v a : NoDup (map fst a) -> NoDup (map fst (aset k v a)).
Proof.
  induction a as [|[k' v'] r IH]; cbn; intros ND; [repeat constructor; intros []|].
  inversion ND as [|? ? Hn Hr]; subst. destruct (str_eqb_spec k k') as [->|N]; cbn; [now constructor|].
  constructor; [|now apply IH]. intros HI. apply aset_keys in HI. destruct HI as [->|HI]; [congruence|contradiction].
Qed.
Lemma aupdate_nodup b : forall a, NoDup (map fst a) -> NoDup (map fst (aupdate a b)).
Proof.
  unfold aupdate. induction b as [|[k v] r IH]; intros a ND; cbn; [assumption|]. apply IH. now apply aset_nodup.
Qed.
Lemma finish_nodup dl vals rest : NoDup (map fst (finish dl vals rest)).
Proof. unfold finish. apply aupdate_nodup, aupdate_nodup. constructor. Qed.
(** every dictionary the dialect parser returns has distinct keys *)
Lemma parse_nodup fo dl s a : parse_dialect fo dl s = Ok a -> NoDup (map fst a).
Proof.
  unfold parse_dialect. destruct (split_annotation s) as [[args kws]|]; cbn; [|discriminate].
  intros H. apply bind_cast_inv in H. destruct H as (bound & rest & vals & _ & _ & ->). apply finish_nodup.
Qed.
(** `d = {}; d.update(a)` is [a] as a finite map *)
Lemma aupdate_nil_equiv a : NoDup (map fst a) -> attrs_equiv (aupdate [] a) a.
Proof. intros ND k. rewrite aget_aupdate. rewrite assoc_rev by assumption. rewrite (aget_assoc k a). cbn. now destruct (assoc k a). Qed.
Lemma aget_aupdate_in old a k v : NoDup (map fst a) -> In (k, v) a -> aget k (aupdate old a) = Some v.
Proof. intros ND HI. rewrite aget_aupdate, assoc_rev by assumption. now rewrite (assoc_in k v a ND HI). Qed.
Lemma aget_aupdate_notin old a k : ~ In k (map fst a) -> aget k (aupdate old a) = aget k old.
Proof.
  intros HI. rewrite aget_aupdate. rewrite assoc_notin; [reflexivity|]. rewrite map_rev. intros H. apply in_rev in H. contradiction.
Qed.

