(** DialectProofs: proofs about the dialect model (DialectImpl) over the generated tables.
    Everything is for EVERY float oracle [fo] and, where possible, for every dialect of the
    generated shape ([wf_dialect]); the generated tables are instances (wf_generated). *)
From Coq Require Import String.
From Coq Require Import List Ascii ZArith Bool Lia Permutation.
From CGV Require Import Base.PyBase Base.PyVal Gen.DialectGen Dialect.DialectImpl Dialect.DialectDefs.
Import ListNotations.

(** the tables regenerated from dialects.py say what the documentation says (names, order,
    defaults, types, long names) and have the shape the generic theorems need *)
Lemma generated_tables_documented :
  dialect_agrees graph_base_dialect doc_coarse = true /\ dialect_agrees fragment_node_dialect doc_atomic = true.
Proof. split; vm_compute; reflexivity. Qed.
Lemma wf_generated : wf_dialect graph_base_dialect = true /\ wf_dialect fragment_node_dialect = true.
Proof. split; vm_compute; reflexivity. Qed.
Lemma names_clean_generated :
  forallb clean (pnames graph_base_dialect) = true /\ forallb clean (pnames fragment_node_dialect) = true.
Proof. split; vm_compute; reflexivity. Qed.

(** ** strings *)
Lemma split_on_nosep c s : forall cur, ~ In c s -> split_on c s cur = [rev cur ++ s].
Proof.
  induction s as [|x s IH]; intros cur H; cbn.
  - now rewrite app_nil_r.
  - destruct (Ascii.eqb_spec x c) as [->|N]; [exfalso; apply H; now left|].
    rewrite IH; [|intros HI; apply H; now right]. cbn. now rewrite <- app_assoc.
Qed.
Lemma split_on_sep c a b : forall cur, ~ In c a ->
  split_on c (a ++ c :: b) cur = (rev cur ++ a) :: split_on c b [].
Proof.
  induction a as [|x a IH]; intros cur H; cbn.
  - rewrite Ascii.eqb_refl. now rewrite app_nil_r.
  - destruct (Ascii.eqb_spec x c) as [->|N]; [exfalso; apply H; now left|].
    rewrite IH; [|intros HI; apply H; now right]. cbn. now rewrite <- app_assoc.
Qed.
Lemma py_split_join c es : es <> [] -> Forall (fun e => ~ In c e) es -> py_split (join [c] es) c = es.
Proof.
  unfold py_split. induction es as [|x r IH]; intros N F; [congruence|].
  inversion F as [|? ? Hx Hr]; subst. destruct r as [|y r'].
  - cbn. now rewrite split_on_nosep.
  - change (join [c] (x :: y :: r')) with (x ++ [c] ++ join [c] (y :: r')).
    cbn [app]. rewrite split_on_sep by assumption. cbn [rev app]. f_equal. apply IH; [discriminate|assumption].
Qed.
Lemma join_nil_inv c es : join [c] es = [] -> es = [] \/ es = [[]].
Proof.
  destruct es as [|x [|y r]]; cbn; intros H; auto.
  - right. now subst.
  - destruct x; cbn in H; discriminate.
Qed.

Lemma clean_spec s : clean s = true -> ~ In ";"%char s /\ ~ In "="%char s.
Proof.
  unfold clean. rewrite andb_true_iff, !negb_true_iff. intros [A B]. split; intros HI.
  - apply char_in_In in HI. congruence.
  - apply char_in_In in HI. congruence.
Qed.
Lemma count_notin c s : ~ In c s -> py_count s c = 0.
Proof.
  unfold py_count. induction s as [|x s IH]; intros H; [reflexivity|]. cbn.
  destruct (Ascii.eqb_spec c x) as [->|N]; [exfalso; apply H; now left|]. apply IH. intros HI; apply H; now right.
Qed.
Lemma count_app c a b : py_count (a ++ b) c = py_count a c + py_count b c.
Proof. unfold py_count. now rewrite filter_app, app_length. Qed.
Lemma count_render_kw kv : clean_entry kv = true -> py_count (render_kw kv) "="%char = 1.
Proof.
  unfold clean_entry, render_kw. rewrite andb_true_iff. intros [A B].
  apply clean_spec in A. apply clean_spec in B. rewrite count_app.
  rewrite (count_notin _ _ (proj2 A)). change ("="%char :: snd kv) with (["="%char] ++ snd kv).
  rewrite count_app, (count_notin _ _ (proj2 B)). reflexivity.
Qed.
Lemma split_render_kw kv : clean_entry kv = true -> py_split (render_kw kv) "="%char = [fst kv; snd kv].
Proof.
  unfold clean_entry, render_kw, py_split. rewrite andb_true_iff. intros [A B].
  apply clean_spec in A. apply clean_spec in B.
  rewrite split_on_sep by apply A. cbn [rev app]. now rewrite split_on_nosep by apply B.
Qed.
Lemma render_kw_nosemi kv : clean_entry kv = true -> ~ In ";"%char (render_kw kv).
Proof.
  unfold clean_entry, render_kw. rewrite andb_true_iff. intros [A B].
  apply clean_spec in A. apply clean_spec in B. intros HI. apply in_app_or in HI. destruct HI as [HI|[HI|HI]].
  - now apply A. - discriminate. - now apply B.
Qed.

(** ** generic association lists *)
Fixpoint assoc {A} (k : pystr) (l : list (pystr * A)) : option A :=
  match l with [] => None | (k', v) :: r => if str_eqb k k' then Some v else assoc k r end.
Lemma kw_get_assoc k d : kw_get k d = assoc k d.
Proof. induction d as [|[k' v] r IH]; cbn; [reflexivity|now rewrite IH]. Qed.
Lemma aget_assoc k d : aget k d = assoc k d.
Proof. induction d as [|[k' v] r IH]; cbn; [reflexivity|now rewrite IH]. Qed.
Lemma assoc_notin {A} k (l : list (pystr * A)) : ~ In k (map fst l) -> assoc k l = None.
Proof.
  induction l as [|[k' v] r IH]; cbn; intros H; [reflexivity|].
  destruct (str_eqb_spec k k') as [->|N]; [exfalso; apply H; now left|]. apply IH. intros HI; apply H; now right.
Qed.
Lemma assoc_in {A} k v (l : list (pystr * A)) : NoDup (map fst l) -> In (k, v) l -> assoc k l = Some v.
Proof.
  induction l as [|[k' v'] r IH]; cbn; intros ND HI; [destruct HI|].
  inversion ND as [|? ? Hn Hr]; subst. destruct HI as [E|HI].
  - inversion E; subst. now rewrite str_eqb_refl.
  - destruct (str_eqb_spec k k') as [->|N]; [|now apply IH].
    exfalso. apply Hn. change k' with (fst (k', v)). now apply in_map.
Qed.
Lemma assoc_some_in {A} k v (l : list (pystr * A)) : assoc k l = Some v -> In (k, v) l.
Proof.
  induction l as [|[k' v'] r IH]; cbn; intros H; [discriminate|].
  destruct (str_eqb_spec k k') as [->|N]; [inversion H; now left|right; now apply IH].
Qed.
Lemma assoc_perm {A} k (l l' : list (pystr * A)) : Permutation l l' -> NoDup (map fst l) -> assoc k l = assoc k l'.
Proof.
  intros P ND. assert (ND' : NoDup (map fst l')) by (eapply Permutation_NoDup; [apply Permutation_map, P|exact ND]).
  destruct (assoc k l) as [v|] eqn:E.
  - symmetry. apply assoc_in; [assumption|]. eapply Permutation_in; [exact P|]. now apply assoc_some_in.
  - destruct (assoc k l') as [v|] eqn:E'; [|reflexivity].
    apply assoc_some_in in E'. apply (Permutation_in _ (Permutation_sym P)) in E'.
    apply (assoc_in _ _ _ ND) in E'. congruence.
Qed.
Lemma assoc_app {A} k (a b : list (pystr * A)) :
  assoc k (a ++ b) = match assoc k a with Some v => Some v | None => assoc k b end.
Proof. induction a as [|[k' v] r IH]; cbn; [reflexivity|]. destruct (str_eqb k k'); [reflexivity|exact IH]. Qed.

(** ** splitting a rendered annotation *)
Lemma kw_set_fresh k v d : ~ In k (keys d) -> kw_set k v d = d ++ [(k, v)].
Proof.
  induction d as [|[k' v'] r IH]; cbn; intros H; [reflexivity|].
  destruct (str_eqb_spec k k') as [->|N]; [exfalso; apply H; now left|]. f_equal. apply IH. intros HI; apply H; now right.
Qed.
Lemma split_entries_pos pos : forall rest args kws, Forall (fun v => clean v = true) pos ->
  split_entries (pos ++ rest) args kws = split_entries rest (args ++ pos) kws.
Proof.
  induction pos as [|x r IH]; intros rest args kws F; cbn [app].
  - now rewrite app_nil_r.
  - inversion F as [|? ? Hx Hr]; subst. apply clean_spec in Hx. destruct Hx as [_ Hx]. cbn [split_entries].
    rewrite (count_notin _ _ Hx). cbn. unfold py_split. rewrite split_on_nosep by assumption. cbn [rev app].
    rewrite IH by assumption. now rewrite <- app_assoc.
Qed.
Lemma split_entries_kws l : forall rest args kws, Forall (fun kv => clean_entry kv = true) l ->
  NoDup (keys kws ++ keys l) ->
  split_entries (map render_kw l ++ rest) args kws = split_entries rest args (kws ++ l).
Proof.
  induction l as [|[k v] r IH]; intros rest args kws F ND; cbn [map app].
  - now rewrite app_nil_r.
  - inversion F as [|? ? Hx Hr]; subst. cbn [split_entries].
    rewrite (count_render_kw _ Hx). change (Nat.ltb 1 1) with false. cbv iota.
    rewrite (split_render_kw _ Hx). cbn [fst snd].
    rewrite kw_set_fresh.
    + rewrite IH; [now rewrite <- app_assoc|assumption|].
      unfold keys in *. rewrite map_app. cbn. rewrite <- app_assoc. exact ND.
    + unfold keys in ND. cbn in ND. apply NoDup_remove_2 in ND. intros HI. apply ND. apply in_or_app. now left.
Qed.

Lemma split_render pos kws :
  Forall (fun v => clean v = true) pos -> Forall (fun kv => clean_entry kv = true) kws -> NoDup (keys kws) ->
  pos ++ map render_kw kws <> [[]] ->
  split_annotation (render pos kws) = Ok (pos, kws).
Proof.
  intros Fp Fk ND NE. unfold split_annotation, render.
  destruct (join sep (pos ++ map render_kw kws)) eqn:J.
  - apply join_nil_inv in J. destruct J as [J|J]; [|contradiction].
    apply app_eq_nil in J. destruct J as [-> J]. apply map_eq_nil in J. now subst.
  - rewrite <- J. unfold sep. rewrite py_split_join.
    + rewrite split_entries_pos by assumption. rewrite <- (app_nil_r (map render_kw kws)).
      rewrite split_entries_kws; [reflexivity|assumption|exact ND].
    + intros E. rewrite E in J. discriminate.
    + apply Forall_app. split.
      * eapply Forall_impl; [|exact Fp]. intros e0 Ha. apply clean_spec in Ha. apply Ha.
      * apply Forall_forall. intros e He. apply in_map_iff in He. destruct He as [kv [<- Hk]].
        apply render_kw_nosemi. rewrite Forall_forall in Fk. now apply Fk.
Qed.

(** general writings: positional and keyword entries interleaved *)
Lemma split_entries_ents es : forall rest args kws,
  Forall (fun v => clean v = true) (pos_of es) -> Forall (fun kv => clean_entry kv = true) (kws_of es) ->
  NoDup (keys kws ++ keys (kws_of es)) ->
  split_entries (map render_ent es ++ rest) args kws = split_entries rest (args ++ pos_of es) (kws ++ kws_of es).
Proof.
  induction es as [|[x|k v] r IH]; intros rest args kws Fp Fk ND; cbn [map app pos_of kws_of flat_map].
  - now rewrite !app_nil_r.
  - cbn [pos_of flat_map app] in Fp. inversion Fp as [|? ? Hx Hr]; subst.
    apply clean_spec in Hx. destruct Hx as [_ Hx]. cbn [split_entries render_ent].
    rewrite (count_notin _ _ Hx). change (Nat.ltb 1 0) with false. cbv iota.
    unfold py_split. rewrite split_on_nosep by assumption. cbn [rev app].
    rewrite IH; [now rewrite <- app_assoc|assumption|assumption|assumption].
  - cbn [kws_of flat_map app] in Fk, ND. inversion Fk as [|? ? Hx Hr]; subst. cbn [split_entries render_ent].
    rewrite (count_render_kw _ Hx). change (Nat.ltb 1 1) with false. cbv iota.
    rewrite (split_render_kw _ Hx). cbn [fst snd]. rewrite kw_set_fresh.
    + rewrite IH; [now rewrite <- app_assoc|assumption|assumption|].
      unfold keys in *. rewrite map_app. cbn. rewrite <- app_assoc. exact ND.
    + unfold keys in ND. cbn in ND. apply NoDup_remove_2 in ND. intros HI. apply ND. apply in_or_app. now left.
Qed.
Lemma render_ent_nosemi e :
  Forall (fun v => clean v = true) (pos_of [e]) -> Forall (fun kv => clean_entry kv = true) (kws_of [e]) ->
  ~ In ";"%char (render_ent e).
Proof.
  destruct e as [x|k v]; cbn; intros A B.
  - inversion A; subst. now apply clean_spec.
  - inversion B; subst. now apply (render_kw_nosemi (k, v)).
Qed.
Lemma pos_of_app a b : pos_of (a ++ b) = pos_of a ++ pos_of b.
Proof. unfold pos_of. now rewrite flat_map_app. Qed.
Lemma kws_of_app a b : kws_of (a ++ b) = kws_of a ++ kws_of b.
Proof. unfold kws_of. now rewrite flat_map_app. Qed.
Lemma split_render_ents es :
  Forall (fun v => clean v = true) (pos_of es) -> Forall (fun kv => clean_entry kv = true) (kws_of es) ->
  NoDup (keys (kws_of es)) -> es <> [EPos []] ->
  split_annotation (render_ents es) = Ok (pos_of es, kws_of es).
Proof.
  intros Fp Fk ND NE. unfold split_annotation, render_ents.
  destruct (join sep (map render_ent es)) eqn:J.
  - apply join_nil_inv in J. destruct J as [J|J].
    + apply map_eq_nil in J. now subst.
    + exfalso. destruct es as [|e [|e' r]]; cbn in J; try discriminate.
      destruct e as [x|k v]; cbn in J; inversion J; [now subst|]. destruct k; discriminate.
  - rewrite <- J. unfold sep. rewrite py_split_join.
    + rewrite <- (app_nil_r (map render_ent es)). rewrite split_entries_ents; [reflexivity|assumption|assumption|exact ND].
    + intros E. rewrite E in J. discriminate.
    + apply Forall_forall. intros t Ht. apply in_map_iff in Ht. destruct Ht as [e [<- He]].
      apply in_split in He. destruct He as [l1 [l2 ->]].
      rewrite pos_of_app, kws_of_app in *. change (e :: l2) with ([e] ++ l2) in *. rewrite pos_of_app, kws_of_app in *.
      apply Forall_app in Fp. destruct Fp as [_ Fp]. apply Forall_app in Fp. destruct Fp as [Fp _].
      apply Forall_app in Fk. destruct Fk as [_ Fk]. apply Forall_app in Fk. destruct Fk as [Fk _].
      now apply render_ent_nosemi.
Qed.

(** ** C20: the error theorems, for every float oracle, every dialect, every position *)
Lemma split_entries_two_eq entries : forall args kws e, In e entries -> 1 < py_count e "="%char ->
  split_entries entries args kws = Err (ESyntax (S "toomany_eq")).
Proof.
  induction entries as [|x r IH]; intros args kws e HI Hc; [destruct HI|]. cbn [split_entries].
  destruct (Nat.ltb 1 (py_count x "="%char)) eqn:E; [reflexivity|].
  destruct HI as [->|HI]; [apply Nat.ltb_lt in Hc; congruence|].
  destruct (py_split x "="%char) as [|a [|b l]]; now apply (IH _ _ e).
Qed.
(** an entry with two '=' anywhere in the annotation: SyntaxError *)
Theorem two_eq_rejected fo dl s e : s <> [] -> In e (py_split s ";"%char) -> 1 < py_count e "="%char ->
  parse_dialect fo dl s = Err (ESyntax (S "toomany_eq")).
Proof.
  intros N HI Hc. unfold parse_dialect, split_annotation. destruct s; [congruence|].
  now rewrite (split_entries_two_eq _ _ _ e).
Qed.
(** ... in particular at every position among arbitrary other entries *)
Theorem two_eq_rejected_at fo dl es1 e es2 :
  Forall (fun x => ~ In ";"%char x) (es1 ++ e :: es2) -> 1 < py_count e "="%char ->
  parse_dialect fo dl (join sep (es1 ++ e :: es2)) = Err (ESyntax (S "toomany_eq")).
Proof.
  intros F Hc. apply (two_eq_rejected fo dl _ e); [| |assumption].
  - intros J. apply join_nil_inv in J. destruct J as [J|J].
    + destruct es1; discriminate.
    + destruct es1 as [|a [|b r]]; cbn in J; inversion J; subst; cbn in Hc; try lia.
  - unfold sep. rewrite py_split_join; [apply in_or_app; right; now left| |assumption]. destruct es1; discriminate.
Qed.

Lemma bind_params_too_many ps : forall args kws, length ps < length args ->
  bind_params ps args kws = Err (ESyntax (S "bind")).
Proof.
  induction ps as [|p r IH]; intros [|a args'] kws H; cbn in H; try lia; cbn [bind_params]; [reflexivity|].
  destruct (kw_get (pname p) kws); [reflexivity|]. rewrite IH by lia. reflexivity.
Qed.
(** more positional values than parameters: SyntaxError *)
Theorem too_many_positional_rejected fo dl s args kws :
  split_annotation s = Ok (args, kws) -> length (params dl) < length args ->
  parse_dialect fo dl s = Err (ESyntax (S "bind")).
Proof.
  intros Hs H. unfold parse_dialect. rewrite Hs. cbn. unfold bind_cast. now rewrite bind_params_too_many.
Qed.
Lemma bind_params_twice ps : forall i args kws p, nth_error ps i = Some p -> i < length args ->
  kw_get (pname p) kws <> None -> bind_params ps args kws = Err (ESyntax (S "bind")).
Proof.
  induction ps as [|p0 r IH]; intros i args kws p Hn Hl Hk; [destruct i; discriminate|].
  destruct args as [|a args']; [cbn in Hl; lia|]. cbn [bind_params]. destruct i as [|j].
  - cbn in Hn. inversion Hn; subst. destruct (kw_get (pname p) kws); [reflexivity|congruence].
  - cbn in Hn, Hl. destruct (kw_get (pname p0) kws); [reflexivity|].
    rewrite (IH j args' kws p); [reflexivity|assumption|lia|assumption].
Qed.
(** a parameter filled positionally and by keyword: SyntaxError *)
Theorem bound_twice_rejected fo dl s args kws i p :
  split_annotation s = Ok (args, kws) -> nth_error (params dl) i = Some p -> i < length args ->
  kw_get (pname p) kws <> None -> parse_dialect fo dl s = Err (ESyntax (S "bind")).
Proof.
  intros Hs Hn Hl Hk. unfold parse_dialect. rewrite Hs. cbn. unfold bind_cast.
  now rewrite (bind_params_twice _ i args kws p).
Qed.

Lemma cast_err fo t v e : cast fo t v = Err e -> e = EType.
Proof. destruct t; cbn; [destruct (fo v)|]; intros H; inversion H; reflexivity. Qed.
Lemma cast_bound_err fo bound p v : In (p, Some v) bound -> ptype p = TFloat -> fo v = None ->
  cast_bound fo bound = Err EType.
Proof.
  induction bound as [|[q [w|]] r IH]; intros HI Ht Hf; [destruct HI| |].
  - cbn [cast_bound]. destruct HI as [E|HI].
    + inversion E; subst. unfold cast. rewrite Ht, Hf. reflexivity.
    + destruct (cast fo (ptype q) w) eqn:C; cbn.
      * rewrite IH by assumption. reflexivity.
      * apply cast_err in C. now subst.
  - cbn [cast_bound]. destruct HI as [E|HI]; [discriminate|]. rewrite IH by assumption. reflexivity.
Qed.
(** a reserved numeric key whose text float() refuses: TypeError (once the binding itself succeeded) *)
Theorem non_numeric_rejected fo dl s args kws bound rest p v :
  split_annotation s = Ok (args, kws) -> bind_params (params dl) args kws = Ok (bound, rest) ->
  accept_kwargs dl = true -> In (p, Some v) bound -> ptype p = TFloat -> fo v = None ->
  parse_dialect fo dl s = Err EType.
Proof.
  intros Hs Hb Ha HI Ht Hf. unfold parse_dialect. rewrite Hs. cbn. unfold bind_cast. rewrite Hb. cbn.
  rewrite Ha. cbn. rewrite (cast_bound_err fo bound p v) by assumption. reflexivity.
Qed.

(** which values the binding gives to which parameter *)
Lemma kw_get_del_other k k' d : k <> k' -> kw_get k (kw_del k' d) = kw_get k d.
Proof.
  intros N. unfold kw_del. induction d as [|[a b] r IH]; cbn; [reflexivity|].
  destruct (str_eqb_spec k' a) as [->|N2]; cbn.
  - destruct (str_eqb_spec k a); [congruence|exact IH].
  - destruct (str_eqb k a); [reflexivity|exact IH].
Qed.
Lemma bind_params_kw_bound ps : forall kws bound rest p v,
  bind_params ps [] kws = Ok (bound, rest) -> NoDup (map pname ps) -> In p ps ->
  kw_get (pname p) kws = Some v -> In (p, Some v) bound.
Proof.
  induction ps as [|p0 r IH]; intros kws bound rest p v Hb ND HI Hk; [destruct HI|].
  inversion ND as [|? ? Hn Hr]; subst. cbn [bind_params] in Hb.
  destruct HI as [->|HI].
  - rewrite Hk in Hb. destruct (bind_params r [] (kw_del (pname p) kws)) as [[b' r']|]; cbn in Hb; inversion Hb. now left.
  - assert (N : pname p <> pname p0) by (intros E; apply Hn; rewrite <- E; now apply in_map).
    destruct (kw_get (pname p0) kws) eqn:E0.
    + destruct (bind_params r [] (kw_del (pname p0) kws)) as [[b' r']|] eqn:Eb; cbn in Hb; inversion Hb; subst.
      right. apply (IH _ _ _ p v Eb Hr HI). now rewrite kw_get_del_other.
    + destruct (bind_params r [] kws) as [[b' r']|] eqn:Eb; cbn in Hb; inversion Hb; subst.
      right. now apply (IH _ _ _ p v Eb Hr HI).
Qed.
Lemma bind_params_bound ps : forall args kws bound rest,
  bind_params ps args kws = Ok (bound, rest) -> NoDup (map pname ps) ->
  (forall i p v, nth_error ps i = Some p -> nth_error args i = Some v -> In (p, Some v) bound) /\
  (forall p v, In p (skipn (length args) ps) -> kw_get (pname p) kws = Some v -> In (p, Some v) bound).
Proof.
  induction ps as [|p0 r IH]; intros args kws bound rest Hb ND.
  - split; [intros [|i] p v H; discriminate|]. intros p v HI. destruct args; destruct HI.
  - inversion ND as [|? ? Hn Hr]; subst. destruct args as [|a args'].
    + split; [intros [|i] p v _ H; discriminate|]. intros p v HI Hk. cbn [length skipn] in HI.
      now apply (bind_params_kw_bound (p0 :: r) kws bound rest p v).
    + cbn [bind_params] in Hb. destruct (kw_get (pname p0) kws); [discriminate|].
      destruct (bind_params r args' kws) as [[b' r']|] eqn:Eb; cbn in Hb; inversion Hb; subst.
      destruct (IH _ _ _ _ Eb Hr) as [I1 I2]. split.
      * intros [|i] p v Hp Hv; cbn in Hp, Hv; [inversion Hp; inversion Hv; subst; now left|]. right. now apply (I1 i).
      * intros p v HI Hk. right. now apply I2.
Qed.
