(** DriverAllAtom: the all-atom branch of read_fragments as the stereo component models it from strings
    (Stereo/EzStrings.v: fragment_split, strip_bonding_descriptors, Frag's SMILES parser and template; compared with the
    implementation on every string case of the C15 check) through the driver: a fragment text strip_bonding_descriptors
    refuses - in particular a refused annotation on a bracket atom - anywhere in the list is what
    from_string(s).resolve_all() raises. *)
From Coq Require Import String.
From Coq Require Import List Ascii ZArith Bool Lia.
From CGV Require Import Base.PyBase Base.PyVal Base.NxGraph Resolve.Bonding Resolve.GraphOps Resolve.Pipeline Dialect.DialectImpl
     Frag.NDict Frag.StripImpl Frag.FragText.
From CGV Require Stereo.EzStrings Reader.ReaderImpl.
From CGV Require Import Dialect.FragAnnot Dialect.DriverFaults.
Import ListNotations.

Lemma marked_template_strip_error fo name text e :
  strip_bonding_descriptors fo text = Err e -> EzStrings.marked_template fo name text = Err e.
Proof. intros H. unfold EzStrings.marked_template. rewrite H. reflexivity. Qed.

Lemma aa_fold_error fo nt post e : forall pre fd,
  Forall (fun y => exists g, EzStrings.marked_template fo (fst y) (snd y) = Ok g) pre ->
  strip_bonding_descriptors fo (snd nt) = Err e ->
  fold_res (fun fd nt => g <- EzStrings.marked_template fo (fst nt) (snd nt) ;; Ok (EzStrings.fd_add (fst nt) g fd)) (pre ++ nt :: post) fd = Err e.
Proof.
  induction pre as [|y r IH]; intros fd F He; cbn [app fold_res].
  - rewrite (marked_template_strip_error fo _ _ e He). reflexivity.
  - inversion F as [|? ? (g & Hg) Fr]; subst. rewrite Hg. cbn [bind]. now apply IH.
Qed.
Theorem aa_fragments_strip_error fo block pre nt post e :
  fragment_split block = pre ++ nt :: post ->
  Forall (fun y => exists g, EzStrings.marked_template fo (fst y) (snd y) = Ok g) pre ->
  strip_bonding_descriptors fo (snd nt) = Err e ->
  EzStrings.read_fragments_model fo block true = Err e.
Proof. intros Hs F He. unfold EzStrings.read_fragments_model, EzStrings.read_fragments_aa. rewrite Hs. now apply aa_fold_error. Qed.

(** END TO END for a two-block all-atom string "{body}.{fbody}": a refused annotation on any bracket atom of any fragment *)
Theorem driver_all_atom_annotation_error fo body fbody legacy trs mol preF name postF toks dc pre b annot post sp e :
  body <> [] -> ~ In "}"%char body -> fbody <> [] -> ~ In "}"%char fbody ->
  ReaderImpl.read_cgsmiles fo ("{"%char :: body ++ ["}"%char]) = Ok mol ->
  fragment_split ("{"%char :: fbody ++ ["}"%char]) = preF ++ (name, FragText.render (decorate toks dc)) :: postF ->
  Forall (fun y => exists g, EzStrings.marked_template fo (fst y) (snd y) = Ok g) preF ->
  FragText.wf toks dc = true -> excluded toks dc = false ->
  decorate toks dc = pre ++ ITok (TBracket b annot) :: post ->
  spec_run fo sinit pre = Ok sp -> fragment_node_parser fo (annot_text annot) = Err e ->
  drive (ReaderImpl.read_cgsmiles fo) (EzStrings.read_fragments_model fo)
        ("{"%char :: body ++ "}"%char :: "."%char :: "{"%char :: fbody ++ ["}"%char]) true legacy trs = Err e.
Proof.
  intros Hne Hno Fne Fno Hm Hs FF W X D Hp He.
  apply (driver_string_fragment_error _ _ body fbody true legacy trs mol e Hne Hno Fne Fno Hm).
  apply (aa_fragments_strip_error fo _ preF (name, FragText.render (decorate toks dc)) postF e Hs FF). cbn [snd].
  exact (strip_annotation_error_propagates fo toks dc pre b annot post sp e W X D Hp He).
Qed.

(** non-vacuity: {[#A][#A]}.{#A=[$]C[C;w=abc][$]} through the real models of both parsers *)
Example driver_all_atom_example :
  let fo := fo_of_table [(S "abc", None); (S "0.5", Some (S "0.5"))] in
  (match drive (ReaderImpl.read_cgsmiles fo) (EzStrings.read_fragments_model fo) (S "{[#A][#A]}.{#A=[$]C[C;w=abc][$]}") true true [] with
   | Err e => Some e | Ok _ => None end) = Some EType /\
  (match drive (ReaderImpl.read_cgsmiles fo) (EzStrings.read_fragments_model fo) (S "{[#A][#A]}.{#A=[$]C[C;a=b=c][$]}") true true [] with
   | Err e => Some e | Ok _ => None end) = Some (ESyntax (S "toomany_eq")) /\
  (match from_string (ReaderImpl.read_cgsmiles fo) (EzStrings.read_fragments_model fo) (S "{[#A][#A]}.{#A=[$]C[C;w=0.5][$]}") true true with
   | Err _ => false | Ok _ => true end) = true.
Proof. vm_compute. repeat split; reflexivity. Qed.
