(** FaultCheck: executable form of property C20 (malformed input is rejected), evaluated on what the
    IMPLEMENTATION did with a faulty string, and the correspondence of the fault models with it.
    Imports only models + definitions. *)
From Coq Require Import String.
From Coq Require Import List Ascii ZArith Bool.
From CGV Require Import Base.PyBase Base.PyVal Gen.DialectGen Dialect.DialectImpl Dialect.DialectDefs
     Dialect.DialectCheck Dialect.FaultModels.
From CGV Require Reader.ReaderImpl Frag.StripImpl Resolve.Pipeline Base.NxGraph Resolve.GraphOps Dialect.DriverModel.
Import ListNotations.

(** [impl]: the exception raised by MoleculeResolver.from_string(s).resolve_all() on the faulty
    string, None = a graph was returned *)
Inductive fcase :=
(** lk: 0 base-graph node, 1 atom of an all-atom fragment, 2 coarse node inside a fragment definition;
    kind: 4 two '=' in an entry, 5 too many positional values, 6 non-numeric charge/weight;
    text: what stands after '#' (lk 0, 2) resp. after the first ';' (lk 1) in the faulty token *)
| FAnnot (lk kind : nat) (tbl : table) (text : pystr) (impl : option err)
(** FAnnot for lk 1, 2 with [ftext], the text of the whole fragment definition the faulty token stands in (what
    strip_bonding_descriptors is called on), judged ALSO by the strip component's character machine *)
| FStrip (lk kind : nat) (tbl : table) (text ftext : pystr) (impl : option err)
(** kind: 1 unclosed ring index, 2 ring bond duplicating an edge; events of the faulty graph text,
    marker m is the injected one; [text] is what read_cgsmiles is called on (the base graph in braces, or
    the cleaned text of a coarse fragment), judged by the reader component's model ReaderImpl.read_cgsmiles *)
| FRing (kind : nat) (evs : list ev) (m : Z) (tbl : table) (text : pystr) (impl : option err)
(** coarse graph at the level at which the fragment is missing: nodes with fragname, edges with
    order, names of the defined fragments, the node that was renamed *)
| FFrag (nodes : list (Z * pystr)) (edges : list (Z * Z * Z)) (dict : list pystr) (bad : Z) (impl : option err)
(** a fault in the BASE block, with the whole faulty string [s]: judged also through the resolver component's driver
    model (Pipeline.from_string: find_blocks, read_cgsmiles on the first block BEFORE any fragment block is read) *)
| FBase (c : fcase) (tbl : table) (s : pystr)
(** an annotation fault inside a fragment definition, with the whole faulty string [s] and last_all_atom: judged also
    through the driver model with read_fragments = split / strip_bonding_descriptors / a dummy template (DriverModel) *)
| FFragDrive (c : fcase) (tbl : table) (s : pystr) (laa : bool).

Definition agree {A} (model : res A) (impl : option err) : bool :=
  match model, impl with
  | Err e, Some e' => err_eqb e e'
  | Ok _, None => true
  | _, _ => false
  end.

Definition annot_model (lk : nat) (fo : float_oracle) (text : pystr) : res attrs :=
  match lk with
  | 0%nat => parse_graph_base_node fo text
  | 1%nat => fragment_node_parser fo text
  | _ => coarse_fragment_node fo text
  end.

Fixpoint impl_of (c : fcase) : option err :=
  match c with
  | FAnnot _ _ _ _ impl | FStrip _ _ _ _ _ impl | FRing _ _ _ _ _ impl | FFrag _ _ _ _ impl => impl
  | FBase c _ _ | FFragDrive c _ _ _ => impl_of c
  end.
(** the fragment blocks are not read by this model: ENoReturn = "the base block was read" *)
Definition base_driver (tbl : table) (s : pystr) : res Resolve.Pipeline.rstate :=
  Resolve.Pipeline.from_string (Reader.ReaderImpl.read_cgsmiles (fo_of_table tbl)) (fun _ _ => Err ENoReturn) s false true.
Definition base_driver_ok (tbl : table) (s : pystr) (impl : option err) : bool :=
  match base_driver tbl s with
  | Err ENoReturn => false          (* the faulty base block was accepted by the reader model *)
  | Err e => agree (@Err unit e) impl
  | Ok _ => false
  end.

(** every block is read (the templates are dummies: one empty graph per fragment name); Ok = no parser refused anything *)
Definition frag_driver (tbl : table) (s : pystr) (laa : bool) : res Resolve.Pipeline.rstate :=
  let fo := fo_of_table tbl in
  Resolve.Pipeline.from_string (Reader.ReaderImpl.read_cgsmiles fo)
    (Dialect.DriverModel.read_fragments_with fo (fun _ _ _ => Ok Base.NxGraph.gempty) (fun name g fd => fd ++ [(name, g)])) s laa true.

Fixpoint corr_ok (c : fcase) : bool :=
  match c with
  | FFragDrive c' tbl s laa => corr_ok c' && agree (frag_driver tbl s laa) (impl_of c')
  | FBase c' tbl s => corr_ok c' && (match impl_of c' with None => true | Some _ => base_driver_ok tbl s (impl_of c') end)
  | FAnnot lk _ tbl text impl => agree (annot_model lk (fo_of_table tbl) text) impl
  | FStrip lk _ tbl text ftext impl =>
      agree (annot_model lk (fo_of_table tbl) text) impl &&
      agree (Frag.StripImpl.strip_bonding_descriptors (fo_of_table tbl) ftext) impl
  | FRing _ evs _ tbl text impl =>
      agree (ring_model evs) impl && agree (Reader.ReaderImpl.read_cgsmiles (fo_of_table tbl) text) impl
  | FFrag nodes edges dict _ impl => agree (resolve_step dict edges nodes (Ok tt)) impl
  end.

(** ---- is the fault really there (specification side, documented dialects) ---- *)
Definition doc_of (lk : nat) : dialect := match lk with 1%nat => doc_atomic | _ => doc_coarse end.
Definition entries_of (text : pystr) : list pystr := match text with [] => [] | _ => py_split text ";"%char end.
Definition two_eq (text : pystr) : bool := existsb (fun e => Nat.ltb 1 (py_count e "="%char)) (entries_of text).
Definition positional (text : pystr) : list pystr := filter (fun e => Nat.eqb (py_count e "="%char) 0) (entries_of text).
Definition keyworded (text : pystr) : list entry :=
  flat_map (fun e => match py_split e "="%char with [k; v] => [(k, v)] | _ => [] end) (entries_of text).
Definition too_many_pos (dl : dialect) (text : pystr) : bool := Nat.ltb (length (params dl)) (length (positional text)).
Definition rejected (fo : float_oracle) (v : pystr) : bool := match fo v with None => true | Some _ => false end.
(** some numeric reserved key is given (by position or by keyword) a text float() refuses *)
Definition non_numeric (fo : float_oracle) (dl : dialect) (text : pystr) : bool :=
  existsb (fun pv => match ptype (fst pv) with TFloat => rejected fo (snd pv) | TStr => false end)
          (combine (params dl) (positional text)) ||
  existsb (fun kv => existsb (fun p => str_eqb (pname p) (fst kv) &&
                                       match ptype p with TFloat => rejected fo (snd kv) | TStr => false end)
                             (params dl)) (keyworded text).
Definition fault_present (lk kind : nat) (fo : float_oracle) (text : pystr) : bool :=
  match kind with
  | 4%nat => two_eq text
  | 5%nat => negb (two_eq text) && too_many_pos (doc_of lk) text
  | 6%nat => negb (two_eq text) && negb (too_many_pos (doc_of lk) text) && non_numeric fo (doc_of lk) text
  | _ => false
  end.

(** the known defect class: a coarse node inside a fragment definition whose non-numeric value is
    bound to the keyword q (read with the atom dialect, where q is a free key) *)
Definition coarse_fragment_charge_class (lk kind : nat) (fo : float_oracle) (text : pystr) : bool :=
  Nat.eqb lk 2 && Nat.eqb kind 6 &&
  existsb (fun kv => str_eqb (fst kv) (S "q") && rejected fo (snd kv)) (keyworded text).

Definition verdict (want_type : bool) (impl : option err) : nat :=
  match impl with
  | None => 1%nat
  | Some (ESyntax _) => if want_type then 3%nat else 0%nat
  | Some EType => if want_type then 0%nat else 2%nat
  | Some _ => if want_type then 3%nat else 2%nat
  end.

Definition ring_nodes (evs : list ev) (m : Z) : list Z :=
  flat_map (fun e => match e with EvRing k m' => if Z.eqb m m' then [k] else [] | _ => [] end) evs.
Definition ring_markers (evs : list ev) : list Z :=
  flat_map (fun e => match e with EvRing _ m' => [m'] | _ => [] end) evs.
(** ring bonds written with marker m: successive occurrences pair up (a marker may be reused) *)
Fixpoint pair_up (l : list Z) : list (Z * Z) :=
  match l with a :: b :: r => (a, b) :: pair_up r | _ => [] end.
(** marker m joins two nodes that are already joined by a chain/branch edge or by another ring bond *)
Definition dup_present (evs : list ev) (m : Z) : bool :=
  match ring_nodes evs m with
  | [u; v] =>
      existsb (fun e => match e with
                        | EvNode k (Some p) => (Z.eqb k v && Z.eqb p u) || (Z.eqb k u && Z.eqb p v)
                        | _ => false end) evs ||
      existsb (fun m' => negb (Z.eqb m m') &&
                         existsb (fun ab => (Z.eqb (fst ab) u && Z.eqb (snd ab) v) || (Z.eqb (fst ab) v && Z.eqb (snd ab) u))
                                 (pair_up (ring_nodes evs m'))) (ring_markers evs)
  | _ => false
  end.

Fixpoint prop_fail (c : fcase) : nat :=
  match c with
  | FBase c' _ _ | FFragDrive c' _ _ _ => prop_fail c'
  | FAnnot lk kind tbl text impl | FStrip lk kind tbl text _ impl =>
      let fo := fo_of_table tbl in
      if negb (fault_present lk kind fo text) then 90%nat
      else match verdict (Nat.eqb kind 6) impl with
           | 1%nat => if coarse_fragment_charge_class lk kind fo text then 101%nat else 1%nat
           | n => n
           end
  | FRing kind evs m _ _ impl =>
      if negb (match kind with
               | 1%nat => Nat.eqb (ring_count m evs) 1
               | _ => dup_present evs m end) then 90%nat
      else verdict false impl
  | FFrag nodes edges dict bad impl =>
      if negb (existsb (fun n => Z.eqb (fst n) bad && negb (str_in (snd n) dict) && real_node bad edges) nodes) then 90%nat
      else verdict false impl
  end.
