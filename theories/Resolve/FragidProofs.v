(** FragidProofs: every stage of a resolution step keeps "each fragid value is a list of keys of coarse nodes
    WITH a fragment" (closing the C11 chain: C11_map / C11_virtual_empty / frag_exact for the RETURNED graphs of
    a whole step, end-to-end model PipelineFull.resolve_step_full).
    The invariant is stated entry-wise on the attribute dicts of ALL node records ([Forall]), which makes it
    compositional over the NxGraph operations without any freshness or distinct-key side conditions.
    A fragid of None is tolerated inside the invariant (rebuild_h_atoms copies `anchor.get('fragid', None)`);
    such a value makes the later sort / annotate_fragments raise, so it never reaches a returned graph. *)
From Coq Require Import String.
From Coq Require Import List Ascii ZArith Bool Lia Sorting.Permutation.
From CGV Require Import Base.PyBase Base.PyVal Base.NxGraph Resolve.Bonding Resolve.GraphOps Resolve.Pipeline
     Resolve.PipelineFull Resolve.MapProofs Resolve.VirtualProofs Resolve.CopyProofs.
From CGV Require Hydro.Hydrogens Hydro.Squash Stereo.EzImpl.
Import ListNotations.
Open Scope Z_scope.

(** ---------------------------------------------------------------- the invariant *)
Definition key_in (R : list Z) (x : pyval) : Prop := exists c, x = VInt c /\ In c R.
Definition vgood (R : list Z) (v : pyval) : Prop := exists l, v = VList l /\ Forall (key_in R) l.
Definition vok (R : list Z) (v : pyval) : Prop := v = VNone \/ vgood R v.
Definition egood (R : list Z) (kv : pystr * pyval) : Prop := fst kv = S "fragid" -> vok R (snd kv).
Definition agood (R : list Z) (a : attrs) : Prop := Forall (egood R) a.
Definition fid_inv (R : list Z) (g : graph) : Prop := Forall (fun n => agood R (na n)) g.

Lemma agood_nil R : agood R [].
Proof. constructor. Qed.
Lemma egood_other R k v : k <> S "fragid" -> egood R (k, v).
Proof. intros N E. contradiction. Qed.

Lemma agood_aset R k v a : egood R (k, v) -> agood R a -> agood R (aset k v a).
Proof.
  intros Hkv. unfold agood. induction 1 as [|[k' v'] r Hx Hr IH]; cbn; [constructor; [exact Hkv|constructor]|].
  destruct (str_eqb_spec k k') as [->|N]; constructor; auto.
Qed.
Lemma agood_adel R k a : agood R a -> agood R (adel k a).
Proof. unfold agood. induction 1 as [|[k' v'] r Hx Hr IH]; cbn; [constructor|]. destruct (str_eqb k k'); [exact Hr|constructor; auto]. Qed.
Lemma agood_aupdate R b : agood R b -> forall a, agood R a -> agood R (aupdate a b).
Proof.
  unfold aupdate, agood at 1. induction 1 as [|[k v] r Hx Hr IH]; cbn; intros a Ha; [exact Ha|]. apply IH. now apply agood_aset.
Qed.
Lemma aget_in k a v : aget k a = Some v -> In (k, v) a.
Proof.
  induction a as [|[k' v'] r IH]; cbn; [discriminate|].
  destruct (str_eqb_spec k k') as [->|N]; [intros H; inversion H; now left|intros H; right; auto].
Qed.
Lemma agood_get R a v : agood R a -> aget (S "fragid") a = Some v -> vok R v.
Proof. intros H E. apply aget_in in E. unfold agood in H. rewrite Forall_forall in H. exact (H _ E eq_refl). Qed.

(** ---------------------------------------------------------------- graph operations *)
Lemma inv_gupdate R k f g : (forall n, agood R (na n) -> agood R (na (f n))) -> fid_inv R g -> fid_inv R (gupdate k f g).
Proof.
  intros Hf. induction 1 as [|n r Hn Hr IH]; cbn; [constructor|].
  destruct (Z.eqb (nk n) k); constructor; auto.
Qed.
Lemma inv_app R g h : fid_inv R g -> fid_inv R h -> fid_inv R (g ++ h).
Proof. intros A B. apply Forall_app. auto. Qed.
Lemma inv_add_node R g k a : agood R a -> fid_inv R g -> fid_inv R (add_node g k a).
Proof.
  intros Ha Hg. unfold add_node. destruct (has_node g k).
  - apply inv_gupdate; [|exact Hg]. intros n Hn. cbn. now apply agood_aupdate.
  - apply inv_app; [exact Hg|]. repeat constructor. exact Ha.
Qed.
Lemma inv_set_node_attr R g k x v : egood R (x, v) -> fid_inv R g -> fid_inv R (set_node_attr g k x v).
Proof. intros He. apply inv_gupdate. intros n Hn. cbn. now apply agood_aset. Qed.
Lemma inv_del_node_attr R g k x : fid_inv R g -> fid_inv R (del_node_attr g k x).
Proof. apply inv_gupdate. intros n Hn. cbn. now apply agood_adel. Qed.
Lemma inv_set_all_nodes R g x v : egood R (x, v) -> fid_inv R g -> fid_inv R (set_all_nodes g x v).
Proof.
  intros He Hg. unfold set_all_nodes, fid_inv. rewrite Forall_map. eapply Forall_impl; [|exact Hg].
  intros n Hn. cbn. now apply agood_aset.
Qed.
Lemma inv_set_nodes_from R x d : (forall kv, In kv d -> egood R (x, snd kv)) -> forall g, fid_inv R g -> fid_inv R (set_nodes_from g x d).
Proof.
  unfold set_nodes_from. induction d as [|kv r IH]; cbn; intros H g Hg; [exact Hg|].
  apply IH; [intros kv' Hk; apply H; now right|]. apply inv_set_node_attr; [apply H; now left|exact Hg].
Qed.
Lemma inv_add_edge R g u v d : fid_inv R g -> fid_inv R (add_edge g u v d).
Proof.
  intros Hg. unfold add_edge.
  set (g1 := if has_node g u then g else g ++ [{| nk := u; na := []; nadj := [] |}]).
  assert (fid_inv R g1) as H1 by (unfold g1; destruct (has_node g u); [exact Hg|apply inv_app; [exact Hg|repeat constructor]]).
  set (g2 := if has_node g1 v then g1 else g1 ++ [{| nk := v; na := []; nadj := [] |}]).
  assert (fid_inv R g2) as H2 by (unfold g2; destruct (has_node g1 v); [exact H1|apply inv_app; [exact H1|repeat constructor]]).
  apply inv_gupdate; [intros n Hn; exact Hn|]. apply inv_gupdate; [intros n Hn; exact Hn|exact H2].
Qed.
Lemma inv_remove_node R g k : fid_inv R g -> fid_inv R (remove_node g k).
Proof.
  intros Hg. unfold remove_node, fid_inv. rewrite Forall_map. unfold fid_inv in Hg. rewrite Forall_forall in *.
  intros n Hn. apply filter_In in Hn as [Hn _]. cbn. auto.
Qed.
Lemma inv_fold_left {A} R (f : graph -> A -> graph) l : (forall g x, fid_inv R g -> fid_inv R (f g x)) ->
  forall g, fid_inv R g -> fid_inv R (fold_left f l g).
Proof. intros Hf. induction l as [|x r IH]; cbn; intros g Hg; [exact Hg|]. apply IH, Hf, Hg. Qed.
Lemma inv_fold_left_in {A} R (f : graph -> A -> graph) l : (forall g x, In x l -> fid_inv R g -> fid_inv R (f g x)) ->
  forall g, fid_inv R g -> fid_inv R (fold_left f l g).
Proof.
  induction l as [|x r IH]; cbn; intros Hf g Hg; [exact Hg|].
  apply IH; [intros g' y Hy; apply Hf; now right|]. apply Hf; [now left|exact Hg].
Qed.
Lemma inv_node_in R g n : fid_inv R g -> In n g -> agood R (na n).
Proof. unfold fid_inv. rewrite Forall_forall. auto. Qed.
Lemma inv_gcopy R g : fid_inv R g -> fid_inv R (gcopy g).
Proof.
  intros Hg. unfold gcopy. apply inv_fold_left_in.
  - intros acc n Hn Ha. apply inv_fold_left; [|exact Ha]. intros a wa Hacc. now apply inv_add_edge.
  - apply inv_fold_left_in; [|constructor]. intros acc n Hn Ha. apply inv_add_node; [|exact Ha]. exact (inv_node_in R g n Hg Hn).
Qed.
Lemma inv_relabel_copy R g m : fid_inv R g -> fid_inv R (relabel_copy g m).
Proof.
  intros Hg. unfold relabel_copy. apply inv_fold_left; [intros a e Ha; now apply inv_add_edge|].
  apply inv_fold_left_in.
  - intros acc n Hn Ha. apply inv_gupdate; [|exact Ha]. intros x _. cbn. exact (inv_node_in R g n Hg Hn).
  - apply inv_fold_left; [|constructor]. intros acc n Ha. apply inv_add_node; [apply agood_nil|exact Ha].
Qed.
Lemma inv_node_attrs R g k a : fid_inv R g -> node_attrs g k = Ok a -> agood R a.
Proof.
  intros Hg. unfold node_attrs. destruct (gfind k g) as [n|] eqn:E; [|discriminate]. intros H. inversion H; subst.
  apply (inv_node_in R g n Hg). clear -E. induction g as [|m r IH]; cbn in E; [discriminate|].
  destruct (Z.eqb (nk m) k); [inversion E; now left|right; auto].
Qed.
Lemma inv_fold_res {A} R (f : graph -> A -> res graph) l : (forall g x g', fid_inv R g -> f g x = Ok g' -> fid_inv R g') ->
  forall g g', fid_inv R g -> GraphOps.fold_res f l g = Ok g' -> fid_inv R g'.
Proof.
  intros Hf. induction l as [|x r IH]; cbn; intros g g' Hg H; [inversion H; now subst|].
  destruct (f g x) as [g1|] eqn:E; cbn in H; [|discriminate]. eapply IH; [|exact H]. eapply Hf; eauto.
Qed.

(** ---------------------------------------------------------------- stages *)
Ltac neq_str := let E := fresh in intros E; apply str_eqb_eq in E; vm_compute in E; discriminate.
Ltac other_key := apply egood_other; neq_str.

(** edges_from_bonding_descrpt *)
Lemma inv_apply_bond R aa g b g' : fid_inv R g -> apply_bond aa g b = Ok g' -> fid_inv R g'.
Proof.
  intros Hg. unfold apply_bond. destruct aa; [|intros H; inversion H; subst; now apply inv_add_edge].
  apply inv_fold_res; [|now apply inv_add_edge]. intros m n m' Hm. unfold of_option, bind.
  destruct (node_get m n (S "element")); [|discriminate]. destruct (pyval_eqb p (VStr (S "H"))); [intros H; inversion H; subst; exact Hm|].
  destruct (node_get m n (S "hcount")); [|discriminate].
  destruct (dec_hcount _ p0); [|discriminate]. intros H. inversion H; subst. apply inv_set_node_attr; [other_key|exact Hm].
Qed.
Theorem inv_bonding R legacy aa meta mol fgs mol' fgs' : fid_inv R mol ->
  bonding_step legacy aa meta mol fgs = Ok (mol', fgs') -> fid_inv R mol'.
Proof.
  intros Hg. unfold bonding_step. destruct (bonds_of legacy meta mol fgs) as [[s1 bonds]|]; cbn; [|discriminate].
  destruct (GraphOps.fold_res (apply_bond aa) bonds mol) as [m|] eqn:E; cbn; [|discriminate]. intros H. inversion H; subst.
  eapply inv_fold_res; [|exact Hg|exact E]. intros g x g'. apply inv_apply_bond.
Qed.

(** sort_nodes_by_attr *)
Theorem inv_sort R g h : fid_inv R g -> sort_nodes_by_attr g = Ok h -> fid_inv R h.
Proof.
  intros Hg. unfold sort_nodes_by_attr. destruct (sort_mapping g) as [m|]; cbn; [|discriminate].
  destruct (GraphOps.map_res _ _) as [nd|]; cbn; [|discriminate]. intros H. inversion H; subst.
  apply inv_set_nodes_from; [intros kv _; other_key|]. now apply inv_relabel_copy.
Qed.

(** set_atom_names_atomistic *)
Theorem inv_set_atom_names R mol meta fgs mol' fgs' : fid_inv R mol -> set_atom_names mol meta fgs = Ok (mol', fgs') -> fid_inv R mol'.
Proof.
  intros Hg. unfold set_atom_names.
  assert (forall l st st', fid_inv R (fst st) -> GraphOps.fold_res name_group l st = Ok st' -> fid_inv R (fst st')) as Hf.
  { induction l as [|grp r IH]; cbn; intros st st' Hs H; [inversion H; now subst|].
    destruct (name_group st grp) as [st1|] eqn:E; cbn in H; [|discriminate]. apply (IH st1 st'); [|exact H].
    clear -Hs E. unfold name_group in E. revert st st1 Hs E.
    generalize (enumerate_from 0 (snd grp)). induction l as [|ix r IH]; cbn; intros st st1 Hs E; [inversion E; now subst|].
    destruct (name_one (fst grp) st ix) as [st2|] eqn:E2; cbn in E; [|discriminate]. apply (IH st2 st1); [|exact E].
    clear -Hs E2. unfold name_one in E2. destruct st as [mol fgs]. destruct ix as [idx node].
    unfold bind, of_option in E2. cbn [fst] in Hs.
    destruct (node_attrs mol node); [|discriminate]. destruct (aget (S "element") a); [|discriminate].
    destruct (as_str p); [|discriminate].
    destruct (fg_get (fst grp) fgs); inversion E2; subst; cbn [fst]; (apply inv_set_node_attr; [other_key|exact Hs]). }
  intros H. exact (Hf _ (mol, fgs) (mol', fgs') Hg H).
Qed.

(** annotate_ez_isomers_cgsmiles (Stereo/EzImpl.v) *)
Theorem inv_ez R g h : fid_inv R g -> EzImpl.annotate_ez_isomers_cgsmiles g = Ok h -> fid_inv R h.
Proof.
  intros Hg. unfold EzImpl.annotate_ez_isomers_cgsmiles, EzImpl.annotate_ez_isomers.
  destruct (EzImpl.all_pairs g _) as [ps|]; cbn; [|discriminate]. destruct (EzImpl.appends_of ps); cbn; [|discriminate].
  intros H. inversion H; subst. apply inv_fold_left; [intros acc kv Hacc; now apply inv_del_node_attr|].
  unfold EzImpl.apply_appends. apply inv_fold_left; [|exact Hg]. intros acc kt Hacc. unfold EzImpl.append_ez.
  apply inv_set_node_attr; [other_key|exact Hacc].
Qed.

(** ---------------------------------------------------------------- rebuild_h_atoms (Hydro/Hydrogens.v) *)
Lemma inv_hfold_res {A} R (f : graph -> A -> res graph) l : (forall g x g', fid_inv R g -> f g x = Ok g' -> fid_inv R g') ->
  forall g g', fid_inv R g -> Hydrogens.fold_res f l g = Ok g' -> fid_inv R g'.
Proof.
  intros Hf. induction l as [|x r IH]; cbn; intros g g' Hg H; [inversion H; now subst|].
  destruct (f g x) as [g1|] eqn:E; cbn in H; [|discriminate]. eapply IH; [|exact H]. eapply Hf; eauto.
Qed.

Lemma inv_fill_step R respect g k g' : fid_inv R g -> Hydrogens.fill_step respect g k = Ok g' -> fid_inv R g'.
Proof.
  intros Hg. unfold Hydrogens.fill_step, bind. destruct (node_attrs g k) as [n|]; [|discriminate].
  destruct (_ || _); [intros H; inversion H; now subst|].
  destruct (Hydrogens.bonds_missing g k); [|discriminate].
  destruct (match aget (S "hcount") n with Some v => as_int v | None => Ok 0 end); [|discriminate].
  intros H. inversion H; subst. apply inv_set_node_attr; [other_key|exact Hg].
Qed.
Lemma inv_keep_bonding_step R g kv g' : fid_inv R g -> Hydrogens.keep_bonding_step g kv = Ok g' -> fid_inv R g'.
Proof.
  intros Hg. unfold Hydrogens.keep_bonding_step, bind, of_option. destruct kv as [k ops].
  destruct (as_list ops) as [ol|]; [|discriminate]. destruct (Hydrogens.fold_res _ ol 0); [|discriminate].
  destruct (node_attrs g k) as [nn|]; [|discriminate]. destruct (aget (S "hcount") nn) as [hv|]; [|discriminate]. destruct (as_int hv); [|discriminate].
  intros H. inversion H; subst. apply inv_set_node_attr; [other_key|exact Hg].
Qed.
Lemma agood_h_defaults R : agood R HydroGen.h_atom_defaults.
Proof. unfold agood. apply Forall_forall. intros [k v] Hin E. cbn in E. subst k. vm_compute in Hin. repeat (destruct Hin as [Hin|Hin]; [discriminate|]). contradiction. Qed.
Lemma inv_attach_h R g k idxs : fid_inv R g -> fid_inv R (Hydrogens.attach_h g k idxs).
Proof.
  intros Hg. unfold Hydrogens.attach_h. apply inv_fold_left; [intros acc j Ha; now apply inv_add_edge|].
  apply inv_fold_left; [|exact Hg]. intros acc j Ha. apply inv_add_node; [apply agood_h_defaults|exact Ha].
Qed.
Lemma inv_add_h_step R g k g' : fid_inv R g -> Hydrogens.add_h_step g k = Ok g' -> fid_inv R g'.
Proof.
  intros Hg. unfold Hydrogens.add_h_step, bind. destruct (node_attrs g k) as [n|]; [|discriminate].
  destruct (match aget (S "hcount") n with None => Ok 0 | Some (VInt h) => Ok h | Some (VBool b) => Ok (if b then 1 else 0) | Some _ => Err EType end) as [hc|];
    [|discriminate].
  assert (fid_inv R (del_node_attr (Hydrogens.attach_h g k (Hydrogens.fresh_keys g hc)) k (S "hcount"))) as H3
    by (apply inv_del_node_attr, inv_attach_h, Hg).
  destruct (aget (S "rs_isomer") n); [|intros H; inversion H; now subst].
  destruct (as_list p) as [pl|]; [|discriminate]. destruct (Hydrogens.map_res _ pl); [|discriminate].
  intros H. inversion H; subst. apply inv_set_node_attr; [other_key|exact H3].
Qed.
Lemma inv_inherit_attr R k anchor g attr g' : fid_inv R g -> Hydrogens.inherit_attr k anchor g attr = Ok g' -> fid_inv R g'.
Proof.
  intros Hg. unfold Hydrogens.inherit_attr, bind. destruct (node_attrs g k) as [nn|]; [|discriminate].
  destruct (ahas attr nn); [intros H; inversion H; now subst|].
  destruct (node_attrs g anchor) as [an|] eqn:Ea; [|discriminate]. intros H. inversion H; subst.
  apply inv_set_node_attr; [|exact Hg]. intros E. cbn [fst] in E. subst attr. cbn [snd]. unfold Hydrogens.getd.
  destruct (aget (S "fragid") an) as [v|] eqn:Ev; [|now left].
  exact (agood_get R an v (inv_node_attrs R g anchor an Hg Ea) Ev).
Qed.
Lemma inv_inherit_step R ca g k g' : fid_inv R g -> Hydrogens.inherit_step ca g k = Ok g' -> fid_inv R g'.
Proof.
  intros Hg. unfold Hydrogens.inherit_step, bind. destruct (node_attrs g k) as [n|]; [|discriminate].
  destruct (Hydrogens.wants_inherit n); [|intros H; inversion H; now subst].
  destruct (neighbors g k) as [|anchor r]; [discriminate|].
  apply inv_hfold_res; [|exact Hg]. intros m attr m'. apply inv_inherit_attr.
Qed.
Theorem inv_rebuild_after_car R kb ca g1 g' : fid_inv R g1 -> Hydrogens.rebuild_after_car kb ca g1 = Ok g' -> fid_inv R g'.
Proof.
  intros Hg. unfold Hydrogens.rebuild_after_car, bind.
  assert (fid_inv R (set_all_nodes g1 HydroGen.rebuild_reset_attr (VInt HydroGen.rebuild_reset_value))) as H2
    by (apply inv_set_all_nodes; [other_key|exact Hg]).
  destruct (Hydrogens.fill_valence _ _) as [g3|] eqn:E3; [|discriminate].
  assert (fid_inv R g3) as H3 by (unfold Hydrogens.fill_valence in E3; eapply inv_hfold_res; [|exact H2|exact E3]; intros m k m'; apply inv_fill_step).
  destruct (if kb then _ else _) as [g4|] eqn:E4; [|discriminate].
  assert (fid_inv R g4) as H4.
  { destruct kb; [|inversion E4; now subst]. eapply inv_hfold_res; [|exact H3|exact E4]. intros m kv m'. apply inv_keep_bonding_step. }
  destruct (Hydrogens.add_explicit_hydrogens g4) as [g5|] eqn:E5; [|discriminate].
  assert (fid_inv R g5) as H5 by (unfold Hydrogens.add_explicit_hydrogens in E5; eapply inv_hfold_res; [|exact H4|exact E5]; intros m k m'; apply inv_add_h_step).
  intros H. unfold Hydrogens.inherit_all in H. eapply inv_hfold_res; [|exact H5|exact H]. intros m k m'. apply inv_inherit_step.
Qed.

(** ---------------------------------------------------------------- squash_atoms (Hydro/Squash.v) *)
From CGV Require Hydro.SquashProofs.

Lemma vok_list R l : vok R (VList l) -> Forall (key_in R) l.
Proof. intros [E|[l' [E F]]]; [discriminate|]. inversion E; subst. exact F. Qed.

Lemma inv_remap_edge R sl u v acc e : fid_inv R acc -> fid_inv R (Squash.remap_edge sl u v acc e).
Proof.
  intros Ha. unfold Squash.remap_edge. destruct e as [[pw px] d].
  destruct (_ && negb sl); [exact Ha|]. destruct (negb (has_edge acc _ _)); now apply inv_add_edge.
Qed.
Lemma gfind_in_graph k g n : gfind k g = Some n -> In n g.
Proof.
  induction g as [|m r IH]; cbn; [discriminate|]. destruct (Z.eqb (nk m) k); [intros H; inversion H; now left|right; auto].
Qed.

Lemma inv_contracted R sl g u v h : fid_inv R g -> Squash.contracted sl g u v = Ok h ->
  fid_inv R h /\
  exists A0 av, agood R av /\
    node_attrs h u = Ok (aset (S "contraction") (Squash.store_contraction A0 (VInt v) (Squash.attrs_to_pyval av)) A0).
Proof.
  intros Hg. unfold Squash.contracted. destruct (gfind v g) as [nv|] eqn:Ev; [|discriminate].
  set (h1 := fold_left (Squash.remap_edge sl u v) (edges_of g v) (remove_node (gcopy g) v)).
  assert (fid_inv R h1) as H1.
  { unfold h1. apply inv_fold_left; [intros acc e Ha; now apply inv_remap_edge|]. apply inv_remove_node, inv_gcopy, Hg. }
  destruct (gfind u h1) as [nu|] eqn:Eu; [|discriminate]. intros H. inversion H; subst h. split.
  - apply inv_set_node_attr; [other_key|exact H1].
  - exists (na nu), (na nv). split; [exact (inv_node_in R g nv Hg (gfind_in_graph _ _ _ Ev))|].
    apply attrs_set_same. unfold node_attrs. now rewrite Eu.
Qed.

Lemma inv_concat_fragid R g1 keep rm A c av g2 : fid_inv R g1 -> node_attrs g1 keep = Ok A ->
  aget (S "contraction") A = Some (VDict c) -> Squash.dict_get (VInt rm) c = Some (Squash.attrs_to_pyval av) -> agood R av ->
  Squash.concat_attr keep rm g1 (S "fragid") = Ok g2 -> fid_inv R g2.
Proof.
  intros Hg HA Hc Hd Hav. unfold Squash.concat_attr, bind, of_option. rewrite HA.
  destruct (aget (S "fragid") A) as [old|] eqn:Eo; [|discriminate]. rewrite Hc, Hd. unfold Squash.attrs_to_pyval.
  rewrite SquashProofs.dict_get_attrs. destruct (aget (S "fragid") av) as [add|] eqn:Ea; [|discriminate].
  destruct old as [| | | | |a| |]; try discriminate. destruct add as [| | | | |b| |]; try discriminate.
  intros H. inversion H; subst. apply inv_set_node_attr; [|exact Hg]. intros _. cbn [snd]. right. exists (a ++ b). split; [reflexivity|].
  apply Forall_app. split; apply vok_list.
  - exact (agood_get R A _ (inv_node_attrs R g1 keep A Hg HA) Eo).
  - exact (agood_get R av _ Hav Ea).
Qed.

Lemma inv_squash_step R st e st' : fid_inv R (fst st) -> Squash.squash_step st e = Ok st' -> fid_inv R (fst st').
Proof.
  intros Hs. unfold Squash.squash_step, bind. destruct st as [g sq]. destruct e as [[a b] bond]. cbn [fst] in Hs.
  destruct (Squash.starts_squash bond) as [is|]; [|discriminate]. destruct (negb is); [intros H; inversion H; now subst|].
  destruct (Squash.sq_root _ sq a) as [keep|]; [|discriminate]. destruct (Squash.sq_root _ sq b) as [rm|]; [|discriminate].
  destruct (Z.eqb keep rm); [intros H; inversion H; now subst|].
  destruct (Squash.contracted _ g keep rm) as [g1|] eqn:Ec; [|discriminate].
  destruct (inv_contracted R _ g keep rm g1 Hs Ec) as [H1 [A0 [av [Hav HA]]]].
  destruct SquashProofs.squash_constants as [_ ->]. cbn [Hydrogens.fold_res]. unfold bind.
  destruct (Squash.concat_attr keep rm g1 (S "fragid")) as [g2|] eqn:E2; [|discriminate].
  destruct (SquashProofs.store_get A0 rm (Squash.attrs_to_pyval av)) as [c [Ec' Hd]].
  assert (fid_inv R g2) as H2.
  { eapply (inv_concat_fragid R g1 keep rm _ c av g2 H1 HA); [|exact Hd|exact Hav|exact E2]. rewrite aget_aset_same. now f_equal. }
  destruct (Squash.concat_attr keep rm g2 (S "mapping")) as [g3|] eqn:E3; [|discriminate].
  destruct (SquashProofs.concat_attr_shape _ _ _ _ _ E3) as [val ->].
  intros H. inversion H; subst. cbn [fst]. apply inv_set_node_attr; [other_key|exact H2].
Qed.
Theorem inv_squash R g g' : fid_inv R g -> Squash.squash_atoms g = Ok g' -> fid_inv R g'.
Proof.
  intros Hg. unfold Squash.squash_atoms, bind.
  destruct (Hydrogens.fold_res Squash.squash_step _ (g, [])) as [st|] eqn:E; [|discriminate]. intros H. inversion H; subst.
  revert E. generalize (Squash.edge_attr_items g HydroGen.squash_edge_attr). intros l.
  assert (fid_inv R (fst (g, @nil (Z * Z)))) as H0 by exact Hg. revert H0. generalize (g, @nil (Z * Z)).
  induction l as [|e r IH]; cbn; intros s0 H0 E; [inversion E; now subst|].
  destruct (Squash.squash_step s0 e) as [s1|] eqn:E1; cbn in E; [|discriminate].
  apply (IH s1); [|exact E]. eapply inv_squash_step; eauto.
Qed.
