(** FragidProofs: every stage of a resolution step keeps "each fragid value is a list of keys of coarse nodes
    WITH a fragment" (closing the C11 chain: C11_map / C11_virtual_empty / frag_exact for the RETURNED graphs of
    a whole step, end-to-end model PipelineFull.resolve_step_full).
    The invariant is stated entry-wise on the attribute dicts of ALL node records ([Forall]), which makes it
    compositional over the NxGraph operations without any freshness or distinct-key side conditions.
    A fragid of None is tolerated inside the invariant (rebuild_h_atoms copies `anchor.get('fragid', None)`);
    such a value makes the later sort / annotate_fragments raise, so it never reaches a returned graph. *)
From Coq Require Import String.
From Coq Require Import List Ascii ZArith Bool Lia Sorting.Permutation.
From CGV Require Import Base.PyBase Base.PyVal Base.NxGraph Resolve.Bonding Resolve.GraphOps Resolve.Pipeline
     Resolve.PipelineFull Resolve.MapProofs Resolve.VirtualProofs Resolve.CopyProofs.
From CGV Require Hydro.Hydrogens Hydro.Squash Stereo.EzImpl.
Import ListNotations.
Open Scope Z_scope.

(** ---------------------------------------------------------------- the invariant *)
Definition key_in (R : list Z) (x : pyval) : Prop := exists c, x = VInt c /\ In c R.
Definition vgood (R : list Z) (v : pyval) : Prop := exists l, v = VList l /\ Forall (key_in R) l.
Definition vok (R : list Z) (v : pyval) : Prop := v = VNone \/ vgood R v.
Definition egood (R : list Z) (kv : pystr * pyval) : Prop := fst kv = S "fragid" -> vok R (snd kv).
Definition agood (R : list Z) (a : attrs) : Prop := Forall (egood R) a.
Definition fid_inv (R : list Z) (g : graph) : Prop := Forall (fun n => agood R (na n)) g.

Lemma agood_nil R : agood R [].
Proof. constructor. Qed.
Lemma egood_other R k v : k <> S "fragid" -> egood R (k, v).
Proof. intros N E. contradiction. Qed.

Lemma agood_aset R k v a : egood R (k, v) -> agood R a -> agood R (aset k v a).
Proof.
  intros Hkv. unfold agood. induction 1 as [|[k' v'] r Hx Hr IH]; cbn; [constructor; [exact Hkv|constructor]|].
  destruct (str_eqb_spec k k') as [->|N]; constructor; auto.
Qed.
Lemma agood_adel R k a : agood R a -> agood R (adel k a).
Proof. unfold agood. induction 1 as [|[k' v'] r Hx Hr IH]; cbn; [constructor|]. destruct (str_eqb k k'); [exact Hr|constructor; auto]. Qed.
Lemma agood_aupdate R b : agood R b -> forall a, agood R a -> agood R (aupdate a b).
Proof.
  unfold aupdate, agood at 1. induction 1 as [|[k v] r Hx Hr IH]; cbn; intros a Ha; [exact Ha|]. apply IH. now apply agood_aset.
Qed.
Lemma aget_in k a v : aget k a = Some v -> In (k, v) a.
Proof.
  induction a as [|[k' v'] r IH]; cbn; [discriminate|].
  destruct (str_eqb_spec k k') as [->|N]; [intros H; inversion H; now left|intros H; right; auto].
Qed.
Lemma agood_get R a v : agood R a -> aget (S "fragid") a = Some v -> vok R v.
Proof. intros H E. apply aget_in in E. unfold agood in H. rewrite Forall_forall in H. exact (H _ E eq_refl). Qed.

(** ---------------------------------------------------------------- graph operations *)
Lemma inv_gupdate R k f g : (forall n, agood R (na n) -> agood R (na (f n))) -> fid_inv R g -> fid_inv R (gupdate k f g).
Proof.
  intros Hf. induction 1 as [|n r Hn Hr IH]; cbn; [constructor|].
  destruct (Z.eqb (nk n) k); constructor; auto.
Qed.
Lemma inv_app R g h : fid_inv R g -> fid_inv R h -> fid_inv R (g ++ h).
Proof. intros A B. apply Forall_app. auto. Qed.
Lemma inv_add_node R g k a : agood R a -> fid_inv R g -> fid_inv R (add_node g k a).
Proof.
  intros Ha Hg. unfold add_node. destruct (has_node g k).
  - apply inv_gupdate; [|exact Hg]. intros n Hn. cbn. now apply agood_aupdate.
  - apply inv_app; [exact Hg|]. repeat constructor. exact Ha.
Qed.
Lemma inv_set_node_attr R g k x v : egood R (x, v) -> fid_inv R g -> fid_inv R (set_node_attr g k x v).
Proof. intros He. apply inv_gupdate. intros n Hn. cbn. now apply agood_aset. Qed.
Lemma inv_del_node_attr R g k x : fid_inv R g -> fid_inv R (del_node_attr g k x).
Proof. apply inv_gupdate. intros n Hn. cbn. now apply agood_adel. Qed.
Lemma inv_set_all_nodes R g x v : egood R (x, v) -> fid_inv R g -> fid_inv R (set_all_nodes g x v).
Proof.
  intros He Hg. unfold set_all_nodes, fid_inv. rewrite Forall_map. eapply Forall_impl; [|exact Hg].
  intros n Hn. cbn. now apply agood_aset.
Qed.
Lemma inv_set_nodes_from R x d : (forall kv, In kv d -> egood R (x, snd kv)) -> forall g, fid_inv R g -> fid_inv R (set_nodes_from g x d).
Proof.
  unfold set_nodes_from. induction d as [|kv r IH]; cbn; intros H g Hg; [exact Hg|].
  apply IH; [intros kv' Hk; apply H; now right|]. apply inv_set_node_attr; [apply H; now left|exact Hg].
Qed.
Lemma inv_add_edge R g u v d : fid_inv R g -> fid_inv R (add_edge g u v d).
Proof.
  intros Hg. unfold add_edge.
  set (g1 := if has_node g u then g else g ++ [{| nk := u; na := []; nadj := [] |}]).
  assert (fid_inv R g1) as H1 by (unfold g1; destruct (has_node g u); [exact Hg|apply inv_app; [exact Hg|repeat constructor]]).
  set (g2 := if has_node g1 v then g1 else g1 ++ [{| nk := v; na := []; nadj := [] |}]).
  assert (fid_inv R g2) as H2 by (unfold g2; destruct (has_node g1 v); [exact H1|apply inv_app; [exact H1|repeat constructor]]).
  apply inv_gupdate; [intros n Hn; exact Hn|]. apply inv_gupdate; [intros n Hn; exact Hn|exact H2].
Qed.
Lemma inv_remove_node R g k : fid_inv R g -> fid_inv R (remove_node g k).
Proof.
  intros Hg. unfold remove_node, fid_inv. rewrite Forall_map. unfold fid_inv in Hg. rewrite Forall_forall in *.
  intros n Hn. apply filter_In in Hn as [Hn _]. cbn. auto.
Qed.
Lemma inv_fold_left {A} R (f : graph -> A -> graph) l : (forall g x, fid_inv R g -> fid_inv R (f g x)) ->
  forall g, fid_inv R g -> fid_inv R (fold_left f l g).
Proof. intros Hf. induction l as [|x r IH]; cbn; intros g Hg; [exact Hg|]. apply IH, Hf, Hg. Qed.
Lemma inv_fold_left_in {A} R (f : graph -> A -> graph) l : (forall g x, In x l -> fid_inv R g -> fid_inv R (f g x)) ->
  forall g, fid_inv R g -> fid_inv R (fold_left f l g).
Proof.
  induction l as [|x r IH]; cbn; intros Hf g Hg; [exact Hg|].
  apply IH; [intros g' y Hy; apply Hf; now right|]. apply Hf; [now left|exact Hg].
Qed.
Lemma inv_node_in R g n : fid_inv R g -> In n g -> agood R (na n).
Proof. unfold fid_inv. rewrite Forall_forall. auto. Qed.
Lemma inv_gcopy R g : fid_inv R g -> fid_inv R (gcopy g).
Proof.
  intros Hg. unfold gcopy. apply inv_fold_left_in.
  - intros acc n Hn Ha. apply inv_fold_left; [|exact Ha]. intros a wa Hacc. now apply inv_add_edge.
  - apply inv_fold_left_in; [|constructor]. intros acc n Hn Ha. apply inv_add_node; [|exact Ha]. exact (inv_node_in R g n Hg Hn).
Qed.
Lemma inv_relabel_copy R g m : fid_inv R g -> fid_inv R (relabel_copy g m).
Proof.
  intros Hg. unfold relabel_copy. apply inv_fold_left; [intros a e Ha; now apply inv_add_edge|].
  apply inv_fold_left_in.
  - intros acc n Hn Ha. apply inv_gupdate; [|exact Ha]. intros x _. cbn. exact (inv_node_in R g n Hg Hn).
  - apply inv_fold_left; [|constructor]. intros acc n Ha. apply inv_add_node; [apply agood_nil|exact Ha].
Qed.
Lemma inv_node_attrs R g k a : fid_inv R g -> node_attrs g k = Ok a -> agood R a.
Proof.
  intros Hg. unfold node_attrs. destruct (gfind k g) as [n|] eqn:E; [|discriminate]. intros H. inversion H; subst.
  apply (inv_node_in R g n Hg). clear -E. induction g as [|m r IH]; cbn in E; [discriminate|].
  destruct (Z.eqb (nk m) k); [inversion E; now left|right; auto].
Qed.
Lemma inv_fold_res {A} R (f : graph -> A -> res graph) l : (forall g x g', fid_inv R g -> f g x = Ok g' -> fid_inv R g') ->
  forall g g', fid_inv R g -> GraphOps.fold_res f l g = Ok g' -> fid_inv R g'.
Proof.
  intros Hf. induction l as [|x r IH]; cbn; intros g g' Hg H; [inversion H; now subst|].
  destruct (f g x) as [g1|] eqn:E; cbn in H; [|discriminate]. eapply IH; [|exact H]. eapply Hf; eauto.
Qed.

Lemma ok_some {A} (x y : A) : @Ok A x = Ok y -> x = y.
Proof. congruence. Qed.

(** ---------------------------------------------------------------- stages *)
Ltac neq_str := let E := fresh in intros E; apply str_eqb_eq in E; vm_compute in E; discriminate.
Ltac other_key := apply egood_other; neq_str.

(** edges_from_bonding_descrpt *)
Lemma inv_apply_bond R aa g b g' : fid_inv R g -> apply_bond aa g b = Ok g' -> fid_inv R g'.
Proof.
  intros Hg. unfold apply_bond. destruct aa; [|intros H; inversion H; subst; now apply inv_add_edge].
  apply inv_fold_res; [|now apply inv_add_edge]. intros m n m' Hm. unfold of_option, bind.
  destruct (node_get m n (S "element")); [|discriminate]. destruct (pyval_eqb p (VStr (S "H"))); [intros H; inversion H; subst; exact Hm|].
  destruct (node_get m n (S "hcount")); [|discriminate].
  destruct (dec_hcount _ p0); [|discriminate]. intros H. inversion H; subst. apply inv_set_node_attr; [other_key|exact Hm].
Qed.
Theorem inv_bonding R legacy aa meta mol fgs mol' fgs' : fid_inv R mol ->
  bonding_step legacy aa meta mol fgs = Ok (mol', fgs') -> fid_inv R mol'.
Proof.
  intros Hg. unfold bonding_step. destruct (bonds_of legacy meta mol fgs) as [[s1 bonds]|]; cbn; [|discriminate].
  destruct (GraphOps.fold_res (apply_bond aa) bonds mol) as [m|] eqn:E; cbn; [|discriminate]. intros H. inversion H; subst.
  eapply inv_fold_res; [|exact Hg|exact E]. intros g x g'. apply inv_apply_bond.
Qed.

(** sort_nodes_by_attr *)
Theorem inv_sort R g h : fid_inv R g -> sort_nodes_by_attr g = Ok h -> fid_inv R h.
Proof.
  intros Hg. unfold sort_nodes_by_attr. destruct (sort_mapping g) as [m|]; cbn; [|discriminate].
  destruct (GraphOps.map_res _ _) as [nd|]; cbn; [|discriminate]. intros H. inversion H; subst.
  apply inv_set_nodes_from; [intros kv _; other_key|]. now apply inv_relabel_copy.
Qed.

(** set_atom_names_atomistic (repaired, /repo 8dbd471) *)
Lemma fold_res_inv {A St} (P : St -> Prop) (f : St -> A -> res St) l :
  (forall st x st', P st -> f st x = Ok st' -> P st') -> forall st st', P st -> GraphOps.fold_res f l st = Ok st' -> P st'.
Proof.
  intros Hf. induction l as [|x r IH]; cbn [GraphOps.fold_res]; intros st st' Hs H; [apply ok_some in H; now subst|].
  destruct (f st x) as [st1|] eqn:E; [|discriminate]. unfold bind in H. eapply IH; [|exact H]. eapply Hf; eauto.
Qed.
(** what one pass of the naming loop body does *)
Lemma name_node_inv mn used mol fgs named shn idx node st' : name_node mn used (mol, fgs, named, shn, idx) node = Ok st' ->
  exists mol1 named1 shn1 idx1 a1 nm,
    ((zin_l node named = true /\ mol1 = mol /\ named1 = named /\ shn1 = shn /\ idx1 = idx) \/
     (zin_l node named = false /\ exists a sh el e, node_attrs mol node = Ok a /\ fragid_shared a = Ok sh /\
        aget (S "element") a = Some el /\ as_str el = Ok e /\
        bump_idx (Datatypes.S (length (if sh then used ++ shn else used))) (if sh then used ++ shn else used) e idx = Ok idx1 /\
        mol1 = set_node_attr mol node (S "atomname") (VStr (atom_label e idx1)) /\ named1 = node :: named /\
        shn1 = (if sh then VStr (atom_label e idx1) :: shn else shn))) /\
    node_attrs mol1 node = Ok a1 /\ aget (S "atomname") a1 = Some nm /\
    st' = (mol1, match fg_get mn fgs with Some g => fg_set mn (set_node_attr g node (S "atomname") nm) fgs | None => fgs end,
           named1, shn1, idx1 + 1).
Proof.
  unfold name_node. destruct (zin_l node named) eqn:Ez.
  - cbn [bind]. destruct (node_attrs mol node) as [a1|] eqn:E1; cbn [bind]; [|discriminate].
    destruct (aget (S "atomname") a1) as [nm|] eqn:E2; cbn [bind of_option]; [|discriminate]. intros H. apply ok_some in H. subst st'.
    exists mol, named, shn, idx, a1, nm. split; [left; repeat split; auto|repeat split; auto].
  - destruct (node_attrs mol node) as [a|] eqn:Ea; cbn [bind]; [|discriminate].
    destruct (fragid_shared a) as [sh|] eqn:Esh; cbn [bind]; [|discriminate].
    destruct (aget (S "element") a) as [el|] eqn:Eel; cbn [bind of_option]; [|discriminate].
    destruct (as_str el) as [e|] eqn:Ee; cbn [bind]; [|discriminate].
    destruct (bump_idx (Datatypes.S (length (if sh then used ++ shn else used))) (if sh then used ++ shn else used) e idx) as [i|] eqn:Eb;
      cbn [bind]; [|discriminate].
    destruct (node_attrs (set_node_attr mol node (S "atomname") (VStr (atom_label e i))) node) as [a1|] eqn:E1; cbn [bind]; [|discriminate].
    destruct (aget (S "atomname") a1) as [nm|] eqn:E2; cbn [bind of_option]; [|discriminate]. intros H. apply ok_some in H. subst st'.
    exists (set_node_attr mol node (S "atomname") (VStr (atom_label e i))), (node :: named),
           (if sh then VStr (atom_label e i) :: shn else shn), i, a1, nm.
    split; [right; split; [reflexivity|]; exists a, sh, el, e; repeat split; auto|]. repeat split; auto.
Qed.
Definition ns_mol (st : nstate) : graph := fst (fst (fst st)).
Definition ns_fgs (st : nstate) : fgraphs := snd (fst (fst st)).
Definition ns_named (st : nstate) : list Z := snd (fst st).
Definition ns_shn (st : nstate) : list pyval := snd st.
Lemma name_node_mol mn used st node st' : name_node mn used st node = Ok st' ->
  ns_mol (fst st') = ns_mol (fst st) \/ exists v, ns_mol (fst st') = set_node_attr (ns_mol (fst st)) node (S "atomname") v.
Proof.
  destruct st as [[[[mol fgs] named] shn] idx]. intros H.
  destruct (name_node_inv _ _ _ _ _ _ _ _ _ H) as (mol1 & named1 & shn1 & idx1 & a1 & nm & [[_ [-> _]]|[_ (a & sh & el & e & _ & _ & _ & _ & _ & -> & _)]] & _ & _ & ->);
    cbn; [now left|right; eexists; reflexivity].
Qed.
Theorem inv_set_atom_names R mol meta fgs mol' fgs' : fid_inv R mol -> set_atom_names mol meta fgs = Ok (mol', fgs') -> fid_inv R mol'.
Proof.
  intros Hg. unfold set_atom_names, bind.
  destruct (GraphOps.fold_res name_group2 (fraglist_of meta fgs) (mol, fgs, [], [])) as [r|] eqn:E; [|discriminate].
  intros H. apply ok_some in H. injection H as H1 H2. subst mol'.
  apply (fold_res_inv (fun st : nstate => fid_inv R (ns_mol st)) name_group2 _) with (st := (mol, fgs, [], [])) (st' := r) in E; [exact E| |exact Hg].
  intros st grp st' Hs Hn. unfold name_group2 in Hn. destruct st as [[[m f] nd] sn].
  destruct (used_names m nd (snd grp)) as [used|]; cbn [bind] in Hn; [|discriminate Hn].
  match type of Hn with bind ?x _ = _ => destruct x as [r2|] eqn:E2 end; cbn [bind] in Hn; [|discriminate Hn].
  apply ok_some in Hn. subst st'.
  apply (fold_res_inv (fun st : nstate * Z => fid_inv R (ns_mol (fst st))) (name_node (fst grp) used) _) with (st := (m, f, nd, sn, 0)) (st' := r2) in E2;
    [exact E2| |exact Hs].
  intros s1 x s2 H1 Hx. destruct (name_node_mol _ _ _ _ _ Hx) as [->|[v ->]]; [exact H1|]. apply inv_set_node_attr; [other_key|exact H1].
Qed.

(** annotate_ez_isomers_cgsmiles (Stereo/EzImpl.v) *)
Theorem inv_ez R g h : fid_inv R g -> EzImpl.annotate_ez_isomers_cgsmiles g = Ok h -> fid_inv R h.
Proof.
  intros Hg. unfold EzImpl.annotate_ez_isomers_cgsmiles, EzImpl.annotate_ez_isomers.
  destruct (EzImpl.all_pairs g _) as [ps|]; cbn; [|discriminate]. destruct (EzImpl.appends_of ps); cbn; [|discriminate].
  intros H. inversion H; subst. apply inv_fold_left; [intros acc kv Hacc; now apply inv_del_node_attr|].
  unfold EzImpl.apply_appends. apply inv_fold_left; [|exact Hg]. intros acc kt Hacc. unfold EzImpl.append_ez.
  apply inv_set_node_attr; [other_key|exact Hacc].
Qed.

(** ---------------------------------------------------------------- rebuild_h_atoms (Hydro/Hydrogens.v) *)
Lemma inv_hfold_res {A} R (f : graph -> A -> res graph) l : (forall g x g', fid_inv R g -> f g x = Ok g' -> fid_inv R g') ->
  forall g g', fid_inv R g -> Hydrogens.fold_res f l g = Ok g' -> fid_inv R g'.
Proof.
  intros Hf. induction l as [|x r IH]; cbn; intros g g' Hg H; [inversion H; now subst|].
  destruct (f g x) as [g1|] eqn:E; cbn in H; [|discriminate]. eapply IH; [|exact H]. eapply Hf; eauto.
Qed.

Lemma inv_fill_step R respect g k g' : fid_inv R g -> Hydrogens.fill_step respect g k = Ok g' -> fid_inv R g'.
Proof.
  intros Hg. unfold Hydrogens.fill_step, bind. destruct (node_attrs g k) as [n|]; [|discriminate].
  destruct (_ || _); [intros H; inversion H; now subst|].
  destruct (Hydrogens.bonds_missing g k); [|discriminate].
  destruct (match aget (S "hcount") n with Some v => as_int v | None => Ok 0 end); [|discriminate].
  intros H. inversion H; subst. apply inv_set_node_attr; [other_key|exact Hg].
Qed.
Lemma inv_keep_bonding_step R g kv g' : fid_inv R g -> Hydrogens.keep_bonding_step g kv = Ok g' -> fid_inv R g'.
Proof.
  intros Hg. unfold Hydrogens.keep_bonding_step, bind, of_option. destruct kv as [k ops].
  destruct (as_list ops) as [ol|]; [|discriminate]. destruct (Hydrogens.fold_res _ ol 0); [|discriminate].
  destruct (node_attrs g k) as [nn|]; [|discriminate]. destruct (aget (S "hcount") nn) as [hv|]; [|discriminate]. destruct (as_int hv); [|discriminate].
  intros H. inversion H; subst. apply inv_set_node_attr; [other_key|exact Hg].
Qed.
Lemma agood_h_defaults R : agood R HydroGen.h_atom_defaults.
Proof. unfold agood. apply Forall_forall. intros [k v] Hin E. cbn in E. subst k. vm_compute in Hin. repeat (destruct Hin as [Hin|Hin]; [discriminate|]). contradiction. Qed.
Lemma inv_attach_h R g k idxs : fid_inv R g -> fid_inv R (Hydrogens.attach_h g k idxs).
Proof.
  intros Hg. unfold Hydrogens.attach_h. apply inv_fold_left; [intros acc j Ha; now apply inv_add_edge|].
  apply inv_fold_left; [|exact Hg]. intros acc j Ha. apply inv_add_node; [apply agood_h_defaults|exact Ha].
Qed.
Lemma inv_add_h_step R g k g' : fid_inv R g -> Hydrogens.add_h_step g k = Ok g' -> fid_inv R g'.
Proof.
  intros Hg. unfold Hydrogens.add_h_step, bind. destruct (node_attrs g k) as [n|]; [|discriminate].
  destruct (match aget (S "hcount") n with None => Ok 0 | Some (VInt h) => Ok h | Some (VBool b) => Ok (if b then 1 else 0) | Some _ => Err EType end) as [hc|];
    [|discriminate].
  assert (fid_inv R (del_node_attr (Hydrogens.attach_h g k (Hydrogens.fresh_keys g hc)) k (S "hcount"))) as H3
    by (apply inv_del_node_attr, inv_attach_h, Hg).
  destruct (aget (S "rs_isomer") n); [|intros H; inversion H; now subst].
  destruct (as_list p) as [pl|]; [|discriminate]. destruct (Hydrogens.map_res _ pl); [|discriminate].
  intros H. inversion H; subst. apply inv_set_node_attr; [other_key|exact H3].
Qed.
Lemma inv_inherit_attr R k anchor g attr g' : fid_inv R g -> Hydrogens.inherit_attr k anchor g attr = Ok g' -> fid_inv R g'.
Proof.
  intros Hg. unfold Hydrogens.inherit_attr, bind. destruct (node_attrs g k) as [nn|]; [|discriminate].
  destruct (ahas attr nn); [intros H; inversion H; now subst|].
  destruct (node_attrs g anchor) as [an|] eqn:Ea; [|discriminate]. intros H. inversion H; subst.
  apply inv_set_node_attr; [|exact Hg]. intros E. cbn [fst] in E. subst attr. cbn [snd]. unfold Hydrogens.getd.
  destruct (aget (S "fragid") an) as [v|] eqn:Ev; [|now left].
  exact (agood_get R an v (inv_node_attrs R g anchor an Hg Ea) Ev).
Qed.
Lemma inv_inherit_step R ca g k g' : fid_inv R g -> Hydrogens.inherit_step ca g k = Ok g' -> fid_inv R g'.
Proof.
  intros Hg. unfold Hydrogens.inherit_step, bind. destruct (node_attrs g k) as [n|]; [|discriminate].
  destruct (Hydrogens.wants_inherit n); [|intros H; inversion H; now subst].
  destruct (neighbors g k) as [|anchor r]; [discriminate|].
  apply inv_hfold_res; [|exact Hg]. intros m attr m'. apply inv_inherit_attr.
Qed.
Theorem inv_rebuild_after_car R kb ca g1 g' : fid_inv R g1 -> Hydrogens.rebuild_after_car kb ca g1 = Ok g' -> fid_inv R g'.
Proof.
  intros Hg. unfold Hydrogens.rebuild_after_car, bind.
  assert (fid_inv R (set_all_nodes g1 HydroGen.rebuild_reset_attr (VInt HydroGen.rebuild_reset_value))) as H2
    by (apply inv_set_all_nodes; [other_key|exact Hg]).
  destruct (Hydrogens.fill_valence _ _) as [g3|] eqn:E3; [|discriminate].
  assert (fid_inv R g3) as H3 by (unfold Hydrogens.fill_valence in E3; eapply inv_hfold_res; [|exact H2|exact E3]; intros m k m'; apply inv_fill_step).
  destruct (if kb then _ else _) as [g4|] eqn:E4; [|discriminate].
  assert (fid_inv R g4) as H4.
  { destruct kb; [|inversion E4; now subst]. eapply inv_hfold_res; [|exact H3|exact E4]. intros m kv m'. apply inv_keep_bonding_step. }
  destruct (Hydrogens.add_explicit_hydrogens g4) as [g5|] eqn:E5; [|discriminate].
  assert (fid_inv R g5) as H5 by (unfold Hydrogens.add_explicit_hydrogens in E5; eapply inv_hfold_res; [|exact H4|exact E5]; intros m k m'; apply inv_add_h_step).
  intros H. unfold Hydrogens.inherit_all in H. eapply inv_hfold_res; [|exact H5|exact H]. intros m k m'. apply inv_inherit_step.
Qed.

(** ---------------------------------------------------------------- squash_atoms (Hydro/Squash.v) *)
From CGV Require Hydro.SquashProofs.

Lemma vok_list R l : vok R (VList l) -> Forall (key_in R) l.
Proof. intros [E|[l' [E F]]]; [discriminate|]. inversion E; subst. exact F. Qed.

Lemma inv_remap_edge R sl u v acc e : fid_inv R acc -> fid_inv R (Squash.remap_edge sl u v acc e).
Proof.
  intros Ha. unfold Squash.remap_edge. destruct e as [[pw px] d].
  destruct (_ && negb sl); [exact Ha|]. destruct (negb (has_edge acc _ _)); now apply inv_add_edge.
Qed.
Lemma gfind_in_graph k g n : gfind k g = Some n -> In n g.
Proof.
  induction g as [|m r IH]; cbn; [discriminate|]. destruct (Z.eqb (nk m) k); [intros H; inversion H; now left|right; auto].
Qed.

Lemma inv_contracted R sl g u v h : fid_inv R g -> Squash.contracted sl g u v = Ok h ->
  fid_inv R h /\
  exists A0 av, agood R av /\
    node_attrs h u = Ok (aset (S "contraction") (Squash.store_contraction A0 (VInt v) (Squash.attrs_to_pyval av)) A0).
Proof.
  intros Hg. unfold Squash.contracted. destruct (gfind v g) as [nv|] eqn:Ev; [|discriminate].
  set (h1 := fold_left (Squash.remap_edge sl u v) (edges_of g v) (remove_node (gcopy g) v)).
  assert (fid_inv R h1) as H1.
  { unfold h1. apply inv_fold_left; [intros acc e Ha; now apply inv_remap_edge|]. apply inv_remove_node, inv_gcopy, Hg. }
  destruct (gfind u h1) as [nu|] eqn:Eu; [|discriminate]. intros H. inversion H; subst h. split.
  - apply inv_set_node_attr; [other_key|exact H1].
  - exists (na nu), (na nv). split; [exact (inv_node_in R g nv Hg (gfind_in_graph _ _ _ Ev))|].
    apply attrs_set_same. unfold node_attrs. now rewrite Eu.
Qed.

Lemma inv_concat_fragid R g1 keep rm A c av g2 : fid_inv R g1 -> node_attrs g1 keep = Ok A ->
  aget (S "contraction") A = Some (VDict c) -> Squash.dict_get (VInt rm) c = Some (Squash.attrs_to_pyval av) -> agood R av ->
  Squash.concat_attr keep rm g1 (S "fragid") = Ok g2 -> fid_inv R g2.
Proof.
  intros Hg HA Hc Hd Hav. unfold Squash.concat_attr, bind, of_option. rewrite HA.
  destruct (aget (S "fragid") A) as [old|] eqn:Eo; [|discriminate]. rewrite Hc, Hd. unfold Squash.attrs_to_pyval.
  rewrite SquashProofs.dict_get_attrs. destruct (aget (S "fragid") av) as [add|] eqn:Ea; [|discriminate].
  destruct old as [| | | | |a| |]; try discriminate. destruct add as [| | | | |b| |]; try discriminate.
  intros H. inversion H; subst. apply inv_set_node_attr; [|exact Hg]. intros _. cbn [snd]. right. exists (a ++ b). split; [reflexivity|].
  apply Forall_app. split; apply vok_list.
  - exact (agood_get R A _ (inv_node_attrs R g1 keep A Hg HA) Eo).
  - exact (agood_get R av _ Hav Ea).
Qed.

Lemma inv_squash_step R st e st' : fid_inv R (fst st) -> Squash.squash_step st e = Ok st' -> fid_inv R (fst st').
Proof.
  intros Hs. unfold Squash.squash_step, bind. destruct st as [g sq]. destruct e as [[a b] bond]. cbn [fst] in Hs.
  destruct (Squash.starts_squash bond) as [is|]; [|discriminate]. destruct (negb is); [intros H; inversion H; now subst|].
  destruct (Squash.sq_root _ sq a) as [keep|]; [|discriminate]. destruct (Squash.sq_root _ sq b) as [rm|]; [|discriminate].
  destruct (Z.eqb keep rm); [intros H; inversion H; now subst|].
  destruct (Squash.contracted _ g keep rm) as [g1|] eqn:Ec; [|discriminate].
  destruct (inv_contracted R _ g keep rm g1 Hs Ec) as [H1 [A0 [av [Hav HA]]]].
  destruct SquashProofs.squash_constants as [_ ->]. cbn [Hydrogens.fold_res]. unfold bind.
  destruct (Squash.concat_attr keep rm g1 (S "fragid")) as [g2|] eqn:E2; [|discriminate].
  destruct (SquashProofs.store_get A0 rm (Squash.attrs_to_pyval av)) as [c [Ec' Hd]].
  assert (fid_inv R g2) as H2.
  { eapply (inv_concat_fragid R g1 keep rm _ c av g2 H1 HA); [|exact Hd|exact Hav|exact E2]. rewrite aget_aset_same. now f_equal. }
  destruct (Squash.concat_attr keep rm g2 (S "mapping")) as [g3|] eqn:E3; [|discriminate].
  destruct (SquashProofs.concat_attr_shape _ _ _ _ _ E3) as [val ->].
  destruct (Squash.hcount_min keep rm _) as [g4|] eqn:E4; [|discriminate]. intros H. inversion H; subst. cbn [fst].
  assert (fid_inv R (set_node_attr g2 keep (S "mapping") val)) as H3' by (apply inv_set_node_attr; [other_key|exact H2]).
  destruct (SquashProofs.hcount_min_shape _ _ _ _ E4) as [->|[v ->]]; [exact H3'|apply inv_set_node_attr; [other_key|exact H3']].
Qed.
Theorem inv_squash R g g' : fid_inv R g -> Squash.squash_atoms g = Ok g' -> fid_inv R g'.
Proof.
  intros Hg. unfold Squash.squash_atoms, bind.
  destruct (Hydrogens.fold_res Squash.squash_step _ (g, [])) as [st|] eqn:E; [|discriminate]. intros H. inversion H; subst.
  revert E. generalize (Squash.edge_attr_items g HydroGen.squash_edge_attr). intros l.
  assert (fid_inv R (fst (g, @nil (Z * Z)))) as H0 by exact Hg. revert H0. generalize (g, @nil (Z * Z)).
  induction l as [|e r IH]; cbn; intros s0 H0 E; [inversion E; now subst|].
  destruct (Squash.squash_step s0 e) as [s1|] eqn:E1; cbn in E; [|discriminate].
  apply (IH s1); [|exact E]. eapply inv_squash_step; eauto.
Qed.

(** ---------------------------------------------------------------- the aromaticity transcript keeps the invariant *)
Lemma agood_adel_inv R k a : k <> S "fragid" -> agood R (adel k a) -> agood R a.
Proof.
  intros N. unfold agood. induction a as [|[k' v'] r IH]; cbn; [auto|].
  destruct (str_eqb_spec k k') as [->|N']; intros H.
  - constructor; [now apply egood_other|exact H].
  - inversion H; subst. constructor; auto.
Qed.
Lemma agood_ainsert R kv a : agood R (ainsert kv a) <-> egood R kv /\ agood R a.
Proof.
  unfold agood. induction a as [|x r IH]; cbn.
  - split; [intros H; inversion H; auto|intros [A B]; constructor; auto].
  - destruct (str_ltb (fst kv) (fst x)).
    + split; [intros H; inversion H; auto|intros [A B]; constructor; auto].
    + split.
      * intros H. inversion H; subst. apply IH in H3 as [A B]. split; [exact A|constructor; auto].
      * intros [A B]. inversion B; subst. constructor; [auto|]. apply IH. auto.
Qed.
Lemma agood_asort R a : agood R (asort a) <-> agood R a.
Proof.
  unfold asort. induction a as [|x r IH]; cbn; [tauto|]. rewrite agood_ainsert, IH. unfold agood.
  split; [intros [A B]; constructor; auto|intros H; inversion H; auto].
Qed.
Lemma keyin_eqb R : forall l l', pyval_eqb (VList l) (VList l') = true -> Forall (key_in R) l -> Forall (key_in R) l'.
Proof.
  induction l as [|x r IH]; destruct l' as [|y r']; cbn; try discriminate; [constructor|].
  intros H F. apply andb_true_iff in H as [H1 H2]. inversion F as [|? ? [c [-> Hc]] Fr]; subst.
  constructor.
  - destruct y; cbn in H1; try discriminate. apply Z.eqb_eq in H1. subst. exists z. auto.
  - apply IH; [exact H2|exact Fr].
Qed.
Lemma vok_eqb R v v' : vok R v -> pyval_eqb v v' = true -> vok R v'.
Proof.
  intros [->|[l [-> F]]] H.
  - destruct v'; try discriminate. now left.
  - destruct v'; try discriminate. right. exists l0. split; [reflexivity|]. eapply keyin_eqb; eauto.
Qed.
Lemma agood_eqb_ordered R : forall a b, attrs_eqb_ordered a b = true -> agood R a -> agood R b.
Proof.
  unfold agood. induction a as [|[k v] r IH]; destruct b as [|[k' v'] r']; cbn; try discriminate; [auto|].
  intros H F. apply andb_true_iff in H as [H H3]. apply andb_true_iff in H as [H1 H2]. inversion F; subst.
  apply str_eqb_eq in H1. subst k'. constructor; [|now apply IH].
  intros E. cbn in *. eapply vok_eqb; [apply H4; exact E|exact H2].
Qed.
Lemma agood_eqb R a b : attrs_eqb a b = true -> agood R a -> agood R b.
Proof. unfold attrs_eqb. intros H Ha. apply agood_asort. eapply agood_eqb_ordered; [exact H|]. now apply agood_asort. Qed.

(** Hydrogens.transcript_contract (same nodes, attributes equal except 'aromatic') carries the invariant over
    the recorded result of pysmiles' correct_aromatic_rings *)
Theorem inv_transcript R before after : Hydrogens.transcript_contract before after = true -> fid_inv R before -> fid_inv R after.
Proof.
  unfold Hydrogens.transcript_contract. intros H Hb. apply andb_true_iff in H as [H _]. apply andb_true_iff in H as [Hl H].
  apply Nat.eqb_eq in Hl. revert after Hl H. unfold fid_inv in *.
  induction Hb as [|n r Hn Hr IH]; destruct after as [|m r']; cbn; try discriminate; [constructor|].
  intros Hl H. apply andb_true_iff in H as [H1 H2]. constructor; [|apply IH; [lia|exact H2]].
  unfold Hydrogens.nrec_same_but in H1. repeat (apply andb_true_iff in H1 as [H1 ?]).
  apply (agood_adel_inv R (S "aromatic")); [neq_str|]. eapply agood_eqb; [eassumption|]. now apply agood_adel.
Qed.

(** ---------------------------------------------------------------- the disconnected molecule *)
(** attribute dicts have unique keys (they model Python dicts) *)
Definition wf_attrs (fd : fragdict) : Prop := forall name g, fd_get name fd = Some g -> forall n, In n g -> NoDup (map fst (na n)).

Lemma aset_keys k v a : map fst (aset k v a) = if ahas k a then map fst a else map fst a ++ [k].
Proof.
  unfold ahas. induction a as [|[k' v'] r IH]; cbn; [reflexivity|].
  destruct (str_eqb k k'); cbn; [reflexivity|]. rewrite IH. destruct (aget k r); reflexivity.
Qed.
Lemma aget_none_keys k a : aget k a = None -> ~ In k (map fst a).
Proof.
  induction a as [|[k' v'] r IH]; cbn; [tauto|]. destruct (str_eqb_spec k k') as [->|N]; [discriminate|].
  intros H [E|E]; [congruence|]. exact (IH H E).
Qed.
Lemma aset_nodup k v a : NoDup (map fst a) -> NoDup (map fst (aset k v a)).
Proof.
  intros H. rewrite aset_keys. unfold ahas. destruct (aget k a) eqn:E; [exact H|].
  apply NoDup_app_intro; [exact H|repeat constructor; intros []|].
  intros x Hx [<-|[]]. exact (aget_none_keys _ _ E Hx).
Qed.
Lemma merge_node_nodup off1 fo a a' : merge_node off1 fo a = Ok a' -> NoDup (map fst a) -> NoDup (map fst a').
Proof.
  unfold merge_node, bind. destruct (match aget (S "fragid") a with Some v => as_int v | None => Ok 0 end); [|discriminate].
  unfold shift_ez. destruct (aget (S "ez_isomer_atoms") _) as [v|]; [|intros H; inversion H; subst; now apply aset_nodup].
  destruct (as_list v) as [l|]; unfold bind; [|discriminate]. destruct l as [|x [|y r]]; try discriminate.
  destruct (as_int x); [|discriminate]. destruct (as_int y); [|discriminate].
  intros H Hn. inversion H; subst. now apply aset_nodup, aset_nodup.
Qed.
Lemma agood_set_fragid_nodup R v a : NoDup (map fst a) -> vok R v -> agood R (aset (S "fragid") v a).
Proof.
  intros Hn Hv. unfold agood. induction a as [|[k' v'] r IH]; cbn [aset]; [constructor; [intros _; exact Hv|constructor]|].
  cbn [map fst] in Hn.
  inversion Hn as [|? ? Hk Hr]; subst. destruct (str_eqb_spec (S "fragid") k') as [<-|N].
  - constructor; [intros _; exact Hv|]. apply Forall_forall. intros [k2 v2] Hin E. cbn in E. subst k2.
    exfalso. apply Hk. apply in_map_iff. exists (S "fragid", v2). auto.
  - constructor; [apply egood_other; congruence|now apply IH].
Qed.
Lemma agood_stamped R ck name t a : NoDup (map fst a) -> In ck R -> agood R (stamped ck name t a).
Proof.
  intros Hn Hc. unfold stamped. apply agood_aset; [other_key|]. apply agood_set_fragid_nodup; [exact Hn|].
  right. exists [VInt ck]. split; [reflexivity|]. repeat constructor. exists ck. auto.
Qed.
Lemma agood_weaken R R' a : (forall c, In c R -> In c R') -> agood R a -> agood R' a.
Proof.
  intros Hs. unfold agood. apply Forall_impl. intros [k v] He E. destruct (He E) as [->|[l [-> F]]]; [now left|].
  right. exists l. split; [reflexivity|]. eapply Forall_impl; [|exact F]. intros x [c [-> Hc]]. exists c. auto.
Qed.

Definition fine_inv2 (R : list Z) (mol : graph) : Prop :=
  NoDup (node_keys mol) /\ forall k a, node_attrs mol k = Ok a -> agood R a.

Lemma disc_step_inv2 fd R mol fgs mn mol2 fgs2 : wf_dict fd -> wf_attrs fd -> fine_inv2 R mol ->
  disc_step fd (mol, fgs) mn = Ok (mol2, fgs2) -> fine_inv2 (R ++ real_of fd mn) mol2.
Proof.
  intros Hw Hwa Hi H. unfold real_of.
  destruct (aget (S "fragname") (na mn)) as [fv|] eqn:Hf; [|unfold disc_step in H; rewrite Hf in H; discriminate].
  destruct (lookup_fragment fd fv) as [[name frag]|] eqn:Hl.
  - destruct (lookup_fragment_get _ _ _ _ Hl) as [_ Hg]. pose proof (Hw _ _ Hg) as Hwf.
    destruct (disc_step_real _ _ _ _ _ _ _ _ _ Hf Hl H) as [mol1 [corr [Hm Em]]].
    destruct (merge_graphs_keys _ _ _ _ Hm Hwf) as [Hk Hold].
    destruct (frag_copy _ _ _ _ Hm Hwf) as [off [fo [Ho [Ec Hc]]]].
    destruct Hi as [Hn Ha]. destruct Hwf as [Hnt _].
    assert (forall x, In x (node_keys mol) -> ~ In x (map snd corr)) as Hdisj.
    { intros x Hx Hv. subst corr. apply in_map_iff in Hv as [[t y] [Ey Hy]]. cbn in Ey. subst y.
      apply correspondence_fresh in Hy. pose proof (merge_offsets_max _ _ _ Ho _ Hx). lia. }
    assert (NoDup (map (fun n => map_get corr (nk n)) frag)) as Hnd
      by (subst corr; rewrite corr_values by exact Hnt; apply correspondence_injective).
    split.
    + subst mol2. rewrite stamp_keys, Hk. apply NoDup_app_intro; auto. subst corr. apply correspondence_injective.
    + intros k a E.
      assert (In k (node_keys mol2)) as Hin by (apply gfind_has; eapply node_attrs_has; exact E).
      subst mol2. rewrite stamp_keys, Hk, in_app_iff in Hin. destruct Hin as [Hin|Hin].
      * rewrite stamp_other in E.
        -- rewrite (Hold k Hin) in E. apply (agood_weaken R); [intros c Hc'; apply in_or_app; now left|]. exact (Ha k a E).
        -- intros X. apply (Hdisj k Hin). subst corr. rewrite <- corr_values by exact Hnt. exact X.
      * assert (In k (map (fun n => map_get corr (nk n)) frag)) as Hin' by (subst corr; rewrite corr_values by exact Hnt; exact Hin).
        apply in_map_iff in Hin' as [n [En Hn']]. subst k. destruct (Hc n Hn') as [a' [E1 E2]].
        rewrite (stamp_same (map_get corr) (nk mn) name frag mol1 Hnd n a' Hn' E2) in E. inversion E; subst a.
        apply agood_stamped; [|apply in_or_app; right; now left].
        eapply merge_node_nodup; [exact E1|]. exact (Hwa _ _ Hg n Hn').
  - unfold disc_step in H. rewrite Hf in H. unfold of_option, bind at 1 in H. rewrite Hl in H.
    destruct (virtual_ok mn); [|discriminate]. unfold bind in H. inversion H; subst. now rewrite app_nil_r.
Qed.

Theorem disconnected_inv2 fd : wf_dict fd -> wf_attrs fd -> forall l R mol0 fgs0 mol fgs, fine_inv2 R mol0 ->
  GraphOps.fold_res (disc_step fd) l (mol0, fgs0) = Ok (mol, fgs) -> fine_inv2 (R ++ flat_map (real_of fd) l) mol.
Proof.
  intros Hw Hwa. induction l as [|mn r IH]; intros R mol0 fgs0 mol fgs Hi H.
  - cbn in H. inversion H; subst. cbn. now rewrite app_nil_r.
  - change (GraphOps.fold_res (disc_step fd) (mn :: r) (mol0, fgs0))
      with (b' <- disc_step fd (mol0, fgs0) mn ;; GraphOps.fold_res (disc_step fd) r b') in H.
    destruct (disc_step fd (mol0, fgs0) mn) as [[m1 f1]|] eqn:E; [|discriminate]. unfold bind in H.
    change (flat_map (real_of fd) (mn :: r)) with (real_of fd mn ++ flat_map (real_of fd) r).
    rewrite app_assoc. eapply IH; [|exact H]. eapply disc_step_inv2; eauto.
Qed.
Lemma fine2_fid R g : fine_inv2 R g -> fid_inv R g.
Proof.
  intros [Hn Ha]. unfold fid_inv. apply Forall_forall. intros n Hin. apply (Ha (nk n)).
  unfold node_attrs. now rewrite (gfind_in g Hn n Hin).
Qed.
(** the molecule resolve_disconnected_molecule builds satisfies the invariant for R = the coarse nodes with a fragment *)
Theorem inv_disconnected fd meta mol fgs : wf_dict fd -> wf_attrs fd -> resolve_disconnected fd meta = Ok (mol, fgs) ->
  fid_inv (flat_map (real_of fd) meta) mol.
Proof.
  intros Hw Hwa H. apply fine2_fid. apply (disconnected_inv2 fd Hw Hwa meta [] gempty [] mol fgs); [|exact H].
  split; [constructor|]. intros k a E. discriminate.
Qed.

(** ---------------------------------------------------------------- the whole step *)
Theorem step_fid_inv legacy aa fd prev car fo : wf_dict fd -> wf_attrs fd ->
  resolve_step_full legacy aa fd prev car = Ok fo ->
  fid_inv (flat_map (real_of fd) (fo_meta fo)) (fo_mol fo).
Proof.
  intros Hw Hwa. unfold resolve_step_full.
  set (meta := set_nodes_from prev (S "fragname") (get_node_attributes prev (S "atomname"))).
  set (R := flat_map (real_of fd) meta).
  destruct (resolve_disconnected fd meta) as [[m1 fg1]|] eqn:E1; [|discriminate]. unfold bind at 1.
  pose proof (inv_disconnected fd meta m1 fg1 Hw Hwa E1) as I1. fold R in I1.
  destruct (bonding_step legacy aa meta m1 fg1) as [[m2 fg2]|] eqn:E2; [|discriminate]. unfold bind at 1.
  pose proof (inv_bonding R _ _ _ _ _ _ _ I1 E2) as I2.
  destruct (Squash.squash_atoms m2) as [m3|] eqn:E3; [|discriminate]. unfold bind at 1.
  pose proof (inv_squash R _ _ I2 E3) as I3.
  destruct (if aa then Hydrogens.rebuild_h_atoms_default m3 car else Ok m3) as [m4|] eqn:E4; [|discriminate]. unfold bind at 1.
  assert (fid_inv R m4) as I4.
  { destruct aa; [|inversion E4; now subst]. unfold Hydrogens.rebuild_h_atoms_default, Hydrogens.rebuild_h_atoms in E4.
    destruct car as [g1|]; [|discriminate]. destruct (Hydrogens.transcript_contract m3 g1) eqn:Ec; [|discriminate].
    eapply inv_rebuild_after_car; [|exact E4]. eapply inv_transcript; eauto. }
  destruct (sort_nodes_by_attr m4) as [m5|] eqn:E5; [|discriminate]. unfold bind at 1.
  pose proof (inv_sort R _ _ I4 E5) as I5.
  destruct (if aa then EzImpl.annotate_ez_isomers_cgsmiles m5 else Ok m5) as [m6|] eqn:E6; [|discriminate]. unfold bind at 1.
  assert (fid_inv R m6) as I6 by (destruct aa; [eapply inv_ez; eauto|inversion E6; now subst]).
  destruct (annotate_fragments meta m6) as [fgs|]; [|discriminate]. unfold bind at 1.
  destruct (if aa then set_atom_names m6 meta fgs else Ok (m6, fgs)) as [[m7 fgs']|] eqn:E7; [|discriminate]. unfold bind.
  intros H. inversion H; subst. cbn [fo_meta fo_mol].
  destruct aa; [eapply inv_set_atom_names; eauto|inversion E7; now subst].
Qed.

(** consequences for the RETURNED graphs of a whole step *)
Lemma records_good R mol n k : fid_inv R mol -> records mol n k -> In k R.
Proof.
  intros Hi [v [l [Hin [El Hk]]]]. destruct (gna_in _ _ _ _ Hin) as [r [Hr [_ Ev]]].
  pose proof (agood_get R (na r) v (inv_node_in R mol r Hi Hr) Ev) as [->|[l' [-> F]]]; [discriminate|].
  cbn in El. inversion El; subst. rewrite Forall_forall in F. destruct (F _ Hk) as [c [E Hc]]. inversion E; subst. exact Hc.
Qed.
(** every membership the returned fine graph records is the key of a coarse node with a fragment *)
Theorem step_records_real legacy aa fd prev car fo n k : wf_dict fd -> wf_attrs fd ->
  resolve_step_full legacy aa fd prev car = Ok fo -> records (fo_mol fo) n k -> In k (flat_map (real_of fd) (fo_meta fo)).
Proof. intros Hw Hwa H. apply records_good. eapply step_fid_inv; eauto. Qed.

(** ---------------------------------------------------------------- the returned coarse graphs *)
Lemma step_tail legacy aa fd prev car fo : wf_dict fd -> wf_attrs fd -> resolve_step_full legacy aa fd prev car = Ok fo ->
  fid_inv (flat_map (real_of fd) (fo_meta fo)) (fo_m6 fo) /\
  exists fgs0, annotate_fragments (fo_meta fo) (fo_m6 fo) = Ok fgs0 /\
    (if aa then set_atom_names (fo_m6 fo) (fo_meta fo) fgs0 = Ok (fo_mol fo, fo_fgs fo)
     else fo_mol fo = fo_m6 fo /\ fo_fgs fo = fgs0).
Proof.
  intros Hw Hwa. unfold resolve_step_full.
  set (meta := set_nodes_from prev (S "fragname") (get_node_attributes prev (S "atomname"))).
  set (R := flat_map (real_of fd) meta).
  destruct (resolve_disconnected fd meta) as [[m1 fg1]|] eqn:E1; [|discriminate]. unfold bind at 1.
  pose proof (inv_disconnected fd meta m1 fg1 Hw Hwa E1) as I1. fold R in I1.
  destruct (bonding_step legacy aa meta m1 fg1) as [[m2 fg2]|] eqn:E2; [|discriminate]. unfold bind at 1.
  pose proof (inv_bonding R _ _ _ _ _ _ _ I1 E2) as I2.
  destruct (Squash.squash_atoms m2) as [m3|] eqn:E3; [|discriminate]. unfold bind at 1.
  pose proof (inv_squash R _ _ I2 E3) as I3.
  destruct (if aa then Hydrogens.rebuild_h_atoms_default m3 car else Ok m3) as [m4|] eqn:E4; [|discriminate]. unfold bind at 1.
  assert (fid_inv R m4) as I4.
  { destruct aa; [|inversion E4; now subst]. unfold Hydrogens.rebuild_h_atoms_default, Hydrogens.rebuild_h_atoms in E4.
    destruct car as [g1|]; [|discriminate]. destruct (Hydrogens.transcript_contract m3 g1) eqn:Ec; [|discriminate].
    eapply inv_rebuild_after_car; [|exact E4]. eapply inv_transcript; eauto. }
  destruct (sort_nodes_by_attr m4) as [m5|] eqn:E5; [|discriminate]. unfold bind at 1.
  pose proof (inv_sort R _ _ I4 E5) as I5.
  destruct (if aa then EzImpl.annotate_ez_isomers_cgsmiles m5 else Ok m5) as [m6|] eqn:E6; [|discriminate]. unfold bind at 1.
  assert (fid_inv R m6) as I6 by (destruct aa; [eapply inv_ez; eauto|inversion E6; now subst]).
  destruct (annotate_fragments meta m6) as [fgs|] eqn:E7; [|discriminate]. unfold bind at 1.
  destruct (if aa then set_atom_names m6 meta fgs else Ok (m6, fgs)) as [[m7 fgs']|] eqn:E8; [|discriminate]. unfold bind.
  intros H. inversion H; subst. cbn [fo_meta fo_mol fo_m6 fo_fgs]. split; [exact I6|]. exists fgs. split; [exact E7|].
  destruct aa; [exact E8|inversion E8; auto].
Qed.

(** the node sets of the coarse graphs are not touched by the atom naming *)
Definition fg_keys (fgs : fgraphs) : list (Z * list Z) := map (fun kg => (fst kg, node_keys (snd kg))) fgs.
Lemma fg_set_keys mn g g' : forall fgs, fg_get mn fgs = Some g -> node_keys g' = node_keys g -> fg_keys (fg_set mn g' fgs) = fg_keys fgs.
Proof.
  induction fgs as [|[k h] r IH]; cbn [fg_get fg_set]; [discriminate|]. destruct (Z.eqb mn k).
  - intros H E. inversion H; subst. unfold fg_keys. cbn [map fst snd]. now rewrite E.
  - intros H E. unfold fg_keys in *. cbn [map fst snd]. now rewrite IH.
Qed.
Lemma name_node_fgkeys mn used st node st' : name_node mn used st node = Ok st' -> fg_keys (ns_fgs (fst st')) = fg_keys (ns_fgs (fst st)).
Proof.
  destruct st as [[[[mol fgs] named] shn] idx]. intros H.
  destruct (name_node_inv _ _ _ _ _ _ _ _ _ H) as (mol1 & named1 & shn1 & idx1 & a1 & nm & _ & _ & _ & ->). cbn.
  destruct (fg_get mn fgs) eqn:Eg; [|reflexivity]. eapply fg_set_keys; [exact Eg|apply keys_set].
Qed.
Lemma set_atom_names_keys mol meta fgs mol' fgs' : set_atom_names mol meta fgs = Ok (mol', fgs') -> fg_keys fgs' = fg_keys fgs.
Proof.
  unfold set_atom_names, bind.
  destruct (GraphOps.fold_res name_group2 (fraglist_of meta fgs) (mol, fgs, [], [])) as [r|] eqn:E; [|discriminate].
  intros H. apply ok_some in H. injection H as H1 H2. subst fgs'.
  apply (fold_res_inv (fun st : nstate => fg_keys (ns_fgs st) = fg_keys fgs) name_group2 _) with (st := (mol, fgs, [], [])) (st' := r) in E; [exact E| |reflexivity].
  intros st grp st' Hs Hn. unfold name_group2 in Hn. destruct st as [[[m f] nd] sn].
  destruct (used_names m nd (snd grp)) as [used|]; cbn [bind] in Hn; [|discriminate Hn].
  match type of Hn with bind ?x _ = _ => destruct x as [r2|] eqn:E2 end; cbn [bind] in Hn; [|discriminate Hn].
  apply ok_some in Hn. subst st'.
  apply (fold_res_inv (fun st : nstate * Z => fg_keys (ns_fgs (fst st)) = fg_keys fgs) (name_node (fst grp) used) _) with (st := (m, f, nd, sn, 0)) (st' := r2) in E2;
    [exact E2| |exact Hs].
  intros s1 x s2 Hk1 Hx. now rewrite (name_node_fgkeys _ _ _ _ _ Hx).
Qed.

(** C11_virtual_empty for the RETURNED graphs of a whole (end-to-end) step: the coarse graph of a fragment-less
    node, wherever it stands in the coarse graph, has no node *)
Theorem step_virtual_empty legacy aa fd prev car fo mv g : wf_dict fd -> wf_attrs fd ->
  resolve_step_full legacy aa fd prev car = Ok fo ->
  NoDup (node_keys (fo_meta fo)) -> In mv (fo_meta fo) -> real_of fd mv = [] ->
  In (nk mv, g) (fo_fgs fo) -> node_keys g = [].
Proof.
  intros Hw Hwa H Hn Hin Hv Hg. destruct (step_tail _ _ _ _ _ _ Hw Hwa H) as [I6 [fgs0 [Ea Ht]]].
  assert (In (nk mv, node_keys g) (fg_keys fgs0)) as Hk.
  { assert (fg_keys (fo_fgs fo) = fg_keys fgs0) as <-.
    { destruct aa; [eapply set_atom_names_keys; exact Ht|destruct Ht as [_ ->]; reflexivity]. }
    unfold fg_keys. apply in_map_iff. exists (nk mv, g). auto. }
  unfold fg_keys in Hk. apply in_map_iff in Hk as [[k g0] [E Hg0]]. cbn [fst snd] in E. injection E as E1 E2. subst k. rewrite <- E2.
  destruct (node_keys g0) as [|n r] eqn:En; [reflexivity|]. exfalso.
  apply (virtual_not_recorded fd (fo_meta fo) mv Hn Hin Hv).
  apply (records_good _ (fo_m6 fo) n (nk mv) I6). apply (frag_exact _ _ _ Ea (nk mv) g0 Hg0 n). rewrite En. now left.
Qed.
(** frag_exact for the RETURNED coarse graphs: coarse node k carries exactly the fine nodes (of the graph handed
    to annotate_fragments; the atom naming changes no key and no fragid) whose fragid lists k, and k is the key
    of a coarse node with a fragment whenever the graph is not empty *)
Theorem step_frag_exact legacy aa fd prev car fo k g : wf_dict fd -> wf_attrs fd ->
  resolve_step_full legacy aa fd prev car = Ok fo -> In (k, g) (fo_fgs fo) ->
  forall n, In n (node_keys g) -> records (fo_m6 fo) n k /\ In k (flat_map (real_of fd) (fo_meta fo)).
Proof.
  intros Hw Hwa H Hg n Hn. destruct (step_tail _ _ _ _ _ _ Hw Hwa H) as [I6 [fgs0 [Ea Ht]]].
  assert (In (k, node_keys g) (fg_keys fgs0)) as Hk.
  { assert (fg_keys (fo_fgs fo) = fg_keys fgs0) as <-.
    { destruct aa; [eapply set_atom_names_keys; exact Ht|destruct Ht as [_ ->]; reflexivity]. }
    unfold fg_keys. apply in_map_iff. exists (k, g). auto. }
  unfold fg_keys in Hk. apply in_map_iff in Hk as [[k0 g0] [E Hg0]]. cbn [fst snd] in E. injection E as E1 E2. subst k0. rewrite <- E2 in Hn.
  assert (records (fo_m6 fo) n k) as Hr by (apply (frag_exact _ _ _ Ea k g0 Hg0 n); exact Hn).
  split; [exact Hr|exact (records_good _ _ n k I6 Hr)].
Qed.

(** the exact form: coarse node k's returned graph holds EXACTLY the fine nodes recording k, and every coarse node
    has a returned graph (frag_exact / frag_keys for the returned graphs) *)
Theorem step_frag_exact_iff legacy aa fd prev car fo k g : wf_dict fd -> wf_attrs fd ->
  resolve_step_full legacy aa fd prev car = Ok fo -> In (k, g) (fo_fgs fo) ->
  exists g0 fgs0, annotate_fragments (fo_meta fo) (fo_m6 fo) = Ok fgs0 /\ In (k, g0) fgs0 /\ node_keys g = node_keys g0 /\
    forall n, In n (node_keys g0) <-> records (fo_m6 fo) n k.
Proof.
  intros Hw Hwa H Hg. destruct (step_tail _ _ _ _ _ _ Hw Hwa H) as [I6 [fgs0 [Ea Ht]]].
  assert (In (k, node_keys g) (fg_keys fgs0)) as Hk.
  { assert (fg_keys (fo_fgs fo) = fg_keys fgs0) as <-.
    { destruct aa; [eapply set_atom_names_keys; exact Ht|destruct Ht as [_ ->]; reflexivity]. }
    unfold fg_keys. apply in_map_iff. exists (k, g). auto. }
  unfold fg_keys in Hk. apply in_map_iff in Hk as [[k0 g0] [E Hg0]]. cbn [fst snd] in E. injection E as E1 E2. subst k0.
  exists g0, fgs0. split; [exact Ea|]. split; [exact Hg0|]. split; [now symmetry|]. intros x. apply (frag_exact _ _ _ Ea k g0 Hg0 x).
Qed.
Theorem step_frag_keys legacy aa fd prev car fo : wf_dict fd -> wf_attrs fd ->
  resolve_step_full legacy aa fd prev car = Ok fo -> map fst (fo_fgs fo) = node_keys (fo_meta fo).
Proof.
  intros Hw Hwa H. destruct (step_tail _ _ _ _ _ _ Hw Hwa H) as [_ [fgs0 [Ea Ht]]].
  rewrite <- (frag_keys _ _ _ Ea).
  assert (fg_keys (fo_fgs fo) = fg_keys fgs0) as E.
  { destruct aa; [eapply set_atom_names_keys; exact Ht|destruct Ht as [_ ->]; reflexivity]. }
  unfold fg_keys in E. apply (f_equal (map fst)) in E. rewrite !map_map in E. exact E.
Qed.
