(** C02Check: oracle and correspondence for C02 on one recorded resolve() call. *)
From Coq Require Import String.
From Coq Require Import List Ascii ZArith Bool Lia.
From CGV Require Import Base.PyBase Base.PyVal Base.NxGraph Resolve.Bonding Resolve.GraphOps Resolve.Pipeline
     Resolve.StepCheck Resolve.PipelineFull Resolve.FullCheck Resolve.MapDefs Resolve.NxCheck.
Import ListNotations.
Open Scope Z_scope.

Inductive case := KStep (c : stepcase) | KNx (c : nxcase).
Definition corr_ok (c : case) : bool :=
  match c with KStep s => step_corr s && full_corr s | KNx n => nx_corr n end.

(** (pre, post) graphs of rebuild_h_atoms: the aromaticity transcript *)
Definition c02_pp (c : stepcase) : option (graph * graph) :=
  if sc_aa c then
    match tr_hyd (sc_tr c) with
    | Some post =>
        match tr_squash (sc_tr c) with
        | Some pre => Some (pre, post)
        | None => match sc_m2 c with Some pre => Some (pre, post) | None => None end
        end
    | None => None
    end
  else None.

(** 0 = every clause of C02 holds on what the implementation returned (a raised call is not judged) *)
Definition step_fail (c : stepcase) : nat :=
  match sc_out c with
  | None => 0%nat
  | Some (fgs, mol) => holds_C02 (sc_aa c) (c02_pp c) (sc_fd c) (sc_meta c) mol fgs
  end.
Definition prop_fail (c : case) : nat := match c with KStep s => step_fail s | KNx _ => 0%nat end.
Definition in_class (c : case) : bool :=
  match c with KStep s => virtual_not_last (sc_fd s) (sc_meta s) | KNx _ => false end.
