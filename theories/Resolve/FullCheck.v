(** FullCheck: whole-step correspondence of the END-TO-END model (Resolve/PipelineFull.v) with one recorded
    resolve() call: model(input, aromaticity transcript) = every recorded intermediate and the returned fine
    graph and coarse 'graph' attributes.  'ez_isomer' lists are compared as multisets (pysmiles iterates a
    set there, see Stereo/EzImpl.v).  No proofs. *)
From Coq Require Import String.
From Coq Require Import List Ascii ZArith Bool Lia.
From CGV Require Import Base.PyBase Base.PyVal Base.NxGraph Resolve.Bonding Resolve.GraphOps Resolve.Pipeline
     Resolve.PipelineFull Resolve.StepCheck.
From CGV Require Stereo.EzCheck.
Import ListNotations.
Open Scope Z_scope.

Definition opt_ez_eqb (g : graph) (o : option graph) : bool :=
  match o with Some h => EzCheck.graph_ez_eqb g h | None => false end.
Fixpoint fgraphs_ez_eqb (a b : fgraphs) : bool :=
  match a, b with
  | [], [] => true
  | (k, g) :: a', (k', g') :: b' => Z.eqb k k' && EzCheck.graph_ez_eqb g g' && fgraphs_ez_eqb a' b'
  | _, _ => false
  end.

Definition run_full (c : stepcase) : res full_out :=
  resolve_step_full (sc_legacy c) (sc_aa c) (sc_fd c) (sc_prev c) (sc_car c).

(** 0 = the end-to-end model agrees; otherwise the first stage that differs
    (2 bonding, 3 squash, 4 rebuild_h, 5 sort, 6 ez, 7 coarse graphs, 8 fine graph, 10 = Ok/Err or exception class) *)
Definition full_diag (c : stepcase) : nat :=
  match run_full c with
  | Ok fo =>
      if negb (Nat.eqb (sc_stage c) 0) then 10%nat
      else if negb (opt_graph_eqb (fo_m2 fo) (sc_m2 c)) then 2%nat
      else if negb (match tr_squash (sc_tr c) with Some g => graph_eqb (fo_m3 fo) g | None => opt_graph_eqb (fo_m3 fo) (sc_m2 c) end) then 3%nat
      else if sc_aa c && negb (opt_graph_eqb (fo_m4 fo) (tr_hyd (sc_tr c))) then 4%nat
      else if negb (opt_graph_eqb (fo_m5 fo) (sc_m5 c)) then 5%nat
      else if negb (match tr_ez (sc_tr c) with Some g => EzCheck.graph_ez_eqb (fo_m6 fo) g | None => opt_graph_eqb (fo_m6 fo) (sc_m5 c) end) then 6%nat
      else match sc_out c with
           | Some (fgs, mol) => if negb (EzCheck.graph_ez_eqb (fo_mol fo) mol) then 8%nat
                                else if negb (fgraphs_ez_eqb (fo_fgs fo) fgs) then 7%nat else 0%nat
           | None => 10%nat
           end
  | Err e => if negb (Nat.eqb (sc_stage c) 0) && err_matches e (sc_exc c) then 0%nat else 10%nat
  end.
Definition full_corr (c : stepcase) : bool := Nat.eqb (full_diag c) 0.
